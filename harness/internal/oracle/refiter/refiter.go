// Package refiter holds naive reference enumerations of the combinatorial
// families advertised by github.com/Tom-Johnston/mamba/itertools, each in the
// order that the documentation of the library fixes (or in lexicographic order
// where none is documented; the monitor then compares as sets).  It shares no
// code with the library: everything is a plain recursion that builds the
// objects position by position, plus independent comparators used by the
// self-checks to validate the orders and the published counts.
package refiter

import (
	"fmt"
	"sort"

	"verif/internal/selfcheck"
)

func cp(a []int) []int { return append(make([]int, 0, len(a)), a...) }

// LexLess is the lexicographic order on integer sequences (a proper prefix is smaller).
func LexLess(a, b []int) bool {
	for i := 0; i < len(a) && i < len(b); i++ {
		if a[i] != b[i] {
			return a[i] < b[i]
		}
	}
	return len(a) < len(b)
}

// ColexLess compares two sequences of equal length from the last position backwards.
func ColexLess(a, b []int) bool {
	for i := len(a) - 1; i >= 0; i-- {
		if a[i] != b[i] {
			return a[i] < b[i]
		}
	}
	return false
}

// Combinations returns the k-subsets of {0..n-1}, each increasing, in lexicographic order.
// k > n gives no object, k = 0 gives the empty set.
func Combinations(n, k int) [][]int {
	var out [][]int
	cur := make([]int, 0, k)
	var rec func(from int)
	rec = func(from int) {
		if len(cur) == k {
			out = append(out, cp(cur))
			return
		}
		// v may not be so large that fewer than k-len(cur) elements remain
		for v := from; v <= n-(k-len(cur)); v++ {
			cur = append(cur, v)
			rec(v + 1)
			cur = cur[:len(cur)-1]
		}
	}
	if k >= 0 {
		rec(0)
	}
	return out
}

// FirstCombinations returns the first limit k-subsets of {0..n-1} in lexicographic order.
func FirstCombinations(n, k, limit int) [][]int {
	var out [][]int
	cur := make([]int, 0, k)
	var rec func(from int)
	rec = func(from int) {
		if len(out) >= limit {
			return
		}
		if len(cur) == k {
			out = append(out, cp(cur))
			return
		}
		for v := from; v <= n-(k-len(cur)) && len(out) < limit; v++ {
			cur = append(cur, v)
			rec(v + 1)
			cur = cur[:len(cur)-1]
		}
	}
	if k >= 0 {
		rec(0)
	}
	return out
}

// Binomial returns C(n,k) (exact while the result fits an int).
func Binomial(n, k int) int {
	if k < 0 || k > n {
		return 0
	}
	if n-k < k {
		k = n - k
	}
	r := 1
	for i := 1; i <= k; i++ {
		r = r * (n - k + i) / i
	}
	return r
}

// CombinationsColex returns the k-subsets of {0..n-1} in colexicographic order
// (the lexicographic list, stably sorted with the colex comparator).
func CombinationsColex(n, k int) [][]int {
	out := Combinations(n, k)
	sort.SliceStable(out, func(i, j int) bool { return ColexLess(out[i], out[j]) })
	return out
}

// EachPermutation calls f with every permutation of {0..n-1} in lexicographic
// order; the slice is reused.  n = 0 gives one call with the empty permutation.
func EachPermutation(n int, f func(p []int)) {
	used := make([]bool, n)
	cur := make([]int, 0, n)
	var rec func()
	rec = func() {
		if len(cur) == n {
			f(cur)
			return
		}
		for v := 0; v < n; v++ {
			if used[v] {
				continue
			}
			used[v] = true
			cur = append(cur, v)
			rec()
			cur = cur[:len(cur)-1]
			used[v] = false
		}
	}
	rec()
}

// FirstPermutations returns the first limit permutations of {0..n-1} in lexicographic order.
func FirstPermutations(n, limit int) [][]int {
	return RestrictedPermutations(n, func([]int) bool { return true }, limit)
}

// RestrictedPermutations returns, in lexicographic order, the permutations of
// {0..n-1} all of whose non-empty prefixes are accepted by pred, by a
// depth-first search that extends a prefix only when it is accepted (the same
// set as FilterPrefixes(Permutations(n), pred), usable for large n when few
// prefixes are accepted).  limit > 0 stops after that many objects.
func RestrictedPermutations(n int, pred func([]int) bool, limit int) [][]int {
	var out [][]int
	used := make([]bool, n)
	cur := make([]int, 0, n)
	var rec func()
	rec = func() {
		if limit > 0 && len(out) >= limit {
			return
		}
		if len(cur) == n {
			out = append(out, cp(cur))
			return
		}
		for v := 0; v < n; v++ {
			if used[v] {
				continue
			}
			cur = append(cur, v)
			if pred(cur) {
				used[v] = true
				rec()
				used[v] = false
			}
			cur = cur[:len(cur)-1]
		}
	}
	rec()
	return out
}

// LinearExtensions returns, in lexicographic order, the permutations of
// {0..n-1} in which i stands before j for every pair (i,j) of rel: position by
// position, an element may be placed once all the elements that have to stand
// before it are placed.  The same set as FilterTopological(Permutations(n), rel).
func LinearExtensions(n int, rel [][2]int) [][]int {
	waiting := make([]int, n) // number of unplaced elements that must precede
	after := make([][]int, n)
	for _, e := range rel {
		waiting[e[1]]++
		after[e[0]] = append(after[e[0]], e[1])
	}
	var out [][]int
	placed := make([]bool, n)
	cur := make([]int, 0, n)
	var rec func()
	rec = func() {
		if len(cur) == n {
			out = append(out, cp(cur))
			return
		}
		for v := 0; v < n; v++ {
			if placed[v] || waiting[v] != 0 {
				continue
			}
			placed[v] = true
			for _, w := range after[v] {
				waiting[w]--
			}
			cur = append(cur, v)
			rec()
			cur = cur[:len(cur)-1]
			for _, w := range after[v] {
				waiting[w]++
			}
			placed[v] = false
		}
	}
	rec()
	return out
}

// Permutations returns all permutations of {0..n-1} in lexicographic order.
func Permutations(n int) [][]int {
	var out [][]int
	EachPermutation(n, func(p []int) { out = append(out, cp(p)) })
	return out
}

// MultisetPermutations returns all arrangements of the multiset with freq[i]
// copies of i, in lexicographic order (position by position, least value first).
func MultisetPermutations(freq []int) [][]int {
	left := cp(freq)
	total := 0
	for _, f := range freq {
		if f > 0 {
			total += f
		}
	}
	var out [][]int
	cur := make([]int, 0, total)
	var rec func()
	rec = func() {
		if len(cur) == total {
			out = append(out, cp(cur))
			return
		}
		for v := range left {
			if left[v] <= 0 {
				continue
			}
			left[v]--
			cur = append(cur, v)
			rec()
			cur = cur[:len(cur)-1]
			left[v]++
		}
	}
	rec()
	return out
}

// MultisetCombinationsFreq returns every vector v with 0 <= v[i] <= m[i] and
// sum(v) = k, in lexicographic order of v (no order is documented by the library).
func MultisetCombinationsFreq(m []int, k int) [][]int {
	var out [][]int
	cur := make([]int, 0, len(m))
	room := make([]int, len(m)+1) // room[i] = m[i] + ... + m[len(m)-1]
	for i := len(m) - 1; i >= 0; i-- {
		room[i] = room[i+1] + m[i]
	}
	var rec func(rest int)
	rec = func(rest int) {
		if rest > room[len(cur)] {
			return // the remaining types cannot take that many
		}
		if len(cur) == len(m) {
			if rest == 0 {
				out = append(out, cp(cur))
			}
			return
		}
		for c := 0; c <= m[len(cur)] && c <= rest; c++ {
			cur = append(cur, c)
			rec(rest - c)
			cur = cur[:len(cur)-1]
		}
	}
	if k >= 0 {
		rec(k)
	}
	return out
}

// FreqToMultiset expands a frequency vector into the sorted multiset.
func FreqToMultiset(v []int) []int {
	out := []int{}
	for i, c := range v {
		for j := 0; j < c; j++ {
			out = append(out, i)
		}
	}
	return out
}

// RestrictedGrowthStrings returns all restricted growth strings of length n
// (a[0] = 0, a[i] <= 1 + max(a[0..i-1])) in lexicographic order: one per set
// partition of {0..n-1}.  n = 0 gives the single empty string.
func RestrictedGrowthStrings(n int) [][]int {
	var out [][]int
	cur := make([]int, 0, n)
	var rec func(max int)
	rec = func(max int) {
		if len(cur) == n {
			out = append(out, cp(cur))
			return
		}
		for v := 0; v <= max+1; v++ {
			cur = append(cur, v)
			nm := max
			if v > max {
				nm = v
			}
			rec(nm)
			cur = cur[:len(cur)-1]
		}
	}
	rec(-1)
	return out
}

// RGSOfPartition turns a list of blocks into the restricted growth string of
// the set partition they form on {0..n-1} (blocks numbered by least element),
// or reports why the blocks are not a partition of {0..n-1} into non-empty sets.
func RGSOfPartition(n int, blocks [][]int) ([]int, string) {
	owner := make([]int, n)
	for i := range owner {
		owner[i] = -1
	}
	for bi, b := range blocks {
		if len(b) == 0 {
			return nil, fmt.Sprintf("block %d is empty", bi)
		}
		for _, x := range b {
			if x < 0 || x >= n {
				return nil, fmt.Sprintf("element %d outside 0..%d", x, n-1)
			}
			if owner[x] != -1 {
				return nil, fmt.Sprintf("element %d occurs twice", x)
			}
			owner[x] = bi
		}
	}
	rgs := make([]int, n)
	label := map[int]int{}
	for x := 0; x < n; x++ {
		if owner[x] == -1 {
			return nil, fmt.Sprintf("element %d is in no block", x)
		}
		l, ok := label[owner[x]]
		if !ok {
			l = len(label)
			label[owner[x]] = l
		}
		rgs[x] = l
	}
	return rgs, ""
}

// IntegerPartitions returns all ways of writing n as a sum of positive
// integers in non-increasing order, in reverse lexicographic order
// (n itself first, 1+1+...+1 last).  n = 0 gives the single empty sum.
func IntegerPartitions(n int) [][]int {
	var out [][]int
	cur := []int{}
	var rec func(rest, max int)
	rec = func(rest, max int) {
		if rest == 0 {
			out = append(out, cp(cur))
			return
		}
		for p := max; p >= 1; p-- {
			if p > rest {
				continue
			}
			cur = append(cur, p)
			rec(rest-p, p)
			cur = cur[:len(cur)-1]
		}
	}
	rec(n, n)
	return out
}

// FirstIntegerPartitions returns the first limit partitions of n in reverse lexicographic order.
func FirstIntegerPartitions(n, limit int) [][]int {
	var out [][]int
	cur := []int{}
	var rec func(rest, max int)
	rec = func(rest, max int) {
		if len(out) >= limit {
			return
		}
		if rest == 0 {
			out = append(out, cp(cur))
			return
		}
		if max > rest {
			max = rest
		}
		for p := max; p >= 1 && len(out) < limit; p-- {
			cur = append(cur, p)
			rec(rest-p, p)
			cur = cur[:len(cur)-1]
		}
	}
	rec(n, n)
	return out
}

// Product returns {0..d[0]-1} x ... x {0..d[m-1]-1} in lexicographic
// (odometer, last coordinate fastest) order.  No factor gives the single empty
// tuple; a factor < 1 gives nothing.
func Product(d []int) [][]int {
	var out [][]int
	cur := make([]int, 0, len(d))
	var rec func()
	rec = func() {
		if len(cur) == len(d) {
			out = append(out, cp(cur))
			return
		}
		for v := 0; v < d[len(cur)]; v++ {
			cur = append(cur, v)
			rec()
			cur = cur[:len(cur)-1]
		}
	}
	rec()
	return out
}

// FilterPrefixes keeps the objects all of whose non-empty prefixes are accepted.
func FilterPrefixes(objs [][]int, pred func([]int) bool) [][]int {
	var out [][]int
	for _, o := range objs {
		ok := true
		for l := 1; l <= len(o); l++ {
			if !pred(o[:l]) {
				ok = false
				break
			}
		}
		if ok {
			out = append(out, o)
		}
	}
	return out
}

// Standardise replaces the entries of a sequence of distinct integers by their ranks.
func Standardise(p []int) []int {
	r := make([]int, len(p))
	for i, v := range p {
		for _, w := range p {
			if w < v {
				r[i]++
			}
		}
	}
	return r
}

// FilterPatterns keeps the permutations all of whose standardised non-empty prefixes are accepted.
func FilterPatterns(perms [][]int, pred func([]int) bool) [][]int {
	var out [][]int
	for _, p := range perms {
		ok := true
		for l := 1; l <= len(p); l++ {
			if !pred(Standardise(p[:l])) {
				ok = false
				break
			}
		}
		if ok {
			out = append(out, p)
		}
	}
	return out
}

// PatternDFS follows the documented definition of itertools.PermutationsByPattern
// literally: start from the empty permutation; the children of a permutation P
// of length l < n are obtained by appending x in {0..l} after increasing by one
// every entry of P that is at least x; the children of a node that fails pred
// are pruned; the permutations of length n that pass are returned (children in
// increasing x).  pred is not consulted for the empty root.
func PatternDFS(n int, pred func([]int) bool) [][]int {
	var out [][]int
	var rec func(p []int)
	rec = func(p []int) {
		if len(p) == n {
			out = append(out, cp(p))
			return
		}
		for x := 0; x <= len(p); x++ {
			child := make([]int, 0, len(p)+1)
			for _, v := range p {
				if v >= x {
					v++
				}
				child = append(child, v)
			}
			child = append(child, x)
			if pred(child) {
				rec(child)
			}
		}
	}
	rec([]int{})
	return out
}

// FilterTopological keeps the permutations p in which i stands before j for every pair (i,j) of rel.
func FilterTopological(perms [][]int, rel [][2]int) [][]int {
	var out [][]int
	for _, p := range perms {
		pos := make([]int, len(p))
		for i, v := range p {
			pos[v] = i
		}
		ok := true
		for _, e := range rel {
			if pos[e[0]] >= pos[e[1]] {
				ok = false
				break
			}
		}
		if ok {
			out = append(out, p)
		}
	}
	return out
}

// Inverse returns the inverse of a permutation of {0..n-1}, or nil if p is not one.
func Inverse(p []int) []int {
	inv := make([]int, len(p))
	for i := range inv {
		inv[i] = -1
	}
	for i, v := range p {
		if v < 0 || v >= len(p) || inv[v] != -1 {
			return nil
		}
		inv[v] = i
	}
	return inv
}

// ---------------------------------------------------------------------------
// self-checks against published values

func binom(n, k int) int {
	if k < 0 || k > n {
		return 0
	}
	row := make([]int, n+2)
	row[0] = 1
	for i := 1; i <= n; i++ {
		for j := i; j >= 1; j-- {
			row[j] += row[j-1]
		}
	}
	return row[k]
}

func fact(n int) int {
	r := 1
	for i := 2; i <= n; i++ {
		r *= i
	}
	return r
}

func strictlyIncreasing(name string, objs [][]int, less func(a, b []int) bool) error {
	for i := 1; i < len(objs); i++ {
		if !less(objs[i-1], objs[i]) {
			return fmt.Errorf("%s: objects %d %v and %d %v are not in strictly increasing order", name, i-1, objs[i-1], i, objs[i])
		}
	}
	return nil
}

func same(a, b [][]int) bool { return fmt.Sprint(a) == fmt.Sprint(b) }

func sameSet(a, b [][]int) bool {
	x := make([]string, len(a))
	y := make([]string, len(b))
	for i := range a {
		x[i] = fmt.Sprint(a[i])
	}
	for i := range b {
		y[i] = fmt.Sprint(b[i])
	}
	sort.Strings(x)
	sort.Strings(y)
	return fmt.Sprint(x) == fmt.Sprint(y)
}

// SelfCheck validates the reference enumerations: published counts (binomial
// coefficients, factorials, multinomials, Bell numbers A000110, partition
// numbers A000041), strict monotonicity in the documented order with an
// independent comparator, textbook examples, and agreement of the two
// definitions of the pattern family.
func SelfCheck() error {
	// combinations
	for n := 0; n <= 9; n++ {
		for k := 0; k <= n+2; k++ {
			l := Combinations(n, k)
			if len(l) != binom(n, k) {
				return fmt.Errorf("Combinations(%d,%d): %d objects, want %d", n, k, len(l), binom(n, k))
			}
			for _, c := range l {
				if len(c) != k {
					return fmt.Errorf("Combinations(%d,%d): object %v", n, k, c)
				}
				for i := range c {
					if c[i] < 0 || c[i] >= n || (i > 0 && c[i-1] >= c[i]) {
						return fmt.Errorf("Combinations(%d,%d): object %v", n, k, c)
					}
				}
			}
			if err := strictlyIncreasing("Combinations", l, LexLess); err != nil {
				return err
			}
			cl := CombinationsColex(n, k)
			if len(cl) != len(l) || !sameSet(cl, l) {
				return fmt.Errorf("CombinationsColex(%d,%d) is not a rearrangement of Combinations", n, k)
			}
			// independent statement of colex: the reversed sequences are in lexicographic order
			rev := make([][]int, len(cl))
			for i, c := range cl {
				r := make([]int, len(c))
				for j := range c {
					r[j] = c[len(c)-1-j]
				}
				rev[i] = r
			}
			if err := strictlyIncreasing("CombinationsColex reversed", rev, LexLess); err != nil {
				return err
			}
		}
	}
	if !same(Combinations(4, 2), [][]int{{0, 1}, {0, 2}, {0, 3}, {1, 2}, {1, 3}, {2, 3}}) {
		return fmt.Errorf("Combinations(4,2) = %v", Combinations(4, 2))
	}
	if !same(CombinationsColex(4, 2), [][]int{{0, 1}, {0, 2}, {1, 2}, {0, 3}, {1, 3}, {2, 3}}) {
		return fmt.Errorf("CombinationsColex(4,2) = %v", CombinationsColex(4, 2))
	}
	// permutations
	for n := 0; n <= 7; n++ {
		l := Permutations(n)
		if len(l) != fact(n) {
			return fmt.Errorf("Permutations(%d): %d objects", n, len(l))
		}
		for _, p := range l {
			if Inverse(p) == nil {
				return fmt.Errorf("Permutations(%d): %v is not a permutation", n, p)
			}
		}
		if err := strictlyIncreasing("Permutations", l, LexLess); err != nil {
			return err
		}
	}
	if !same(Permutations(3), [][]int{{0, 1, 2}, {0, 2, 1}, {1, 0, 2}, {1, 2, 0}, {2, 0, 1}, {2, 1, 0}}) {
		return fmt.Errorf("Permutations(3) = %v", Permutations(3))
	}
	// multiset permutations: multinomial counts
	for _, freq := range [][]int{{}, {0}, {2}, {1, 1}, {2, 1}, {2, 0, 2}, {1, 2, 3}, {3, 3}, {0, 0, 4}, {2, 2, 2}, {1, 1, 1, 1}} {
		l := MultisetPermutations(freq)
		tot, den := 0, 1
		for _, f := range freq {
			tot += f
			den *= fact(f)
		}
		if len(l) != fact(tot)/den {
			return fmt.Errorf("MultisetPermutations(%v): %d objects, want %d", freq, len(l), fact(tot)/den)
		}
		for _, p := range l {
			cnt := make([]int, len(freq))
			for _, v := range p {
				cnt[v]++
			}
			if fmt.Sprint(cnt) != fmt.Sprint(freq) {
				return fmt.Errorf("MultisetPermutations(%v): object %v", freq, p)
			}
		}
		if err := strictlyIncreasing("MultisetPermutations", l, LexLess); err != nil {
			return err
		}
	}
	if !same(MultisetPermutations([]int{2, 1}), [][]int{{0, 0, 1}, {0, 1, 0}, {1, 0, 0}}) {
		return fmt.Errorf("MultisetPermutations(2,1) = %v", MultisetPermutations([]int{2, 1}))
	}
	// multiset combinations: coefficient of x^k in prod (1 + x + ... + x^m[i])
	for _, m := range [][]int{{}, {0}, {3}, {1, 1, 1}, {2, 0, 2}, {3, 2, 1}, {2, 2, 2, 2}, {0, 0}, {4, 1}} {
		poly := []int{1}
		for _, mi := range m {
			np := make([]int, len(poly)+mi)
			for i, c := range poly {
				for j := 0; j <= mi; j++ {
					np[i+j] += c
				}
			}
			poly = np
		}
		for k := 0; k <= len(poly)+1; k++ {
			want := 0
			if k < len(poly) {
				want = poly[k]
			}
			l := MultisetCombinationsFreq(m, k)
			if len(l) != want {
				return fmt.Errorf("MultisetCombinationsFreq(%v,%d): %d objects, want %d", m, k, len(l), want)
			}
			if err := strictlyIncreasing("MultisetCombinationsFreq", l, LexLess); err != nil {
				return err
			}
			for _, v := range l {
				s := 0
				for i := range v {
					if v[i] < 0 || v[i] > m[i] {
						return fmt.Errorf("MultisetCombinationsFreq(%v,%d): object %v", m, k, v)
					}
					s += v[i]
				}
				if s != k || len(FreqToMultiset(v)) != k {
					return fmt.Errorf("MultisetCombinationsFreq(%v,%d): object %v", m, k, v)
				}
			}
		}
	}
	// set partitions: Bell numbers
	bell := []int{1, 1, 2, 5, 15, 52, 203, 877, 4140, 21147, 115975}
	for n := 0; n <= 10; n++ {
		l := RestrictedGrowthStrings(n)
		if len(l) != bell[n] {
			return fmt.Errorf("RestrictedGrowthStrings(%d): %d objects, want %d", n, len(l), bell[n])
		}
		if err := strictlyIncreasing("RestrictedGrowthStrings", l, LexLess); err != nil {
			return err
		}
		if n <= 7 {
			for _, a := range l {
				max := -1
				for _, v := range a {
					if v < 0 || v > max+1 {
						return fmt.Errorf("RestrictedGrowthStrings(%d): %v is not a restricted growth string", n, a)
					}
					if v > max {
						max = v
					}
				}
				// round trip through blocks listed in an arbitrary (reversed) order
				blocks := make([][]int, max+1)
				for i, v := range a {
					blocks[max-v] = append([]int{i}, blocks[max-v]...)
				}
				back, why := RGSOfPartition(n, blocks)
				if why != "" || fmt.Sprint(back) != fmt.Sprint(a) {
					return fmt.Errorf("RGSOfPartition(%v) = %v %s, want %v", blocks, back, why, a)
				}
			}
		}
	}
	if !same(RestrictedGrowthStrings(3), [][]int{{0, 0, 0}, {0, 0, 1}, {0, 1, 0}, {0, 1, 1}, {0, 1, 2}}) {
		return fmt.Errorf("RestrictedGrowthStrings(3) = %v", RestrictedGrowthStrings(3))
	}
	if _, why := RGSOfPartition(3, [][]int{{0, 1}, {1, 2}}); why == "" {
		return fmt.Errorf("RGSOfPartition accepts overlapping blocks")
	}
	if _, why := RGSOfPartition(3, [][]int{{0, 1}}); why == "" {
		return fmt.Errorf("RGSOfPartition accepts a missing element")
	}
	// integer partitions: A000041
	pn := []int{1, 1, 2, 3, 5, 7, 11, 15, 22, 30, 42, 56, 77, 101, 135, 176, 231, 297, 385, 490, 627}
	for n := 0; n <= 20; n++ {
		l := IntegerPartitions(n)
		if len(l) != pn[n] {
			return fmt.Errorf("IntegerPartitions(%d): %d objects, want %d", n, len(l), pn[n])
		}
		for i, p := range l {
			s := 0
			for j, v := range p {
				s += v
				if v < 1 || (j > 0 && p[j-1] < v) {
					return fmt.Errorf("IntegerPartitions(%d): object %v", n, p)
				}
			}
			if s != n {
				return fmt.Errorf("IntegerPartitions(%d): object %v", n, p)
			}
			if i > 0 && !LexLess(p, l[i-1]) {
				return fmt.Errorf("IntegerPartitions(%d): %v before %v is not reverse lexicographic", n, l[i-1], p)
			}
		}
	}
	if len(IntegerPartitions(30)) != 5604 || len(IntegerPartitions(40)) != 37338 {
		return fmt.Errorf("IntegerPartitions(30), (40): %d, %d objects", len(IntegerPartitions(30)), len(IntegerPartitions(40)))
	}
	if !same(IntegerPartitions(4), [][]int{{4}, {3, 1}, {2, 2}, {2, 1, 1}, {1, 1, 1, 1}}) {
		return fmt.Errorf("IntegerPartitions(4) = %v", IntegerPartitions(4))
	}
	// products
	for _, d := range [][]int{{}, {1}, {0}, {3}, {2, 3}, {3, 0, 2}, {2, 2, 2}, {1, 1, 1, 1}, {4, 1, 3}} {
		l := Product(d)
		want := 1
		for _, v := range d {
			want *= v
		}
		if len(l) != want {
			return fmt.Errorf("Product(%v): %d objects, want %d", d, len(l), want)
		}
		if err := strictlyIncreasing("Product", l, LexLess); err != nil {
			return err
		}
		for _, t := range l {
			for i := range t {
				if t[i] < 0 || t[i] >= d[i] {
					return fmt.Errorf("Product(%v): object %v", d, t)
				}
			}
		}
	}
	if !same(Product([]int{2, 2}), [][]int{{0, 0}, {0, 1}, {1, 0}, {1, 1}}) {
		return fmt.Errorf("Product(2,2) = %v", Product([]int{2, 2}))
	}
	// pattern family: the literal DFS definition and the standardised-prefix filter agree
	if fmt.Sprint(Standardise([]int{5, 2, 9, 0})) != "[2 1 3 0]" {
		return fmt.Errorf("Standardise([5 2 9 0]) = %v", Standardise([]int{5, 2, 9, 0}))
	}
	for n := 0; n <= 6; n++ {
		for salt := 0; salt < 6; salt++ {
			pred := func(p []int) bool {
				h := salt*131 + 7
				for _, v := range p {
					h = (h*37 + v + 1) % 1000003
				}
				return salt == 0 || h%5 != 0
			}
			a := PatternDFS(n, pred)
			b := FilterPatterns(Permutations(n), pred)
			if !sameSet(a, b) {
				return fmt.Errorf("PatternDFS(%d) and FilterPatterns disagree for salt %d: %d vs %d objects", n, salt, len(a), len(b))
			}
			if salt == 0 && len(a) != fact(n) {
				return fmt.Errorf("PatternDFS(%d) with the trivial predicate gives %d objects", n, len(a))
			}
		}
	}
	// topological sorts: chain, antichain, one relation
	if l := FilterTopological(Permutations(4), [][2]int{{0, 1}, {1, 2}, {2, 3}}); len(l) != 1 {
		return fmt.Errorf("linear extensions of a 4-chain: %d", len(l))
	}
	if l := FilterTopological(Permutations(4), nil); len(l) != 24 {
		return fmt.Errorf("linear extensions of a 4-antichain: %d", len(l))
	}
	if l := FilterTopological(Permutations(5), [][2]int{{1, 3}}); len(l) != 60 {
		return fmt.Errorf("linear extensions of one relation on 5 points: %d", len(l))
	}
	// 2 x 3 grid poset (0<1<2, 3<4<5, 0<3, 1<4, 2<5): 5 linear extensions (standard Young tableaux of shape 3,3)
	if l := FilterTopological(Permutations(6), [][2]int{{0, 1}, {1, 2}, {3, 4}, {4, 5}, {0, 3}, {1, 4}, {2, 5}}); len(l) != 5 {
		return fmt.Errorf("linear extensions of the 2x3 grid: %d", len(l))
	}
	// the pruned searches used for large n agree with the filters on small n
	for n := 0; n <= 6; n++ {
		all := Permutations(n)
		for salt := 0; salt < 8; salt++ {
			pred := func(p []int) bool {
				h := salt*977 + 3
				for _, v := range p {
					h = (h*41 + v + 1) % 1000003
				}
				return salt == 0 || h%4 != 0
			}
			if a, b := RestrictedPermutations(n, pred, 0), FilterPrefixes(all, pred); !same(a, b) {
				return fmt.Errorf("RestrictedPermutations(%d) and FilterPrefixes disagree for salt %d: %d vs %d objects", n, salt, len(a), len(b))
			}
			var rel [][2]int
			for i := 0; i < n; i++ {
				for j := i + 1; j < n; j++ {
					if (salt*31+i*7+j*13)%5 < salt%4 {
						rel = append(rel, [2]int{i, j})
					}
				}
			}
			if a, b := LinearExtensions(n, rel), FilterTopological(all, rel); !same(a, b) {
				return fmt.Errorf("LinearExtensions(%d,%v) and FilterTopological disagree: %d vs %d objects", n, rel, len(a), len(b))
			}
		}
		if a := FirstPermutations(n, 7); !same(a, all[:min(7, len(all))]) {
			return fmt.Errorf("FirstPermutations(%d,7) = %v", n, a)
		}
	}
	// two disjoint chains of a and b elements have C(a+b,a) linear extensions; a total order has one
	for _, ab := range [][2]int{{1, 70}, {2, 68}, {66, 2}, {3, 20}, {10, 4}} {
		a, b := ab[0], ab[1]
		var rel [][2]int
		for i := 0; i+1 < a+b; i++ {
			if i+1 != a {
				rel = append(rel, [2]int{i, i + 1})
			}
		}
		if l := LinearExtensions(a+b, rel); len(l) != Binomial(a+b, a) {
			return fmt.Errorf("linear extensions of chains %d+%d: %d, want %d", a, b, len(l), Binomial(a+b, a))
		}
	}
	if Binomial(130, 2) != 8385 || Binomial(1000, 998) != 499500 || Binomial(66, 3) != 45760 || Binomial(5, 6) != 0 || Binomial(0, 0) != 1 {
		return fmt.Errorf("Binomial")
	}
	for _, nk := range [][2]int{{7, 3}, {9, 0}, {9, 9}, {6, 7}, {12, 5}} {
		full := Combinations(nk[0], nk[1])
		if a := FirstCombinations(nk[0], nk[1], 11); !same(a, full[:min(11, len(full))]) {
			return fmt.Errorf("FirstCombinations(%d,%d,11) = %v", nk[0], nk[1], a)
		}
	}
	if l := Combinations(1000, 999); len(l) != 1000 || len(Combinations(130, 128)) != 8385 {
		return fmt.Errorf("Combinations(1000,999): %d objects", len(l))
	}
	for n := 0; n <= 12; n++ {
		full := IntegerPartitions(n)
		if a := FirstIntegerPartitions(n, 9); !same(a, full[:min(9, len(full))]) {
			return fmt.Errorf("FirstIntegerPartitions(%d,9) = %v", n, a)
		}
	}
	if fmt.Sprint(Inverse([]int{2, 0, 1})) != "[1 2 0]" || Inverse([]int{0, 0}) != nil {
		return fmt.Errorf("Inverse")
	}
	return selfCheckFirst()
}

func init() {
	selfcheck.Add("refiter (iterator reference families)", SelfCheck)
}

// Package srch holds what the C03 and C04 monitors share: hereditary
// predicates evaluated harness-side and a recorder for search iterators.
package srch

import (
	"github.com/Tom-Johnston/mamba/graph"

	"verif/internal/oracle/brute"
	"verif/internal/oracle/rg"
)

// Pred is a hereditary (induced-subgraph-closed) graph property evaluated by the harness.
type Pred struct {
	Name string
	Has  func(g *rg.G) bool
}

func maxDeg(g *rg.G) int {
	d := 0
	for v := 0; v < g.N; v++ {
		if x := g.Deg(v); x > d {
			d = x
		}
	}
	return d
}

func triangleFree(g *rg.G) bool {
	for _, e := range g.Edges() {
		ra, rb := g.Row(e[0]), g.Row(e[1])
		for w := range ra {
			if ra[w]&rb[w] != 0 {
				return false
			}
		}
	}
	return true
}

func bipartite(g *rg.G) bool {
	col := make([]int, g.N)
	for s := 0; s < g.N; s++ {
		if col[s] != 0 {
			continue
		}
		col[s] = 1
		st := []int{s}
		for len(st) > 0 {
			v := st[len(st)-1]
			st = st[:len(st)-1]
			for _, u := range g.Nbrs(v) {
				if col[u] == 0 {
					col[u] = -col[v]
					st = append(st, u)
				} else if col[u] == col[v] {
					return false
				}
			}
		}
	}
	return true
}

func forest(g *rg.G) bool {
	// acyclic iff m = n - components
	seen := make([]bool, g.N)
	comps := 0
	for s := 0; s < g.N; s++ {
		if seen[s] {
			continue
		}
		comps++
		seen[s] = true
		st := []int{s}
		for len(st) > 0 {
			v := st[len(st)-1]
			st = st[:len(st)-1]
			for _, u := range g.Nbrs(v) {
				if !seen[u] {
					seen[u] = true
					st = append(st, u)
				}
			}
		}
	}
	return g.M() == g.N-comps
}

func clawFree(g *rg.G) bool {
	for v := 0; v < g.N; v++ {
		nb := g.Nbrs(v)
		for i := 0; i < len(nb); i++ {
			for j := 0; j < i; j++ {
				if g.Has(nb[i], nb[j]) {
					continue
				}
				for k := 0; k < j; k++ {
					if !g.Has(nb[i], nb[k]) && !g.Has(nb[j], nb[k]) {
						return false
					}
				}
			}
		}
	}
	return true
}

func k4Free(g *rg.G) bool {
	n := g.N
	for a := 0; a < n; a++ {
		for b := 0; b < a; b++ {
			if !g.Has(a, b) {
				continue
			}
			for c := 0; c < b; c++ {
				if !g.Has(a, c) || !g.Has(b, c) {
					continue
				}
				for d := 0; d < c; d++ {
					if g.Has(a, d) && g.Has(b, d) && g.Has(c, d) {
						return false
					}
				}
			}
		}
	}
	return true
}

func c4Free(g *rg.G) bool { // no C4 as a subgraph: no two vertices with two common neighbours
	n := g.N
	for a := 0; a < n; a++ {
		for b := 0; b < a; b++ {
			cnt := 0
			ra, rb := g.Row(a), g.Row(b)
			for w := range ra {
				x := ra[w] & rb[w]
				for x != 0 {
					x &= x - 1
					cnt++
				}
			}
			if cnt >= 2 {
				return false
			}
		}
	}
	return true
}

func inducedC4Free(g *rg.G) bool {
	n := g.N
	for a := 0; a < n; a++ {
		for b := 0; b < a; b++ {
			if g.Has(a, b) {
				continue
			}
			// two non-adjacent common neighbours of the non-adjacent pair a,b
			var cn []int
			for v := 0; v < n; v++ {
				if g.Has(a, v) && g.Has(b, v) {
					cn = append(cn, v)
				}
			}
			for i := range cn {
				for j := 0; j < i; j++ {
					if !g.Has(cn[i], cn[j]) {
						return false
					}
				}
			}
		}
	}
	return true
}

func alphaLE2(g *rg.G) bool { // no independent set of size 3
	n := g.N
	for a := 0; a < n; a++ {
		for b := 0; b < a; b++ {
			if g.Has(a, b) {
				continue
			}
			for c := 0; c < b; c++ {
				if !g.Has(a, c) && !g.Has(b, c) {
					return false
				}
			}
		}
	}
	return true
}

func planar(g *rg.G) bool {
	p, _ := brute.RefPlanar(brute.FromRG(g, g.N))
	return p
}

// Preds lists the hereditary predicates.  "c4free" is subgraph-C4-free, which
// is induced-subgraph-closed as well (it is monotone).
func Preds() []Pred {
	return []Pred{
		{"triangle-free", triangleFree},
		{"bipartite", bipartite},
		{"forest", forest},
		{"maxdeg<=2", func(g *rg.G) bool { return maxDeg(g) <= 2 }},
		{"maxdeg<=3", func(g *rg.G) bool { return maxDeg(g) <= 3 }},
		{"claw-free", clawFree},
		{"K4-free", k4Free},
		{"C4-free", c4Free},
		{"induced-C4-free", inducedC4Free},
		{"alpha<=2", alphaLE2},
		{"planar", planar},
		// degenerate hereditary classes: the empty class, the class of the graph without vertices, graphs of at most
		// 3 vertices (the search must stop at a level), and a class that is hereditary but NOT closed under removing
		// edges (cographs: no induced path on 4 vertices)
		{"no-graph", func(g *rg.G) bool { return false }},
		{"order<=0", func(g *rg.G) bool { return g.N == 0 }},
		{"order<=3", func(g *rg.G) bool { return g.N <= 3 }},
		{"cograph", inducedP4Free},
	}
}

// AsPrune converts a predicate into the library's pruning callback (true =
// prune), counting calls and checking that what the library hands over is a
// well-formed graph (on every 16th call).
func AsPrune(p Pred, calls *int, bad *string) func(g *graph.DenseGraph) bool {
	return func(g *graph.DenseGraph) bool {
		*calls++
		if *calls%16 == 1 && *bad == "" {
			if msg := rg.WellFormed(g); msg != "" {
				*bad = msg
			}
		}
		return !p.Has(rg.FromGraph(g))
	}
}

// None never prunes.
func None(g *graph.DenseGraph) bool { return false }

// inducedP4Free: no induced path a-b-c-d.
func inducedP4Free(g *rg.G) bool {
	n := g.N
	for b := 0; b < n; b++ {
		for c := 0; c < n; c++ {
			if b == c || !g.Has(b, c) {
				continue
			}
			for a := 0; a < n; a++ {
				if a == b || a == c || !g.Has(a, b) || g.Has(a, c) {
					continue
				}
				for d := 0; d < n; d++ {
					if d == a || d == b || d == c || !g.Has(c, d) || g.Has(d, b) || g.Has(d, a) {
						continue
					}
					return false
				}
			}
		}
	}
	return true
}

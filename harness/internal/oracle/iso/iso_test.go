package iso

import (
	"math/big"
	"math/rand"
	"testing"

	"verif/internal/oracle/rg"
)

func closureOrder(n int, gens [][]int) int {
	key := func(p []int) string {
		b := make([]byte, len(p))
		for i, v := range p {
			b[i] = byte(v)
		}
		return string(b)
	}
	id := make([]int, n)
	for i := range id {
		id[i] = i
	}
	seen := map[string]bool{key(id): true}
	q := [][]int{id}
	for len(q) > 0 {
		p := q[0]
		q = q[1:]
		for _, g := range gens {
			r := compose(p, g)
			if !seen[key(r)] {
				seen[key(r)] = true
				q = append(q, r)
			}
		}
	}
	return len(seen)
}

func TestGroupOrderRandom(t *testing.T) {
	r := rand.New(rand.NewSource(1))
	for it := 0; it < 3000; it++ {
		n := 1 + r.Intn(7)
		k := r.Intn(4)
		var gens [][]int
		for i := 0; i < k; i++ {
			p := r.Perm(n)
			if r.Intn(2) == 0 { // sparse permutation
				p = make([]int, n)
				for j := range p {
					p[j] = j
				}
				a, b := r.Intn(n), r.Intn(n)
				p[a], p[b] = p[b], p[a]
			}
			gens = append(gens, p)
		}
		want := closureOrder(n, gens)
		got := GroupOrder(n, gens)
		if got.Cmp(big.NewInt(int64(want))) != 0 {
			t.Fatalf("n=%d gens=%v: got %v want %d", n, gens, got, want)
		}
	}
}

func petersen() *rg.G {
	g := rg.New(10)
	for i := 0; i < 5; i++ {
		g.Add(i, (i+1)%5)
		g.Add(i, 5+i)
		g.Add(5+i, 5+(i+2)%5)
	}
	return g
}

func TestAutKnown(t *testing.T) {
	if o := Automorphisms(petersen(), nil).Order; o.Int64() != 120 {
		t.Fatalf("petersen %v", o)
	}
	// Q4
	q := rg.New(16)
	for i := 0; i < 16; i++ {
		for b := 0; b < 4; b++ {
			q.Add(i, i^(1<<uint(b)))
		}
	}
	if o := Automorphisms(q, nil).Order; o.Int64() != 384 {
		t.Fatalf("Q4 %v", o)
	}
	// K_12 edgeless: 12!
	e := rg.New(12)
	if o := Automorphisms(e, nil).Order; o.Int64() != 479001600 {
		t.Fatalf("E12 %v", o)
	}
	// automorphism enumeration count equals order on random graphs, and orbits agree
	r := rand.New(rand.NewSource(2))
	for it := 0; it < 400; it++ {
		n := 1 + r.Intn(7)
		g := rg.New(n)
		for i := 0; i < n; i++ {
			for j := 0; j < i; j++ {
				if r.Intn(3) == 0 {
					g.Add(i, j)
				}
			}
		}
		cnt := 0
		var all [][]int
		EnumerateAutomorphisms(g, nil, func(p []int) bool {
			cnt++
			all = append(all, append([]int(nil), p...))
			return true
		})
		ai := Automorphisms(g, nil)
		if ai.Order.Int64() != int64(cnt) {
			t.Fatalf("order %v enum %d %v", ai.Order, cnt, g)
		}
		orb := OrbitsOf(n, all)
		for v := range orb {
			if orb[v] != ai.Orbit[v] {
				t.Fatalf("orbits %v vs %v", orb, ai.Orbit)
			}
		}
		if GroupOrder(n, all).Int64() != int64(cnt) {
			t.Fatalf("grouporder of all auts")
		}
		// isomorphism under random relabelling
		p := r.Perm(n)
		h := g.Induced(p)
		if !Isomorphic(g, h) {
			t.Fatalf("not isomorphic to relabelling")
		}
		if Invariant(g) != Invariant(h) {
			t.Fatalf("invariant differs under relabelling")
		}
	}
}

package c12

import (
	"bytes"
	"fmt"
	"strconv"
	"strings"

	"github.com/Tom-Johnston/mamba/dawg"

	"verif/internal/engine"
	"verif/internal/oracle/refdawg"
	"verif/internal/props/c12/dawgx"
)

// Builder life cycles.  "Initialise sets up the internal state ready for use",
// so ONE Builder value may be used for several Dawgs in a row: Finish,
// Initialise, build again.  A Dawg that Finish has handed out is finished: it
// stays an exact index of its own word set whatever the Builder is used for
// afterwards, and a build started with Initialise knows nothing of what the
// Builder did before (a completed build, a build abandoned half way, a rejected
// Add, a Finish without any word).  This file holds the scripts, the driver
// that executes one script against the library and the model, and C12's
// judgement; C14 runs the same scripts and puts every Dawg through its round
// trip.
//
// What is NOT done, because nothing documents it: Add or Finish after Finish
// without Initialise in between (the documentation forbids it), and two copies
// of a Builder value that are both used after they were copied while a build
// was in progress or initialised.  A Builder value that is copied by
// assignment BETWEEN builds and whose original is never touched again (a value
// that was moved) is used, and so are copies of the zero value.

// LifeStep is one build on the shared Builder.
type LifeStep struct {
	Ops    []hop // the Adds of this build in order; the model decides which of them must be accepted
	Finish bool  // Finish() ends the build and its Dawg is kept and re-checked from then on; false: the build is abandoned
	Inits  int   // number of Initialise() calls after the step (>= 1)
	Move   int   // 1: after the step the Builder value is copied by assignment BEFORE Initialise and only the copy is used from then on; 2: the copy is made AFTER Initialise
}

// LifeOrigins are the ways the Builder of a script comes into being.
var LifeOrigins = []string{"new(Builder)", "copy by assignment of a zero value", "new(Builder) and Initialise()", "copy by assignment of an initialised Builder"}

// LifeScript is a whole life of one Builder.
type LifeScript struct {
	Origin int
	Steps  []LifeStep
	Note   string // how the script was made (for the violation detail)
}

// LifeDawg is a Dawg finished by a script.
type LifeDawg struct {
	D       *dawg.Dawg
	Set     *refdawg.Set
	Step    int
	Trie    *refdawg.Trie // the trie of Set, minimised once (the Dawg is checked many times)
	Minimal int
}

// LifeEvent says where in the script the observer is called.
type LifeEvent struct {
	Step   int    // index of the step that has just ended (len(Steps) for the final event)
	What   string // "Finish", "abandoned build", "final Initialise"
	Newest int    // index (in the list of Dawgs) of the Dawg this step finished, or -1
}

func wordsOps(ws [][]byte) []hop {
	ops := make([]hop, len(ws))
	for i, w := range ws {
		ops[i] = hop{w, false}
	}
	return ops
}

func describeOps(ops []hop, m *refdawg.BuilderModel) string {
	var b strings.Builder
	for i, o := range ops {
		if i >= 60 {
			fmt.Fprintf(&b, ",...(%d Adds)", len(ops))
			break
		}
		if i > 0 {
			b.WriteByte(',')
		}
		b.WriteString("Add(" + o.String() + ")")
		if !m.Add(o.w) {
			b.WriteString("!rejected")
		}
	}
	return b.String()
}

// Describe renders the script (up to and including step upTo; -1: all of it).
func (sc *LifeScript) Describe(upTo int) []string {
	out := []string{LifeOrigins[sc.Origin]}
	for i, st := range sc.Steps {
		if upTo >= 0 && i > upTo {
			break
		}
		s := describeOps(st.Ops, &refdawg.BuilderModel{})
		if st.Finish {
			s += ";Finish()"
		} else {
			s += ";(build abandoned)"
		}
		if st.Move == 1 {
			s += ";Builder copied by assignment, only the copy is used from here"
		}
		for k := 0; k < st.Inits; k++ {
			s += ";Initialise()"
		}
		if st.Move == 2 {
			s += ";Builder copied by assignment, only the copy is used from here"
		}
		out = append(out, s)
	}
	return out
}

// Hash identifies a script.
func (sc *LifeScript) Hash() uint64 {
	h := uint64(1469598103934665603)
	mix := func(x uint64) {
		h ^= x
		h *= 1099511628211
	}
	mix(uint64(sc.Origin))
	for _, st := range sc.Steps {
		mix(uint64(len(st.Ops))<<8 | uint64(st.Inits)<<4 | uint64(st.Move)<<1)
		if st.Finish {
			mix(7)
		}
		for _, o := range st.Ops {
			for _, x := range o.w {
				mix(uint64(x))
			}
			mix(0x1ff)
		}
	}
	return h
}

// LifeTransitions are the ways of getting from one completed build to the next.
var LifeTransitions = []string{
	"Finish,Initialise",
	"Finish,Initialise,Initialise",
	"Finish,Initialise,a partial build that is abandoned,Initialise",
	"Finish,Initialise,a build abandoned right after a rejected Add,Initialise",
	"Finish,Initialise,Finish without any word,Initialise",
	"Finish,Builder copied by assignment,Initialise of the copy",
	"Finish,Initialise,Builder copied by assignment",
	"Finish,Initialise,next build with every word added twice (second Add rejected)",
}

// LifeChain makes the script that builds the given sets one after the other
// with one Builder, with the given transition between consecutive builds.
func LifeChain(origin int, sets []*refdawg.Set, transition int) *LifeScript {
	sc := &LifeScript{Origin: origin, Note: "chain of " + strconv.Itoa(len(sets)) + " builds; between builds: " + LifeTransitions[transition]}
	for i, set := range sets {
		ops := wordsOps(set.Words)
		if transition == 7 && i > 0 {
			ops = ops[:0]
			for _, w := range set.Words {
				ops = append(ops, hop{w, false}, hop{w, false})
			}
		}
		st := LifeStep{Ops: ops, Finish: true, Inits: 1}
		last := i == len(sets)-1
		if last {
			sc.Steps = append(sc.Steps, st)
			break
		}
		junk := set.Words
		if i%2 == 1 && sets[i+1].Len() > 0 {
			junk = sets[i+1].Words[:(sets[i+1].Len()+1)/2]
		}
		if len(junk) == 0 {
			junk = [][]byte{[]byte("m")}
		}
		switch transition {
		case 1:
			st.Inits = 2
			sc.Steps = append(sc.Steps, st)
		case 2:
			sc.Steps = append(sc.Steps, st, LifeStep{Ops: wordsOps(junk), Inits: 1})
		case 3:
			ops := append(wordsOps(junk), hop{junk[len(junk)-1], false})
			sc.Steps = append(sc.Steps, st, LifeStep{Ops: ops, Inits: 1})
		case 4:
			sc.Steps = append(sc.Steps, st, LifeStep{Finish: true, Inits: 1})
		case 5:
			st.Move = 1
			sc.Steps = append(sc.Steps, st)
		case 6:
			st.Move = 2
			sc.Steps = append(sc.Steps, st)
		default:
			sc.Steps = append(sc.Steps, st)
		}
	}
	return sc
}

// GenLifeScript draws a script of 2..5 steps over related word sets: a base
// set from the shared generator and, per step, a random part of it, a
// contiguous range of it, the base set again, a set of its own, the empty set
// or {""}; with junk (rejected) Adds, abandoned builds, repeated Initialise
// and moved Builder values mixed in.  It returns the alphabet of the base set.
func GenLifeScript(rg *engine.Rng, maxWords int) (*LifeScript, []byte, string) {
	base, alpha, info := refdawg.GenSet(rg, maxWords)
	k := 2 + rg.Intn(4)
	sc := &LifeScript{Origin: rg.Intn(len(LifeOrigins)), Note: "seeded script over " + info.String()}
	for i := 0; i < k; i++ {
		var set *refdawg.Set
		al := alpha
		switch x := rg.Intn(12); {
		case x < 4: // a random part of the base set
			p := 0.15 + 0.8*rg.Float()
			var ws [][]byte
			for _, w := range base.Words {
				if rg.Bool(p) {
					ws = append(ws, w)
				}
			}
			set = &refdawg.Set{Words: ws}
		case x < 6: // a contiguous range
			if base.Len() > 0 {
				lo := rg.Intn(base.Len())
				hi := lo + 1 + rg.Intn(base.Len()-lo)
				set = &refdawg.Set{Words: base.Words[lo:hi]}
			} else {
				set = base
			}
		case x < 8:
			set = base
		case x < 10: // a set of its own
			set, al, _ = refdawg.GenSet(rg, maxWords/2+1)
		case x < 11:
			set = &refdawg.Set{}
		default:
			set = refdawg.FromWords([][]byte{{}})
		}
		st := LifeStep{Finish: true, Inits: 1}
		if rg.Bool(0.3) {
			st.Ops = junkHistory(rg, set, al)
		} else {
			st.Ops = wordsOps(set.Words)
		}
		if i > 0 && i < k-1 && rg.Bool(0.25) { // abandoned, possibly half way
			st.Finish = false
			if len(st.Ops) > 1 && rg.Bool(0.7) {
				st.Ops = st.Ops[:1+rg.Intn(len(st.Ops)-1)]
			}
		}
		if rg.Bool(0.2) {
			st.Inits = 2
		}
		if rg.Bool(0.25) {
			st.Move = 1 + rg.Intn(2)
		}
		sc.Steps = append(sc.Steps, st)
	}
	// the first and the last step always finish: there is something to re-check and something that was built later
	sc.Steps[0].Finish = true
	sc.Steps[k-1].Finish = true
	return sc, alpha, info.String()
}

func moved(b *dawg.Builder) *dawg.Builder {
	nb := new(dawg.Builder)
	*nb = *b
	return nb
}

// RunLife executes a script.  judge: the results of Add and Finish are judged
// against the model (C12); otherwise a Builder that misbehaves only ends the
// script (counted; it is C12's business).  after is called when a step has
// ended (before the Initialise that follows it) and once more after the last
// Initialise, with all Dawgs finished so far; it returns false to end the
// script.  RunLife returns true iff the script ran to its end.
func RunLife(c *engine.Ctx, workload, callKey string, sc *LifeScript, judge bool, after func(ev LifeEvent, dawgs []*LifeDawg, detail map[string]interface{}) bool) bool {
	detailOf := func(step int) map[string]interface{} {
		return map[string]interface{}{"workload": workload, "call": callKey, "script": sc.Note, "one_Builder_used_for(origin;then one entry per build)": sc.Describe(step), "failed_in_build_number": step}
	}
	misbehaved := func() bool {
		c.Obs("life:builder_misbehaved_not_judged_here(C12)", 1)
		return false
	}
	var b *dawg.Builder
	if pi := c.Call(callKey+"|Builder", func() {
		switch sc.Origin {
		case 0:
			b = new(dawg.Builder)
		case 1:
			b = moved(new(dawg.Builder))
		case 2:
			b = new(dawg.Builder)
			b.Initialise()
		default:
			z := new(dawg.Builder)
			z.Initialise()
			b = moved(z)
		}
	}); pi != nil {
		if !judge {
			return misbehaved()
		}
		dawgx.Report(c, nil, pi, "Builder.Initialise", "life-cycle|"+LifeOrigins[sc.Origin], detailOf(-1))
		return false
	}
	var dawgs []*LifeDawg
	prev := "a fresh Builder"
	for si, st := range sc.Steps {
		m := &refdawg.BuilderModel{}
		n := len(st.Ops)
		args := make([][]byte, n)
		want := make([]bool, n)
		errs := make([]error, n)
		for i, o := range st.Ops {
			if !o.isNil {
				args[i] = append([]byte{}, o.w...)
			}
			want[i] = m.Add(o.w)
		}
		at := 0
		pi := c.Call(callKey+"|build#"+strconv.Itoa(si)+"|Add", func() {
			for at = 0; at < n; at++ {
				errs[at] = b.Add(args[at])
			}
		})
		if judge {
			c.Eval(n)
		}
		pos := func(i int) string {
			p := "a later Add"
			if i == 0 {
				p = "the first Add"
			}
			return fmt.Sprintf("life-cycle|build %s|%s after %s", ordinal(si), p, prev)
		}
		if pi != nil {
			if !judge {
				return misbehaved()
			}
			det := detailOf(si)
			det["panic_in_Add_number"] = at
			dawgx.Report(c, nil, pi, "Builder.Add", pos(at), det)
			return false
		}
		accepted, rejected := 0, 0
		for i := 0; i < n; i++ {
			if (errs[i] == nil) != want[i] {
				if !judge {
					return misbehaved()
				}
				kind, obs, exp := "wrongly-accepted", "Add returned nil", "an error: the word is not greater than the last accepted word of this build"
				if want[i] {
					kind, obs, exp = "wrongly-rejected", "Add returned error: "+errs[i].Error(), "nil: the word is greater than the last accepted word of THIS build (or the build has no word yet)"
				}
				det := detailOf(si)
				det["Add_number"] = i
				c.Violation("Builder.Add|"+kind+"|"+pos(i), det, fmt.Sprintf("%s; Add(%s) as Add number %d of build number %d", obs, st.Ops[i].String(), i, si), exp)
				return false
			}
			if want[i] {
				accepted++
			} else {
				rejected++
			}
			if !st.Ops[i].isNil && !bytes.Equal(args[i], st.Ops[i].w) {
				if !judge {
					return misbehaved()
				}
				c.Violation("Builder.Add|modified-its-argument|life-cycle", detailOf(si), fmt.Sprintf("%q", args[i]), fmt.Sprintf("%q", st.Ops[i].w))
				return false
			}
		}
		if judge {
			c.Obs("adds_accepted", accepted)
			c.Obs("adds_rejected_as_expected", rejected)
		}
		ev := LifeEvent{Step: si, What: "abandoned build", Newest: -1}
		if st.Finish {
			var d *dawg.Dawg
			var err error
			pi := c.Call(callKey+"|build#"+strconv.Itoa(si)+"|Finish", func() { d, err = b.Finish() })
			if judge {
				c.Eval(1)
			}
			if pi != nil || err != nil || d == nil {
				if !judge {
					return misbehaved()
				}
				w := fmt.Sprintf("life-cycle|build %s after %s", ordinal(si), prev)
				if pi != nil {
					dawgx.Report(c, nil, pi, "Builder.Finish", w, detailOf(si))
				} else {
					c.Violation("Builder.Finish|error|"+w, detailOf(si), fmt.Sprintf("err=%v dawg=%v", err, d != nil), "the Dawg of the words accepted since the last Initialise")
				}
				return false
			}
			ld := &LifeDawg{D: d, Set: m.Set(), Step: si}
			ld.Trie = ld.Set.Trie()
			ld.Minimal = ld.Trie.Minimise()
			dawgs = append(dawgs, ld)
			ev.What, ev.Newest = "Finish", len(dawgs)-1
		}
		if !after(ev, dawgs, detailOf(si)) {
			return false
		}
		// what the next build follows
		switch {
		case st.Finish && n == 0:
			prev = "Finish without any word"
			c.Obs("life:initialise_after_finish_of_an_empty_builder", 1)
		case st.Finish:
			prev = "a completed build"
			c.Obs("life:initialise_after_finish", 1)
		case n > 0 && !want[n-1]:
			prev = "a build abandoned after a rejected Add"
			c.Obs("life:initialise_after_a_rejected_add", 1)
		default:
			prev = "an abandoned build"
			c.Obs("life:initialise_after_an_abandoned_build", 1)
		}
		if pi := c.Call(callKey+"|build#"+strconv.Itoa(si)+"|Initialise", func() {
			if st.Move == 1 {
				b = moved(b)
			}
			for k := 0; k < st.Inits; k++ {
				b.Initialise()
			}
			if st.Move == 2 {
				b = moved(b)
			}
		}); pi != nil {
			if !judge {
				return misbehaved()
			}
			dawgx.Report(c, nil, pi, "Builder.Initialise", "life-cycle|after "+prev, detailOf(si))
			return false
		}
		if st.Inits > 1 {
			c.Obs("life:initialise_twice_in_a_row", 1)
		}
		if st.Move != 0 {
			c.Obs("life:builder_value_copied_by_assignment_between_builds", 1)
		}
	}
	if !after(LifeEvent{Step: len(sc.Steps), What: "final Initialise", Newest: -1}, dawgs, detailOf(-1)) {
		return false
	}
	c.Obs("life:origin:"+LifeOrigins[sc.Origin], 1)
	return true
}

func ordinal(i int) string {
	switch i {
	case 0:
		return "#0"
	case 1:
		return "#1"
	}
	return "#2+"
}

// lifeProbes: the words of all builds of the script (the words of the OTHER
// builds are the most telling non-members of a Dawg) and their one-byte
// extensions, at most max of them, plus extra.
func lifeProbes(sc *LifeScript, max int, extra [][]byte) [][]byte {
	seen := map[string]bool{}
	var out [][]byte
	add := func(w []byte) {
		if !seen[string(w)] {
			seen[string(w)] = true
			out = append(out, w)
		}
	}
	total := 0
	for _, st := range sc.Steps {
		total += len(st.Ops)
	}
	stride := 1 + 2*total/maxI(max, 1)
	i := 0
	for _, st := range sc.Steps {
		for _, o := range st.Ops {
			if i++; i%stride != 0 {
				continue
			}
			add(o.w)
			add(append(append([]byte{}, o.w...), 'a'))
		}
	}
	for _, w := range extra {
		add(w)
	}
	return out
}

// LifeProbes is lifeProbes for the other DAWG monitors.
func LifeProbes(sc *LifeScript, max int, extra [][]byte) [][]byte { return lifeProbes(sc, max, extra) }

// checkLife is C12's judgement of one script: after every step the Dawg it
// finished is compared with the model in full, and EVERY earlier Dawg of the
// same Builder is compared with its own word set again.
func checkLife(c *engine.Ctx, workload, callKey string, sc *LifeScript, probes [][]byte) bool {
	checks := 0
	ok := RunLife(c, workload, callKey, sc, true, func(ev LifeEvent, dawgs []*LifeDawg, det map[string]interface{}) bool {
		for di, ld := range dawgs {
			newest := di == ev.Newest
			key := callKey + "|after-build#" + strconv.Itoa(ev.Step) + "|dawg#" + strconv.Itoa(di)
			f, pi, api := dawgx.FullCheck(c, key, ld.D, ld.Set, dawgx.CheckOpts{Probes: probes, SkipEncode: !newest, Trie: ld.Trie, Minimal: ld.Minimal})
			checks++
			if f != nil || pi != nil {
				d := dawgx.Detail(workload, ld.Set, det)
				d["the_dawg_checked_is_the_one_finished_by_build_number"] = ld.Step
				d["checked_after"] = fmt.Sprintf("%s of build number %d", ev.What, ev.Step)
				where := "Builder-life-cycle|dawg-just-finished-by-a-reused-builder:"
				switch {
				case newest && ld.Step == 0:
					where = "Builder-life-cycle|first-dawg-of-the-builder:"
				case !newest:
					where = "Builder-life-cycle|earlier-dawg-re-checked-after-" + strings.ReplaceAll(ev.What, " ", "-") + "-of-a-later-build:"
				}
				dawgx.Report(c, f, pi, where+api, LifeWitness(ld.Set), d)
				return false
			}
			if !newest {
				c.Obs("life:earlier_dawgs_rechecked_after_the_builder_was_used_again", 1)
				if ld.Set.Len() > 0 {
					c.Obs("life:earlier_non_empty_dawgs_rechecked", 1)
				}
			} else if ld.Step > 0 {
				c.Obs("life:dawgs_finished_by_a_reused_builder_checked", 1)
			}
		}
		return !c.Stopped()
	})
	if ok {
		c.Obs("life:scripts_completed", 1)
		c.Obs("life:builds_per_script="+strconv.Itoa(minI(len(sc.Steps), 6)), 1)
	}
	return ok
}

// LifeWitness is the witness part of the violation keys of life-cycle
// findings: the size class of the word set of the Dawg concerned (the concrete
// script is in the detail), so that one defect gives a handful of keys.
func LifeWitness(set *refdawg.Set) string {
	switch n := set.Len(); {
	case n == 0:
		return "words:0"
	case n == 1:
		return "words:1"
	case n <= 4:
		return "words:2..4"
	case n <= 15:
		return "words:5..15"
	case n <= 200:
		return "words:16..200"
	}
	return "words:>200"
}

func minI(a, b int) int {
	if a < b {
		return a
	}
	return b
}

// lifeNontrivial: at least two completed builds of which an earlier one has
// words and a later one adds a non-empty word (the later build creates nodes
// while an earlier Dawg is alive).
func lifeNontrivial(sc *LifeScript) bool {
	earlier := false
	for _, st := range sc.Steps {
		nonEmpty := false
		for _, o := range st.Ops {
			if len(o.w) > 0 {
				nonEmpty = true
				break
			}
		}
		if earlier && nonEmpty {
			return true
		}
		if st.Finish && nonEmpty {
			earlier = true
		}
	}
	return false
}

// LifeNontrivial exposes lifeNontrivial.
func LifeNontrivial(sc *LifeScript) bool { return lifeNontrivial(sc) }

// LifeUniverse7 is the universe of the exhaustive life-cycle sweeps: the 7 words of length <= 2 over {a,b}.
func LifeUniverse7() [][]byte { return refdawg.Universe([]byte("ab"), 2) }

// LifeUniverse6 is {"",a,aa,ab,b,ba}.
func LifeUniverse6() [][]byte {
	return [][]byte{[]byte(""), []byte("a"), []byte("aa"), []byte("ab"), []byte("b"), []byte("ba")}
}

// LifeContrastNames are the fixed families used for chains of contrasting sets (0..512 words, fan-out 0..256, 1..301 nodes).
var LifeContrastNames = []string{"empty-set", "only-empty-word", "empty-word-and-a", "single-letter", "single-word", "repo-test-words", "repo-anagram-words",
	"tap-taps-top-tops", "unary-chain-all-300", "unary-single-300", "fan-2", "fan-128-with-empty-word", "fan-256", "fan-256-with-empty-word",
	"fan-256-final-children-with-loops", "binary-len-5", "product-3x3-minus-one", "ternary-exact-len-4", "fan-129-distinct-tails"}

// LifeContrast returns those families in the order of the list.
func LifeContrast() []Family {
	by := map[string]Family{}
	for _, f := range FixedFamilies() {
		by[f.Name] = f
	}
	var out []Family
	for _, n := range LifeContrastNames {
		if f, ok := by[n]; ok {
			out = append(out, f)
		}
	}
	return out
}

func lifeCycles(c *engine.Ctx) {
	// (a) exhaustive: ALL ordered pairs of subsets of the 7 words of length <= 2 over {a,b}, plain transition, origins in turn
	u7 := LifeUniverse7()
	probes7 := append(refdawg.Universe([]byte("ab"), 3), []byte("z"), []byte{0})
	n7 := 1 << uint(len(u7))
	labelA := "all ordered pairs (first build, second build) of the 128 subsets of the 7 words of length<=2 over {a,b} with one Builder (Finish, Initialise, build again)"
	const blocksA = 16
	for blk := 0; blk < blocksA; blk++ {
		blk := blk
		c.Unit(fmt.Sprintf("life/pairs128/%02d", blk), func() {
			nt := 0
			for o := blk * n7 / blocksA; o < (blk+1)*n7/blocksA; o++ {
				for nw := 0; nw < n7; nw++ {
					sc := LifeChain((o+nw)%len(LifeOrigins), []*refdawg.Set{SubsetOf(u7, o), SubsetOf(u7, nw)}, 0)
					if checkLife(c, labelA, fmt.Sprintf("life|pairs128|first=%d|second=%d", o, nw), sc, probes7) && lifeNontrivial(sc) {
						nt++
					}
					if c.Stopped() {
						return
					}
				}
			}
			c.NTDistinct(nt)
			if blk == 0 {
				c.Obs("exhaustive:"+labelA, 1)
				c.Sample("life-pairs", map[string]interface{}{"universe": refdawg.QuoteList(u7, 10), "example": LifeChain(1, []*refdawg.Set{SubsetOf(u7, 0x2c), SubsetOf(u7, 0x51)}, 0).Describe(-1)})
			}
		})
	}
	// (b) exhaustive: all ordered pairs of subsets of {"",a,aa,ab,b,ba} x the other transitions
	u6 := LifeUniverse6()
	n6 := 1 << uint(len(u6))
	labelB := "all ordered pairs of the 64 subsets of {\"\",a,aa,ab,b,ba} with one Builder x 7 further ways from one build to the next (Initialise twice, an abandoned partial build, a build abandoned after a rejected Add, Finish without any word, the Builder value copied by assignment before / after Initialise, rejected Adds in the second build)"
	if !c.Thorough() {
		labelB += "; quick: every pair with the ways w for which first+second+w is a multiple of 3, i.e. with 2 or 3 of the 7"
	}
	for tr := 1; tr < len(LifeTransitions); tr++ {
		tr := tr
		c.Unit(fmt.Sprintf("life/pairs64/transition=%d", tr), func() {
			nt := 0
			for o := 0; o < n6; o++ {
				for nw := 0; nw < n6; nw++ {
					if !c.Thorough() && (o+nw+tr)%3 != 0 {
						continue
					}
					sc := LifeChain((o+nw+tr)%len(LifeOrigins), []*refdawg.Set{SubsetOf(u6, o), SubsetOf(u6, nw)}, tr)
					if checkLife(c, labelB, fmt.Sprintf("life|pairs64|%s|first=%d|second=%d", LifeTransitions[tr], o, nw), sc, probes7) && lifeNontrivial(sc) {
						nt++
					}
					if c.Stopped() {
						return
					}
				}
			}
			c.NTDistinct(nt)
			if tr == 1 {
				c.Obs("exhaustive:"+labelB, 1)
				c.Sample("life-transitions", map[string]interface{}{"transitions": LifeTransitions, "origins": LifeOrigins, "example": LifeChain(3, []*refdawg.Set{SubsetOf(u6, 0x2c), SubsetOf(u6, 0x15)}, 3).Describe(-1)})
			}
		})
	}
	// (b') thorough: all ordered TRIPLES of subsets of {a,aa,ab,b,ba}
	if c.Thorough() {
		u5 := u6[1:]
		n5 := 1 << uint(len(u5))
		labelT := "all ordered triples of the 32 subsets of {a,aa,ab,b,ba} with one Builder, transitions in turn"
		for first := 0; first < n5; first++ {
			first := first
			c.Unit(fmt.Sprintf("life/triples32/first=%02d", first), func() {
				nt := 0
				for s := 0; s < n5; s++ {
					for t := 0; t < n5; t++ {
						tr := (first + 3*s + 5*t) % len(LifeTransitions)
						sc := LifeChain((s+t)%len(LifeOrigins), []*refdawg.Set{SubsetOf(u5, first), SubsetOf(u5, s), SubsetOf(u5, t)}, tr)
						if checkLife(c, labelT, fmt.Sprintf("life|triples32|%d|%d|%d", first, s, t), sc, probes7) && lifeNontrivial(sc) {
							nt++
						}
						if c.Stopped() {
							return
						}
					}
				}
				c.NTDistinct(nt)
				if first == 0 {
					c.Obs("exhaustive:"+labelT, 1)
				}
			})
		}
	}
	// (c) chains through contrasting fixed sets: every set as the first build of a chain through all the others (rotations), transitions in turn
	fams := LifeContrast()
	for r := range fams {
		r := r
		c.Unit("life/contrast-chain/start="+fams[r].Name, func() {
			var sets []*refdawg.Set
			var extra [][]byte
			names := ""
			length := len(fams) // thorough: through all of them; quick: the next 6 (every set is the first, ..., sixth build of some chain)
			if !c.Thorough() && length > 6 {
				length = 6
			}
			for k := 0; k < length; k++ {
				f := fams[(r+k)%len(fams)]
				if r%2 == 1 { // odd rotations run backwards: other neighbours, larger sets before smaller ones
					f = fams[((r-k)%len(fams)+len(fams))%len(fams)]
				}
				sets = append(sets, f.Set)
				names += f.Name + ","
				if k < 4 {
					extra = append(extra, refdawg.Probes(f.Set, f.Alpha, engine.NewRng(uint64(4000+r)), 60)...)
				}
			}
			sc := LifeChain(r%len(LifeOrigins), sets, r%len(LifeTransitions))
			sc.Note += "; sets: " + names
			if checkLife(c, "chain through the contrasting fixed sets", "life|contrast-chain|start="+fams[r].Name, sc, lifeProbes(sc, 300, extra)) && lifeNontrivial(sc) {
				c.NT("life-contrast", r)
			}
			if r == 0 {
				c.Sample("life-contrast", map[string]interface{}{"sets": names, "transition": LifeTransitions[r%len(LifeTransitions)]})
			}
		})
	}
	// (d) seeded scripts
	nScripts := c.Pick(1200, 12000)
	perUnit := 25
	for un := 0; un*perUnit < nScripts; un++ {
		un := un
		c.Unit(fmt.Sprintf("life/seeded/%d", un), func() {
			for i := un * perUnit; i < (un+1)*perUnit && i < nScripts; i++ {
				rg := c.Rand("c12-life", i)
				maxWords := 120
				if i%16 == 5 {
					maxWords = 2500
				}
				sc, alpha, info := GenLifeScript(rg, maxWords)
				var extra [][]byte
				for _, st := range sc.Steps[:2] {
					extra = append(extra, refdawg.Probes(refdawg.FromWords(opsWords(st.Ops)), alpha, rg, 40)...)
				}
				if checkLife(c, "seeded life cycle over "+info, fmt.Sprintf("life|seeded#%d", i), sc, lifeProbes(sc, 250, extra)) && lifeNontrivial(sc) {
					c.NT("life", sc.Hash())
				}
				if c.Stopped() {
					return
				}
				if i < 2 {
					d := sc.Describe(-1)
					for k := range d {
						if len(d[k]) > 160 {
							d[k] = d[k][:160] + "..."
						}
					}
					c.Sample("life-seeded", map[string]interface{}{"gen": info, "script": d})
				}
			}
		})
	}
	// (e) thorough: one Builder through thinned copies of the repo dictionary (tens of thousands of nodes per build)
	if c.Thorough() {
		c.Unit("life/dictionary", func() {
			dict, err := Dictionary()
			if err != nil {
				c.Inconclusive("dictionary not readable: " + err.Error())
				return
			}
			rg := c.Rand("c12-life-dict", 0)
			var sets []*refdawg.Set
			for _, keep := range []int{40, 9, 3, 25} {
				var ws [][]byte
				for _, w := range dict.Words {
					if rg.Intn(keep) == 0 {
						ws = append(ws, w)
					}
				}
				sets = append(sets, &refdawg.Set{Words: ws})
			}
			sc := LifeChain(0, sets, 2)
			sc.Note += "; sets: 1 word in 40, 9, 3, 25 of the repo dictionary"
			if checkLife(c, "one Builder through thinned dictionaries", "life|dictionary", sc, lifeProbes(sc, 4000, nil)) {
				c.NT("life-dict", 0)
				c.Obs("life:dictionary_chain_checked", 1)
			}
		})
	}
}

func opsWords(ops []hop) [][]byte {
	ws := make([][]byte, 0, len(ops))
	for _, o := range ops {
		ws = append(ws, o.w)
	}
	return ws
}

// C10 harmless change 1: ConnectedComponents returns the components ordered by smallest vertex.
//
// Run (from the root of the library worktree):
//
//	export GOFLAGS=-mod=mod GOPROXY=off GOSUMDB=off GOTOOLCHAIN=local
//	cp /tmp/green-out/C10/1/demo_test.go graph/zz_c10_demo_test.go
//	go test -vet=off -count=1 -timeout 300s -run 'TestC10' -v ./graph/
//	rm graph/zz_c10_demo_test.go
//
// Clean tree:   TestC10Property PASS, TestC10IncidentalOrder PASS.
// With patch 1: TestC10Property PASS, TestC10IncidentalOrder FAIL (component/block/articulation ORDER differs).
package graph_test

import (
	"fmt"
	"math/rand"
	"reflect"
	"sort"
	"testing"

	"github.com/Tom-Johnston/mamba/graph"
	"github.com/Tom-Johnston/mamba/sortints"
)

// ---------- independent oracles (definitions, brute force) ----------

func c10Adj(g graph.Graph) [][]bool {
	n := g.N()
	a := make([][]bool, n)
	for i := range a {
		a[i] = make([]bool, n)
	}
	for i := 0; i < n; i++ {
		for j := 0; j < n; j++ {
			if i != j && g.IsEdge(i, j) {
				a[i][j] = true
			}
		}
	}
	return a
}

// components of the subgraph induced on the vertices in mask, as bitmasks.
func c10Comps(a [][]bool, mask uint) []uint {
	var out []uint
	left := mask
	n := len(a)
	for v := 0; v < n; v++ {
		if left&(1<<uint(v)) == 0 {
			continue
		}
		c := uint(1) << uint(v)
		for changed := true; changed; {
			changed = false
			for u := 0; u < n; u++ {
				if c&(1<<uint(u)) == 0 {
					continue
				}
				for w := 0; w < n; w++ {
					if a[u][w] && mask&(1<<uint(w)) != 0 && c&(1<<uint(w)) == 0 {
						c |= 1 << uint(w)
						changed = true
					}
				}
			}
		}
		out = append(out, c)
		left &^= c
	}
	return out
}

func c10Bits(m uint) []int {
	s := []int{}
	for v := 0; m>>uint(v) != 0; v++ {
		if m&(1<<uint(v)) != 0 {
			s = append(s, v)
		}
	}
	return s
}

func c10Pop(m uint) int { return len(c10Bits(m)) }

// 2-connected in the block sense: connected, at least 2 vertices, no cut vertex.
func c10IsBlockLike(a [][]bool, s uint) bool {
	if c10Pop(s) < 2 || len(c10Comps(a, s)) != 1 {
		return false
	}
	if c10Pop(s) == 2 {
		return true
	}
	for _, v := range c10Bits(s) {
		if len(c10Comps(a, s&^(1<<uint(v)))) != 1 {
			return false
		}
	}
	return true
}

// oracle: components, blocks (maximal block-like sets, isolated vertices as singletons as the library does), cut vertices.
func c10Oracle(g graph.Graph) (comps, blocks [][]int, cut []int) {
	a := c10Adj(g)
	n := g.N()
	full := uint(1)<<uint(n) - 1
	cs := c10Comps(a, full)
	for _, c := range cs {
		comps = append(comps, c10Bits(c))
		if c10Pop(c) == 1 {
			blocks = append(blocks, c10Bits(c))
		}
	}
	var good []uint
	for s := uint(1); s <= full && n > 0; s++ {
		if c10IsBlockLike(a, s) {
			good = append(good, s)
		}
	}
	for _, s := range good {
		maximal := true
		for _, t := range good {
			if t != s && t&s == s {
				maximal = false
				break
			}
		}
		if maximal {
			blocks = append(blocks, c10Bits(s))
		}
	}
	cut = []int{}
	for v := 0; v < n; v++ {
		if len(c10Comps(a, full&^(1<<uint(v)))) > len(cs) {
			cut = append(cut, v)
		}
	}
	return
}

// order-insensitive normal form of a family of vertex sets; also checks each member is sorted.
func c10Norm(t *testing.T, what string, fam [][]int) []string {
	out := make([]string, 0, len(fam))
	for _, s := range fam {
		if !sort.IntsAreSorted(s) {
			t.Errorf("%s: member %v is not sorted", what, s)
		}
		out = append(out, fmt.Sprint(s))
	}
	sort.Strings(out)
	return out
}

func c10Check(t *testing.T, name string, g graph.Graph) {
	wc, wb, wa := c10Oracle(g)
	gc := graph.ConnectedComponents(g)
	if !reflect.DeepEqual(c10Norm(t, name+" comps", gc), c10Norm(t, "oracle", wc)) {
		t.Errorf("%s: components %v, want (as a set) %v", name, gc, wc)
	}
	for v := 0; v < g.N(); v++ {
		one := graph.ConnectedComponent(g, v)
		found := false
		for _, c := range wc {
			if fmt.Sprint(c) == fmt.Sprint(one) {
				for _, u := range c {
					found = found || u == v
				}
			}
		}
		if !found {
			t.Errorf("%s: ConnectedComponent(%d) = %v", name, v, one)
		}
	}
	gb, ga := graph.BiconnectedComponents(g)
	if !reflect.DeepEqual(c10Norm(t, name+" blocks", gb), c10Norm(t, "oracle", wb)) {
		t.Errorf("%s: blocks %v, want (as a set, each once) %v", name, gb, wb)
	}
	gas := append([]int{}, ga...)
	sort.Ints(gas)
	if !reflect.DeepEqual(gas, wa) {
		t.Errorf("%s: articulation vertices %v, want (as a set) %v", name, ga, wa)
	}
}

func c10Sparse(g graph.Graph) *graph.SparseGraph {
	nb := make([]sortints.SortedInts, g.N())
	for v := range nb {
		nb[v] = append(sortints.SortedInts{}, g.Neighbours(v)...)
	}
	return graph.NewSparse(g.N(), nb)
}

func c10Fixed() *graph.DenseGraph {
	// 0-1-2 path, 3-4-5 path, 6 isolated, 7-8-9 triangle with pendant 10 on 8.
	g := graph.NewDense(11, nil)
	for _, e := range [][2]int{{0, 1}, {1, 2}, {3, 4}, {4, 5}, {7, 8}, {8, 9}, {7, 9}, {8, 10}} {
		g.AddEdge(e[0], e[1])
	}
	return g
}

// The property itself: must pass before and after the change.
func TestC10Property(t *testing.T) {
	c10Check(t, "fixed/dense", c10Fixed())
	c10Check(t, "fixed/sparse", c10Sparse(c10Fixed()))
	rng := rand.New(rand.NewSource(10))
	for it := 0; it < 400; it++ {
		n := rng.Intn(9) // 0..8
		p := []float64{0.1, 0.2, 0.3, 0.5}[rng.Intn(4)]
		g := graph.RandomGraph(n, p, rng.Int63())
		perm := rng.Perm(n)
		h := g.InducedSubgraph(perm) // a relabelling
		c10Check(t, fmt.Sprintf("rand%d/dense", it), g)
		c10Check(t, fmt.Sprintf("rand%d/relabelled", it), h)
		c10Check(t, fmt.Sprintf("rand%d/sparse", it), c10Sparse(g))
	}
}

// The incidental, undocumented ORDER of the clean tree (components discovered starting from vertex n-1).
func TestC10IncidentalOrder(t *testing.T) {
	g := c10Fixed()
	gc := graph.ConnectedComponents(g)
	oldC := [][]int{{7, 8, 9, 10}, {6}, {3, 4, 5}, {0, 1, 2}}
	if !reflect.DeepEqual(gc, oldC) {
		t.Errorf("component order changed: got %v, clean tree gives %v", gc, oldC)
	}
	gb, ga := graph.BiconnectedComponents(g)
	t.Logf("blocks %v articulation %v", gb, ga)
	oldA := []int{8, 4, 1}
	if !reflect.DeepEqual(ga, oldA) {
		t.Errorf("articulation order changed: got %v, clean tree gives %v", ga, oldA)
	}
	if len(gb) == 0 || gb[0][0] < 7 {
		t.Errorf("block order changed: first block %v is not from the component of vertex n-1", gb)
	}
}

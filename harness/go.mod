module verif

go 1.23

require github.com/Tom-Johnston/mamba v0.0.0

replace github.com/Tom-Johnston/mamba => /repo

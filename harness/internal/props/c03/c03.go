// Package c03 records the full output of the canonical-deletion search for
// every shard and predicate placement and checks offline that it is exactly
// one representative per isomorphism class (DESIGN.md section 4, C03).
package c03

import (
	"bufio"
	"errors"
	"fmt"
	"os"
	"sort"
	"strings"
	"sync"

	"github.com/Tom-Johnston/mamba/graph"
	"github.com/Tom-Johnston/mamba/graph/search"

	"verif/internal/engine"
	"verif/internal/gen"
	"verif/internal/oracle/iso"
	"verif/internal/oracle/polya"
	"verif/internal/oracle/rg"
	"verif/internal/props/srch"
)

func init() {
	engine.Register(&engine.Property{
		ID:    "C03",
		Level: "exploration",
		Rule: "the complete Value() log of search.All(n, a, m) for every a < m is recorded for n = 0..9 (10 thorough) and m in {1,2,3,4,5,7,16}, and of search.WithPruning for 11 hereditary predicates placed as preprune, as prune and as both; an offline checker over the logs requires: every value a well-formed n-vertex graph, no two values of a configuration isomorphic (harness invariant buckets + backtracking isomorphism test), total count over the m shards equal to the Polya count (together: set equality with the classes, shards disjoint), and pruned outputs equal to the predicate-filtered class list; restricted searches (forests, max degree <= 2 / 3, triangle-free, C4-free and the complements of these classes) at n = 10..13 are compared with the harness-owned restricted class generator. " +
			"non-trivial = yielded value with n >= 4; distinct = (configuration, graph6 of the value)",
		Assumptions: []string{
			"duplicate detection: iso.Invariant buckets, every collision decided by the harness's isomorphism search (independent of the library's canonical form)",
			"missing classes: count against the Polya number; for n <= 8 the missing class is named using the harness's own class list",
			"predicates are evaluated by harness code on a copy of the graph the library hands to the callback",
		},
		Run:            run,
		Finish:         finish,
		MinEvaluations: map[string]int{"quick": 500000, "thorough": 20000000},
		MinNontrivial:  map[string]int{"quick": 300000, "thorough": 10000000},
		RequiredObs:    []string{"configs_all", "configs_pruned", "values_wellformed_checked", "predicate_calls", "configs_big_restricted_checked"},
	})
}

type config struct {
	n, m      int
	pred      int  // -1: All
	placement int  // 0 preprune, 1 prune, 2 both, 3 pred as preprune and pred2 as prune
	pred2     int  // index+1 of a second predicate (0 = none): the class searched is the intersection
	co        bool // the predicate is applied to the complement (complements of hereditary classes are hereditary)
	big       bool // restricted search at a size where the reference is the harness-owned restricted class generator
}

// predicate returns the (possibly complemented) predicate of the configuration.
func (cf config) predicate() srch.Pred {
	p := srch.Preds()[cf.pred]
	if cf.pred2 > 0 {
		q := srch.Preds()[cf.pred2-1]
		return srch.Pred{Name: p.Name + "&" + q.Name, Has: func(g *rg.G) bool { return p.Has(g) && q.Has(g) }}
	}
	if !cf.co {
		return p
	}
	return srch.Pred{Name: "co-" + p.Name, Has: func(g *rg.G) bool { return p.Has(g.Complement()) }}
}

func (cf config) name() string {
	if cf.pred < 0 {
		return fmt.Sprintf("All-n%d-m%d", cf.n, cf.m)
	}
	return fmt.Sprintf("Pruned-n%d-m%d-%s-%s", cf.n, cf.m, cf.predicate().Name, []string{"preprune", "prune", "both", "first-as-preprune-second-as-prune"}[cf.placement])
}

func (cf config) stream() string {
	return strings.NewReplacer("<=", "le", " ", "").Replace(cf.name())
}

// predRunner.prune is srch.AsPrune as a method: method values of different receivers are different functions that
// share one piece of code.
type predRunner struct {
	p     srch.Pred
	calls *int
	bad   *string
}

func (r predRunner) prune(g *graph.DenseGraph) bool {
	*r.calls++
	if *r.calls%16 == 1 && *r.bad == "" {
		if msg := rg.WellFormed(g); msg != "" {
			*r.bad = msg
		}
	}
	return !r.p.Has(rg.FromGraph(g))
}

// runShard drives one iterator to exhaustion, recording every value.
func runShard(c *engine.Ctx, cf config, a int) {
	var it *search.GraphIterator
	key := fmt.Sprintf("search|%s|a=%d", cf.name(), a)
	calls := 0
	bad := ""
	if pi := c.Call(key+"|new", func() {
		if cf.pred < 0 {
			it = search.All(cf.n, a, cf.m)
		} else {
			p := cf.predicate()
			pre, pru := srch.None, srch.None
			if cf.placement == 0 || cf.placement == 2 {
				pre = srch.AsPrune(p, &calls, &bad)
			}
			if cf.placement == 1 || cf.placement == 2 {
				pru = srch.AsPrune(p, &calls, &bad)
			}
			if cf.placement == 3 {
				// two DIFFERENT hereditary predicates: the first as preprune, the second as prune
				// (handed over as METHOD VALUES of one type with two receivers: the two functions then share their code)
				pre = predRunner{srch.Preds()[cf.pred], &calls, &bad}.prune
				pru = predRunner{srch.Preds()[cf.pred2-1], &calls, &bad}.prune
			}
			it = search.WithPruning(cf.n, a, cf.m, pre, pru)
		}
	}); pi != nil {
		c.Violation("search|panic@"+engine.SiteNoLine(pi.Site)+"|constructor|"+cf.name(), map[string]interface{}{"config": cf.name(), "a": a}, pi.String(), "an iterator")
		return
	}
	limit := polya.Graphs(cf.n).Int64() + 1
	var count int64
	stream := cf.stream()
	for {
		var ok bool
		var g6, wf string
		var gn int
		if pi := c.CallN(key+"|Next", count, func() {
			ok = it.Next()
			if ok {
				v := it.Value()
				gn = v.N()
				if count%8 == 0 || cf.n <= 6 {
					wf = rg.WellFormed(v)
					if wf == "" {
						wf = "ok"
					}
				}
				g6 = rg.FromGraph(v).G6()
			}
		}); pi != nil {
			c.Violation("search|panic@"+engine.SiteNoLine(pi.Site)+"|"+cf.name(), map[string]interface{}{"config": cf.name(), "a": a, "after_values": count}, pi.String(), "Next returns")
			return
		}
		if !ok {
			break
		}
		count++
		c.Eval(1)
		if wf != "" {
			c.Obs("values_wellformed_checked", 1)
			if wf != "ok" {
				c.Violation("search|value-not-wellformed|"+cf.name(), map[string]interface{}{"config": cf.name(), "a": a, "index": count - 1, "g6": g6}, wf, "a well-formed graph")
				return
			}
		}
		if gn != cf.n {
			c.Violation("search|value-wrong-order|"+cf.name(), map[string]interface{}{"config": cf.name(), "a": a, "index": count - 1, "g6": g6}, fmt.Sprintf("value has %d vertices", gn), fmt.Sprintf("%d vertices", cf.n))
			return
		}
		c.EmitRaw(stream, fmt.Sprintf("%d %s", a, g6))
		if count > limit {
			c.Violation("search|over-production|"+cf.name(), map[string]interface{}{"config": cf.name(), "a": a}, fmt.Sprintf("shard yielded more than %d values", limit-1), "at most the number of isomorphism classes")
			return
		}
	}
	// exhaustion must be sticky enough not to crash: one more Next
	var again bool
	if pi := c.Call(key+"|Next-after-end", func() { again = it.Next() }); pi != nil {
		c.Violation("search|panic@"+engine.SiteNoLine(pi.Site)+"|after-exhaustion|"+cf.name(), map[string]interface{}{"config": cf.name(), "a": a}, pi.String(), "false")
		return
	}
	if again {
		c.Obs("next_true_after_exhaustion(recorded,judged by C04)", 1)
	}
	if bad != "" {
		c.Violation("search|predicate-argument-not-wellformed|"+cf.name(), map[string]interface{}{"config": cf.name(), "a": a}, bad, "the callback receives a well-formed graph")
	}
	c.Obs("predicate_calls", calls)
	c.EmitRaw(stream, fmt.Sprintf("%d END %d", a, count))
	if cf.n >= 4 {
		c.NTDistinct(int(count))
	}
	if cf.pred < 0 {
		c.Obs("configs_all", 1)
	} else {
		c.Obs("configs_pruned", 1)
	}
}

func configs(thorough bool) []config {
	var r []config
	ms := []int{1, 2, 3, 4, 5, 7, 16}
	for n := 0; n <= 8; n++ {
		for _, m := range ms {
			r = append(r, config{n: n, m: m, pred: -1, placement: 0, co: false, big: false})
		}
	}
	// very many parts (the level at which the search is split may depend on m)
	for _, nm := range [][2]int{{5, 64}, {6, 256}, {7, 64}, {7, 256}, {8, 64}, {8, 256}, {8, 1024}} {
		r = append(r, config{n: nm[0], m: nm[1], pred: -1, placement: 0, co: false, big: false})
	}
	if thorough {
		r = append(r, config{n: 8, m: 4096, pred: -1, placement: 0, co: false, big: false}, config{n: 9, m: 256, pred: -1, placement: 0, co: false, big: false}, config{n: 9, m: 1024, pred: -1, placement: 0, co: false, big: false})
	}
	if thorough {
		for _, m := range ms {
			r = append(r, config{n: 9, m: m, pred: -1, placement: 0, co: false, big: false})
		}
		r = append(r, config{n: 10, m: 1, pred: -1, placement: 0, co: false, big: false}, config{n: 10, m: 16, pred: -1, placement: 0, co: false, big: false})
	} else {
		r = append(r, config{n: 9, m: 1, pred: -1, placement: 0, co: false, big: false}, config{n: 9, m: 4, pred: -1, placement: 0, co: false, big: false})
	}
	np := len(srch.Preds())
	for p := 0; p < np; p++ {
		for pl := 0; pl < 3; pl++ {
			for _, n := range []int{0, 1, 2, 3, 4, 5, 6, 7} {
				r = append(r, config{n: n, m: 1, pred: p, placement: pl, co: false, big: false})
			}
			r = append(r, config{n: 7, m: 3, pred: p, placement: pl, co: false, big: false})
			planar := srch.Preds()[p].Name == "planar"
			if !planar || thorough {
				r = append(r, config{n: 8, m: 1, pred: p, placement: pl, co: false, big: false}, config{n: 8, m: 4, pred: p, placement: pl, co: false, big: false})
			}
			if thorough && !planar {
				r = append(r, config{n: 9, m: 1, pred: p, placement: pl, co: false, big: false}, config{n: 9, m: 5, pred: p, placement: pl, co: false, big: false})
			}
		}
	}
	// two different predicates at once (the output is the intersection of the two classes)
	for _, pq := range [][2]string{{"triangle-free", "maxdeg<=3"}, {"maxdeg<=2", "forest"}, {"C4-free", "bipartite"}, {"claw-free", "K4-free"}, {"cograph", "triangle-free"}, {"order<=3", "planar"}, {"K4-free", "no-graph"}} {
		pi, qi := -1, -1
		for i, p := range srch.Preds() {
			if p.Name == pq[0] {
				pi = i
			}
			if p.Name == pq[1] {
				qi = i
			}
		}
		for _, n := range []int{0, 1, 3, 5, 6, 7} {
			r = append(r, config{n: n, m: 1, pred: pi, placement: 3, pred2: qi + 1}, config{n: n, m: 1, pred: qi, placement: 3, pred2: pi + 1})
		}
		r = append(r, config{n: 7, m: 3, pred: pi, placement: 3, pred2: qi + 1})
		if thorough {
			r = append(r, config{n: 8, m: 2, pred: pi, placement: 3, pred2: qi + 1}, config{n: 8, m: 1, pred: qi, placement: 3, pred2: pi + 1})
		}
	}
	// restricted searches beyond the sizes where the whole class list is available: sparse hereditary classes and
	// their complements at n = 10..13; reference = the harness-owned restricted class generator (see restricted()).
	idx := map[string]int{}
	for i, p := range srch.Preds() {
		idx[p.Name] = i
	}
	bigs := []struct {
		pred string
		ns   []int
	}{
		{"forest", []int{10, 11, 12}}, {"maxdeg<=2", []int{10, 11, 12, 13}}, {"maxdeg<=3", []int{10}}, {"triangle-free", []int{10}}, {"C4-free", []int{10}},
	}
	for _, b := range bigs {
		for _, n := range b.ns {
			for _, co := range []bool{false, true} {
				for _, pl := range []int{0, 1} {
					if pl == 1 && n > 10 {
						continue // as prune every canonical augmentation is built first: keep the cost down
					}
					m := 1
					if pl == 0 && n == 10 {
						m = 3
					}
					r = append(r, config{n: n, m: m, pred: idx[b.pred], placement: pl, co: co, big: true})
				}
			}
		}
	}
	if thorough {
		for _, co := range []bool{false, true} {
			r = append(r, config{n: 11, m: 2, pred: idx["maxdeg<=3"], placement: 0, co: co, big: true}, config{n: 11, m: 1, pred: idx["triangle-free"], placement: 0, co: co, big: true},
				config{n: 11, m: 1, pred: idx["C4-free"], placement: 0, co: co, big: true}, config{n: 13, m: 1, pred: idx["forest"], placement: 0, co: co, big: true},
				config{n: 10, m: 1, pred: idx["bipartite"], placement: 0, co: co, big: true})
		}
		// 1262180 triangle-free classes on 12 vertices (split over 16 shards): the parents of these graphs are the
		// first whose canonical-labelling search takes its rarest branches
		r = append(r, config{n: 12, m: 16, pred: idx["triangle-free"], placement: 0, co: false, big: true})
	}
	return r
}

// restricted returns the isomorphism classes on n vertices satisfying the hereditary predicate p, generated by the
// harness (extension of the classes on n-1 vertices by a minimum-degree vertex, predicate filter, invariant buckets,
// isomorphism search).  It does not use the library.
var (
	restrictedMu   sync.Mutex
	restrictedMemo = map[string][]*rg.G{}
)

func restricted(n int, p srch.Pred) []*rg.G {
	restrictedMu.Lock()
	defer restrictedMu.Unlock()
	return restrictedLocked(n, p)
}

func restrictedLocked(n int, p srch.Pred) []*rg.G {
	key := fmt.Sprintf("%s/%d", p.Name, n)
	if r, ok := restrictedMemo[key]; ok {
		return r
	}
	var out []*rg.G
	if n <= 6 {
		for _, g := range gen.Classes(n) {
			if p.Has(g) {
				out = append(out, g)
			}
		}
		restrictedMemo[key] = out
		return out
	}
	prev := restrictedLocked(n-1, p)
	type cand struct {
		g   *rg.G
		inv uint64
	}
	res := make([][]cand, len(prev))
	var wg sync.WaitGroup
	sem := make(chan struct{}, 16)
	for pi := range prev {
		wg.Add(1)
		sem <- struct{}{}
		go func(pi int) {
			defer wg.Done()
			defer func() { <-sem }()
			par := prev[pi]
			mind := n
			for v := 0; v < n-1; v++ {
				if d := par.Deg(v); d < mind {
					mind = d
				}
			}
			var nb []int
			var rec func(v int)
			rec = func(v int) {
				if len(nb) > mind+1 {
					return // the new vertex must have minimum degree in the extension
				}
				if v == n-1 {
					h := par.AddVertex(nb)
					d := len(nb)
					for u := 0; u < n-1; u++ {
						if h.Deg(u) < d {
							return
						}
					}
					if p.Has(h) {
						res[pi] = append(res[pi], cand{h, iso.Invariant(h)})
					}
					return
				}
				rec(v + 1)
				nb = append(nb, v)
				rec(v + 1)
				nb = nb[:len(nb)-1]
			}
			rec(0)
		}(pi)
	}
	wg.Wait()
	buckets := map[uint64][]*rg.G{}
	for _, cs := range res {
		for _, cd := range cs {
			dup := false
			for _, q := range buckets[cd.inv] {
				if iso.Isomorphic(cd.g, q) {
					dup = true
					break
				}
			}
			if !dup {
				buckets[cd.inv] = append(buckets[cd.inv], cd.g)
				out = append(out, cd.g)
			}
		}
	}
	restrictedMemo[key] = out
	return out
}

// published counts used to validate restricted() (OEIS A005195 forests, A006785 triangle-free graphs)
var (
	forestCounts       = []int{1, 1, 2, 3, 6, 10, 20, 37, 76, 153, 329, 710, 1601, 3658}
	triangleFreeCounts = []int{1, 1, 2, 3, 7, 14, 38, 107, 410, 1897, 12172, 105071, 1262180}
)

func run(c *engine.Ctx) {

	for _, cf := range configs(c.Thorough()) {
		cf := cf
		if cf.n >= 9 {
			// one unit per shard
			for a := 0; a < cf.m; a++ {
				a := a
				c.Unit(fmt.Sprintf("%s/a=%d", cf.name(), a), func() { runShard(c, cf, a) })
			}
			continue
		}
		c.Unit(cf.name(), func() {
			for a := 0; a < cf.m && !c.Stopped(); a++ {
				runShard(c, cf, a)
			}
			if cf.n == 8 && cf.m == 3 {
				c.Sample("config", map[string]interface{}{"config": cf.name(), "shards": cf.m})
			}
		})
	}
}

// ---------------------------------------------------------------------------
// offline checker

type rec struct {
	a  int
	g6 string
}

func loadConfig(s *engine.Super, cf config) (vals []rec, ends map[int]int64, err error) {
	ends = map[int]int64{}
	var seen, cap int64
	if cf.n <= 10 {
		cap = 3*polya.Graphs(cf.n).Int64() + 16
	}
	for _, fn := range s.StreamFiles(cf.stream()) {
		f, e := os.Open(fn)
		if e != nil {
			return nil, nil, e
		}
		sc := bufio.NewScanner(f)
		sc.Buffer(make([]byte, 1<<16), 1<<16)
		for sc.Scan() {
			parts := strings.Fields(sc.Text())
			if len(parts) < 2 {
				continue
			}
			var a int
			fmt.Sscan(parts[0], &a)
			if parts[1] == "END" && len(parts) == 3 {
				var cnt int64
				fmt.Sscan(parts[2], &cnt)
				ends[a] = cnt
				continue
			}
			seen++
			if cap > 0 && int64(len(vals)) >= cap {
				continue // far more values than classes: counted, not kept (the count alone is the violation)
			}
			vals = append(vals, rec{a, parts[1]})
		}
		f.Close()
	}
	if seen > int64(len(vals)) {
		return vals, ends, fmt.Errorf("%w: %d values recorded over the %d shards", errTooMany, seen, cf.m)
	}
	return vals, ends, nil
}

var errTooMany = errors.New("more than three times as many values as there are isomorphism classes")

// dedupe finds isomorphic pairs among vals (parallel invariant computation).
func dedupe(vals []rec) (dups [][2]int, invs []uint64) {
	invs = make([]uint64, len(vals))
	var wg sync.WaitGroup
	workers := 16
	for w := 0; w < workers; w++ {
		wg.Add(1)
		go func(w int) {
			defer wg.Done()
			for i := w; i < len(vals); i += workers {
				invs[i] = iso.Invariant(rg.FromG6(vals[i].g6))
			}
		}(w)
	}
	wg.Wait()
	buckets := map[uint64][]int{}
	for i, h := range invs {
		buckets[h] = append(buckets[h], i)
	}
	var keys []uint64
	for h, b := range buckets {
		if len(b) > 1 {
			keys = append(keys, h)
		}
	}
	sort.Slice(keys, func(i, j int) bool { return keys[i] < keys[j] })
	var mu sync.Mutex
	ch := make(chan uint64, len(keys))
	for _, h := range keys {
		ch <- h
	}
	close(ch)
	for w := 0; w < workers; w++ {
		wg.Add(1)
		go func() {
			defer wg.Done()
			for h := range ch {
				b := buckets[h]
				gs := make([]*rg.G, len(b))
				for i, idx := range b {
					gs[i] = rg.FromG6(vals[idx].g6)
				}
				for i := range b {
					for j := 0; j < i; j++ {
						if vals[b[i]].g6 == vals[b[j]].g6 || iso.Isomorphic(gs[i], gs[j]) {
							mu.Lock()
							dups = append(dups, [2]int{b[j], b[i]})
							mu.Unlock()
						}
					}
				}
			}
		}()
	}
	wg.Wait()
	sort.Slice(dups, func(i, j int) bool {
		return dups[i][0] < dups[j][0] || (dups[i][0] == dups[j][0] && dups[i][1] < dups[j][1])
	})
	return dups, invs
}

func finish(s *engine.Super) {
	cfs := configs(s.Thorough())
	// expected filtered counts for n >= 9 come from the (validated) All output of the same n
	allByN := map[int][]rec{}
	allOK := map[int]bool{}
	for _, cf := range cfs {
		vals, ends, err := loadConfig(s, cf)
		if errors.Is(err, errTooMany) {
			s.AddEval(1)
			s.Violation("search|over-production-in-total|"+cf.name(), map[string]interface{}{"config": cf.name(), "per_shard": ends}, err.Error(), fmt.Sprintf("at most %d (number of isomorphism classes on %d vertices) over all shards together", polya.Graphs(cf.n).Int64(), cf.n))
			continue
		}
		if err != nil {
			s.Inconclusive("cannot read event log of " + cf.name() + ": " + err.Error())
			continue
		}
		if len(ends) != cf.m {
			// a shard did not finish (violation already recorded online, or the run was stopped)
			s.AddObs("configs_incomplete", 1)
			continue
		}
		var total int64
		for _, v := range ends {
			total += v
		}
		if total != int64(len(vals)) {
			s.Inconclusive(fmt.Sprintf("%s: event log has %d values, END records say %d", cf.name(), len(vals), total))
			continue
		}
		s.AddEval(1)
		dups, invs := dedupe(vals)
		s.AddObs("offline_values_deduplicated", int64(len(vals)))
		for i, d := range dups {
			if i >= 3 {
				break
			}
			a, b := vals[d[0]], vals[d[1]]
			s.Violation(fmt.Sprintf("search|duplicate|%s|%s", cf.name(), a.g6), map[string]interface{}{"config": cf.name(), "first": a.g6, "first_shard": a.a, "second": b.g6, "second_shard": b.a},
				fmt.Sprintf("isomorphic graphs %s (shard %d) and %s (shard %d) are both yielded (%d duplicate pairs in this configuration)", a.g6, a.a, b.g6, b.a, len(dups)), "each isomorphism class exactly once")
		}
		if cf.pred < 0 {
			want := polya.Graphs(cf.n).Int64()
			if int64(len(vals)) != want {
				detail := map[string]interface{}{"config": cf.name(), "count": len(vals), "polya": want, "per_shard": ends}
				obs := fmt.Sprintf("%d values over the %d shards", len(vals), cf.m)
				key := fmt.Sprintf("search|count|%s", cf.name())
				if cf.n <= 8 && int64(len(vals)) < want {
					if miss := missingClass(cf.n, vals, invs, nil); miss != "" {
						key = fmt.Sprintf("search|missing|%s|%s", cf.name(), miss)
						obs += "; class " + miss + " is not yielded by any shard"
						detail["missing_class"] = miss
					}
				}
				s.Violation(key, detail, obs, fmt.Sprintf("%d (number of isomorphism classes)", want))
			} else if len(dups) == 0 {
				if cf.m == 1 {
					allByN[cf.n] = vals
					allOK[cf.n] = true
				}
			}
			continue
		}
		// pruned configuration: every value satisfies P, set equals the P-filtered classes
		p := cf.predicate()
		badIdx := -1
		for i, v := range vals {
			if !p.Has(rg.FromG6(v.g6)) {
				badIdx = i
				break
			}
		}
		if badIdx >= 0 {
			s.Violation(fmt.Sprintf("prune|value-violates-predicate|%s|%s", cf.name(), vals[badIdx].g6), map[string]interface{}{"config": cf.name(), "g6": vals[badIdx].g6}, "yielded graph does not satisfy "+p.Name, "only graphs satisfying the predicate")
			continue
		}
		var want int64 = -1
		var classes []*rg.G
		if cf.big {
			base := srch.Preds()[cf.pred]
			ref := restricted(cf.n, base)
			want = int64(len(ref))
			switch base.Name {
			case "forest":
				if cf.n < len(forestCounts) && forestCounts[cf.n] != len(ref) {
					s.Inconclusive(fmt.Sprintf("harness generator gives %d forests on %d vertices, OEIS A005195 says %d", len(ref), cf.n, forestCounts[cf.n]))
					continue
				}
			case "triangle-free":
				if cf.n < len(triangleFreeCounts) && triangleFreeCounts[cf.n] != len(ref) {
					s.Inconclusive(fmt.Sprintf("harness generator gives %d triangle-free graphs on %d vertices, OEIS A006785 says %d", len(ref), cf.n, triangleFreeCounts[cf.n]))
					continue
				}
			}
			if int64(len(vals)) < want {
				for _, g := range ref {
					x := g
					if cf.co {
						x = g.Complement()
					}
					classes = append(classes, x)
				}
			}
			s.AddObs("configs_big_restricted_checked", 1)
			if k := fmt.Sprintf("restricted_reference_classes:%s/n=%d", base.Name, cf.n); s.Obs(k) == 0 {
				s.AddObs(k, int64(len(ref)))
			}
		} else if cf.n <= 8 {

			for _, g := range gen.Classes(cf.n) {
				if p.Has(g) {
					classes = append(classes, g)
				}
			}
			want = int64(len(classes))
		} else if allOK[cf.n] {
			want = 0
			for _, v := range allByN[cf.n] {
				if p.Has(rg.FromG6(v.g6)) {
					want++
				}
			}
		}
		if want < 0 {
			s.AddObs("pruned_configs_without_reference", 1)
			continue
		}
		if int64(len(vals)) != want {
			key := fmt.Sprintf("prune|count|%s", cf.name())
			obs := fmt.Sprintf("%d values", len(vals))
			detail := map[string]interface{}{"config": cf.name(), "count": len(vals), "expected": want}
			if (cf.n <= 8 || cf.big) && int64(len(vals)) < want {
				if miss := missingClass(cf.n, vals, invs, classes); miss != "" {
					key = fmt.Sprintf("prune|missing|%s|%s", cf.name(), miss)
					obs += "; class " + miss + " satisfies the predicate but is not yielded"
					detail["missing_class"] = miss
				}
			}
			s.Violation(key, detail, obs, fmt.Sprintf("%d classes satisfy %s", want, p.Name))
		}
	}
	for n := range allOK {
		s.AddObs(fmt.Sprintf("exhaustive:search.All(%d) output == all isomorphism classes, for every split", n), 1)
	}
}

// missingClass names a class (from the harness list, or the given sublist) that no value is isomorphic to.
func missingClass(n int, vals []rec, invs []uint64, classes []*rg.G) string {
	if classes == nil {
		classes = gen.Classes(n)
	}
	by := map[uint64][]int{}
	for i, h := range invs {
		by[h] = append(by[h], i)
	}
	for _, g := range classes {
		h := iso.Invariant(g)
		found := false
		for _, i := range by[h] {
			if iso.Isomorphic(g, rg.FromG6(vals[i].g6)) {
				found = true
				break
			}
		}
		if !found {
			return g.G6()
		}
	}
	return ""
}

var _ = graph.Equal

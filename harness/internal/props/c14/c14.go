// Package c14 monitors the serialisation of a Dawg (DESIGN.md section 4,
// C14): decoding GobEncode(d), directly or through encoding/gob, must give an
// automaton with the same words, ranks, word count, node count and search
// results, and encoding that again must give the same bytes.
package c14

import (
	"bytes"
	"encoding/gob"
	"fmt"
	"sort"

	"github.com/Tom-Johnston/mamba/dawg"

	"verif/internal/engine"
	"verif/internal/oracle/refdawg"
	"verif/internal/props/c12"
	"verif/internal/props/c12/dawgx"
)

func init() {
	engine.Register(&engine.Property{
		ID:    "C14",
		Level: "exploration",
		Rule: "Dawgs of: ALL 2^15 subsets of the words of length <= 3 over {a,b} (exhaustive; thorough adds all 2^13 subsets of the words of length <= 2 over {a,b,c}), the fixed families (a node with k children for k in {0,1,2,26,127,128,129,255,256} at the root, below a prefix, with the empty word, with distinct tails, with final children; unary words giving 127/128/129 and 255/256/257 nodes and ids), the boundary table (all binary words of length 16 = 65536 words, minus one, plus one word created last so that ids beyond 65535 survive; 126..129 and 254..257 words; wide fans over distinct tails so that link targets have indices beyond 127 and 255; two levels of wide fans; thorough: all two-byte words in 3 nodes and 65535/65536/65537 nodes), and seeded sets over alphabets of 1..256 bytes with up to 5000 words. " +
			"Receivers that already hold an automaton: ALL ordered pairs (old, new) of the 64 subsets of {\"\",a,b,aa,ab,ba} and all ordered pairs of 16 contrasting fixed sets (with/without the empty word, 1..301 nodes, fan-out 0..256, 0..512 words), and consecutive seeded sets, each in 5 ways (receiver built by New; receiver decoded before; the same data decoded twice in a row; two values through ONE gob Encoder/Decoder pair into the same variable; the same into the same non-nil pointer), judged exactly like a decode into a fresh receiver, plus a check that an earlier copy of the same bytes is not affected. " +
			"Caller-owned bytes: after GobDecode(b) the caller overwrites b (with '#', with zeros, with another encoding of the same length) and only then the decoded Dawg is compared; several records are decoded through ONE reused read buffer and all decoded Dawgs are checked afterwards; the slice returned by GobEncode is overwritten (spare capacity included) and the Dawg and its next encoding must be unaffected, and an earlier result must survive later encodings of larger and smaller automata; several Dawgs through one gob Encoder / Decoder pair whose buffers are Reset and refilled between messages, all checked at the end (the 64 subsets of a 6-word universe, the 1024 subsets of a 10-word universe, the contrasting fixed sets, batches of 8 seeded sets). " +
			"Dawgs of a Builder that is used again: ONE Builder value builds several Dawgs in a row (C12's life-cycle scripts) and EVERY Dawg is round-tripped right after its Finish and, for part of the scripts, again after the last Initialise: ALL ordered pairs of the 64 subsets of {\"\",a,aa,ab,b,ba} with the 8 ways from one build to the next in turn (Finish+Initialise; Initialise twice; an abandoned partial build; a build abandoned after a rejected Add; Finish without any word; the Builder value copied by assignment before / after Initialise; rejected Adds in the second build) and the 4 origins of the Builder in turn (new, copy of a zero value, initialised, copy of an initialised value), chains through 19 contrasting fixed sets, seeded scripts of 2..5 builds over related word sets (thorough: all ordered pairs of the 128 subsets of the words of length <= 2 over {a,b}, chains from every start). An original with two nodes of the same id whose words and ranks are right is still round-tripped and the copy is judged against the model. " +
			"Each Dawg is encoded with GobEncode, decoded with GobDecode into a fresh Dawg (and for every 3rd case into a Dawg that already holds other words) and sent through encoding/gob; each copy is compared with the reference model (NumberOfWords, Lookup rank of every member, non-members, structure walk with numWords, node count by accessor and by header), with the node graph of the original (up to the numbering of the ids, which is only recorded), on seeded searches, and re-encoded (bytes must be identical). " +
			"non-trivial = a set with >= 2 words whose minimal automaton has fewer nodes than its trie (links to shared nodes are what the index table of the encoding is for); distinct = by construction (exhaustive) / hash of the word list",
		Assumptions: []string{
			"oracle refdawg (sorted list, trie, minimal automaton size); the integer encoding is re-implemented from its documentation to read the header",
			"the original Dawg is first compared with the model itself; a set whose original is already wrong or cannot be built is C12's business and is skipped here (counted)",
			"the verif-tagged accessor (*Dawg).VerifNodes reports the node graph faithfully",
		},
		Run:            run,
		MinEvaluations: map[string]int{"quick": 2000000, "thorough": 10000000},
		MinNontrivial:  map[string]int{"quick": 20000, "thorough": 50000},
		RequiredObs: []string{"owned:decode_input_overwritten-with-#", "owned:decode_input_overwritten-with-zeros", "owned:decode_input_overwritten-with-another-encoding", "owned:another_encoding_of_the_same_length_used", "owned:read_buffer_sequences", "owned:encode_results_overwritten", "owned:encode_then_other_encodes", "owned:gob_stream_sequences", "used:receiver_built_by_New", "used:receiver_decoded_before", "used:decoded_twice_in_a_row", "used:one_gob_stream_same_variable", "used:one_gob_stream_same_pointer", "used:old_root_final_new_root_not", "used:old_root_not_final_new_root_final", "used:old_has_links_new_root_has_none", "used:old_more_nodes", "used:old_fewer_nodes", "used:old_wider_fanout", "used:old_narrower_fanout", "used:old_more_words", "used:old_fewer_words", "used:earlier_copy_unaffected", "life:scripts_completed", "life:dawgs_of_a_reused_builder_roundtripped", "life:dawgs_of_a_reused_builder_with>=2_words_roundtripped", "life:dawgs_roundtripped_again_after_the_builder_was_used_again", "life:initialise_after_finish", "life:initialise_after_an_abandoned_build", "life:initialise_after_a_rejected_add", "life:initialise_after_finish_of_an_empty_builder", "life:builder_value_copied_by_assignment_between_builds",
			"roundtrips:GobDecode", "roundtrips:encoding/gob", "roundtrips:into_used_dawg", "reencodings_identical", "searches_compared",
			"fanout:0", "fanout:1", "fanout:127", "fanout:128", "fanout:129", "fanout:255", "fanout:256",
			"nodes:127", "nodes:128", "nodes:129", "nodes:255", "nodes:256", "nodes:257", "words:127", "words:128", "words:255", "words:256", "words:65535", "words:65536", "words:65537", "ids>=128", "ids>=65536"},
	})
}

func fanoutBucket(set *refdawg.Set) (string, int) {
	f := set.Trie().MaxFanout()
	switch {
	case f >= 256:
		return "fanout=256", f
	case f >= 128:
		return "fanout=128..255", f
	}
	return "", f
}

func witnessOf(set *refdawg.Set) string {
	if b, _ := fanoutBucket(set); b != "" {
		return b
	}
	return dawgx.Witness(set.Words)
}

var boundaryCounts = map[int]bool{0: true, 1: true, 2: true, 126: true, 127: true, 128: true, 129: true, 255: true, 256: true, 257: true, 65535: true, 65536: true, 65537: true}

func observe(c *engine.Ctx, set *refdawg.Set, nodes []dawg.VerifNode) {
	_, f := fanoutBucket(set)
	if f <= 2 || f == 26 || (f >= 127 && f <= 129) || f >= 255 {
		c.Obs(fmt.Sprintf("fanout:%d", f), 1)
	}
	if f >= 128 {
		c.Obs("fanout>=128", 1)
	}
	if boundaryCounts[len(nodes)] {
		c.Obs(fmt.Sprintf("nodes:%d", len(nodes)), 1)
	}
	if boundaryCounts[set.Len()] {
		c.Obs(fmt.Sprintf("words:%d", set.Len()), 1)
	}
	var maxID uint64
	for _, n := range nodes {
		if n.ID > maxID {
			maxID = n.ID
		}
	}
	switch {
	case maxID >= 65536:
		c.Obs("ids>=65536", 1)
		fallthrough
	case maxID >= 256:
		c.Obs("ids>=256", 1)
		fallthrough
	case maxID >= 128:
		c.Obs("ids>=128", 1)
	}
	if len(nodes) >= 128 {
		c.Obs("nodes>=128", 1)
	}
	if len(nodes) >= 65536 {
		c.Obs("nodes>=65536", 1)
	}
	c.ObsMax("nodes", len(nodes))
	c.ObsMax("words", set.Len())
	c.ObsMax("node_id", int(maxID))
}

// compareCopy judges one decoded copy.
func compareCopy(c *engine.Ctx, light bool, path, workload, callKey string, cp *dawg.Dawg, set *refdawg.Set, probes [][]byte, orig *dawg.Dawg, origNodes []dawg.VerifNode, origBytes []byte, queries [][]refdawg.Query, det map[string]interface{}) bool {
	return compareCopyW(c, light, path, witnessOf(set), callKey, cp, set, probes, orig, origNodes, origBytes, queries, det)
}

// compareCopyW is compareCopy with the witness part of the violation keys given by the caller.
func compareCopyW(c *engine.Ctx, light bool, path, w, callKey string, cp *dawg.Dawg, set *refdawg.Set, probes [][]byte, orig *dawg.Dawg, origNodes []dawg.VerifNode, origBytes []byte, queries [][]refdawg.Query, det map[string]interface{}) bool {
	f, pi, api := dawgx.FullCheck(c, callKey+"|"+path+"|copy", cp, set, dawgx.CheckOpts{Probes: probes, SkipEncode: light})
	if f != nil || pi != nil {
		dawgx.Report(c, f, pi, path+"|decoded-copy:"+api, w, det)
		return false
	}
	nodes, pi := dawgx.Nodes(c, callKey+"|"+path+"|copy", cp)
	if pi != nil {
		dawgx.Report(c, nil, pi, path+"|decoded-copy:VerifNodes", w, det)
		return false
	}
	c.Eval(1)
	if origNodes != nil {
		diff, sameIDs := dawgx.NodesSameShape(origNodes, nodes)
		if diff != "" {
			c.Violation(path+"|node-graph-differs|"+w, det, diff, "the same node graph (finality, numWords, labels, links) as the original")
			return false
		}
		if sameIDs {
			c.Obs("copies_with_identical_node_ids", 1)
		} else {
			c.Obs("copies_with_renumbered_node_ids(documented as preserved; not part of the property, not judged)", 1)
		}
	} else {
		// the dump of the original names links by id and two of its nodes share one: the copy has been compared with the model
		// (words, ranks, numWords of every node, minimal node count) instead
		c.Obs("copies_of_originals_with_a_repeated_node_id_compared_with_the_model_only", 1)
	}
	b1, err, pi := dawgx.Encode(c, callKey+"|"+path+"|copy", cp)
	if pi != nil {
		dawgx.Report(c, nil, pi, path+"|re-encode:GobEncode", w, det)
		return false
	}
	c.Eval(1)
	if err != nil {
		c.Violation(path+"|re-encode-error|"+w, det, err.Error(), "no error")
		return false
	}
	if !bytes.Equal(b1, origBytes) {
		c.Violation(path+"|re-encoding-differs|"+w, det, fmt.Sprintf("%d bytes, first difference at offset %d", len(b1), firstDiff(b1, origBytes)), fmt.Sprintf("the same %d bytes as the first encoding", len(origBytes)))
		return false
	}
	c.Obs("reencodings_identical", 1)
	for qi, qs := range queries {
		ss1, pi1 := dawgx.Searchers(c, callKey+"|"+path, qs)
		ss2, pi2 := dawgx.Searchers(c, callKey+"|"+path, qs)
		if pi1 != nil || pi2 != nil {
			c.Obs("searcher_construction_failed_not_judged_here(C13)", 1)
			continue
		}
		s1, i1, pi1 := dawgx.Search(c, fmt.Sprintf("%s|%s|orig|q%d", callKey, path, qi), orig, ss1)
		s2, i2, pi2 := dawgx.Search(c, fmt.Sprintf("%s|%s|copy|q%d", callKey, path, qi), cp, ss2)
		c.Eval(1)
		if pi1 != nil {
			c.Obs("search_on_original_failed_not_judged_here(C13)", 1)
			continue
		}
		if pi2 != nil {
			dawgx.Report(c, nil, pi2, path+"|decoded-copy:Search", w, det)
			return false
		}
		same := len(s1) == len(s2) && len(i1) == len(i2)
		for k := 0; same && k < len(s1); k++ {
			same = bytes.Equal(s1[k], s2[k]) && i1[k] == i2[k]
		}
		if !same {
			c.Violation(path+"|search-differs|"+w, det, fmt.Sprintf("%s on the copy: %s %v", refdawg.QueriesString(qs), refdawg.QuoteList(s2, 20), head(i2)), fmt.Sprintf("as on the original: %s %v", refdawg.QuoteList(s1, 20), head(i1)))
			return false
		}
		c.Obs("searches_compared", 1)
	}
	return true
}

func head(a []int) []int {
	if len(a) > 20 {
		return a[:20]
	}
	return a
}

func firstDiff(a, b []byte) int {
	for i := 0; i < len(a) && i < len(b); i++ {
		if a[i] != b[i] {
			return i
		}
	}
	if len(a) < len(b) {
		return len(a)
	}
	return len(b)
}

// roundTrip runs the whole check for one set.  idx selects the optional parts.
// light: the automaton has so many root-to-leaf paths that GobEncode (which
// walks every path) takes seconds: encode only where the property needs it.
func roundTrip(c *engine.Ctx, workload, callKey string, set *refdawg.Set, alpha []byte, rg refdawg.Rand, idx int, nQueries int, light bool) bool {
	build := dawgx.Build
	bytesTotal := 0
	for _, w := range set.Words {
		bytesTotal += len(w)
	}
	if light && (set.Len() >= 50000 || bytesTotal >= 50000) {
		build = dawgx.BuildSlowOK // the construction alone is tens of CPU-seconds here (C12 judges construction, on smaller lists)
	}
	d, err, pi := build(c, callKey+"|New", set.Words)
	if pi != nil || err != nil || d == nil {
		c.Obs("builds_failed_not_judged_here(C12)", 1)
		return true
	}
	return roundTripDawg(c, workload, callKey, d, set, alpha, rg, idx, nQueries, light, rtOpts{})
}

// rtOpts are the options of roundTripDawg for Dawgs that do not come from dawg.New.
type rtOpts struct {
	witness string                 // witness part of the violation keys ("": from the set)
	extra   map[string]interface{} // further entries of the violation detail (how the Dawg was made)
	skipGob bool                   // leave out the path through encoding/gob
	probes  int                    // number of probe strings (0: 200 + a quarter of the number of words)
}

// roundTripDawg is the round-trip check of a Dawg d that is claimed to hold set.
func roundTripDawg(c *engine.Ctx, workload, callKey string, d *dawg.Dawg, set *refdawg.Set, alpha []byte, rg refdawg.Rand, idx int, nQueries int, light bool, o rtOpts) bool {
	np := 200 + set.Len()/4
	if o.probes > 0 {
		np = o.probes
	}
	probes := refdawg.Probes(set, alpha, rg, np)
	// the original must itself be right, otherwise the case is not C14's
	repeatedID := false
	if f, pi, _ := dawgx.FullCheck(c, callKey+"|orig", d, set, dawgx.CheckOpts{Probes: probes, SkipEncode: light}); f != nil || pi != nil {
		if pi == nil && f.Kind == "structure-duplicate-id" {
			// NumberOfWords and every Lookup (members and probes) are right - FullCheck judges them before it looks at the
			// nodes - but two distinct nodes of the automaton carry the same id.  Ids are no part of what the property asks
			// of d: "for every Dawg d" the decoded copy holds the same words.  The round trip is made and the copy is judged
			// against the model; only the comparison of the two node dumps (which names links by id) is left out.
			repeatedID = true
			c.Obs("originals_with_a_repeated_node_id(round trip still judged: words, ranks, counts, searches)", 1)
		} else {
			c.Obs("original_already_wrong_not_judged_here(C12)", 1)
			return true
		}
	}
	w := witnessOf(set)
	if o.witness != "" {
		w = o.witness
	}
	_, fan := fanoutBucket(set)
	det := dawgx.Detail(workload, set, map[string]interface{}{"call": callKey, "max_fanout": fan})
	for k, v := range o.extra {
		det[k] = v
	}
	nodes0, pi := dawgx.Nodes(c, callKey+"|orig", d)
	if pi != nil {
		return true
	}
	var err error
	shape0 := nodes0
	if repeatedID {
		shape0 = nil
		det["two_nodes_of_the_original_carry_the_same_id"] = true
	}
	b0, err, pi := dawgx.Encode(c, callKey+"|orig", d)
	c.Eval(1)
	if pi != nil {
		dawgx.Report(c, nil, pi, "GobEncode", w, det)
		return false
	}
	if err != nil {
		c.Violation("GobEncode|error|"+w, det, err.Error(), "no error")
		return false
	}
	det["encoding_bytes"] = len(b0)
	var queries [][]refdawg.Query
	queries = append(queries, nil)
	for i := 0; i < nQueries; i++ {
		queries = append(queries, refdawg.GenQueries(set, alpha, rg))
	}

	// 1. GobDecode into a fresh Dawg
	d1 := new(dawg.Dawg)
	in := append([]byte{}, b0...)
	pi = c.Call(callKey+"|GobDecode", func() { err = d1.GobDecode(in) })
	c.Eval(1)
	if pi != nil {
		dawgx.Report(c, nil, pi, "GobDecode", w, det)
		return false
	}
	if err != nil {
		c.Violation("GobDecode|error|"+w, det, "GobDecode(GobEncode(d)) returned error: "+err.Error(), "nil")
		return false
	}
	if !bytes.Equal(in, b0) {
		c.Violation("GobDecode|modified-its-input|"+w, det, "input bytes changed", "input untouched")
		return false
	}
	if !compareCopyW(c, light, "GobDecode", w, callKey, d1, set, probes, d, shape0, b0, queries, det) {
		return false
	}
	c.Obs("roundtrips:GobDecode", 1)

	// 2. GobDecode into a Dawg that already holds something else
	if idx%3 == 0 && !light {
		var used *dawg.Dawg
		other := [][]byte{[]byte("other"), []byte("others"), []byte("zzz")}
		if pi := c.Call(callKey+"|New(other)", func() { used, err = dawg.New(other) }); pi == nil && err == nil && used != nil {
			pi = c.Call(callKey+"|GobDecode(into used)", func() { err = used.GobDecode(in) })
			c.Eval(1)
			if pi != nil {
				dawgx.Report(c, nil, pi, "GobDecode-into-used-dawg", w, det)
				return false
			}
			if err != nil {
				c.Violation("GobDecode-into-used-dawg|error|"+w, det, err.Error(), "nil")
				return false
			}
			if !compareCopyW(c, light, "GobDecode-into-used-dawg", w, callKey, used, set, probes, d, shape0, b0, queries[:1], det) {
				return false
			}
			c.Obs("roundtrips:into_used_dawg", 1)
		}
	}

	// 3. encoding/gob
	if o.skipGob {
		return roundTripEnd(c, callKey, d, set, nodes0, w, det)
	}
	var buf bytes.Buffer
	pi = c.Call(callKey+"|gob.Encode", func() { err = gob.NewEncoder(&buf).Encode(d) })
	c.Eval(1)
	if pi != nil {
		dawgx.Report(c, nil, pi, "encoding/gob.Encode", w, det)
		return false
	}
	if err != nil {
		c.Violation("encoding/gob.Encode|error|"+w, det, err.Error(), "nil")
		return false
	}
	var d2 dawg.Dawg
	pi = c.Call(callKey+"|gob.Decode", func() { err = gob.NewDecoder(&buf).Decode(&d2) })
	c.Eval(1)
	if pi != nil {
		dawgx.Report(c, nil, pi, "encoding/gob.Decode", w, det)
		return false
	}
	if err != nil {
		c.Violation("encoding/gob.Decode|error|"+w, det, err.Error(), "nil")
		return false
	}
	if !compareCopyW(c, light, "encoding/gob", w, callKey, &d2, set, probes, d, shape0, b0, queries[:1], det) {
		return false
	}
	c.Obs("roundtrips:encoding/gob", 1)

	return roundTripEnd(c, callKey, d, set, nodes0, w, det)
}

// roundTripEnd: the original is untouched by all this.
func roundTripEnd(c *engine.Ctx, callKey string, d *dawg.Dawg, set *refdawg.Set, nodes0 []dawg.VerifNode, w string, det map[string]interface{}) bool {
	nodesAfter, pi := dawgx.Nodes(c, callKey+"|orig-after", d)
	c.Eval(1)
	if pi != nil || dawgx.NodesEqual(nodes0, nodesAfter) != "" {
		c.Violation("GobEncode|modified-the-dawg|"+w, det, dawgx.NodesEqual(nodes0, nodesAfter), "encoding and searching leave the Dawg unchanged")
		return false
	}
	observe(c, set, nodes0)
	return true
}

func nontrivial(set *refdawg.Set) bool {
	if set.Len() < 2 {
		return false
	}
	t := set.Trie()
	return t.Minimise() < t.Size()
}

type boundary struct {
	name     string
	words    func() [][]byte
	thorough bool
	light    bool
}

func binaryWords(l int) [][]byte {
	ws := make([][]byte, 0, 1<<uint(l))
	for x := 0; x < 1<<uint(l); x++ {
		w := make([]byte, l)
		for i := 0; i < l; i++ {
			w[i] = '0' + byte(x>>uint(l-1-i)&1)
		}
		ws = append(ws, w)
	}
	return ws
}

func allTwoByteWords() [][]byte {
	ws := make([][]byte, 0, 65536)
	for a := 0; a < 256; a++ {
		for b := 0; b < 256; b++ {
			ws = append(ws, []byte{byte(a), byte(b)})
		}
	}
	return ws
}

func boundaries() []boundary {
	var bs []boundary
	// word counts around 65535/65536 (3-byte integers) in a narrow automaton: all binary words of length 16
	bs = append(bs, boundary{"binary-words-of-length-16(65536 words)", func() [][]byte { return binaryWords(16) }, false, false})
	bs = append(bs, boundary{"binary-words-of-length-16-minus-one(65535 words)", func() [][]byte {
		ws := binaryWords(16)
		return append(ws[:30000], ws[30001:]...)
	}, false, false})
	// ... plus one more word whose nodes are created last (ids beyond 65535 survive in the automaton)
	bs = append(bs, boundary{"binary-words-of-length-16-plus-1^16zz(65537 words, ids>=65536)", func() [][]byte {
		return append(binaryWords(16), append(bytes.Repeat([]byte{'1'}, 16), 'z', 'z'))
	}, false, false})
	// more than 65536 NODES (node indices, and hence ids under any numbering, need 3 bytes): words with random tails share next to nothing
	bs = append(bs, boundary{"9000-fixed-pseudo-random-words-of-length-12(>65536 nodes)", func() [][]byte {
		rg := engine.NewRng(777)
		seen := map[string]bool{}
		var ws [][]byte
		for len(ws) < 9000 {
			w := rg.Bytes(12)
			if !seen[string(w)] {
				seen[string(w)] = true
				ws = append(ws, w)
			}
		}
		sort.Slice(ws, func(i, j int) bool { return bytes.Compare(ws[i], ws[j]) < 0 })
		return ws
	}, false, true})
	// more than 32768 / 65536 nodes WITH heavy sharing (dense random sets of short words over a small alphabet: the
	// late layers of the automaton are shared by thousands of parents, so whatever node sits at an index such as 32768
	// or 65536 is likely to have several parents and successors)
	for _, sp := range [][3]int{{100000, 10, 5}, {160000, 11, 5}} {
		sp := sp
		bs = append(bs, boundary{fmt.Sprintf("%d-fixed-pseudo-random-words-of-length-%d-over-%d-letters(shared nodes beyond index 32768)", sp[0], sp[1], sp[2]), func() [][]byte {
			rg := engine.NewRng(uint64(4242 + sp[0]))
			seen := map[string]bool{}
			var ws [][]byte
			for len(ws) < sp[0] {
				w := make([]byte, sp[1])
				for i := range w {
					w[i] = byte('a' + rg.Intn(sp[2]))
				}
				if !seen[string(w)] {
					seen[string(w)] = true
					ws = append(ws, w)
				}
			}
			sort.Slice(ws, func(i, j int) bool { return bytes.Compare(ws[i], ws[j]) < 0 })
			return ws
		}, sp[0] > 100000, true})
	}
	// one very long chain (a x^L) that 121 short words enter at every depth within 60 nodes of node number 32768
	// (65536 in thorough): whatever per-node bookkeeping changes at such an index meets a node with two parents there
	for _, L := range []int{32768 + 60, 65536 + 60} {
		L := L
		bs = append(bs, boundary{fmt.Sprintf("chain-of-%d-nodes-entered-at-every-depth-near-its-end", L+1), func() [][]byte {
			ws := [][]byte{append([]byte{'a'}, bytes.Repeat([]byte{'x'}, L)...)}
			for t := 0; t <= 120; t++ {
				ws = append(ws, append([]byte{'b', byte(t / 16), byte(t % 16)}, bytes.Repeat([]byte{'x'}, t)...))
			}
			ws = append(ws, []byte("cyyy"))
			return ws
		}, L > 40000, true})
	}
	// the LAST integer of the stream at every width: one long word a x^L and a later word b q x^t that joins the chain
	// t nodes before its end, so that the last record written is a node whose only link names a node far down the chain
	// (index below 128, 128..255, 256..65535, 65536 and more); and the same with the long word last in the order
	for _, L := range []int{100, 140, 200, 270, 400, 66000} {
		for _, t := range []int{1, 11} {
			L, t := L, t
			bs = append(bs, boundary{fmt.Sprintf("chain-of-%d-nodes-and-a-later-word-that-joins-it-%d-nodes-before-its-end", L+1, t), func() [][]byte {
				return [][]byte{append([]byte{'a'}, bytes.Repeat([]byte{'x'}, L)...), append([]byte{'b', 'q'}, bytes.Repeat([]byte{'x'}, t)...)}
			}, false, true})
		}
		L := L
		bs = append(bs, boundary{fmt.Sprintf("chain-of-%d-nodes-after-an-earlier-word-that-ends-like-it", L+1), func() [][]byte {
			return [][]byte{append([]byte{'B', 'q'}, bytes.Repeat([]byte{'x'}, 7)...), append([]byte{'a'}, bytes.Repeat([]byte{'x'}, L)...)}
		}, false, true})
	}
	// the same word counts with two levels of 256 children (GobEncode walks every path and takes seconds here: thorough)
	bs = append(bs, boundary{"all-two-byte-words(65536 words)", allTwoByteWords, true, true})
	// word counts 126..129 and 254..257 with small automata: k single letters below a prefix is covered by the fans; here k words a^i b
	for _, k := range []int{126, 127, 128, 129, 254, 255, 256, 257} {
		k := k
		bs = append(bs, boundary{fmt.Sprintf("%d-words-a^i-b", k), func() [][]byte {
			var ws [][]byte
			for i := 0; i < k; i++ {
				ws = append(ws, append(bytes.Repeat([]byte{'a'}, i), 'b'))
			}
			return ws
		}, false, false})
	}
	// a wide node whose children all differ (k distinct subtrees => node indices beyond 127/255 as link targets)
	for _, k := range []int{127, 128, 129, 255, 256} {
		k := k
		bs = append(bs, boundary{fmt.Sprintf("fan-%d-over-distinct-unary-tails", k), func() [][]byte {
			var ws [][]byte
			for i := 0; i < k; i++ {
				ws = append(ws, append([]byte{byte(i)}, bytes.Repeat([]byte{'t'}, i%40)...))
				if i%3 == 0 {
					ws = append(ws, append([]byte{byte(i)}, bytes.Repeat([]byte{'u'}, 1+i%7)...))
				}
			}
			return ws
		}, false, false})
	}
	// two levels of wide nodes with different fans
	bs = append(bs, boundary{"fan-130-then-fans-127..131", func() [][]byte {
		var ws [][]byte
		for i := 0; i < 130; i++ {
			for j := 0; j < 127+i%5; j++ {
				ws = append(ws, []byte{byte(i), byte(j)})
			}
		}
		return ws
	}, false, true})
	// node counts around 65535 (one long unary word): thorough only
	for _, k := range []int{65534, 65535, 65536} {
		k := k
		bs = append(bs, boundary{fmt.Sprintf("unary-single-%d(%d nodes)", k, k+1), func() [][]byte { return [][]byte{bytes.Repeat([]byte{'a'}, k)} }, true, false})
	}
	return bs
}

func run(c *engine.Ctx) {
	// 1. exhaustive subsets
	type sweep struct {
		name, alphabet string
		maxLen, blocks int
		thorough       bool
	}
	for _, sw := range []sweep{{"subsets15", "ab", 3, 64, false}, {"subsets13", "abc", 2, 16, true}} {
		if sw.thorough && !c.Thorough() {
			continue
		}
		sw := sw
		u := refdawg.Universe([]byte(sw.alphabet), sw.maxLen)
		per := (1 << uint(len(u))) / sw.blocks
		label := fmt.Sprintf("all 2^%d subsets of the %d words of length<=%d over an alphabet of %d letters", len(u), len(u), sw.maxLen, len(sw.alphabet))
		for blk := 0; blk < sw.blocks; blk++ {
			blk := blk
			c.Unit(fmt.Sprintf("%s/%02d", sw.name, blk), func() {
				nt := 0
				rg := engine.NewRng(uint64(31 + blk))
				for mask := blk * per; mask < (blk+1)*per; mask++ {
					set := c12.SubsetOf(u, mask)
					if !roundTrip(c, label, fmt.Sprintf("%s|mask=%d", sw.name, mask), set, []byte(sw.alphabet), rg, mask, 1, false) {
						if c.Stopped() {
							return
						}
						continue
					}
					if nontrivial(set) {
						nt++
					}
				}
				c.NTDistinct(nt)
				c.Obs("exhaustive_subsets_roundtripped", per)
				if blk == 0 {
					c.Obs("exhaustive:"+label, 1)
					c.Sample(sw.name, map[string]interface{}{"universe": refdawg.QuoteList(u, 20), "example": c12.SubsetOf(u, 0x1234).Quoted(20)})
				}
			})
		}
	}

	// 2. fixed families
	for fi, fam := range c12.FixedFamilies() {
		fi, fam := fi, fam
		c.Unit("family/"+fam.Name, func() {
			rg := engine.NewRng(uint64(9000 + fi))
			if roundTrip(c, "family "+fam.Name, "family|"+fam.Name, fam.Set, fam.Alpha, rg, 0, 12, false) && nontrivial(fam.Set) {
				c.NT("family", fam.Name)
			}
			if fam.Name == "fan-128-below-prefix" {
				c.Sample("family", map[string]interface{}{"name": fam.Name, "words": fam.Set.Quoted(6), "minimal_nodes": fam.Set.MinimalStates()})
			}
		})
	}

	// 3. boundary table
	all := make([]byte, 256)
	for i := range all {
		all[i] = byte(i)
	}
	for bi, bd := range boundaries() {
		if bd.thorough && !c.Thorough() {
			continue
		}
		bi, bd := bi, bd
		c.Unit("boundary/"+bd.name, func() {
			set := refdawg.FromWords(bd.words())
			rg := engine.NewRng(uint64(9500 + bi))
			if roundTrip(c, "boundary "+bd.name, "boundary|"+bd.name, set, all, rg, 0, 6, bd.light) && nontrivial(set) {
				c.NT("boundary", bd.name)
			}
			c.Sample("boundary", map[string]interface{}{"name": bd.name, "words": set.Len(), "minimal_nodes": set.MinimalStates(), "max_fanout": set.Trie().MaxFanout()})
		})
	}

	// 4. decoding into receivers that already hold an automaton (used.go)
	usedReceivers(c)

	// 4b. the bytes given to GobDecode / returned by GobEncode are the caller's to reuse (owned.go)
	callerOwnedBytes(c)

	// 5. seeded
	nSets := c.Pick(5000, 16000)
	perUnit := 40
	for un := 0; un*perUnit < nSets; un++ {
		un := un
		c.Unit(fmt.Sprintf("seeded/%d", un), func() {
			var prev *prepared
			var batch []*prepared
			for i := un * perUnit; i < (un+1)*perUnit && i < nSets; i++ {
				rg := c.Rand("c14-sets", i)
				maxWords := 300
				if i%40 == 3 {
					maxWords = 5000
				}
				set, alpha, info := refdawg.GenSet(rg, maxWords)
				ok := roundTrip(c, "seeded "+info.String(), fmt.Sprintf("seeded#%d", i), set, alpha, rg, i, 4, false)
				if c.Stopped() {
					return
				}
				if !ok {
					continue
				}
				c.Obs("gen:"+info.Mode, 1)
				if nontrivial(set) {
					c.NT("set", set.Hash())
				}
				// the previous set of the unit as the old content of the receiver, and back
				if set.Len() <= 1500 {
					cur := prepare(c, fmt.Sprintf("seeded#%d|used", i), "seeded "+info.String(), set, alpha, rg, 2)
					if cur != nil && prev != nil {
						if !usedDecode(c, fmt.Sprintf("seeded#%d|used", i), prev, cur, i%len(usedModes)) || !usedDecode(c, fmt.Sprintf("seeded#%d|used-back", i), cur, prev, (i+2)%len(usedModes)) {
							if c.Stopped() {
								return
							}
						}
					}
					if cur != nil {
						batch = append(batch, cur)
						if len(batch) == 8 {
							ownedAll(c, fmt.Sprintf("seeded#%d|owned", i), batch, rg)
							batch = batch[:0]
							if c.Stopped() {
								return
							}
						}
						prev = cur
					}
				}
				if i < 2 {
					c.Sample("seeded", map[string]interface{}{"gen": info.String(), "words": set.Quoted(10), "minimal_nodes": set.MinimalStates()})
				}
			}
		})
	}

	// 6. Dawgs of a Builder that is used for several Dawgs in a row (life.go)
	lifeCycles(c)
}

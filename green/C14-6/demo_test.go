// Demonstration for C14, change 6 (Builder.Finish marks the builder as finished, as its documentation says: a second
// Finish and an Add after Finish now return the error "DawgBuilder has already finished" until Initialise is called).
//
// Run (from the root of the library, after copying this file into the dawg directory):
//
//	cp demo_test.go <repo>/dawg/c14_demo_test.go
//	cd <repo> && GOFLAGS=-mod=mod GOPROXY=off GOSUMDB=off GOTOOLCHAIN=local go test -vet=off -count=1 -timeout 600s -run 'TestC14Demo' -v ./dawg
//
// TestC14DemoProperty checks the property itself (round trip directly and through encoding/gob, also into a receiver
// that already holds another dawg, stable re-encoding) for dawgs made with New and passes before and after the change.
// TestC14DemoBytesUnchanged pins three small encodings; passes before and after.
// TestC14DemoBuilderProperty builds with a Builder by hand (also one that is reused after Initialise) and round-trips
// the result of the FIRST Finish; passes before and after.
// TestC14DemoIncidentalBuilderReuse pins the OLD behaviour outside the documented use of a Builder: Finish can be
// called again and returns the same dawg without an error, and Add after Finish is accepted and changes the dawg that
// Finish has already handed out (on the clean tree it even adds the word "ac" that nobody added, because the node it
// extends is shared).  With the change both calls return an error and the finished dawg stays as it is, so this test
// passes on the clean tree and fails with the change.
package dawg_test

import (
	"bytes"
	"encoding/gob"
	"fmt"
	"sort"
	"testing"

	"github.com/Tom-Johnston/mamba/dawg"
)

func c14Sorted(ws [][]byte) [][]byte {
	sort.Slice(ws, func(i, j int) bool { return bytes.Compare(ws[i], ws[j]) < 0 })
	out := ws[:0]
	for i, w := range ws {
		if i == 0 || !bytes.Equal(w, ws[i-1]) {
			out = append(out, w)
		}
	}
	return out
}

// c14WordSets returns word sets with wide branching (up to 256 links per node) and with word and node counts on both
// sides of 127.
func c14WordSets() map[string][][]byte {
	sets := map[string][][]byte{}
	sets["empty"] = nil
	sets["emptyword"] = [][]byte{{}}
	sets["ab"] = [][]byte{[]byte("a"), []byte("b")}
	for _, k := range []int{1, 127, 128, 129, 200, 256} {
		var ws [][]byte
		for c := 0; c < k; c++ {
			ws = append(ws, []byte{byte(c)})
		}
		sets[fmt.Sprintf("fan%d", k)] = c14Sorted(ws)
		// two levels, different second levels so that the nodes are not merged
		var ws2 [][]byte
		for c := 0; c < k; c++ {
			for e := 0; e <= c%5; e++ {
				ws2 = append(ws2, []byte{byte(c), byte(255 - e)})
			}
			if c%3 == 0 {
				ws2 = append(ws2, []byte{byte(c)})
			}
		}
		sets[fmt.Sprintf("fan2_%d", k)] = c14Sorted(ws2)
	}
	// a long chain: many nodes, no branching
	var chain [][]byte
	w := []byte{}
	for i := 0; i < 300; i++ {
		w = append(w, byte(i*7))
		chain = append(chain, append([]byte(nil), w...))
	}
	sets["chain300"] = c14Sorted(chain)
	// pseudo-random words over the full alphabet
	x := uint32(12345)
	next := func() uint32 { x = x*1664525 + 1013904223; return x >> 8 }
	var rnd [][]byte
	for i := 0; i < 400; i++ {
		l := int(next() % 5)
		b := make([]byte, l)
		for j := range b {
			b[j] = byte(next() % 7 * 41)
		}
		rnd = append(rnd, b)
	}
	sets["random"] = c14Sorted(rnd)
	return sets
}

type c14All struct{}

func (c14All) AllowStep(b byte) bool { return true }
func (c14All) Step(b byte)           {}
func (c14All) Backstep()             {}
func (c14All) AllowWord() bool       { return true }
func (c14All) Chosen()               {}

func c14Same(t *testing.T, name string, ws [][]byte, d, e *dawg.Dawg) {
	t.Helper()
	if d.NumberOfWords() != len(ws) || e.NumberOfWords() != len(ws) {
		t.Fatalf("%s: word count %d / %d, want %d", name, d.NumberOfWords(), e.NumberOfWords(), len(ws))
	}
	for i, w := range ws {
		r1, ok1 := d.Lookup(w)
		r2, ok2 := e.Lookup(w)
		if !ok1 || !ok2 || r1 != i || r2 != i {
			t.Fatalf("%s: rank of %v: %d,%v / %d,%v want %d", name, w, r1, ok1, r2, ok2, i)
		}
		if _, ok := e.Lookup(append(append([]byte(nil), w...), 3, 3, 3)); ok {
			t.Fatalf("%s: a word that is not in the set is found", name)
		}
	}
	s1, i1 := d.Search(c14All{})
	s2, i2 := e.Search(c14All{})
	if len(s1) != len(ws) || len(s2) != len(ws) {
		t.Fatalf("%s: search finds %d / %d words, want %d", name, len(s1), len(s2), len(ws))
	}
	for i := range ws {
		if !bytes.Equal(s1[i], ws[i]) || !bytes.Equal(s2[i], ws[i]) || i1[i] != i || i2[i] != i {
			t.Fatalf("%s: search result %d differs", name, i)
		}
	}
	for _, pat := range [][]byte{{'?'}, {'?', '?'}, {0, '?'}, {'?', 255}, {'?', '?', '?'}} {
		p1, j1 := d.Search(dawg.NewPatternSearcher(pat, '?'))
		p2, j2 := e.Search(dawg.NewPatternSearcher(pat, '?'))
		if fmt.Sprint(p1, j1) != fmt.Sprint(p2, j2) {
			t.Fatalf("%s: pattern search %v differs", name, pat)
		}
	}
}

func TestC14DemoProperty(t *testing.T) {
	other, err := dawg.New([][]byte{[]byte("x"), []byte("xy"), []byte("z")})
	if err != nil {
		t.Fatal(err)
	}
	otherBytes, _ := other.GobEncode()
	for name, ws := range c14WordSets() {
		d, err := dawg.New(ws)
		if err != nil {
			t.Fatal(name, err)
		}
		b, err := d.GobEncode()
		if err != nil {
			t.Fatal(name, err)
		}
		keep := append([]byte(nil), b...)

		// direct, twice from the same bytes
		e1, e2 := new(dawg.Dawg), new(dawg.Dawg)
		if err := e1.GobDecode(b); err != nil {
			t.Fatal(name, err)
		}
		if err := e2.GobDecode(b); err != nil {
			t.Fatal(name, err)
		}
		// into a receiver that holds another dawg
		e3 := new(dawg.Dawg)
		if err := e3.GobDecode(otherBytes); err != nil {
			t.Fatal(name, err)
		}
		if err := e3.GobDecode(b); err != nil {
			t.Fatal(name, err)
		}
		// through encoding/gob
		var buf bytes.Buffer
		if err := gob.NewEncoder(&buf).Encode(d); err != nil {
			t.Fatal(name, err)
		}
		e4 := new(dawg.Dawg)
		if err := gob.NewDecoder(&buf).Decode(e4); err != nil {
			t.Fatal(name, err)
		}
		// the decoded automata must not depend on the input slice
		for i := range b {
			b[i] = 0xAA
		}
		// decoding something else into e2 must not disturb e1
		if err := e2.GobDecode(otherBytes); err != nil {
			t.Fatal(name, err)
		}
		for k, e := range []*dawg.Dawg{e1, e3, e4} {
			c14Same(t, fmt.Sprint(name, "/", k), ws, d, e)
			b2, err := e.GobEncode()
			if err != nil || !bytes.Equal(b2, keep) {
				t.Fatalf("%s/%d: re-encoding differs", name, k)
			}
		}
		c14Same(t, name+"/other", [][]byte{[]byte("x"), []byte("xy"), []byte("z")}, other, e2)
	}
}

func TestC14DemoBytesUnchanged(t *testing.T) {
	want := map[string]string{
		"empty":     "010000000000",
		"emptyword": "010000010100",
		"ab":        "020001000200026101620101010100",
	}
	sets := c14WordSets()
	for name, hex := range want {
		d, _ := dawg.New(sets[name])
		b, _ := d.GobEncode()
		if got := fmt.Sprintf("%x", b); got != hex {
			t.Errorf("%s: encoding %s, pinned %s", name, got, hex)
		}
		e := new(dawg.Dawg)
		if err := e.GobDecode(b); err != nil {
			t.Fatal(err)
		}
		b2, _ := e.GobEncode()
		if !bytes.Equal(b, b2) {
			t.Errorf("%s: re-encoding differs", name)
		}
	}
}

func TestC14DemoBuilderProperty(t *testing.T) {
	b := new(dawg.Builder)
	for round := 0; round < 3; round++ {
		var ws [][]byte
		for c := 0; c < 130+round; c++ {
			ws = append(ws, []byte{byte(c), byte(round)}, []byte{byte(c), byte(round), byte(c % 3)})
		}
		ws = c14Sorted(ws)
		for _, w := range ws {
			if err := b.Add(w); err != nil {
				t.Fatal(err)
			}
		}
		d, err := b.Finish()
		if err != nil {
			t.Fatal(err)
		}
		enc, err := d.GobEncode()
		if err != nil {
			t.Fatal(err)
		}
		e := new(dawg.Dawg)
		if err := e.GobDecode(enc); err != nil {
			t.Fatal(err)
		}
		c14Same(t, fmt.Sprint("builder round ", round), ws, d, e)
		enc2, _ := e.GobEncode()
		if !bytes.Equal(enc, enc2) {
			t.Fatal("re-encoding differs")
		}
		b.Initialise() // documented way to use the builder again
	}
}

func TestC14DemoIncidentalBuilderReuse(t *testing.T) {
	b := new(dawg.Builder)
	for _, w := range []string{"ab", "bb"} {
		if err := b.Add([]byte(w)); err != nil {
			t.Fatal(err)
		}
	}
	d1, err := b.Finish()
	if err != nil {
		t.Fatal(err)
	}
	before, _ := d1.GobEncode()

	// OLD: a second Finish is accepted and returns the same dawg.
	d2, err := b.Finish()
	t.Logf("second Finish: same dawg %v, err %v", d2 == d1, err)
	if err != nil || d2 != d1 {
		t.Errorf("second Finish: got (%p, %v), pinned (%p, nil)", d2, err, d1)
	}
	// OLD: Add after Finish is accepted and changes the dawg already handed out.
	err = b.Add([]byte("bc"))
	_, ac := d1.Lookup([]byte("ac"))
	after, _ := d1.GobEncode()
	t.Logf("Add after Finish: err %v; finished dawg now has %d words, contains \"ac\": %v, encoding changed: %v", err, d1.NumberOfWords(), ac, !bytes.Equal(before, after))
	if err != nil {
		t.Errorf("Add after Finish: got error %q, pinned nil", err)
	}
	if d1.NumberOfWords() != 3 {
		t.Errorf("finished dawg has %d words after a late Add, pinned 3", d1.NumberOfWords())
	}
	// Whatever d1 is now, it is a Dawg, and the property holds for it.
	enc, _ := d1.GobEncode()
	e := new(dawg.Dawg)
	if err := e.GobDecode(enc); err != nil {
		t.Fatal(err)
	}
	enc2, _ := e.GobEncode()
	s1, i1 := d1.Search(c14All{})
	s2, i2 := e.Search(c14All{})
	if !bytes.Equal(enc, enc2) || e.NumberOfWords() != d1.NumberOfWords() || fmt.Sprint(s1, i1) != fmt.Sprint(s2, i2) {
		t.Fatal("round trip of the finished dawg differs")
	}
}

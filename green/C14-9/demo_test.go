// Demonstration for C14 change 9 (GobEncode writes the node records breadth-first).
//
// Run from the repository root (copy this file to dawg/demo_test.go first):
//
//	GOFLAGS=-mod=mod GOPROXY=off GOSUMDB=off GOTOOLCHAIN=local \
//	    go test -vet=off -count=1 -timeout 300s -run 'TestDemo' -v ./dawg/
//
// TestDemoProperty checks the property itself (round trip, directly and through
// encoding/gob: same words, ranks, word count, search results, same bytes when
// encoded again, also with 200 links per node and more than 127 nodes) and
// passes with and without the change.
// TestDemoIncidentalRecordOrder pins the OLD order of the records in the stream
// (depth-first); it passes on the clean tree and fails with the change.
package dawg_test

import (
	"bytes"
	"encoding/gob"
	"encoding/hex"
	"math/rand"
	"sort"
	"testing"

	"github.com/Tom-Johnston/mamba/dawg"
)

func demoBuild(t *testing.T, words [][]byte) *dawg.Dawg {
	t.Helper()
	sort.Slice(words, func(i, j int) bool { return bytes.Compare(words[i], words[j]) < 0 })
	uniq := words[:0]
	for i, w := range words {
		if i == 0 || !bytes.Equal(w, words[i-1]) {
			uniq = append(uniq, w)
		}
	}
	d, err := dawg.New(uniq)
	if err != nil {
		t.Fatal(err)
	}
	return d
}

func demoSame(t *testing.T, name string, a, b *dawg.Dawg) {
	t.Helper()
	if a.NumberOfWords() != b.NumberOfWords() {
		t.Fatalf("%s: word count %d != %d", name, a.NumberOfWords(), b.NumberOfWords())
	}
	wa, ia := a.Search()
	wb, ib := b.Search()
	if len(wa) != len(wb) || len(wa) != a.NumberOfWords() {
		t.Fatalf("%s: number of words listed differs", name)
	}
	for i := range wa {
		if !bytes.Equal(wa[i], wb[i]) || ia[i] != ib[i] {
			t.Fatalf("%s: word %d differs", name, i)
		}
		ra, oka := a.Lookup(wa[i])
		rb, okb := b.Lookup(wa[i])
		if !oka || !okb || ra != rb || ra != i {
			t.Fatalf("%s: rank of word %d differs", name, i)
		}
	}
	for _, p := range []string{"a?c", "??", "?", "b?", "????"} {
		sa, ja := a.Search(dawg.NewPatternSearcher([]byte(p), '?'))
		sb, jb := b.Search(dawg.NewPatternSearcher([]byte(p), '?'))
		if len(sa) != len(sb) {
			t.Fatalf("%s: pattern %s differs", name, p)
		}
		for i := range sa {
			if !bytes.Equal(sa[i], sb[i]) || ja[i] != jb[i] {
				t.Fatalf("%s: pattern %s differs", name, p)
			}
		}
	}
}

func demoRoundTrip(t *testing.T, name string, d *dawg.Dawg) {
	t.Helper()
	enc, err := d.GobEncode()
	if err != nil {
		t.Fatal(err)
	}
	e := new(dawg.Dawg)
	if err := e.GobDecode(enc); err != nil {
		t.Fatalf("%s: %v", name, err)
	}
	demoSame(t, name, d, e)
	enc2, err := e.GobEncode()
	if err != nil || !bytes.Equal(enc, enc2) {
		t.Fatalf("%s: encoding again gives other bytes", name)
	}
	var buf bytes.Buffer
	if err := gob.NewEncoder(&buf).Encode(d); err != nil {
		t.Fatal(err)
	}
	f := new(dawg.Dawg)
	if err := gob.NewDecoder(&buf).Decode(f); err != nil {
		t.Fatalf("%s: %v", name, err)
	}
	demoSame(t, name+"/gob", d, f)
	enc3, err := f.GobEncode()
	if err != nil || !bytes.Equal(enc, enc3) {
		t.Fatalf("%s: encoding again after gob gives other bytes", name)
	}
}

func TestDemoProperty(t *testing.T) {
	demoRoundTrip(t, "empty", demoBuild(t, nil))
	demoRoundTrip(t, "emptyword", demoBuild(t, [][]byte{{}}))
	demoRoundTrip(t, "abc,bd", demoBuild(t, [][]byte{[]byte("abc"), []byte("bd")}))
	//A root with 200 links, each child with 200 links again (two levels, 128 or more links per node).
	var wide [][]byte
	for i := 0; i < 200; i++ {
		wide = append(wide, []byte{byte(i + 30)})
		for j := 0; j < 200; j += 1 + i%7 {
			wide = append(wide, []byte{byte(i + 30), byte(j + 50), byte(i)})
		}
	}
	demoRoundTrip(t, "wide", demoBuild(t, wide))
	//A chain of 300 nodes (node count and ids above 127).
	chain := make([]byte, 299)
	for i := range chain {
		chain[i] = byte(i * 7)
	}
	demoRoundTrip(t, "chain", demoBuild(t, [][]byte{chain, chain[:150]}))
	rng := rand.New(rand.NewSource(14))
	for c := 0; c < 200; c++ {
		n := rng.Intn(300)
		alpha := 1 + rng.Intn(256)
		var words [][]byte
		for i := 0; i < n; i++ {
			w := make([]byte, rng.Intn(6))
			for k := range w {
				w[k] = byte(rng.Intn(alpha))
			}
			words = append(words, w)
		}
		demoRoundTrip(t, "random", demoBuild(t, words))
	}
	//Both layouts of the records of {abc, bd} are read by the decoder and give the same automaton.
	d := demoBuild(t, [][]byte{[]byte("abc"), []byte("bd")})
	for _, h := range []string{demoDepthFirst, demoBreadthFirst} {
		b, _ := hex.DecodeString(h)
		e := new(dawg.Dawg)
		if err := e.GobDecode(b); err != nil {
			t.Fatal(err)
		}
		demoSame(t, "layout "+h, d, e)
	}
}

// {abc, bd}: nodes 0 -a-> 1 -b-> 2 -c-> 3 (final), 0 -b-> 4 -d-> 3.
const demoDepthFirst = "050001020304" + "00020002610162" + "04" + "010100016202" + "020100016303" + "03010100" + "040100016403"
const demoBreadthFirst = "050001020304" + "00020002610162" + "04" + "010100016202" + "040100016403" + "020100016303" + "03010100"

func TestDemoIncidentalRecordOrder(t *testing.T) {
	d := demoBuild(t, [][]byte{[]byte("abc"), []byte("bd")})
	enc, err := d.GobEncode()
	if err != nil {
		t.Fatal(err)
	}
	t.Logf("GobEncode({abc,bd}) = %x", enc)
	if hex.EncodeToString(enc) != demoDepthFirst {
		t.Fatalf("records are not in depth-first order any more:\n got %x\nwant %s", enc, demoDepthFirst)
	}
}

// Demonstration for C15 / change 2 (Partitions accepts n = 0, resolving the "TODO Handle n = 0": it yields the single
// partition of the empty set instead of panicking; n = 0 is outside the domain the clean tree documents).
//
// Run (from the root of the library, offline):
//
//	export GOFLAGS=-mod=mod GOPROXY=off GOSUMDB=off GOTOOLCHAIN=local
//	cp /tmp/green-out/C15/2/demo_test.go itertools/zz_c15_demo2_test.go
//	go test -vet=off -count=1 -timeout 300s -run 'TestC15Demo2' -v ./itertools/
//	rm itertools/zz_c15_demo2_test.go
//
// TestC15Demo2Property checks the property itself for every n the constructor accepts (all set partitions of
// {0, ..., n-1}, once each, in lexicographic order of restricted growth strings, then exhaustion for ever) and passes
// on the clean tree AND with the change.  For n = 0 it accepts a refusal (the clean tree's documented domain is
// n >= 1) as well as a correct enumeration of the one partition of the empty set.
// TestC15Demo2IncidentalPanic asserts the OLD behaviour outside the documented domain: Partitions(0) panics with
// "Cannot handle n < 1".  It passes on the clean tree and FAILS with the change.
package itertools_test

import (
	"fmt"
	"testing"

	"github.com/Tom-Johnston/mamba/itertools"
)

// rgsOf turns a partition of {0, ..., n-1} into its restricted growth string, checking that it is a partition whose
// parts are non-empty, increasing and sorted by their smallest element (this is what makes the string well defined).
func rgsOf(t *testing.T, n int, p [][]int) []int {
	rgs := make([]int, n)
	for i := range rgs {
		rgs[i] = -1
	}
	for b, part := range p {
		if len(part) == 0 {
			t.Fatalf("n=%d: empty part in %v", n, p)
		}
		for _, v := range part {
			if v < 0 || v >= n || rgs[v] != -1 {
				t.Fatalf("n=%d: %v is not a partition", n, p)
			}
			rgs[v] = b
		}
	}
	max := -1
	for i, v := range rgs {
		if v == -1 {
			t.Fatalf("n=%d: %d is missing from %v", n, i, p)
		}
		if v > max+1 {
			t.Fatalf("n=%d: parts of %v are not ordered by smallest element", n, p)
		}
		if v > max {
			max = v
		}
	}
	return rgs
}

func lexLess(a, b []int) bool {
	for i := range a {
		if a[i] != b[i] {
			return a[i] < b[i]
		}
	}
	return false
}

// tryPartitions calls Partitions(n) and reports whether it refused by panicking.
func tryPartitions(n int) (iter *itertools.PartitionIterator, panicked interface{}) {
	defer func() { panicked = recover() }()
	return itertools.Partitions(n), nil
}

func TestC15Demo2Property(t *testing.T) {
	bell := []int{1, 1, 2, 5, 15, 52, 203, 877, 4140, 21147}
	for n := 0; n < len(bell); n++ {
		iter, panicked := tryPartitions(n)
		if panicked != nil {
			if n == 0 {
				t.Logf("Partitions(0) is refused (%v): n = 0 is outside the accepted domain", panicked)
				continue
			}
			t.Fatalf("Partitions(%d) panicked: %v", n, panicked)
		}
		seen := map[string]bool{}
		var prev []int
		for iter.Next() {
			p := iter.Value()
			rgs := rgsOf(t, n, p)
			key := fmt.Sprint(rgs)
			if seen[key] {
				t.Fatalf("n=%d: %v yielded twice", n, p)
			}
			seen[key] = true
			if prev != nil && !lexLess(prev, rgs) {
				t.Fatalf("n=%d: %v after %v is not lexicographic", n, rgs, prev)
			}
			prev = rgs
		}
		if len(seen) != bell[n] {
			t.Fatalf("n=%d: %d partitions, want %d", n, len(seen), bell[n])
		}
		for i := 0; i < 3; i++ {
			if iter.Next() {
				t.Fatalf("n=%d: Next returned true after exhaustion", n)
			}
		}
	}
}

func TestC15Demo2IncidentalPanic(t *testing.T) {
	_, panicked := tryPartitions(0)
	t.Logf("Partitions(0): panic value %v", panicked)
	if panicked == nil {
		t.Fatalf("Partitions(0) did not panic; the old tree refuses n = 0")
	}
	if fmt.Sprint(panicked) != "Cannot handle n < 1" {
		t.Fatalf("Partitions(0) panicked with %q, the old tree says %q", fmt.Sprint(panicked), "Cannot handle n < 1")
	}
}

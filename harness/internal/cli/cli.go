// vrun is the single binary of the verification harness: supervisor, child
// worker and replayer.  Usage:
//
//	vrun super  <Cxx> <quick|thorough> [--replay file]
//	vrun child  <Cxx> <tier> --shard k --of n --seed s --out dir [--only unit] [--percase] [--skip file] [--tag t]
//	vrun list
//	vrun selfcheck
package cli

import (
	"fmt"
	"os"
	"path/filepath"
	"strconv"
	"strings"

	"verif/internal/engine"
	"verif/internal/selfcheck"
)

func envInt(name string, def int) int {
	if v := os.Getenv(name); v != "" {
		if n, err := strconv.Atoi(v); err == nil {
			return n
		}
	}
	return def
}

// Main is the entry point shared by vrun and the per-property dev binaries.
func Main() {
	if len(os.Args) < 2 {
		fmt.Fprintln(os.Stderr, "usage: vrun super|child|list ...")
		os.Exit(2)
	}
	switch os.Args[1] {
	case "list":
		for _, id := range engine.IDs() {
			fmt.Println(id)
		}
	case "selfcheck":
		if err := selfcheck.Run(os.Stdout); err != nil {
			fmt.Println("selfcheck FAILED:", err)
			os.Exit(1)
		}
		fmt.Println("selfcheck ok")
	case "super":
		if len(os.Args) < 4 {
			fmt.Fprintln(os.Stderr, "usage: vrun super Cxx tier [--replay file]")
			os.Exit(2)
		}
		p, err := engine.Lookup(os.Args[2])
		if err != nil {
			fmt.Printf("INCONCLUSIVE property=%s reason=%v\n", os.Args[2], err)
			os.Exit(2)
		}
		tier := os.Args[3]
		if tier != "quick" && tier != "thorough" {
			fmt.Fprintln(os.Stderr, "tier must be quick or thorough")
			os.Exit(2)
		}
		replay := ""
		for i := 4; i < len(os.Args); i++ {
			if os.Args[i] == "--replay" && i+1 < len(os.Args) {
				replay = os.Args[i+1]
				i++
			}
		}
		seed := uint64(1)
		if v := os.Getenv("VERIF_SEED"); v != "" {
			if n, err := strconv.ParseInt(v, 10, 64); err == nil {
				seed = uint64(n)
			}
		}
		exe := os.Getenv("VERIF_CHILD_EXE")
		if exe == "" {
			exe, _ = os.Executable()
		}
		verifDir := os.Getenv("VERIF_DIR")
		if verifDir == "" {
			verifDir = "/verif"
		}
		repo := os.Getenv("VERIF_REPO")
		if repo == "" {
			repo = "/repo"
		}
		code := engine.RunSuper(engine.SuperOpts{Prop: p, Tier: tier, Seed: seed, Jobs: envInt("VERIF_JOBS", 16),
			VerifDir: verifDir, Exe: exe, Replay: replay, RepoDir: repo}, os.Stdout)
		os.Exit(code)
	case "helper":
		if len(os.Args) < 3 {
			os.Exit(2)
		}
		code, ok := engine.RunHelper(os.Args[2], os.Args[3:])
		if !ok {
			fmt.Fprintln(os.Stderr, "unknown helper", os.Args[2])
		}
		os.Exit(code)
	case "child":
		if len(os.Args) < 4 {
			os.Exit(2)
		}
		p, err := engine.Lookup(os.Args[2])
		if err != nil {
			fmt.Fprintln(os.Stderr, err)
			os.Exit(2)
		}
		o := engine.ChildOpts{Prop: p, Tier: os.Args[3], Seed: 1, Of: 1}
		for i := 4; i < len(os.Args); i++ {
			a := os.Args[i]
			next := func() string {
				i++
				if i < len(os.Args) {
					return os.Args[i]
				}
				return ""
			}
			switch a {
			case "--shard":
				o.Shard, _ = strconv.Atoi(next())
			case "--of":
				o.Of, _ = strconv.Atoi(next())
			case "--seed":
				o.Seed, _ = strconv.ParseUint(next(), 10, 64)
			case "--out":
				o.OutDir = next()
			case "--only":
				o.Only = next()
			case "--percase":
				o.PerCase = true
			case "--list":
				o.ListOnly = true
			case "--stop-after":
				o.StopAfter = next()
			case "--tag":
				o.Tag = next()
			case "--slow-capped":
				o.SlowCapped = true
			case "--skip":
				b, err := os.ReadFile(next())
				if err == nil {
					o.Skip = map[string]bool{}
					for _, l := range strings.Split(string(b), "\n") {
						if l != "" {
							o.Skip[l] = true
						}
					}
				}
			}
		}
		if o.OutDir == "" {
			o.OutDir = filepath.Join(os.TempDir(), "vrun-out")
			os.MkdirAll(o.OutDir, 0o755)
		}
		if v := os.Getenv("VERIF_BUDGET_S"); v != "" {
			o.BudgetS, _ = strconv.ParseFloat(v, 64)
		}
		engine.RunChild(o)
	default:
		fmt.Fprintln(os.Stderr, "unknown mode", os.Args[1])
		os.Exit(2)
	}
}

// Demonstration for C16-6 (CombinationsColex rewritten without the position-tracking field).
//
// Run (from the repository root, offline):
//   cp demo_test.go itertools/zz_demo_test.go
//   GOFLAGS=-mod=mod GOPROXY=off GOSUMDB=off GOTOOLCHAIN=local go test -vet=off -count=1 -timeout 120s -run 'TestDemo' -v ./itertools
//
// TestDemoProperty passes on the clean tree and with the patch.
// TestDemoIncidentalOld asserts what Value() holds when no subset is current (before the first Next and after Next
// has returned false), which nothing documents; it passes on the clean tree and fails with the patch.
package itertools_test

import (
	"reflect"
	"sort"
	"testing"

	"github.com/Tom-Johnston/mamba/comb"
	"github.com/Tom-Johnston/mamba/itertools"
)

func TestDemoIncidentalOld(t *testing.T) {
	it := itertools.CombinationsColex(5, 2)
	if v := it.Value(); !reflect.DeepEqual(v, []int{0, 0}) {
		t.Errorf("Value() before the first Next = %v (old: [0 0], not a subset)", v)
	}
	for it.Next() {
	}
	if v := it.Value(); !reflect.DeepEqual(v, []int{0, 4}) {
		t.Errorf("Value() after Next returned false = %v (old: [0 4])", v)
	}
	it = itertools.CombinationsColex(7, 4)
	if v := it.Value(); !reflect.DeepEqual(v, []int{0, 1, 2, 2}) {
		t.Errorf("Value() before the first Next = %v (old: [0 1 2 2])", v)
	}
	for it.Next() {
	}
	if v := it.Value(); !reflect.DeepEqual(v, []int{0, 1, 2, 6}) {
		t.Errorf("Value() after Next returned false = %v (old: [0 1 2 6])", v)
	}
}

//colexLess compares two k-subsets in colexicographic order.
func colexLess(a, b []int) bool {
	for i := len(a) - 1; i >= 0; i-- {
		if a[i] != b[i] {
			return a[i] < b[i]
		}
	}
	return false
}

func TestDemoProperty(t *testing.T) {
	for n := 0; n <= 14; n++ {
		for k := 0; k <= n+2; k++ {
			//All k-subsets of 0..n-1 from bitmasks, sorted in colex order.
			var all [][]int
			for m := 0; m < 1<<uint(n); m++ {
				var s []int
				for v := 0; v < n; v++ {
					if m>>uint(v)&1 == 1 {
						s = append(s, v)
					}
				}
				if len(s) == k {
					all = append(all, s)
				}
			}
			sort.Slice(all, func(i, j int) bool { return colexLess(all[i], all[j]) })

			it := itertools.CombinationsColex(n, k)
			i := 0
			for it.Next() {
				v := it.Value()
				if i >= len(all) {
					t.Fatalf("n=%d k=%d: too many subsets", n, k)
				}
				if len(v) != k || (k > 0 && !reflect.DeepEqual(v, all[i])) {
					t.Fatalf("n=%d k=%d: subset %d is %v want %v", n, k, i, v, all[i])
				}
				if r := comb.Rank(v); r != i {
					t.Fatalf("n=%d k=%d: Rank(%v) = %d want %d", n, k, v, r, i)
				}
				if u := comb.Unrank(i, k); len(u) != k || (k > 0 && !reflect.DeepEqual(u, v)) {
					t.Fatalf("n=%d k=%d: Unrank(%d) = %v want %v", n, k, i, u, v)
				}
				i++
			}
			if i != len(all) || i != comb.Coeff(n, k) {
				t.Fatalf("n=%d k=%d: %d subsets, want %d", n, k, i, len(all))
			}
			for j := 0; j < 3; j++ {
				if it.Next() {
					t.Fatalf("n=%d k=%d: Next returned true after false", n, k)
				}
			}
		}
	}
	//A longer run against Unrank only.
	it := itertools.CombinationsColex(24, 9)
	i := 0
	for it.Next() {
		if !reflect.DeepEqual(it.Value(), comb.Unrank(i, 9)) {
			t.Fatalf("n=24 k=9: subset %d is %v want %v", i, it.Value(), comb.Unrank(i, 9))
		}
		i++
	}
	if i != comb.Coeff(24, 9) {
		t.Fatalf("n=24 k=9: %d subsets", i)
	}
}

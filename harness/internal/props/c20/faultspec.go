package c20

// The space of failing-Write behaviours.  The io.Writer contract: Write returns
// the number of bytes written (0 <= n <= len(p)) and must return a non-nil
// error if n < len(p); it MAY return a non-nil error together with n == len(p).
// A fault mode is a point of
//
//	returned count  x  returned error  x  what became of the bytes  x  how long the failure lasts
//
//   - count: zero, one (the smallest short count), half, allbut1 (the largest
//     short count), full (= len(p)), and the two counts only a broken writer
//     returns: over (len(p)+1) and negative (-1);
//   - error: nil, or one of several non-nil VALUES (a plain error, io.EOF,
//     io.ErrShortWrite, errnos that invite a retry, a Temporary/Timeout error, an
//     error with an empty message, a wrapped error);
//   - bytes: kept (the first `count` bytes of p are taken) or dropped (nothing of
//     the failing call is taken although a count > 0 is reported: a block that
//     was handed on and then failed to commit);
//   - duration: the call at position p only (transient), `burst` consecutive
//     calls from p, or every call from p on (permanent).
//
// Judged: the write FAILED, i.e. the error is non-nil, and the count is one the
// contract allows (0..len(p)): LIB must return a non-nil error.  A short or zero
// count with a nil error, and every count outside 0..len(p), is a broken writer:
// what LIB does is recorded, never judged (not even a panic).

import (
	"errors"
	"fmt"
	"io"
	"syscall"
)

type faultSpec struct {
	count string // zero one half allbut1 full over negative
	err   string // "" = nil error, else the name of an error value (errValues)
	keep  bool   // the first min(count, len(p)) bytes of a failing call are taken by the writer
	perm  bool   // every call from pos on
	burst int    // consecutive failing calls when !perm (0 = 1)
}

const (
	modeNone      = ""
	modePermanent = "permanent"       // (0, error) from write p on
	modeTransient = "transient"       // (0, error) at write p only
	modeShortErr  = "short-error"     // half of the bytes accepted, n < len, error, at write p only
	modeShortNil  = "short-nil-error" // half of the bytes accepted, n < len, NIL error (contract violation by the writer): recorded, not judged

	modeFullErr      = "full-error-dropped"           // (len(p), error), the bytes are dropped, at write p only
	modeFullErrPerm  = "full-error-dropped-permanent" // the same from write p on
	modeFullKept     = "full-error-kept"              // (len(p), error), the bytes are taken (a failed commit/sync after the data went out)
	modeFullKeptPerm = "full-error-kept-permanent"
	modeShortErrPerm = "short-error-permanent" // (len/2, error) from write p on
	modeOneErr       = "one-error"             // (min(1,len), error), at write p only
	modeAllBut1Err   = "allbut1-error"         // (len-1, error), at write p only
	modeHalfDropped  = "short-error-dropped"   // (len/2, error), nothing taken
	modeBurst3       = "transient-burst3"      // (0, error) at writes p, p+1, p+2, then healthy again
	modeFullBurst2   = "full-error-dropped-burst2"

	modeZeroNil = "zero-nil-error"     // (0, nil) on a non-empty p: broken writer, recorded
	modeOverErr = "over-error"         // (len+1, error): broken writer, recorded
	modeOverNil = "over-nil-error"     // (len+1, nil): broken writer, recorded
	modeNegErr  = "negative-error"     // (-1, error): broken writer, recorded
	modeNegNil  = "negative-nil-error" // (-1, nil): broken writer, recorded
)

var (
	errPermanent = errors.New("injected permanent write failure")
	errTransient = errors.New("injected transient write failure")
	errShort     = errors.New("injected short write")
	errCommit    = errors.New("injected failure: the block was taken but could not be committed")
)

// tempError: an error that describes itself as temporary and as a timeout (the
// shape of a net.Error), which invites a caller to carry on.
type tempError struct{}

func (tempError) Error() string   { return "injected i/o timeout" }
func (tempError) Timeout() bool   { return true }
func (tempError) Temporary() bool { return true }

type emptyError struct{}

func (emptyError) Error() string { return "" }

// errValues: the non-nil error VALUES of the error-value modes.  Whatever its
// value, a non-nil error from Write is a failed write.
var errValues = map[string]error{
	"permanent":        errPermanent,
	"transient":        errTransient,
	"short":            errShort,
	"commit":           errCommit,
	"io.EOF":           io.EOF,
	"io.ErrShortWrite": io.ErrShortWrite,
	"EINTR":            syscall.EINTR,
	"EAGAIN":           syscall.EAGAIN,
	"timeout":          tempError{},
	"empty-message":    emptyError{},
	"wrapped-EOF":      fmt.Errorf("device: %w", io.EOF),
}

// errValueNames: the values that get modes of their own (in this order).
var errValueNames = []string{"io.EOF", "io.ErrShortWrite", "EINTR", "EAGAIN", "timeout", "empty-message", "wrapped-EOF"}

var specs = map[string]faultSpec{
	modePermanent: {count: "zero", err: "permanent", perm: true},
	modeTransient: {count: "zero", err: "transient"},
	modeShortErr:  {count: "half", err: "short", keep: true},
	modeShortNil:  {count: "half", keep: true},

	modeFullErr:      {count: "full", err: "commit"},
	modeFullErrPerm:  {count: "full", err: "commit", perm: true},
	modeFullKept:     {count: "full", err: "commit", keep: true},
	modeFullKeptPerm: {count: "full", err: "commit", keep: true, perm: true},
	modeShortErrPerm: {count: "half", err: "short", keep: true, perm: true},
	modeOneErr:       {count: "one", err: "short", keep: true},
	modeAllBut1Err:   {count: "allbut1", err: "short", keep: true},
	modeHalfDropped:  {count: "half", err: "short"},
	modeBurst3:       {count: "zero", err: "transient", burst: 3},
	modeFullBurst2:   {count: "full", err: "commit", burst: 2},

	modeZeroNil: {count: "zero"},
	modeOverErr: {count: "over", err: "short", keep: true},
	modeOverNil: {count: "over", keep: true},
	modeNegErr:  {count: "negative", err: "short"},
	modeNegNil:  {count: "negative"},
}

// errValueMode names the mode "<base mode> with the error value <name>".
func errValueMode(base, name string) string { return base + ":err=" + name }

func init() {
	for _, name := range errValueNames {
		for _, base := range []string{modeTransient, modeFullErr} {
			sp := specs[base]
			sp.err = name
			specs[errValueMode(base, name)] = sp
		}
	}
}

// The mode lists of the planes.
var (
	// faultModes: the four modes every plane has had from the start.
	faultModes = []string{modePermanent, modeTransient, modeShortErr, modeShortNil}
	// fullCountModes: the failing write that reports a full count, once and for good.
	fullCountModes = []string{modeFullErr, modeFullErrPerm}
	// countModes: the other judged points of count x bytes x duration.
	countModes = []string{modeFullKept, modeFullKeptPerm, modeShortErrPerm, modeOneErr, modeAllBut1Err, modeHalfDropped, modeBurst3, modeFullBurst2}
	// brokenModes: broken writers, recorded only.
	brokenModes = []string{modeZeroNil, modeOverErr, modeOverNil, modeNegErr, modeNegNil}
)

func errValueModes() []string {
	var r []string
	for _, name := range errValueNames {
		r = append(r, errValueMode(modeTransient, name), errValueMode(modeFullErr, name))
	}
	return r
}

func joinModes(lists ...[]string) []string {
	var r []string
	for _, l := range lists {
		r = append(r, l...)
	}
	return r
}

// allInProcessModes: every mode of the in-process planes.
func allInProcessModes() []string {
	return joinModes(faultModes, fullCountModes, countModes, brokenModes, errValueModes())
}

func specOf(mode string) (faultSpec, bool) {
	sp, ok := specs[mode]
	return sp, ok
}

// brokenWriter: the count of the mode lies outside 0..len(p).
func brokenCount(mode string) bool {
	sp := specs[mode]
	return sp.count == "over" || sp.count == "negative"
}

// nilErrorMode: the faulted call returns a nil error (a deviation in the count only).
func nilErrorMode(mode string) bool {
	sp, ok := specs[mode]
	return ok && sp.err == ""
}

// judgedMode: a failed write (non-nil error) with a count the contract allows.
func judgedMode(m string) bool {
	if m == "strace-transient" || m == "strace-permanent" {
		return true
	}
	sp, ok := specs[m]
	return ok && sp.err != "" && !brokenCount(m)
}

// judgedUnder: converts = the writer LIB was given turns a short count with a
// nil error of the device below it into an error (io.MultiWriter).
func judgedUnder(m string, converts bool) bool {
	if judgedMode(m) {
		return true
	}
	sp, ok := specs[m]
	return ok && converts && sp.err == "" && !brokenCount(m)
}

// retOK re-derives "judged" from what the faulted call actually returned.
func retOK(ret, l int, retErr string) bool { return retErr != "" && ret >= 0 && ret <= l }

// result of the faulted call for a write of l bytes: the returned count, the
// number of bytes of p the writer takes, the error.  deviates = false: the call
// is indistinguishable from a successful one (nil error and count == l).
func (sp faultSpec) result(l int) (ret, take int, err error, deviates bool) {
	switch sp.count {
	case "zero":
		ret = 0
	case "one":
		ret = 1
		if l < 1 {
			ret = l
		}
	case "half":
		ret = l / 2
	case "allbut1":
		ret = l - 1
		if ret < 0 {
			ret = 0
		}
	case "full":
		ret = l
	case "over":
		ret = l + 1
	case "negative":
		ret = -1
	default:
		panic("c20: unknown count kind " + sp.count)
	}
	if sp.err != "" {
		err = errValues[sp.err]
		if err == nil {
			panic("c20: unknown error value " + sp.err)
		}
	}
	if sp.keep {
		take = ret
		if take > l {
			take = l
		}
		if take < 0 {
			take = 0
		}
	}
	return ret, take, err, err != nil || ret != l
}

// active: the fault applies to call idx when it is armed at pos.
func (sp faultSpec) active(pos, idx int) bool {
	if idx < pos {
		return false
	}
	if sp.perm {
		return true
	}
	b := sp.burst
	if b < 1 {
		b = 1
	}
	return idx < pos+b
}

func errText(err error) string {
	if err == nil {
		return ""
	}
	if s := err.Error(); s != "" {
		return s
	}
	return fmt.Sprintf("(%T with an empty message)", err)
}

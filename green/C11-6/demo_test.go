// Demonstration for green change C11/6 (IsPlanar looks at the caller's graph through a view that hides loops).
//
// Run (from the root of the library, offline):
//   cp demo_test.go graph/zz_demo_c11_6_test.go
//   export GOFLAGS=-mod=mod GOPROXY=off GOSUMDB=off GOTOOLCHAIN=local
//   go test -vet=off -count=1 -timeout 120s -v -run 'TestDemoC11_6' ./graph/
//
// TestDemoC11_6_Property   checks the property itself on SIMPLE graphs (the underlying simple graphs of the inputs
//                          below and non-planar relatives of them; several labellings; DenseGraph and a user-defined
//                          adjacency-list Graph; pendant and isolated vertices; subdivision; edge-deleted subgraphs
//                          of the planar ones): no panic and the right answer.  Passes on the clean tree AND with the
//                          change.
// TestDemoC11_6_Incidental feeds IsPlanar something OUTSIDE the domain of the property: a user-defined graph.Graph
//                          in which some vertices list themselves as neighbours (loops), laid over a planar
//                          triangulation (m = 3n-6).  It asserts the OLD behaviour: every loop counts as half an edge
//                          in the edge bound, so with two or more loops the answer is "false" although the simple
//                          graph underneath is planar.  Passes on the clean tree, FAILS with the change (loops are
//                          ignored, answer "true").  (Other inputs with loops make the clean tree run for ever with
//                          growing memory, e.g. the 5-cycle with a loop at vertex 1; they are not run here.)
package graph_test

import (
	"fmt"
	"sort"
	"testing"

	"github.com/Tom-Johnston/mamba/graph"
)

type c116adj [][]int

func (a c116adj) N() int { return len(a) }
func (a c116adj) M() int {
	s := 0
	for v, x := range a {
		for _, u := range x {
			if u == v {
				s++ // a loop is one edge
			}
		}
		s += len(x)
	}
	return s / 2
}
func (a c116adj) IsEdge(i, j int) bool {
	for _, x := range a[i] {
		if x == j {
			return true
		}
	}
	return false
}
func (a c116adj) Neighbours(v int) []int { return append([]int(nil), a[v]...) }
func (a c116adj) Degrees() []int {
	d := make([]int, len(a))
	for i, x := range a {
		d[i] = len(x)
	}
	return d
}

type c116edges struct {
	n int
	e [][2]int
}

func (a c116edges) dense(perm []int) *graph.DenseGraph {
	g := graph.NewDense(a.n, nil)
	for _, e := range a.e {
		g.AddEdge(perm[e[0]], perm[e[1]])
	}
	return g
}

// adj returns sorted adjacency lists, with a loop at every vertex of loops.
func (a c116edges) adj(perm []int, loops []int) c116adj {
	r := make(c116adj, a.n)
	for _, e := range a.e {
		u, v := perm[e[0]], perm[e[1]]
		r[u] = append(r[u], v)
		r[v] = append(r[v], u)
	}
	for _, v := range loops {
		r[perm[v]] = append(r[perm[v]], perm[v])
	}
	for v := range r {
		sort.Ints(r[v])
	}
	return r
}

func c116octahedron() c116edges {
	a := c116edges{n: 6}
	for i := 0; i < 6; i++ {
		for j := i + 1; j < 6; j++ {
			if j != i+3 {
				a.e = append(a.e, [2]int{i, j})
			}
		}
	}
	return a
}

// c116apollonian is K4 with a vertex stacked into three of its faces, and one more into a new face: n = 8, m = 18.
func c116apollonian() c116edges {
	a := c116edges{n: 8}
	a.e = [][2]int{{0, 1}, {0, 2}, {0, 3}, {1, 2}, {1, 3}, {2, 3},
		{4, 0}, {4, 1}, {4, 2}, {5, 0}, {5, 1}, {5, 3}, {6, 0}, {6, 2}, {6, 3}, {7, 4}, {7, 0}, {7, 1}}
	return a
}

func c116plus(a c116edges, e ...[2]int) c116edges {
	return c116edges{n: a.n, e: append(append([][2]int(nil), a.e...), e...)}
}

func c116subdivide(a c116edges, i int) c116edges {
	r := c116edges{n: a.n + 1, e: append([][2]int(nil), a.e...)}
	e := r.e[i]
	r.e[i] = [2]int{e[0], a.n}
	r.e = append(r.e, [2]int{a.n, e[1]})
	return r
}

func c116perms(n int) [][]int {
	id := make([]int, n)
	rev := make([]int, n)
	rot := make([]int, n)
	for i := 0; i < n; i++ {
		id[i], rev[i], rot[i] = i, n-1-i, (3*i+2)%n
	}
	ps := [][]int{id, rev}
	if n%3 != 0 {
		ps = append(ps, rot)
	}
	return ps
}

func c116call(g graph.Graph) (res bool, panicked interface{}) {
	defer func() { panicked = recover() }()
	return graph.IsPlanar(g), nil
}

func TestDemoC11_6_Property(t *testing.T) {
	oct, apo := c116octahedron(), c116apollonian()
	cases := []struct {
		name string
		a    c116edges
		want bool
	}{
		{"octahedron", oct, true},
		{"octahedron+03 (K_{2,2,2} plus an edge, m > 3n-6)", c116plus(oct, [2]int{0, 3}), false},
		{"apollonian", apo, true},
		{"apollonian+56 (m > 3n-6)", c116plus(apo, [2]int{5, 6}), false},
		{"apollonian, 56 for 01 (m = 3n-6, not planar)", c116edges{n: 8, e: append([][2]int{{5, 6}}, apo.e[1:]...)}, false},
		{"octahedron subdivided", c116subdivide(c116subdivide(oct, 0), 5), true},
		{"octahedron+03 subdivided (m <= 3n-6)", c116subdivide(c116subdivide(c116plus(oct, [2]int{0, 3}), 0), 12), false},
	}
	check := func(name string, g graph.Graph, want bool) {
		res, p := c116call(g)
		if p != nil {
			t.Errorf("%s: IsPlanar panicked: %v", name, p)
		} else if res != want {
			t.Errorf("%s: IsPlanar = %v, want %v", name, res, want)
		}
	}
	for _, c := range cases {
		for pi, perm := range c116perms(c.a.n) {
			name := fmt.Sprintf("%s/perm%d", c.name, pi)
			check(name+"/dense", c.a.dense(perm), c.want)
			check(name+"/user-defined", c.a.adj(perm, nil), c.want)
			h := c.a.dense(perm)
			h.AddVertex([]int{1})
			h.AddVertex(nil)
			h.AddVertex([]int{c.a.n})
			check(name+"/pendant+isolated", h, c.want)
			if c.want {
				for i, e := range c.a.e {
					sub := c.a.dense(perm)
					sub.RemoveEdge(perm[e[0]], perm[e[1]])
					check(fmt.Sprintf("%s/minus edge %d", name, i), sub, true)
				}
			}
		}
	}
}

func TestDemoC11_6_Incidental(t *testing.T) {
	for _, c := range []struct {
		name  string
		a     c116edges
		loops []int
	}{
		{"octahedron with loops at 2 and 4", c116octahedron(), []int{2, 4}},
		{"octahedron with a loop at every vertex", c116octahedron(), []int{0, 1, 2, 3, 4, 5}},
		{"apollonian network (n = 8) with loops at 0, 3 and 7", c116apollonian(), []int{0, 3, 7}},
	} {
		for pi, perm := range c116perms(c.a.n) {
			simple, p := c116call(c.a.adj(perm, nil))
			if p != nil || !simple {
				t.Errorf("%s/perm%d: the simple graph underneath must be planar (got %v, panic %v): violation of the property", c.name, pi, simple, p)
			}
			res, p := c116call(c.a.adj(perm, c.loops))
			t.Logf("%s/perm%d: IsPlanar(simple graph) = %v, IsPlanar(with loops) = %v (panic: %v)", c.name, pi, simple, res, p)
			if p != nil || res {
				t.Errorf("%s/perm%d: OLD behaviour expected: loops are counted in the edge bound m <= 3n-6, answer false; got %v (panic: %v)", c.name, pi, res, p)
			}
		}
	}
}

package conn

import (
	"fmt"

	"verif/internal/engine"
	"verif/internal/gen"
	"verif/internal/oracle/brute"
	"verif/internal/oracle/rg"
	"verif/internal/selfcheck"
)

func eq(a, b []int) bool {
	if len(a) != len(b) {
		return false
	}
	for i := range a {
		if a[i] != b[i] {
			return false
		}
	}
	return true
}

func big() *Budget { return &Budget{Steps: 1 << 40} }

func binom(n, k int) int {
	r := 1
	for i := 0; i < k; i++ {
		r = r * (n - i) / (i + 1)
	}
	return r
}

// CompareWithBrute recomputes every oracle of this package with the bit-mask
// brute force of oracle/brute (different algorithms: Floyd-Warshall, cycle
// enumeration based blocks / girth / induced cycles) and returns a
// description of the first disagreement ("" if none).  n <= 32, and small
// enough for the cycle enumeration.
func CompareWithBrute(g *rg.G) string {
	b := brute.FromRG(g, g.N)
	d1, d2 := Dist(g), b.Dist()
	for i := range d1 {
		if !eq(d1[i], d2[i]) {
			return fmt.Sprintf("Dist row %d: bfs %v, floyd %v", i, d1[i], d2[i])
		}
	}
	if a1, a2 := Articulation(g), b.Articulation(); !eq(a1, a2) {
		return fmt.Sprintf("Articulation: %v vs brute %v", a1, a2)
	}
	bl, iso := Blocks(g)
	var all [][]int
	all = append(all, bl...)
	for _, v := range iso {
		all = append(all, []int{v})
	}
	SortSets(all)
	bb := b.Blocks()
	SortSets(bb)
	if fmt.Sprint(all) != fmt.Sprint(bb) {
		return fmt.Sprintf("Blocks: separation %v vs common-cycle %v", all, bb)
	}
	bf, isof := BlocksFast(g)
	if fmt.Sprint(bf) != fmt.Sprint(bl) || !eq(isof, iso) {
		return fmt.Sprintf("Blocks: pairwise separation %v vs adjacent-edge closure %v", bl, bf)
	}
	c1, _ := Cycles(g, big())
	if cb, _ := CountsByBlocks(g, bl, Cycles, big()); !eq(c1, cb) {
		return fmt.Sprintf("Cycles: whole graph %v vs summed over blocks %v", c1, cb)
	}
	c2, _ := b.Cycles()
	if !eq(c1, c2) {
		return fmt.Sprintf("Cycles: %v vs brute %v", c1, c2)
	}
	if g1, g2 := Girth(g), b.Girth(); g1 != g2 {
		return fmt.Sprintf("Girth: edge-deletion %d vs enumeration %d", g1, g2)
	}
	i1, _ := InducedCycles(g, big())
	if ib, _ := CountsByBlocks(g, bl, InducedCycles, big()); !eq(i1, ib) {
		return fmt.Sprintf("InducedCycles: whole graph %v vs summed over blocks %v", i1, ib)
	}
	if i2 := b.InducedCycles(); !eq(i1, i2) {
		return fmt.Sprintf("InducedCycles: %v vs brute %v", i1, i2)
	}
	p1, _ := InducedPaths(g, big())
	if p2 := b.InducedPaths(); !eq(p1, p2) {
		return fmt.Sprintf("InducedPaths: %v vs brute %v", p1, p2)
	}
	return ""
}

func init() {
	selfcheck.Add("conn: cycle counts of K_n, wheels, grids, Petersen", func() error {
		for n := 3; n <= 8; n++ {
			got, _ := Cycles(gen.Complete(n), big())
			for k := 3; k <= n; k++ {
				f := 1
				for i := 2; i < k; i++ {
					f *= i
				}
				if want := binom(n, k) * f / 2; got[k] != want {
					return fmt.Errorf("K_%d has %d cycles of length %d, oracle says %d", n, want, k, got[k])
				}
			}
			ic, _ := InducedCycles(gen.Complete(n), big())
			for k := 0; k <= n; k++ {
				want := 0
				if k == 3 {
					want = binom(n, 3)
				}
				if ic[k] != want {
					return fmt.Errorf("K_%d induced cycles of length %d: %d, want %d", n, k, ic[k], want)
				}
			}
		}
		for n := 3; n <= 10; n++ {
			got, _ := Cycles(gen.Wheel(n), big())
			tot := 0
			for k, x := range got {
				tot += x
				want := 0
				if k >= 3 && k <= n+1 {
					want = n
				}
				if k == n {
					want++
				}
				if x != want {
					return fmt.Errorf("wheel with %d rim vertices: %d cycles of length %d, want %d", n, x, k, want)
				}
			}
			if tot != n*n-n+1 {
				return fmt.Errorf("wheel %d: %d cycles, want %d", n, tot, n*n-n+1)
			}
		}
		for _, t := range []struct{ a, b, want int }{{2, 2, 1}, {3, 3, 13}, {4, 4, 213}, {5, 5, 9349}, {2, 6, 15}} {
			// A140517 (square grids) and the 2 x k ladders (one cycle per interval of cells)
			got, _ := Cycles(gen.Grid(t.a, t.b), big())
			tot := 0
			for _, x := range got {
				tot += x
			}
			if tot != t.want {
				return fmt.Errorf("grid %dx%d: %d cycles, want %d", t.a, t.b, tot, t.want)
			}
		}
		pet := gen.Kneser(5, 2)
		got, _ := Cycles(pet, big())
		if !eq(got, []int{0, 0, 0, 0, 0, 12, 10, 0, 15, 20, 0}) {
			return fmt.Errorf("Petersen cycles %v", got)
		}
		ic, _ := InducedCycles(pet, big())
		if !eq(ic, []int{0, 0, 0, 0, 0, 12, 10, 0, 0, 0, 0}) {
			return fmt.Errorf("Petersen induced cycles %v", ic)
		}
		return nil
	})
	selfcheck.Add("conn: girth, diameter, induced paths of named graphs", func() error {
		for _, t := range []struct {
			name        string
			g           *rg.G
			girth, diam int
		}{
			{"petersen", gen.Kneser(5, 2), 5, 2}, {"heawood", gen.Heawood(), 6, 3}, {"Q4", gen.Hypercube(4), 4, 4},
			{"path9", gen.PathG(9), -1, 8}, {"C11", gen.Cycle(11), 11, 5}, {"K3,3", gen.CompleteMultipartite(3, 3), 4, 2},
			{"dodecahedron", gen.GenPetersen(10, 2), 5, 5}, {"K6", gen.Complete(6), 3, 1}, {"grid4x4", gen.Grid(4, 4), 4, 6},
		} {
			if x := Girth(t.g); x != t.girth {
				return fmt.Errorf("%s: girth %d, want %d", t.name, x, t.girth)
			}
			d := Dist(t.g)
			mx := 0
			for i := range d {
				for _, x := range d[i] {
					if x > mx {
						mx = x
					}
				}
			}
			if mx != t.diam {
				return fmt.Errorf("%s: diameter %d, want %d", t.name, mx, t.diam)
			}
		}
		for n := 1; n <= 9; n++ {
			p, _ := InducedPaths(gen.PathG(n), big())
			for k := 0; k < n; k++ {
				if p[k] != n-k {
					return fmt.Errorf("P_%d induced paths %v", n, p)
				}
			}
			if n >= 4 {
				c, _ := InducedPaths(gen.Cycle(n), big())
				for k := 1; k < n; k++ {
					want := n
					if k == n-1 {
						want = 0
					}
					if c[k] != want {
						return fmt.Errorf("C_%d induced paths %v", n, c)
					}
				}
				ic, _ := InducedCycles(gen.Cycle(n), big())
				for k := 0; k <= n; k++ {
					want := 0
					if k == n {
						want = 1
					}
					if ic[k] != want {
						return fmt.Errorf("C_%d induced cycles %v", n, ic)
					}
				}
			}
		}
		return nil
	})
	selfcheck.Add("conn: definition oracles agree with brute force (classes n<=6, seeded n<=10)", func() error {
		for n := 0; n <= 6; n++ {
			for _, g := range gen.Classes(n) {
				if msg := CompareWithBrute(g); msg != "" {
					return fmt.Errorf("%s: %s", g.G6(), msg)
				}
			}
		}
		r := engine.NewRng(0xC10)
		for i := 0; i < 150; i++ {
			n := 7 + r.Intn(4)
			g := gen.Random(r, n, 0.15+0.4*r.Float())
			if msg := CompareWithBrute(g); msg != "" {
				return fmt.Errorf("%s: %s", g.G6(), msg)
			}
		}
		return nil
	})
	selfcheck.Add("conn: constructed block forests have the blocks they were built from", func() error {
		r := engine.NewRng(0xB10C)
		for i := 0; i < 300; i++ {
			n := 2 + r.Intn(29)
			b := BuildBlockTree(r, n, Mode(i%3), 1+r.Intn(3), r.Intn(3), r.Float()*0.6, r.Float()*0.6)
			if bf, _ := BlocksFast(b.G); fmt.Sprint(bf) != fmt.Sprint(b.Blocks) {
				return fmt.Errorf("%s: built blocks %v, adjacent-edge closure %v", b.G.G6(), b.Blocks, bf)
			}
			bl, iso := Blocks(b.G)
			if fmt.Sprint(bl) != fmt.Sprint(b.Blocks) || !eq(iso, b.Isolated) {
				return fmt.Errorf("%s: built blocks %v iso %v, separation oracle %v iso %v", b.G.G6(), b.Blocks, b.Isolated, bl, iso)
			}
			if a := Articulation(b.G); !eq(a, b.Art) {
				return fmt.Errorf("%s: built articulation %v, deletion oracle %v", b.G.G6(), b.Art, a)
			}
			if b.G.N <= 14 {
				if msg := CompareWithBrute(b.G); msg != "" {
					return fmt.Errorf("%s: %s", b.G.G6(), msg)
				}
			}
		}
		return nil
	})
}

package codec

import (
	"os"
	"testing"

	"verif/internal/selfcheck"
)

func TestSelfcheck(t *testing.T) {
	if err := selfcheck.Run(os.Stdout); err != nil {
		t.Fatal(err)
	}
}

// Demonstration for C17-7: growth policy of (*SortedInts).Union.
//
// Run (from the root of the mamba repository):
//
//	mkdir -p zz_demo && cp /tmp/green-out/C17/7/demo_test.go zz_demo/ &&
//	GOFLAGS=-mod=mod GOPROXY=off GOSUMDB=off GOTOOLCHAIN=local go test -vet=off -count=1 -timeout 120s -v ./zz_demo/ ; rm -rf zz_demo
//
// TestProperty passes on the clean tree and with the change.
// TestIncidentalOldGrowth asserts the OLD incidental behaviour (a Union that has to grow the receiver leaves it with
// cap == len, so the next growing Union moves it again and never writes to the array an older copy of the slice header
// points to; n growing Unions make n allocations): it passes on the clean tree and FAILS with the change.
package demo

import (
	"math/rand"
	"sort"
	"testing"

	"github.com/Tom-Johnston/mamba/sortints"
)

func model(m map[int]bool) []int {
	r := make([]int, 0, len(m))
	for k := range m {
		r = append(r, k)
	}
	sort.Ints(r)
	return r
}

func equal(a, b []int) bool {
	if len(a) != len(b) {
		return false
	}
	for i := range a {
		if a[i] != b[i] {
			return false
		}
	}
	return true
}

// The property itself: a sequence of Union/Remove/Add on one value follows the mathematical sets, the result is
// strictly increasing and the argument of Union is untouched (including its spare capacity).
func TestProperty(t *testing.T) {
	rng := rand.New(rand.NewSource(17))
	for trial := 0; trial < 3000; trial++ {
		var s sortints.SortedInts
		if trial%3 == 1 {
			s = make(sortints.SortedInts, 0, rng.Intn(20))
		} else if trial%3 == 2 {
			s = sortints.NewSortedInts()
		}
		m := map[int]bool{}
		for step := 0; step < 40; step++ {
			switch rng.Intn(4) {
			case 0, 1:
				k := rng.Intn(6)
				bm := map[int]bool{}
				for i := 0; i < k; i++ {
					bm[rng.Intn(60)-30] = true
				}
				full := append(model(bm), 777, 888) //b lives in a larger caller-owned buffer
				b := sortints.SortedInts(full[:len(bm)])
				snapshot := append([]int(nil), full...)
				s.Union(b)
				for v := range bm {
					m[v] = true
				}
				if !equal(full, snapshot) || len(b) != len(bm) {
					t.Fatalf("Union changed its argument: %v -> %v", snapshot, full)
				}
			case 2:
				v := rng.Intn(60) - 30
				s.Remove(v)
				delete(m, v)
			case 3:
				v, w := rng.Intn(60)-30, rng.Intn(60)-30
				s.Add(v, w, v)
				m[v], m[w] = true, true
			}
			if !equal(s, model(m)) {
				t.Fatalf("trial %d step %d: got %v want %v", trial, step, []int(s), model(m))
			}
			if len(s) > cap(s) {
				t.Fatal("impossible")
			}
		}
	}
}

func TestIncidentalOldGrowth(t *testing.T) {
	s := sortints.NewSortedInts(1, 2) //cap 2
	s.Union(sortints.SortedInts{5})   //has to grow
	if !equal(s, []int{1, 2, 5}) {
		t.Fatalf("wrong set %v", []int(s))
	}
	t.Logf("after growing Union: len %d cap %d", len(s), cap(s))
	if cap(s) != len(s) {
		t.Errorf("OLD behaviour gone: a growing Union left spare capacity (len %d, cap %d)", len(s), cap(s))
	}
	old := s
	s.Union(sortints.SortedInts{3})
	if !equal(s, []int{1, 2, 3, 5}) {
		t.Fatalf("wrong set %v", []int(s))
	}
	t.Logf("older copy of the header now reads %v; moved: %v", []int(old), &old[0] != &s[0])
	if !equal(old, []int{1, 2, 5}) || &old[0] == &s[0] {
		t.Errorf("OLD behaviour gone: the second Union merged in place (older header reads %v)", []int(old))
	}

	allocs := testing.AllocsPerRun(20, func() {
		var u sortints.SortedInts
		for i := 0; i < 64; i++ {
			u.Union(sortints.SortedInts{i})
		}
	})
	t.Logf("allocations for 64 one-element Unions: %v", allocs)
	if allocs < 64 {
		t.Errorf("OLD behaviour gone: 64 growing Unions made only %v allocations", allocs)
	}
}

// Package bigcomb is the big-integer reference for binomial coefficients and
// the colexicographic rank / unrank of k-subsets of the naturals (DESIGN.md
// section 3, oracle "bigcomb").  It shares no code with the library under
// test and is deliberately naive: exact math/big arithmetic, binary searches
// over monotone predicates, and (for the self-check) the textbook fact that the
// colex order of k-subsets is the numeric order of their bit masks.
package bigcomb

import (
	"fmt"
	"math/big"
	"math/bits"

	"verif/internal/selfcheck"
)

// Limits used by the monitors.
var (
	MaxUint64 = new(big.Int).SetUint64(^uint64(0))
	MaxInt64  = new(big.Int).SetUint64(1<<63 - 1)
	// capLimit is far above every limit a caller may pass to Capped (2^130).
	capLimit = new(big.Int).Lsh(big.NewInt(1), 130)
)

// hugeSide is a number of chosen elements from which C(n,k') with n >= 2k'
// certainly exceeds 2^130: C(n,k') >= C(2k',k') >= C(140,70) > 2^130
// (checked by the self-check).
const hugeSide = 70

// Binomial returns C(n,k) exactly.  The cost is min(k,n-k) big
// multiplications: callers keep that side small (use Capped otherwise).
func Binomial(n, k uint64) *big.Int {
	if k > n {
		return new(big.Int)
	}
	if k > n-k {
		k = n - k
	}
	c := big.NewInt(1)
	t := new(big.Int)
	for i := uint64(1); i <= k; i++ {
		// c = C(n-k+i-1, i-1) ; c * (n-k+i) / i = C(n-k+i, i), the division is exact
		c.Mul(c, t.SetUint64(n-k+i))
		c.Quo(c, t.SetUint64(i))
	}
	return c
}

// Capped returns (C(n,k), true) when C(n,k) <= limit and (nil, false)
// otherwise, for ANY n, k (the work is bounded: the partial products
// C(n-k'+i, i) are non-decreasing in i, so the loop stops as soon as one of them
// exceeds the limit).  limit must be below 2^130.
func Capped(n, k uint64, limit *big.Int) (*big.Int, bool) {
	if limit.Cmp(capLimit) >= 0 {
		panic("bigcomb.Capped: limit too large")
	}
	if k > n {
		return new(big.Int), limit.Sign() >= 0
	}
	if k > n-k {
		k = n - k
	}
	if k >= hugeSide {
		return nil, false
	}
	c := big.NewInt(1)
	t := new(big.Int)
	for i := uint64(1); i <= k; i++ {
		c.Mul(c, t.SetUint64(n-k+i))
		c.Quo(c, t.SetUint64(i))
		if c.Cmp(limit) > 0 {
			return nil, false
		}
	}
	if c.Cmp(limit) > 0 {
		return nil, false
	}
	return c, true
}

// MinSide returns min(k, n-k) for k <= n.
func MinSide(n, k uint64) uint64 {
	if k > n-k {
		return n - k
	}
	return k
}

// Verdict classifies what a fixed-width binomial routine is allowed / obliged
// to do on (n,k) for a result type whose maximum is max (2^64-1 or 2^63-1).
type Verdict struct {
	Exact    *big.Int // C(n,k) if it is <= max, else nil ("does not fit")
	MustFit  bool     // C(n,k)*min(k,n-k) <= max: the routine must return Exact
	MinSide  uint64
	TooLarge bool // C(n,k) > max: every returned value is wrong, a panic is the only correct outcome
}

// Judge computes the verdict for (n,k) against max.
func Judge(n, k uint64, max *big.Int) Verdict {
	if k > n {
		return Verdict{Exact: new(big.Int), MustFit: true}
	}
	s := MinSide(n, k)
	c, ok := Capped(n, k, max)
	if !ok {
		return Verdict{MinSide: s, TooLarge: true}
	}
	v := Verdict{Exact: c, MinSide: s}
	p := new(big.Int).Mul(c, new(big.Int).SetUint64(s))
	v.MustFit = p.Cmp(max) <= 0
	return v
}

// LargestN returns the largest n >= 2k (so that k is the small side) with
// C(n,k) * (k if mult else 1) <= limit; ok is false when even n = 2k fails.
// k >= 1.
func LargestN(k uint64, mult bool, limit *big.Int) (n uint64, ok bool) {
	good := func(n uint64) bool {
		c, fits := Capped(n, k, limit)
		if !fits {
			return false
		}
		if mult {
			c = new(big.Int).Mul(c, new(big.Int).SetUint64(k))
		}
		return c.Cmp(limit) <= 0
	}
	if k == 0 || k > (^uint64(0))/2 || !good(2*k) {
		return 0, false
	}
	lo, hi := 2*k, ^uint64(0) // good(lo) holds; answer in [lo,hi]
	for lo < hi {
		mid := lo + (hi-lo)/2 + (hi-lo)%2 // upper middle without overflow
		if good(mid) {
			lo = mid
		} else {
			hi = mid - 1
		}
	}
	return lo, true
}

// RankBig returns the colex rank sum_i C(c[i], i+1) of a strictly increasing
// sequence of naturals.
func RankBig(c []uint64) *big.Int {
	r := new(big.Int)
	for i, v := range c {
		r.Add(r, Binomial(v, uint64(i+1)))
	}
	return r
}

// UnrankBig returns the k-subset of the naturals with colex rank r (r >= 0):
// for i = k-1 .. 0 the largest l with C(l, i+1) <= m, then m -= C(l, i+1).
// r must be below 2^64.
func UnrankBig(r *big.Int, k int) []uint64 {
	c := make([]uint64, k)
	m := new(big.Int).Set(r)
	for i := k - 1; i >= 0; i-- {
		j := uint64(i + 1)
		// C(l,j) <= m is monotone in l and C(i,j) = 0 <= m.  Gallop upwards from
		// l = i to bracket the answer, then bisect.
		lo := uint64(i)
		hiU := lo
		for d := uint64(1); ; d *= 2 {
			if d == 0 || lo > ^uint64(0)-d {
				hiU = ^uint64(0)
				break
			}
			if _, ok := Capped(lo+d, j, m); !ok {
				hiU = lo + d - 1
				break
			}
			lo += d
		}
		for lo < hiU {
			mid := lo + (hiU-lo)/2 + (hiU-lo)%2
			if _, ok := Capped(mid, j, m); ok {
				lo = mid
			} else {
				hiU = mid - 1
			}
		}
		c[i] = lo
		m.Sub(m, Binomial(lo, j))
	}
	if m.Sign() != 0 {
		panic("bigcomb.UnrankBig: remainder not zero")
	}
	return c
}

// Steps is the number of iterations the obvious "walk l upwards from i+1"
// unranking loop performs to produce c (sum of c[i]-i): the cost model used to
// keep k = 1, 2 ranks within the documented-by-design linear / sqrt loop.
func Steps(c []uint64) *big.Int {
	s := new(big.Int)
	for i, v := range c {
		s.Add(s, new(big.Int).SetUint64(v-uint64(i)))
	}
	return s
}

// ColexSubsets lists all k-subsets of {0..n-1} (n <= 24) in colex order using
// only the fact that colex order is the numeric order of the bit masks.
func ColexSubsets(n, k int) [][]int {
	var r [][]int
	for mask := uint32(0); mask < 1<<uint(n); mask++ {
		if bits.OnesCount32(mask) != k {
			continue
		}
		s := make([]int, 0, k)
		for v := 0; v < n; v++ {
			if mask>>uint(v)&1 == 1 {
				s = append(s, v)
			}
		}
		r = append(r, s)
	}
	return r
}

// ColexNext replaces the k-subset c of the naturals (strictly increasing, k >= 1)
// by its successor in colex order, the textbook step: the lowest element that
// has room above it (c[j]+1 < c[j+1]; the top element always has) grows by one
// and everything below it becomes 0, 1, ..., j-1.  It returns j and the number
// of positions below j whose value the step changed.  Callers certify every
// member of a walk with RankBig (a strictly increasing sequence whose colex
// rank is i IS the i-th set), so nothing rests on this function alone.
func ColexNext(c []uint64) (j, rewritten int) {
	k := len(c)
	for j = 0; j < k-1 && c[j]+1 >= c[j+1]; j++ {
	}
	c[j]++
	for i := 0; i < j; i++ {
		if c[i] != uint64(i) {
			rewritten++
			c[i] = uint64(i)
		}
	}
	return j, rewritten
}

// PascalRow returns row n of Pascal's triangle by additions only.
func PascalRow(n int) []*big.Int {
	row := []*big.Int{big.NewInt(1)}
	for m := 1; m <= n; m++ {
		next := make([]*big.Int, m+1)
		next[0] = big.NewInt(1)
		next[m] = big.NewInt(1)
		for j := 1; j < m; j++ {
			next[j] = new(big.Int).Add(row[j-1], row[j])
		}
		row = next
	}
	return row
}

// SelfCheck validates the oracle against additive Pascal rows, published
// values, the standard library and the bit-mask definition of colex order.
func SelfCheck() error {
	// multiplicative formula against additive Pascal and math/big
	for n := 0; n <= 140; n++ {
		row := PascalRow(n)
		for k := 0; k <= n; k++ {
			b := Binomial(uint64(n), uint64(k))
			if b.Cmp(row[k]) != 0 {
				return fmt.Errorf("Binomial(%d,%d)=%v, Pascal says %v", n, k, b, row[k])
			}
			if b.Cmp(new(big.Int).Binomial(int64(n), int64(k))) != 0 {
				return fmt.Errorf("Binomial(%d,%d)=%v, math/big disagrees", n, k, b)
			}
			c, ok := Capped(uint64(n), uint64(k), MaxUint64)
			if ok != (row[k].Cmp(MaxUint64) <= 0) || (ok && c.Cmp(row[k]) != 0) {
				return fmt.Errorf("Capped(%d,%d) = %v,%v but exact is %v", n, k, c, ok, row[k])
			}
		}
	}
	pub := []struct {
		n, k uint64
		v    string
	}{
		{67, 33, "14226520737620288370"},            // first central coefficient above 2^63
		{68, 34, "28453041475240576740"},            // first above 2^64
		{100, 50, "100891344545564193334812497256"}, // published
		{4000000, 3, "10666658666668000000"},
		{1 << 32, 2, "9223372034707292160"},
	}
	for _, p := range pub {
		if got := Binomial(p.n, p.k).String(); got != p.v {
			return fmt.Errorf("Binomial(%d,%d)=%s, published %s", p.n, p.k, got, p.v)
		}
	}
	if Binomial(2*hugeSide, hugeSide).Cmp(capLimit) <= 0 {
		return fmt.Errorf("C(%d,%d) does not exceed 2^130: hugeSide too small", 2*hugeSide, hugeSide)
	}
	// thresholds: definition re-checked directly on both sides
	for k := uint64(1); k <= 40; k++ {
		for _, mult := range []bool{true, false} {
			for _, lim := range []*big.Int{MaxUint64, MaxInt64} {
				n, ok := LargestN(k, mult, lim)
				val := func(n uint64) *big.Int {
					c := Binomial(n, k)
					if mult {
						c.Mul(c, new(big.Int).SetUint64(k))
					}
					return c
				}
				if !ok {
					if val(2*k).Cmp(lim) <= 0 {
						return fmt.Errorf("LargestN(%d,%v) reports none but n=2k fits", k, mult)
					}
					continue
				}
				if val(n).Cmp(lim) > 0 {
					return fmt.Errorf("LargestN(%d,%v)=%d does not fit", k, mult, n)
				}
				if n != ^uint64(0) && val(n+1).Cmp(lim) <= 0 {
					return fmt.Errorf("LargestN(%d,%v)=%d but n+1 fits as well", k, mult, n)
				}
			}
		}
	}
	if n, _ := LargestN(2, true, MaxUint64); n != 1<<32 {
		return fmt.Errorf("LargestN(2, mult, 2^64-1) = %d, want 2^32", n)
	}
	if n, _ := LargestN(1, true, MaxUint64); n != ^uint64(0) {
		return fmt.Errorf("LargestN(1, mult, 2^64-1) = %d, want 2^64-1", n)
	}
	// colex rank / unrank against the bit-mask order
	for n := 0; n <= 13; n++ {
		for k := 0; k <= n; k++ {
			subs := ColexSubsets(n, k)
			if want := Binomial(uint64(n), uint64(k)); !want.IsInt64() || int(want.Int64()) != len(subs) {
				return fmt.Errorf("ColexSubsets(%d,%d) has %d members, want %v", n, k, len(subs), want)
			}
			for idx, s := range subs {
				u := make([]uint64, len(s))
				for i, v := range s {
					u[i] = uint64(v)
				}
				if r := RankBig(u); !r.IsInt64() || r.Int64() != int64(idx) {
					return fmt.Errorf("RankBig(%v)=%v, position in mask order %d", s, r, idx)
				}
				got := UnrankBig(big.NewInt(int64(idx)), k)
				if fmt.Sprint(got) != fmt.Sprint(u) {
					return fmt.Errorf("UnrankBig(%d,%d)=%v, mask order says %v", idx, k, got, s)
				}
			}
		}
	}
	// the successor walk against the mask order and, for many elements, against the binary-search unrank
	for n := 1; n <= 13; n++ {
		for k := 1; k <= n; k++ {
			subs := ColexSubsets(n, k)
			cur := make([]uint64, k)
			for i := range cur {
				cur[i] = uint64(i)
			}
			for idx, s := range subs {
				if idx > 0 {
					ColexNext(cur)
				}
				for i, v := range s {
					if cur[i] != uint64(v) {
						return fmt.Errorf("ColexNext walk (%d,%d) position %d = %v, mask order says %v", n, k, idx, cur, s)
					}
				}
			}
		}
	}
	for _, k := range []int{1, 2, 63, 64, 65, 66, 67, 129, 130, 200} {
		cur := make([]uint64, k)
		for i := range cur {
			cur[i] = uint64(i)
		}
		for idx := 0; idx < 700; idx++ {
			if idx > 0 {
				ColexNext(cur)
			}
			if idx%7 == 0 || idx < 2*k+8 && idx > k-3 && idx%2 == 0 {
				if r := RankBig(cur); !r.IsInt64() || r.Int64() != int64(idx) {
					return fmt.Errorf("ColexNext walk k=%d position %d = %v has rank %v", k, idx, cur, r)
				}
			}
			if idx%97 == 0 || idx == k+1 {
				if got := UnrankBig(big.NewInt(int64(idx)), k); fmt.Sprint(got) != fmt.Sprint(cur) {
					return fmt.Errorf("ColexNext walk k=%d position %d = %v, UnrankBig says %v", k, idx, cur, got)
				}
			}
		}
	}
	// unrank / rank round trip on large ranks
	for k := 1; k <= 80; k += 7 {
		for _, r := range []*big.Int{MaxInt64, new(big.Int).Sub(MaxInt64, big.NewInt(12345)), big.NewInt(1333313333400026), MaxUint64} {
			c := UnrankBig(r, k)
			for i := 1; i < len(c); i++ {
				if c[i-1] >= c[i] {
					return fmt.Errorf("UnrankBig(%v,%d) not increasing: %v", r, k, c)
				}
			}
			if RankBig(c).Cmp(r) != 0 {
				return fmt.Errorf("RankBig(UnrankBig(%v,%d)) = %v", r, k, RankBig(c))
			}
		}
	}
	return nil
}

func init() { selfcheck.Add("bigcomb (Pascal, thresholds, colex mask order)", SelfCheck) }

// Demonstration for C18-9 (New: nil Set for n <= 0, fill by doubling copies).
//
// Run (from the root of the library worktree):
//   mkdir -p demo_c18_9 && cp /tmp/green-out/C18/9/demo_test.go demo_c18_9/ &&
//   GOFLAGS=-mod=mod GOPROXY=off GOSUMDB=off GOTOOLCHAIN=local go test -vet=off -count=1 -timeout 120s ./demo_c18_9/ ; rm -rf demo_c18_9
//
// TestProperty passes on the clean tree and with the change (it includes n = 0 and n = 1).
// TestIncidentalEmptyIsNotNil and TestIncidentalNegativePanics assert the OLD incidental behaviour: they pass on
// the clean tree and fail with the change.
package demo

import (
	"math/rand"
	"reflect"
	"sort"
	"testing"

	"github.com/Tom-Johnston/mamba/disjoint"
)

// naive model: label per element.
type model []int

func (m model) union(x, y int) {
	a, b := m[x], m[y]
	if a == b {
		return
	}
	for i := range m {
		if m[i] == b {
			m[i] = a
		}
	}
}

func (m model) sets() [][]int {
	out := [][]int{}
	idx := map[int]int{}
	for i, l := range m {
		j, ok := idx[l]
		if !ok {
			j = len(out)
			idx[l] = j
			out = append(out, nil)
		}
		out[j] = append(out[j], i)
	}
	return out
}

func sameSets(a, b [][]int) bool {
	if len(a) != len(b) {
		return false
	}
	for i := range a {
		if len(a[i]) != len(b[i]) {
			return false
		}
		for j := range a[i] {
			if a[i][j] != b[i][j] {
				return false
			}
		}
	}
	return true
}

func check(t *testing.T, ds *disjoint.Set, m model, buf []int) {
	t.Helper()
	n := len(m)
	if len(*ds) != n {
		t.Fatalf("len(Set) = %d, want %d", len(*ds), n)
	}
	for x := 0; x < n; x++ {
		for y := 0; y < n; y++ {
			same := ds.Find(x) == ds.Find(y)
			sameB := ds.FindBuffered(x, buf) == ds.FindBuffered(y, buf)
			if same != (m[x] == m[y]) || sameB != same {
				t.Fatalf("n=%d: %d,%d same=%v sameBuffered=%v model=%v", n, x, y, same, sameB, m[x] == m[y])
			}
		}
	}
	want := m.sets()
	if got := ds.Sets(); !sameSets(got, want) {
		t.Fatalf("Sets = %v, want %v", got, want)
	}
	sr := ds.SmallestRep()
	if len(sr) != n {
		t.Fatalf("len(SmallestRep) = %d", len(sr))
	}
	for _, s := range want {
		for _, v := range s {
			if sr[v] != s[0] {
				t.Fatalf("SmallestRep[%d] = %d, want %d", v, sr[v], s[0])
			}
		}
	}
	roots := append([]int(nil), ds.Roots()...)
	if len(roots) != len(want) {
		t.Fatalf("Roots = %v for sets %v", roots, want)
	}
	seen := map[int]bool{}
	for _, r := range roots {
		if ds.Find(r) != r || seen[m[r]] {
			t.Fatalf("Roots = %v for sets %v", roots, want)
		}
		seen[m[r]] = true
	}
	sort.Ints(roots)
}

func TestProperty(t *testing.T) {
	rng := rand.New(rand.NewSource(18))
	for n := 0; n <= 40; n++ {
		for rep := 0; rep < 6; rep++ {
			ds := disjoint.New(n)
			m := make(model, n)
			for i := range m {
				m[i] = i
			}
			buf := make([]int, n+1)
			check(t, &ds, m, buf) // fresh: all singletons, also for n = 0
			if n == 0 {
				continue
			}
			for step := 0; step < 3*n; step++ {
				x, y := rng.Intn(n), rng.Intn(n)
				switch rng.Intn(4) {
				case 0:
					ds.Union(x, y)
					m.union(x, y)
				case 1:
					ds.UnionBuffered(x, y, buf)
					m.union(x, y)
				case 2:
					ds.Find(x)
				default:
					ds.FindBuffered(y, buf)
				}
				if step%7 == 0 {
					check(t, &ds, m, buf)
				}
			}
			check(t, &ds, m, buf)
		}
	}
	// every entry of a fresh Set is its own root, at sizes around the doubling boundaries
	for _, n := range []int{1, 2, 3, 4, 5, 7, 8, 9, 15, 16, 17, 31, 32, 33, 1000, 1023, 1024, 1025, 4097} {
		ds := disjoint.New(n)
		if len(ds) != n || len(ds.Roots()) != n {
			t.Fatalf("New(%d): len %d, %d roots", n, len(ds), len(ds.Roots()))
		}
		for i := 0; i < n; i++ {
			if ds.Find(i) != i {
				t.Fatalf("New(%d): Find(%d) = %d", n, i, ds.Find(i))
			}
		}
	}
}

// OLD incidental behaviour: the empty Set is an empty, non-nil slice.
func TestIncidentalEmptyIsNotNil(t *testing.T) {
	ds := disjoint.New(0)
	if len(ds) != 0 {
		t.Fatalf("len(New(0)) = %d", len(ds))
	}
	if ds == nil {
		t.Errorf("New(0) is the nil Set (old: empty but non-nil)")
	}
	if !reflect.DeepEqual(ds, disjoint.Set{}) {
		t.Errorf("New(0) is not DeepEqual to disjoint.Set{} (old: it is)")
	}
}

// OLD incidental behaviour outside the domain: a negative size is refused by a panic of make.
func TestIncidentalNegativePanics(t *testing.T) {
	defer func() {
		if r := recover(); r == nil {
			t.Errorf("New(-1) returned normally (old: panics 'makeslice: len out of range')")
		}
	}()
	ds := disjoint.New(-1)
	t.Logf("New(-1) = %#v", ds)
}

package props

import "verif/internal/engine"

// Observation table: for every property the library files it is anchored in
// (their per-function statement coverage during the run goes into the
// evidence) and the functions that implement its mechanisms and therefore must
// have been executed by the workload ("file.go:func" as printed by
// `go tool covdata func`).
func init() {
	m := engine.SetMechanisms
	m("C01", []string{"graph/canonical.go"}, []string{
		"graph/canonical.go:equitableRefinementProcedure", "graph/canonical.go:*CanonicalOrderedPartition.splitBin", "graph/canonical.go:*CanonicalOrderedPartition.deage",
		"graph/canonical.go:*CanonicalOrderedPartition.expandValue", "graph/canonical.go:CanonicalIsomorphAllocated", "graph/canonical.go:stable", "graph/canonical.go:symMerge", "graph/canonical.go:rotate"})
	m("C02", []string{"graph/canonical.go"}, []string{
		"graph/canonical.go:CanonicalIsomorphFull", "graph/canonical.go:CanonicalIsomorphAllocated", "graph/canonical.go:*CanonicalOrderedPartition.Reset", "graph/canonical.go:NewOrderedPartition", "graph/canonical.go:NewStorage"})
	m("C03", []string{"graph/search/search_all.go"}, []string{
		"graph/search/search_all.go:addAugmentations", "graph/search/search_all.go:isCanonical", "graph/search/search_all.go:*GraphIterator.Next", "graph/search/search_all.go:WithPruning"})
	m("C04", []string{"graph/search/search_all.go"}, []string{
		"graph/search/search_all.go:*GraphIterator.Save", "graph/search/search_all.go:Load", "graph/search/search_all.go:*GraphIterator.Next"})
	m("C05", []string{"graph/graph_dense.go", "graph/graph_sparse.go"}, []string{
		"graph/graph_dense.go:*DenseGraph.RemoveVertex", "graph/graph_dense.go:*DenseGraph.AddVertex", "graph/graph_dense.go:*DenseGraph.InducedSubgraph", "graph/graph_dense.go:*DenseGraph.Copy",
		"graph/graph_sparse.go:*SparseGraph.RemoveVertex", "graph/graph_sparse.go:*SparseGraph.AddVertex", "graph/graph_sparse.go:SparseGraph.InducedSubgraph", "graph/graph_sparse.go:SparseGraph.Copy"})
	m("C06", []string{"graph/generating.go", "graph/transformation.go"}, []string{
		"graph/graph_dense.go:NewDense", "graph/graph_sparse.go:NewSparse", "graph/transformation.go:LineGraphDense", "graph/transformation.go:ComplementDense", "graph/generating.go:KneserGraph", "graph/generating.go:FlowerSnark"})
	m("C07", []string{"graph/encoding.go"}, []string{
		"graph/encoding.go:Graph6Encode", "graph/encoding.go:Graph6Decode", "graph/encoding.go:Sparse6Encode", "graph/encoding.go:Sparse6Decode", "graph/encoding.go:MulticodeEncode", "graph/encoding.go:MulticodeDecode", "graph/encoding.go:MulticodeDecodeMultiple", "graph/encoding.go:PruferEncode", "graph/encoding.go:PruferDecode"})
	m("C08", []string{"graph/encoding.go"}, []string{"graph/encoding.go:Graph6Decode", "graph/encoding.go:Sparse6Decode"})
	m("C09", []string{"graph/clique.go", "graph/colouring.go"}, []string{
		"graph/clique.go:AllMaximalCliques", "graph/clique.go:CliqueNumber", "graph/clique.go:IndependenceNumber", "graph/colouring.go:dfsDsatur", "graph/colouring.go:ChromaticIndex", "graph/colouring.go:ChromaticPolynomial", "graph/colouring.go:GreedyColor", "graph/general.go:Degeneracy"})
	m("C10", []string{"graph/distances.go", "graph/general.go", "graph/subgraph.go"}, []string{
		"graph/distances.go:Distance", "graph/distances.go:Eccentricity", "graph/distances.go:Girth", "graph/general.go:BiconnectedComponents", "graph/general.go:ConnectedComponent", "graph/subgraph.go:NumberOfCycles", "graph/subgraph.go:NumberOfInducedPaths", "graph/subgraph.go:NumberOfInducedCycles"})
	m("C11", []string{"graph/planar.go"}, []string{"graph/planar.go:IsPlanar"})
	m("C12", []string{"dawg/dawg.go"}, []string{"dawg/dawg.go:*Builder.Add", "dawg/dawg.go:*Builder.Finish", "dawg/dawg.go:replaceOrRegister", "dawg/dawg.go:*Dawg.Lookup", "dawg/dawg.go:areEquivalent"})
	m("C13", []string{"dawg/dawg_search.go"}, []string{"dawg/dawg_search.go:*Dawg.Search", "dawg/dawg_search.go:*AnagramSearcher.Step", "dawg/dawg_search.go:*AnagramSearcher.Backstep", "dawg/dawg_search.go:PatternSearcher.AllowStep"})
	m("C14", []string{"dawg/dawg.go"}, []string{"dawg/dawg.go:*Dawg.GobEncode", "dawg/dawg.go:*Dawg.GobDecode", "dawg/dawg.go:encodeUint64", "dawg/dawg.go:decodeUint64"})
	m("C15", []string{"itertools/combinations.go", "itertools/permutations.go", "itertools/partitions.go", "itertools/product.go"}, []string{
		"itertools/combinations.go:*CombinationIterator.Next", "itertools/combinations.go:*CombinationColexIterator.Next", "itertools/combinations.go:*MultisetCombinationIterator.Next",
		"itertools/permutations.go:*PermutationIterator.Next", "itertools/permutations.go:*LexicographicPermutationIterator.Next", "itertools/permutations.go:*TopologicalSortIterator.Next",
		"itertools/permutations.go:*RestrictedPrefixPermutationIterator.Next", "itertools/permutations.go:*PermutationsByPatternIterator.Next", "itertools/partitions.go:*PartitionIterator.Next",
		"itertools/partitions.go:*IntegerPartitionIterator.Next", "itertools/product.go:*ProductIterator.Next", "itertools/product.go:*RestrictedPrefixProductIterator.Next"})
	m("C16", []string{"comb/comb.go"}, []string{"comb/comb.go:CoeffUint64", "comb/comb.go:Coeff", "comb/comb.go:Coeffs", "comb/comb.go:Rank", "comb/comb.go:Unrank"})
	m("C17", []string{"sortints/sorted_ints.go", "ints/int_sort.go"}, []string{
		"sortints/sorted_ints.go:*SortedInts.Add", "sortints/sorted_ints.go:*SortedInts.Union", "sortints/sorted_ints.go:Range", "sortints/sorted_ints.go:XOR", "sortints/sorted_ints.go:Complement", "ints/int_sort.go:heapSort", "ints/int_sort.go:quickSort", "ints/int_sort.go:doPivot"})
	m("C18", []string{"disjoint/disjoint_set.go"}, []string{
		"disjoint/disjoint_set.go:*Set.Find", "disjoint/disjoint_set.go:*Set.FindBuffered", "disjoint/disjoint_set.go:*Set.Union", "disjoint/disjoint_set.go:*Set.UnionBuffered", "disjoint/disjoint_set.go:*Set.Sets", "disjoint/disjoint_set.go:*Set.SmallestRep", "disjoint/disjoint_set.go:*Set.Roots"})
	m("C20", []string{"tsp/tsplib.go"}, []string{"tsp/tsplib.go:LIB"})
}

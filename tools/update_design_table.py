#!/usr/bin/env python3
"""Regenerates the seeded-changes table of DESIGN.md section 10.5 from /verif/seeded/*/meta.json."""
import json, glob, os, re
rows = []
for d in sorted(glob.glob('/verif/seeded/*/')):
    name = os.path.basename(d.rstrip('/'))
    m = json.load(open(d + 'meta.json'))
    summ = (m.get('summary', '') or '')[:170].replace('\n', ' ').replace('|', '/')
    chk = m.get('confirmed', {}).get('checks', '').replace('|', '/')[:300]
    rows.append(f"| {name} | {summ} | {chk} |")
table = "| id | change (abridged; full text in seeded/<id>/meta.json) | which checks catch it |\n|---|---|---|\n" + "\n".join(rows) + "\n"
p = '/verif/DESIGN.md'
s = open(p).read()
a, b = '<!-- SEEDED-TABLE-BEGIN -->', '<!-- SEEDED-TABLE-END -->'
s = s[:s.index(a) + len(a)] + "\n" + table + s[s.index(b):]
open(p, 'w').write(s)
print(len(rows), "rows")

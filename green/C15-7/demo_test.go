// Demonstration for C15 / change 7 (itertools.Permutations cuts the permutation and the counters of Heap's algorithm
// from ONE array of 2n ints instead of making two arrays of n ints).
//
// Run (from the root of the library, offline):
//
//	export GOFLAGS=-mod=mod GOPROXY=off GOSUMDB=off GOTOOLCHAIN=local
//	cp /tmp/green-out/C15/7/demo_test.go itertools/zz_c15_demo7_test.go
//	go test -vet=off -count=1 -timeout 300s -run 'TestC15Demo7' -v ./itertools/
//	rm itertools/zz_c15_demo7_test.go
//
// TestC15Demo7Property checks the property itself for Permutations(n), n = 0..8: the iterator yields exactly the n!
// permutations of {0,...,n-1}, each once, in the order of Heap's algorithm (compared element by element with an
// independent recursive implementation of Heap's algorithm), the caller only reads Value() (its documentation says
// "You must not modify the output of this function"), two iterators running interleaved do not disturb each other,
// and Next returns false on each of 5 further calls.  It passes on the clean tree AND with the change.
//
// TestC15Demo7IncidentalCapacity asserts the OLD incidental behaviour: Value() is a slice with cap == len == n (an
// array of its own) and the constructor makes 3 allocations (permutation, counters, iterator).  It passes on the clean
// tree and FAILS with the change: cap(Value()) is 2n (the spare capacity is the library's own counter array, which
// the iterator keeps using) and the constructor makes 2 allocations.
package itertools_test

import (
	"fmt"
	"testing"

	"github.com/Tom-Johnston/mamba/itertools"
)

// c15d7Heap lists the permutations of {0,...,n-1} in the order of Heap's algorithm (recursive textbook form).
func c15d7Heap(n int) []string {
	a := make([]int, n)
	for i := range a {
		a[i] = i
	}
	var out []string
	var gen func(k int)
	gen = func(k int) {
		if k <= 1 {
			out = append(out, fmt.Sprint(a))
			return
		}
		gen(k - 1)
		for i := 0; i < k-1; i++ {
			if k%2 == 0 {
				a[i], a[k-1] = a[k-1], a[i]
			} else {
				a[0], a[k-1] = a[k-1], a[0]
			}
			gen(k - 1)
		}
	}
	gen(n)
	return out
}

func TestC15Demo7Property(t *testing.T) {
	fact := 1
	for n := 0; n <= 8; n++ {
		if n > 0 {
			fact *= n
		}
		want := c15d7Heap(n)
		if len(want) != fact {
			t.Fatalf("model: n=%d: %d permutations, want %d", n, len(want), fact)
		}
		it := itertools.Permutations(n)
		//A second iterator advanced in lock step must not disturb the first.
		other := itertools.Permutations(n)
		seen := make(map[string]bool)
		count := 0
		for it.Next() {
			if !other.Next() {
				t.Fatalf("n=%d: second iterator ended early", n)
			}
			v := it.Value()
			if len(v) != n {
				t.Fatalf("n=%d: Value() has length %d", n, len(v))
			}
			s := fmt.Sprint(v)
			if s != fmt.Sprint(other.Value()) {
				t.Fatalf("n=%d: interleaved iterators disagree: %v %v", n, v, other.Value())
			}
			if seen[s] {
				t.Fatalf("n=%d: %s twice", n, s)
			}
			seen[s] = true
			if count >= len(want) || want[count] != s {
				t.Fatalf("n=%d: element %d is %s, Heap's algorithm gives another one", n, count, s)
			}
			//Value() again gives the same thing.
			if fmt.Sprint(it.Value()) != s {
				t.Fatalf("n=%d: second Value() differs", n)
			}
			count++
		}
		if count != fact {
			t.Fatalf("n=%d: %d permutations, want %d", n, count, fact)
		}
		for r := 0; r < 5; r++ {
			if it.Next() {
				t.Fatalf("n=%d: Next returned true after exhaustion (call %d)", n, r+1)
			}
		}
	}
}

// A size the compiler does not know and a place where the iterator escapes to, so that the count below is the number
// of heap objects behind an iterator that is kept.
var (
	c15d7N    = 6
	c15d7Sink *itertools.PermutationIterator
)

func TestC15Demo7IncidentalCapacity(t *testing.T) {
	for _, n := range []int{1, 2, 4, 7} {
		it := itertools.Permutations(n)
		it.Next()
		v := it.Value()
		t.Logf("n=%d: len(Value()) = %d, cap(Value()) = %d", n, len(v), cap(v))
		if cap(v) != n {
			t.Errorf("n=%d: cap(Value()) = %d, the old iterator gave a slice with cap == len == %d", n, cap(v), n)
		}
	}
	allocs := testing.AllocsPerRun(200, func() {
		c15d7Sink = itertools.Permutations(c15d7N)
		c15d7Sink.Next()
	})
	t.Logf("allocations per Permutations(6): %v", allocs)
	if allocs != 3 {
		t.Errorf("Permutations(6) made %v allocations, the old constructor made 3", allocs)
	}
}

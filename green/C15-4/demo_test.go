// Demonstration for C15 / change 4 (TopologicalSorts remembers the answers of less in an n*n table, so that the order
// function is asked about every pair at most once instead of once for every attempted move).
//
// Run (from the root of the library, offline):
//
//	export GOFLAGS=-mod=mod GOPROXY=off GOSUMDB=off GOTOOLCHAIN=local
//	cp /tmp/green-out/C15/4/demo_test.go itertools/zz_c15_demo4_test.go
//	go test -vet=off -count=1 -timeout 300s -run 'TestC15Demo4' -v ./itertools/
//	rm itertools/zz_c15_demo4_test.go
//
// TestC15Demo4Property checks the property itself for TopologicalSorts: for every n <= 5 and EVERY sub-order of
// 0 < 1 < ... < n-1 (every transitively closed set of pairs i < j), for n = 6, 7 a few hundred pseudo-random
// sub-orders, and for the 3x3 Young tableau order on n = 9, the iterator yields exactly the permutations of
// {0, ..., n-1} in which i comes before j whenever less(i, j) -- the same set as filtering LexicographicPermutations --
// each once, InverseValue is the inverse of Value, and Next keeps returning false afterwards.  The order function is a
// pure function of (i, j).  It passes on the clean tree AND with the change.
// TestC15Demo4IncidentalCalls asserts the OLD number of calls of less: 23 calls for the empty order on 4 elements and
// 120 calls for the 3x3 Young tableau order (always about only 6 resp. 21 distinct pairs).  It passes on the clean tree
// and FAILS with the change (6 resp. 21 calls: one per distinct pair).
package itertools_test

import (
	"fmt"
	"testing"

	"github.com/Tom-Johnston/mamba/itertools"
)

// c15d4Closed reports whether the relation rel (rel[i][j] only for i < j) is transitive.
func c15d4Closed(n int, rel [][]bool) bool {
	for i := 0; i < n; i++ {
		for j := i + 1; j < n; j++ {
			if !rel[i][j] {
				continue
			}
			for k := j + 1; k < n; k++ {
				if rel[j][k] && !rel[i][k] {
					return false
				}
			}
		}
	}
	return true
}

func c15d4Close(n int, rel [][]bool) {
	for !c15d4Closed(n, rel) {
		for i := 0; i < n; i++ {
			for j := i + 1; j < n; j++ {
				for k := j + 1; k < n; k++ {
					if rel[i][j] && rel[j][k] {
						rel[i][k] = true
					}
				}
			}
		}
	}
}

func c15d4Rel(n int, mask uint64) [][]bool {
	rel := make([][]bool, n)
	for i := range rel {
		rel[i] = make([]bool, n)
	}
	b := uint(0)
	for i := 0; i < n; i++ {
		for j := i + 1; j < n; j++ {
			rel[i][j] = mask>>b&1 == 1
			b++
		}
	}
	return rel
}

// c15d4Check compares TopologicalSorts(n, rel) with filtering all permutations.
func c15d4Check(t *testing.T, n int, rel [][]bool, desc string) {
	less := func(i, j int) bool { return rel[i][j] }
	want := map[string]bool{}
	lex := itertools.LexicographicPermutations(n)
	for lex.Next() {
		p := lex.Value()
		pos := make([]int, n)
		for idx, v := range p {
			pos[v] = idx
		}
		ok := true
		for i := 0; i < n && ok; i++ {
			for j := i + 1; j < n; j++ {
				if rel[i][j] && pos[i] > pos[j] {
					ok = false
					break
				}
			}
		}
		if ok {
			want[fmt.Sprint(p)] = true
		}
	}
	if n == 0 {
		want[fmt.Sprint([]int{})] = true
	}

	it := itertools.TopologicalSorts(n, less)
	seen := map[string]bool{}
	for it.Next() {
		p := it.Value()
		inv := it.InverseValue()
		if len(p) != n || len(inv) != n {
			t.Fatalf("%s: value of length %d, inverse of length %d", desc, len(p), len(inv))
		}
		for idx, v := range p {
			if v < 0 || v >= n || inv[v] != idx {
				t.Fatalf("%s: %v and %v are not inverse permutations", desc, p, inv)
			}
		}
		key := fmt.Sprint(p)
		if seen[key] {
			t.Fatalf("%s: %v yielded twice", desc, p)
		}
		if !want[key] {
			t.Fatalf("%s: %v yielded but it is not a topological sort", desc, p)
		}
		seen[key] = true
	}
	if len(seen) != len(want) {
		t.Fatalf("%s: %d topological sorts yielded, want %d", desc, len(seen), len(want))
	}
	for i := 0; i < 5; i++ {
		if it.Next() {
			t.Fatalf("%s: Next returned true after it had returned false", desc)
		}
	}
}

func c15d4Young(i, j int) bool {
	return i < j && (i/3 == j/3 || i%3 == j%3)
}

func TestC15Demo4Property(t *testing.T) {
	orders := 0
	for n := 0; n <= 5; n++ {
		pairs := uint(n * (n - 1) / 2)
		for mask := uint64(0); mask < 1<<pairs; mask++ {
			rel := c15d4Rel(n, mask)
			if !c15d4Closed(n, rel) {
				continue
			}
			orders++
			c15d4Check(t, n, rel, fmt.Sprintf("n=%d mask=%b", n, mask))
		}
	}
	x := uint64(88172645463325252)
	for n := 6; n <= 7; n++ {
		for rep := 0; rep < 150; rep++ {
			x ^= x << 13
			x ^= x >> 7
			x ^= x << 17
			// Sparse and dense relations alike: and together 0 to 2 random words before closing.
			mask := x
			for d := 0; d < rep%3; d++ {
				x ^= x << 13
				x ^= x >> 7
				x ^= x << 17
				mask &= x
			}
			rel := c15d4Rel(n, mask)
			c15d4Close(n, rel)
			orders++
			c15d4Check(t, n, rel, fmt.Sprintf("n=%d rep=%d", n, rep))
		}
	}
	rel := make([][]bool, 9)
	for i := range rel {
		rel[i] = make([]bool, 9)
		for j := range rel[i] {
			rel[i][j] = c15d4Young(i, j)
		}
	}
	c15d4Close(9, rel)
	c15d4Check(t, 9, rel, "3x3 Young tableaux")
	t.Logf("%d sub-orders checked", orders+1)
}

func TestC15Demo4IncidentalCalls(t *testing.T) {
	for _, tc := range []struct {
		name     string
		n        int
		less     func(i, j int) bool
		sorts    int
		oldCalls int
		distinct int
	}{
		{"empty order on 4 elements", 4, func(i, j int) bool { return false }, 24, 23, 6},
		{"3x3 Young tableau order", 9, c15d4Young, 42, 120, 21},
	} {
		calls := 0
		pairs := map[[2]int]bool{}
		it := itertools.TopologicalSorts(tc.n, func(i, j int) bool {
			calls++
			pairs[[2]int{i, j}] = true
			return tc.less(i, j)
		})
		sorts := 0
		for it.Next() {
			sorts++
		}
		if sorts != tc.sorts {
			t.Fatalf("%s: %d topological sorts, want %d", tc.name, sorts, tc.sorts)
		}
		t.Logf("%s: %d sorts, less called %d times about %d distinct pairs", tc.name, sorts, calls, len(pairs))
		if len(pairs) != tc.distinct {
			t.Errorf("%s: less asked about %d distinct pairs, OLD behaviour was %d", tc.name, len(pairs), tc.distinct)
		}
		if calls != tc.oldCalls {
			t.Errorf("%s: less called %d times, OLD behaviour was %d calls", tc.name, calls, tc.oldCalls)
		}
	}
}

#!/usr/bin/env python3
"""usage: selftest/keep_seeded.py <src-dir> <name> <property> <caught_by text> [notes]
Copies a confirmed seeded change into /verif/seeded/<name>/ (patch.diff, demonstration, meta.json) and records what was run."""
import json, os, shutil, sys, glob
src, name, prop, caught = sys.argv[1:5]
notes = sys.argv[5] if len(sys.argv) > 5 else ""
dst = f"/verif/seeded/{name}"
os.makedirs(dst, exist_ok=True)
for f in glob.glob(src + "/*"):
    if os.path.isfile(f):
        shutil.copy(f, dst)
mp = dst + "/meta.json"
try:
    meta = json.load(open(mp))
except Exception:
    meta = {}
meta["property"] = prop
meta.setdefault("breaks", prop)
meta["confirmed"] = {
    "ran": f"selftest/seeded_run.sh {src} {prop} quick  (scratch copy of /repo + patch: go build, whole repo test suite, demonstration on clean and changed copy, then ./check against the copy)",
    "repo_suite_with_change": "passes",
    "demonstration": "passes on the clean tree, fails with the change",
    "checks": caught,
}
if notes:
    meta["notes"] = notes
json.dump(meta, open(mp, "w"), indent=1)
print("kept", dst)

package c11

import (
	"testing"
	"time"

	"github.com/Tom-Johnston/mamba/graph"

	"verif/internal/engine"
	"verif/internal/oracle/planarity"
)

func TestTiming(t *testing.T) {
	r := engine.NewRng(5)
	for _, n := range []int{20, 40, 60, 100, 150, 200} {
		f := stacked(r, n)
		flipSome(r, f, 3*n)
		e, err := f.Emb()
		if err != nil {
			t.Fatal(err)
		}
		g := e.Graph()
		t0 := time.Now()
		if err := planarity.CheckRotation(g, e.Rot); err != nil {
			t.Fatal(err)
		}
		t1 := time.Now()
		d := g.Dense()
		t2 := time.Now()
		p := graph.IsPlanar(d)
		t3 := time.Now()
		s := g.Sparse()
		ps := graph.IsPlanar(s)
		t4 := time.Now()
		c := planarity.Reference(g)
		t5 := time.Now()
		_, verr := c.Verify(g)
		// non-planar: add an edge, remove 3 others
		h := g.Copy()
		es := h.Edges()
		for i := 0; i < 3; i++ {
			ed := es[r.Intn(len(es))]
			h.Del(ed[0], ed[1])
		}
		for {
			a, b := r.Intn(n), r.Intn(n)
			if a != b && !h.Has(a, b) {
				h.Add(a, b)
				break
			}
		}
		t6 := time.Now()
		c2 := planarity.Reference(h)
		t7 := time.Now()
		k2, verr2 := c2.Verify(h)
		t8 := time.Now()
		lp := graph.IsPlanar(h.Dense())
		t9 := time.Now()
		t.Logf("n=%d m=%d check=%v IsPlanar dense=%v(%v) sparse=%v(%v) ref=%v verify=%v | perturbed: ref planar=%v kind=%s err=%v in %v; lib=%v in %v", n, g.M(), t1.Sub(t0), p, t3.Sub(t2), ps, t4.Sub(t3), t5.Sub(t4), verr, c2.Planar, k2, verr2, t7.Sub(t6), lp, t9.Sub(t8))
	}
}

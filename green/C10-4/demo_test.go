// Demonstration for green change C10/4 (Distance validates its two vertex arguments).
//
// Run (from the repository root, clean tree or patched tree):
//
//	cp /tmp/green-out/C10/4/demo_test.go graph/zz_green_c10_4_demo_test.go
//	export GOFLAGS=-mod=mod GOPROXY=off GOSUMDB=off GOTOOLCHAIN=local
//	go test -vet=off -count=1 -timeout 120s -v -run 'TestGreenC10_4' ./graph/
//	rm graph/zz_green_c10_4_demo_test.go
//
// TestGreenC10_4_Property checks the property itself (Distance(g, i, j) is the length of a shortest i-j path, -1 if
// there is none, for every pair of VERTICES of g, in every representation): passes on BOTH trees.
// TestGreenC10_4_Incidental asserts what the OLD code happened to do for arguments that are NOT vertices of g
// (0 for i == j, -1 for a bad j, a runtime index error for a bad i): passes on the CLEAN tree, FAILS with the patch.
package graph_test

import (
	"fmt"
	"math/rand"
	"runtime"
	"testing"

	"github.com/Tom-Johnston/mamba/graph"
)

func c10d4Check(t *testing.T, n int, adj [][]bool) {
	const inf = 1 << 20
	// Floyd-Warshall on the test's own adjacency matrix.
	d := make([][]int, n)
	for a := range d {
		d[a] = make([]int, n)
		for b := range d[a] {
			if a == b {
				d[a][b] = 0
			} else if adj[a][b] {
				d[a][b] = 1
			} else {
				d[a][b] = inf
			}
		}
	}
	for k := 0; k < n; k++ {
		for a := 0; a < n; a++ {
			for b := 0; b < n; b++ {
				if d[a][k]+d[k][b] < d[a][b] {
					d[a][b] = d[a][k] + d[k][b]
				}
			}
		}
	}
	dg := graph.NewDense(n, nil)
	sg := graph.NewSparse(n, nil)
	for a := 0; a < n; a++ {
		for b := 0; b < a; b++ {
			if adj[a][b] {
				dg.AddEdge(a, b)
				sg.AddEdge(a, b)
			}
		}
	}
	all := make([]int, n)
	for i := range all {
		all[i] = i
	}
	reps := map[string]graph.Graph{"dense": dg, "sparse": sg, "induced": graph.InducedSubgraph(sg, all)}
	for a := 0; a < n; a++ {
		for b := 0; b < n; b++ {
			want := d[a][b]
			if want >= inf {
				want = -1
			}
			for name, h := range reps {
				if got := graph.Distance(h, a, b); got != want {
					t.Fatalf("n=%d %s: Distance(%d,%d) = %d, want %d (adj %v)", n, name, a, b, got, want, adj)
				}
			}
		}
	}
}

func TestGreenC10_4_Property(t *testing.T) {
	for n := 0; n <= 5; n++ {
		m := n * (n - 1) / 2
		for mask := 0; mask < 1<<uint(m); mask++ {
			adj := make([][]bool, n)
			for i := range adj {
				adj[i] = make([]bool, n)
			}
			k := 0
			for a := 1; a < n; a++ {
				for b := 0; b < a; b++ {
					if mask>>uint(k)&1 == 1 {
						adj[a][b], adj[b][a] = true, true
					}
					k++
				}
			}
			c10d4Check(t, n, adj)
		}
	}
	rng := rand.New(rand.NewSource(104))
	for it := 0; it < 150; it++ {
		n := 6 + rng.Intn(25)
		p := []float64{0.03, 0.08, 0.15, 0.5}[rng.Intn(4)]
		adj := make([][]bool, n)
		for i := range adj {
			adj[i] = make([]bool, n)
		}
		for a := 1; a < n; a++ {
			for b := 0; b < a; b++ {
				if rng.Float64() < p {
					adj[a][b], adj[b][a] = true, true
				}
			}
		}
		c10d4Check(t, n, adj)
	}
}

// outcome describes what a call did: "value N", "runtime error" (a runtime.Error panic) or "panic: <value>".
func c10d4Outcome(f func() int) (s string) {
	defer func() {
		if r := recover(); r != nil {
			if _, ok := r.(runtime.Error); ok {
				s = "runtime error"
			} else {
				s = fmt.Sprintf("panic: %v", r)
			}
		}
	}()
	return fmt.Sprintf("value %d", f())
}

func TestGreenC10_4_Incidental(t *testing.T) {
	// The path 0-1-2 plus the isolated vertex 3; the vertices are 0..3, so 5, 7 and -1 are not vertices.
	build := func() []graph.Graph {
		d := graph.NewDense(4, nil)
		s := graph.NewSparse(4, nil)
		d.AddEdge(0, 1)
		d.AddEdge(1, 2)
		s.AddEdge(0, 1)
		s.AddEdge(1, 2)
		return []graph.Graph{d, s, graph.NewDense(0, nil)}
	}
	type call struct {
		g    int // index into build()
		i, j int
		old  string
	}
	calls := []call{
		{0, 5, 5, "value 0"}, {1, 5, 5, "value 0"},
		{0, 0, 7, "value -1"}, {1, 0, 7, "value -1"},
		{0, 0, -1, "value -1"}, {1, 0, -1, "value -1"},
		{0, 7, 0, "runtime error"}, {1, 7, 0, "runtime error"},
		{0, -1, 0, "runtime error"}, {1, -1, 0, "runtime error"},
		{2, 0, 0, "value 0"}, // the graph on 0 vertices has no vertex 0
	}
	gs := build()
	for _, c := range calls {
		got := c10d4Outcome(func() int { return graph.Distance(gs[c.g], c.i, c.j) })
		t.Logf("graph %d (n=%d): Distance(%d, %d) -> %s", c.g, gs[c.g].N(), c.i, c.j, got)
		if got != c.old {
			t.Errorf("incidental: graph %d Distance(%d, %d) -> %q, the clean tree gives %q", c.g, c.i, c.j, got, c.old)
		}
	}
	// The in-domain answers on the same graphs are what the property demands, on both trees.
	for _, g := range gs[:2] {
		for _, w := range [][3]int{{0, 0, 0}, {0, 1, 1}, {0, 2, 2}, {2, 0, 2}, {0, 3, -1}, {3, 3, 0}, {3, 1, -1}} {
			if got := graph.Distance(g, w[0], w[1]); got != w[2] {
				t.Fatalf("property violated: Distance(%d,%d) = %d, want %d", w[0], w[1], got, w[2])
			}
		}
	}
}

// Demo for C07 harmless change 7 (Graph6Decode / Sparse6Decode ignore one line terminator at the end of the string).
//
// Run (from the root of the library worktree):
//
//	cp /tmp/green-out/C07/7/demo_test.go graph/zz_c07_demo_test.go
//	GOFLAGS=-mod=mod GOPROXY=off GOSUMDB=off GOTOOLCHAIN=local go test -vet=off -count=1 -timeout 300s -run 'TestC07Demo' -v ./graph/
//	rm graph/zz_c07_demo_test.go
//
// TestC07DemoIncidental asserts the OLD incidental behaviour on strings that are NOT the encoding of any graph: an
// encoding followed by "\n" or "\r\n" (what ReadString('\n') returns for a line of a .g6 / .s6 file) was refused with
// "Byte out of range ..." and an empty graph. It passes on the clean tree and fails with the change (the line is
// decoded).
// TestC07DemoProperty checks the property itself on the same graphs: graph6 and sparse6 round trip with and without
// the optional header (n = 0, 1, 2, powers of two, 17..32, 62, 63, 64, edgeless, complete, random), only bytes
// 63..126 (plus the leading ':' of sparse6) in the encodings, fixed nauty strings.  It passes on both trees.
package graph_test

import (
	"math/rand"
	"strings"
	"testing"

	"github.com/Tom-Johnston/mamba/graph"
)

func c07Graphs() []*graph.DenseGraph {
	rng := rand.New(rand.NewSource(7))
	var gs []*graph.DenseGraph
	for _, n := range []int{0, 1, 2, 3, 4, 5, 7, 8, 9, 15, 16, 17, 20, 31, 32, 33, 62, 63, 64, 65, 100} {
		for _, p := range []float64{0, 0.05, 0.3, 0.7, 1} {
			g := graph.NewDense(n, nil)
			for j := 1; j < n; j++ {
				for i := 0; i < j; i++ {
					if rng.Float64() < p {
						g.AddEdge(i, j)
					}
				}
			}
			gs = append(gs, g)
		}
	}
	return gs
}

func TestC07DemoIncidental(t *testing.T) {
	for _, g := range c07Graphs() {
		for _, end := range []string{"\n", "\r\n"} {
			s := graph.Graph6Encode(g) + end
			h, err := graph.Graph6Decode(s)
			if err == nil || !strings.HasPrefix(err.Error(), "Byte out of range") || h == nil || h.N() != 0 {
				t.Fatalf("Graph6Decode(%q): old behaviour was an empty graph and a 'Byte out of range' error, got n=%v err=%v", s, h.N(), err)
			}
			s = graph.Sparse6Encode(g) + end
			k, err := graph.Sparse6Decode(s)
			if err == nil || !strings.HasPrefix(err.Error(), "Byte out of range") || k == nil || k.N() != 0 {
				t.Fatalf("Sparse6Decode(%q): old behaviour was an empty graph and a 'Byte out of range' error, got n=%v err=%v", s, k.N(), err)
			}
		}
	}
}

func TestC07DemoProperty(t *testing.T) {
	for _, g := range c07Graphs() {
		g6 := graph.Graph6Encode(g)
		s6 := graph.Sparse6Encode(g)
		for i := 0; i < len(g6); i++ {
			if g6[i] < 63 || g6[i] > 126 {
				t.Fatalf("graph6 byte %v out of range in %q", g6[i], g6)
			}
		}
		if s6[0] != ':' {
			t.Fatalf("sparse6 %q does not start with ':'", s6)
		}
		for i := 1; i < len(s6); i++ {
			if s6[i] < 63 || s6[i] > 126 {
				t.Fatalf("sparse6 byte %v out of range in %q", s6[i], s6)
			}
		}
		for _, s := range []string{g6, ">>graph6<<" + g6} {
			h, err := graph.Graph6Decode(s)
			if err != nil || !graph.Equal(g, h) {
				t.Fatalf("graph6 round trip failed for %q: %v", s, err)
			}
		}
		for _, s := range []string{s6, ">>sparse6<<" + s6} {
			h, err := graph.Sparse6Decode(s)
			if err != nil || !graph.Equal(g, h) {
				t.Fatalf("sparse6 round trip failed for %q: %v", s, err)
			}
		}
	}
	//Strings written by nauty (geng / showg -s / copyg).
	pg, err := graph.Graph6Decode("IheA@GUAo")
	if err != nil || pg.N() != 10 || pg.M() != 15 || graph.Graph6Encode(pg) != "IheA@GUAo" {
		t.Fatalf("Petersen graph6: %v", err)
	}
	c5 := graph.NewDense(5, nil)
	for _, e := range [][2]int{{0, 1}, {1, 2}, {2, 3}, {3, 4}, {0, 4}} {
		c5.AddEdge(e[0], e[1])
	}
	if graph.Graph6Encode(c5) != "Dhc" {
		t.Fatalf("C5 graph6 = %q, want Dhc", graph.Graph6Encode(c5))
	}
	k, err := graph.Sparse6Decode(graph.Sparse6Encode(c5))
	if err != nil || !graph.Equal(k, c5) {
		t.Fatal("C5 sparse6")
	}
	//The empty string is still the empty graph for graph6 and no graph for sparse6.
	if e, err := graph.Graph6Decode(""); err != nil || e.N() != 0 {
		t.Fatal("empty string")
	}
	if _, err := graph.Sparse6Decode(""); err == nil {
		t.Fatal("empty sparse6 string")
	}
}

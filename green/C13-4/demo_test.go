// Demonstration for C13 change 4 (Search undoes a step in reverse searcher order: Backstep goes to the last searcher
// first).
//
// Copy to dawg/demo_test.go in the library and run:
//
//	GOFLAGS=-mod=mod GOPROXY=off GOSUMDB=off GOTOOLCHAIN=local \
//	  go test -vet=off -count=1 -timeout 600s -run 'TestDemoC13' -v ./dawg/
//
// TestDemoC13Property checks the property itself (exactly the matching words, lexicographic order, ranks,
// conjunction of several searchers, repeatability with the same searcher objects, Dawg unchanged) and passes on the
// clean tree and with the change.
// TestDemoC13IncidentalOld puts two logging wrappers (A around a pattern searcher, B around an anagram searcher) into
// one Search and records all calls in one common log. It checks what the property needs on both trees (result, each
// searcher's own view of the walk: Step/Backstep balanced, never below depth 0, back at depth 0 at the end) and then
// asserts the OLD incidental interleaving "Backstep reaches A before B": passes on the clean tree, fails with the
// change.
package dawg_test

import (
	"bytes"
	"fmt"
	"sort"
	"testing"

	"github.com/Tom-Johnston/mamba/dawg"
)

var demoWords = []string{"", "a", "ab", "abc", "b", "ba", "bab", "bat", "bit", "but", "cab", "cat", "cot", "cut", "opts", "post", "pots", "spot", "stop", "tops", "z", "z?", "\x00\xff"}

func demoDawg(t *testing.T) (*dawg.Dawg, [][]byte) {
	ws := make([][]byte, len(demoWords))
	for i, w := range demoWords {
		ws[i] = []byte(w)
	}
	sort.Slice(ws, func(i, j int) bool { return bytes.Compare(ws[i], ws[j]) < 0 })
	d, err := dawg.New(ws)
	if err != nil {
		t.Fatal(err)
	}
	return d, ws
}

func matchPattern(w, pat []byte, blank byte) bool {
	if len(w) != len(pat) {
		return false
	}
	for i := range w {
		if pat[i] != blank && pat[i] != w[i] {
			return false
		}
	}
	return true
}

func matchAnagram(w, ana []byte, blank byte) bool {
	if len(w) != len(ana) {
		return false
	}
	var cnt [256]int
	blanks := 0
	for _, c := range ana {
		if c == blank {
			blanks++
		} else {
			cnt[c]++
		}
	}
	for _, c := range w {
		if cnt[c] > 0 {
			cnt[c]--
		} else {
			blanks--
		}
	}
	return blanks >= 0
}

type query struct {
	anagram bool
	text    string
	blank   byte
}

func (q query) matches(w []byte) bool {
	if q.anagram {
		return matchAnagram(w, []byte(q.text), q.blank)
	}
	return matchPattern(w, []byte(q.text), q.blank)
}

func (q query) searcher() dawg.Searcher {
	if q.anagram {
		return dawg.NewAnagramSearcher([]byte(q.text), q.blank)
	}
	return dawg.NewPatternSearcher([]byte(q.text), q.blank)
}

var demoQueries = []query{
	{false, "", '?'}, {false, "?", '?'}, {false, "??", '?'}, {false, "???", '?'}, {false, "????", '?'}, {false, "?????", '?'},
	{false, "c?t", '?'}, {false, "b?t", '?'}, {false, "?a?", '?'}, {false, "?o??", '?'}, {false, "z?", '?'}, {false, "z?", '*'},
	{false, "q??", '?'}, {false, "ab", '?'}, {false, "abc", '?'}, {false, "abcd", '?'}, {false, "\x00?", '?'}, {false, "aaa", 'a'},
	{true, "", '?'}, {true, "a", '?'}, {true, "ba", '?'}, {true, "tac", '?'}, {true, "stop", '?'}, {true, "st?p", '?'},
	{true, "??", '?'}, {true, "???", '?'}, {true, "????", '?'}, {true, "bab", '?'}, {true, "abb", '?'}, {true, "bba", '?'},
	{true, "b?b", '?'}, {true, "t?b", '?'}, {true, "?z", '*'}, {true, "?z", '?'}, {true, "qqq", '?'}, {true, "\xff\x00", '?'},
}

func expect(ws [][]byte, qs ...query) (words []string, ids []int) {
	for i, w := range ws {
		ok := true
		for _, q := range qs {
			if !q.matches(w) {
				ok = false
			}
		}
		if ok {
			words = append(words, string(w))
			ids = append(ids, i)
		}
	}
	return
}

func got(d *dawg.Dawg, ss ...dawg.Searcher) (words []string, ids []int) {
	solns, ids := d.Search(ss...)
	for _, s := range solns {
		words = append(words, string(s))
	}
	return words, append([]int(nil), ids...)
}

func same(t *testing.T, what string, gw []string, gi []int, ew []string, ei []int) {
	t.Helper()
	if fmt.Sprintf("%q", gw) != fmt.Sprintf("%q", ew) || fmt.Sprint(gi) != fmt.Sprint(ei) {
		t.Errorf("%s: got %q %v, want %q %v", what, gw, gi, ew, ei)
	}
}

func TestDemoC13Property(t *testing.T) {
	d, ws := demoDawg(t)
	before, err := d.GobEncode()
	if err != nil {
		t.Fatal(err)
	}
	// no searcher: every word
	gw, gi := got(d)
	ew, ei := expect(ws)
	same(t, "no searcher", gw, gi, ew, ei)
	for _, q := range demoQueries {
		s := q.searcher()
		ew, ei := expect(ws, q)
		gw, gi := got(d, s)
		same(t, fmt.Sprintf("%+v", q), gw, gi, ew, ei)
		gw, gi = got(d, s) // the same searcher object again
		same(t, fmt.Sprintf("%+v repeated", q), gw, gi, ew, ei)
		for _, q2 := range demoQueries {
			s2 := q2.searcher()
			ew, ei := expect(ws, q, q2)
			gw, gi := got(d, s, s2)
			same(t, fmt.Sprintf("%+v & %+v", q, q2), gw, gi, ew, ei)
			gw, gi = got(d, s2, s)
			same(t, fmt.Sprintf("%+v & %+v", q2, q), gw, gi, ew, ei)
		}
		// s has been through many searches by now and must still behave like a fresh one
		gw, gi = got(d, s)
		same(t, fmt.Sprintf("%+v at the end", q), gw, gi, ew, ei)
	}
	after, err := d.GobEncode()
	if err != nil {
		t.Fatal(err)
	}
	if !bytes.Equal(before, after) {
		t.Errorf("the Dawg changed")
	}
	if d.NumberOfWords() != len(ws) {
		t.Errorf("NumberOfWords changed")
	}
}

// spy forwards everything to a real searcher and writes Step/Backstep/Chosen into a log shared with the other spies.
type spy struct {
	name  string
	inner dawg.Searcher
	log   *[]string
	depth int
	min   int
	steps int
	backs int
}

func (s *spy) AllowStep(b byte) bool { return s.inner.AllowStep(b) }
func (s *spy) AllowWord() bool       { return s.inner.AllowWord() }
func (s *spy) Step(b byte) {
	s.inner.Step(b)
	s.depth++
	s.steps++
	*s.log = append(*s.log, "Step:"+s.name)
}
func (s *spy) Backstep() {
	s.inner.Backstep()
	s.depth--
	s.backs++
	if s.depth < s.min {
		s.min = s.depth
	}
	*s.log = append(*s.log, "Backstep:"+s.name)
}
func (s *spy) Chosen() {
	s.inner.Chosen()
	*s.log = append(*s.log, "Chosen:"+s.name)
}

func TestDemoC13IncidentalOld(t *testing.T) {
	d, ws := demoDawg(t)
	qa, qb := query{false, "?o??", '?'}, query{true, "st?p", '?'}
	var log []string
	a := &spy{name: "A", inner: qa.searcher(), log: &log}
	b := &spy{name: "B", inner: qb.searcher(), log: &log}

	gw, gi := got(d, a, b)
	ew, ei := expect(ws, qa, qb)
	same(t, "A&B (property, both trees)", gw, gi, ew, ei)
	for _, s := range []*spy{a, b} {
		if s.depth != 0 || s.min < 0 || s.steps != s.backs {
			t.Errorf("searcher %s: depth %d at the end, minimum %d, %d Step, %d Backstep (property, both trees)", s.name, s.depth, s.min, s.steps, s.backs)
		}
	}
	first := log
	log = nil
	gw, gi = got(d, a, b) // same objects again
	same(t, "A&B repeated (property, both trees)", gw, gi, ew, ei)
	if fmt.Sprint(first) != fmt.Sprint(log) {
		t.Errorf("the second search with the same searchers did not take the same course (property, both trees)")
	}

	// OLD incidental behaviour: both Step and Backstep are delivered in argument order, A before B.
	n := a.steps / 2 // steps of one search; log holds the second search only
	stepsAB, backAB, backBA := 0, 0, 0
	for i := 0; i+1 < len(log); i += 2 { // every notification goes to both searchers, so the log consists of pairs
		switch log[i] + " " + log[i+1] {
		case "Step:A Step:B":
			stepsAB++
		case "Backstep:A Backstep:B":
			backAB++
		case "Backstep:B Backstep:A":
			backBA++
		}
	}
	t.Logf("%d steps; pairs Step A,B: %d; Backstep A,B: %d; Backstep B,A: %d", n, stepsAB, backAB, backBA)
	if len(log) > 8 {
		t.Logf("start of the log: %v", log[:8])
	}
	if stepsAB != n || backAB != n || backBA != 0 {
		t.Errorf("OLD: every Backstep is delivered to A first and then to B; got %d of %d in that order and %d reversed", backAB, n, backBA)
	}
}

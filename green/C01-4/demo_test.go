// Demonstration for C01, change 4 (CanonicalIsomorph takes its working space - ordered partition, storage, slice of
// neighbourhoods - from a sync.Pool of workspaces left by earlier calls and returns a copy of the permutation, instead
// of allocating everything afresh through CanonicalIsomorphFull).
//
// Run (from the root of the library, public API only):
//
//	export GOFLAGS=-mod=mod GOPROXY=off GOSUMDB=off GOTOOLCHAIN=local
//	cp demo_test.go graph/zz_demo_test.go
//	go test -vet=off -count=1 -timeout 300s -run 'TestDemo' -v ./graph/
//	rm graph/zz_demo_test.go
//
// TestDemoProperty checks the property itself (CanonicalIsomorph returns a permutation; the relabelled graph has the
// same canonical graph for every relabelling, dense and sparse; non-isomorphic graphs get different canonical graphs)
// and TestDemoSameAnswers checks that CanonicalIsomorph returns exactly the permutation of CanonicalIsomorphFull (which
// never shares working space) when graphs of very different sizes are interleaved and when 16 goroutines call it at the
// same time.  Both pass before and after the change.
// TestDemoIncidental asserts the number of heap allocations per call that the CLEAN tree happens to make (41 for the
// Petersen graph, 26 for the empty graph with 5 vertices; asserted as "at least 20").  It passes on the clean tree and
// fails with the change (11 and 1).
package graph_test

import (
	"fmt"
	"math/rand"
	"sync"
	"testing"

	"github.com/Tom-Johnston/mamba/graph"
	"github.com/Tom-Johnston/mamba/sortints"
)

func demoG6(s string) *graph.DenseGraph {
	g, err := graph.Graph6Decode(s)
	if err != nil {
		panic(err)
	}
	return g
}

func demoIsPerm(p []int, n int) bool {
	if len(p) != n {
		return false
	}
	seen := make([]bool, n)
	for _, v := range p {
		if v < 0 || v >= n || seen[v] {
			return false
		}
		seen[v] = true
	}
	return true
}

func demoSparse(g graph.Graph) *graph.SparseGraph {
	nb := make([]sortints.SortedInts, g.N())
	for i := range nb {
		nb[i] = append(sortints.SortedInts{}, g.Neighbours(i)...)
	}
	return graph.NewSparse(g.N(), nb)
}

func demoCanon(t *testing.T, g graph.EditableGraph) string {
	p := graph.CanonicalIsomorph(g)
	if !demoIsPerm(p, g.N()) {
		t.Fatalf("%v: %v is not a permutation", graph.Graph6Encode(g), p)
	}
	return graph.Graph6Encode(g.InducedSubgraph(p))
}

// demoPerms calls f with every permutation of 0..n-1 (Heap's algorithm).
func demoPerms(n int, f func([]int)) {
	a := make([]int, n)
	for i := range a {
		a[i] = i
	}
	c := make([]int, n)
	f(a)
	for i := 0; i < n; {
		if c[i] < i {
			if i%2 == 0 {
				a[0], a[i] = a[i], a[0]
			} else {
				a[c[i]], a[i] = a[i], a[c[i]]
			}
			f(a)
			c[i]++
			i = 0
		} else {
			c[i] = 0
			i++
		}
	}
}

func TestDemoProperty(t *testing.T) {
	canon := map[string]string{}
	//Every relabelling of the graphs with at most 8 vertices.
	for _, s := range []string{"CR", "DqK", "EqGW", "G|WW}K", "GhcqSK", "G`iRYw", "GsXPOk"} {
		g := demoG6(s)
		c0 := demoCanon(t, g)
		count := 0
		demoPerms(g.N(), func(pi []int) {
			h := g.InducedSubgraph(pi)
			c := ""
			if count%5 == 4 {
				c = demoCanon(t, demoSparse(h))
			} else {
				c = demoCanon(t, h)
			}
			count++
			if c != c0 {
				t.Fatalf("%v relabelled with %v: canonical graph %v, want %v", s, pi, c, c0)
			}
		})
		canon[s] = c0
	}
	//Random relabellings of larger ones.
	rng := rand.New(rand.NewSource(7))
	larger := map[string]graph.EditableGraph{
		"petersen":     graph.KneserGraph(5, 2),
		"KhEKA?aCOT?i": demoG6("KhEKA?aCOT?i"), //generalised Petersen graph GP(6,2)
		"KhEG?CB???_B": demoG6("KhEG?CB???_B"), //C6 + 2 K3
		"rook44":       graph.RookGraph(4, 4),
		"Q4":           graph.HypercubeGraph(4),
		"K6":           graph.CompleteGraph(6),
		"E6":           graph.NewDense(6, nil),
	}
	for name, g := range larger {
		c0 := demoCanon(t, g)
		for r := 0; r < 3000; r++ {
			pi := rng.Perm(g.N())
			h := g.InducedSubgraph(pi)
			c := ""
			if r%5 == 4 {
				c = demoCanon(t, demoSparse(h))
			} else {
				c = demoCanon(t, h)
			}
			if c != c0 {
				t.Fatalf("%v relabelled with %v: canonical graph %v, want %v", name, pi, c, c0)
			}
		}
		canon[name] = c0
	}
	//Pairwise non-isomorphic graphs have pairwise different canonical graphs.
	seen := map[string]string{}
	for name, c := range canon {
		if other, ok := seen[c]; ok {
			t.Fatalf("%v and %v have the same canonical graph", name, other)
		}
		seen[c] = name
	}
}

func demoCorpus() []graph.EditableGraph {
	gs := []graph.EditableGraph{graph.NewDense(0, nil), graph.NewDense(1, nil), graph.NewDense(7, nil), graph.CompleteGraph(9), graph.KneserGraph(5, 2), graph.KneserGraph(7, 3), graph.HypercubeGraph(5), graph.RookGraph(5, 5), graph.Path(2), graph.Star(12), graph.Cycle(40), demoG6("G|WW}K"), demoG6("GhcqSK")}
	for i := 0; i < 60; i++ {
		gs = append(gs, graph.RandomGraph(2+(i*7)%45, []float64{0.15, 0.5, 0.85}[i%3], int64(i)))
		gs = append(gs, graph.RandomTree(3+(i*11)%50, int64(i)))
	}
	return gs
}

func TestDemoSameAnswers(t *testing.T) {
	corpus := demoCorpus()
	want := make([]string, len(corpus))
	for i, g := range corpus {
		p, _, _ := graph.CanonicalIsomorphFull(g, nil)
		want[i] = fmt.Sprint(p)
	}
	//Interleaved sizes, one goroutine. The graph must not be modified either.
	rng := rand.New(rand.NewSource(3))
	for r := 0; r < 3000; r++ {
		i := rng.Intn(len(corpus))
		before := graph.Graph6Encode(corpus[i])
		var g graph.Graph = corpus[i]
		if r%2 == 1 {
			g = demoSparse(corpus[i])
		}
		p := graph.CanonicalIsomorph(g)
		if got := fmt.Sprint(p); got != want[i] {
			t.Fatalf("graph %d (%v): %v, CanonicalIsomorphFull gives %v", i, before, got, want[i])
		}
		//The caller owns the result: scribbling over it must not disturb later calls.
		for j := range p {
			p[j] = -1
		}
		if graph.Graph6Encode(corpus[i]) != before {
			t.Fatalf("graph %d was modified", i)
		}
	}
	//Many goroutines at once.
	var wg sync.WaitGroup
	errs := make(chan string, 16)
	for w := 0; w < 16; w++ {
		wg.Add(1)
		go func(w int) {
			defer wg.Done()
			rng := rand.New(rand.NewSource(int64(w)))
			for r := 0; r < 2000; r++ {
				i := rng.Intn(len(corpus))
				if got := fmt.Sprint(graph.CanonicalIsomorph(corpus[i])); got != want[i] {
					select {
					case errs <- fmt.Sprintf("goroutine %d, graph %d: %v, want %v", w, i, got, want[i]):
					default:
					}
					return
				}
			}
		}(w)
	}
	wg.Wait()
	close(errs)
	for e := range errs {
		t.Error(e)
	}
}

func TestDemoIncidental(t *testing.T) {
	for _, c := range []struct {
		name string
		g    graph.Graph
	}{
		{"petersen", graph.KneserGraph(5, 2)},
		{"empty5", graph.NewDense(5, nil)},
		{"Q4 (sparse)", demoSparse(graph.HypercubeGraph(4))},
	} {
		allocs := testing.AllocsPerRun(200, func() { graph.CanonicalIsomorph(c.g) })
		t.Logf("%v: %v allocations per call of CanonicalIsomorph", c.name, allocs)
		if allocs < 20 {
			t.Errorf("%v: %v allocations per call, the clean tree makes at least 20 (a fresh partition and storage per call)", c.name, allocs)
		}
	}
}

// Demo for C12 change 6 (New checks the order of the whole list before it starts to build, so a list which is not
// strictly increasing is refused at once, with the same error as before, instead of after the dawg of everything in
// front of the offending word has been built and thrown away).
//
// Run (from the root of the library worktree):
//
//	cp /tmp/green-out/C12/6/demo_test.go dawg/c12demo6_test.go
//	GOFLAGS=-mod=mod GOPROXY=off GOSUMDB=off GOTOOLCHAIN=local go test -vet=off -count=1 -timeout 600s -run 'TestC12Demo6' -v ./dawg/
//	rm dawg/c12demo6_test.go
//
// TestC12Demo6Property checks the property itself (accepts exactly the words, NumberOfWords, ranks of members, false
// for non-members, minimal node count, rejected Adds return an error and are harmless, also through a builder reset
// with Initialise, New refuses lists with a duplicate or an inversion anywhere) on fixed and random word sets and passes
// before and after the change.
// TestC12Demo6Incidental asserts the OLD incidental behaviour: New on a list of 2000 words whose last word repeats the
// one before it does all the work for the first 1999 words (thousands of allocations) before it returns the error. It
// passes on the clean tree and fails with the change (at most a handful of allocations). The error value and text, and
// the nil *Dawg which comes with it, are the same before and after.
package dawg_test

import (
	"encoding/hex"
	"fmt"
	"math/rand"
	"sort"
	"testing"

	"github.com/Tom-Johnston/mamba/dawg"
)

var c12demo6Sets = [][]string{
	{},
	{""},
	{"", "a"},
	{"abject", "abjection", "abjections", "abjectly", "abjectness", "ablate", "ablated", "ablation", "ablations"},
	{"", "a", "aa", "ab", "b", "ba", "bb", "tap", "taps", "top", "tops"},
	{"\x00", "\x00\xff", "\xff", "\xff\x00\xff"},
}

// randomSets6 returns sorted duplicate-free random word sets over small alphabets (many shared prefixes and suffixes).
func randomSets6(n int, seed int64) [][]string {
	rng := rand.New(rand.NewSource(seed))
	var sets [][]string
	for k := 0; k < n; k++ {
		alpha := 1 + rng.Intn(3)
		maxLen := 1 + rng.Intn(5)
		set := map[string]bool{}
		for i, m := 0, rng.Intn(14); i < m; i++ {
			w := make([]byte, rng.Intn(maxLen+1))
			for j := range w {
				w[j] = "ab\xff"[rng.Intn(alpha)]
			}
			set[string(w)] = true
		}
		words := []string{}
		for w := range set {
			words = append(words, w)
		}
		sort.Strings(words)
		sets = append(sets, words)
	}
	return sets
}

// minimalNodes6 is the number of states of the minimal (trim) deterministic acyclic automaton of the set: the number of
// distinct non-empty right languages of prefixes, and 1 (just the root) for the empty set.
func minimalNodes6(words []string) int {
	langs := map[string]bool{}
	for _, w := range words {
		for i := 0; i <= len(w); i++ {
			p := w[:i]
			var rl []string
			for _, v := range words {
				if len(v) >= len(p) && v[:len(p)] == p {
					rl = append(rl, v[len(p):])
				}
			}
			sort.Strings(rl)
			key := ""
			for _, s := range rl {
				key += hex.EncodeToString([]byte(s)) + ","
			}
			langs[key] = true
		}
	}
	if len(langs) == 0 {
		return 1
	}
	return len(langs)
}

// encodedNumNodes6 reads the node count which GobEncode writes first.
func encodedNumNodes6(t *testing.T, d *dawg.Dawg) int {
	b, err := d.GobEncode()
	if err != nil {
		t.Fatal(err)
	}
	if b[0] <= 127 {
		return int(b[0])
	}
	n := int(b[0]) - 128
	x := 0
	for _, c := range b[1 : 1+n] {
		x = x<<8 | int(c)
	}
	return x
}

func probes6(words []string) []string {
	set := map[string]bool{"": true, "zz": true, "a": true, "\x00": true}
	for _, w := range words {
		set[w] = true
		set[w+"a"] = true
		set[w+"\x00"] = true
		for i := 0; i < len(w); i++ {
			set[w[:i]] = true
			set[w[:i]+"\x01"] = true
			set[w[:i]+"b"] = true
		}
	}
	var ps []string
	for p := range set {
		ps = append(ps, p)
	}
	sort.Strings(ps)
	return ps
}

func checkDawg6(t *testing.T, d *dawg.Dawg, words []string) {
	t.Helper()
	if d.NumberOfWords() != len(words) {
		t.Errorf("%q: NumberOfWords = %d, want %d", words, d.NumberOfWords(), len(words))
	}
	rank := map[string]int{}
	for i, w := range words {
		rank[w] = i
	}
	for _, p := range probes6(words) {
		r, ok := d.Lookup([]byte(p))
		wr, wok := rank[p]
		if ok != wok || (ok && r != wr) {
			t.Errorf("%q: Lookup(%q) = (%d, %v), want (%d, %v)", words, p, r, ok, wr, wok)
		}
	}
	if got, want := encodedNumNodes6(t, d), minimalNodes6(words); got != want {
		t.Errorf("%q: %d nodes, minimal automaton has %d", words, got, want)
	}
}

func TestC12Demo6Property(t *testing.T) {
	rng := rand.New(rand.NewSource(12))
	for _, words := range append(c12demo6Sets, randomSets6(3000, 3)...) {
		var bs [][]byte
		for _, w := range words {
			bs = append(bs, []byte(w))
		}
		d, err := dawg.New(bs)
		if err != nil {
			t.Fatal(err)
		}
		checkDawg6(t, d, words)

		// The same set through a Builder with rejected Adds (duplicates and out-of-order words) in between.
		db := new(dawg.Builder)
		for i, w := range words {
			if err := db.Add([]byte(w)); err != nil {
				t.Fatal(err)
			}
			if err := db.Add([]byte(w)); err == nil {
				t.Errorf("%q: duplicate %q accepted", words, w)
			}
			if i > 0 {
				j := rng.Intn(i)
				if err := db.Add([]byte(words[j])); err == nil {
					t.Errorf("%q: out-of-order %q accepted", words, words[j])
				}
			}
			if w != "" {
				if err := db.Add([]byte(w[:len(w)-1])); err == nil {
					t.Errorf("%q: out-of-order %q accepted", words, w[:len(w)-1])
				}
			}
		}
		d, err = db.Finish()
		if err != nil {
			t.Fatal(err)
		}
		checkDawg6(t, d, words)

		// A builder which has been reset with Initialise() builds the same set again (documented way to reuse a builder).
		db.Initialise()
		for _, w := range words {
			if err := db.Add([]byte(w)); err != nil {
				t.Fatal(err)
			}
		}
		d2, err := db.Finish()
		if err != nil {
			t.Fatal(err)
		}
		checkDawg6(t, d2, words)
		checkDawg6(t, d, words) // the first dawg is not disturbed

		// New rejects a list with a duplicate or an inversion.
		if len(bs) > 0 {
			if _, err := dawg.New(append(bs[:len(bs):len(bs)], bs[rng.Intn(len(bs))])); err == nil {
				t.Errorf("%q: New accepted a list which is not strictly increasing", words)
			}
		}
	}
}

// New refuses a list with a duplicate or an inversion at EVERY position, with a nil dawg; and accepts the list without it.
func TestC12Demo6PropertyNew(t *testing.T) {
	for _, words := range append(c12demo6Sets, randomSets6(1500, 5)...) {
		var bs [][]byte
		for _, w := range words {
			bs = append(bs, []byte(w))
		}
		for pos := 1; pos <= len(bs); pos++ {
			for prev := 0; prev < pos; prev++ {
				bad := append(append(append([][]byte{}, bs[:pos]...), bs[prev]), bs[pos:]...)
				d, err := dawg.New(bad)
				if err == nil || d != nil {
					t.Errorf("%q: New accepted the list with word %d repeated at position %d (dawg %v, err %v)", words, prev, pos, d, err)
				}
			}
		}
	}
}

func TestC12Demo6Incidental(t *testing.T) {
	var bs [][]byte
	for i := 0; i < 1999; i++ {
		bs = append(bs, []byte(fmt.Sprintf("w%04dx%d", i, i*i%97)))
	}
	good := bs
	bad := append(bs[:len(bs):len(bs)], bs[len(bs)-1])

	d, err := dawg.New(good)
	if err != nil || d.NumberOfWords() != 1999 {
		t.Fatalf("good list: %v", err)
	}
	d, err = dawg.New(bad)
	if err == nil || d != nil {
		t.Fatalf("bad list accepted: %v %v", d, err)
	}
	t.Logf("error text: %q", err)
	if err.Error() != "byte slices must be added in lexicographical order" {
		t.Errorf("error text changed (this is NOT expected from the change)")
	}
	allocs := testing.AllocsPerRun(5, func() { dawg.New(bad) })
	t.Logf("New on a list of 2000 words which is refused because of its last word: %.0f allocations", allocs)
	if allocs < 1000 {
		t.Errorf("New refused the list after only %.0f allocations; old behaviour: the first 1999 words are built first (thousands of allocations)", allocs)
	}
}

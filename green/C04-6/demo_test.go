// Demonstration for C04/6 (the union-find storage of the iterator is allocated lazily and grown on demand).
//
// Copy to graph/search/demo_test.go in the library and run
//
//	GOFLAGS=-mod=mod GOPROXY=off GOSUMDB=off GOTOOLCHAIN=local go test -vet=off -count=1 -timeout 300s -run 'TestDemoC04' -v ./graph/search/
//
// TestDemoC04Property checks the property itself (every save position, continuation of the original, a
// save/load/advance/save/load chain) and passes on the clean tree and with the change.
// TestDemoC04EagerStorage pins the OLD incidental behaviour: constructing an iterator for n = 24 (All, and Load
// of a record saved from it) allocates the complete table of C(24,12) = 2704156 ints (about 21.6 MB) up front,
// and a search that is pruned down to the edgeless graphs, which never looks at a set of two or more
// neighbours, still pays for it.  It passes on the clean tree and fails with the change (a few dozen KB).
package search_test

import (
	"bytes"
	"fmt"
	"runtime"
	"testing"

	"github.com/Tom-Johnston/mamba/graph"
	"github.com/Tom-Johnston/mamba/graph/search"
)

type cfg struct {
	n, a, m int
	pre     func(g *graph.DenseGraph) bool
	prune   func(g *graph.DenseGraph) bool
}

func never(g *graph.DenseGraph) bool     { return false }
func manyEdges(g *graph.DenseGraph) bool { return g.NumberOfEdges > 8 }
func hasDeg4(g *graph.DenseGraph) bool {
	for _, d := range g.DegreeSequence {
		if d >= 4 {
			return true
		}
	}
	return false
}

func key(g *graph.DenseGraph) string {
	return fmt.Sprint(g.NumberOfVertices, g.NumberOfEdges, g.DegreeSequence, g.Edges)
}

func rest(it *search.GraphIterator) []string {
	var out []string
	for it.Next() {
		out = append(out, key(it.Value()))
	}
	return out
}

func same(a, b []string) bool {
	if len(a) != len(b) {
		return false
	}
	for i := range a {
		if a[i] != b[i] {
			return false
		}
	}
	return true
}

func configs() []cfg {
	return []cfg{
		{0, 0, 1, never, never}, {1, 0, 1, never, never}, {2, 0, 1, never, never}, {3, 0, 1, never, never},
		{4, 0, 1, never, never}, {5, 0, 1, never, never}, {6, 0, 1, never, never},
		{6, 0, 2, never, never}, {6, 1, 2, never, never},
		{7, 0, 3, never, never}, {7, 1, 3, never, never}, {7, 2, 3, never, never},
		{7, 0, 1, manyEdges, never}, {7, 0, 1, never, hasDeg4}, {7, 1, 2, hasDeg4, manyEdges},
	}
}

func TestDemoC04Property(t *testing.T) {
	for ci, c := range configs() {
		ref := rest(search.WithPruning(c.n, c.a, c.m, c.pre, c.prune))
		for k := 0; k <= len(ref); k++ {
			orig := search.WithPruning(c.n, c.a, c.m, c.pre, c.prune)
			for j := 0; j < k; j++ {
				if !orig.Next() {
					t.Fatalf("config %d: original ended early", ci)
				}
			}
			var buf bytes.Buffer
			orig.Save(&buf)
			rec := append([]byte(nil), buf.Bytes()...)
			loaded := search.Load(&buf, c.pre, c.prune)
			// a chain: advance the loaded iterator by one, save again, load again
			chain := search.Load(bytes.NewReader(rec), c.pre, c.prune)
			var chainOut []string
			if chain.Next() {
				chainOut = append(chainOut, key(chain.Value()))
			}
			var buf2 bytes.Buffer
			chain.Save(&buf2)
			chain2 := search.Load(&buf2, c.pre, c.prune)
			chainOut = append(chainOut, rest(chain2)...)

			if got := rest(loaded); !same(got, ref[k:]) {
				t.Fatalf("config %d, k=%d: loaded iterator differs from the remaining sequence", ci, k)
			}
			if got := rest(orig); !same(got, ref[k:]) {
				t.Fatalf("config %d, k=%d: original disturbed by Save", ci, k)
			}
			if !same(chainOut, ref[k:]) {
				t.Fatalf("config %d, k=%d: chain differs from the remaining sequence", ci, k)
			}
			k1 := k + 1
			if k1 > len(ref) {
				k1 = len(ref)
			}
			if !same(rest(chain), ref[k1:]) {
				t.Fatalf("config %d, k=%d: iterator disturbed by the second Save", ci, k)
			}
		}
	}
}

func allocated(f func()) uint64 {
	var a, b runtime.MemStats
	runtime.GC()
	runtime.ReadMemStats(&a)
	f()
	runtime.ReadMemStats(&b)
	return b.TotalAlloc - a.TotalAlloc
}

func TestDemoC04EagerStorage(t *testing.T) {
	const table = 8 * 2704156 // C(24,12) ints
	anyEdge := func(g *graph.DenseGraph) bool { return g.NumberOfEdges > 0 }
	var rec bytes.Buffer
	var count int
	construct := allocated(func() {
		it := search.WithPruning(24, 0, 1, anyEdge, never)
		it.Save(&rec)
	})
	load := allocated(func() {
		it := search.Load(&rec, anyEdge, never)
		// the whole (pruned) search from the loaded iterator: exactly one graph, the edgeless graph on 24 vertices
		for it.Next() {
			if it.Value().NumberOfVertices != 24 || it.Value().NumberOfEdges != 0 {
				t.Errorf("unexpected graph")
			}
			count++
		}
	})
	t.Logf("WithPruning(24,...)+Save allocated %d bytes, Load+whole pruned search allocated %d bytes, %d graph(s)", construct, load, count)
	if count != 1 {
		t.Errorf("%d graphs, want 1", count)
	}
	if construct < table {
		t.Errorf("constructing the iterator allocated %d bytes, the clean tree allocates at least %d", construct, table)
	}
	if load < table {
		t.Errorf("loading and running the pruned search allocated %d bytes, the clean tree allocates at least %d", load, table)
	}
}

package c15

// Parameter magnitudes.  The other workloads keep the NUMBER of objects small
// (all parameters up to 9, or more than 64 positions with a few thousand
// objects), so nothing in the library that depends on the size of the family as
// a number - a count of the objects still to come, a rank, an index computed in
// a machine word - is ever pushed past 2^31, 2^32, 2^63 or 2^64.  Such families
// cannot be drained, but a caller that searches one and stops at the first hit
// sees their first objects, and those can be judged: the first few hundred
// objects are compared with an independently generated prefix of the reference
// where the order is documented, and are required to be distinct members of the
// family, with no exhaustion reported, where it is not.  The cardinalities are
// computed with big integers and chosen on both sides of the word sizes:
// multiples of 2^32 / 2^64, values that wrap to a small number modulo 2^32 /
// 2^64 (smaller than the prefix length, so that an iterator which counts in a
// machine word stops inside the prefix), values just below and above 2^63.
// Every constructor whose parameters admit such families takes part.
// Parameters that are huge as numbers while the family stays small
// (multiplicities of 2^62 with k <= 4, a zero factor next to factors of 2^32,
// many factors under a predicate that keeps few tuples) are drained completely.

import (
	"fmt"
	"math"
	"math/big"

	"github.com/Tom-Johnston/mamba/itertools"

	"verif/internal/engine"
	"verif/internal/oracle/refiter"
)

var (
	two31 = new(big.Int).Lsh(big.NewInt(1), 31)
	two32 = new(big.Int).Lsh(big.NewInt(1), 32)
	two63 = new(big.Int).Lsh(big.NewInt(1), 63)
	two64 = new(big.Int).Lsh(big.NewInt(1), 64)
)

// noteSize records where the cardinality of a family lies relative to the word sizes.
func noteSize(c *engine.Ctx, api string, card *big.Int, prefix int) {
	c.Obs("huge_family_prefix_cases:"+api, 1)
	switch {
	case card.Cmp(two64) >= 0:
		c.Obs("huge_family_prefix_cases_with_cardinality>=2^64:"+api, 1)
	case card.Cmp(two63) >= 0:
		c.Obs("huge_family_prefix_cases_with_cardinality_in[2^63,2^64):"+api, 1)
	case card.Cmp(two31) >= 0:
		c.Obs("huge_family_prefix_cases_with_cardinality_in[2^31,2^63):"+api, 1)
	}
	for _, w := range []struct {
		name string
		mod  *big.Int
	}{{"2^64", two64}, {"2^32", two32}} {
		if card.Cmp(w.mod) < 0 {
			continue
		}
		r := new(big.Int).Mod(card, w.mod)
		if r.Sign() == 0 {
			c.Obs("huge_family_prefix_cases_with_cardinality_a_multiple_of_"+w.name+":"+api, 1)
		} else if r.Cmp(big.NewInt(int64(prefix))) < 0 {
			c.Obs("huge_family_prefix_cases_with_cardinality_mod_"+w.name+"_below_the_prefix_length:"+api, 1)
		}
	}
}

func bigProduct(d []int) *big.Int {
	p := big.NewInt(1)
	for _, v := range d {
		p.Mul(p, big.NewInt(int64(v)))
	}
	return p
}

func bigFactorial(n int) *big.Int { return new(big.Int).MulRange(1, int64(n)) }

func bigMultinomial(freq []int) *big.Int {
	r := bigFactorial(sumOf(freq))
	for _, f := range freq {
		r.Div(r, bigFactorial(f))
	}
	return r
}

// bigBell: Bell numbers by the Bell triangle.
func bigBell(n int) *big.Int {
	row := []*big.Int{big.NewInt(1)}
	for i := 1; i <= n; i++ {
		next := make([]*big.Int, i+1)
		next[0] = row[len(row)-1]
		for j := 1; j <= i; j++ {
			next[j] = new(big.Int).Add(next[j-1], row[j-1])
		}
		row = next
	}
	return row[0]
}

// bigPartitionNumber: p(n) by counting partitions by largest allowed part.
func bigPartitionNumber(n int) *big.Int {
	p := make([]*big.Int, n+1)
	for i := range p {
		p[i] = big.NewInt(0)
	}
	p[0].SetInt64(1)
	for part := 1; part <= n; part++ {
		for s := part; s <= n; s++ {
			p[s].Add(p[s], p[s-part])
		}
	}
	return p[n]
}

// bigMultisetCount: number of vectors v with 0 <= v[i] <= m[i] and sum k.
func bigMultisetCount(m []int, k int) *big.Int {
	poly := make([]*big.Int, k+1)
	for i := range poly {
		poly[i] = big.NewInt(0)
	}
	poly[0].SetInt64(1)
	for _, mi := range m {
		np := make([]*big.Int, k+1)
		for s := 0; s <= k; s++ {
			np[s] = big.NewInt(0)
			for j := 0; j <= mi && j <= s; j++ {
				np[s].Add(np[s], poly[s-j])
			}
		}
		poly = np
	}
	return poly[k]
}

func bigBinomial(n, k int) *big.Int {
	r := big.NewInt(1)
	for i := 1; i <= k; i++ {
		r.Mul(r, big.NewInt(int64(n-k+i)))
		r.Div(r, big.NewInt(int64(i)))
	}
	return r
}

func shortBig(b *big.Int) string {
	s := b.String()
	if len(s) > 24 {
		return fmt.Sprintf("%s...(%d digits, about 2^%d)", s[:6], len(s), b.BitLen()-1)
	}
	return s
}

// ---------------------------------------------------------------------------
// factor vectors of huge products

func repeatVec(v, times int) []int { return constVec(times, v) }

func fixedHugeFactors() [][]int {
	const maxInt = math.MaxInt64
	return [][]int{
		repeatVec(2, 62), repeatVec(2, 63), repeatVec(2, 64), repeatVec(2, 65), repeatVec(2, 100), repeatVec(2, 128), repeatVec(2, 200),
		repeatVec(3, 40), repeatVec(3, 41), repeatVec(6, 25), repeatVec(10, 18), repeatVec(10, 19), repeatVec(10, 20),
		repeatVec(4, 16), repeatVec(4, 32), repeatVec(16, 8), repeatVec(16, 16), repeatVec(256, 4), repeatVec(256, 8), repeatVec(65536, 2), repeatVec(65536, 4),
		{1 << 31, 1 << 31}, {1 << 31, 1 << 32}, {1 << 32, 1 << 32}, {1 << 16, 1 << 32, 1 << 16, 5}, {1 << 21, 1 << 21, 1 << 22}, {1 << 40, 1 << 40},
		{maxInt}, {maxInt, maxInt}, {maxInt, 2}, {2, maxInt}, {1 << 62, 2}, {1 << 62, 2, 2}, {1 << 62, 4}, {1 << 62, 3}, {3, 1 << 62},
		{1<<32 + 1, 1<<32 - 1}, {1<<32 + 1, 1<<32 + 1}, {1 << 32, 1<<32 + 1}, {1, 1 << 32, 1, 1 << 32, 1},
		withEntries(repeatVec(1, 70), 0, 1<<32, 69, 1<<32), withEntries(repeatVec(2, 70), 64, 1),
	}
}

// wrappingFactors: factor vectors whose product is mult*2^exp + w for small w, found by dividing small factors out.
func wrappingFactors(exps, mults []int, maxW, stepW int) [][]int {
	var out [][]int
	seen := map[string]bool{}
	add := func(d ...int) {
		key := fmt.Sprint(d)
		if !seen[key] {
			seen[key] = true
			out = append(out, cpInts(d))
		}
	}
	for _, e := range exps {
		for _, k := range mults {
			for w := 0; w <= maxW; w += stepW {
				t := new(big.Int).Lsh(big.NewInt(int64(k)), uint(e))
				t.Add(t, big.NewInt(int64(w)))
				if t.IsInt64() && t.Int64() > 1 {
					add(int(t.Int64()))
				}
				for fi, f1 := range []int64{2, 3, 5, 7, 11, 13} {
					q, r := new(big.Int).QuoRem(t, big.NewInt(f1), new(big.Int))
					if r.Sign() != 0 || !q.IsInt64() || q.Int64() < 2 {
						continue
					}
					a := q.Int64()
					if (w+fi)%2 == 0 {
						add(int(a), int(f1))
					} else {
						add(int(f1), int(a))
					}
					for _, f2 := range []int64{2, 3, 5, 7} {
						if a%f2 == 0 && a/f2 >= 2 {
							add(int(a/f2), int(f2), int(f1))
							break
						}
					}
				}
			}
		}
	}
	return out
}

func productPrefixCase(d []int, first int) *kase {
	k := productCase([]int{})
	dd := cpInts(d)
	k.witness = fmt.Sprintf("factors=%s,first=%d", vecName(d), first)
	k.want, k.convention = nil, false
	k.detail = map[string]interface{}{"factors": dd}
	k.build = func() iface { return k.mk(cpInts(dd)) }
	k.prefixOnly, k.prefixCount = true, first
	k.member = tupleMember(dd, nil)
	k.sizeNote = "the product has " + shortBig(bigProduct(dd)) + " elements"
	k.likely, k.likelyName = refiter.FirstProduct(dd, first), "lexicographic"
	return k
}

func tupleMember(dd []int, p func([]int) bool) func([]int) string {
	return func(a []int) string {
		if len(a) != len(dd) {
			return fmt.Sprintf("%d coordinates for %d factors", len(a), len(dd))
		}
		for i, v := range a {
			if v < 0 || v >= dd[i] {
				return fmt.Sprintf("coordinate %d is %d, outside 0..%d", i, v, dd[i]-1)
			}
			if p != nil && !p(a[:i+1]) {
				return fmt.Sprintf("the prefix %v is rejected by the predicate", a[:i+1])
			}
		}
		return ""
	}
}

// restrictedProductBigCase: the reference is a pruned search stopped after first+1 tuples.  If it ends before, the whole
// (small) family is known and the iterator is drained; otherwise the first `first` tuples are judged as members.
func restrictedProductBigCase(d []int, p pred, first int) (k *kase, prefix bool) {
	calls := int64(0)
	ref := refiter.RestrictedProduct(d, func(a []int) bool { calls++; return p.f(a) }, first+1)
	k = restrictedProductKase(d, p)
	k.mon.limit = 16 * (calls + 64)
	if len(ref) <= first {
		k.want = ref
		return k, false
	}
	k.witness += fmt.Sprintf(",first=%d", first)
	k.prefixOnly, k.prefixCount = true, first
	k.member = tupleMember(cpInts(d), p.f)
	k.sizeNote = fmt.Sprintf("a pruned search finds more than %d accepted tuples", first)
	k.likely, k.likelyName = ref[:first], "lexicographic"
	return k, true
}

// ---------------------------------------------------------------------------
// permutations

func permMember(n int, rel [][2]int) func([]int) string {
	return func(a []int) string {
		if len(a) != n || !distinctIn(a, n) {
			return fmt.Sprintf("not a permutation of 0..%d", n-1)
		}
		if len(rel) > 0 {
			pos := make([]int, n)
			for i, v := range a {
				pos[v] = i
			}
			for _, e := range rel {
				if pos[e[0]] >= pos[e[1]] {
					return fmt.Sprintf("%d does not stand before %d", e[0], e[1])
				}
			}
		}
		return ""
	}
}

func permutationsPrefixCase(n, first int) *kase {
	k := permutationsCase(0)
	k.convention, k.want = false, nil
	k.witness = fmt.Sprintf("n=%d,first=%d", n, first)
	k.build = func() iface {
		it := itertools.Permutations(n)
		return iface{next: func() bool { return it.Next() }, value: func() []int { return it.Value() }}
	}
	k.prefixOnly, k.prefixCount, k.member = true, first, permMember(n, nil)
	k.sizeNote = fmt.Sprintf("%d! = %s permutations", n, shortBig(bigFactorial(n)))
	return k
}

func patternPrefixCase(n, first int) *kase {
	k := patternKase(n, fixedPreds(n)[0])
	k.witness += fmt.Sprintf(",first=%d", first)
	k.mon.limit = 16 * (int64(n)*int64(n)*int64(first+2) + 64)
	k.prefixOnly, k.prefixCount, k.member = true, first, permMember(n, nil)
	k.sizeNote = fmt.Sprintf("%d! = %s permutations", n, shortBig(bigFactorial(n)))
	return k
}

func topologicalPrefixCase(n int, rel relation, first int) *kase {
	k := topologicalCase(n, nil, rel)
	k.want = nil
	k.witness += fmt.Sprintf(",first=%d", first)
	k.mon.limit = 16 * (int64(n)*int64(n)*int64(first+2) + 64)
	k.prefixOnly, k.prefixCount, k.member = true, first, permMember(n, rel.pairs)
	k.sizeNote = fmt.Sprintf("at least %d! = %s topological sorts", n-2, shortBig(bigFactorial(n-2)))
	return k
}

// restrictedPermutationsBigCase: as restrictedProductBigCase; the order is documented, so a prefix is compared exactly.
func restrictedPermutationsBigCase(n int, p pred, first int) (k *kase, prefix bool) {
	calls := int64(0)
	ref := refiter.RestrictedPermutations(n, func(a []int) bool { calls++; return p.f(a) }, first+1)
	k = restrictedPermutationsCase(n, nil, p)
	k.mon.limit = 16 * (calls + 64)
	if len(ref) <= first {
		k.want = ref
		return k, false
	}
	k.witness += fmt.Sprintf(",first=%d", first)
	k.want, k.prefixOnly = ref[:first], true
	return k, true
}

func multisetPermutationsPrefixCase(freq []int, first int) *kase {
	k := multisetPermutationsKase(freq)
	k.witness += fmt.Sprintf(",first=%d", first)
	k.want, k.prefixOnly = refiter.FirstMultisetPermutations(freq, first), true
	return k
}

func partitionsPrefixCase(n, first int) *kase {
	k := partitionsKase(n)
	k.witness += fmt.Sprintf(",first=%d", first)
	k.want, k.prefixOnly = refiter.FirstRestrictedGrowthStrings(n, first), true
	return k
}

// multisetCombinationsPrefixCase: Algorithm Q documents no order.
func multisetCombinationsPrefixCase(m []int, kk, first int, count *big.Int) *kase {
	k := multisetCombinationsCaseWith(m, kk, [][]int{})
	mm := cpInts(m)
	k.witness += fmt.Sprintf(",first=%d", first)
	k.want = nil
	k.prefixOnly, k.prefixCount = true, first
	k.member = func(a []int) string {
		if len(a) != kk {
			return fmt.Sprintf("%d elements instead of %d", len(a), kk)
		}
		cnt := make([]int, len(mm))
		for _, x := range a {
			if x < 0 || x >= len(mm) {
				return fmt.Sprintf("element %d outside 0..%d", x, len(mm)-1)
			}
			cnt[x]++
			if cnt[x] > mm[x] {
				return fmt.Sprintf("more than %d copies of %d", mm[x], x)
			}
		}
		return ""
	}
	k.sizeNote = "there are " + shortBig(count) + " such multisets"
	return k
}

// hugeMultiplicitiesCase: multiplicities far above k mean the same as k; the (small) family is drained.
func hugeMultiplicitiesCase(m []int, kk int) *kase {
	freqs := refiter.MultisetCombinationsFreq(minVec(m, kk), kk)
	want := make([][]int, len(freqs))
	for i, f := range freqs {
		want[i] = refiter.FreqToMultiset(f)
	}
	return multisetCombinationsCaseWith(m, kk, want)
}

// ---------------------------------------------------------------------------

func runHuge(c *engine.Ctx) {
	first := c.Pick(300, 1500)
	all := func(int) pred { return pred{name: "all", f: func([]int) bool { return true }} }

	// Product and its predicate-driven twin under the always-true predicate
	vecs := fixedHugeFactors()
	if c.Thorough() {
		vecs = append(vecs, wrappingFactors([]int{31, 32, 63, 64}, []int{1, 2, 3, 5}, 40, 1)...)
		vecs = append(vecs, wrappingFactors([]int{32, 64}, []int{1, 7}, first-1, 41)...)
	} else {
		vecs = append(vecs, wrappingFactors([]int{32, 64}, []int{1, 2}, 10, 1)...)
		vecs = append(vecs, wrappingFactors([]int{31, 63}, []int{1, 3}, 3, 1)...)
		vecs = append(vecs, wrappingFactors([]int{64}, []int{1}, first-1, 97)...)
	}
	blocks(len(vecs), 40, func(lo, hi int) {
		c.Unit(fmt.Sprintf("huge/Product+RestrictedPrefixProduct/first tuples/vectors %d-%d", lo, hi-1), func() {
			r := newRunner(c)
			for _, d := range vecs[lo:hi] {
				card := bigProduct(d)
				if card.Cmp(big.NewInt(int64(first))) <= 0 {
					c.Inconclusive(fmt.Sprintf("factor vector %v generated for the huge-product workload has only %s elements", d, card))
					continue
				}
				r.run(productPrefixCase(d, first))
				noteSize(c, "Product", card, first)
				k, prefix := restrictedProductBigCase(d, all(0), first)
				r.run(k)
				if prefix {
					noteSize(c, "RestrictedPrefixProduct", card, first)
				}
			}
		})
	})
	c.Unit("huge/Product+RestrictedPrefixProduct/empty factor next to huge ones", func() {
		r := newRunner(c)
		for _, d := range [][]int{{1 << 32, 1 << 32, 0}, {0, 1 << 32, 1 << 32}, {1 << 32, 0, 1 << 32}, withEntries(repeatVec(2, 64), 63, 0), withEntries(repeatVec(2, 65), 0, 0),
			withEntries(repeatVec(2, 80), 40, 0), {math.MaxInt64, 0}, {1 << 62, 4, 0, 3}} {
			k := productPrefixCase(d, 0)
			k.witness = "factors=" + vecName(d)
			k.prefixOnly, k.prefixCount, k.member, k.likely = false, 0, nil, nil
			r.run(k)
			kr := restrictedProductKase(d, all(0))
			kr.mon.limit = 1 << 20
			r.run(kr)
			c.Obs("empty_products_with_huge_factors", 2)
		}
	})
	// many small factors, predicates that keep few tuples (drained) or still very many (first tuples)
	for _, spec := range [][2]int{{2, 64}, {2, 100}, {3, 41}, {3, 70}, {4, 32}, {10, 20}} {
		size, count := spec[0], spec[1]
		c.Unit(fmt.Sprintf("huge/RestrictedPrefixProduct/%d factors of size %d", count, size), func() {
			r := newRunner(c)
			d := repeatVec(size, count)
			preds := []pred{
				{name: "sum-at-most-2", f: func(p []int) bool { return sumOf(p) <= 2 }},
				{name: "last-not-0", f: func(p []int) bool { return len(p) == 0 || p[len(p)-1] != 0 }},
				{name: "at-most-one-nonzero-after-position-60", f: func(p []int) bool {
					nz := 0
					for _, v := range p {
						if v != 0 {
							nz++
						}
					}
					return len(p) <= 60 && nz == 0 || len(p) > 60 && nz <= 1
				}},
				{name: "none", f: func(p []int) bool { return len(p) == 0 }},
				fixedPreds(count)[4], fixedPreds(count)[5],
			}
			for i := 0; i < c.Pick(3, 10); i++ {
				rg := c.Rand("huge-factors", size*1000+count*10+i)
				pr := [][2]int{{3, 4}, {7, 8}, {15, 16}}[i%3]
				preds = append(preds, hashPred(rg.U64()&0xffffffffff, pr[0], pr[1], 0xffff))
			}
			for _, p := range preds {
				k, prefix := restrictedProductBigCase(d, p, first)
				r.run(k)
				if prefix {
					c.Obs("huge_family_prefix_cases:RestrictedPrefixProduct", 1)
				} else {
					c.Obs("huge_products_restricted_to_a_small_family_and_drained", 1)
				}
			}
		})
	}

	// Combinations / CombinationsColex with a huge ground set
	c.Unit("huge/Combinations+Colex/huge n", func() {
		r := newRunner(c)
		for _, n := range []int{1<<31 - 1, 1 << 31, 1 << 32, 1<<32 + 1, 1 << 62, math.MaxInt64 - 1, math.MaxInt64} {
			for _, kk := range []int{1, 2, 3, 8} {
				r.run(combinationsPrefixCase(n, kk, first))
				noteSize(c, "Combinations", bigBinomial(n, kk), first)
				m := kk + 3
				for refiter.Binomial(m+1, kk) <= first {
					m++
				}
				r.run(colexPrefixCase(n, kk, m))
				noteSize(c, "CombinationsColex", bigBinomial(n, kk), first)
			}
		}
		// moderate n, k in the middle: the cardinality passes 2^32, 2^63 and 2^64
		for _, nk := range [][2]int{{34, 17}, {35, 17}, {66, 33}, {67, 33}, {68, 34}, {70, 35}, {100, 50}, {64, 32}, {65, 32}} {
			r.run(combinationsPrefixCase(nk[0], nk[1], first))
			noteSize(c, "Combinations", bigBinomial(nk[0], nk[1]), first)
			r.run(colexPrefixCase(nk[0], nk[1], nk[1]+2))
			noteSize(c, "CombinationsColex", bigBinomial(nk[0], nk[1]), first)
		}
	})

	// permutations of 21 and more elements: 21! > 2^64, 34! is a multiple of 2^32, 66! of 2^64
	for _, n := range []int{13, 20, 21, 25, 34, 66, 130} {
		n := n
		c.Unit(fmt.Sprintf("huge/n=%d/permutation iterators/first objects", n), func() {
			r := newRunner(c)
			card := bigFactorial(n)
			r.run(permutationsPrefixCase(n, first))
			noteSize(c, "Permutations", card, first)
			r.run(lexPermutationsPrefixCase(n, first))
			noteSize(c, "LexicographicPermutations", card, first)
			r.run(patternPrefixCase(n, first))
			noteSize(c, "PermutationsByPattern", card, first)
			fr := fixedRelations(n)
			for _, rel := range []relation{fr[0], fr[6], fr[3]} {
				r.run(topologicalPrefixCase(n, rel, first))
				noteSize(c, "TopologicalSorts", card, first)
			}
			// (predicates under which a pruned search ends quickly: everything, small windows, seeded hash predicates
			// that accept 7 of 8 prefixes; "no 0 anywhere" would leave an empty family behind (n-1)! dead ends)
			preds := []pred{fixedPreds(n)[0], oneSwapPred(), rotationPred(n), windowPred(n, n-5, 5, false), windowPred(n, 3, 4, true)}
			for i := 0; i < c.Pick(2, 6); i++ {
				rg := c.Rand("huge-perm-preds", n*100+i)
				preds = append(preds, hashPred(rg.U64()&0xffffffffff, 7, 8, 0xffff))
			}
			for _, p := range preds {
				k, prefix := restrictedPermutationsBigCase(n, p, first)
				r.run(k)
				if prefix {
					noteSize(c, "RestrictedPrefixPermutations", card, first)
				}
			}
		})
	}

	// MultisetPermutations: multinomials beyond 2^64
	c.Unit("huge/MultisetPermutations/first objects", func() {
		r := newRunner(c)
		freqs := [][]int{repeatVec(1, 21), repeatVec(1, 34), repeatVec(1, 66), repeatVec(1, 70), repeatVec(2, 11), repeatVec(2, 20), {30, 30, 30}, {33, 34}, {34, 34}, {64, 64}, {40, 0, 40}, {1, 1, 64, 1, 1}, {16, 16, 16, 16},
			withEntries(repeatVec(0, 70), 0, 20, 64, 20, 69, 30)}
		for _, f := range freqs {
			r.run(multisetPermutationsPrefixCase(f, first))
			noteSize(c, "MultisetPermutations", bigMultinomial(f), first)
		}
	})

	// Partitions: Bell(26) > 2^64; IntegerPartitions: p(416) > 2^64 > p(415)
	c.Unit("huge/Partitions+IntegerPartitions/first objects", func() {
		r := newRunner(c)
		for _, n := range []int{16, 23, 25, 26, 27, 30, 50, 66, 100} {
			r.run(partitionsPrefixCase(n, first))
			noteSize(c, "Partitions", bigBell(n), first)
		}
		for _, n := range []int{130, 300, 405, 415, 416, 417, 450, 1000, 3000} {
			r.run(integerPartitionsPrefixCase(n, first))
			noteSize(c, "IntegerPartitions", bigPartitionNumber(n), first)
		}
	})

	// MultisetCombinations: astronomically many multisets (first objects), and astronomically large multiplicities (drained)
	c.Unit("huge/MultisetCombinations", func() {
		r := newRunner(c)
		type mk struct {
			m []int
			k int
		}
		const big62 = 1 << 62
		for _, x := range []mk{{repeatVec(1, 70), 35}, {repeatVec(10, 40), 200}, {repeatVec(3, 70), 100}, {repeatVec(big62, 64), 50}, {repeatVec(math.MaxInt64, 30), 40},
			{withEntries(repeatVec(2, 80), 0, 0, 64, 0, 79, big62), 60}, {repeatVec(2, 66), 66}} {
			count := bigMultisetCount(minVec(x.m, x.k), x.k)
			if count.Cmp(big.NewInt(int64(first))) <= 0 {
				c.Inconclusive(fmt.Sprintf("MultisetCombinations(%s,%d) of the huge workload has only %s multisets", vecName(x.m), x.k, count))
				continue
			}
			r.run(multisetCombinationsPrefixCase(x.m, x.k, first, count))
			noteSize(c, "MultisetCombinations", count, first)
		}
		ms := [][]int{{big62, big62, 5}, {math.MaxInt64, math.MaxInt64}, {math.MaxInt64, 0, math.MaxInt64, 1}, {1 << 32, 1<<32 + 1, 3}, {1, 1 << 31, 2, 1 << 33}, {big62, big62, big62, big62}}
		for _, m := range ms {
			for kk := 0; kk <= 5; kk++ {
				r.run(hugeMultiplicitiesCase(m, kk))
				c.Obs("huge_multiplicities_small_size_cases(drained)", 1)
			}
		}
		// ... and one slice of huge multiplicities for all sizes (see session.go)
		for mi, mode := range sessionModes {
			m := ms[mi]
			var ks []*kase
			order := []int{0, 1, 2, 3, 4, 5, 2}
			for _, kk := range order {
				ks = append(ks, hugeMultiplicitiesCase(m, kk))
			}
			r.runSession(&session{name: fmt.Sprintf("one slice m=%s for k=%s (increasing)", vecName(m), ksName(order)), arg: m, ks: ks, mode: mode})
		}
	})

	c.Unit("huge-workloads", func() {
		fixed := len(fixedHugeFactors())
		c.Obs(fmt.Sprintf("exhaustive:first %d objects of families too large to exhaust, for every constructor: %d fixed factor vectors (2^62..2^200, 2^31 x 2^31 .. MaxInt x MaxInt) and %d with cardinality m*2^e+w (w small); "+
			"Combinations/Colex n in {2^31-1,..,MaxInt}; all permutation iterators n in {13,20,21,25,34,66,130}; Partitions n <= 100; IntegerPartitions n <= 3000; MultisetPermutations / MultisetCombinations with more than 2^64 objects", first, fixed, len(vecs)-fixed), 1)
	})
}

// minVec caps every entry at k.
func minVec(m []int, k int) []int {
	out := cpInts(m)
	for i := range out {
		if out[i] > k {
			out[i] = k
		}
	}
	return out
}

// Package c09 monitors the clique / colouring / degeneracy invariants of the
// graph package against brute-force references, validating every witness from
// the definition, on every labelling and representation (DESIGN.md section 4,
// C09).
package c09

import (
	"fmt"
	"hash/fnv"

	"verif/internal/engine"
	"verif/internal/gen"
	"verif/internal/oracle/rg"
)

func init() {
	engine.Register(&engine.Property{
		ID:    "C09",
		Level: "exploration",
		Rule: "every isomorphism class on n<=7 vertices (n<=8 thorough; harness-generated, Polya-checked) x relabellings (identity, reversal, seeded permutations) x representations " +
			"{dense, sparse, InducedSubgraph view of a larger dense/sparse graph, Complement view of the complement graph, Complement(Complement(.))}; named families with published values; seeded G(n,p), trees and regular graphs on 9..13 vertices. " +
			"Further representations of the argument graph: every one of these cases is also presented through a seeded VIEW OF A VIEW [rep:nested] - a chain of two or three view constructors planned backwards from the graph of the case and replayed on the reference graph: induced of induced with unsorted (now and then sorted) inner and outer lists, each level a full relabelling or a proper subset of a larger graph with junk vertices " +
			"[nested:induced_of_induced,inner_list_unsorted,outer_proper_subset / ...,outer_full_relabelling], complement of induced, induced of complement, three levels [nested:three_levels], over a dense / sparse base that is plain or a variant, a pointer or a struct value (thorough: two chains of different depth) - " +
			"and every second case (thorough: every case) through one of: rg.DenseVariant / rg.SparseVariant (edge bytes in 1..255, spare capacity filled with garbage; ChromaticPolynomial too) [rep:dense-variant, rep:sparse-variant], a graph.DenseGraph / graph.SparseGraph struct VALUE instead of a pointer [rep:dense-value, rep:sparse-value], " +
			"a caller-implemented Graph (a type unknown to the library over rg.UserGraph; Neighbours hands out the stored adjacency lists, which are compared with the model afterwards; Degrees hands out a copy as every library implementation does - the library's own Complement(g).Degrees() writes into the slice it gets from g.Degrees()) [rep:user, user:stored_lists_compared_afterwards]. On a further representation the quick tier asks IsKColorable at chi-1, chi, chi+1 and GreedyColor on four orders (all n! where the case has them); everything else as on the five. " +
			"The expected values of a value built by the library's view constructors (or of a variant of the struct contents) are those of the model of the graph it stands for by the documentation of its constructor, whatever its observers say (a difference is put into the detail and counted in rep_reads_unlike_model:*). " +
			"Per (graph, representation): CliqueNumber, IndependenceNumber, AllMaximalCliques (channel drained for at most |expected|+1 values, must be closed), ChromaticNumber, IsKColorable for every k in 0..n+1, ChromaticIndex, Degeneracy, " +
			"GreedyColor (all n! orders for n<=5 (n<=6 thorough) on the first labelling; identity, reversal, smallest-last and seeded orders otherwise), IsProperColouring, ChromaticPolynomial at k=0..n+1 (dense and sparse). " +
			"Large structured graphs with closed-form values (K_n, E_n, paths, cycles and their complements, stars, K_{a,b}, Turan and other complete multipartite graphs, unions of cliques, wheels, ladders, prisms, cocktail party graphs, hypercubes Q5..Q7, the Mycielski chain to M6) at n in {31,32,33,63,64,65,66,100,127,128,129,130,200}, identity and a seeded relabelling, dense and sparse: all functions whose cost is polynomial for a correct implementation on that family (skips are counted in large:*_skipped), IsKColorable at chi-1, chi, chi+1, maximal cliques against the closed-form list; the seeded relabelling of the graphs on n <= 130 vertices with at most 45000 maximal cliques gets one further representation as well (a view of a view for n <= 66) [large:graphs_in_further_representations]. " +
			"non-trivial = (labelled graph, representation) with n >= 4 and m >= 2; distinct = hash of (graph6 of the labelled graph, representation)",
		Assumptions: []string{
			"oracle: subset scans / subset DP / plain backtracking of verif/internal/oracle/brute and of this package (edge-colouring search, partitions into independent sets, degeneracy as max-min-degree over induced subgraphs); validated at build time against the published chi and chi' histograms for n<=6, |P(Petersen,3)|=120 and a table of named graphs",
			"isomorphism invariance of the reference values is a theorem: they are computed once per class and witnesses are checked on the labelled graph",
			"rg.G.Dense()/Sparse() fill the exported struct fields of the library types directly (no constructor under test); a plainly filled struct (and the caller-implemented graph) whose observers (N, IsEdge off the diagonal) disagree with the model is not judged here (C05/C06): INCONCLUSIVE",
			"graph.InducedSubgraph(g, V) is documented as 'the subgraph of g induced by the vertices in V in the order they are in V' and graph.Complement(g) as the complement: a chain of them over a harness-filled base stands for the graph obtained by replaying the chain on the reference graph (checked to be the graph of the case before use), and the invariants of that value are judged against that model",
			"rg.DenseVariant / rg.SparseVariant are contents that the library's own constructor and observers read as the same graph (any edge byte > 0 is an edge; spare capacity is not part of the value); a DenseGraph / SparseGraph value has all observers of the Graph interface (value receivers)",
			"a function that takes a graph.Graph ('a graph which cannot be copied or edited') does not write into the adjacency lists that a caller-implemented Graph hands out from Neighbours; the result of Degrees belongs to the caller (the library's own Complement(g).Degrees() overwrites the slice it gets from g.Degrees()), so the caller-implemented graph hands out a copy of its degrees",
			"families too large for brute force use the published value; the witness is still checked from the definition",
			"closed forms of the large structured families are textbook values, validated against brute force on the same constructors at n <= 12 (self-check), including the Perrin count of maximal cliques of the complement of a cycle",
		},
		Run:            run,
		MinEvaluations: map[string]int{"quick": 1000000, "thorough": 8000000},
		MinNontrivial:  map[string]int{"quick": 30000, "thorough": 200000},
		RequiredObs: []string{
			"rep:dense", "rep:sparse", "rep:view", "rep:compl", "rep:compl2",
			"rep:nested", "nested:induced_of_induced", "nested:induced_of_induced,inner_list_unsorted,outer_proper_subset", "nested:induced_of_induced,inner_list_unsorted,outer_full_relabelling", "nested:induced_of_induced,inner_list_sorted",
			"nested:complement_of_induced", "nested:induced_of_complement", "nested:three_levels",
			"rep:dense-variant", "rep:sparse-variant", "rep:dense-value", "rep:sparse-value", "rep:user", "user:stored_lists_compared_afterwards",
			"calls:ChromaticPolynomial|dense-variant", "calls:ChromaticPolynomial|sparse-variant", "large:graphs_in_further_representations",
			"calls:CliqueNumber", "calls:IndependenceNumber", "calls:AllMaximalCliques", "calls:ChromaticNumber", "calls:IsKColorable",
			"calls:ChromaticIndex", "calls:ChromaticPolynomial|dense", "calls:ChromaticPolynomial|sparse", "calls:GreedyColor", "calls:Degeneracy", "calls:IsProperColouring",
			"IsKColorable:k<chi(refused)", "IsKColorable:k>=chi(witness)", "chi_index:class2(Delta+1)", "chi_index:class1(Delta)", "greedy:all_orders_sets", "cliques:graphs_with_>=4_maximal_cliques",
			"chi>omega", "edge_colouring_witness_checked", "large:graphs", "large:n=64", "large:n=128", "large:n=200",
		},
	})
}

// fixedRng is the PRNG of the fixed (seed-independent) part of the workload.
func fixedRng(name string, idx int) *engine.Rng {
	h := fnv.New64a()
	h.Write([]byte(name))
	return engine.NewRng(0xC09C09 ^ h.Sum64() ^ (uint64(idx)+1)*0xBF58476D1CE4E5B9)
}

func identity(n int) []int {
	p := make([]int, n)
	for i := range p {
		p[i] = i
	}
	return p
}

func reversal(n int) []int {
	p := make([]int, n)
	for i := range p {
		p[i] = n - 1 - i
	}
	return p
}

// labellings returns the relabellings applied to a class representative:
// identity and reversal (fixed), then seeded permutations.
func labellings(c *engine.Ctx, n, count int, stream string, idx int) [][]int {
	ps := [][]int{identity(n)}
	if count > 1 {
		ps = append(ps, reversal(n))
	}
	for k := 2; k < count; k++ {
		ps = append(ps, c.Rand(stream, idx*16+k).Perm(n))
	}
	return ps
}

func run(c *engine.Ctx) {
	// Order of the units = order of the report: small sizes first, and the
	// two kinds of sweeps interleaved so that the first witnesses of either are
	// among the first units.
	maxN := c.Pick(7, 8)
	for n := 0; n <= 5; n++ {
		classUnits(c, n)
	}
	for n := 0; n <= 6; n++ {
		polySparseUnits(c, n)
	}
	classUnits(c, 6)
	polySparseUnits(c, 7)
	classUnits(c, 7)
	if maxN >= 8 {
		polySparseUnits(c, 8)
		classUnits(c, 8)
	}
	familyUnits(c)
	bigUnits(c)
	seededUnits(c)
}

// classUnits: every isomorphism class on n vertices x labellings x
// representations x all functions.
func classUnits(c *engine.Ctx, n int) {
	per := 1 << 20
	switch n {
	case 5:
		per = 17
	case 6:
		per = 20
	case 7:
		per = 18
	case 8:
		per = 26
	}
	nClasses := classCount(n)
	nLab := c.Pick(6, 8)
	if n == 8 {
		nLab = 4
	}
	if n <= 1 {
		nLab = 1
	}
	for lo := 0; lo < nClasses; lo += per {
		lo := lo
		hi := lo + per
		if hi > nClasses {
			hi = nClasses
		}
		c.Unit(fmt.Sprintf("classes/n=%d/%d-%d", n, lo, hi-1), func() {
			cls := gen.Classes(n)
			for ci := lo; ci < hi && !c.Stopped(); ci++ {
				base := cls[ci]
				r := computeRef(base, true, true)
				if !refComplete(c, base, r) {
					continue
				}
				for li, p := range labellings(c, n, nLab, "class-labelling", n*100000+ci) {
					cs := &graphCase{workload: "classes", class: base.G6(), labelling: li, perm: p, g: base.Induced(p), ref: r}
					opt := runOpts{index: true, polyDense: true, allOrders: n <= c.Pick(5, 6) && li == 0, seededOrders: 3, rng: caseRng(c, li < 2, "class", n*100000+ci, li), nested: c.Pick(1, 2), variants: halfInQuick(c, ci+li)}
					runCase(c, cs, opt)
				}
			}
			if lo == 0 {
				c.Obs(fmt.Sprintf("exhaustive:all %d classes on n=%d x %d labellings x 5 representations (+ a view of a view each)", nClasses, n, nLab), 1)
			}
		})
	}
}

// polySparseUnits: ChromaticPolynomial on *SparseGraph for every class on n
// vertices x 3 labellings.  These are units of their own: on a tree where
// SparseGraph.RemoveVertex does not maintain the degree sequence (C05) the call
// does not return, and a budget event costs the rest of its unit.
func polySparseUnits(c *engine.Ctx, n int) {
	nClasses := classCount(n)
	per := nClasses
	if n == 7 {
		per = 131
	}
	if n == 8 {
		per = 100
	}
	for lo := 0; lo < nClasses; lo += per {
		lo := lo
		hi := lo + per
		if hi > nClasses {
			hi = nClasses
		}
		c.Unit(fmt.Sprintf("poly-sparse/n=%d/%d-%d", n, lo, hi-1), func() {
			cls := gen.Classes(n)
			for ci := lo; ci < hi && !c.Stopped(); ci++ {
				base := cls[ci]
				r := computeRef(base, true, false)
				if r.colCount == nil {
					c.Inconclusive("no colouring counts for " + base.G6())
					continue
				}
				for li, p := range labellings(c, n, 3, "poly-labelling", n*100000+ci) {
					cs := &graphCase{workload: "poly-sparse", class: base.G6(), labelling: li, perm: p, g: base.Induced(p), ref: r}
					newJudge(c, cs, "sparse", "rg.Sparse()", nil).polynomial(cs.g.Sparse(), "sparse")
				}
			}
			if lo == 0 {
				c.Obs(fmt.Sprintf("exhaustive:ChromaticPolynomial(sparse) on all %d classes on n=%d x 3 labellings", nClasses, n), 1)
			}
		})
	}
}

// familyUnits: named graphs with published values.
func familyUnits(c *engine.Ctx) {
	for fi, f := range families() {
		fi, f := fi, f
		c.Unit("family/"+f.name, func() {
			withIndex := !f.heavyIndex && f.g.M() <= 32
			r := computeRef(f.g, f.g.N <= 9, withIndex)
			if !mergePublished(c, f, r) {
				return
			}
			n := f.g.N
			for li, p := range labellings(c, n, 3, "family-labelling", fi) {
				cs := &graphCase{workload: "family:" + f.name, class: f.g.G6(), labelling: li, perm: p, g: f.g.Induced(p), ref: r}
				opt := runOpts{index: withIndex, polyDense: n <= 9, seededOrders: 6, rng: caseRng(c, li < 2, "family", fi, li), nested: c.Pick(1, 2), variants: c.Pick(1, 2)}
				runCase(c, cs, opt)
			}
			if fi < 2 || f.name == "petersen" {
				c.Sample("family", map[string]interface{}{"name": f.name, "graph6": f.g.G6(), "omega": r.omega, "alpha": r.alpha, "chi": r.chi, "chi_index": r.chiIdx, "degeneracy": r.degen})
			}
		})
	}
	c.Unit("poly-sparse/families", func() {
		for _, f := range families() {
			if f.g.N > 9 || c.Stopped() {
				continue
			}
			r := computeRef(f.g, true, false)
			for li, p := range labellings(c, f.g.N, 2, "family-poly-labelling", 0) {
				cs := &graphCase{workload: "poly-sparse", class: f.g.G6(), labelling: li, perm: p, g: f.g.Induced(p), ref: r}
				newJudge(c, cs, "sparse", "rg.Sparse()", nil).polynomial(cs.g.Sparse(), "sparse")
			}
		}
	})
}

// seededUnits: seeded graphs on 9..13 vertices (and small ones), every
// representation; the sparse polynomial again in units of its own.
func seededUnits(c *engine.Ctx) {
	nSeeded := c.Pick(1600, 12000)
	perUnit := 12
	for u := 0; u*perUnit < nSeeded; u++ {
		u := u
		c.Unit(fmt.Sprintf("seeded/%d", u), func() {
			for i := u * perUnit; i < (u+1)*perUnit && i < nSeeded && !c.Stopped(); i++ {
				g, what := seededGraph(c.Rand("seeded-graph", i), i)
				r := computeRef(g, g.N <= 9, g.M() <= 18)
				if !refComplete(c, g, r) {
					continue
				}
				cs := &graphCase{workload: "seeded:" + what, class: g.G6(), labelling: 0, perm: identity(g.N), g: g, ref: r}
				opt := runOpts{index: g.M() <= 18, polyDense: g.N <= 9, seededOrders: 6, rng: c.Rand("seeded-case", i), nested: c.Pick(1, 2), variants: halfInQuick(c, i)}
				runCase(c, cs, opt)
				if i < 2 {
					c.Sample("seeded", map[string]interface{}{"kind": what, "graph6": g.G6(), "n": g.N, "m": g.M(), "omega": r.omega, "chi": r.chi, "chi_index": r.chiIdx, "degeneracy": r.degen})
				}
			}
		})
	}
	for u := 0; u*perUnit*10 < nSeeded; u++ {
		u := u
		c.Unit(fmt.Sprintf("poly-sparse/seeded/%d", u), func() {
			for i := u * perUnit * 10; i < (u+1)*perUnit*10 && i < nSeeded && !c.Stopped(); i++ {
				g, what := seededGraph(c.Rand("seeded-graph", i), i)
				if g.N > 9 {
					continue
				}
				r := computeRef(g, true, false)
				cs := &graphCase{workload: "poly-sparse:" + what, class: g.G6(), labelling: 0, perm: identity(g.N), g: g, ref: r}
				newJudge(c, cs, "sparse", "rg.Sparse()", nil).polynomial(cs.g.Sparse(), "sparse")
			}
		})
	}
}

// halfInQuick: one further representation variant for every second case of
// the quick tier and for every case of the thorough tier (every case gets a
// view of a view).
func halfInQuick(c *engine.Ctx, i int) int {
	if c.Thorough() || i%2 == 0 {
		return 1
	}
	return 0
}

func classCount(n int) int {
	return []int{1, 1, 2, 4, 11, 34, 156, 1044, 12346}[n]
}

func caseRng(c *engine.Ctx, fixed bool, stream string, idx, li int) *engine.Rng {
	if fixed {
		return fixedRng(stream, idx*16+li)
	}
	return c.Rand(stream+"-case", idx*16+li)
}

// seededGraph draws the i-th seeded graph: G(n,p) over a density grid,
// random trees (+ a few extra edges), random regular graphs, disjoint unions.
func seededGraph(r *engine.Rng, i int) (*rg.G, string) {
	n := 9 + r.Intn(5)
	switch i % 8 {
	case 0, 1, 2, 3:
		p := []float64{0.1, 0.2, 0.3, 0.4, 0.5, 0.6, 0.7, 0.8, 0.9}[r.Intn(9)]
		return gen.Random(r, n, p), fmt.Sprintf("G(%d,%.1f)", n, p)
	case 4:
		g := gen.RandomTree(r, n)
		for k := r.Intn(4); k > 0; k-- {
			g.Add(r.Intn(n), r.Intn(n))
		}
		return g, "tree+few"
	case 5:
		d := 2 + r.Intn(4)
		if n*d%2 == 1 {
			n++
		}
		if g := gen.RandomRegular(r, n, d); g != nil {
			return g, fmt.Sprintf("regular(%d,%d)", n, d)
		}
		return gen.Random(r, n, 0.5), "G(n,0.5)"
	case 6:
		a := 3 + r.Intn(4)
		b := 3 + r.Intn(4)
		g := rg.Union(gen.Random(r, a, 0.6), gen.Random(r, b, 0.6))
		if r.Bool(0.5) {
			g = rg.Union(g, rg.New(1+r.Intn(2)))
		}
		return g.Induced(r.Perm(g.N)), "disjoint-union"
	default:
		// small n with many labelled variants: 4..8 vertices
		n = 4 + r.Intn(5)
		return gen.Random(r, n, 0.2+0.6*r.Float()), "G(small,p)"
	}
}

// refComplete reports whether every reference value is available (graphs of
// the sweeps are small enough that they always are).
func refComplete(c *engine.Ctx, g *rg.G, r *ref) bool {
	if r.omega < 0 || r.alpha < 0 || r.chi < 0 || r.degen < 0 || r.nCliques < 0 {
		c.Inconclusive("reference values unavailable for " + g.G6())
		return false
	}
	return true
}

// mergePublished combines the published values of a family with the brute
// force ones: they must agree where both exist (else the oracle is broken:
// inconclusive, never a violation).
func mergePublished(c *engine.Ctx, f famCase, r *ref) bool {
	ok := true
	merge := func(what string, pub int, got *int) {
		if pub >= 0 && *got >= 0 && pub != *got {
			c.Inconclusive(fmt.Sprintf("family %s: published %s=%d but brute force says %d", f.name, what, pub, *got))
			ok = false
		}
		if *got < 0 {
			*got = pub
		}
	}
	merge("omega", f.omega, &r.omega)
	merge("alpha", f.alpha, &r.alpha)
	merge("chi", f.chi, &r.chi)
	merge("chi'", f.chiIdx, &r.chiIdx)
	merge("degeneracy", f.degen, &r.degen)
	return ok
}

// Demonstration for green change C10/7 (graph.InducedSubgraph, the read-only view, keeps a private copy of the
// vertex list V instead of aliasing the caller's slice).
//
// Run (from the repository root, clean tree or patched tree):
//
//	cp /tmp/green-out/C10/7/demo_test.go graph/zz_green_c10_7_demo_test.go
//	export GOFLAGS=-mod=mod GOPROXY=off GOSUMDB=off GOTOOLCHAIN=local
//	go test -vet=off -count=1 -timeout 300s -v -run 'TestGreenC10_7' ./graph/
//	rm graph/zz_green_c10_7_demo_test.go
//
// TestGreenC10_7_Property checks the property itself on the representation that is touched: for random graphs g and
// random vertex lists V (any order, also V living inside a larger caller-owned buffer, also views of views) the
// distance / connectivity / cycle invariants of the view InducedSubgraph(g, V) equal the definitions (Floyd-Warshall,
// union-find, brute force girth) and equal the values of the dense deep copy g.InducedSubgraph(V); the caller's
// buffer is never written.  Passes on BOTH trees.
// TestGreenC10_7_Incidental asserts the OLD aliasing: a view made from V and asked AFTER the caller has overwritten
// V[0] answers IsEdge with the new V[0] (while N / Neighbours still use the sorted copy made at construction, so the
// old view is in fact inconsistent with itself).  Passes on the CLEAN tree, FAILS with the patch (the view keeps
// describing the vertex list it was built from).
package graph_test

import (
	"math/rand"
	"reflect"
	"sort"
	"testing"

	"github.com/Tom-Johnston/mamba/graph"
)

const c107Inf = 1 << 30

func c107Dist(g graph.Graph) [][]int {
	n := g.N()
	d := make([][]int, n)
	for i := range d {
		d[i] = make([]int, n)
		for j := range d[i] {
			if i == j {
				d[i][j] = 0
			} else if g.IsEdge(i, j) {
				d[i][j] = 1
			} else {
				d[i][j] = c107Inf
			}
		}
	}
	for k := 0; k < n; k++ {
		for i := 0; i < n; i++ {
			for j := 0; j < n; j++ {
				if d[i][k]+d[k][j] < d[i][j] {
					d[i][j] = d[i][k] + d[k][j]
				}
			}
		}
	}
	return d
}

// girth by the definition: the shortest cycle through an edge uv is 1 + dist(u,v) in g-uv.
func c107Girth(g graph.Graph) int {
	n := g.N()
	best := c107Inf
	for u := 0; u < n; u++ {
		for v := 0; v < u; v++ {
			if !g.IsEdge(u, v) {
				continue
			}
			// BFS from u to v avoiding the edge uv
			dist := make([]int, n)
			for i := range dist {
				dist[i] = -1
			}
			dist[u] = 0
			q := []int{u}
			for len(q) > 0 {
				x := q[0]
				q = q[1:]
				for y := 0; y < n; y++ {
					if y == x || !g.IsEdge(x, y) || dist[y] != -1 {
						continue
					}
					if (x == u && y == v) || (x == v && y == u) {
						continue
					}
					dist[y] = dist[x] + 1
					q = append(q, y)
				}
			}
			if dist[v] != -1 && dist[v]+1 < best {
				best = dist[v] + 1
			}
		}
	}
	if best == c107Inf {
		return -1
	}
	return best
}

func c107SortLists(a [][]int) [][]int {
	b := make([][]int, len(a))
	for i := range a {
		b[i] = append([]int{}, a[i]...)
	}
	sort.Slice(b, func(i, j int) bool {
		for k := 0; k < len(b[i]) && k < len(b[j]); k++ {
			if b[i][k] != b[j][k] {
				return b[i][k] < b[j][k]
			}
		}
		return len(b[i]) < len(b[j])
	})
	return b
}

func c107SortedCopy(a []int) []int {
	b := append([]int{}, a...)
	sort.Ints(b)
	return b
}

func c107Check(t *testing.T, name string, h graph.Graph, ref graph.EditableGraph) {
	n := ref.N()
	if h.N() != n || h.M() != ref.M() {
		t.Fatalf("%s: N/M differ", name)
	}
	d := c107Dist(ref)
	conn := true
	ecc := make([]int, n)
	for i := 0; i < n; i++ {
		for j := 0; j < n; j++ {
			want := d[i][j]
			if want == c107Inf {
				want = -1
				conn = false
			}
			if got := graph.Distance(h, i, j); got != want {
				t.Fatalf("%s: Distance(%d,%d)=%d want %d", name, i, j, got, want)
			}
			if d[i][j] > ecc[i] {
				ecc[i] = d[i][j]
			}
		}
	}
	wantDiam, wantRad := 0, 0
	if !conn {
		for i := range ecc {
			ecc[i] = -1
		}
		wantDiam, wantRad = -1, -1
	} else if n > 0 {
		wantRad = c107Inf
		for _, e := range ecc {
			if e > wantDiam {
				wantDiam = e
			}
			if e < wantRad {
				wantRad = e
			}
		}
	}
	if got := graph.Eccentricity(h); !reflect.DeepEqual(got, ecc) {
		t.Fatalf("%s: Eccentricity=%v want %v", name, got, ecc)
	}
	if got := graph.Diameter(h); got != wantDiam {
		t.Fatalf("%s: Diameter=%d want %d", name, got, wantDiam)
	}
	if got := graph.Radius(h); got != wantRad {
		t.Fatalf("%s: Radius=%d want %d", name, got, wantRad)
	}
	if got, want := graph.Girth(h), c107Girth(ref); got != want {
		t.Fatalf("%s: Girth=%d want %d", name, got, want)
	}
	// components by the definition (same component iff finite distance)
	var comps [][]int
	seen := make([]bool, n)
	for i := 0; i < n; i++ {
		if seen[i] {
			continue
		}
		var c []int
		for j := 0; j < n; j++ {
			if d[i][j] != c107Inf {
				c = append(c, j)
				seen[j] = true
			}
		}
		comps = append(comps, c)
		if got := graph.ConnectedComponent(h, i); !reflect.DeepEqual(got, c) {
			t.Fatalf("%s: ConnectedComponent(%d)=%v want %v", name, i, got, c)
		}
	}
	if got := c107SortLists(graph.ConnectedComponents(h)); !reflect.DeepEqual(got, c107SortLists(comps)) {
		t.Fatalf("%s: ConnectedComponents=%v want %v", name, got, comps)
	}
	// remaining invariants: view against the dense deep copy
	b1, a1 := graph.BiconnectedComponents(h)
	b2, a2 := graph.BiconnectedComponents(ref)
	if !reflect.DeepEqual(c107SortLists(b1), c107SortLists(b2)) || !reflect.DeepEqual(c107SortedCopy(a1), c107SortedCopy(a2)) {
		t.Fatalf("%s: BiconnectedComponents differ: %v %v / %v %v", name, b1, a1, b2, a2)
	}
	for _, k := range []int{-1, 0, 1, 2, 3, 4, n, n + 3} {
		if got, want := graph.NumberOfInducedPaths(h, k), graph.NumberOfInducedPaths(ref, k); !reflect.DeepEqual(got, want) {
			t.Fatalf("%s: NumberOfInducedPaths(%d)=%v want %v", name, k, got, want)
		}
		if got, want := graph.NumberOfInducedCycles(h, k), graph.NumberOfInducedCycles(ref, k); !reflect.DeepEqual(got, want) {
			t.Fatalf("%s: NumberOfInducedCycles(%d)=%v want %v", name, k, got, want)
		}
	}
	// the number of induced cycles of length 3 equals the number of cycles of length 3 (NumberOfCycles is
	// exponential, so only on small graphs).
	if n >= 3 && n <= 6 {
		if c, ic := graph.NumberOfCycles(ref), graph.NumberOfInducedCycles(h, -1); c[3] != ic[3] {
			t.Fatalf("%s: triangles %d vs %d", name, c[3], ic[3])
		}
	}
}

func TestGreenC10_7_Property(t *testing.T) {
	rng := rand.New(rand.NewSource(107))
	for iter := 0; iter < 400; iter++ {
		n := rng.Intn(10)
		p := []float64{0.15, 0.3, 0.5, 0.8}[rng.Intn(4)]
		g := graph.RandomGraph(n, p, int64(iter))
		k := 0
		if n > 0 {
			k = rng.Intn(n + 1)
		}
		perm := rng.Perm(n)
		// V lives inside a larger caller-owned buffer
		buf := make([]int, k+5)
		for i := range buf {
			buf[i] = -7
		}
		V := buf[2 : 2+k]
		copy(V, perm[:k])
		want := append([]int{}, buf...)
		h := graph.InducedSubgraph(g, V)
		ref := g.InducedSubgraph(V)
		c107Check(t, "view", h, ref)
		// view of a view
		if k > 0 {
			W := rng.Perm(k)[:rng.Intn(k+1)]
			c107Check(t, "view of view", graph.InducedSubgraph(h, W), ref.InducedSubgraph(W))
		}
		// several views built from the same g are independent
		h2 := graph.InducedSubgraph(g, perm)
		c107Check(t, "full relabelling", h2, g.InducedSubgraph(perm))
		c107Check(t, "view again", h, ref)
		if !reflect.DeepEqual(buf, want) {
			t.Fatalf("caller's buffer was written: %v want %v", buf, want)
		}
	}
}

func TestGreenC10_7_Incidental(t *testing.T) {
	// g: path 0-1-2 plus isolated vertex 3.
	g := graph.NewDense(4, nil)
	g.AddEdge(0, 1)
	g.AddEdge(1, 2)
	V := []int{0, 1, 2}
	h := graph.InducedSubgraph(g, V)
	if !h.IsEdge(0, 1) || graph.Distance(h, 0, 2) != 2 {
		t.Fatalf("view wrong before the caller touches V")
	}
	V[0] = 3 // the caller reuses its slice
	// OLD behaviour: IsEdge looks V up again, so position 0 is now the isolated vertex 3 ...
	if h.IsEdge(0, 1) {
		t.Errorf("IsEdge(0,1) is still true after V[0] was overwritten: the view no longer aliases the caller's V")
	}
	// ... while Neighbours(1) still uses the sorted copy taken at construction and reports position 0 as adjacent.
	if got := h.Neighbours(1); !reflect.DeepEqual(got, []int{0, 2}) {
		t.Errorf("Neighbours(1)=%v", got)
	}
	t.Logf("after V[0]=3: IsEdge(0,1)=%v Neighbours(1)=%v Distance(0,2)=%d", h.IsEdge(0, 1), h.Neighbours(1), graph.Distance(h, 0, 2))
}

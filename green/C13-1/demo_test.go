// Demonstration for C13 change 1 (Search result allocation).
//
// Copy to dawg/demo_test.go in the library and run:
//
//	GOFLAGS=-mod=mod GOPROXY=off GOSUMDB=off GOTOOLCHAIN=local \
//	  go test -vet=off -count=1 -timeout 600s -run 'TestDemoC13' -v ./dawg/
//
// TestDemoC13Property checks the property itself (exact matches, lexicographic order, ranks, repeatability,
// Dawg unchanged) and passes on the clean tree and with the change.
// TestDemoC13IncidentalOld asserts the OLD incidental behaviour (a search without matches returns nil slices):
// it passes on the clean tree and fails with the change.
package dawg_test

import (
	"bytes"
	"sort"
	"testing"

	"github.com/Tom-Johnston/mamba/dawg"
)

var demoWords = []string{"", "a", "ab", "abc", "b", "ba", "bab", "cab", "cat", "opts", "post", "pots", "spot", "stop", "tops", "z"}

func demoDawg(t *testing.T) (*dawg.Dawg, [][]byte) {
	ws := make([][]byte, len(demoWords))
	for i, w := range demoWords {
		ws[i] = []byte(w)
	}
	sort.Slice(ws, func(i, j int) bool { return bytes.Compare(ws[i], ws[j]) < 0 })
	d, err := dawg.New(ws)
	if err != nil {
		t.Fatal(err)
	}
	return d, ws
}

func matchPattern(w, pat []byte, blank byte) bool {
	if len(w) != len(pat) {
		return false
	}
	for i := range w {
		if pat[i] != blank && pat[i] != w[i] {
			return false
		}
	}
	return true
}

func matchAnagram(w, ana []byte, blank byte) bool {
	if len(w) != len(ana) {
		return false
	}
	var cnt [256]int
	blanks := 0
	for _, c := range ana {
		if c == blank {
			blanks++
		} else {
			cnt[c]++
		}
	}
	for _, c := range w {
		if cnt[c] > 0 {
			cnt[c]--
		} else {
			blanks--
		}
	}
	return blanks >= 0
}

func checkSearch(t *testing.T, name string, d *dawg.Dawg, ws [][]byte, accept func(w []byte) bool, mk func() []dawg.Searcher) {
	var wantW [][]byte
	var wantI []int
	for i, w := range ws {
		if accept(w) {
			wantW = append(wantW, w)
			wantI = append(wantI, i)
		}
	}
	srch := mk()
	for rep := 0; rep < 2; rep++ { //The same searchers are used twice: they must be back in their initial state.
		gotW, gotI := d.Search(srch...)
		if len(gotW) != len(wantW) || len(gotI) != len(wantI) {
			t.Fatalf("%s rep %d: got %q %v want %q %v", name, rep, gotW, gotI, wantW, wantI)
		}
		for i := range gotW {
			if !bytes.Equal(gotW[i], wantW[i]) || gotI[i] != wantI[i] {
				t.Fatalf("%s rep %d: got %q %v want %q %v", name, rep, gotW, gotI, wantW, wantI)
			}
		}
	}
}

func TestDemoC13Property(t *testing.T) {
	d, ws := demoDawg(t)
	before, err := d.GobEncode()
	if err != nil {
		t.Fatal(err)
	}
	patterns := []string{"", "?", "??", "???", "????", "?????", "a?", "?a?", "c??", "?o??", "p??s", "stop", "st?p", "xx", "q???", "??b"}
	for _, p := range patterns {
		p := []byte(p)
		checkSearch(t, "pattern "+string(p), d, ws, func(w []byte) bool { return matchPattern(w, p, '?') },
			func() []dawg.Searcher { return []dawg.Searcher{dawg.NewPatternSearcher(p, '?')} })
		checkSearch(t, "anagram "+string(p), d, ws, func(w []byte) bool { return matchAnagram(w, p, '?') },
			func() []dawg.Searcher { return []dawg.Searcher{dawg.NewAnagramSearcher(p, '?')} })
	}
	anagrams := []string{"opst", "tsop", "o?t?", "ab", "ba", "bab", "abb", "tac", "a?c", "qrs", "zz"}
	for _, a := range anagrams {
		a := []byte(a)
		checkSearch(t, "anagram "+string(a), d, ws, func(w []byte) bool { return matchAnagram(w, a, '?') },
			func() []dawg.Searcher { return []dawg.Searcher{dawg.NewAnagramSearcher(a, '?')} })
		for _, p := range patterns {
			p := []byte(p)
			checkSearch(t, "both "+string(a)+" "+string(p), d, ws,
				func(w []byte) bool { return matchAnagram(w, a, '?') && matchPattern(w, p, '?') },
				func() []dawg.Searcher {
					return []dawg.Searcher{dawg.NewAnagramSearcher(a, '?'), dawg.NewPatternSearcher(p, '?')}
				})
		}
	}
	//No searcher at all: every word.
	checkSearch(t, "all", d, ws, func(w []byte) bool { return true }, func() []dawg.Searcher { return nil })

	//The returned words belong to the caller: overwriting and appending to one must not disturb the others or the Dawg.
	gotW, _ := d.Search(dawg.NewPatternSearcher([]byte("????"), '?'))
	for i := range gotW {
		for j := range gotW[i] {
			gotW[i][j] = '#'
		}
		gotW[i] = append(gotW[i], "!!!!!!!!"...)
	}
	checkSearch(t, "after overwrite", d, ws, func(w []byte) bool { return len(w) == 4 },
		func() []dawg.Searcher { return []dawg.Searcher{dawg.NewPatternSearcher([]byte("????"), '?')} })

	after, err := d.GobEncode()
	if err != nil {
		t.Fatal(err)
	}
	if !bytes.Equal(before, after) {
		t.Fatal("the Dawg changed")
	}
}

func TestDemoC13IncidentalOld(t *testing.T) {
	d, _ := demoDawg(t)
	solns, ids := d.Search(dawg.NewPatternSearcher([]byte("q???"), '?'))
	if len(solns) != 0 || len(ids) != 0 {
		t.Fatalf("property broken: %q %v", solns, ids)
	}
	if solns != nil || ids != nil {
		t.Fatalf("OLD incidental behaviour gone: a search without matches used to return nil slices, now solns==nil is %v and ids==nil is %v",
			solns == nil, ids == nil)
	}
	t.Log("a search without matches returns nil, nil (old behaviour)")
}

// Demonstration for change 3 (Add has a fast path for a single argument; adding an element that is already present
// leaves the receiver exactly as it is instead of copying it into a new slice).
//
// Run from the repository root:
//
//	cp demo_test.go sortints/demo_test.go
//	GOFLAGS=-mod=mod GOPROXY=off GOSUMDB=off GOTOOLCHAIN=local go test -vet=off -count=1 -timeout 120s -run 'TestDemo' -v ./sortints/
//
// TestDemoProperty checks the property itself on Add/Remove/Union sequences against a map model (single arguments,
// argument lists with repeats and elements already present, receivers with and without spare capacity, argument slices
// untouched, nothing outside the receiver written).  It passes on the clean tree and with the change.
// TestDemoIncidentalNoOpAddCopies asserts the OLD incidental behaviour (after s.Add(v) with v already in s the
// receiver has been moved to a freshly allocated slice with cap == len): it passes on the clean tree and FAILS with
// the change, where the receiver keeps its storage and its capacity.
package sortints_test

import (
	"math/rand"
	"sort"
	"testing"

	"github.com/Tom-Johnston/mamba/sortints"
)

const sentinel = -987654321

func modelSlice(m map[int]bool) []int {
	r := make([]int, 0, len(m))
	for k := range m {
		r = append(r, k)
	}
	sort.Ints(r)
	return r
}

func sameInts(a, b []int) bool {
	if len(a) != len(b) {
		return false
	}
	for i := range a {
		if a[i] != b[i] {
			return false
		}
	}
	return true
}

// withSpare returns a SortedInts with the given contents whose backing array has extra room filled with sentinels,
// together with the full backing array.
func withSpare(contents []int, extra int) (sortints.SortedInts, []int) {
	base := make([]int, len(contents)+extra)
	copy(base, contents)
	for i := len(contents); i < len(base); i++ {
		base[i] = sentinel
	}
	return sortints.SortedInts(base[:len(contents)]), base
}

func TestDemoProperty(t *testing.T) {
	rng := rand.New(rand.NewSource(17))
	for iter := 0; iter < 3000; iter++ {
		model := map[int]bool{}
		for i, n := 0, rng.Intn(8); i < n; i++ {
			model[rng.Intn(21)-10] = true
		}
		s, _ := withSpare(modelSlice(model), rng.Intn(3)*rng.Intn(6))
		for step := 0; step < 12; step++ {
			//What the receiver's storage looks like before the call: a single Add must never write to it when the
			//element is present, and no mutator may write beyond what it owns.
			switch rng.Intn(4) {
			case 0, 1: //Add with one argument
				v := rng.Intn(21) - 10
				before := append([]int(nil), s[:cap(s)]...)
				present := model[v]
				old := s
				s.Add(v)
				model[v] = true
				if present && !sameInts(old[:cap(old)], before) {
					t.Fatalf("Add(%v) of a present element wrote to the old storage: %v -> %v", v, before, old[:cap(old)])
				}
			case 2: //Add with a list: unsorted, repeats, some present
				k := rng.Intn(6)
				args := make([]int, k)
				for i := range args {
					args[i] = rng.Intn(21) - 10
				}
				if k >= 2 && rng.Intn(2) == 0 {
					args[k-1] = args[0]
				}
				argsCopy := append([]int(nil), args...)
				s.Add(args...)
				for _, v := range args {
					model[v] = true
				}
				if !sameInts(args, argsCopy) {
					t.Fatalf("Add changed its argument slice: %v -> %v", argsCopy, args)
				}
			case 3:
				v := rng.Intn(21) - 10
				s.Remove(v)
				delete(model, v)
			}
			if want := modelSlice(model); !sameInts(s, want) {
				t.Fatalf("iter %d step %d: got %v want %v", iter, step, []int(s), want)
			}
			for i := 1; i < len(s); i++ {
				if s[i-1] >= s[i] {
					t.Fatalf("not strictly increasing: %v", []int(s))
				}
			}
		}
	}

	//Single Add on special receivers.
	var z sortints.SortedInts
	z.Add(5)
	if !sameInts(z, []int{5}) {
		t.Fatalf("nil receiver: %v", []int(z))
	}
	z.Add(-7)
	z.Add(9)
	z.Add(5)
	z.Add(0)
	if !sameInts(z, []int{-7, 0, 5, 9}) {
		t.Fatalf("got %v", []int(z))
	}

	//A single Add of a new element does not touch the old storage (another slice sharing it is unaffected).
	s, base := withSpare([]int{1, 3, 5}, 4)
	s.Add(4)
	if !sameInts(s, []int{1, 3, 4, 5}) || !sameInts(base, []int{1, 3, 5, sentinel, sentinel, sentinel, sentinel}) {
		t.Fatalf("s = %v, old storage = %v", []int(s), base)
	}
}

func TestDemoIncidentalNoOpAddCopies(t *testing.T) {
	s, base := withSpare([]int{1, 3, 5}, 4)
	s.Add(3) //Already present: the set does not change.
	if !sameInts(s, []int{1, 3, 5}) {
		t.Fatalf("wrong set %v", []int(s))
	}
	t.Logf("after Add of a present element: len %d cap %d, same storage as before: %v", len(s), cap(s), &s[0] == &base[0])
	if &s[0] == &base[0] {
		t.Errorf("OLD behaviour expected: Add moves the receiver to a new slice even if nothing is added; it kept its storage")
	}
	if cap(s) != len(s) {
		t.Errorf("OLD behaviour expected: cap == len after Add; got len %d cap %d", len(s), cap(s))
	}
}

package c06

// A budgeted isomorphism search for the family values on more than 48
// vertices (where observe.go does not run the unbounded search of the iso
// oracle): colour refinement on the disjoint union of the two graphs (so the
// colour ids of the two graphs are comparable by construction) with
// individualisation of one vertex of the smallest non-singleton colour class
// and all vertices of the same class of the other graph.  A map that is found
// is verified pair by pair; "no isomorphism" is only reported when the search
// was exhausted within the budget.

import (
	"encoding/binary"
	"sort"

	"verif/internal/oracle/rg"
)

type irSearch struct {
	a, b   *rg.G
	n      int
	nb     [][]int // adjacency of the disjoint union: a on 0..n-1, b on n..2n-1
	nodes  int
	budget int
	over   bool
}

// refineUnion refines col (colours of the 2n vertices of the union) until the
// number of colours no longer grows.  The new colour of a vertex is the id of
// the signature (old colour, sorted old colours of the neighbours); ids are
// given in the order of the sorted distinct signatures.
func (s *irSearch) refineUnion(col []int) []int {
	N := len(col)
	distinct := func(c []int) int {
		m := map[int]bool{}
		for _, x := range c {
			m[x] = true
		}
		return len(m)
	}
	cur := distinct(col)
	buf := make([]byte, binary.MaxVarintLen64)
	for {
		keys := make([]string, N)
		for v := 0; v < N; v++ {
			ns := make([]int, len(s.nb[v]))
			for i, u := range s.nb[v] {
				ns[i] = col[u]
			}
			sort.Ints(ns)
			key := make([]byte, 0, 2*(len(ns)+1))
			k := binary.PutUvarint(buf, uint64(col[v]))
			key = append(key, buf[:k]...)
			for _, x := range ns {
				k := binary.PutUvarint(buf, uint64(x))
				key = append(key, buf[:k]...)
			}
			keys[v] = string(key)
		}
		uniq := map[string]int{}
		var list []string
		for _, k := range keys {
			if _, ok := uniq[k]; !ok {
				uniq[k] = 0
				list = append(list, k)
			}
		}
		sort.Strings(list)
		for i, k := range list {
			uniq[k] = i
		}
		next := make([]int, N)
		for v := range next {
			next[v] = uniq[keys[v]]
		}
		col = next
		if len(list) == cur {
			return col
		}
		cur = len(list)
	}
}

func (s *irSearch) search(col []int) []int {
	s.nodes++
	if s.nodes > s.budget {
		s.over = true
		return nil
	}
	n := s.n
	col = s.refineUnion(col)
	cntA, cntB := map[int]int{}, map[int]int{}
	for v := 0; v < n; v++ {
		cntA[col[v]]++
		cntB[col[n+v]]++
	}
	if len(cntA) != len(cntB) {
		return nil
	}
	for c, k := range cntA {
		if cntB[c] != k {
			return nil
		}
	}
	best, bestSize := -1, n+1
	for c, k := range cntA {
		if k > 1 && (k < bestSize || (k == bestSize && c < best)) {
			best, bestSize = c, k
		}
	}
	if best < 0 {
		pos := make(map[int]int, n)
		for w := 0; w < n; w++ {
			pos[col[n+w]] = w
		}
		p := make([]int, n)
		for v := 0; v < n; v++ {
			p[v] = pos[col[v]]
		}
		if !isIsomorphism(s.a, s.b, p) {
			return nil
		}
		return p
	}
	v := -1
	for x := 0; x < n; x++ {
		if col[x] == best {
			v = x
			break
		}
	}
	fresh := 0
	for _, c := range col {
		if c >= fresh {
			fresh = c + 1
		}
	}
	for w := 0; w < n; w++ {
		if col[n+w] != best {
			continue
		}
		next := append([]int(nil), col...)
		next[v], next[n+w] = fresh, fresh
		if p := s.search(next); p != nil {
			return p
		}
		if s.over {
			return nil
		}
	}
	return nil
}

// isIsomorphism: p is a permutation and b.Has(p[i], p[j]) == a.Has(i, j) for all pairs.
func isIsomorphism(a, b *rg.G, p []int) bool {
	n := a.N
	if b.N != n || len(p) != n {
		return false
	}
	seen := make([]bool, n)
	for _, x := range p {
		if x < 0 || x >= n || seen[x] {
			return false
		}
		seen[x] = true
	}
	for i := 0; i < n; i++ {
		for j := 0; j < i; j++ {
			if a.Has(i, j) != b.Has(p[i], p[j]) {
				return false
			}
		}
	}
	return true
}

// isoBudgeted: 1 = isomorphic (p is a verified isomorphism a -> b), 0 = the
// search was exhausted without finding one, -1 = budget used up.
func isoBudgeted(a, b *rg.G, budget int) (verdict int, p []int) {
	if a.N != b.N {
		return 0, nil
	}
	n := a.N
	s := &irSearch{a: a, b: b, n: n, budget: budget, nb: make([][]int, 2*n)}
	for v := 0; v < n; v++ {
		s.nb[v] = a.Nbrs(v)
		l := b.Nbrs(v)
		for i := range l {
			l[i] += n
		}
		s.nb[n+v] = l
	}
	p = s.search(make([]int, 2*n))
	switch {
	case p != nil:
		return 1, p
	case s.over:
		return -1, nil
	}
	return 0, nil
}

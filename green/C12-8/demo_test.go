// Demo for C12 change 8 (a nil *Dawg is treated as the dawg of the empty set by the read only queries NumberOfWords,
// Lookup and Search, instead of causing a nil pointer dereference).
//
// Run (from the root of the library worktree):
//
//	cp /tmp/green-out/C12/8/demo_test.go dawg/c12demo8_test.go
//	GOFLAGS=-mod=mod GOPROXY=off GOSUMDB=off GOTOOLCHAIN=local go test -vet=off -count=1 -timeout 600s -run 'TestC12Demo8' -v ./dawg/
//	rm dawg/c12demo8_test.go
//
// TestC12Demo8Property checks the property itself (accepts exactly the words, NumberOfWords, ranks of members, false
// for non-members, minimal node count, rejected Adds return an error and are harmless, also through a builder reset
// with Initialise, New refuses bad lists and returns a nil dawg for them) on fixed and random word sets, the empty set
// and the set {""} included, and passes before and after the change.
// TestC12Demo8Incidental asserts the OLD incidental behaviour, which lies outside the property (a nil *Dawg is not a
// built Dawg): NumberOfWords, Lookup and Search panic with a nil pointer dereference when the receiver is a nil
// *Dawg (for instance the one New returns together with an error). It passes on the clean tree and fails with the
// change (0 / (0, false) / no results, no panic).
package dawg_test

import (
	"encoding/hex"
	"fmt"
	"math/rand"
	"sort"
	"testing"

	"github.com/Tom-Johnston/mamba/dawg"
)

var c12demo8Sets = [][]string{
	{},
	{""},
	{"", "a"},
	{"abject", "abjection", "abjections", "abjectly", "abjectness", "ablate", "ablated", "ablation", "ablations"},
	{"", "a", "aa", "ab", "b", "ba", "bb", "tap", "taps", "top", "tops"},
	{"\x00", "\x00\xff", "\xff", "\xff\x00\xff"},
}

// randomSets8 returns sorted duplicate-free random word sets over small alphabets (many shared prefixes and suffixes).
func randomSets8(n int, seed int64) [][]string {
	rng := rand.New(rand.NewSource(seed))
	var sets [][]string
	for k := 0; k < n; k++ {
		alpha := 1 + rng.Intn(3)
		maxLen := 1 + rng.Intn(5)
		set := map[string]bool{}
		for i, m := 0, rng.Intn(14); i < m; i++ {
			w := make([]byte, rng.Intn(maxLen+1))
			for j := range w {
				w[j] = "ab\xff"[rng.Intn(alpha)]
			}
			set[string(w)] = true
		}
		words := []string{}
		for w := range set {
			words = append(words, w)
		}
		sort.Strings(words)
		sets = append(sets, words)
	}
	return sets
}

// minimalNodes8 is the number of states of the minimal (trim) deterministic acyclic automaton of the set: the number of
// distinct non-empty right languages of prefixes, and 1 (just the root) for the empty set.
func minimalNodes8(words []string) int {
	langs := map[string]bool{}
	for _, w := range words {
		for i := 0; i <= len(w); i++ {
			p := w[:i]
			var rl []string
			for _, v := range words {
				if len(v) >= len(p) && v[:len(p)] == p {
					rl = append(rl, v[len(p):])
				}
			}
			sort.Strings(rl)
			key := ""
			for _, s := range rl {
				key += hex.EncodeToString([]byte(s)) + ","
			}
			langs[key] = true
		}
	}
	if len(langs) == 0 {
		return 1
	}
	return len(langs)
}

// encodedNumNodes8 reads the node count which GobEncode writes first.
func encodedNumNodes8(t *testing.T, d *dawg.Dawg) int {
	b, err := d.GobEncode()
	if err != nil {
		t.Fatal(err)
	}
	if b[0] <= 127 {
		return int(b[0])
	}
	n := int(b[0]) - 128
	x := 0
	for _, c := range b[1 : 1+n] {
		x = x<<8 | int(c)
	}
	return x
}

func probes8(words []string) []string {
	set := map[string]bool{"": true, "zz": true, "a": true, "\x00": true}
	for _, w := range words {
		set[w] = true
		set[w+"a"] = true
		set[w+"\x00"] = true
		for i := 0; i < len(w); i++ {
			set[w[:i]] = true
			set[w[:i]+"\x01"] = true
			set[w[:i]+"b"] = true
		}
	}
	var ps []string
	for p := range set {
		ps = append(ps, p)
	}
	sort.Strings(ps)
	return ps
}

func checkDawg8(t *testing.T, d *dawg.Dawg, words []string) {
	t.Helper()
	if d.NumberOfWords() != len(words) {
		t.Errorf("%q: NumberOfWords = %d, want %d", words, d.NumberOfWords(), len(words))
	}
	rank := map[string]int{}
	for i, w := range words {
		rank[w] = i
	}
	for _, p := range probes8(words) {
		r, ok := d.Lookup([]byte(p))
		wr, wok := rank[p]
		if ok != wok || (ok && r != wr) {
			t.Errorf("%q: Lookup(%q) = (%d, %v), want (%d, %v)", words, p, r, ok, wr, wok)
		}
	}
	if got, want := encodedNumNodes8(t, d), minimalNodes8(words); got != want {
		t.Errorf("%q: %d nodes, minimal automaton has %d", words, got, want)
	}
}

func TestC12Demo8Property(t *testing.T) {
	rng := rand.New(rand.NewSource(12))
	for _, words := range append(c12demo8Sets, randomSets8(1500, 3)...) {
		var bs [][]byte
		for _, w := range words {
			bs = append(bs, []byte(w))
		}
		d, err := dawg.New(bs)
		if err != nil {
			t.Fatal(err)
		}
		checkDawg8(t, d, words)

		// The same set through a Builder with rejected Adds (duplicates and out-of-order words) in between.
		db := new(dawg.Builder)
		for i, w := range words {
			if err := db.Add([]byte(w)); err != nil {
				t.Fatal(err)
			}
			if err := db.Add([]byte(w)); err == nil {
				t.Errorf("%q: duplicate %q accepted", words, w)
			}
			if i > 0 {
				j := rng.Intn(i)
				if err := db.Add([]byte(words[j])); err == nil {
					t.Errorf("%q: out-of-order %q accepted", words, words[j])
				}
			}
			if w != "" {
				if err := db.Add([]byte(w[:len(w)-1])); err == nil {
					t.Errorf("%q: out-of-order %q accepted", words, w[:len(w)-1])
				}
			}
		}
		d, err = db.Finish()
		if err != nil {
			t.Fatal(err)
		}
		checkDawg8(t, d, words)

		// A builder which has been reset with Initialise() builds the same set again (documented way to reuse a builder).
		db.Initialise()
		for _, w := range words {
			if err := db.Add([]byte(w)); err != nil {
				t.Fatal(err)
			}
		}
		d2, err := db.Finish()
		if err != nil {
			t.Fatal(err)
		}
		checkDawg8(t, d2, words)
		checkDawg8(t, d, words) // the first dawg is not disturbed

		// New rejects a list with a duplicate or an inversion.
		if len(bs) > 0 {
			if _, err := dawg.New(append(bs[:len(bs):len(bs)], bs[rng.Intn(len(bs))])); err == nil {
				t.Errorf("%q: New accepted a list which is not strictly increasing", words)
			}
		}
	}
}

func TestC12Demo8Incidental(t *testing.T) {
	d, err := dawg.New([][]byte{[]byte("b"), []byte("a")})
	if err == nil || d != nil {
		t.Fatalf("New on a bad list: (%v, %v); a nil dawg and an error are expected before and after the change", d, err)
	}
	panics := func(name string, f func() string) {
		var res string
		p := func() (p interface{}) {
			defer func() { p = recover() }()
			res = f()
			return nil
		}()
		if p == nil {
			t.Errorf("(*Dawg)(nil).%s returned %s; old behaviour: panic (nil pointer dereference)", name, res)
		} else {
			t.Logf("(*Dawg)(nil).%s panics: %v", name, p)
		}
	}
	panics("NumberOfWords()", func() string { return fmt.Sprint(d.NumberOfWords()) })
	panics("Lookup(\"a\")", func() string { r, ok := d.Lookup([]byte("a")); return fmt.Sprint(r, ok) })
	panics("Search()", func() string { s, ids := d.Search(); return fmt.Sprint(s, ids) })
}

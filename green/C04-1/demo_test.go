// Demonstration for C04 change 1 (children of a search node are visited sparsest-first).
//
// Run (from the root of the mamba repository):
//
//	mkdir -p c04demo && cp /tmp/green-out/C04/1/demo_test.go c04demo/ && \
//	  GOFLAGS=-mod=mod GOPROXY=off GOSUMDB=off GOTOOLCHAIN=local \
//	  go test -vet=off -count=1 -timeout 300s -v ./c04demo/ ; rm -rf c04demo
//
// TestProperty checks C04 itself (every save position, save/load chains, non-disturbance, independence)
// and passes on the clean tree AND with the patch.
// TestIncidentalOrder asserts the OLD enumeration order of All(4,0,1) / All(5,1,2);
// it passes on the clean tree and FAILS with the patch.
package c04demo

import (
	"bytes"
	"fmt"
	"testing"

	"github.com/Tom-Johnston/mamba/graph"
	"github.com/Tom-Johnston/mamba/graph/search"
)

func snap(g *graph.DenseGraph) string {
	return fmt.Sprint(g.NumberOfVertices, g.NumberOfEdges, g.DegreeSequence, g.Edges)
}

func drain(it *search.GraphIterator) []string {
	var out []string
	for it.Next() {
		out = append(out, snap(it.Value()))
	}
	return out
}

func equal(a, b []string) bool {
	if len(a) != len(b) {
		return false
	}
	for i := range a {
		if a[i] != b[i] {
			return false
		}
	}
	return true
}

type pred struct {
	name      string
	pre, post func(g *graph.DenseGraph) bool
}

func never(g *graph.DenseGraph) bool { return false }

func maxDeg3(g *graph.DenseGraph) bool {
	for _, d := range g.DegreeSequence {
		if d > 3 {
			return true
		}
	}
	return false
}

func tooManyEdges(g *graph.DenseGraph) bool { return g.NumberOfEdges > g.NumberOfVertices+1 }

var preds = []pred{
	{"none", never, never},
	{"preprune-maxdeg3", maxDeg3, never},
	{"prune-edges", never, tooManyEdges},
}

func TestProperty(t *testing.T) {
	type am struct{ a, m int }
	for n := 0; n <= 6; n++ {
		for _, s := range []am{{0, 1}, {0, 2}, {1, 2}, {2, 3}} {
			for _, p := range preds {
				full := drain(search.WithPruning(n, s.a, s.m, p.pre, p.post))
				for k := 0; k <= len(full)+1; k++ {
					orig := search.WithPruning(n, s.a, s.m, p.pre, p.post)
					pos := k
					for i := 0; i < k; i++ {
						if !orig.Next() {
							pos = len(full) //saved after exhaustion
							break
						}
					}
					var buf bytes.Buffer
					orig.Save(&buf)
					saved := append([]byte(nil), buf.Bytes()...)
					want := full[pos:]

					//Load, advance one step, save again, load again (a chain), interleaved with the original.
					l1 := search.Load(bytes.NewReader(saved), p.pre, p.post)
					var got1 []string
					var got2 []string
					var gotOrig []string
					if l1.Next() {
						got1 = append(got1, snap(l1.Value()))
						got2 = append(got2, got1[0])
					}
					var buf2 bytes.Buffer
					l1.Save(&buf2)
					l2 := search.Load(bytes.NewReader(buf2.Bytes()), p.pre, p.post)
					for {
						a := l1.Next()
						if a {
							got1 = append(got1, snap(l1.Value()))
						}
						b := orig.Next()
						if b {
							gotOrig = append(gotOrig, snap(orig.Value()))
						}
						c := l2.Next()
						if c {
							got2 = append(got2, snap(l2.Value()))
						}
						if !a && !b && !c {
							break
						}
					}
					if !equal(gotOrig, want) {
						t.Fatalf("n=%d a=%d m=%d %s k=%d: the original was disturbed by Save", n, s.a, s.m, p.name, k)
					}
					if !equal(got1, want) {
						t.Fatalf("n=%d a=%d m=%d %s k=%d: the loaded iterator does not resume exactly", n, s.a, s.m, p.name, k)
					}
					if !equal(got2, want) {
						t.Fatalf("n=%d a=%d m=%d %s k=%d: the twice saved iterator does not resume exactly", n, s.a, s.m, p.name, k)
					}
					//The same bytes can be loaded again later.
					if l3 := search.Load(bytes.NewReader(saved), p.pre, p.post); !equal(drain(l3), want) {
						t.Fatalf("n=%d a=%d m=%d %s k=%d: second load differs", n, s.a, s.m, p.name, k)
					}
				}
			}
		}
	}
}

//The order in which the pinned tree happens to enumerate (densest child first).
var oldAll4 = []string{
	"4 6 [3 3 3 3] [1 1 1 1 1 1]",
	"4 5 [3 2 3 2] [1 1 1 1 0 1]",
	"4 4 [2 3 2 1] [1 1 1 0 1 0]",
	"4 3 [2 2 2 0] [1 1 1 0 0 0]",
	"4 4 [2 2 2 2] [1 0 1 1 0 1]",
	"4 3 [1 2 2 1] [1 0 1 0 0 1]",
	"4 3 [1 3 1 1] [1 0 1 0 1 0]",
	"4 2 [1 2 1 0] [1 0 1 0 0 0]",
	"4 2 [1 1 1 1] [1 0 0 0 0 1]",
	"4 1 [1 1 0 0] [1 0 0 0 0 0]",
	"4 0 [0 0 0 0] [0 0 0 0 0 0]",
}

var oldAll5Class1of2 = []string{
	"5 10 [4 4 4 4 4] [1 1 1 1 1 1 1 1 1 1]",
	"5 9 [4 3 4 4 3] [1 1 1 1 1 1 1 0 1 1]",
	"5 8 [4 3 4 3 2] [1 1 1 1 1 1 1 0 1 0]",
	"5 7 [3 4 3 3 1] [1 1 1 1 1 1 0 1 0 0]",
	"5 6 [3 3 3 3 0] [1 1 1 1 1 1 0 0 0 0]",
	"5 6 [2 4 2 2 2] [1 1 1 0 1 0 0 1 0 1]",
	"5 5 [2 3 2 2 1] [1 1 1 0 1 0 0 0 0 1]",
	"5 5 [2 3 3 1 1] [1 1 1 0 1 0 0 0 1 0]",
	"5 5 [2 4 2 1 1] [1 1 1 0 1 0 0 1 0 0]",
	"5 4 [2 3 2 1 0] [1 1 1 0 1 0 0 0 0 0]",
	"5 6 [2 3 2 3 2] [1 0 1 1 0 1 0 1 0 1]",
	"5 6 [2 3 3 2 2] [1 0 1 1 0 1 0 1 1 0]",
	"5 5 [2 2 3 2 1] [1 0 1 1 0 1 0 0 1 0]",
	"5 4 [2 2 2 2 0] [1 0 1 1 0 1 0 0 0 0]",
	"5 4 [1 4 1 1 1] [1 0 1 0 1 0 0 1 0 0]",
	"5 3 [1 3 1 1 0] [1 0 1 0 1 0 0 0 0 0]",
}

func TestIncidentalOrder(t *testing.T) {
	got4 := drain(search.All(4, 0, 1))
	got5 := drain(search.All(5, 1, 2))
	t.Logf("All(4,0,1):\n%q", got4)
	t.Logf("All(5,1,2):\n%q", got5)
	if !equal(got4, oldAll4) {
		t.Errorf("All(4,0,1) is not enumerated in the old order")
	}
	if !equal(got5, oldAll5Class1of2) {
		t.Errorf("All(5,1,2) is not enumerated in the old order / is not the old class")
	}
}

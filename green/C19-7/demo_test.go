// Demonstration for C19 harmless change 7 (dawg.Search carves the words it returns out of shared chunks).
//
// Run (from the root of the library, with and without patch.diff applied):
//
//	export GOFLAGS=-mod=mod GOPROXY=off GOSUMDB=off GOTOOLCHAIN=local
//	cp /tmp/green-out/C19/7/demo_test.go dawg/zz_demo_c19_7_test.go
//	go test -vet=off -count=1 -timeout 300s -run 'TestDemoC19_7' -v ./dawg
//	go test -vet=off -count=1 -timeout 600s -race -run 'TestDemoC19_7_Property' -v ./dawg
//	rm dawg/zz_demo_c19_7_test.go
//
// TestDemoC19_7_Incidental asserts the OLD incidental behaviour (one heap allocation per word found):
// it passes on the clean tree and fails with the patch.
// TestDemoC19_7_Property checks the property (and the ownership of the results) on the same inputs: passes on both.
package dawg_test

import (
	"bytes"
	"reflect"
	"sync"
	"testing"

	"github.com/Tom-Johnston/mamba/dawg"
)

// demoWords7 returns all words of length 0..4 over the alphabet a..f in lexicographic order (1555 words).
func demoWords7() [][]byte {
	var out [][]byte
	var rec func(prefix []byte)
	rec = func(prefix []byte) {
		w := make([]byte, len(prefix))
		copy(w, prefix)
		out = append(out, w)
		if len(prefix) == 4 {
			return
		}
		for c := byte('a'); c <= 'f'; c++ {
			rec(append(prefix, c))
		}
	}
	rec(nil)
	return out
}

func demoDawg7(t *testing.T) *dawg.Dawg {
	d, err := dawg.New(demoWords7())
	if err != nil {
		t.Fatal(err)
	}
	return d
}

func TestDemoC19_7_Incidental(t *testing.T) {
	d := demoDawg7(t)
	solns, _ := d.Search(dawg.NewPatternSearcher([]byte("????"), '?'))
	if len(solns) != 1296 {
		t.Fatalf("expected 1296 words, got %d", len(solns))
	}
	allocs := testing.AllocsPerRun(10, func() {
		d.Search(dawg.NewPatternSearcher([]byte("????"), '?'))
	})
	t.Logf("heap allocations of one Search returning %d words: %v", len(solns), allocs)
	//OLD behaviour: every word is a separate allocation, so there are at least as many allocations as words.
	if allocs < float64(len(solns)) {
		t.Fatalf("INCIDENTAL DIFFERENCE: Search made %v allocations for %d words (the clean tree makes at least one per word)", allocs, len(solns))
	}
}

func TestDemoC19_7_Property(t *testing.T) {
	d := demoDawg7(t)
	patterns := []string{"????", "a???", "?b?", "??", "", "f??f", "?", "abc?", "zz"}
	type res struct {
		solns [][]byte
		ids   []int
	}
	alone := make([]res, len(patterns))
	for i, p := range patterns {
		s, ids := d.Search(dawg.NewPatternSearcher([]byte(p), '?'))
		alone[i] = res{s, ids}
		//Basic sanity against Lookup.
		for j, w := range s {
			if w == nil {
				t.Fatalf("nil word")
			}
			if cap(w) != len(w) {
				t.Fatalf("word with spare capacity")
			}
			id, ok := d.Lookup(w)
			if !ok || id != ids[j] {
				t.Fatalf("pattern %q word %q: id %d, Lookup says %d %v", p, w, ids[j], id, ok)
			}
		}
	}
	if len(alone[4].solns) != 1 || len(alone[4].solns[0]) != 0 || alone[4].solns[0] == nil {
		t.Fatalf("the empty pattern should find exactly the empty word as a non-nil slice: %v", alone[4].solns)
	}

	const G = 8
	var wg sync.WaitGroup
	errs := make(chan string, G*len(patterns))
	for g := 0; g < G; g++ {
		wg.Add(1)
		go func(g int) {
			defer wg.Done()
			for rep := 0; rep < 3; rep++ {
				for k := range patterns {
					i := (k + g) % len(patterns)
					s, ids := d.Search(dawg.NewPatternSearcher([]byte(patterns[i]), '?'))
					if !reflect.DeepEqual(ids, alone[i].ids) || len(s) != len(alone[i].solns) {
						errs <- "ids differ for " + patterns[i]
						return
					}
					for j := range s {
						if !bytes.Equal(s[j], alone[i].solns[j]) {
							errs <- "words differ for " + patterns[i]
							return
						}
					}
					//The results belong to this goroutine: scribble over every second word and append to the others.
					for j := range s {
						if j%2 == 0 {
							for x := range s[j] {
								s[j][x] = 'X'
							}
						} else {
							s[j] = append(s[j], "YYYYYYYY"...)
						}
					}
					for j := range s {
						if j%2 == 1 && !bytes.Equal(s[j][:len(s[j])-8], alone[i].solns[j]) {
							errs <- "scribbling over one word changed a neighbour"
							return
						}
						if j%2 == 0 && len(s[j]) > 0 && s[j][0] != 'X' {
							errs <- "appending to one word changed a neighbour"
							return
						}
					}
				}
			}
		}(g)
	}
	wg.Wait()
	close(errs)
	for e := range errs {
		t.Error(e)
	}
	//The results obtained alone are still intact and the dawg still answers the same.
	for i, p := range patterns {
		s, ids := d.Search(dawg.NewPatternSearcher([]byte(p), '?'))
		if !reflect.DeepEqual(ids, alone[i].ids) || !reflect.DeepEqual(s, alone[i].solns) {
			t.Fatalf("pattern %q: result changed after the concurrent phase", p)
		}
	}
}

// Demo for C16 change 1 (exact 128-bit product in CoeffUint64: the value is returned whenever it fits).
//
// Run (from the root of the mamba worktree, offline):
//
//	export GOFLAGS=-mod=mod GOPROXY=off GOSUMDB=off GOTOOLCHAIN=local
//	cp /tmp/green-out/C16/1/demo_test.go comb/c16_demo_test.go
//	go test -vet=off -count=1 -timeout 120s -run 'TestC16Demo' -v ./comb/ ; rm comb/c16_demo_test.go
//
// TestC16DemoProperty checks the property itself (exact value or panic; value returned whenever
// C(n,k)*min(k,n-k) fits; Rank/Unrank inverse) on the demo inputs: PASSES before and after the change.
// TestC16DemoIncidentalOldBehaviour asserts the OLD incidental behaviour (a panic just OUTSIDE the guaranteed
// range, where the coefficient itself still fits): PASSES on the clean tree, FAILS with the change.
package comb_test

import (
	"math"
	"math/big"
	"testing"

	"github.com/Tom-Johnston/mamba/comb"
)

func c16Big(n, k uint64) *big.Int {
	return new(big.Int).Binomial(int64(n), int64(k))
}

func c16CallU(n, k uint64) (v uint64, p interface{}) {
	defer func() { p = recover() }()
	return comb.CoeffUint64(n, k), nil
}

func c16CallI(n, k int) (v int, p interface{}) {
	defer func() { p = recover() }()
	return comb.Coeff(n, k), nil
}

func c16CallRank(c []int) (v int, p interface{}) {
	defer func() { p = recover() }()
	return comb.Rank(c), nil
}

// Arguments whose coefficient fits the result type although coefficient*min(k, n-k) does not.
var c16U = [][2]uint64{{67, 33}, {67, 34}, {66, 33}, {4294967297, 2}, {4294967297, 4294967295}, {3329023, 3}, {64, 27}}
var c16I = [][2]int{{66, 33}, {65, 32}, {3329023, 3}, {102571, 4}, {13468, 5}, {3613, 6}}

func TestC16DemoProperty(t *testing.T) {
	maxU := new(big.Int).SetUint64(math.MaxUint64)
	maxI := big.NewInt(math.MaxInt64)
	for _, a := range c16U {
		for _, n := range []uint64{a[0] - 1, a[0], a[0] + 1} {
			k := a[1]
			want := c16Big(n, k)
			mk := k
			if n-k < mk {
				mk = n - k
			}
			guaranteed := new(big.Int).Mul(want, new(big.Int).SetUint64(mk)).Cmp(maxU) <= 0
			v, p := c16CallU(n, k)
			if p == nil && new(big.Int).SetUint64(v).Cmp(want) != 0 {
				t.Errorf("CoeffUint64(%d, %d) = %d, want %s", n, k, v, want)
			}
			if p != nil && guaranteed {
				t.Errorf("CoeffUint64(%d, %d) panicked inside the guaranteed range: %v", n, k, p)
			}
		}
	}
	for _, a := range c16I {
		for _, n := range []int{a[0] - 1, a[0], a[0] + 1} {
			k := a[1]
			want := c16Big(uint64(n), uint64(k))
			mk := k
			if n-k < mk {
				mk = n - k
			}
			guaranteed := new(big.Int).Mul(want, big.NewInt(int64(mk))).Cmp(maxI) <= 0
			v, p := c16CallI(n, k)
			if p == nil && big.NewInt(int64(v)).Cmp(want) != 0 {
				t.Errorf("Coeff(%d, %d) = %d, want %s", n, k, v, want)
			}
			if p != nil && guaranteed {
				t.Errorf("Coeff(%d, %d) panicked inside the guaranteed range: %v", n, k, p)
			}
		}
	}
	// Rank is exact or refuses; Unrank inverts it.
	for _, c := range [][]int{{0, 1, 3329023}, {0, 1, 3329022}, {5, 9, 100000}, {0, 1, 2, 3}, {7, 3329023, 3329024}} {
		want := new(big.Int)
		for i, v := range c {
			want.Add(want, c16Big(uint64(v), uint64(i+1)))
		}
		r, p := c16CallRank(c)
		if p != nil {
			continue // refusal is allowed
		}
		if big.NewInt(int64(r)).Cmp(want) != 0 {
			t.Errorf("Rank(%v) = %d, want %s", c, r, want)
		}
		u := comb.Unrank(r, len(c))
		for i := range c {
			if len(u) != len(c) || u[i] != c[i] {
				t.Errorf("Unrank(Rank(%v)) = %v", c, u)
				break
			}
		}
	}
	// Unrank of the largest ranks is a strictly increasing set with exactly that rank.
	for _, r := range []int{math.MaxInt64, math.MaxInt64 - 1, 3074457345618258602} {
		u := comb.Unrank(r, 3)
		got := new(big.Int)
		for i, v := range u {
			got.Add(got, c16Big(uint64(v), uint64(i+1)))
		}
		if got.Cmp(big.NewInt(int64(r))) != 0 {
			t.Errorf("Unrank(%d, 3) = %v has rank %s", r, u, got)
		}
	}
}

func TestC16DemoIncidentalOldBehaviour(t *testing.T) {
	for _, a := range c16U {
		v, p := c16CallU(a[0], a[1])
		t.Logf("CoeffUint64(%d, %d): value %d, panic %v", a[0], a[1], v, p)
		if p == nil {
			t.Errorf("CoeffUint64(%d, %d) used to panic (product overflows although the coefficient fits), now returns %d", a[0], a[1], v)
		}
	}
	for _, a := range c16I {
		v, p := c16CallI(a[0], a[1])
		t.Logf("Coeff(%d, %d): value %d, panic %v", a[0], a[1], v, p)
		if p == nil {
			t.Errorf("Coeff(%d, %d) used to panic, now returns %d", a[0], a[1], v)
		}
	}
	c := []int{0, 1, 3329023}
	v, p := c16CallRank(c)
	t.Logf("Rank(%v): value %d, panic %v", c, v, p)
	if p == nil {
		t.Errorf("Rank(%v) used to panic, now returns %d", c, v)
	}
}

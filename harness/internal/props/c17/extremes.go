package c17

// Numeric extremes INSIDE otherwise ordinary sets.  The property speaks about
// all finite sets of ints.  A set may hold math.MinInt, math.MaxInt and their
// neighbours next to 0, 1, 2: then the difference or the sum of two elements (or
// of an element and a candidate 0..n-1 of Complement, or of an element and the x of
// Remove / ContainsSingle) does not fit in an int, and any code that orders two
// values by subtracting them, negates one, or steps to "the next value" goes
// wrong on exactly these sets and on no set from a small universe.  This file runs
// every function of the property on such sets: as receiver and as every argument,
// exhaustively over small universes made of the limits of int and small values, and
// seeded over sets spread across the whole int range (limits of int, +-2^62, +-2^32,
// +-2^31, +-2^53 and their neighbours, arbitrary 64-bit values, small values).
//
// Everything on the harness side compares and never subtracts: the model is a
// map[int]bool, ordering is done by sort.Ints, and the generators below only add
// offsets that were clamped beforehand.

import (
	"fmt"

	"verif/internal/engine"
	"verif/internal/oracle/refset"
)

const maxInt = int(^uint(0) >> 1)
const minInt = -maxInt - 1

// spread summarises the operands of one call for the evidence: are the limits of int among the elements, and
// is there a pair of elements whose difference does not fit in an int.
type spread struct {
	any              bool
	lo, hi           int
	hasMin, hasMax   bool
	diffOverflows    bool
	doubledOverflows bool
}

func spreadOf(operands ...[]int) spread {
	var sp spread
	for _, o := range operands {
		for _, v := range o {
			if !sp.any {
				sp.any, sp.lo, sp.hi = true, v, v
			}
			if v < sp.lo {
				sp.lo = v
			}
			if v > sp.hi {
				sp.hi = v
			}
		}
	}
	if !sp.any {
		return sp
	}
	sp.hasMin, sp.hasMax = sp.lo == minInt, sp.hi == maxInt
	// hi - lo > maxInt, written without a subtraction that could overflow (lo < 0 makes maxInt+lo safe)
	sp.diffOverflows = sp.lo < 0 && sp.hi >= 0 && sp.hi > maxInt+sp.lo
	sp.doubledOverflows = sp.hi > maxInt/2 || sp.lo < minInt/2
	return sp
}

func (sp spread) note(c *engine.Ctx, api string) {
	if !sp.doubledOverflows {
		return
	}
	c.Obs("extremes:"+api+":an_element_whose_double_overflows", 1)
	if sp.diffOverflows {
		c.Obs("extremes:"+api+":difference_of_two_elements_overflows", 1)
	}
	if sp.hasMin {
		c.Obs("extremes:"+api+":MinInt_among_the_elements", 1)
	}
	if sp.hasMax {
		c.Obs("extremes:"+api+":MaxInt_among_the_elements", 1)
	}
}

// far: the value cannot occur in the sweeps over small universes.
func far(v int) bool { return v > 1<<40 || v < -(1<<40) }

func anyFar(operands ...[]int) bool {
	for _, o := range operands {
		for _, v := range o {
			if far(v) {
				return true
			}
		}
	}
	return false
}

// anchors of the seeded wide values: the limits of int, the values whose double / whose difference just
// overflows, the limits of 32-bit and of float64-exact integers
var wideAnchors = []int{minInt, maxInt, minInt, maxInt, 0, -(1 << 62), 1 << 62, -(1 << 32), 1 << 32, -(1 << 31), 1 << 31, -(1 << 53), 1 << 53, minInt / 2, maxInt / 2}

// addClamped returns a + d (|d| small) or the limit of int the sum would pass.
func addClamped(a, d int) int {
	if d > 0 && a > maxInt-d {
		return maxInt
	}
	if d < 0 && a < minInt-d {
		return minInt
	}
	return a + d
}

func wideValue(rg *engine.Rng) int {
	switch r := rg.Intn(10); {
	case r < 5:
		return addClamped(wideAnchors[rg.Intn(len(wideAnchors))], rg.Intn(9)-4)
	case r < 7:
		return int(rg.U64())
	default:
		return rg.Intn(17) - 8
	}
}

// wideTable: k distinct values (increasing) spread over the whole int range; most tables hold the limits themselves.
func wideTable(rg *engine.Rng, k int) []int {
	s := refset.Set{}
	if rg.Bool(0.75) {
		s[minInt] = true
	}
	if rg.Bool(0.75) {
		s[maxInt] = true
	}
	for len(s) < k {
		s[wideValue(rg)] = true
	}
	return s.Sorted()
}

// subsetOfTable: at most n draws from tab, as a set.
func subsetOfTable(rg *engine.Rng, tab []int, n int) []int {
	s := refset.Set{}
	for i := 0; i < n; i++ {
		s[tab[rg.Intn(len(tab))]] = true
	}
	return s.Sorted()
}

func extremeUnits(c *engine.Ctx) {
	onlyFar := func(operands ...[]int) bool { return anyFar(operands...) }

	// 1. every pair of subsets of a universe made of the limits of int, their neighbours and the small values
	// between them: every two-operand function, the Union method with every kind of spare capacity, aliased
	univ := []int{minInt, minInt + 1, -1, 0, maxInt - 1, maxInt}
	if c.Thorough() {
		univ = []int{minInt, minInt + 1, -(1 << 62) - 1, -1, 0, 1, 1 << 62, maxInt - 1, maxInt}
	}
	nsub := 1 << uint(len(univ))
	blk := nsub / c.Pick(16, 64)
	for lo := 0; lo < nsub; lo += blk {
		lo := lo
		c.Unit(fmt.Sprintf("extremes/binary/a=%d..", lo), func() {
			m := newMon(c)
			m.ntFilter = onlyFar
			for am := lo; am < lo+blk; am++ {
				a := subsetOf(univ, am)
				for bm := 0; bm < nsub; bm++ {
					b := subsetOf(univ, bm)
					m.binary(a, b, (am+bm)%3, (am*7+bm)%2, true)
				}
				m.unionAliased(a, am%3)
				if c.Stopped() {
					return
				}
			}
			if lo == 0 {
				c.Obs(fmt.Sprintf("exhaustive:Union/Intersection/IntersectionSize/SetMinus/XOR/ContainsSorted/Union method on all pairs of subsets of %v", univ), 1)
			}
		})
	}

	// 2. Add: every argument list over the universe on every receiver made of limits of int (and 0); NewSortedInts on every list
	vals := []int{minInt, minInt + 1, -1, 0, 1, maxInt - 1, maxInt}
	maxLen := c.Pick(3, 4)
	var lists [][]int
	var gen func(cur []int)
	gen = func(cur []int) {
		lists = append(lists, append([]int{}, cur...))
		if len(cur) == maxLen+1 {
			return
		}
		for _, v := range vals {
			gen(append(cur, v))
		}
	}
	// lists up to length maxLen+1 (the longest ones are used by NewSortedInts only)
	gen(nil)
	recvU := []int{minInt, minInt + 1, 0, maxInt - 1, maxInt}
	if c.Thorough() {
		recvU = vals
	}
	nrecv := 1 << uint(len(recvU))
	rblk := nrecv / c.Pick(4, 16)
	for rm := 0; rm < nrecv; rm += rblk {
		rm := rm
		c.Unit(fmt.Sprintf("extremes/add/recv=%d..", rm), func() {
			m := newMon(c)
			m.ntFilter = onlyFar
			for li, l := range lists {
				if len(l) > maxLen {
					continue
				}
				for r := rm; r < rm+rblk; r++ {
					m.add(subsetOf(recvU, r), l, (li+r)%3, true)
				}
				if c.Stopped() {
					return
				}
			}
			if rm == 0 {
				c.Obs(fmt.Sprintf("exhaustive:Add of every list (len<=%d over %v) on every receiver within %v", maxLen, vals, recvU), 1)
			}
		})
	}
	c.Unit("extremes/newsortedints", func() {
		m := newMon(c)
		m.ntFilter = onlyFar
		for _, l := range lists {
			m.newSorted(l, true)
		}
		c.Obs(fmt.Sprintf("exhaustive:NewSortedInts on every list of length<=%d over %v", maxLen+1, vals), 1)
	})

	// 3. Remove / ContainsSingle of every x at and next to the elements, Complement for small n of sets that hold
	// limits of int next to elements of 0..n-1
	c.Unit("extremes/remove-contains", func() {
		m := newMon(c)
		u := []int{minInt, minInt + 1, -(1 << 62) - 1, -1, 0, 1, 1 << 62, maxInt - 1, maxInt}
		xs := []int{minInt, minInt + 1, minInt + 2, -(1 << 62) - 1, -(1 << 62), -2, -1, 0, 1, 2, 1 << 62, 1<<62 + 1, maxInt - 2, maxInt - 1, maxInt}
		for rm := 0; rm < 1<<uint(len(u)); rm++ {
			recv := subsetOf(u, rm)
			for _, x := range xs {
				m.removeAndContains(recv, x, rm%3)
			}
		}
		c.Obs(fmt.Sprintf("exhaustive:Remove and ContainsSingle of x in %v on all subsets of %v", xs, u), 1)
	})
	c.Unit("extremes/complement", func() {
		m := newMon(c)
		u := []int{minInt, minInt + 1, -1, 0, 1, 2, 3, 4, maxInt - 1, maxInt}
		maxN := 6
		if c.Thorough() {
			u = []int{minInt, minInt + 1, -(1 << 62) - 1, -1, 0, 1, 2, 3, 4, 5, 1 << 62, maxInt - 1, maxInt}
			maxN = 7
		}
		for n := 0; n <= maxN; n++ {
			for am := 0; am < 1<<uint(len(u)); am++ {
				m.complement(n, subsetOf(u, am), am%3)
			}
		}
		c.Obs(fmt.Sprintf("exhaustive:Complement(n,a) for n<=%d and all subsets a of %v", maxN, u), 1)
	})

	// 4. ints.Sort on every short sequence over the limits of int and the small values between them
	c.Unit("extremes/sort/exhaustive", func() {
		m := newMon(c)
		pal := []int{minInt, minInt + 1, -1, 0, 1, maxInt - 1, maxInt}
		maxN := c.Pick(5, 7)
		for n := 0; n <= maxN; n++ {
			a := make([]int, n)
			total := 1
			for i := 0; i < n; i++ {
				total *= len(pal)
			}
			for code := 0; code < total; code++ {
				x := code
				for i := range a {
					a[i] = pal[x%len(pal)]
					x /= len(pal)
				}
				m.sortCase("limits of int", -1, a, "limits")
			}
			if c.Stopped() {
				return
			}
		}
		c.Obs(fmt.Sprintf("exhaustive:ints.Sort on all sequences over %v of length<=%d", pal, maxN), 1)
	})

	// 5. seeded sets spread over the whole int range through every function
	nw := c.Pick(300, 4000)
	perW := 25
	for u := 0; u*perW < nw; u++ {
		u := u
		c.Unit(fmt.Sprintf("extremes/seeded/%d", u), func() {
			m := newMon(c)
			for i := u * perW; i < (u+1)*perW && i < nw; i++ {
				m.wideCase(i)
				if c.Stopped() {
					return
				}
			}
		})
	}

	// 6. histories of Add / Remove / Union method on one value whose elements are spread over the whole int range
	nh := c.Pick(64, 800)
	perH := 16
	for u := 0; u*perH < nh; u++ {
		u := u
		c.Unit(fmt.Sprintf("extremes/history/%d", u), func() {
			m := newMon(c)
			for i := u * perH; i < (u+1)*perH && i < nh; i++ {
				m.historyOn(i, true)
				if c.Stopped() {
					return
				}
			}
		})
	}
}

// wideCase: two sets drawn from one table of values spread over the whole int range (so that they overlap),
// through every function of the property.
func (m *mon) wideCase(idx int) {
	c := m.c
	rg := c.Rand("wide", idx)
	tab := wideTable(rg, 4+rg.Intn(60))
	a := subsetOfTable(rg, tab, 1+rg.Intn(40))
	b := subsetOfTable(rg, tab, 1+rg.Intn(40))
	switch rg.Intn(6) {
	case 0:
		b = append([]int{}, a...) // equal
	case 1:
		b = []int{} // a subset
		for _, v := range a {
			if rg.Bool(0.5) {
				b = append(b, v)
			}
		}
	case 2:
		// a below b: blocks that do not interleave
		cut := tab[rg.Intn(len(tab))]
		var lo, hi []int
		for _, v := range a {
			if v < cut {
				lo = append(lo, v)
			}
		}
		for _, v := range b {
			if v >= cut {
				hi = append(hi, v)
			}
		}
		a, b = append([]int{}, lo...), append([]int{}, hi...)
		if rg.Bool(0.5) {
			a, b = b, a
		}
	}
	m.binary(a, b, rg.Intn(4), rg.Intn(4), false)
	m.unionAliased(a, rg.Intn(3))
	// Add / NewSortedInts with unsorted, repeated, partly present arguments
	args := []int{}
	for j := rg.Intn(30); j > 0; j-- {
		switch {
		case len(a) > 0 && rg.Bool(0.3):
			args = append(args, a[rg.Intn(len(a))])
		case len(args) > 0 && rg.Bool(0.3):
			args = append(args, args[rg.Intn(len(args))])
		default:
			args = append(args, tab[rg.Intn(len(tab))])
		}
	}
	m.add(a, args, rg.Intn(5), false)
	m.newSorted(args, false)
	if len(a) > 0 {
		m.removeAndContains(a, a[rg.Intn(len(a))], rg.Intn(3))
	}
	m.removeAndContains(a, tab[rg.Intn(len(tab))], rg.Intn(3))
	m.removeAndContains(a, wideValue(rg), rg.Intn(3))
	// Complement: the elements of 0..n-1 that are missing, next to far away elements on both sides
	n := rg.Intn(60)
	ca := refset.Of(subsetOfTable(rg, tab, rg.Intn(8))...)
	for j := rg.Intn(n + 1); j > 0; j-- {
		ca[rg.Intn(n+3)-1] = true
	}
	m.complement(n, ca.Sorted(), rg.Intn(3))
	// ints.Sort on the argument list and on a longer shuffled list over the table (quicksort and heapsort paths)
	m.sortCase("wide", -1, args, fmt.Sprintf("wide-args#%d", idx))
	long := make([]int, 13+rg.Intn(80))
	for i := range long {
		long[i] = tab[rg.Intn(len(tab))]
	}
	m.sortCase("wide", -1, long, fmt.Sprintf("wide#%d", idx))
	m.sortCase("wide", rg.Intn(3), long, fmt.Sprintf("wide#%d", idx))
	if idx < 2 {
		c.Sample("seeded sets spread over the whole int range", map[string]interface{}{"a": a, "b": b, "args": args})
	}
}

// Demo for C02, change 4: CanonicalOrderedPartition.Reset reports a partition that is
// too small with ONE check and panics with an error value (new text, both capacities
// in one message) instead of one of two formatted strings.
//
// Run (from the root of the library checkout, public API only):
//
//	cp demo_test.go graph/zz_c02_demo4_test.go
//	GOFLAGS=-mod=mod GOPROXY=off GOSUMDB=off GOTOOLCHAIN=local \
//	  go test -vet=off -count=1 -timeout 120s -run 'TestC02Demo4' -v ./graph/
//	rm graph/zz_c02_demo4_test.go
//
// TestC02Demo4Property checks the property itself by brute force (orbits = orbits of
// the class-preserving automorphism group, every generator is such an automorphism,
// the generators generate the whole group, a reused storage/partition pair that is
// Reset for graphs of sizes going up and down WITHIN its capacity gives the same
// permutation, orbits and generators as a fresh call). It passes BEFORE and AFTER the
// change. (It also resets the pair beyond its capacity once in the middle of the
// sequence, recovers, and goes on: the sequence after that is still judged.)
//
// TestC02Demo4IncidentalOld asserts the OLD incidental behaviour: the value passed to
// panic by Reset for a graph that does not fit is a string with the old texts. It
// PASSES on the clean tree and FAILS with the change (the value is an error now).
package graph_test

import (
	"fmt"
	"math/rand"
	"reflect"
	"sort"
	"testing"

	"github.com/Tom-Johnston/mamba/disjoint"
	"github.com/Tom-Johnston/mamba/graph"
)

// c02d4Auts lists all class-preserving automorphisms of g by backtracking.
func c02d4Auts(g graph.Graph, cls []int) [][]int {
	n := g.N()
	var out [][]int
	img := make([]int, n)
	used := make([]bool, n)
	var rec func(k int)
	rec = func(k int) {
		if k == n {
			out = append(out, append([]int(nil), img...))
			return
		}
		for v := 0; v < n; v++ {
			if used[v] || cls[v] != cls[k] {
				continue
			}
			ok := true
			for j := 0; j < k && ok; j++ {
				ok = g.IsEdge(j, k) == g.IsEdge(img[j], v)
			}
			if !ok {
				continue
			}
			used[v] = true
			img[k] = v
			rec(k + 1)
			used[v] = false
		}
	}
	rec(0)
	return out
}

func c02d4PartKey(sets [][]int) string {
	s := make([]string, len(sets))
	for i := range sets {
		c := append([]int(nil), sets[i]...)
		sort.Ints(c)
		s[i] = fmt.Sprint(c)
	}
	sort.Strings(s)
	return fmt.Sprint(s)
}

// c02d4Check verifies the statement of C02 by brute force.
func c02d4Check(g graph.Graph, classes [][]int, orbits disjoint.Set, gens [][]int) error {
	n := g.N()
	cls := make([]int, n)
	for i, c := range classes {
		for _, v := range c {
			cls[v] = i
		}
	}
	auts := c02d4Auts(g, cls)
	autSet := map[string]bool{}
	uf := disjoint.New(n)
	for _, p := range auts {
		autSet[fmt.Sprint(p)] = true
		for i := range p {
			uf.Union(i, p[i])
		}
	}
	oc := append(disjoint.Set(nil), orbits...)
	if len(oc) != n || c02d4PartKey(oc.Sets()) != c02d4PartKey(uf.Sets()) {
		return fmt.Errorf("orbits %v, want %v", oc.Sets(), uf.Sets())
	}
	for _, gen := range gens {
		if !autSet[fmt.Sprint(gen)] {
			return fmt.Errorf("generator %v is not a (class-preserving) automorphism", gen)
		}
	}
	id := make([]int, n)
	for i := range id {
		id[i] = i
	}
	seen := map[string]bool{fmt.Sprint(id): true}
	queue := [][]int{id}
	for len(queue) > 0 {
		p := queue[0]
		queue = queue[1:]
		for _, gen := range gens {
			q := make([]int, n)
			for i := range q {
				q[i] = gen[p[i]]
			}
			if k := fmt.Sprint(q); !seen[k] {
				seen[k] = true
				queue = append(queue, q)
			}
		}
	}
	if len(seen) != len(auts) {
		return fmt.Errorf("generators %v generate a group of order %d, |Aut| = %d", gens, len(seen), len(auts))
	}
	return nil
}

func c02d4Random(r *rand.Rand, n int) *graph.DenseGraph {
	edges := make([]byte, n*(n-1)/2)
	p := r.Float64()
	for i := range edges {
		if r.Float64() < p {
			edges[i] = 1
		}
	}
	return graph.NewDense(n, edges)
}

func c02d4Classes(r *rand.Rand, n int) [][]int {
	k := 1 + r.Intn(n)
	p := r.Perm(n)
	cl := make([][]int, k)
	for i, v := range p {
		if i < k {
			cl[i] = append(cl[i], v)
		} else {
			j := r.Intn(k)
			cl[j] = append(cl[j], v)
		}
	}
	return cl
}

// c02d4TryReset calls op.Reset and returns the recovered panic value (nil if there was no panic).
func c02d4TryReset(op *graph.CanonicalOrderedPartition, n, m int, classes [][]int) (r interface{}) {
	defer func() { r = recover() }()
	op.Reset(n, m, classes)
	return nil
}

func TestC02Demo4Property(t *testing.T) {
	const N, M = 7, 15
	r := rand.New(rand.NewSource(4))
	st := graph.NewStorage(N, M)
	op := graph.NewOrderedPartition(N, M, nil)
	for it := 0; it < 400; it++ {
		n := 1 + r.Intn(N)
		g := c02d4Random(r, n)
		if g.M() > M {
			// Does not fit: outside the quantifier of the property. Only make sure that it is refused and go on with the same pair.
			if c02d4TryReset(op, n, g.M(), nil) == nil {
				t.Errorf("Reset(%d, %d) on a partition for (%d, %d) did not panic", n, g.M(), N, M)
			}
			continue
		}
		var classes [][]int
		if it%2 == 1 {
			classes = c02d4Classes(r, n)
		}
		perm, orb, gens := graph.CanonicalIsomorphFull(g, classes)
		if err := c02d4Check(g, classes, orb, gens); err != nil {
			t.Errorf("fresh %s classes=%v: %v", graph.Graph6Encode(g), classes, err)
		}
		op.Reset(n, g.M(), classes)
		nb := make([][]int, n)
		for i := range nb {
			nb[i] = g.Neighbours(i)
		}
		perm2, orb2, gens2 := graph.CanonicalIsomorphAllocated(n, g.M(), nb, op, st, new(graph.CanonicalOptions))
		if !reflect.DeepEqual(perm, perm2) || c02d4PartKey(orb.Sets()) != c02d4PartKey(orb2.Sets()) || len(gens) != len(gens2) {
			t.Errorf("reused result differs from fresh result %s classes=%v", graph.Graph6Encode(g), classes)
			continue
		}
		for i := range gens {
			if !reflect.DeepEqual(gens[i], gens2[i]) {
				t.Errorf("reused generators differ from fresh generators %s classes=%v", graph.Graph6Encode(g), classes)
			}
		}
	}
}

func TestC02Demo4IncidentalOld(t *testing.T) {
	op := graph.NewOrderedPartition(4, 3, nil)
	r := c02d4TryReset(op, 5, 2, nil)
	t.Logf("Reset(5, 2) on a partition for (4, 3) panics with %T: %v", r, r)
	if s, ok := r.(string); !ok || s != "the partition is too small for graphs with 5 vertices (cap: 4)" {
		t.Errorf("panic value %T %q, the old tree panics with the string %q", r, fmt.Sprint(r), "the partition is too small for graphs with 5 vertices (cap: 4)")
	}
	r = c02d4TryReset(op, 4, 6, nil)
	t.Logf("Reset(4, 6) on a partition for (4, 3) panics with %T: %v", r, r)
	if s, ok := r.(string); !ok || s != "the partition is too small for graphs with 6 edges (cap: 3)" {
		t.Errorf("panic value %T %q, the old tree panics with the string %q", r, fmt.Sprint(r), "the partition is too small for graphs with 6 edges (cap: 3)")
	}
}

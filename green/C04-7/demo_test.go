// Demonstration for C04-7 (a finished iterator releases its scratch storage and resets its graph).
//
// Run from the repository root:
//
//	cp /tmp/green-out/C04/7/demo_test.go graph/search/zz_demo_c04_7_test.go
//	GOFLAGS=-mod=mod GOPROXY=off GOSUMDB=off GOTOOLCHAIN=local go test -vet=off -count=1 -timeout 600s -run 'TestC04Demo7' -v ./graph/search/
//	rm graph/search/zz_demo_c04_7_test.go
//
// TestC04Demo7Property checks the property itself (every save position, chains of save/load, independence,
// the original is not disturbed) and passes before and after the change.
// TestC04Demo7IncidentalOld asserts the OLD incidental behaviour (what Value() is after Next returned false, and
// that a finished iterator still holds on to its scratch storage); it passes on the clean tree and fails with the patch.
package search_test

import (
	"bytes"
	"fmt"
	"runtime"
	"testing"

	"github.com/Tom-Johnston/mamba/graph"
	"github.com/Tom-Johnston/mamba/graph/search"
)

func never(g *graph.DenseGraph) bool { return false }

func key(g *graph.DenseGraph) string {
	return fmt.Sprintf("%d/%d/%v/%v", g.NumberOfVertices, g.NumberOfEdges, g.DegreeSequence, g.Edges)
}

func drain(it *search.GraphIterator) []string {
	var out []string
	for it.Next() {
		out = append(out, key(it.Value()))
	}
	return out
}

func equal(a, b []string) bool {
	if len(a) != len(b) {
		return false
	}
	for i := range a {
		if a[i] != b[i] {
			return false
		}
	}
	return true
}

type config struct {
	n, a, m  int
	pre, pru func(g *graph.DenseGraph) bool
	name     string
}

func configs() []config {
	triangleFree := func(g *graph.DenseGraph) bool {
		n := g.N()
		for i := 0; i < n-1; i++ {
			for j := i + 1; j < n-1; j++ {
				if g.IsEdge(i, n-1) && g.IsEdge(j, n-1) && g.IsEdge(i, j) {
					return true
				}
			}
		}
		return false
	}
	maxDeg3 := func(g *graph.DenseGraph) bool {
		for _, d := range g.DegreeSequence {
			if d > 3 {
				return true
			}
		}
		return false
	}
	all := func(g *graph.DenseGraph) bool { return true }
	var cs []config
	for n := 0; n <= 6; n++ {
		cs = append(cs, config{n, 0, 1, never, never, fmt.Sprintf("all n=%d", n)})
	}
	for a := 0; a < 3; a++ {
		cs = append(cs, config{6, a, 3, never, never, fmt.Sprintf("n=6 class %d of 3", a)})
		cs = append(cs, config{7, a, 3, triangleFree, maxDeg3, fmt.Sprintf("n=7 triangle free maxdeg 3 class %d of 3", a)})
	}
	cs = append(cs, config{6, 0, 1, triangleFree, never, "n=6 triangle free"})
	cs = append(cs, config{5, 0, 1, all, never, "n=5 everything prepruned"})
	cs = append(cs, config{5, 0, 1, never, all, "n=5 everything pruned"})
	return cs
}

func TestC04Demo7Property(t *testing.T) {
	for _, c := range configs() {
		want := drain(search.WithPruning(c.n, c.a, c.m, c.pre, c.pru))
		// Every save position 0..len(want) and one more call after exhaustion.
		for k := 0; k <= len(want)+1; k++ {
			it := search.WithPruning(c.n, c.a, c.m, c.pre, c.pru)
			for j := 0; j < k; j++ {
				it.Next()
			}
			kk := k
			if kk > len(want) {
				kk = len(want)
			}
			before := key(it.Value())
			var buf bytes.Buffer
			it.Save(&buf)
			if key(it.Value()) != before {
				t.Fatalf("%s k=%d: Save changed the value of the original", c.name, k)
			}
			saved := append([]byte(nil), buf.Bytes()...)
			ld := search.Load(&buf, c.pre, c.pru)
			// A chain: advance the loaded one by one graph, save again, load again.
			var got []string
			if ld.Next() {
				got = append(got, key(ld.Value()))
				var buf2 bytes.Buffer
				ld.Save(&buf2)
				ld2 := search.Load(&buf2, c.pre, c.pru)
				rest2 := drain(ld2)
				rest := drain(ld)
				if !equal(rest, rest2) {
					t.Fatalf("%s k=%d: second link of the chain differs", c.name, k)
				}
				got = append(got, rest...)
			}
			if !equal(got, want[kk:]) {
				t.Fatalf("%s k=%d: loaded iterator gives %d graphs, want the remaining %d in order", c.name, k, len(got), len(want)-kk)
			}
			// The original is not disturbed by Save nor by whatever the loaded iterators did.
			if rest := drain(it); !equal(rest, want[kk:]) {
				t.Fatalf("%s k=%d: original disturbed", c.name, k)
			}
			// The same record can be loaded again later.
			if rest := drain(search.Load(bytes.NewReader(saved), c.pre, c.pru)); !equal(rest, want[kk:]) {
				t.Fatalf("%s k=%d: second load of the same record differs", c.name, k)
			}
		}
	}
}

func heapNow() uint64 {
	runtime.GC()
	runtime.GC()
	var ms runtime.MemStats
	runtime.ReadMemStats(&ms)
	return ms.HeapAlloc
}

func TestC04Demo7IncidentalOld(t *testing.T) {
	// 1. What Value() is once Next has returned false is not documented.  Old: for the full enumeration the iterator stops
	// right after its last graph (the empty graph on 5 vertices comes last), so Value() still shows that graph in the
	// full sized allocation.
	it := search.All(5, 0, 1)
	cnt := 0
	for it.Next() {
		cnt++
	}
	g := it.Value()
	t.Logf("All(5,0,1): %d graphs; after exhaustion Value() = %s, cap(Edges) = %d", cnt, key(g), cap(g.Edges))
	if cnt != 34 {
		t.Fatalf("wrong count %d", cnt)
	}
	if g.NumberOfVertices != 5 || g.NumberOfEdges != 0 || cap(g.Edges) != 10 {
		t.Errorf("OLD behaviour gone: after exhaustion Value() has %d vertices and cap(Edges) = %d (old: still the last graph, 5 vertices, cap 10)", g.NumberOfVertices, cap(g.Edges))
	}
	if it.Next() {
		t.Fatalf("Next after exhaustion returned true")
	}
	var buf bytes.Buffer
	it.Save(&buf)
	t.Logf("record saved after exhaustion: %d bytes", buf.Len())
	if search.Load(&buf, never, never).Next() {
		t.Fatalf("an exhausted record resumed with a graph")
	}

	// 2. A finished iterator that is still referenced keeps its scratch tables alive (old) / has dropped them (new).
	// n = 24 and everything pruned at the first vertex, so the search is over at once.
	all := func(g *graph.DenseGraph) bool { return true }
	base := heapNow()
	big := search.WithPruning(24, 0, 1, never, all)
	if big.Next() {
		t.Fatalf("everything was pruned but Next returned true")
	}
	held := int64(heapNow()) - int64(base)
	t.Logf("heap still held by the finished n=24 iterator: %d bytes", held)
	if held < 10<<20 {
		t.Errorf("OLD behaviour gone: a finished n=24 iterator used to keep more than 10 MB of scratch storage alive, now %d bytes", held)
	}
	if big.Next() {
		t.Fatalf("Next after exhaustion returned true")
	}
	runtime.KeepAlive(big)
}

// Demo for green change C05/6 (SparseGraph.IsEdge answers false for indices that are not vertices, as DenseGraph.IsEdge does, and searches the shorter neighbour list).
//
// Run (from the root of the library):
//
//	cp /tmp/green-out/C05/6/demo_test.go graph/c05_demo6_test.go
//	GOFLAGS=-mod=mod GOPROXY=off GOSUMDB=off GOTOOLCHAIN=local go test -vet=off -count=1 -timeout 120s -run 'TestC05Demo6' -v ./graph/
//	rm graph/c05_demo6_test.go
//
// TestC05Demo6Property checks the property itself (random edit histories with valid arguments against an
// adjacency-set model, dense against sparse): it passes on the clean tree and with the change.
// TestC05Demo6OldIncidental asserts OLD behaviour OUTSIDE the domain of the property: SparseGraph.IsEdge and
// SparseGraph.RemoveEdge panic (index out of range) when an argument is not a vertex, and on a hand-made asymmetric
// "graph" (vertex 0 lists 1 and 2, they do not list 0) IsEdge(0,1) is true because the longer list is searched.
// It passes on the clean tree and fails with the change; the in-range answers of the same graphs are checked against
// the expected graph in the same test and are right on both.
package graph_test

import (
	"fmt"
	"math/rand"
	"sort"
	"testing"

	"github.com/Tom-Johnston/mamba/graph"
	"github.com/Tom-Johnston/mamba/sortints"
)

type model struct{ adj []map[int]bool }

func (m *model) n() int { return len(m.adj) }
func (m *model) addVertex(nb []int) {
	v := len(m.adj)
	m.adj = append(m.adj, map[int]bool{})
	for _, u := range nb {
		m.adj[u][v] = true
		m.adj[v][u] = true
	}
}
func (m *model) removeVertex(v int) {
	adj := make([]map[int]bool, 0, len(m.adj)-1)
	for i, s := range m.adj {
		if i == v {
			continue
		}
		t := map[int]bool{}
		for u := range s {
			if u < v {
				t[u] = true
			} else if u > v {
				t[u-1] = true
			}
		}
		adj = append(adj, t)
	}
	m.adj = adj
}
func (m *model) addEdge(i, j int) {
	if i != j {
		m.adj[i][j] = true
		m.adj[j][i] = true
	}
}
func (m *model) removeEdge(i, j int) {
	delete(m.adj[i], j)
	delete(m.adj[j], i)
}
func (m *model) induced(V []int) *model {
	h := &model{}
	for range V {
		h.adj = append(h.adj, map[int]bool{})
	}
	for i := range V {
		for j := range V {
			if m.adj[V[i]][V[j]] {
				h.adj[i][j] = true
			}
		}
	}
	return h
}
func (m *model) copy() *model {
	V := make([]int, m.n())
	for i := range V {
		V[i] = i
	}
	return m.induced(V)
}

func agree(t *testing.T, what string, g graph.Graph, m *model) {
	t.Helper()
	if g.N() != m.n() {
		t.Fatalf("%s: N = %d, model %d", what, g.N(), m.n())
	}
	edges := 0
	deg := g.Degrees()
	if len(deg) != m.n() {
		t.Fatalf("%s: len(Degrees) = %d, model %d", what, len(deg), m.n())
	}
	for v := 0; v < m.n(); v++ {
		want := []int{}
		for u := range m.adj[v] {
			want = append(want, u)
		}
		sort.Ints(want)
		edges += len(want)
		if got := g.Neighbours(v); fmt.Sprint(got) != fmt.Sprint(want) {
			t.Fatalf("%s: Neighbours(%d) = %v, model %v", what, v, got, want)
		}
		if deg[v] != len(want) {
			t.Fatalf("%s: Degrees[%d] = %d, model %d", what, v, deg[v], len(want))
		}
		for u := 0; u < m.n(); u++ {
			if g.IsEdge(u, v) != m.adj[u][v] {
				t.Fatalf("%s: IsEdge(%d,%d) = %v, model %v", what, u, v, g.IsEdge(u, v), m.adj[u][v])
			}
		}
	}
	if g.M() != edges/2 {
		t.Fatalf("%s: M = %d, model %d", what, g.M(), edges/2)
	}
}

func TestC05Demo6Property(t *testing.T) {
	rng := rand.New(rand.NewSource(5))
	for trial := 0; trial < 200; trial++ {
		var d graph.EditableGraph = graph.NewDense(0, nil)
		var s graph.EditableGraph = graph.NewSparse(0, nil)
		m := &model{}
		for step := 0; step < 60; step++ {
			n := m.n()
			switch op := rng.Intn(8); {
			case op <= 1 || n == 0:
				nb := rng.Perm(n)[:rng.Intn(n+1)]
				d.AddVertex(nb)
				s.AddVertex(nb)
				m.addVertex(nb)
			case op == 2 && n > 0:
				v := rng.Intn(n)
				d.RemoveVertex(v)
				s.RemoveVertex(v)
				m.removeVertex(v)
			case op <= 4:
				i, j := rng.Intn(n), rng.Intn(n)
				d.AddEdge(i, j)
				s.AddEdge(i, j)
				m.addEdge(i, j)
			case op == 5:
				i, j := rng.Intn(n), rng.Intn(n)
				d.RemoveEdge(i, j)
				s.RemoveEdge(i, j)
				m.removeEdge(i, j)
			case op == 6:
				//Continue with the copy, then check that the original did not follow.
				d2, s2, m2 := d.Copy(), s.Copy(), m.copy()
				if n > 1 {
					d2.AddEdge(0, 1)
					s2.AddEdge(0, 1)
					d2.RemoveVertex(0)
					s2.RemoveVertex(0)
				}
				agree(t, "dense source after editing the copy", d, m)
				agree(t, "sparse source after editing the copy", s, m)
				_ = m2
			default:
				V := rng.Perm(n)[:rng.Intn(n+1)]
				d2, s2, m2 := d.InducedSubgraph(V), s.InducedSubgraph(V), m.induced(V)
				agree(t, "dense induced", d2, m2)
				agree(t, "sparse induced", s2, m2)
				if rng.Intn(2) == 0 {
					d, s, m = d2, s2, m2
				}
			}
			agree(t, "dense", d, m)
			agree(t, "sparse", s, m)
		}
	}
}


//outcome runs f and says what happened.
func outcome(f func() bool) (s string) {
	defer func() {
		if r := recover(); r != nil {
			s = "panic"
		}
	}()
	return fmt.Sprint(f())
}

func TestC05Demo6OldIncidental(t *testing.T) {
	//A triangle left over after some edits (one vertex removed from the middle), in both representations.
	var s graph.EditableGraph = graph.NewSparse(4, nil)
	var d graph.EditableGraph = graph.NewDense(4, nil)
	m := &model{}
	for i := 0; i < 4; i++ {
		m.addVertex(nil)
	}
	for _, e := range [][2]int{{0, 1}, {1, 3}, {2, 3}, {3, 0}} {
		s.AddEdge(e[0], e[1])
		d.AddEdge(e[0], e[1])
		m.addEdge(e[0], e[1])
	}
	s.RemoveVertex(2)
	d.RemoveVertex(2)
	m.removeVertex(2)
	//The property on this input (every pair of vertices, Neighbours, Degrees, M).
	agree(t, "sparse", s, m)
	agree(t, "dense", d, m)

	//1. Arguments which are not vertices: N = 3 here.
	for _, c := range []struct {
		what string
		f    func(g graph.EditableGraph) bool
	}{
		{"IsEdge(0,3)", func(g graph.EditableGraph) bool { return g.IsEdge(0, 3) }},
		{"IsEdge(3,0)", func(g graph.EditableGraph) bool { return g.IsEdge(3, 0) }},
		{"IsEdge(-1,1)", func(g graph.EditableGraph) bool { return g.IsEdge(-1, 1) }},
		{"IsEdge(7,9)", func(g graph.EditableGraph) bool { return g.IsEdge(7, 9) }},
		{"RemoveEdge(0,3)", func(g graph.EditableGraph) bool { g.RemoveEdge(0, 3); return false }},
	} {
		gotS := outcome(func() bool { return c.f(s) })
		gotD := outcome(func() bool { return c.f(d) })
		t.Logf("%-16s sparse: %-6s dense: %s", c.what, gotS, gotD)
		if gotS != "panic" {
			t.Errorf("SparseGraph %s gives %s, old behaviour is a panic", c.what, gotS)
		}
		if gotD != "false" {
			t.Errorf("DenseGraph %s gives %s, expected false", c.what, gotD)
		}
	}
	//Nothing was changed by the refused calls.
	agree(t, "sparse", s, m)
	agree(t, "dense", d, m)

	//2. Not a graph: 0 lists 1 and 2 as neighbours but they do not list 0. The old code looks in the list of the vertex of larger degree.
	a := graph.NewSparse(3, []sortints.SortedInts{{1, 2}, {}, {}})
	got := fmt.Sprint(a.IsEdge(0, 1), a.IsEdge(1, 0), a.IsEdge(1, 2))
	t.Logf("asymmetric lists [[1 2] [] []]: IsEdge(0,1), IsEdge(1,0), IsEdge(1,2) = %s", got)
	if got != "true true false" {
		t.Errorf("asymmetric lists: got %s, old behaviour is true true false", got)
	}
}

package gen

import (
	"testing"

	"verif/internal/oracle/iso"
)

func TestFamilyAut(t *testing.T) {
	for _, f := range Families() {
		if f.Aut == nil {
			continue
		}
		got := iso.Automorphisms(f.G, nil).Order
		if got.Cmp(f.Aut) != 0 {
			t.Errorf("%s (n=%d): computed |Aut|=%v, table says %v", f.Name, f.G.N, got, f.Aut)
		}
	}
}

// C19 harmless change 3: graph/search: which shard of a split search explores which subtree. At the split level choice
// number i of a node used to belong to shard i mod m; now the numbering is rotated by the number of the choice that led
// to the node, i.e. the choice belongs to shard (i + number of the parent's choice) mod m.
//
// Run (from the root of the library worktree):
//
//	export GOFLAGS=-mod=mod GOPROXY=off GOSUMDB=off GOTOOLCHAIN=local
//	cp /tmp/green-out/C19/3/demo_test.go graph/search/zz_c19_demo_test.go
//	go test -race -vet=off -count=1 -timeout 600s -run 'TestC19' -v ./graph/search/
//	rm graph/search/zz_c19_demo_test.go
//
// Clean tree:   TestC19Property PASS (no race report), TestC19IncidentalShardSizes PASS.
// With patch 3: TestC19Property PASS (no race report), TestC19IncidentalShardSizes FAIL
//
//	(n=7 m=4: [187 229 293 335] -> [161 335 292 256]; n=8 m=4: [3746 3153 1991 3456] -> [2545 3695 2548 3558];
//	n=8 m=2: [5737 6609] -> [5093 7253]; n=6 m=3: [68 20 68] -> [32 75 49]).
package search_test

import (
	"bytes"
	"fmt"
	"sync"
	"testing"

	"github.com/Tom-Johnston/mamba/graph"
	"github.com/Tom-Johnston/mamba/graph/search"
)

type c19Shard struct{ n, a, m int }

// c19Run runs one shard to the end and returns the graphs it produces, in order, as graph6 strings.
func c19Run(s c19Shard) []string {
	var out []string
	it := search.All(s.n, s.a, s.m)
	for it.Next() {
		out = append(out, graph.Graph6Encode(it.Value()))
	}
	return out
}

// c19RunSaved does the same but saves the iterator after every stop graphs and carries on with the loaded copy.
func c19RunSaved(s c19Shard, stop int) []string {
	f := func(g *graph.DenseGraph) bool { return false }
	var out []string
	it := search.WithPruning(s.n, s.a, s.m, f, f)
	for it.Next() {
		out = append(out, graph.Graph6Encode(it.Value()))
		if len(out)%stop == 0 {
			buf := new(bytes.Buffer)
			it.Save(buf)
			it = search.Load(buf, f, f)
		}
	}
	return out
}

// c19Canon returns the graph6 string of the canonical isomorph of the graph with graph6 string s.
func c19Canon(s string) string {
	g, err := graph.Graph6Decode(s)
	if err != nil {
		panic(err)
	}
	return graph.Graph6Encode(graph.InducedSubgraph(g, graph.CanonicalIsomorph(g)))
}

func c19Equal(a, b []string) bool {
	if len(a) != len(b) {
		return false
	}
	for i := range a {
		if a[i] != b[i] {
			return false
		}
	}
	return true
}

// TestC19Property checks the property itself: all the shards of split searches of several sizes run in parallel, each obtains exactly
// the sequence of graphs it obtains running alone (also when it is saved and loaded on the way), and for every n and m the m shards
// partition the isomorphism classes: no class twice, and as many classes as there are graphs on n vertices. Run it with -race.
func TestC19Property(t *testing.T) {
	classes := []int{1, 1, 2, 4, 11, 34, 156, 1044, 12346}
	var shards []c19Shard
	for _, n := range []int{8, 3, 7, 4, 6, 5, 2, 1, 0} {
		for _, m := range []int{1, 4, 3, 2, 7} {
			for a := 0; a < m; a++ {
				shards = append(shards, c19Shard{n, a, m})
			}
		}
	}

	concurrent := make([][]string, len(shards))
	saved := make([][]string, len(shards))
	var wg sync.WaitGroup
	for i := range shards {
		wg.Add(2)
		go func(i int) {
			defer wg.Done()
			concurrent[i] = c19Run(shards[i])
		}(i)
		go func(i int) {
			defer wg.Done()
			saved[i] = c19RunSaved(shards[i], 37)
		}(i)
	}
	wg.Wait()

	type key struct{ n, m int }
	seen := map[key]map[string]c19Shard{}
	for i, s := range shards {
		alone := c19Run(s)
		if !c19Equal(alone, concurrent[i]) {
			t.Errorf("shard %v: the concurrent run differs from the run alone (%d and %d graphs)", s, len(concurrent[i]), len(alone))
		}
		if !c19Equal(alone, saved[i]) {
			t.Errorf("shard %v: the concurrent run with Save/Load differs from the run alone (%d and %d graphs)", s, len(saved[i]), len(alone))
		}
		k := key{s.n, s.m}
		if seen[k] == nil {
			seen[k] = map[string]c19Shard{}
		}
		for _, g6 := range concurrent[i] {
			c := c19Canon(g6)
			if other, ok := seen[k][c]; ok {
				t.Errorf("n=%d m=%d: class %q found by shard %d and by shard %d", s.n, s.m, c, other.a, s.a)
			}
			seen[k][c] = s
		}
	}
	for k, set := range seen {
		if len(set) != classes[k.n] {
			t.Errorf("n=%d m=%d: the shards found %d classes, there are %d", k.n, k.m, len(set), classes[k.n])
		}
	}
}

// TestC19IncidentalShardSizes pins something the property does not fix: how many of the classes each shard gets.
func TestC19IncidentalShardSizes(t *testing.T) {
	old := map[c19Shard][]int{
		{4, 0, 4}: {3, 4, 4, 0},
		{5, 0, 3}: {14, 7, 13},
		{6, 0, 3}: {68, 20, 68},
		{7, 0, 4}: {187, 229, 293, 335},
		{8, 0, 2}: {5737, 6609},
		{8, 0, 4}: {3746, 3153, 1991, 3456},
	}
	for k, want := range old {
		got := make([]int, k.m)
		var wg sync.WaitGroup
		for a := 0; a < k.m; a++ {
			wg.Add(1)
			go func(a int) {
				defer wg.Done()
				got[a] = len(c19Run(c19Shard{k.n, a, k.m}))
			}(a)
		}
		wg.Wait()
		if fmt.Sprint(got) != fmt.Sprint(want) {
			t.Errorf("n=%d m=%d: shard sizes %v, on the clean tree %v", k.n, k.m, got, want)
		}
	}
}

// Demo for C07 harmless change 4 (MulticodeEncode / PruferEncode: which Graph methods are called, and how often).
//
// Run (from the root of the library worktree):
//
//	cp /tmp/green-out/C07/4/demo_test.go graph/zz_c07_demo_test.go
//	GOFLAGS=-mod=mod GOPROXY=off GOSUMDB=off GOTOOLCHAIN=local go test -vet=off -count=1 -timeout 300s -run 'TestC07Demo' -v ./graph/
//	rm graph/zz_c07_demo_test.go
//
// TestC07DemoIncidental asserts the OLD incidental behaviour, observed through a Graph wrapper that counts calls:
// MulticodeEncode probed every pair once with IsEdge (exactly n(n-1)/2 calls) and never called Neighbours;
// PruferEncode found the neighbour of each stripped leaf with IsEdge and never called Neighbours. It passes on the
// clean tree and fails with the change (0 IsEdge calls, n-1 resp. n-2 Neighbours calls).
// TestC07DemoProperty checks the property itself: Multicode round trip (single records and concatenations, graphs
// that use the last vertex, n = 0, 1, 2, 255, edgeless graphs, a Graph whose Neighbours come in a shuffled order) and
// the bytes against an independent writer; Pruefer: all n^(n-2) codes for n <= 6 and random codes up to n = 300
// decode to pairwise different trees whose code is the original one, compared with an independent encoder, and
// Decode(Encode(t)) == t for random trees. It passes on both trees.
package graph_test

import (
	"bytes"
	"math/rand"
	"testing"

	"github.com/Tom-Johnston/mamba/graph"
)

//c07counter counts the calls of the two adjacency queries.
type c07counter struct {
	graph.Graph
	isEdge, neighbours int
}

func (c *c07counter) IsEdge(i, j int) bool {
	c.isEdge++
	return c.Graph.IsEdge(i, j)
}

func (c *c07counter) Neighbours(v int) []int {
	c.neighbours++
	return c.Graph.Neighbours(v)
}

//c07shuffled is a graph whose Neighbours come in a random order (the interface does not promise an order).
type c07shuffled struct {
	graph.Graph
	rng *rand.Rand
}

func (c c07shuffled) Neighbours(v int) []int {
	nb := append([]int(nil), c.Graph.Neighbours(v)...)
	c.rng.Shuffle(len(nb), func(a, b int) { nb[a], nb[b] = nb[b], nb[a] })
	return nb
}

func c07randomTree(n int, rng *rand.Rand) *graph.DenseGraph {
	g := graph.NewDense(n, nil)
	perm := rng.Perm(n)
	for i := 1; i < n; i++ {
		g.AddEdge(perm[i], perm[rng.Intn(i)])
	}
	return g
}

func TestC07DemoIncidental(t *testing.T) {
	rng := rand.New(rand.NewSource(4))
	for _, n := range []int{2, 5, 9, 40} {
		g := graph.NewDense(n, nil)
		for e := 0; e < 2*n; e++ {
			if i, j := rng.Intn(n), rng.Intn(n); i != j {
				g.AddEdge(i, j)
			}
		}
		c := &c07counter{Graph: g}
		graph.MulticodeEncode(c)
		if c.isEdge != n*(n-1)/2 || c.neighbours != 0 {
			t.Errorf("MulticodeEncode n=%d: OLD behaviour was %d IsEdge calls and 0 Neighbours calls, got %d and %d", n, n*(n-1)/2, c.isEdge, c.neighbours)
		}

		tr := c07randomTree(n, rng)
		c = &c07counter{Graph: tr}
		graph.PruferEncode(c)
		if (n > 2 && c.isEdge == 0) || c.neighbours != 0 {
			t.Errorf("PruferEncode n=%d: OLD behaviour was to use IsEdge only (Neighbours never called), got %d IsEdge and %d Neighbours calls", n, c.isEdge, c.neighbours)
		}
	}
}

//c07multicode is an independent Multicode writer: n, then for every vertex but the last its larger neighbours (1-based, increasing), then 0.
func c07multicode(g graph.Graph) []byte {
	n := g.N()
	s := []byte{byte(n)}
	for i := 0; i+1 < n; i++ {
		for j := i + 1; j < n; j++ {
			if g.IsEdge(j, i) {
				s = append(s, byte(j+1))
			}
		}
		s = append(s, 0)
	}
	return s
}

//c07prufer is an independent quadratic Pruefer encoder working on an adjacency matrix.
func c07prufer(g graph.Graph) []int {
	n := g.N()
	adj := make([][]bool, n)
	deg := make([]int, n)
	for i := range adj {
		adj[i] = make([]bool, n)
		for j := 0; j < n; j++ {
			if i != j && g.IsEdge(i, j) {
				adj[i][j] = true
				deg[i]++
			}
		}
	}
	code := []int{}
	for step := 0; step < n-2; step++ {
		for v := 0; v < n; v++ {
			if deg[v] != 1 {
				continue
			}
			for u := 0; u < n; u++ {
				if adj[v][u] {
					code = append(code, u)
					adj[v][u], adj[u][v] = false, false
					deg[u]--
					deg[v]--
				}
			}
			break
		}
	}
	return code
}

func c07isTree(g graph.Graph) bool {
	n := g.N()
	if g.M() != n-1 {
		return false
	}
	seen := make([]bool, n)
	stack := []int{0}
	seen[0] = true
	cnt := 1
	for len(stack) > 0 {
		v := stack[len(stack)-1]
		stack = stack[:len(stack)-1]
		for u := 0; u < n; u++ {
			if u != v && g.IsEdge(u, v) && !seen[u] {
				seen[u] = true
				cnt++
				stack = append(stack, u)
			}
		}
	}
	return cnt == n
}

func c07intsEqual(a, b []int) bool {
	if len(a) != len(b) {
		return false
	}
	for i := range a {
		if a[i] != b[i] {
			return false
		}
	}
	return true
}

func c07checkMulticode(t *testing.T, name string, g *graph.DenseGraph, rng *rand.Rand) []byte {
	n := g.N()
	sp := graph.NewSparse(n, nil)
	for i := 0; i < n; i++ {
		for j := 0; j < i; j++ {
			if g.IsEdge(i, j) {
				sp.AddEdge(i, j)
			}
		}
	}
	want := c07multicode(g)
	for k, src := range []graph.Graph{g, sp, c07shuffled{g, rng}, c07shuffled{sp, rng}} {
		s := graph.MulticodeEncode(src)
		if !bytes.Equal(s, want) {
			t.Errorf("%s (source %d): Multicode %v, independent writer %v", name, k, s, want)
		}
		if h := graph.MulticodeDecode(s); !graph.Equal(g, h) {
			t.Errorf("%s (source %d): Multicode round trip failed for %v", name, k, s)
		}
	}
	return want
}

func TestC07DemoProperty(t *testing.T) {
	rng := rand.New(rand.NewSource(44))

	//Multicode: all graphs on at most 5 vertices, also as one concatenated stream.
	var stream []byte
	var all []*graph.DenseGraph
	for n := 0; n <= 5; n++ {
		m := n * (n - 1) / 2
		for mask := 0; mask < 1<<uint(m); mask++ {
			g := graph.NewDense(n, nil)
			e := 0
			for j := 1; j < n; j++ {
				for i := 0; i < j; i++ {
					if mask>>uint(e)&1 == 1 {
						g.AddEdge(i, j)
					}
					e++
				}
			}
			stream = append(stream, c07checkMulticode(t, "exhaustive", g, rng)...)
			all = append(all, g)
		}
	}
	for _, n := range []int{6, 8, 16, 17, 32, 64, 100, 254, 255} {
		stream = append(stream, c07checkMulticode(t, "edgeless", graph.NewDense(n, nil), rng)...)
		all = append(all, graph.NewDense(n, nil))
		for rep := 0; rep < 6; rep++ {
			g := graph.NewDense(n, nil)
			for e := rng.Intn(4 * n); e >= 0; e-- {
				if i, j := rng.Intn(n), rng.Intn(n); i != j {
					g.AddEdge(i, j)
				}
			}
			g.AddEdge(rng.Intn(n-1), n-1) //the last vertex is used
			stream = append(stream, c07checkMulticode(t, "random", g, rng)...)
			all = append(all, g)
		}
	}
	got := graph.MulticodeDecodeMultiple(stream)
	if len(got) != len(all) {
		t.Fatalf("MulticodeDecodeMultiple: %d graphs, want %d", len(got), len(all))
	}
	for i := range all {
		if !graph.Equal(all[i], got[i]) {
			t.Errorf("MulticodeDecodeMultiple: graph %d differs", i)
		}
	}

	//Pruefer: every code for n <= 6.
	for n := 2; n <= 6; n++ {
		code := make([]int, n-2)
		seen := map[string]bool{}
		total := 0
		for {
			tr := graph.PruferDecode(code)
			total++
			if tr.N() != n || !c07isTree(tr) {
				t.Fatalf("PruferDecode(%v) is not a tree on %d vertices", code, n)
			}
			seen[graph.Graph6Encode(tr)] = true
			for k, src := range []graph.Graph{tr, c07shuffled{tr, rng}} {
				if c := graph.PruferEncode(src); !c07intsEqual(c, code) {
					t.Errorf("PruferEncode(PruferDecode(%v)) = %v (source %d)", code, c, k)
				}
			}
			if c := c07prufer(tr); !c07intsEqual(c, code) {
				t.Errorf("independent encoder disagrees on %v: %v", code, c)
			}
			i := 0
			for ; i < len(code); i++ {
				code[i]++
				if code[i] < n {
					break
				}
				code[i] = 0
			}
			if i == len(code) {
				break
			}
		}
		if len(seen) != total {
			t.Errorf("n=%d: %d codes give %d different trees", n, total, len(seen))
		}
	}
	//Random codes and random trees for larger n.
	for _, n := range []int{7, 8, 13, 16, 31, 64, 100, 300} {
		for rep := 0; rep < 20; rep++ {
			code := make([]int, n-2)
			for i := range code {
				code[i] = rng.Intn(n)
			}
			tr := graph.PruferDecode(code)
			if tr.N() != n || !c07isTree(tr) {
				t.Fatalf("PruferDecode(%v) is not a tree", code)
			}
			if c := graph.PruferEncode(tr); !c07intsEqual(c, code) {
				t.Errorf("PruferEncode(PruferDecode(%v)) = %v", code, c)
			}
			tr = c07randomTree(n, rng)
			sp := graph.NewSparse(n, nil)
			for i := 0; i < n; i++ {
				for j := 0; j < i; j++ {
					if tr.IsEdge(i, j) {
						sp.AddEdge(i, j)
					}
				}
			}
			c := graph.PruferEncode(sp)
			if len(c) != n-2 || !c07intsEqual(c, c07prufer(tr)) || !c07intsEqual(c, graph.PruferEncode(tr)) {
				t.Errorf("PruferEncode of a random tree on %d vertices: %v", n, c)
			}
			for _, x := range c {
				if x < 0 || x >= n {
					t.Errorf("code entry %d outside 0..%d", x, n-1)
				}
			}
			if !graph.Equal(graph.PruferDecode(c), tr) {
				t.Errorf("PruferDecode(PruferEncode(t)) != t for n = %d", n)
			}
		}
	}
}

package c07

// held.go: results of EARLIER calls must still read the same after LATER calls.
//
// The codec checks of c07.go judge every result right after the call that
// produced it.  A session keeps the results of all nine functions (strings,
// byte records, codes, decoded graphs) of several inputs of different sizes
// alive while the next calls of the same and of the other functions are made;
// every held byte-like result is compared with the private copy taken when it
// was returned after every later call, every held graph is re-read through
// the observers at the end.  Finally the caller overwrites the results it
// owns and makes the same calls once more: they must give the same answers.

import (
	"fmt"
	"strings"

	"github.com/Tom-Johnston/mamba/graph"
	"github.com/Tom-Johnston/mamba/sortints"

	"verif/internal/engine"
	"verif/internal/oracle/codec"
	"verif/internal/oracle/rg"
)

var codecAPIs = []string{"Graph6Encode", "Sparse6Encode", "MulticodeEncode", "PruferEncode",
	"Graph6Decode", "Sparse6Decode", "MulticodeDecode", "MulticodeDecodeMultiple", "PruferDecode"}

// hin is one input of a session: a graph and, for n >= 2, a tree with its code.
type hin struct {
	g     *rg.G
	gk    string
	label string
	tree  *rg.G
	code  []int
	ck    string
}

func codeKey(code []int, label string) string {
	ck := fmt.Sprintf("n=%d,code=%v", len(code)+2, code)
	if len(ck) > 100 {
		ck = fmt.Sprintf("n=%d,%s,fnv=%08x", len(code)+2, label, hash32(ck))
	}
	return ck
}

func treeOfCode(code []int) *rg.G {
	if len(code)+2 <= 62 {
		return codec.PruferTree(code)
	}
	return codec.PruferTreeCounted(code)
}

func newHin(g *rg.G, label string) *hin {
	x := &hin{g: g, gk: graphKey(g, label), label: label}
	if g.N >= 2 {
		if codec.IsTree(g) {
			x.tree = g
			x.code = codec.PruferCode(g)
		} else { // a code derived from the graph
			x.code = make([]int, g.N-2)
			for i := range x.code {
				x.code[i] = (g.Deg(i)*5 + i*7 + g.M()) % g.N
			}
			x.tree = treeOfCode(x.code)
		}
		x.ck = codeKey(x.code, label)
	}
	return x
}

func repOf(g *rg.G, k int) (string, graph.Graph) {
	switch k % 4 {
	case 0:
		return "DenseGraph", g.Dense()
	case 1:
		return "SparseGraph", g.Sparse()
	case 2:
		return "DenseGraph(edge bytes 1..255)", g.DenseVariant(1 + k%5)
	}
	return "SparseGraph(spare capacity)", g.SparseVariant(1 + k%3)
}

type heldItem struct {
	api, in, call string
	op, sub       int
	n             int
	kind          byte // 's' string, 'b' bytes, 'i' ints, 'g' graph
	str, strSnap  string
	byt, bytSnap  []byte
	ints, intSnap []int
	gr            graph.Graph
	model         *rg.G
	edgeOnly      bool
	reported      bool
}

func cloneString(s string) string { return string(append([]byte(nil), s...)) }

func clipInts(a []int) string {
	if len(a) > 60 {
		return runs(a)
	}
	return fmt.Sprint(a)
}

// changed reports whether a byte-like held value differs from its snapshot.
func (it *heldItem) changed() (now, was string, ch bool) {
	switch it.kind {
	case 's':
		if it.str != it.strSnap {
			return clip(it.str), clip(it.strSnap), true
		}
	case 'b':
		if string(it.byt) != string(it.bytSnap) {
			return clipBytes(it.byt), clipBytes(it.bytSnap), true
		}
	case 'i':
		if len(it.ints) != len(it.intSnap) {
			return clipInts(it.ints), clipInts(it.intSnap), true
		}
		for i := range it.ints {
			if it.ints[i] != it.intSnap[i] {
				return clipInts(it.ints), clipInts(it.intSnap), true
			}
		}
	}
	return "", "", false
}

type session struct {
	m      *mon
	label  string
	calls  []string
	items  []*heldItem
	recs   [][]byte
	recG   []*rg.G
	prevN  int
	repeat map[[2]int]*heldItem // second pass: the held results of the first pass by (call number, sub)
	ops    int
}

func newSession(m *mon, label string) *session {
	return &session{m: m, label: label, prevN: -1}
}

func (s *session) detail(it *heldItem) map[string]interface{} {
	calls := s.calls
	note := ""
	if len(calls) > 150 {
		note = fmt.Sprintf("(the last 150 of %d calls)", len(calls))
		calls = calls[len(calls)-150:]
	}
	return map[string]interface{}{"workload": s.label, "result_of": it.call, "result_of_call_number": it.op,
		"calls_of_this_session_in_order": calls, "calls_note": note}
}

// afterCall compares every byte-like held result with its snapshot.
func (s *session) afterCall(latest string) {
	for _, it := range s.items {
		if it.reported || it.kind == 'g' {
			continue
		}
		if now, was, ch := it.changed(); ch {
			it.reported = true
			s.m.viol(it.api, "result-changed-by-a-later-call", s.label+","+it.in, s.detail(it),
				"the value returned by "+it.call+" now reads "+now+" (first seen after the later call "+latest+")", was+" (what was returned)")
		}
	}
}

// call makes one library call of the session; false if it panicked (judged by the codec checks).
func (s *session) call(api, desc string, n int, f func()) (int, bool) {
	c := s.m.c
	idx := len(s.calls)
	name := api + "(" + desc + ")"
	s.calls = append(s.calls, name)
	if s.prevN >= 0 {
		switch {
		case n > s.prevN:
			c.Obs("held:later_call_with_a_larger_input", 1)
		case n < s.prevN:
			c.Obs("held:later_call_with_a_smaller_input", 1)
		default:
			c.Obs("held:later_call_with_an_input_of_the_same_size", 1)
		}
	}
	s.prevN = n
	pi := c.Call("held|"+s.label+"|"+name, f)
	if pi != nil {
		c.Obs("held:call_panicked(judged by the codec checks, result not held)", 1)
		return idx, false
	}
	s.afterCall(name)
	return idx, true
}

func (s *session) add(it *heldItem) {
	c := s.m.c
	if s.repeat != nil {
		// second pass: the call must give what it gave before the caller overwrote the earlier results
		first := s.repeat[[2]int{it.op, it.sub}]
		if first == nil {
			return
		}
		c.Eval(1)
		c.Obs("held:calls_repeated_after_the_caller_overwrote_the_earlier_results", 1)
		bad := ""
		switch it.kind {
		case 's':
			if it.str != first.strSnap {
				bad = clip(it.str)
			}
		case 'b':
			if string(it.byt) != string(first.bytSnap) {
				bad = clipBytes(it.byt)
			}
		case 'i':
			if fmt.Sprint(it.ints) != fmt.Sprint(first.intSnap) {
				bad = clipInts(it.ints)
			}
		}
		if bad != "" {
			was := ""
			switch it.kind {
			case 's':
				was = clip(first.strSnap)
			case 'b':
				was = clipBytes(first.bytSnap)
			case 'i':
				was = clipInts(first.intSnap)
			}
			s.m.viol(it.api, "same-call-differs-after-caller-overwrote-earlier-results", s.label+","+it.in, s.detail(it), bad, was+" (the first call with this input)")
		}
		return
	}
	s.items = append(s.items, it)
}

func (s *session) holdString(api, in, call string, op, n int, v string) {
	s.add(&heldItem{api: api, in: in, call: call, op: op, n: n, kind: 's', str: v, strSnap: cloneString(v)})
}

func (s *session) holdBytes(api, in, call string, op, n int, v []byte) {
	s.add(&heldItem{api: api, in: in, call: call, op: op, n: n, kind: 'b', byt: v, bytSnap: append([]byte(nil), v...)})
}

func (s *session) holdInts(api, in, call string, op, n int, v []int) {
	s.add(&heldItem{api: api, in: in, call: call, op: op, n: n, kind: 'i', ints: v, intSnap: append([]int(nil), v...)})
}

// reads compares a library graph with a model: through every observer, or through IsEdge only.
func (s *session) reads(key string, h graph.Graph, model *rg.G, edgeOnly bool) (string, *engine.PanicInfo) {
	if !edgeOnly {
		return s.m.conforms(key, h, model)
	}
	bad := ""
	pi := s.m.c.Call(key, func() {
		if h.N() != model.N {
			bad = fmt.Sprintf("N()=%d, was %d", h.N(), model.N)
			return
		}
		if got := rg.FromGraph(h); !got.Equal(model) {
			bad = "IsEdge reads " + got.String()
		}
	})
	return bad, pi
}

// holdGraph keeps a decoded graph if it reads as the model right now (anything else is judged by the codec checks).
func (s *session) holdGraph(api, in, call string, op, sub int, h graph.Graph, model *rg.G, edgeOnly bool) {
	c := s.m.c
	if h == nil {
		return
	}
	key := "held|" + s.label + "|" + call + "|read-result"
	bad, pi := s.reads(key, h, model, edgeOnly)
	if s.repeat != nil {
		if s.repeat[[2]int{op, sub}] == nil {
			return
		}
		c.Eval(1)
		c.Obs("held:calls_repeated_after_the_caller_overwrote_the_earlier_results", 1)
		it := &heldItem{api: api, in: in, call: call, op: op, sub: sub}
		if pi != nil {
			s.m.viol(api, "same-call-differs-after-caller-overwrote-earlier-results", s.label+","+in, s.detail(it), pi.String(), "the graph "+model.String())
		} else if bad != "" {
			s.m.viol(api, "same-call-differs-after-caller-overwrote-earlier-results", s.label+","+in, s.detail(it), bad, "the graph the first call with this input returned: "+model.String())
		}
		return
	}
	if pi != nil || bad != "" {
		c.Obs("held:result_wrong_at_once(judged by the codec checks, result not held)", 1)
		return
	}
	s.items = append(s.items, &heldItem{api: api, in: in, call: call, op: op, sub: sub, n: model.N, kind: 'g', gr: h, model: model, edgeOnly: edgeOnly})
}

// step makes the calls of all nine functions for one input, in the given order.
func (s *session) step(x *hin, order []int, variant int) {
	g := x.g
	n := g.N
	for _, oi := range order {
		if s.m.c.Stopped() {
			return
		}
		api := codecAPIs[oi%len(codecAPIs)]
		s.ops++
		switch api {
		case "Graph6Encode", "Sparse6Encode", "MulticodeEncode":
			if api == "MulticodeEncode" && n > 255 {
				continue
			}
			rn, h := repOf(g, variant+oi)
			desc := rn + " " + x.gk
			var str string
			var b []byte
			idx, ok := s.call(api, desc, n, func() {
				switch api {
				case "Graph6Encode":
					str = graph.Graph6Encode(h)
				case "Sparse6Encode":
					str = graph.Sparse6Encode(h)
				default:
					b = graph.MulticodeEncode(h)
				}
			})
			if !ok {
				continue
			}
			if api == "MulticodeEncode" {
				s.holdBytes(api, x.gk, s.calls[idx], idx, n, b)
			} else {
				s.holdString(api, x.gk, s.calls[idx], idx, n, str)
			}
		case "PruferEncode":
			if x.tree == nil {
				continue
			}
			rn, h := repOf(x.tree, variant+oi)
			var code []int
			idx, ok := s.call(api, rn+" tree with code "+x.ck, n, func() { code = graph.PruferEncode(h) })
			if ok {
				s.holdInts(api, x.ck, s.calls[idx], idx, n, code)
			}
		case "Graph6Decode":
			str := codec.Graph6(g)
			if (variant+oi)%2 == 1 {
				str = codec.G6Header + str
			}
			var h *graph.DenseGraph
			var err error
			idx, ok := s.call(api, strKey(str), n, func() { h, err = graph.Graph6Decode(str) })
			if ok && err == nil {
				s.holdGraph(api, x.gk, s.calls[idx], idx, 0, h, g, false)
			}
		case "Sparse6Decode":
			str := codec.Sparse6OfGraph(g)
			if (variant+oi)%2 == 1 {
				str = codec.S6Header + str
			}
			var h *graph.SparseGraph
			var err error
			idx, ok := s.call(api, strKey(str), n, func() { h, err = graph.Sparse6Decode(str) })
			if ok && err == nil {
				s.holdGraph(api, x.gk, s.calls[idx], idx, 0, h, g, false)
			}
		case "MulticodeDecode":
			if n > 255 {
				continue
			}
			in := codec.Multicode(g)
			var h *graph.DenseGraph
			idx, ok := s.call(api, "record of "+x.gk, n, func() { h = graph.MulticodeDecode(in) })
			if ok {
				s.holdGraph(api, x.gk, s.calls[idx], idx, 0, h, g, false)
			}
		case "MulticodeDecodeMultiple":
			if n > 255 {
				continue
			}
			// the records of this and of the (up to two) previous inputs of the session
			s.recs = append(s.recs, codec.Multicode(g))
			s.recG = append(s.recG, g)
			from := len(s.recs) - 3
			if from < 0 {
				from = 0
			}
			var stream []byte
			for _, r := range s.recs[from:] {
				stream = append(stream, r...)
			}
			var hs []*graph.DenseGraph
			idx, ok := s.call(api, fmt.Sprintf("%d records ending with %s", len(s.recs)-from, x.gk), n, func() { hs = graph.MulticodeDecodeMultiple(stream) })
			if ok && len(hs) == len(s.recs)-from {
				for i, h := range hs {
					s.holdGraph(api, x.gk, s.calls[idx], idx, i, h, s.recG[from+i], false)
				}
			}
		case "PruferDecode":
			if x.tree == nil {
				continue
			}
			in := append([]int(nil), x.code...)
			var h *graph.DenseGraph
			idx, ok := s.call(api, "code "+x.ck, n, func() { h = graph.PruferDecode(in) })
			if ok {
				s.holdGraph(api, x.ck, s.calls[idx], idx, 0, h, x.tree, true)
			}
		}
	}
}

// finish re-reads every held result after all calls of the session.
func (s *session) finish() {
	c := s.m.c
	s.afterCall("(end of the session)")
	for _, it := range s.items {
		c.Eval(1)
		c.Obs("held:"+it.api+":results_reread_after_later_calls", 1)
		c.Obs("held:results_reread_after_later_calls", 1)
		c.ObsMax("held:calls_made_while_a_result_was_held", len(s.calls)-1-it.op)
	}
	s.rereadGraphs("result-changed-by-a-later-call", "")
	c.Obs("held:sessions", 1)
	c.ObsMax("held:results_held_in_one_session", len(s.items))
}

func (s *session) rereadGraphs(kind, stage string) {
	for _, it := range s.items {
		if it.kind != 'g' || it.reported {
			continue
		}
		bad, pi := s.reads("held|"+s.label+"|"+it.call+"|reread-result"+stage, it.gr, it.model, it.edgeOnly)
		if pi != nil {
			bad = pi.String()
		}
		if bad != "" {
			it.reported = true
			s.m.viol(it.api, kind, s.label+","+it.in, s.detail(it),
				fmt.Sprintf("the graph returned by %s (result %d of the call) now reads: %s", it.call, it.sub, bad), "it still reads as when it was returned: "+clip(it.model.String()))
		}
	}
}

func spareBytes(b []byte) int {
	f := b[:cap(b)]
	for i := len(b); i < len(f); i++ {
		f[i] = 0xEE
	}
	return len(f) - len(b)
}

func spareInts(a []int) int {
	f := a[:cap(a)]
	for i := len(a); i < len(f); i++ {
		f[i] = -9
	}
	return len(f) - len(a)
}

// useSpareCapacity lets the caller write into the spare capacity (the elements between len and cap, what an append
// would use) of every slice it was given; all results must still read the same afterwards: the capacity of one
// result must not reach into another result or into memory the library still uses.
func (s *session) useSpareCapacity() {
	c := s.m.c
	used := 0
	for _, it := range s.items {
		if it.reported {
			continue
		}
		switch it.kind {
		case 'b':
			used += spareBytes(it.byt)
		case 'i':
			used += spareInts(it.ints)
		case 'g':
			switch h := it.gr.(type) {
			case *graph.DenseGraph:
				used += spareBytes(h.Edges) + spareInts(h.DegreeSequence)
			case *graph.SparseGraph:
				for _, r := range h.Neighbourhoods {
					used += spareInts(r)
				}
				used += spareInts(h.DegreeSequence)
				f := h.Neighbourhoods[:cap(h.Neighbourhoods)]
				for i := len(h.Neighbourhoods); i < len(f); i++ {
					f[i] = sortints.SortedInts{-9}
					used++
				}
			}
		}
	}
	c.Obs("held:sessions_in_which_the_caller_wrote_into_the_spare_capacity_of_its_results", 1)
	if used == 0 {
		return
	}
	c.Obs("held:spare_elements_of_results_written_by_the_caller", used)
	for _, it := range s.items {
		if it.reported || it.kind == 'g' {
			continue
		}
		if now, was, ch := it.changed(); ch {
			it.reported = true
			s.m.viol(it.api, "result-changed-when-the-caller-used-the-spare-capacity-of-its-results", s.label+","+it.in, s.detail(it),
				"the value returned by "+it.call+" now reads "+now, was+" (what was returned)")
		}
	}
	s.rereadGraphs("result-changed-when-the-caller-used-the-spare-capacity-of-its-results", "-after-spare-capacity")
}

// overwrite lets the caller scribble over every result it was given.
func (s *session) overwrite() {
	for _, it := range s.items {
		switch it.kind {
		case 'b':
			for i := range it.byt {
				it.byt[i] = 0xEE
			}
		case 'i':
			for i := range it.ints {
				it.ints[i] = -9
			}
		case 'g':
			switch h := it.gr.(type) {
			case *graph.DenseGraph:
				for i := range h.Edges {
					h.Edges[i] ^= 1
				}
				for i := range h.DegreeSequence {
					h.DegreeSequence[i] = -9
				}
				h.NumberOfEdges = -9
			case *graph.SparseGraph:
				for v := range h.Neighbourhoods {
					for i := range h.Neighbourhoods[v] {
						h.Neighbourhoods[v][i] = -9
					}
					h.Neighbourhoods[v] = sortints.SortedInts{}
				}
				for i := range h.DegreeSequence {
					h.DegreeSequence[i] = -9
				}
				h.NumberOfEdges = -9
			}
		}
	}
}

// runSession runs the inputs through all functions, re-reads everything at the end and (twice = true) lets the
// caller overwrite its results and makes the same calls again.
func runSession(m *mon, label string, xs []*hin, orderOf func(step int) []int, twice bool) {
	s := newSession(m, label)
	for i, x := range xs {
		s.step(x, orderOf(i), i)
	}
	s.finish()
	if !twice || m.c.Stopped() {
		return
	}
	s.useSpareCapacity()
	first := map[[2]int]*heldItem{}
	for _, it := range s.items {
		if !it.reported {
			first[[2]int{it.op, it.sub}] = it
		}
	}
	s.overwrite()
	t := newSession(m, label)
	t.repeat = first
	for i, x := range xs {
		t.step(x, orderOf(i), i)
	}
}

func identityOrder(int) []int { return []int{0, 1, 2, 3, 4, 5, 6, 7, 8} }

func rotatedOrder(k int) func(int) []int {
	return func(step int) []int {
		o := make([]int, 9)
		for i := range o {
			o[i] = (i*(1+(k+step)%2*3) + k + step*2) % 9 // i or 4i (both coprime to 9) plus a shift
		}
		return o
	}
}

// smallPool: graphs on 0..7 vertices of equal and different sizes; the pairs of it give every
// "f(a) held while f'(b) is called" combination of the nine functions.
func smallPool() []*hin {
	type e = [2]int
	list := []struct {
		name string
		g    *rg.G
	}{
		{"n=0", rg.New(0)}, {"n=1", rg.New(1)}, {"K2", edgesOf(2, e{0, 1})}, {"edgeless n=3", rg.New(3)},
		{"path 0-1-2-3", edgesOf(4, e{0, 1}, e{1, 2}, e{2, 3})}, {"star centred at 3", edgesOf(4, e{0, 3}, e{1, 3}, e{2, 3})},
		{"K4", edgesOf(4, e{0, 1}, e{0, 2}, e{0, 3}, e{1, 2}, e{1, 3}, e{2, 3})}, {"paw", edgesOf(4, e{0, 1}, e{0, 2}, e{1, 2}, e{2, 3})},
		{"C5", edgesOf(5, e{0, 1}, e{1, 2}, e{2, 3}, e{3, 4}, e{0, 4})}, {"spider n=7", edgesOf(7, e{0, 6}, e{1, 6}, e{2, 5}, e{5, 6}, e{3, 4}, e{4, 6})},
		{"K3 + 3 isolated", edgesOf(6, e{0, 1}, e{0, 2}, e{1, 2})},
	}
	var out []*hin
	for _, x := range list {
		out = append(out, newHin(x.g, x.name))
	}
	return out
}

// seededInput draws a graph of one of four size classes.
func seededInput(r *engine.Rng, i int, maxN int) *hin {
	var n int
	switch r.Intn(8) {
	case 0:
		n = r.Intn(4)
	case 1, 2, 3:
		n = 4 + r.Intn(9)
	case 4, 5:
		n = 13 + r.Intn(58)
	case 6:
		n = 71 + r.Intn(185)
	default:
		n = []int{62, 63, 64, 128, 254, 255}[r.Intn(6)]
	}
	if n > maxN {
		n = 2 + n%(maxN-1)
	}
	var g *rg.G
	label := ""
	switch r.Intn(4) {
	case 0:
		g, label = genTree(r, n), "seeded tree"
	case 1:
		g, label = genRandom(r, n, 2.0/float64(n+1)), "seeded p=2/n"
	case 2:
		g, label = genRandom(r, n, 0.5), "seeded p=0.5"
	default:
		g, label = genRandom(r, n, r.Float()), "seeded random density"
	}
	return newHin(g, fmt.Sprintf("%s #%d", label, i))
}

func heldUnits(c *engine.Ctx) {
	// all ordered pairs (and a-b-a triples) of the small pool
	unit(c, "held/pairs", func(m *mon) {
		pool := smallPool()
		cnt := 0
		for i, a := range pool {
			for j, b := range pool {
				xs := []*hin{a, b}
				if (i+j)%3 == 0 {
					xs = append(xs, a)
				}
				runSession(m, fmt.Sprintf("%s then %s", a.label, b.label), xs, rotatedOrder(i*len(pool)+j), (i+j)%4 == 0)
				cnt++
			}
		}
		c.Obs("exhaustive:all ordered pairs of 11 small graphs (n = 0..7): results of all nine functions for the first held while all nine are called for the second", 1)
		c.Obs("held:sessions_of_the_pair_sweep", cnt)
		c.Sample("held", map[string]interface{}{"session": "path 0-1-2-3 then star centred at 3", "held": "every string / record / code / decoded graph returned for the first graph", "reread_after": "all calls for the second graph"})
	})
	// the whole pool in one process history, several orders
	unit(c, "held/pool-in-one-history", func(m *mon) {
		pool := smallPool()
		for k := 0; k < 4; k++ {
			xs := append([]*hin(nil), pool...)
			if k%2 == 1 {
				for i, j := 0, len(xs)-1; i < j; i, j = i+1, j-1 {
					xs[i], xs[j] = xs[j], xs[i]
				}
			}
			if k >= 2 {
				xs = append(xs, pool...)
			}
			runSession(m, fmt.Sprintf("the small pool in one history, order %d", k), xs, rotatedOrder(k), k == 0)
		}
	})
	// ladders: the same shape at growing and then shrinking sizes
	shapesL := []string{"path", "star", "random p=0.3", "complete", "caterpillar"}
	for si, sh := range shapesL {
		si, sh := si, sh
		unit(c, "held/ladder/"+sh, func(m *mon) {
			sizes := []int{1, 2, 3, 5, 8, 16, 33, 64, 130, 255, 130, 64, 33, 16, 8, 5, 3, 2, 1, 0, 40}
			if !c.Thorough() {
				sizes = []int{2, 3, 8, 33, 130, 255, 64, 16, 5, 1, 40}
			}
			var xs []*hin
			for i, n := range sizes {
				var g *rg.G
				switch sh {
				case "path":
					g = pathOn(n)
				case "star":
					g = rg.New(n)
					for v := 0; v+1 < n; v++ {
						g.Add(v, n-1)
					}
				case "complete":
					g = rg.New(n)
					for a := 0; a < n; a++ {
						for b := 0; b < a; b++ {
							g.Add(a, b)
						}
					}
				case "caterpillar":
					g = rg.New(n)
					for v := 1; v < n; v++ {
						if v%2 == 0 {
							g.Add(v, v-2)
						} else {
							g.Add(v, v-1)
						}
					}
				default:
					g = genRandom(fixedRng(si*1000+i), n, 0.3)
				}
				xs = append(xs, newHin(g, fmt.Sprintf("%s n=%d (rung %d)", sh, n, i)))
			}
			runSession(m, "ladder of "+sh+"s, sizes "+strings.Trim(fmt.Sprint(sizes), "[]"), xs, rotatedOrder(si), si%2 == 0)
		})
	}
	// seeded histories
	ns := c.Pick(144, 2400)
	per := 24
	for u := 0; u*per < ns; u++ {
		u := u
		unit(c, fmt.Sprintf("held/seeded/%d", u), func(m *mon) {
			for i := u * per; i < (u+1)*per && i < ns; i++ {
				r := c.Rand("held", i)
				k := 3 + r.Intn(8)
				maxN := 255
				if i%4 != 0 {
					maxN = 70
				}
				var xs []*hin
				for j := 0; j < k; j++ {
					if j > 0 && r.Bool(0.15) {
						xs = append(xs, xs[r.Intn(j)]) // the same input again
						continue
					}
					xs = append(xs, seededInput(r, i*100+j, maxN))
				}
				orders := make([][]int, k)
				for j := range orders {
					orders[j] = r.Perm(9)
				}
				runSession(m, fmt.Sprintf("seeded history #%d", i), xs, func(step int) []int { return orders[step] }, i%3 == 0)
			}
		})
	}
}

// fixedRng is a seed-independent generator for the fixed workload parts.
type lcg struct{ x uint64 }

func fixedRng(seed int) *lcg { return &lcg{uint64(seed)*2654435761 + 12345} }

func (l *lcg) Float() float64 {
	l.x = l.x*6364136223846793005 + 1442695040888963407
	return float64(l.x>>11) / (1 << 53)
}

type floater interface{ Float() float64 }

func genRandom(r floater, n int, p float64) *rg.G {
	g := rg.New(n)
	for a := 1; a < n; a++ {
		for b := 0; b < a; b++ {
			if r.Float() < p {
				g.Add(a, b)
			}
		}
	}
	return g
}

func genTree(r floater, n int) *rg.G {
	g := rg.New(n)
	for v := 1; v < n; v++ {
		g.Add(v, int(r.Float()*float64(v)))
	}
	return g
}

func pathOn(n int) *rg.G {
	g := rg.New(n)
	for v := 1; v < n; v++ {
		g.Add(v-1, v)
	}
	return g
}

// Demo for green change C06/8 (the error texts of Graph6Decode and Sparse6Decode are rewritten in the usual Go style:
// lower case, prefixed with the format name, more specific; nothing else changes - same inputs refused, same graphs
// returned, same (empty) graph handed back next to an error).
//
// Run (from the root of the mamba repository):
//
//	cp /tmp/green-out/C06/8/demo_test.go graph/zz_green_c06_8_demo_test.go
//	GOFLAGS=-mod=mod GOPROXY=off GOSUMDB=off GOTOOLCHAIN=local \
//	    go test -vet=off -count=1 -timeout 300s -run 'TestGreenC06_8' -v ./graph/
//	rm graph/zz_green_c06_8_demo_test.go
//
// TestGreenC06_8_Property      passes on the clean tree AND with the change: every string of length <= 3 over a
//	representative alphabet (and the encodings of all graphs on <= 5 vertices, with and without header) is either
//	refused with a non-nil error - and then the graph handed back is the well-formed graph on 0 vertices - or decoded
//	into a well-formed graph (symmetric, loop-free, M = #edges, Degrees/Neighbours = adjacency); encodings produced by
//	Graph6Encode / Sparse6Encode decode without error into exactly the encoded graph.
//
// TestGreenC06_8_OldIncidental passes on the clean tree, FAILS with the change: it pins the exact old error texts.
package graph_test

import (
	"fmt"
	"testing"

	"github.com/Tom-Johnston/mamba/graph"
)

func greenC06_8_wellFormed(g graph.Graph) error {
	n := g.N()
	m := 0
	deg := make([]int, n)
	for i := 0; i < n; i++ {
		if g.IsEdge(i, i) {
			return fmt.Errorf("loop at %d", i)
		}
		for j := 0; j < n; j++ {
			if g.IsEdge(i, j) != g.IsEdge(j, i) {
				return fmt.Errorf("not symmetric at %d,%d", i, j)
			}
			if i < j && g.IsEdge(i, j) {
				m++
				deg[i]++
				deg[j]++
			}
		}
	}
	if g.M() != m {
		return fmt.Errorf("M() = %d, adjacency has %d edges", g.M(), m)
	}
	d := g.Degrees()
	if len(d) != n {
		return fmt.Errorf("len(Degrees()) = %d, n = %d", len(d), n)
	}
	for v := 0; v < n; v++ {
		if d[v] != deg[v] {
			return fmt.Errorf("Degrees()[%d] = %d, adjacency says %d", v, d[v], deg[v])
		}
		nb := g.Neighbours(v)
		if len(nb) != deg[v] {
			return fmt.Errorf("Neighbours(%d) = %v, degree %d", v, nb, deg[v])
		}
		seen := map[int]bool{}
		for _, u := range nb {
			if u < 0 || u >= n || seen[u] || !g.IsEdge(u, v) {
				return fmt.Errorf("Neighbours(%d) = %v is not the adjacency", v, nb)
			}
			seen[u] = true
		}
	}
	return nil
}

func greenC06_8_checkDecoders(t *testing.T, s string) (okDense, okSparse bool) {
	d, err := graph.Graph6Decode(s)
	if d == nil {
		t.Fatalf("Graph6Decode(%q) returned a nil graph", s)
	}
	if e := greenC06_8_wellFormed(d); e != nil {
		t.Fatalf("Graph6Decode(%q): %v", s, e)
	}
	if len(d.Edges) != d.N()*(d.N()-1)/2 || len(d.DegreeSequence) != d.N() {
		t.Fatalf("Graph6Decode(%q): field sizes", s)
	}
	if err != nil && d.N() != 0 {
		t.Fatalf("Graph6Decode(%q): error %v next to a graph on %d vertices", s, err, d.N())
	}
	sp, err2 := graph.Sparse6Decode(s)
	if sp == nil {
		t.Fatalf("Sparse6Decode(%q) returned a nil graph", s)
	}
	if e := greenC06_8_wellFormed(sp); e != nil {
		t.Fatalf("Sparse6Decode(%q): %v", s, e)
	}
	if len(sp.Neighbourhoods) != sp.N() || len(sp.DegreeSequence) != sp.N() {
		t.Fatalf("Sparse6Decode(%q): field sizes", s)
	}
	if err2 != nil && sp.N() != 0 {
		t.Fatalf("Sparse6Decode(%q): error %v next to a graph on %d vertices", s, err2, sp.N())
	}
	return err == nil, err2 == nil
}

func TestGreenC06_8_Property(t *testing.T) {
	alphabet := []byte{0, ' ', ':', '>', '?', '@', 'A', 'C', 'D', 'E', 'W', '_', 'w', '}', '~', 127, 200}
	var rec func(prefix []byte, depth int)
	accepted, refused := 0, 0
	rec = func(prefix []byte, depth int) {
		for _, hdr := range []string{"", ">>graph6<<", ">>sparse6<<", ":"} {
			a, b := greenC06_8_checkDecoders(t, hdr+string(prefix))
			for _, ok := range []bool{a, b} {
				if ok {
					accepted++
				} else {
					refused++
				}
			}
		}
		if depth == 0 {
			return
		}
		for _, c := range alphabet {
			rec(append(prefix[:len(prefix):len(prefix)], c), depth-1)
		}
	}
	rec(nil, 3)
	if accepted == 0 || refused == 0 {
		t.Fatalf("accepted %d refused %d", accepted, refused)
	}

	// Round trips: every graph on <= 5 vertices.
	for n := 0; n <= 5; n++ {
		pairs := n * (n - 1) / 2
		for mask := 0; mask < 1<<uint(pairs); mask++ {
			edges := make([]byte, pairs)
			for b := range edges {
				edges[b] = byte(mask >> uint(b) & 1)
			}
			g := graph.NewDense(n, edges)
			for _, hdr := range []string{"", ">>graph6<<"} {
				d, err := graph.Graph6Decode(hdr + graph.Graph6Encode(g))
				if err != nil || !graph.Equal(d, g) || greenC06_8_wellFormed(d) != nil {
					t.Fatalf("graph6 round trip n=%d mask=%d: %v", n, mask, err)
				}
			}
			for _, hdr := range []string{"", ">>sparse6<<"} {
				sp, err := graph.Sparse6Decode(hdr + graph.Sparse6Encode(g))
				if err != nil || !graph.Equal(sp, g) || greenC06_8_wellFormed(sp) != nil {
					t.Fatalf("sparse6 round trip n=%d mask=%d: %v", n, mask, err)
				}
			}
		}
	}
	for _, g := range []*graph.DenseGraph{graph.Path(70), graph.KneserGraph(5, 2), graph.RandomGraph(64, 0.3, 3)} {
		d, err := graph.Graph6Decode(graph.Graph6Encode(g))
		if err != nil || !graph.Equal(d, g) || greenC06_8_wellFormed(d) != nil {
			t.Fatalf("graph6 round trip: %v", err)
		}
		sp, err := graph.Sparse6Decode(graph.Sparse6Encode(g))
		if err != nil || !graph.Equal(sp, g) || greenC06_8_wellFormed(sp) != nil {
			t.Fatalf("sparse6 round trip: %v", err)
		}
	}
}

func TestGreenC06_8_OldIncidental(t *testing.T) {
	g6 := []struct{ in, want string }{
		{"D 1", "Byte out of range. Index: 1 Value: 32"},
		{"~A", "String too short - unable to decode n"},
		{"~~AAAA", "String too short - unable to decode n"},
		{"D?", "String too short - unable to decode edges"},
		{"~~~~~~~~", "Graph too large"},
	}
	for _, c := range g6 {
		_, err := graph.Graph6Decode(c.in)
		if err == nil {
			t.Fatalf("Graph6Decode(%q) accepted", c.in)
		}
		if err.Error() != c.want {
			t.Errorf("Graph6Decode(%q): error text %q, the old code said %q", c.in, err.Error(), c.want)
		}
	}
	s6 := []struct{ in, want string }{
		{"", "String too short - expected the first character to be :"},
		{"D?", "Incorrect first character. Expected: : Found: 68"},
		{":D 1", "Byte out of range (63-126). Index: 1 Value: 32"},
		{":", "String too short - unable to decode n"},
		{":~A", "String too short - unable to decode n"},
		{":~~AAAA", "String too short - unable to decode n"},
	}
	for _, c := range s6 {
		_, err := graph.Sparse6Decode(c.in)
		if err == nil {
			t.Fatalf("Sparse6Decode(%q) accepted", c.in)
		}
		if err.Error() != c.want {
			t.Errorf("Sparse6Decode(%q): error text %q, the old code said %q", c.in, err.Error(), c.want)
		}
	}
}

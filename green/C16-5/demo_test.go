// Demonstration for C16-5 (domain validation in Rank/Unrank).
//
// Run (from the repository root, offline):
//   cp demo_test.go comb/zz_demo_test.go
//   GOFLAGS=-mod=mod GOPROXY=off GOSUMDB=off GOTOOLCHAIN=local go test -vet=off -count=1 -timeout 120s -run 'TestDemo' -v ./comb
//
// TestDemoProperty passes on the clean tree and with the patch.
// TestDemoIncidentalOld asserts the OLD behaviour on inputs OUTSIDE the domain of the property
// (negative rank, sequences which are not strictly increasing); it passes on the clean tree and fails with the patch.
package comb_test

import (
	"fmt"
	"math"
	"math/big"
	"reflect"
	"testing"

	"github.com/Tom-Johnston/mamba/comb"
	"github.com/Tom-Johnston/mamba/itertools"
)

func try(f func()) (p interface{}) {
	defer func() { p = recover() }()
	f()
	return nil
}

func TestDemoIncidentalOld(t *testing.T) {
	var got []int
	if p := try(func() { got = comb.Unrank(-1, 3) }); p != nil {
		t.Errorf("Unrank(-1, 3) panicked: %v (old: returns [0 1 2])", p)
	} else if !reflect.DeepEqual(got, []int{0, 1, 2}) {
		t.Errorf("Unrank(-1, 3) = %v (old: [0 1 2])", got)
	}
	if p := try(func() { got = comb.Unrank(math.MinInt64, 2) }); p != nil {
		t.Errorf("Unrank(MinInt, 2) panicked: %v (old: returns [0 1])", p)
	}
	var r int
	if p := try(func() { r = comb.Rank([]int{5, 5}) }); p != nil {
		t.Errorf("Rank([5 5]) panicked: %v (old: 15)", p)
	} else if r != 15 {
		t.Errorf("Rank([5 5]) = %d (old: 15)", r)
	}
	if p := try(func() { r = comb.Rank([]int{3, 1}) }); p != nil {
		t.Errorf("Rank([3 1]) panicked: %v (old: 3)", p)
	} else if r != 3 {
		t.Errorf("Rank([3 1]) = %d (old: 3)", r)
	}
	p := try(func() { comb.Unrank(0, -1) })
	if s := fmt.Sprint(p); s != "runtime error: makeslice: len out of range" {
		t.Errorf("Unrank(0, -1) panic value %q (old: runtime makeslice error)", s)
	}
}

func TestDemoProperty(t *testing.T) {
	//Coeff / CoeffUint64 are exact or panic, and are exact whenever C(n,k)*min(k,n-k) fits.
	max64 := new(big.Int).SetUint64(math.MaxUint64)
	maxInt := big.NewInt(math.MaxInt64)
	for n := int64(0); n <= 130; n++ {
		for k := int64(0); k <= n+1; k++ {
			want := new(big.Int).Binomial(n, k)
			mk := k
			if n-k < mk {
				mk = n - k
			}
			if mk < 1 {
				mk = 1
			}
			need := new(big.Int).Mul(want, big.NewInt(mk))
			var got uint64
			p := try(func() { got = comb.CoeffUint64(uint64(n), uint64(k)) })
			if p == nil && (!want.IsUint64() || want.Uint64() != got) {
				t.Fatalf("CoeffUint64(%d,%d) = %d want %v", n, k, got, want)
			}
			if p != nil && need.Cmp(max64) <= 0 {
				t.Fatalf("CoeffUint64(%d,%d) panicked inside the guaranteed range", n, k)
			}
			var goti int
			p = try(func() { goti = comb.Coeff(int(n), int(k)) })
			if p == nil && (!want.IsInt64() || want.Int64() != int64(goti)) {
				t.Fatalf("Coeff(%d,%d) = %d want %v", n, k, goti, want)
			}
			if p != nil && need.Cmp(maxInt) <= 0 {
				t.Fatalf("Coeff(%d,%d) panicked inside the guaranteed range", n, k)
			}
		}
	}
	//Pascal's triangle.
	tri := comb.Coeffs(40)
	for m := 0; m <= 40; m++ {
		if len(tri[m]) != m/2+1 {
			t.Fatalf("row %d has length %d", m, len(tri[m]))
		}
		for k := range tri[m] {
			if !new(big.Int).Binomial(int64(m), int64(k)).IsInt64() || int64(tri[m][k]) != new(big.Int).Binomial(int64(m), int64(k)).Int64() {
				t.Fatalf("Coeffs(40)[%d][%d] = %d", m, k, tri[m][k])
			}
		}
	}
	//Rank, Unrank and CombinationsColex agree.
	for n := 0; n <= 11; n++ {
		for k := 0; k <= n+1; k++ {
			it := itertools.CombinationsColex(n, k)
			i := 0
			for it.Next() {
				v := it.Value()
				if r := comb.Rank(v); r != i {
					t.Fatalf("n=%d k=%d: Rank(%v) = %d want %d", n, k, v, r, i)
				}
				if u := comb.Unrank(i, k); len(u) != len(v) || (k > 0 && !reflect.DeepEqual(u, v)) {
					t.Fatalf("n=%d k=%d: Unrank(%d) = %v want %v", n, k, i, u, v)
				}
				i++
			}
			if i != comb.Coeff(n, k) {
				t.Fatalf("n=%d k=%d: %d subsets", n, k, i)
			}
		}
	}
	//Large ranks: Unrank returns a strictly increasing k-set whose rank (in big arithmetic) is r.
	ranks := []int{0, 1, 1333313333400026, 1333313333400025, 1 << 40, math.MaxInt64 - 1, math.MaxInt64}
	for _, r := range ranks {
		for k := 3; k <= 70; k++ {
			u := comb.Unrank(r, k)
			if len(u) != k {
				t.Fatalf("Unrank(%d,%d) has length %d", r, k, len(u))
			}
			sum := new(big.Int)
			for i, v := range u {
				if v < 0 || (i > 0 && v <= u[i-1]) {
					t.Fatalf("Unrank(%d,%d) = %v is not strictly increasing", r, k, u)
				}
				sum.Add(sum, new(big.Int).Binomial(int64(v), int64(i+1)))
			}
			if !sum.IsInt64() || sum.Int64() != int64(r) {
				t.Fatalf("Unrank(%d,%d) = %v has rank %v", r, k, u, sum)
			}
			var back int
			if p := try(func() { back = comb.Rank(u) }); p == nil && back != r {
				t.Fatalf("Rank(Unrank(%d,%d)) = %d", r, k, back)
			}
		}
	}
}

#!/bin/bash
# usage: selftest/mutant.sh <Cxx> <tier> <file-relative-to-repo> <python-replace-old> <python-replace-new> [count]
# Copies /repo to a scratch dir, replaces the first occurrence of OLD by NEW in FILE, checks that the
# mutant builds and passes the repo's tests, runs the check against it and reports CAUGHT / SURVIVED.
set -u
prop="$1"; tier="$2"; file="$3"; old="$4"; new="$5"
D=$(mktemp -d /tmp/mut.XXXXXX)
trap 'rm -rf "$D"' EXIT
cp -r /repo/. "$D/"
python3 - "$D/$file" "$old" "$new" <<'PY' || { echo "MUTANT-NOT-APPLIED"; exit 3; }
import sys
p,old,new=sys.argv[1:4]
s=open(p).read()
if old not in s:
    sys.exit(1)
s=s.replace(old,new,1)
open(p,'w').write(s)
PY
export GOFLAGS=-mod=mod GOPROXY=off GOSUMDB=off GOTOOLCHAIN=local
if ! (cd "$D" && go build ./... 2>/dev/null); then echo "MUTANT-DOES-NOT-BUILD"; exit 3; fi
if ! (cd "$D" && go test -vet=off -count=1 -timeout 300s ./... >/dev/null 2>&1); then echo "MUTANT-FAILS-REPO-TESTS"; exit 3; fi
out=$(cd /verif && VERIF_RUN_TAG="-mut$$" VERIF_REPO="$D" VERIF_BUILD="/verif/.build/mut-$prop" ./check "$prop" "$tier" 2>&1)
rc=$?
echo "$out" | grep -E "^(VIOLATION|INCONCLUSIVE|OK|KNOWN)" | head -4 | cut -c1-250
echo "$out" | grep -E "^  key=" | head -2 | cut -c1-250
if [ $rc -eq 1 ]; then echo "CAUGHT ($file: $old -> $new)"; else echo "SURVIVED rc=$rc ($file: $old -> $new)"; fi

// dev-c11 links only the C11 monitor (development binary).
package main

import (
	"verif/internal/cli"
	_ "verif/internal/props/c11"
)

func main() { cli.Main() }

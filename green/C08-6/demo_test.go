// Demo for C08 green change 6 (Graph6Decode / Sparse6Decode: cheap length checks first, byte range scan afterwards).
//
// Run (from the root of the library worktree):
//
//	cp /tmp/green-out/C08/6/demo_test.go graph/zz_c08_demo_test.go
//	export GOFLAGS=-mod=mod GOPROXY=off GOSUMDB=off GOTOOLCHAIN=local
//	go test -vet=off -count=1 -timeout 300s -run 'TestC08Demo' -v ./graph/
//	rm graph/zz_c08_demo_test.go
//
// TestC08DemoProperty       checks the property itself on strings that are BOTH cut short AND contain bytes outside
//
//	63..126 (and on ordinary ones): no panic, an error or a well-formed graph on the declared n,
//	a string with a byte outside 63..126 is never accepted, re-encode/decode gives the same
//	graph.  PASSES on the clean tree and with the change.
//
// TestC08DemoIncidentalOld  asserts the OLD precedence: a string with two defects is refused with the "Byte out of
//
//	range" message.  PASSES on the clean tree, FAILS with the change (refused with "String too
//	short ..." / "Graph too large", because the constant time checks now come first).
package graph_test

import (
	"math/rand"
	"strings"
	"testing"

	"github.com/Tom-Johnston/mamba/graph"
)

type c08Case struct {
	s      string
	sparse bool
}

// Strings with two defects at once: the text of the error they got before the change starts with "Byte out of range".
var c08TwoDefects = []c08Case{
	{"~\x00", false},            // size header cut short + byte 0
	{"~?\n", false},             // size header cut short + line feed
	{"~~????\n", false},         // long size header cut short + line feed
	{"D\n", false},              // 5 vertices, edge bits missing + line feed
	{"D ", false},               // a space and one character too few
	{">>graph6<<D\r", false},    // header, then too short + carriage return
	{"~~~~~~~~ ", false},        // n = 2^36-1: too large + a space
	{"\x00", false},             // byte 0 read as n = 193: too short
	{":~\x00", true},            // size header cut short + byte 0
	{":~?\n", true},             //
	{":~~????\n", true},         //
	{">>sparse6<<:~\x7f", true}, // header, size header cut short + byte 127
}

func c08Call(c c08Case) (g graph.Graph, n int, err error, panicked interface{}) {
	defer func() { panicked = recover() }()
	if c.sparse {
		h, e := graph.Sparse6Decode(c.s)
		if e == nil {
			g, n = h, h.N()
		}
		return g, n, e, nil
	}
	h, e := graph.Graph6Decode(c.s)
	if e == nil {
		g, n = h, h.N()
	}
	return g, n, e, nil
}

// c08Body strips the optional header (and the colon), ok=false if a sparse6 string has no colon.
func c08Body(c c08Case) (string, bool) {
	s := c.s
	if c.sparse {
		s = strings.TrimPrefix(s, ">>sparse6<<")
		if len(s) == 0 || s[0] != ':' {
			return "", false
		}
		return s[1:], true
	}
	return strings.TrimPrefix(s, ">>graph6<<"), true
}

func c08InRange(s string) bool {
	for i := 0; i < len(s); i++ {
		if s[i] < 63 || s[i] > 126 {
			return false
		}
	}
	return true
}

// c08DeclaredN reads the size header of a body whose bytes are all in range.
func c08DeclaredN(b string) (int, bool) {
	switch {
	case len(b) == 0:
		return 0, false
	case b[0] != 126:
		return int(b[0] - 63), true
	case len(b) < 2 || b[1] != 126:
		if len(b) < 4 {
			return 0, false
		}
		return int(b[1]-63)<<12 | int(b[2]-63)<<6 | int(b[3]-63), true
	}
	if len(b) < 8 {
		return 0, false
	}
	n := 0
	for _, c := range []byte(b[2:8]) {
		n = n<<6 | int(c-63)
	}
	return n, true
}

func c08Check(t *testing.T, c c08Case) (accepted bool) {
	g, n, err, p := c08Call(c)
	if p != nil {
		t.Fatalf("%q (sparse=%v) panicked: %v", c.s, c.sparse, p)
	}
	if err != nil {
		return false
	}
	body, ok := c08Body(c)
	if !ok || !c08InRange(body) {
		t.Fatalf("%q (sparse=%v) was accepted although it is not made of bytes 63..126", c.s, c.sparse)
	}
	if !c.sparse && body == "" {
		if n != 0 {
			t.Fatalf("empty string: n = %v", n)
		}
		return true
	}
	want, ok := c08DeclaredN(body)
	if !ok || want != n {
		t.Fatalf("%q (sparse=%v): graph on %v vertices, declared %v (%v)", c.s, c.sparse, n, want, ok)
	}
	m := 0
	for v := 0; v < n; v++ {
		nb := g.Neighbours(v)
		if len(nb) != g.Degrees()[v] {
			t.Fatalf("%q: degree of %v", c.s, v)
		}
		for i, u := range nb {
			if u < 0 || u >= n || u == v || (i > 0 && nb[i-1] >= u) || !g.IsEdge(u, v) || !g.IsEdge(v, u) {
				t.Fatalf("%q: neighbourhood of %v is %v", c.s, v, nb)
			}
		}
		m += len(nb)
	}
	if m != 2*g.M() {
		t.Fatalf("%q: M", c.s)
	}
	d, err := graph.Graph6Decode(graph.Graph6Encode(g))
	if err != nil || !graph.Equal(g, d) {
		t.Fatalf("%q: graph6 round trip (%v)", c.s, err)
	}
	h, err := graph.Sparse6Decode(graph.Sparse6Encode(g))
	if err != nil || !graph.Equal(g, h) {
		t.Fatalf("%q: sparse6 round trip (%v)", c.s, err)
	}
	return true
}

func TestC08DemoProperty(t *testing.T) {
	for _, c := range c08TwoDefects {
		if c08Check(t, c) {
			t.Fatalf("%q (sparse=%v) was accepted", c.s, c.sparse)
		}
	}
	for _, c := range []c08Case{{"", false}, {"?", false}, {"DQc", false}, {">>graph6<<DQc", false}, {"DQc~~", false}, {"~??DQc", false},
		{":?", true}, {":@", true}, {":K`ADOccQXK`IaXcQMb", true}, {":~??K`ADOccQXK`IaXcQMb", true}} {
		if !c08Check(t, c) {
			t.Fatalf("%q (sparse=%v) was refused", c.s, c.sparse)
		}
	}
	r := rand.New(rand.NewSource(6))
	accepted := 0
	for it := 0; it < 40000; it++ {
		c := c08Case{sparse: it%2 == 0}
		var b []byte
		if c.sparse {
			b = append(b, ':')
		}
		rb := func() byte {
			if r.Intn(6) == 0 {
				return byte(r.Intn(256))
			}
			return byte(63 + r.Intn(64))
		}
		switch r.Intn(4) {
		case 0, 1:
			x := rb()
			if x == 126 {
				x = 70
			}
			b = append(b, x)
		case 2:
			b = append(b, 126, 63, 63, rb()) // n < 256 (whatever the last byte is)
		case 3:
			b = append(b, 126, 126, 63, 63, 63, 63, 63, rb())
		}
		for l := r.Intn(24); l > 0; l-- {
			if r.Intn(40) == 0 {
				b = append(b, byte(r.Intn(256)))
			} else {
				b = append(b, byte(63+r.Intn(64)))
			}
		}
		if r.Intn(4) == 0 {
			b = b[:r.Intn(len(b)+1)]
		}
		c.s = string(b)
		if c08Check(t, c) {
			accepted++
		}
	}
	if accepted < 5000 {
		t.Fatalf("only %v accepted", accepted)
	}
}

func TestC08DemoIncidentalOld(t *testing.T) {
	for _, c := range c08TwoDefects {
		_, _, err, p := c08Call(c)
		if p != nil || err == nil {
			t.Fatalf("%q (sparse=%v): panic %v, error %v", c.s, c.sparse, p, err)
		}
		t.Logf("%-28q -> %v", c.s, err)
		if !strings.HasPrefix(err.Error(), "Byte out of range") {
			t.Errorf("%q (sparse=%v): OLD behaviour was to report the byte outside 63..126 first; now: %v", c.s, c.sparse, err)
		}
	}
}

// Package gen holds the input generators: isomorphism-class lists, labelled
// sweeps, structured families and seeded random graphs.
package gen

import (
	"fmt"
	"sync"

	"github.com/Tom-Johnston/mamba/graph/search"

	"verif/internal/oracle/iso"
	"verif/internal/oracle/polya"
	"verif/internal/oracle/rg"
)

var (
	classMu   sync.Mutex
	classMemo = map[int][]*rg.G{}
)

// Classes returns one representative of every isomorphism class of graphs on
// n <= 8 vertices, produced by the harness itself (vertex extension +
// invariant bucketing + backtracking isomorphism test) and checked against the
// Polya count.  It does not use the library.
func Classes(n int) []*rg.G {
	classMu.Lock()
	defer classMu.Unlock()
	return classesLocked(n)
}

func classesLocked(n int) []*rg.G {
	if r, ok := classMemo[n]; ok {
		return r
	}
	if n > 8 {
		panic("gen.Classes: n > 8 not supported by the independent generator")
	}
	var out []*rg.G
	if n == 0 {
		out = []*rg.G{rg.New(0)}
	} else {
		prev := classesLocked(n - 1)
		buckets := map[uint64][]*rg.G{}
		for _, p := range prev {
			for mask := 0; mask < 1<<uint(n-1); mask++ {
				var nb []int
				for v := 0; v < n-1; v++ {
					if mask>>uint(v)&1 == 1 {
						nb = append(nb, v)
					}
				}
				// only extensions whose new vertex has minimum degree are
				// needed (every graph arises by adding back a min-degree vertex)
				h := p.AddVertex(nb)
				d := len(nb)
				ok := true
				for v := 0; v < n-1; v++ {
					if h.Deg(v) < d {
						ok = false
						break
					}
				}
				if !ok {
					continue
				}
				inv := iso.Invariant(h)
				dup := false
				for _, q := range buckets[inv] {
					if iso.Isomorphic(h, q) {
						dup = true
						break
					}
				}
				if !dup {
					buckets[inv] = append(buckets[inv], h)
					out = append(out, h)
				}
			}
		}
	}
	if want := polya.Graphs(n); want.Int64() != int64(len(out)) {
		panic(fmt.Sprintf("gen.Classes(%d): generated %d classes, Polya count is %v", n, len(out), want))
	}
	classMemo[n] = out
	return out
}

// ClassesFromLibrary lists class representatives for n >= 9 using the
// library's search.All as an input source only; the count is checked against
// the Polya count and an error is returned on mismatch (the caller reports
// INCONCLUSIVE, C03 is the property that judges the search itself).
// shard a of m (0 <= a < m) can be requested to cut the cost.
func ClassesFromLibrary(n, a, m int, f func(g *rg.G)) (count int) {
	it := search.All(n, a, m)
	for it.Next() {
		f(rg.FromGraph(it.Value()))
		count++
	}
	return count
}

// AllLabelled calls f for every labelled graph on n vertices (2^(n(n-1)/2)),
// reusing one graph value (f must not retain it).  from/step shard the
// enumeration: edge masks from, from+step, ...
func AllLabelled(n int, from, step uint64, f func(mask uint64, g *rg.G)) {
	e := n * (n - 1) / 2
	type pr struct{ i, j int }
	var pairs []pr
	for j := 0; j < n; j++ {
		for i := 0; i < j; i++ {
			pairs = append(pairs, pr{i, j})
		}
	}
	g := rg.New(n)
	total := uint64(1) << uint(e)
	for mask := from; mask < total; mask += step {
		for i := range g.A {
			g.A[i] = 0
		}
		for k := 0; k < e; k++ {
			if mask>>uint(k)&1 == 1 {
				g.Add(pairs[k].i, pairs[k].j)
			}
		}
		f(mask, g)
	}
}

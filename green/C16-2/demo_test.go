// Demo for C16 change 2 (Unrank by bisection instead of walking up one element at a time, no table for
// n <= 32, panics carry descriptive error values instead of fixed strings).
//
// Run (from the root of the mamba worktree, offline):
//
//	export GOFLAGS=-mod=mod GOPROXY=off GOSUMDB=off GOTOOLCHAIN=local
//	cp /tmp/green-out/C16/2/demo_test.go comb/c16_demo_test.go
//	go test -vet=off -count=1 -timeout 300s -run 'TestC16Demo' -v ./comb/ ; rm comb/c16_demo_test.go
//
// TestC16DemoProperty checks the property itself on the demo inputs (exact value or panic, the value whenever
// C(n,k)*min(k,n-k) fits, Rank/Unrank inverse and in CombinationsColex order): PASSES before and after.
// TestC16DemoIncidentalPanicValues asserts the OLD panic values (plain strings with fixed texts): PASSES on the
// clean tree, FAILS with the change (the values are now errors with other texts).
// TestC16DemoIncidentalUnrankCost asserts that Unrank(r, 1) costs time proportional to r as the old upward walk
// did (r = 4e8 is compared with r = 4e6): PASSES on the clean tree, FAILS with the change (both take microseconds).
package comb_test

import (
	"math"
	"math/big"
	"testing"
	"time"

	"github.com/Tom-Johnston/mamba/comb"
	"github.com/Tom-Johnston/mamba/itertools"
)

func c16Big(n, k uint64) *big.Int {
	return new(big.Int).Binomial(int64(n), int64(k))
}

func c16Panic(f func()) (p interface{}) {
	defer func() { p = recover() }()
	f()
	return nil
}

var c16Args = [][2]uint64{{33, 16}, {32, 16}, {31, 15}, {62, 31}, {63, 31}, {67, 33}, {68, 34}, {100, 50}, {4294967296, 2}, {4294967297, 2}, {3329022, 3}, {3329023, 3}, {1 << 63, 1 << 62}}

func TestC16DemoProperty(t *testing.T) {
	maxU := new(big.Int).SetUint64(math.MaxUint64)
	maxI := big.NewInt(math.MaxInt64)
	check := func(n, k uint64) {
		want := big.NewInt(0)
		mk := uint64(0)
		if k <= n {
			mk = k
			if n-k < mk {
				mk = n - k
			}
			if mk > 200 {
				want = new(big.Int).Lsh(big.NewInt(1), 100) // certainly does not fit
			} else {
				want = c16Big(n, mk)
			}
		}
		need := new(big.Int).Mul(want, new(big.Int).SetUint64(mk))
		var v uint64
		p := c16Panic(func() { v = comb.CoeffUint64(n, k) })
		if p == nil && new(big.Int).SetUint64(v).Cmp(want) != 0 {
			t.Errorf("CoeffUint64(%d, %d) = %d, want %s", n, k, v, want)
		}
		if p != nil && need.Cmp(maxU) <= 0 {
			t.Errorf("CoeffUint64(%d, %d) panicked inside the guaranteed range: %v", n, k, p)
		}
		if n > math.MaxInt64 || k > math.MaxInt64 {
			return
		}
		var w int
		p = c16Panic(func() { w = comb.Coeff(int(n), int(k)) })
		if p == nil && big.NewInt(int64(w)).Cmp(want) != 0 {
			t.Errorf("Coeff(%d, %d) = %d, want %s", n, k, w, want)
		}
		if p != nil && need.Cmp(maxI) <= 0 {
			t.Errorf("Coeff(%d, %d) panicked inside the guaranteed range: %v", n, k, p)
		}
	}
	for n := uint64(0); n <= 70; n++ {
		for k := uint64(0); k <= n+1; k++ {
			check(n, k)
		}
	}
	for _, a := range c16Args {
		check(a[0], a[1])
		check(a[0], a[0]-a[1])
	}
	cs := comb.Coeffs(40)
	for m := 0; m <= 40; m++ {
		if len(cs[m]) != m/2+1 {
			t.Fatalf("Coeffs(40)[%d] has length %d", m, len(cs[m]))
		}
		for k := 0; k <= m/2; k++ {
			if big.NewInt(int64(cs[m][k])).Cmp(c16Big(uint64(m), uint64(k))) != 0 {
				t.Errorf("Coeffs(40)[%d][%d] = %d", m, k, cs[m][k])
			}
		}
	}
	// Rank and Unrank follow CombinationsColex.
	for n := 0; n <= 10; n++ {
		for k := 0; k <= n; k++ {
			it := itertools.CombinationsColex(n, k)
			for r := 0; it.Next(); r++ {
				c := it.Value()
				if got := comb.Rank(c); got != r {
					t.Fatalf("Rank(%v) = %d, want %d", c, got, r)
				}
				u := comb.Unrank(r, k)
				for i := range c {
					if len(u) != k || u[i] != c[i] {
						t.Fatalf("Unrank(%d, %d) = %v, want %v", r, k, u, c)
					}
				}
			}
		}
	}
	// Unrank gives a strictly increasing set of exactly that rank, also for the largest ranks and the timing inputs.
	for _, a := range [][2]int{{math.MaxInt64, 3}, {math.MaxInt64, 4}, {math.MaxInt64 - 1, 40}, {1333313333400026, 3}, {400000000, 1}, {4000000, 1}, {123456789012, 2}} {
		u := comb.Unrank(a[0], a[1])
		got := new(big.Int)
		for i, v := range u {
			if v < 0 || (i > 0 && v <= u[i-1]) {
				t.Errorf("Unrank(%d, %d) = %v is not strictly increasing", a[0], a[1], u)
			}
			got.Add(got, c16Big(uint64(v), uint64(i+1)))
		}
		if len(u) != a[1] || got.Cmp(big.NewInt(int64(a[0]))) != 0 {
			t.Errorf("Unrank(%d, %d) = %v has rank %s", a[0], a[1], u, got)
		}
	}
}

func TestC16DemoIncidentalPanicValues(t *testing.T) {
	cases := []struct {
		name string
		f    func()
		old  string
	}{
		{"CoeffUint64(68, 34)", func() { comb.CoeffUint64(68, 34) }, "calculation overflows uint64"},
		{"CoeffUint64(4294967297, 2)", func() { comb.CoeffUint64(4294967297, 2) }, "calculation overflows uint64"},
		{"Coeff(100, 50)", func() { comb.Coeff(100, 50) }, "calculation overflows uint64"},
		{"Coeff(-1, 0)", func() { comb.Coeff(-1, 0) }, "n must be non-negative"},
		{"Rank({4294967295, 4294967296})", func() { comb.Rank([]int{4294967295, 4294967296}) }, "rank has overflowed int"},
	}
	for _, c := range cases {
		p := c16Panic(c.f)
		t.Logf("%s panics with %T: %v", c.name, p, p)
		if p == nil {
			t.Errorf("%s did not panic (this would be a PROPERTY violation, not an incidental change)", c.name)
			continue
		}
		if s, ok := p.(string); !ok || s != c.old {
			t.Errorf("%s: panic value is %T %q, the old one was the string %q", c.name, p, p, c.old)
		}
	}
}

func TestC16DemoIncidentalUnrankCost(t *testing.T) {
	timeIt := func(r int) time.Duration {
		start := time.Now()
		u := comb.Unrank(r, 1)
		d := time.Since(start)
		if len(u) != 1 || u[0] != r {
			t.Fatalf("Unrank(%d, 1) = %v", r, u)
		}
		return d
	}
	small := timeIt(4000000)
	large := timeIt(400000000)
	t.Logf("Unrank(4e6, 1) took %v, Unrank(4e8, 1) took %v", small, large)
	if large < 100*time.Millisecond || large < 10*small {
		t.Errorf("Unrank(r, 1) no longer costs time proportional to r (old: one loop iteration per element below r)")
	}
}

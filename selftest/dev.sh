#!/bin/bash
# usage: selftest/dev.sh c02 [repo-dir] <check args...>   -- run a check with the per-property dev main
p="$1"; shift
repo=/repo
if [ -d "${1:-}" ]; then repo="$1"; shift; fi
P=$(echo "$p" | tr a-z A-Z)
cd /verif && VERIF_REPO="$repo" VERIF_MAIN=./cmd/dev-$p VERIF_BUILD=/verif/.build/$p ./check "$P" "$@"

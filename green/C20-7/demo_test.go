// Demonstration for C20, change 7 (the fixed parts of the output are package-level byte slices handed to w.Write).
//
// Run (from the root of the library, after copying this file into the tsp directory):
//
//	cp demo_test.go <repo>/tsp/c20_demo_test.go
//	cd <repo> && GOFLAGS=-mod=mod GOPROXY=off GOSUMDB=off GOTOOLCHAIN=local go test -vet=off -count=1 -timeout 600s -run 'TestC20Demo' -v ./tsp
//
// TestC20DemoProperty and TestC20DemoPropertyStringWriter check the property itself: for several n (0 .. 40) and weight
// functions (negative, large, asymmetric in definition) the output parses as a TSPLIB problem with DIMENSION n whose
// LOWER_DIAG_ROW section holds exactly weights(i, j) for j < i and 0 on the diagonal, one row per line, followed by EOF;
// weights is only called with 0 <= j < i < n; and a failing call of the writer at every position (transient and
// permanent, several short counts) makes LIB return a non-nil error - for a writer with only a Write method and for one
// that also has a WriteString method (whichever of the two LIB calls counts as a position and can fail). They pass
// before and after the change.
// The two incidental tests pin OLD behaviour that the property does not mention; they pass on the clean tree and fail
// with the change:
//   - TestC20DemoIncidentalWriteString: a writer that has a WriteString method receives the two constant header pieces
//     and the trailer through WriteString (io.WriteString) and only the rest through Write. Patched: everything comes
//     through Write.
//   - TestC20DemoIncidentalScribblingWriter: a writer that breaks the io.Writer contract by overwriting the slice it was
//     given (after copying it) only hurts the call it is used in, because every call gets fresh copies of the constant
//     pieces; a later call on an honest writer is correct. Patched: the pieces are shared by all calls, so the later
//     call writes the scribbled header (this is outside the property: such a w is not an io.Writer).
package tsp_test

import (
	"bytes"
	"errors"
	"fmt"
	"reflect"
	"strconv"
	"strings"
	"testing"

	"github.com/Tom-Johnston/mamba/tsp"
)

var errC20Injected = errors.New("c20 demo: injected write failure")

// c20Writer records every Write. The failAt-th Write call (1-based, 0 = never) fails; if permanent every later call
// fails too. A failing call accepts short bytes of its argument (clipped to len(p)) before reporting the error.
type c20Writer struct {
	calls     int
	buf       bytes.Buffer
	failAt    int
	permanent bool
	short     int
	failed    bool
}

func (w *c20Writer) Write(p []byte) (int, error) {
	w.calls++
	if w.failAt > 0 && (w.calls == w.failAt || (w.permanent && w.calls > w.failAt)) {
		w.failed = true
		k := w.short
		if k > len(p) {
			k = len(p)
		}
		w.buf.Write(p[:k])
		return k, errC20Injected
	}
	w.buf.Write(p)
	return len(p), nil
}

const c20Header = "DISPLAY_DATA_TYPE: NO_DISPLAY\nEDGE_WEIGHT_TYPE: EXPLICIT\nEDGE_WEIGHT_FORMAT: LOWER_DIAG_ROW\nEDGE_WEIGHT_SECTION\n"

// c20Check parses out as the TSPLIB problem that LIB has to produce for n and weights.
func c20Check(out string, n int, weights func(i, j int) int) error {
	prefix := "TYPE: TSP\nDIMENSION: " + strconv.Itoa(n) + "\n" + c20Header
	if !strings.HasPrefix(out, prefix) {
		return fmt.Errorf("bad header: %q", out)
	}
	rest := out[len(prefix):]
	if !strings.HasSuffix(rest, "EOF\n") {
		return fmt.Errorf("no EOF at the end")
	}
	rest = rest[:len(rest)-len("EOF\n")]
	var lines []string
	if rest != "" {
		if !strings.HasSuffix(rest, "\n") {
			return fmt.Errorf("weight section does not end with a newline")
		}
		lines = strings.Split(rest[:len(rest)-1], "\n")
	}
	if len(lines) != n {
		return fmt.Errorf("%d rows, want %d", len(lines), n)
	}
	for i, line := range lines {
		fields := strings.Fields(line)
		if len(fields) != i+1 {
			return fmt.Errorf("row %d has %d entries, want %d", i, len(fields), i+1)
		}
		for j, f := range fields {
			v, err := strconv.Atoi(f)
			if err != nil {
				return fmt.Errorf("row %d entry %d: %v", i, j, err)
			}
			want := 0
			if j < i {
				want = weights(i, j)
			}
			if v != want {
				return fmt.Errorf("row %d entry %d is %d, want %d", i, j, v, want)
			}
		}
	}
	return nil
}

var c20Weights = []struct {
	name string
	f    func(i, j int) int
}{
	{"small", func(i, j int) int { return (i*7 + j*3) % 10 }},
	{"mixed", func(i, j int) int { return (i*i*37+j*101)%2000 - 700 }},
	{"large", func(i, j int) int {
		if (i+j)%3 == 0 {
			return -(1 << 62) + i
		}
		return (1 << 40) * (i - 2*j)
	}},
	{"asymmetric", func(i, j int) int { return 1000*i - j }},
	{"growing", func(i, j int) int {
		v := 1
		for k := 0; k < (i+j)%9; k++ {
			v *= 10
		}
		return v
	}},
}

func TestC20DemoProperty(t *testing.T) {
	for _, wf := range c20Weights {
		for _, n := range []int{0, 1, 2, 3, 5, 11, 15, 16, 17, 31, 32, 33, 40} {
			n := n
			bad := ""
			counted := func(i, j int) int {
				if !(0 <= j && j < i && i < n) && bad == "" {
					bad = fmt.Sprintf("weights(%d, %d) called for n = %d", i, j, n)
				}
				return wf.f(i, j)
			}
			w := &c20Writer{}
			if err := tsp.LIB(w, n, counted); err != nil {
				t.Fatalf("%s n=%d: %v", wf.name, n, err)
			}
			if bad != "" {
				t.Fatalf("%s: %s", wf.name, bad)
			}
			if err := c20Check(w.buf.String(), n, wf.f); err != nil {
				t.Fatalf("%s n=%d: %v", wf.name, n, err)
			}
			if n > 18 {
				continue
			}
			total := w.calls
			for at := 1; at <= total; at++ {
				for _, permanent := range []bool{false, true} {
					for _, short := range []int{0, 1, 1 << 20} {
						fw := &c20Writer{failAt: at, permanent: permanent, short: short}
						err := tsp.LIB(fw, n, counted)
						if fw.failed && err == nil {
							t.Fatalf("%s n=%d: Write %d of %d failed (permanent=%v short=%d) but LIB returned nil", wf.name, n, at, total, permanent, short)
						}
						if !fw.failed {
							if err != nil {
								t.Fatalf("%s n=%d: no Write failed but LIB returned %v", wf.name, n, err)
							}
							if err := c20Check(fw.buf.String(), n, wf.f); err != nil {
								t.Fatalf("%s n=%d: %v", wf.name, n, err)
							}
						}
						if bad != "" {
							t.Fatalf("%s: %s", wf.name, bad)
						}
					}
				}
			}
		}
	}
}

// c20SWriter is a c20Writer that also has a WriteString method; calls of either method are positions that can fail.
type c20SWriter struct {
	c20Writer
	viaString []string
}

func (w *c20SWriter) WriteString(s string) (int, error) {
	w.viaString = append(w.viaString, s)
	return w.c20Writer.Write([]byte(s))
}

func TestC20DemoPropertyStringWriter(t *testing.T) {
	for _, wf := range c20Weights {
		for _, n := range []int{0, 1, 2, 3, 7, 12} {
			w := &c20SWriter{}
			if err := tsp.LIB(w, n, wf.f); err != nil {
				t.Fatalf("%s n=%d: %v", wf.name, n, err)
			}
			if err := c20Check(w.buf.String(), n, wf.f); err != nil {
				t.Fatalf("%s n=%d: %v", wf.name, n, err)
			}
			total := w.calls
			for at := 1; at <= total; at++ {
				for _, permanent := range []bool{false, true} {
					for _, short := range []int{0, 1, 1 << 20} {
						fw := &c20SWriter{c20Writer: c20Writer{failAt: at, permanent: permanent, short: short}}
						err := tsp.LIB(fw, n, wf.f)
						if fw.failed && err == nil {
							t.Fatalf("%s n=%d: call %d of %d failed (permanent=%v short=%d) but LIB returned nil", wf.name, n, at, total, permanent, short)
						}
						if !fw.failed && err != nil {
							t.Fatalf("%s n=%d: nothing failed but LIB returned %v", wf.name, n, err)
						}
					}
				}
			}
		}
	}
}

func TestC20DemoIncidentalWriteString(t *testing.T) {
	wf := c20Weights[1].f
	w := &c20SWriter{}
	if err := tsp.LIB(w, 5, wf); err != nil {
		t.Fatal(err)
	}
	if err := c20Check(w.buf.String(), 5, wf); err != nil { // the property holds either way
		t.Fatal(err)
	}
	want := []string{"TYPE: TSP\n", c20Header, "EOF\n"}
	if !reflect.DeepEqual(w.viaString, want) {
		t.Fatalf("pieces handed to WriteString: %q, the clean tree hands over %q", w.viaString, want)
	}
}

// c20Scribbler copies what it is given and then overwrites the caller's slice, which io.Writer forbids. It only does
// so to pieces that begin with a capital letter (header and trailer): the pieces of the weight section come from
// text/tabwriter, which itself hands the same package-level slices (newline, padding) to every writer.
type c20Scribbler struct{ buf bytes.Buffer }

func (w *c20Scribbler) Write(p []byte) (int, error) {
	w.buf.Write(p)
	if len(p) > 0 && 'A' <= p[0] && p[0] <= 'Z' {
		for i := range p {
			p[i] = '#'
		}
	}
	return len(p), nil
}

func TestC20DemoIncidentalScribblingWriter(t *testing.T) {
	wf := c20Weights[3].f
	var honest0 bytes.Buffer
	if err := tsp.LIB(&honest0, 6, wf); err != nil || c20Check(honest0.String(), 6, wf) != nil {
		t.Fatalf("honest call before: %v %v", err, c20Check(honest0.String(), 6, wf))
	}
	if err := tsp.LIB(&c20Scribbler{}, 6, wf); err != nil {
		t.Fatal(err)
	}
	var honest bytes.Buffer
	if err := tsp.LIB(&honest, 6, wf); err != nil {
		t.Fatal(err)
	}
	if err := c20Check(honest.String(), 6, wf); err != nil {
		t.Fatalf("a call on an honest writer after a call on a writer that scribbles on its argument: %v (clean tree: unaffected)", err)
	}
}

// Demo for C08 green change 5 (Sparse6Decode builds the graph in one go; all neighbourhoods cut out of one array).
//
// Run (from the root of the library worktree):
//
//	cp /tmp/green-out/C08/5/demo_test.go graph/zz_c08_demo_test.go
//	export GOFLAGS=-mod=mod GOPROXY=off GOSUMDB=off GOTOOLCHAIN=local
//	go test -vet=off -count=1 -timeout 300s -run 'TestC08Demo' -v ./graph/
//	rm graph/zz_c08_demo_test.go
//
// TestC08DemoProperty       checks the property itself (no panic, error or well-formed graph on the declared n,
//
//	re-encode/decode gives the same graph; also that the neighbourhoods of a result can be
//	edited independently).  PASSES on the clean tree and with the change.
//
// TestC08DemoIncidentalOld  asserts the OLD memory behaviour: one decode costs several allocations per edge and the
//
//	neighbourhood lists live in separate allocations.  PASSES on the clean tree, FAILS with the
//	change (a handful of allocations in total, all lists back to back in one array).
package graph_test

import (
	"fmt"
	"math/rand"
	"sort"
	"testing"
	"unsafe"

	"github.com/Tom-Johnston/mamba/graph"
)

func c08Header(n int, form int) []byte {
	switch form {
	case 0:
		if n <= 62 {
			return []byte{byte(63 + n)}
		}
		fallthrough
	case 1:
		return []byte{126, byte(63 + (n>>12)&63), byte(63 + (n>>6)&63), byte(63 + n&63)}
	}
	return []byte{126, 126, 63, 63, 63, byte(63 + (n>>12)&63), byte(63 + (n>>6)&63), byte(63 + n&63)}
}

// c08Inputs gives sparse6 strings (well-formed, truncated, with bytes out of range, with numbers >= n) together with
// the declared n (-1: the size header itself is unreadable, only "no panic" is checked then).
func c08Inputs() (in []string, declared []int) {
	add := func(s string, n int) { in = append(in, s); declared = append(declared, n) }
	for _, s := range []string{"", ":", "~", ":~", ":~~", ":~~????", ":~?@", "DQc", ":\n", ">>sparse6<<", ">>sparse6<<:"} {
		add(s, -1)
	}
	add(":?", 0)
	add(":@", 1)
	add(":@~~~", 1)
	add(":?~~~~~~~~~~~~~~", 0)
	add(":A", 2)
	add(":An", 2)
	add(":A_", 2)
	add(":D]N", 5)
	add(":K`ADOccQXK`IaXcQMb", 12)
	add(">>sparse6<<:K`ADOccQXK`IaXcQMb", 12)
	add(":O`ACGPDC[QPJGYCqG\\KafPK`ckeSqDsIWyn", 16)
	add(":Ji?c@pEUPBFaGhg@CKf", 11)
	r := rand.New(rand.NewSource(8))
	for it := 0; it < 3000; it++ {
		n := r.Intn(70)
		if r.Intn(10) == 0 {
			n = r.Intn(4097)
		}
		b := append([]byte{':'}, c08Header(n, r.Intn(3))...)
		l := r.Intn(60)
		bad := false
		for i := 0; i < l; i++ {
			if r.Intn(300) == 0 {
				c := byte(r.Intn(256))
				bad = bad || c < 63 || c > 126
				b = append(b, c)
			} else {
				b = append(b, byte(63+r.Intn(64)))
			}
		}
		_ = bad
		add(string(b), n)
	}
	return
}

func c08WellFormed(g *graph.SparseGraph, n int) error {
	if g == nil || g.N() != n || g.NumberOfVertices != n || len(g.Neighbourhoods) != n || len(g.DegreeSequence) != n {
		return fmt.Errorf("wrong size")
	}
	sum := 0
	for v := 0; v < n; v++ {
		nb := g.Neighbourhoods[v]
		if len(nb) != g.DegreeSequence[v] || !sort.IntsAreSorted(nb) {
			return fmt.Errorf("neighbourhood of %v: %v (degree %v)", v, nb, g.DegreeSequence[v])
		}
		for i, u := range nb {
			if u < 0 || u >= n || u == v || (i > 0 && nb[i-1] == u) {
				return fmt.Errorf("neighbourhood of %v: %v", v, nb)
			}
			w := g.Neighbourhoods[u]
			j := sort.SearchInts(w, v)
			if j == len(w) || w[j] != v {
				return fmt.Errorf("not symmetric: %v %v", v, u)
			}
		}
		sum += len(nb)
	}
	if sum != 2*g.M() {
		return fmt.Errorf("M=%v but degree sum %v", g.M(), sum)
	}
	return nil
}

func c08Decode(s string) (g *graph.SparseGraph, err error, panicked interface{}) {
	defer func() { panicked = recover() }()
	g, err = graph.Sparse6Decode(s)
	return
}

func TestC08DemoProperty(t *testing.T) {
	in, declared := c08Inputs()
	succeeded := 0
	for i, s := range in {
		g, err, p := c08Decode(s)
		if p != nil {
			t.Fatalf("Sparse6Decode(%q) panicked: %v", s, p)
		}
		if err != nil {
			continue
		}
		if declared[i] < 0 {
			t.Fatalf("Sparse6Decode(%q) succeeded although the size header is unreadable", s)
		}
		succeeded++
		if e := c08WellFormed(g, declared[i]); e != nil {
			t.Fatalf("Sparse6Decode(%q): %v", s, e)
		}
		h, err := graph.Sparse6Decode(graph.Sparse6Encode(g))
		if err != nil || !graph.Equal(g, h) {
			t.Fatalf("Sparse6Decode(%q): sparse6 round trip differs (%v)", s, err)
		}
		if g.N() <= 300 {
			d, err := graph.Graph6Decode(graph.Graph6Encode(g))
			if err != nil || !graph.Equal(g, d) {
				t.Fatalf("Sparse6Decode(%q): graph6 round trip differs (%v)", s, err)
			}
		}
		// The result is an ordinary editable graph: editing around one vertex leaves the rest alone.
		if n := g.N(); n >= 3 && n <= 70 {
			before := g.Copy()
			for u := 1; u < n; u++ {
				g.AddEdge(0, u)
			}
			for u := 1; u < n; u++ {
				if !before.IsEdge(0, u) {
					g.RemoveEdge(0, u)
				}
			}
			if e := c08WellFormed(g, n); e != nil || !graph.Equal(g, before) {
				t.Fatalf("Sparse6Decode(%q): editing the result corrupted it (%v)", s, e)
			}
		}
	}
	if succeeded < 1000 {
		t.Fatalf("only %v inputs decoded", succeeded)
	}
	// Known answers (nauty): the sparse6 strings of the library's own tests and their graph6 forms.
	for _, c := range [][2]string{{"Ks@HOo?PGdCK", ":K`ADOccQXK`IaXcQMb"}, {"J?AKagjXfo?", ":Ji?c@pEUPBFaGhg@CKf"}} {
		g, err := graph.Sparse6Decode(c[1])
		if err != nil || graph.Graph6Encode(g) != c[0] {
			t.Fatalf("%q decodes to the wrong graph", c[1])
		}
	}
}

func TestC08DemoIncidentalOld(t *testing.T) {
	const s = ":O`ACGPDC[QPJGYCqG\\KafPK`ckeSqDsIWyn" // 16 vertices, 40 edges
	g, err := graph.Sparse6Decode(s)
	if err != nil {
		t.Fatal(err)
	}
	m := g.M()
	allocs := testing.AllocsPerRun(20, func() { graph.Sparse6Decode(s) })
	t.Logf("allocations per decode: %v (m = %v)", allocs, m)
	if allocs < float64(2*m) {
		t.Errorf("OLD behaviour was at least two allocations per edge (every AddEdge re-allocates both neighbourhoods); found %v for %v edges", allocs, m)
	}
	// Are the neighbourhood lists laid out back to back in vertex order in one block of 2m ints?
	backToBack := true
	var next uintptr
	for v := 0; v < g.N(); v++ {
		nb := g.Neighbourhoods[v]
		if len(nb) == 0 {
			continue
		}
		p := uintptr(unsafe.Pointer(&nb[0]))
		if next != 0 && p != next {
			backToBack = false
		}
		next = p + uintptr(len(nb))*unsafe.Sizeof(nb[0])
	}
	t.Logf("neighbourhoods back to back in one array: %v", backToBack)
	if backToBack {
		t.Errorf("OLD behaviour was a separate allocation for every neighbourhood; now they are consecutive pieces of one array")
	}
}

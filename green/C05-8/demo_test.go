// Demonstration for C05/8 (AddVertex reads its argument as a set: repeated neighbours are ignored).
//
// Run from the repository root:
//   cp /tmp/green-out/C05/8/demo_test.go graph/zz_c05_8_demo_test.go
//   GOFLAGS=-mod=mod GOPROXY=off GOSUMDB=off GOTOOLCHAIN=local go test -vet=off -count=1 -timeout 300s -run 'TestC05x8' -v ./graph/
//   rm graph/zz_c05_8_demo_test.go
//
// TestC05x8Property       passes before and after the change (valid histories: neighbour lists without repeats, any order).
// TestC05x8IncidentalOld  asserts the OLD behaviour for a neighbour list WITH a repeated entry (outside the domain of
//                         the property): passes on the clean tree, FAILS with the change.
package graph_test

import (
	"math/rand"
	"reflect"
	"sort"
	"testing"

	"github.com/Tom-Johnston/mamba/graph"
)

type c058model struct{ adj []map[int]bool }

func (m *c058model) n() int { return len(m.adj) }
func (m *c058model) addVertex(nb []int) {
	v := len(m.adj)
	m.adj = append(m.adj, map[int]bool{})
	for _, u := range nb {
		m.adj[u][v] = true
		m.adj[v][u] = true
	}
}
func (m *c058model) removeVertex(v int) {
	na := make([]map[int]bool, 0, len(m.adj)-1)
	for u := range m.adj {
		if u == v {
			continue
		}
		s := map[int]bool{}
		for w := range m.adj[u] {
			if w == v {
				continue
			}
			if w > v {
				w--
			}
			s[w] = true
		}
		na = append(na, s)
	}
	m.adj = na
}
func (m *c058model) addEdge(i, j int) {
	if i != j {
		m.adj[i][j] = true
		m.adj[j][i] = true
	}
}
func (m *c058model) removeEdge(i, j int) { delete(m.adj[i], j); delete(m.adj[j], i) }
func (m *c058model) copy() *c058model {
	r := &c058model{}
	for _, s := range m.adj {
		t := map[int]bool{}
		for k := range s {
			t[k] = true
		}
		r.adj = append(r.adj, t)
	}
	return r
}
func (m *c058model) induced(V []int) *c058model {
	r := &c058model{}
	for range V {
		r.adj = append(r.adj, map[int]bool{})
	}
	for i := range V {
		for j := range V {
			if m.adj[V[i]][V[j]] {
				r.adj[i][j] = true
			}
		}
	}
	return r
}

func c058check(t *testing.T, what string, g graph.Graph, m *c058model) {
	t.Helper()
	if g.N() != m.n() {
		t.Fatalf("%s: N = %d, model %d", what, g.N(), m.n())
	}
	edges := 0
	deg := g.Degrees()
	if len(deg) != m.n() {
		t.Fatalf("%s: len(Degrees) = %d", what, len(deg))
	}
	for v := 0; v < m.n(); v++ {
		want := []int{}
		for u := range m.adj[v] {
			want = append(want, u)
		}
		sort.Ints(want)
		edges += len(want)
		got := g.Neighbours(v)
		if len(got) != len(want) || (len(want) > 0 && !reflect.DeepEqual(got, want)) {
			t.Fatalf("%s: Neighbours(%d) = %v, model %v", what, v, got, want)
		}
		if deg[v] != len(want) {
			t.Fatalf("%s: Degrees[%d] = %d, model %d", what, v, deg[v], len(want))
		}
		for u := 0; u < m.n(); u++ {
			if g.IsEdge(u, v) != m.adj[u][v] {
				t.Fatalf("%s: IsEdge(%d,%d) = %v", what, u, v, g.IsEdge(u, v))
			}
		}
	}
	if g.M() != edges/2 {
		t.Fatalf("%s: M = %d, model %d", what, g.M(), edges/2)
	}
}

type c058triple struct {
	d, s graph.EditableGraph
	m    *c058model
}

func c058edit(rng *rand.Rand, x *c058triple) {
	n := x.m.n()
	switch k := rng.Intn(10); {
	case k < 2 || n < 2:
		nb := rng.Perm(n)[:rng.Intn(n+1)]
		x.d.AddVertex(append([]int(nil), nb...))
		x.s.AddVertex(append([]int(nil), nb...))
		x.m.addVertex(nb)
	case k < 4 && n > 1:
		v := rng.Intn(n)
		x.d.RemoveVertex(v)
		x.s.RemoveVertex(v)
		x.m.removeVertex(v)
	case k < 8:
		i, j := rng.Intn(n), rng.Intn(n)
		x.d.AddEdge(i, j)
		x.s.AddEdge(i, j)
		x.m.addEdge(i, j)
	default:
		i, j := rng.Intn(n), rng.Intn(n)
		x.d.RemoveEdge(i, j)
		x.s.RemoveEdge(i, j)
		x.m.removeEdge(i, j)
	}
}

func TestC05x8Property(t *testing.T) {
	for seed := int64(0); seed < 150; seed++ {
		rng := rand.New(rand.NewSource(seed))
		pool := []*c058triple{{graph.NewDense(0, nil), graph.NewSparse(0, nil), &c058model{}}}
		for step := 0; step < 120; step++ {
			x := pool[rng.Intn(len(pool))]
			switch r := rng.Intn(12); {
			case r == 0 && len(pool) < 6:
				//Copy (and copies of copies): the copy joins the pool and both are edited later.
				pool = append(pool, &c058triple{x.d.Copy(), x.s.Copy(), x.m.copy()})
			case r == 1 && len(pool) < 6 && x.m.n() > 0:
				V := rng.Perm(x.m.n())[:rng.Intn(x.m.n()+1)]
				pool = append(pool, &c058triple{x.d.InducedSubgraph(V), x.s.InducedSubgraph(V), x.m.induced(V)})
			default:
				c058edit(rng, x)
			}
			//Every graph in the pool (sources and copies alike) must still agree with its own model.
			for i, y := range pool {
				c058check(t, "dense", y.d, y.m)
				c058check(t, "sparse", y.s, y.m)
				_ = i
			}
		}
	}
}

func TestC05x8IncidentalOld(t *testing.T) {
	//The path 0-1 plus a new vertex whose neighbour list names vertex 0 twice: not a valid argument.
	d := graph.NewDense(2, []byte{1})
	s := graph.NewSparse(2, nil)
	s.AddEdge(0, 1)
	d.AddVertex([]int{0, 1, 0})
	s.AddVertex([]int{0, 1, 0})
	t.Logf("dense : M=%d Degrees=%v Neighbours(2)=%v", d.M(), d.Degrees(), d.Neighbours(2))
	t.Logf("sparse: M=%d Degrees=%v Neighbours(2)=%v", s.M(), s.Degrees(), s.Neighbours(2))
	//OLD: the dense graph counts the repeated neighbour twice, the sparse graph counts it twice in the degree of the new vertex only.
	if d.M() != 4 || !reflect.DeepEqual(d.Degrees(), []int{3, 2, 3}) {
		t.Fatalf("OLD dense behaviour was M=4 Degrees=[3 2 3]; got M=%d Degrees=%v", d.M(), d.Degrees())
	}
	if s.M() != 3 || !reflect.DeepEqual(s.Degrees(), []int{2, 2, 3}) {
		t.Fatalf("OLD sparse behaviour was M=3 Degrees=[2 2 3]; got M=%d Degrees=%v", s.M(), s.Degrees())
	}
}

// Demo for C08 green change 3 (a line terminator left at the end of a record is ignored by Graph6Decode / Sparse6Decode).
//
// Run (from the root of the library worktree):
//
//	cp /tmp/green-out/C08/3/demo_test.go graph/zz_c08_demo3_test.go
//	export GOFLAGS=-mod=mod GOPROXY=off GOSUMDB=off GOTOOLCHAIN=local
//	go test -vet=off -count=1 -timeout 300s -run 'TestC08Demo3' -v ./graph/
//	rm graph/zz_c08_demo3_test.go
//
// TestC08Demo3Property        checks the property itself, literally: no panic, termination, and EITHER an error OR a
//
//	well-formed graph on the number of vertices declared by the size header, which survives
//	re-encode + decode.  PASSES on the clean tree and with the change.
//
// TestC08Demo3IncidentalOld   asserts the OLD incidental behaviour: a record that still carries its "\n", "\r\n" or "\r"
//
//	is refused with a "Byte out of range" error.
//	PASSES on the clean tree, FAILS with the change (the records now decode).
package graph_test

import (
	"fmt"
	"math/rand"
	"strings"
	"testing"

	"github.com/Tom-Johnston/mamba/graph"
)

// c08d3DeclaredN reads the size header at the start of body (the text after the optional >>..<< header and, for
// sparse6, after the colon).  Only the bytes of the size header itself are looked at.  ok is false if there is no
// complete size header made of bytes in 63..126.
func c08d3DeclaredN(body string) (n uint64, ok bool) {
	in := func(k int) bool {
		if len(body) < k {
			return false
		}
		for i := 0; i < k; i++ {
			if body[i] < 63 || body[i] > 126 {
				return false
			}
		}
		return true
	}
	if !in(1) {
		return 0, false
	}
	if body[0] != 126 {
		return uint64(body[0] - 63), true
	}
	if len(body) < 2 || body[1] != 126 {
		if !in(4) {
			return 0, false
		}
		return uint64(body[1]-63)<<12 | uint64(body[2]-63)<<6 | uint64(body[3]-63), true
	}
	if !in(8) {
		return 0, false
	}
	for j := 2; j < 8; j++ {
		n = n<<6 | uint64(body[j]-63)
	}
	return n, true
}

// c08d3WellFormed checks through the Graph interface only that g is a simple undirected graph on n vertices with
// consistent edge count, degrees and neighbour lists.
func c08d3WellFormed(g graph.Graph, n int) error {
	if g.N() != n {
		return fmt.Errorf("N() = %d, declared %d", g.N(), n)
	}
	deg := g.Degrees()
	if len(deg) != n {
		return fmt.Errorf("len(Degrees()) = %d", len(deg))
	}
	sum := 0
	for v := 0; v < n; v++ {
		nb := g.Neighbours(v)
		if len(nb) != deg[v] {
			return fmt.Errorf("vertex %d: %d neighbours, degree %d", v, len(nb), deg[v])
		}
		for k, u := range nb {
			if u < 0 || u >= n || u == v {
				return fmt.Errorf("vertex %d: bad neighbour %d", v, u)
			}
			if k > 0 && nb[k-1] >= u {
				return fmt.Errorf("vertex %d: neighbours not strictly increasing", v)
			}
			if !g.IsEdge(u, v) || !g.IsEdge(v, u) {
				return fmt.Errorf("edge %d-%d not symmetric", u, v)
			}
		}
		if g.IsEdge(v, v) {
			return fmt.Errorf("loop at %d", v)
		}
		sum += deg[v]
	}
	if sum != 2*g.M() {
		return fmt.Errorf("degree sum %d, M() = %d", sum, g.M())
	}
	if n <= 200 {
		for v := 0; v < n; v++ {
			c := 0
			for u := 0; u < n; u++ {
				if g.IsEdge(u, v) {
					c++
				}
			}
			if c != deg[v] {
				return fmt.Errorf("vertex %d: IsEdge row has %d edges, degree %d", v, c, deg[v])
			}
		}
	}
	return nil
}

func c08d3CheckG6(s string) (err error) {
	defer func() {
		if r := recover(); r != nil {
			err = fmt.Errorf("Graph6Decode(%q) panicked: %v", s, r)
		}
	}()
	body := strings.TrimPrefix(s, ">>graph6<<")
	n, ok := c08d3DeclaredN(body)
	if ok && n > 4096 {
		return nil // outside the quantifier
	}
	g, derr := graph.Graph6Decode(s)
	if derr != nil {
		return nil
	}
	if len(body) == 0 {
		n, ok = 0, true // documented: the empty string is the empty graph
	}
	if !ok {
		return fmt.Errorf("Graph6Decode(%q) succeeded without a readable size header", s)
	}
	if e := c08d3WellFormed(g, int(n)); e != nil {
		return fmt.Errorf("Graph6Decode(%q): %v", s, e)
	}
	h, derr := graph.Graph6Decode(graph.Graph6Encode(g))
	if derr != nil || !graph.Equal(g, h) {
		return fmt.Errorf("Graph6Decode(%q): re-encoding does not give the same graph (%v)", s, derr)
	}
	return nil
}

func c08d3CheckS6(s string) (err error) {
	defer func() {
		if r := recover(); r != nil {
			err = fmt.Errorf("Sparse6Decode(%q) panicked: %v", s, r)
		}
	}()
	body := strings.TrimPrefix(s, ">>sparse6<<")
	colon := strings.HasPrefix(body, ":")
	body = strings.TrimPrefix(body, ":")
	n, ok := c08d3DeclaredN(body)
	if colon && ok && n > 4096 {
		return nil
	}
	g, derr := graph.Sparse6Decode(s)
	if derr != nil {
		return nil
	}
	if !colon || !ok {
		return fmt.Errorf("Sparse6Decode(%q) succeeded without a readable size header", s)
	}
	if e := c08d3WellFormed(g, int(n)); e != nil {
		return fmt.Errorf("Sparse6Decode(%q): %v", s, e)
	}
	h, derr := graph.Sparse6Decode(graph.Sparse6Encode(g))
	if derr != nil || !graph.Equal(g, h) {
		return fmt.Errorf("Sparse6Decode(%q): re-encoding does not give the same graph (%v)", s, derr)
	}
	return nil
}

var c08d3Fixed = []string{
	"", "~", "~~", "~?", "~??", "~~?????", "~~??", ":", ":~", ":~?", ":~~", ":~~????", ":A", ":A~", ":A~~~~", ":A?", ":A_",
	"?", "@", "A", "A_", "A?", "A~~~", "D", "DQ", "DQc", "DQc~~~", "DQ\x00", "D\x80c", "\x00", " ", ">>graph6<<", ">>graph6<<DQc",
	">>graph6<<~", ">>sparse6<<", ">>sparse6<<:", ">>sparse6<<:K`ADOccQXK`IaXcQMb", ":K`ADOccQXK`IaXcQMb", ":K`ADOccQXK`IaXcQM",
	":K`ADOcc\x1fXK", ":?", ":?~~~~~~~~~~~~~~", ":@", ":@~~~", ":@???", ":Bf", ":B~~~~~", ":C~~~~~~~~", ":Fa@x^", ":Fa@x^~~~~", "Ks@HOo?PGdCK",
	"Ks@HOo?PGdC", ":~?@?", ":~?@?~~~~~~~~~~~", ":~?@?_OGCA@", "~?@?", ":~@??~~~~~~~~~~~~~~~~~~~~~~", ":~@??", "K", ":K", ":K~", "x", ":x",
	"X", ":\x00", "::", ":A\x00", ">>graph6<<:A", ">>sparse6<<A_",
	// line terminators in every position of interest
	"\n", "\r", "\r\n", "\n\n", "\r\r\n", ":\n", ":\r\n", "?\n", ":?\n", ":?\r\n", "~\n", "~\r\n", "~??\n", "~~?????\n", ":~\n", ":~??\n",
	">>graph6<<\n", ">>graph6<<\r\n", ">>sparse6<<\n", ">>sparse6<<:\n", "DQc\n", "DQc\r\n", "DQc\r", "DQc\n\n", "DQc\n\r", "DQ\nc", "D\nQc", "\nDQc",
	"DQ\n", "DQ\r\n", "DQc~~~\n", ">>graph6<<DQc\n", ":Fa@x^\n", ":Fa@x^\r\n", ":Fa@x^\r", ":Fa@x^\n\n", ":Fa@\nx^", ":\nFa@x^", "\n:Fa@x^",
	">>sparse6<<:Fa@x^\n", ":A\n", ":A\r\n", ":~?@?\n", ":~?@?_OGCA@\r\n", "Ks@HOo?PGdCK\n", "Ks@HOo?PGdC\n", ":K`ADOccQXK`IaXcQMb\n",
}

func TestC08Demo3Property(t *testing.T) {
	inputs := append([]string(nil), c08d3Fixed...)
	rng := rand.New(rand.NewSource(83))
	heads := []string{"", "", "", ":", ":", ":", ">>graph6<<", ">>sparse6<<:", ":~?", "~?", ":~@", ":~", "~"}
	tails := []string{"", "", "\n", "\r\n", "\r", "\n\n"}
	for k := 0; k < 4000; k++ {
		b := []byte(heads[rng.Intn(len(heads))])
		l := rng.Intn(24)
		for j := 0; j < l; j++ {
			switch rng.Intn(14) {
			case 0:
				b = append(b, byte(rng.Intn(256)))
			case 1:
				b = append(b, 126)
			case 2:
				b = append(b, 63)
			case 3:
				b = append(b, "\n\r"[rng.Intn(2)])
			default:
				b = append(b, byte(63+rng.Intn(64)))
			}
		}
		b = append(b, tails[rng.Intn(len(tails))]...)
		inputs = append(inputs, string(b))
	}
	// every prefix of a few valid strings, with padding and with terminators
	for _, v := range []string{"OsaBA`GP@`dIHWEcas_]O", ":O`ACGPDC[QPJGYCqG\\KafPK`ckeSqDsIWyn", ":Ji?c@pEUPBFaGhg@CKf", ":~?@c_OGCA@?ow", "~?@c"} {
		for i := 0; i <= len(v); i++ {
			inputs = append(inputs, v[:i], v[:i]+"~", v[:i]+"?", v[:i]+"\n", v[:i]+"\r\n", v[:i]+"\r", v[:i]+"\n"+v[i:])
		}
	}
	for _, s := range inputs {
		if err := c08d3CheckG6(s); err != nil {
			t.Error(err)
		}
		if err := c08d3CheckS6(s); err != nil {
			t.Error(err)
		}
	}
	t.Logf("property checked on %d inputs for each decoder", len(inputs))
}

func TestC08Demo3IncidentalOld(t *testing.T) {
	for _, in := range []string{"DQc\n", "DQc\r\n", "DQc\r", ">>graph6<<DQc\n", "Ks@HOo?PGdCK\n", "?\n"} {
		_, err := graph.Graph6Decode(in)
		if err == nil {
			t.Errorf("Graph6Decode(%q): OLD behaviour is a \"Byte out of range\" error, the record was decoded", in)
		} else if !strings.HasPrefix(err.Error(), "Byte out of range") {
			t.Errorf("Graph6Decode(%q): OLD behaviour is a \"Byte out of range\" error, got %q", in, err)
		}
	}
	for _, in := range []string{":Fa@x^\n", ":Fa@x^\r\n", ":Fa@x^\r", ">>sparse6<<:Fa@x^\n", ":K`ADOccQXK`IaXcQMb\n", ":A\n"} {
		_, err := graph.Sparse6Decode(in)
		if err == nil {
			t.Errorf("Sparse6Decode(%q): OLD behaviour is a \"Byte out of range\" error, the record was decoded", in)
		} else if !strings.HasPrefix(err.Error(), "Byte out of range") {
			t.Errorf("Sparse6Decode(%q): OLD behaviour is a \"Byte out of range\" error, got %q", in, err)
		}
	}
}

package c15

// Sessions: several iterators inside one history.  Every other workload builds
// one iterator from fresh arguments, drains it and throws it away, so nothing
// that one iterator leaves behind for the next one is ever seen: a value written
// into the CALLER's argument slice (which the caller hands to the next
// constructor), state shared between iterators that are alive at the same time,
// a value handed out by one iterator that changes while another one is advanced.
//
// A session holds ONE argument slice that the monitor never writes to after it
// was filled (a window of a larger array, so that it has spare capacity and
// neighbours that must stay untouched too).  It is handed to a sequence of constructors (MultisetCombinations
// with several k in increasing, decreasing and seeded order, MultisetPermutations,
// Product, RestrictedPrefixProduct under several predicates), and the iterators
// are driven
//   sequential:   each is built and drained before the next is built,
//   built-first:  all are built, then drained one after the other,
//   interleaved:  all are built, then advanced in turn, one Next each.
// After the construction and after EVERY call of Next the slice is compared with
// what the caller put there: the argument of a constructor is an input and
// nothing documents that the library writes to it, so a change is a violation
// (argument-modified), and every iterator has to enumerate the family of the
// values the caller supplied.  In the interleaved mode the slices last handed
// out by Value / FreqValue / InverseValue of an iterator are compared with their
// copies just before that iterator is advanced again: they must not have changed
// while only OTHER iterators were advanced.
// Constructors without a slice argument take part in sessions of their own
// (several iterators of one n alive at once) for the same reason.

import (
	"fmt"
	"strings"

	"verif/internal/engine"
	"verif/internal/oracle/refiter"
)

type session struct {
	name string  // stable description: goes into the witness of every iterator of the session
	arg  []int   // contents of the shared argument slice (nil: the session shares no argument)
	ks   []*kase // kases with mk != nil are built from the shared slice
	mode string
}

// the shared argument slice is a window a[argPad:argPad+len] of a larger array filled with argSentinel
const (
	argPad      = 3
	argSentinel = -7
)

func sameInts(a, b []int) bool {
	if len(a) != len(b) {
		return false
	}
	for i := range a {
		if a[i] != b[i] {
			return false
		}
	}
	return true
}

func (r *runner) runSession(s *session) {
	c := r.c
	if c.Stopped() || len(s.ks) == 0 {
		return
	}
	calls := make([]string, len(s.ks))
	for i, k := range s.ks {
		calls[i] = k.api + "(" + k.witness + ")"
	}
	trs := make([]*trace, len(s.ks))
	for i, k := range s.ks {
		c.Eval(1)
		c.Obs("cases:"+k.api, 1)
		trs[i] = &trace{}
		if k.mon != nil {
			k.mon.phase = &trs[i].phase
		}
		if k.convKey == "" {
			k.convKey = k.witness
		}
		k.witness += fmt.Sprintf(",session[%s;%s;iterator %d of %d]", s.name, s.mode, i+1, len(s.ks))
		if k.detail == nil {
			k.detail = map[string]interface{}{}
		}
		k.detail["session_mode"] = s.mode
		k.detail["session_constructor_calls_in_order"] = calls
		if s.arg != nil {
			k.detail["shared_argument_slice"] = cpInts(s.arg)
		}
	}

	var (
		arg         []int
		cur         = -1 // the iterator being operated on (panic attribution)
		argBy       = -1 // the iterator whose operation was the first after which the argument slice differed
		argWhen     string
		argNow      []int
		argChecks   int
		argBeyond   string
		backing     []int // the caller's array: the argument slice is a window of it, with room behind it (capacity > length)
		backingWant []int
		heldBy      = -1
		heldWhat    string
		heldChecks  int
		steppers    = make([]*stepper, len(s.ks))
		lastRaw     = make([][]int, len(s.ks))
		lastAux     = make([][]int, len(s.ks))
	)
	checkArg := func() {
		if s.arg == nil || argBy >= 0 {
			return
		}
		argChecks++
		if !sameInts(backing, backingWant) {
			argBy, argWhen, argNow = cur, trs[cur].phase, cpInts(arg)
			if sameInts(arg, s.arg) {
				argBeyond = fmt.Sprintf("; the caller's array around the slice (the slice is a[%d:%d] of an array of %d entries, all others %d) holds %v", argPad, argPad+len(s.arg), len(backing), argSentinel, cpInts(backing))
			}
		}
	}
	build := func(i int) {
		cur = i
		k := s.ks[i]
		trs[i].phase = "constructor"
		st := &stepper{k: k, tr: trs[i], expected: expectedOf(k)}
		if k.mk != nil && s.arg != nil {
			st.it = k.mk(arg)
		} else {
			st.it = k.build()
		}
		steppers[i] = st
		checkArg()
	}
	step := func(i int) bool {
		cur = i
		st := steppers[i]
		if heldBy < 0 && st.held != nil {
			heldChecks++
			if !sameInts(st.held, lastRaw[i]) {
				heldBy, heldWhat = i, fmt.Sprintf("the slice returned by Value after Next call #%d held %v and holds %v before the next call of Next on that iterator (only other iterators were advanced in between)", trs[i].calls, lastRaw[i], cpInts(st.held))
			} else if st.heldAux != nil && !sameInts(st.heldAux, lastAux[i]) {
				heldBy, heldWhat = i, fmt.Sprintf("the slice returned by %s after Next call #%d held %v and holds %v before the next call of Next on that iterator (only other iterators were advanced in between)", s.ks[i].auxName, trs[i].calls, lastAux[i], cpInts(st.heldAux))
			}
		}
		more := st.step()
		lastRaw[i], lastAux[i] = lastOf(trs[i].raw), lastOf(trs[i].aux)
		checkArg()
		return more
	}

	pi := c.Call("session("+s.name+";"+s.mode+")", func() {
		if s.arg != nil {
			backing = make([]int, len(s.arg)+2*argPad)
			for i := range backing {
				backing[i] = argSentinel
			}
			arg = backing[argPad : argPad+len(s.arg)]
			copy(arg, s.arg)
			backingWant = cpInts(backing)
		}
		switch s.mode {
		case "sequential":
			for i := range s.ks {
				build(i)
				for step(i) {
				}
			}
		case "built-first":
			for i := range s.ks {
				build(i)
			}
			for i := range s.ks {
				for step(i) {
				}
			}
		default: // interleaved
			for i := range s.ks {
				build(i)
			}
			for alive := len(s.ks); alive > 0; {
				alive = 0
				for i := range s.ks {
					if !steppers[i].done && step(i) {
						alive++
					}
				}
			}
		}
	})

	c.Obs("sessions:"+s.mode, 1)
	c.Obs("session_iterators", len(s.ks))
	if s.arg != nil {
		c.Obs("shared_argument_sessions:"+s.mode, 1)
		c.Obs("argument_unchanged_checks(after the constructor and after every Next)", argChecks)
		for _, k := range s.ks {
			if k.mk != nil {
				c.Obs("shared_argument_iterators:"+k.api, 1)
			}
		}
	}
	if s.mode == "interleaved" {
		c.Obs("held_value_checks(value of an iterator compared after other iterators were advanced)", heldChecks)
	}

	if argBy >= 0 {
		k := s.ks[argBy]
		r.violate(k, "argument-modified", fmt.Sprintf("the slice handed to the constructors held %v and holds %v after %s of iterator %d (%s)%s", s.arg, argNow, argWhen, argBy+1, calls[argBy], argBeyond),
			"the caller's argument slice is left as the caller filled it")
		c.Obs("session_iterators_not_judged_after_a_violation", len(s.ks)-1)
		return
	}
	for i, k := range s.ks {
		switch {
		case pi != nil && i == cur:
			r.judge(k, trs[i], pi)
		case pi != nil && (steppers[i] == nil || !steppers[i].done):
			c.Obs("session_iterators_not_judged_after_a_violation", 1)
		case i == heldBy:
			r.violate(k, "value-changed-by-another-iterator", heldWhat, "the object an iterator has yielded stays what it was until that iterator is advanced")
		default:
			r.judge(k, trs[i], nil)
		}
	}
}

// ---------------------------------------------------------------------------

// orders of the sizes k = 0..top for one multiplicity vector
func kOrders(c *engine.Ctx, top, idx int) (names []string, orders [][]int) {
	inc := make([]int, top+1)
	dec := make([]int, top+1)
	for k := 0; k <= top; k++ {
		inc[k] = k
		dec[top-k] = k
	}
	rg := c.Rand("session-k-order", idx)
	sh := cpInts(inc)
	rg.Shuffle(sh)
	// one size twice: the same constructor call again, later in the history
	sh = append(sh, sh[rg.Intn(len(sh))])
	// low sizes first, then the high ones downwards (small-large-small)
	var zig []int
	for lo, hi := 0, top; lo <= hi; lo, hi = lo+1, hi-1 {
		zig = append(zig, lo)
		if hi != lo {
			zig = append(zig, hi)
		}
	}
	return []string{"increasing", "decreasing", "seeded", "alternating"}, [][]int{inc, dec, sh, zig}
}

func ksName(ks []int) string {
	s := make([]string, len(ks))
	for i, k := range ks {
		s[i] = fmt.Sprint(k)
	}
	return strings.Join(s, ",")
}

var sessionModes = []string{"sequential", "built-first", "interleaved"}

type mcCache struct {
	v    []int
	want map[int][][]int
}

// kase: as multisetCombinationsCase, the reference of (v,k) computed once per vector.
func (mc *mcCache) kase(k int) *kase {
	ck := multisetCombinationsCaseWith(mc.v, k, mc.want[k])
	mc.want[k] = ck.want // never nil (make)
	return ck
}

// mixedSession: the slice v handed to constructors of different kinds.
func mixedSession(c *engine.Ctx, v []int, idx int, mode string) *session {
	rg := c.Rand("session-mixed", idx)
	mc := &mcCache{v: v, want: map[int][][]int{}}
	top := sumOf(v) + 1
	k1 := rg.Intn(top + 1)
	k2 := rg.Intn(top + 1)
	if k1 > k2 {
		k1, k2 = k2, k1
	}
	ks := []*kase{mc.kase(k1), mc.kase(k2)}
	if sumOf(v) <= 8 {
		ks = append(ks, multisetPermutationsCase(v))
	}
	ks = append(ks, productCase(v), restrictedProductCase(v, fixedPreds(len(v))[0]), restrictedProductCase(v, hashPred(rg.U64()&0xffffffffff, 3, 4, 0xffff)))
	if idx%2 == 0 {
		// the same constructor call twice
		ks = append(ks, productCase(v))
		if sumOf(v) <= 8 {
			ks = append(ks, multisetPermutationsCase(v))
		}
	}
	if idx%3 != 0 {
		// idx%3 == 0 keeps the small size before the large one
		perm := rg.Perm(len(ks))
		shuffled := make([]*kase, len(ks))
		for i, j := range perm {
			shuffled[i] = ks[j]
		}
		ks = shuffled
	}
	return &session{name: fmt.Sprintf("one slice %s for several constructors in seeded order", vecName(v)), arg: v, ks: ks, mode: mode}
}

// plainSession: the constructors without a slice argument, all iterators of one n alive at once.
func plainSession(c *engine.Ctx, n int, mode string) *session {
	var ks []*kase
	for k := 0; k <= n+1; k++ {
		ks = append(ks, combinationsCase(n, k), colexCase(n, k))
	}
	ks = append(ks, combinationsCase(n, n/2), colexCase(n, n/2)) // the same call twice
	ks = append(ks, permutationsCase(n), permutationsCase(n), lexPermutationsCase(n), integerPartitionsCase(n), integerPartitionsCase(n+3))
	if n >= 1 {
		ks = append(ks, partitionsCase(n), partitionsCase(n))
	}
	all := refiter.Permutations(n)
	fp := fixedPreds(n)
	for _, p := range []pred{fp[0], fp[2], fp[4], hashPred(c.Rand("session-plain", n).U64()&0xffffffffff, 3, 4, 0xffff)} {
		ks = append(ks, restrictedPermutationsCase(n, all, p), patternCase(n, p))
	}
	fr := fixedRelations(n)
	for _, rel := range []relation{fr[0], fr[1], fr[5], fr[7]} {
		ks = append(ks, topologicalCase(n, all, rel))
	}
	for _, rel := range seededRelations(c, n, 2) {
		ks = append(ks, topologicalCase(n, all, rel))
	}
	return &session{name: fmt.Sprintf("all constructors without a slice argument, n=%d", n), ks: ks, mode: mode}
}

func runSessions(c *engine.Ctx) {
	vs := ownedVectors(c.Pick(5, 6))
	// MultisetCombinations(m, k) for all k from ONE slice m, in every order of the sizes
	blocks(len(vs), 30, func(lo, hi int) {
		c.Unit(fmt.Sprintf("sessions/MultisetCombinations all sizes from one slice/vectors %d-%d", lo, hi-1), func() {
			r := newRunner(c)
			for i := lo; i < hi; i++ {
				v := vs[i]
				mc := &mcCache{v: v, want: map[int][][]int{}}
				names, orders := kOrders(c, sumOf(v)+1, i)
				for oi, order := range orders {
					// every (order, mode) pair comes up for a third of the vectors; thorough runs all of them
					for mi, mode := range sessionModes {
						if !c.Thorough() && (oi+i)%3 != mi {
							continue
						}
						var ks []*kase
						for _, k := range order {
							ks = append(ks, mc.kase(k))
						}
						r.runSession(&session{name: fmt.Sprintf("one slice m=%s for k=%s (%s)", vecName(v), ksName(order), names[oi]), arg: v, ks: ks, mode: mode})
						c.Obs("shared_argument_sessions_by_order_of_sizes:"+names[oi], 1)
					}
				}
			}
		})
	})
	// one slice for constructors of different kinds
	blocks(len(vs), 40, func(lo, hi int) {
		c.Unit(fmt.Sprintf("sessions/one slice for several constructors/vectors %d-%d", lo, hi-1), func() {
			r := newRunner(c)
			for i := lo; i < hi; i++ {
				for mi, mode := range sessionModes {
					if !c.Thorough() && i%3 != mi {
						continue
					}
					r.runSession(mixedSession(c, vs[i], i, mode))
				}
			}
		})
	})
	// seeded vectors with larger entries, a few sizes each
	ns := c.Pick(60, 600)
	blocks(ns, 20, func(lo, hi int) {
		c.Unit(fmt.Sprintf("sessions/seeded vectors %d-%d", lo, hi-1), func() {
			r := newRunner(c)
			for i := lo; i < hi; i++ {
				rg := c.Rand("session-vectors", i)
				v := make([]int, 1+rg.Intn(5))
				for j := range v {
					v[j] = rg.Intn(7)
					if rg.Bool(0.1) {
						v[j] = 7 + rg.Intn(20)
					}
				}
				top := sumOf(v) + 1
				mc := &mcCache{v: v, want: map[int][][]int{}}
				var order []int
				for j := 0; j < 4; j++ {
					k := rg.Intn(top + 1)
					if rg.Bool(0.5) {
						k = rg.Intn(min(top, 6) + 1) // small sizes: below most of the multiplicities
					}
					order = append(order, k)
				}
				var ks []*kase
				for _, k := range order {
					ks = append(ks, mc.kase(k))
				}
				mode := sessionModes[i%3]
				r.runSession(&session{name: fmt.Sprintf("one slice m=%s for k=%s (seeded)", vecName(v), ksName(order)), arg: v, ks: ks, mode: mode})
				c.Obs("shared_argument_sessions_by_order_of_sizes:seeded", 1)
				if prod := productSize(v); prod <= 20000 && sumOf(v) <= 60 {
					r.runSession(mixedSession(c, v, 100000+i, sessionModes[(i+1)%3]))
				}
			}
		})
	})
	// long vectors
	for _, l := range []int{65, 130} {
		l := l
		c.Unit(fmt.Sprintf("sessions/len=%d", l), func() {
			r := newRunner(c)
			ends := withEntries(constVec(l, 0), 0, 2, 63, 1, 64, 3, l-1, 2)
			ones := constVec(l, 1)
			for mi, mode := range sessionModes {
				mc := &mcCache{v: ends, want: map[int][][]int{}}
				var ks []*kase
				for _, k := range []int{0, 1, 2, 5, 3, 8, 9} {
					ks = append(ks, mc.kase(k))
				}
				r.runSession(&session{name: fmt.Sprintf("one slice m=%s for k=0,1,2,5,3,8,9", vecName(ends)), arg: ends, ks: ks, mode: mode})
				mo := &mcCache{v: ones, want: map[int][][]int{}}
				ks = nil
				for _, k := range []int{0, 1, l, l - 1, 2}[mi:] {
					ks = append(ks, mo.kase(k))
				}
				ks = append(ks, productCase(ones), restrictedProductCase(ones, fixedPreds(l)[0]))
				r.runSession(&session{name: fmt.Sprintf("one slice %s for several constructors (%d)", vecName(ones), mi), arg: ones, ks: ks, mode: mode})
			}
		})
	}
	// constructors without a slice argument
	for n := 0; n <= c.Pick(5, 7); n++ {
		n := n
		for _, mode := range sessionModes[1:] {
			mode := mode
			c.Unit(fmt.Sprintf("sessions/n=%d/no slice argument/%s", n, mode), func() {
				newRunner(c).runSession(plainSession(c, n, mode))
			})
		}
	}
	c.Unit("session-workloads", func() {
		c.Obs("exhaustive:sessions: MultisetCombinations(m,k) for ALL k = 0..sum+1 from one caller slice m, for every multiplicity vector of length <= 4 and sum <= "+fmt.Sprint(c.Pick(5, 6))+
			", sizes in increasing, decreasing, alternating and seeded order, iterators run sequentially, built first and interleaved", 1)
	})
}

func productSize(v []int) int {
	p := 1
	for _, x := range v {
		if x < 1 {
			return 0
		}
		p *= x
		if p > 1<<30 {
			return 1 << 30
		}
	}
	return p
}

package c17

// Value semantics.  A SortedInts is a slice: assigning it, passing it to a
// function or storing it in a struct copies the header, and the copies share one
// backing array.  "Mutators change only their receiver" therefore has to hold
// between VALUES, not between variables that happen to own separate arrays: a
// scenario here keeps several live values (copies of one another, sub-slices of a
// larger set, earlier and longer snapshots, results of library functions, raw
// buffers around a value) and after every single library call compares ALL of them
// with what they read before.
//
// What is judged ("mutators change only their receiver", read the way the unchanged
// library itself requires for Remove and the Union method):
//   - A mutator may rewrite any cell of its receiver's own backing array up to its
//     capacity: Remove shifts the receiver's elements, the Union method merges into the
//     receiver's capacity when the result fits, Add may append / insert in place when
//     there is room.  Cells inside that licence (Remove: the receiver's elements; Add
//     and a fitting Union: the receiver's capacity window) may change; a value that
//     reads such a cell is recorded as disturbed (observation, not judged) and retired.
//     Every cell outside the licence is judged, and so are the arguments.
//   - A Union that does not fit cannot be done in place: every other value is judged.
//   - A receiver that moved to another array shares it with nobody.
//   - Non-mutating functions: every value is judged.

import (
	"fmt"
	"unsafe"

	"github.com/Tom-Johnston/mamba/sortints"

	"verif/internal/engine"
	"verif/internal/oracle/refset"
)

// window is a half-open range of addresses of cells.
type window struct{ lo, hi uintptr }

func cellAddr(s []int, i int) uintptr {
	return uintptr(unsafe.Pointer(unsafe.SliceData(s))) + uintptr(i)*unsafe.Sizeof(int(0))
}

// cellsOf: the cells [from, to) of s (indices up to cap(s) allowed).
func cellsOf(s []int, from, to int) window {
	if cap(s) == 0 || from >= to {
		return window{}
	}
	return window{cellAddr(s, from), cellAddr(s, to)}
}

func (w window) has(a uintptr) bool   { return a >= w.lo && a < w.hi }
func (w window) meets(v window) bool  { return w.lo < v.hi && v.lo < w.hi }
func (w window) empty() bool          { return w.lo == w.hi }
func (v *val) cells() window          { return cellsOf(v.s, 0, len(v.s)) }
func (v *val) capacityWindow() window { return cellsOf(v.s, 0, cap(v.s)) }
func (v *val) spareWindow() window    { return cellsOf(v.s, len(v.s), cap(v.s)) }

type val struct {
	name  string
	s     sortints.SortedInts // the header the "caller" holds
	snap  []int               // what it read when last certified
	model refset.Set          // nil: raw memory that is only watched (the array around a value)
}

type pool struct {
	m    *mon
	key  string
	vals []*val
	log  []string
	num  int64
	dead bool // a violation was reported: the scenario is over
	nt   bool // a mutator ran while another live value shared the receiver's array
	seq  int
}

func newPool(m *mon, key string) *pool { return &pool{m: m, key: key} }

func (p *pool) call(f func()) *engine.PanicInfo {
	p.num++
	return p.m.c.CallN(p.key, p.num, f)
}

func (p *pool) fail(api, kind, obs, exp string) {
	tail := p.log
	if len(tail) > 40 {
		tail = tail[len(tail)-40:]
	}
	var vs []string
	for _, v := range p.vals {
		vs = append(vs, fmt.Sprintf("%s = %v (len %d, cap %d)", v.name, []int(v.s), len(v.s), cap(v.s)))
	}
	p.m.viol(api, kind, fmt.Sprintf("%s|step=%d", p.key, len(p.log)), map[string]interface{}{"scenario": p.key, "steps": tail, "values_after": vs}, obs, exp)
	p.dead = true
	p.m.bad["values/all"]++
}

func (p *pool) put(name string, s sortints.SortedInts, model refset.Set) *val {
	v := &val{name: name, s: s, snap: append([]int(nil), s...), model: model}
	p.vals = append(p.vals, v)
	return v
}

func (p *pool) fresh(prefix string) string {
	p.seq++
	return fmt.Sprintf("%s%d", prefix, p.seq)
}

func (p *pool) drop(v *val) {
	for i, w := range p.vals {
		if w == v {
			p.vals = append(p.vals[:i:i], p.vals[i+1:]...)
			return
		}
	}
}

func (p *pool) sets() []*val {
	var r []*val
	for _, v := range p.vals {
		if v.model != nil {
			r = append(r, v)
		}
	}
	return r
}

// others compares every value except recv with its snapshot.  Cells inside lic may have changed.
func (p *pool) others(api string, recv *val, lic window, licence string) bool {
	c := p.m.c
	var retired []*val
	// set values first: "another value changed" says more than "the array around it changed"
	order := p.sets()
	for _, w := range p.vals {
		if w.model == nil {
			order = append(order, w)
		}
	}
	for _, w := range order {
		if w == recv {
			continue
		}
		c.Obs("values:other_values_compared", 1)
		licensed := false
		for j := range w.snap {
			if w.s[j] == w.snap[j] {
				continue
			}
			if lic.has(cellAddr(w.s, j)) {
				licensed = true
				continue
			}
			what := "another value"
			if w.model == nil {
				what = "the array around the value"
			}
			p.fail(api, "changes-value-other-than-receiver",
				fmt.Sprintf("%s %s now reads %v (cell %d: %d -> %d)", what, w.name, []int(w.s), j, w.snap[j], w.s[j]),
				fmt.Sprintf("%s still reads %v: %s changes its receiver only", w.name, w.snap, api))
			return false
		}
		if licensed {
			c.Obs("values:value_sharing_the_array_disturbed_by_in_place_"+licence+"(not judged)", 1)
			if w.model == nil {
				copy(w.snap, w.s)
			} else {
				retired = append(retired, w)
			}
		} else if recv != nil && w.model != nil && !w.cells().empty() && w.cells().meets(lic) {
			c.Obs("values:value_sharing_the_array_intact_after_in_place_"+licence, 1)
		}
	}
	for _, w := range retired {
		p.log = append(p.log, fmt.Sprintf("(%s shared cells the in-place %s moved; retired)", w.name, licence))
		p.drop(w)
	}
	return true
}

// mutate runs one mutator on v.
func (p *pool) mutate(v *val, api, desc string, want refset.Set, lic window, licence string, f func(s *sortints.SortedInts)) bool {
	c := p.m.c
	p.log = append(p.log, v.name+"."+desc)
	sharesCap, sharesSpare := false, false
	for _, w := range p.vals {
		if w != v && !w.cells().empty() {
			if w.cells().meets(v.capacityWindow()) {
				sharesCap = true
			}
			if w.cells().meets(v.spareWindow()) {
				sharesSpare = true
			}
		}
	}
	s := v.s
	before := v.capacityWindow()
	pi := p.call(func() { f(&s) })
	c.Eval(1)
	c.Obs("values:"+api, 1)
	if pi != nil {
		p.fail(api, "panic|"+engine.SiteNoLine(pi.Site), pi.String(), show(want.Sorted()))
		return false
	}
	if !refset.StrictlyIncreasing(s) || !refset.Equal(s, want) {
		p.fail(api, "wrong", show(s), show(want.Sorted()))
		return false
	}
	v.s, v.model, v.snap = s, want, append([]int(nil), s...)
	// a receiver that moved to another array owns that array
	if after := v.capacityWindow(); !after.empty() && !(after.lo >= before.lo && after.hi <= before.hi) {
		for _, w := range p.vals {
			if w != v && w.capacityWindow().meets(after) {
				p.fail(api, "result-aliases-argument", "the receiver now shares memory with "+w.name, "receiver owns its cells")
				return false
			}
		}
	}
	if !p.others(api, v, lic, licence) {
		return false
	}
	if sharesCap {
		p.nt = true
		c.Obs("values:mutations_while_another_live_value_shares_the_array", 1)
		c.Obs("values:"+api+"_while_another_live_value_shares_the_array", 1)
	}
	if sharesSpare {
		c.Obs("values:"+api+"_on_receiver_whose_spare_capacity_is_read_by_another_live_value", 1)
	}
	return true
}

func (p *pool) add(v *val, args []int) bool {
	want := refset.Union(v.model, refset.Of(args...))
	return p.mutate(v, "Add", fmt.Sprintf("Add(%v)", args), want, v.capacityWindow(), "Add", func(s *sortints.SortedInts) { s.Add(args...) })
}

func (p *pool) remove(v *val, x int) bool {
	want := v.model.Copy()
	delete(want, x)
	return p.mutate(v, "Remove", fmt.Sprintf("Remove(%d)", x), want, v.cells(), "Remove", func(s *sortints.SortedInts) { s.Remove(x) })
}

// union: v.Union(b).  b is handed over as it is unless it lies in the receiver's own capacity (an in-place merge
// over its own argument is nobody's promise; the aliased forms that are judged are in unionAliased).
func (p *pool) union(v *val, b sortints.SortedInts, bname string) bool {
	want := refset.Union(v.model, refset.Of(b...))
	lic, licence := window{}, ""
	if cap(v.s) >= len(want) {
		lic, licence = v.capacityWindow(), "Union"
	} else {
		p.m.c.Obs("values:Union_method_that_cannot_be_done_in_place", 1)
	}
	if cellsOf(b, 0, len(b)).meets(v.capacityWindow()) {
		b = append(sortints.SortedInts{}, b...)
		bname += "(copied)"
	}
	return p.mutate(v, "Union_method", fmt.Sprintf("Union(%s=%v)", bname, []int(b)), want, lic, licence, func(s *sortints.SortedInts) { s.Union(b) })
}

// fn runs a non-mutating function; the result becomes a value of the scenario.
func (p *pool) fn(api, desc string, want refset.Set, f func() sortints.SortedInts) *val {
	c := p.m.c
	name := p.fresh("r")
	p.log = append(p.log, name+" := "+desc)
	var got sortints.SortedInts
	pi := p.call(func() { got = f() })
	c.Eval(1)
	c.Obs("values:"+api, 1)
	if pi != nil {
		p.fail(api, "panic|"+engine.SiteNoLine(pi.Site), pi.String(), show(want.Sorted()))
		return nil
	}
	if !refset.StrictlyIncreasing(got) || !refset.Equal(got, want) {
		p.fail(api, "wrong", show(got), show(want.Sorted()))
		return nil
	}
	if !p.others(api, nil, window{}, "") {
		return nil
	}
	for _, w := range p.vals {
		if cellsOf(got, 0, cap(got)).meets(w.capacityWindow()) {
			p.fail(api, "result-aliases-argument", "the result shares memory with "+w.name, "a new SortedInts")
			return nil
		}
	}
	if len(got) == 0 {
		c.Obs("values:empty_library_result_becomes_a_value", 1)
	}
	return p.put(name, got, want)
}

// pred runs a function with a scalar result.
func (p *pool) pred(api, desc string, want string, f func() string) bool {
	c := p.m.c
	p.log = append(p.log, desc)
	var got string
	pi := p.call(func() { got = f() })
	c.Eval(1)
	c.Obs("values:"+api, 1)
	if pi != nil {
		p.fail(api, "panic|"+engine.SiteNoLine(pi.Site), pi.String(), want)
		return false
	}
	if got != want {
		p.fail(api, "wrong", got, want)
		return false
	}
	return p.others(api, nil, window{}, "")
}

func (p *pool) copyOf(v *val, name string) *val {
	p.log = append(p.log, name+" := "+v.name)
	p.m.c.Obs("values:copies_by_assignment", 1)
	return p.put(name, v.s, v.model.Copy())
}

// ---------------------------------------------------------------- where values come from

var provenances = []string{
	"exactly sized (nil when empty)",
	"slice of an array, 1 cell of spare capacity",
	"slice of an array, 3 cells of spare capacity",
	"prefix of a larger set that is still held",
	"middle of a larger set that is still held",
	"grown by append",
	"library: single Adds in increasing order",
	"library: NewSortedInts with repeated arguments",
	"library: largest element removed, the longer value still held",
	"library: smallest element removed",
	"library: Union of two halves",
	"library: in-place Union method into spare capacity",
}

func maxOf(a []int, dflt int) int {
	if len(a) == 0 {
		return dflt
	}
	return a[len(a)-1]
}

func minOf(a []int, dflt int) int {
	if len(a) == 0 {
		return dflt
	}
	return a[0]
}

// build makes a value holding content (strictly increasing) in the given way; nil if the scenario is over.
func (p *pool) build(kind int, content []int, name string) *val {
	c := p.m.c
	n := len(content)
	model := refset.Of(content...)
	c.Obs("values:made:"+provenances[kind], 1)
	p.log = append(p.log, fmt.Sprintf("%s := %v <%s>", name, content, provenances[kind]))
	inArray := func(vals []int, spare int) *emb {
		e := embed(vals, spare)
		p.put(p.fresh("array"), e.back, nil)
		return e
	}
	// a library-made set through checked calls
	var tmp *val
	lib := func(start []int) bool {
		tmp = p.put(name, nil, refset.Set{})
		return p.mutate(tmp, "Add", fmt.Sprintf("Add(%v)", start), refset.Of(start...), tmp.capacityWindow(), "Add", func(s *sortints.SortedInts) { s.Add(start...) })
	}
	switch kind {
	case 0:
		if n == 0 {
			return p.put(name, nil, model)
		}
		return p.put(name, append(make([]int, 0, n), content...), model)
	case 1:
		return p.put(name, inArray(content, 1).s, model)
	case 2:
		return p.put(name, inArray(content, 3).s, model)
	case 3:
		hi := maxOf(content, 10)
		big := append(append([]int{}, content...), hi+2, hi+4)
		e := inArray(big, 1)
		p.put(p.fresh("big"), e.s, refset.Of(big...))
		return p.put(name, e.s[:n], model)
	case 4:
		big := append(append([]int{minOf(content, 0) - 3}, content...), maxOf(content, 10)+2)
		e := inArray(big, 0)
		p.put(p.fresh("big"), e.s, refset.Of(big...))
		return p.put(name, e.s[1:1+n], model)
	case 5:
		var s []int
		for _, v := range content {
			s = append(s, v)
		}
		return p.put(name, s, model)
	case 6:
		tmp = p.put(name, nil, refset.Set{})
		for _, x := range content {
			if !p.add(tmp, []int{x}) {
				return nil
			}
		}
		return tmp
	case 7:
		args := append([]int{}, content...)
		if n > 0 {
			args = append(args, content[0], content[n-1])
		}
		return p.fnNamed(name, "NewSortedInts", fmt.Sprintf("NewSortedInts(%v)", args), model, func() sortints.SortedInts { return sortints.NewSortedInts(args...) })
	case 8:
		x := maxOf(content, 10) + 1
		if !lib(append(append([]int{}, content...), x)) {
			return nil
		}
		p.copyOf(tmp, p.fresh("longer"))
		if !p.remove(tmp, x) {
			return nil
		}
		return tmp
	case 9:
		x := minOf(content, 0) - 1
		if !lib(append([]int{x}, content...)) || !p.remove(tmp, x) {
			return nil
		}
		return tmp
	case 10:
		var a, b sortints.SortedInts
		for i, v := range content {
			if i%2 == 0 {
				a = append(a, v)
			} else {
				b = append(b, v)
			}
		}
		return p.fnNamed(name, "Union", fmt.Sprintf("Union(%v,%v)", []int(a), []int(b)), model, func() sortints.SortedInts { return sortints.Union(a, b) })
	default:
		head, last := content, sortints.SortedInts(nil)
		if n > 0 {
			head, last = content[:n-1], sortints.SortedInts{content[n-1]}
		}
		tmp = p.put(name, inArray(head, 2).s, refset.Of(head...))
		if !p.union(tmp, last, "last") {
			return nil
		}
		return tmp
	}
}

func (p *pool) fnNamed(name, api, desc string, want refset.Set, f func() sortints.SortedInts) *val {
	v := p.fn(api, desc, want, f)
	if v != nil {
		v.name = name
	}
	return v
}

// ---------------------------------------------------------------- fixed scenarios: two copies of one parent

type vop struct {
	kind int // 0 Add, 1 Remove, 2 Union method
	args []int
}

func (o vop) String() string {
	return fmt.Sprintf("%s(%v)", []string{"Add", "Remove", "Union"}[o.kind], o.args)
}

func (p *pool) apply(v *val, o vop) bool {
	switch o.kind {
	case 0:
		return p.add(v, append(make([]int, 0, len(o.args)), o.args...))
	case 1:
		return p.remove(v, o.args[0])
	default:
		var b sortints.SortedInts
		if o.args != nil {
			b = append(sortints.SortedInts{}, o.args...)
		}
		return p.union(v, b, "b")
	}
}

func (p *pool) alive(v *val) bool {
	for _, w := range p.vals {
		if w == v {
			return true
		}
	}
	return false
}

// the first siblingQuick of them are the quick tier
var siblingOps = []vop{
	{0, []int{6}}, {0, []int{7}}, {0, []int{2}}, {0, []int{6, 8}}, {0, []int{3}},
	{1, []int{5}}, {1, []int{1}},
	{2, []int{6}}, {2, []int{0}}, {2, nil},
	{0, []int{0}}, {0, []int{4}}, {0, []int{}}, {1, []int{3}}, {1, []int{2}}, {2, []int{6, 7}}, {2, []int{3}},
}

const siblingQuick = 10

// siblings: parent := <content made in some way>; left := parent; left.op1; right := parent; right.op2; parent.Add(9).
func (m *mon) siblings(content []int, kind int, op1, op2 vop) {
	m.class = "values"
	if m.bad["values/all"] >= 3 {
		m.c.Obs("skipped_after_violation:values", 1)
		return
	}
	p := newPool(m, fmt.Sprintf("parent=%v<%s>;left:=parent;left.%v;right:=parent;right.%v;parent.Add(9)", content, provenances[kind], op1, op2))
	parent := p.build(kind, content, "parent")
	if parent == nil {
		return
	}
	left := p.copyOf(parent, "left")
	if !p.apply(left, op1) {
		return
	}
	if p.alive(parent) {
		right := p.copyOf(parent, "right")
		if !p.apply(right, op2) {
			return
		}
	}
	if p.alive(parent) && !p.add(parent, []int{9}) {
		return
	}
	if p.nt {
		m.c.NTDistinct(1)
	}
	m.c.Obs("values:sibling_scenarios", 1)
}

// ---------------------------------------------------------------- seeded scenarios: a forest of values

func (m *mon) forest(idx int) {
	c := m.c
	m.class = "values"
	if m.bad["values/all"] >= 3 {
		m.c.Obs("skipped_after_violation:values", 1)
		return
	}
	rg := c.Rand("forest", idx)
	p := newPool(m, fmt.Sprintf("forest#%d", idx))
	span := 3 + rg.Intn(14)
	small := func(max int) []int {
		t := refset.Set{}
		for n := rg.Intn(max + 1); n > 0; n-- {
			t[rg.Intn(span)] = true
		}
		return t.Sorted()
	}
	p.build(rg.Intn(len(provenances)), small(6), "v0")
	steps := 25 + rg.Intn(50)
	for st := 0; st < steps && !p.dead && !c.Stopped(); st++ {
		live := p.sets()
		if len(live) == 0 || (len(live) < 3 && rg.Bool(0.1)) {
			p.build(rg.Intn(len(provenances)), small(6), p.fresh("v"))
			continue
		}
		v := live[rg.Intn(len(live))]
		w := live[rg.Intn(len(live))]
		switch r := rg.Intn(100); {
		case r < 14:
			p.copyOf(v, p.fresh("c"))
		case r < 18 && len(v.s) >= 2:
			i := rg.Intn(len(v.s))
			j := i + rg.Intn(len(v.s)-i+1)
			name := p.fresh("s")
			p.log = append(p.log, fmt.Sprintf("%s := %s[%d:%d]", name, v.name, i, j))
			c.Obs("values:sub_slices", 1)
			p.put(name, v.s[i:j], refset.Of(v.s[i:j]...))
		case r < 45:
			var args []int
			switch k := rg.Intn(20); {
			case k < 8:
				args = []int{maxOf(v.s, 0) + 1 + rg.Intn(3)}
			case k < 13:
				args = []int{rg.Intn(span+3) - 1}
			case k < 16 && w != v:
				args = w.s // another value's elements as the argument list, as they are
			default:
				for j := rg.Intn(5); j > 0; j-- {
					x := rg.Intn(span+3) - 1
					args = append(args, x)
					if rg.Bool(0.3) {
						args = append(args, x)
					}
				}
				rg.Shuffle(args)
			}
			p.add(v, args)
		case r < 57:
			x := rg.Intn(span+3) - 1
			if len(v.s) > 0 && rg.Bool(0.6) {
				x = v.s[rg.Intn(len(v.s))]
			}
			p.remove(v, x)
		case r < 70:
			switch k := rg.Intn(4); {
			case k == 0 && w != v:
				p.union(v, w.s, w.name)
			case k == 1:
				hi := maxOf(v.s, 0)
				p.union(v, sortints.SortedInts{hi + 1, hi + 3}[:1+rg.Intn(2)], "b")
			case k == 2:
				p.union(v, nil, "nil")
			default:
				p.union(v, embed(small(4), rg.Intn(2)).s, "b")
			}
		case r < 90:
			t, tn, T := w.s, w.name, w.model
			if rg.Bool(0.4) {
				t = embed(small(5), rg.Intn(2)).s
				tn, T = fmt.Sprint([]int(t)), refset.Of(t...)
			}
			switch rg.Intn(7) {
			case 0:
				p.fn("Union", "Union("+v.name+","+tn+")", refset.Union(v.model, T), func() sortints.SortedInts { return sortints.Union(v.s, t) })
			case 1:
				p.fn("Intersection", "Intersection("+v.name+","+tn+")", refset.Inter(v.model, T), func() sortints.SortedInts { return sortints.Intersection(v.s, t) })
			case 2:
				p.fn("SetMinus", "SetMinus("+v.name+","+tn+")", refset.Minus(v.model, T), func() sortints.SortedInts { return sortints.SetMinus(v.s, t) })
			case 3:
				p.fn("XOR", "XOR("+v.name+","+tn+")", refset.Xor(v.model, T), func() sortints.SortedInts { return sortints.XOR(v.s, t) })
			case 4:
				n := rg.Intn(span + 2)
				p.fn("Complement", fmt.Sprintf("Complement(%d,%s)", n, v.name), refset.Minus(refset.Interval(n), v.model), func() sortints.SortedInts { return sortints.Complement(n, v.s) })
			case 5:
				p.fn("NewSortedInts", "NewSortedInts("+v.name+"...)", v.model.Copy(), func() sortints.SortedInts { return sortints.NewSortedInts(v.s...) })
			default:
				k := rg.Intn(5)
				p.fn("Range", fmt.Sprintf("Range(%d,%d,1)", k, k), refset.Set{}, func() sortints.SortedInts { return sortints.Range(k, k, 1) })
			}
		default:
			switch rg.Intn(3) {
			case 0:
				p.pred("ContainsSorted", "ContainsSorted("+v.name+","+w.name+")", fmt.Sprint(refset.Subset(w.model, v.model)), func() string { return fmt.Sprint(sortints.ContainsSorted(v.s, w.s)) })
			case 1:
				p.pred("IntersectionSize", "IntersectionSize("+v.name+","+w.name+")", fmt.Sprint(len(refset.Inter(v.model, w.model))), func() string { return fmt.Sprint(sortints.IntersectionSize(v.s, w.s)) })
			default:
				x := rg.Intn(span+3) - 1
				p.pred("ContainsSingle", fmt.Sprintf("ContainsSingle(%s,%d)", v.name, x), fmt.Sprint(v.model[x]), func() string { return fmt.Sprint(sortints.ContainsSingle(v.s, x)) })
			}
		}
		// keep the scenario small: forget old values
		for live = p.sets(); len(live) > 7; live = p.sets() {
			p.drop(live[rg.Intn(len(live)-1)])
		}
		for len(p.vals) > 12 {
			p.drop(p.vals[0])
		}
	}
	if !p.dead && p.nt {
		c.NT("forest", idx, c.Seed())
	}
	c.Obs("values:forest_scenarios", 1)
}

func valueUnits(c *engine.Ctx) {
	// every pair of single mutations on two copies of one parent, for every way of making the parent
	univ := []int{1, 3, 5}
	for kind := range provenances {
		kind := kind
		c.Unit(fmt.Sprintf("values/siblings/%d", kind), func() {
			m := newMon(c)
			ops := siblingOps[:c.Pick(siblingQuick, len(siblingOps))]
			for mask := 0; mask < 1<<uint(len(univ)); mask++ {
				content := subsetOf(univ, mask)
				for _, op1 := range ops {
					for _, op2 := range ops {
						m.siblings(content, kind, op1, op2)
					}
				}
				if c.Stopped() {
					return
				}
			}
			if kind == 0 {
				c.Obs(fmt.Sprintf("exhaustive:two copies of one parent (every subset of %v, made in %d ways), every ordered pair of %d single mutations (Add/Remove/Union method), then Add on the parent; all live values compared after each call", univ, len(provenances), len(ops)), 1)
			}
		})
	}
	nf := c.Pick(600, 8000)
	per := 50
	for u := 0; u*per < nf; u++ {
		u := u
		c.Unit(fmt.Sprintf("values/forest/%d", u), func() {
			m := newMon(c)
			for i := u * per; i < (u+1)*per && i < nf; i++ {
				m.forest(i)
				if c.Stopped() {
					return
				}
			}
		})
	}
}

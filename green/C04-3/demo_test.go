// Demonstration for C04 change 3 (Save/Load panic with errors that carry context; Load rejects malformed
// records with its own message).
//
// Run (from the root of the mamba repository):
//
//	mkdir -p c04demo && cp /tmp/green-out/C04/3/demo_test.go c04demo/ && \
//	  GOFLAGS=-mod=mod GOPROXY=off GOSUMDB=off GOTOOLCHAIN=local \
//	  go test -vet=off -count=1 -timeout 300s -v ./c04demo/ ; rm -rf c04demo
//
// TestProperty checks C04 itself (every save position, save/load chains, non-disturbance, independence,
// including an original that goes on after a Save which failed) and passes on the clean tree AND with the patch.
// TestIncidentalPanicValues asserts the OLD panic values of the error paths (the bare gob/io error, or a Go
// runtime error for a malformed record); it passes on the clean tree and FAILS with the patch.
package c04demo

import (
	"bytes"
	"encoding/gob"
	"errors"
	"fmt"
	"io"
	"runtime"
	"testing"

	"github.com/Tom-Johnston/mamba/graph"
	"github.com/Tom-Johnston/mamba/graph/search"
)

func snap(g *graph.DenseGraph) string {
	return fmt.Sprint(g.NumberOfVertices, g.NumberOfEdges, g.DegreeSequence, g.Edges)
}

func drain(it *search.GraphIterator) []string {
	var out []string
	for it.Next() {
		out = append(out, snap(it.Value()))
	}
	return out
}

func equal(a, b []string) bool {
	if len(a) != len(b) {
		return false
	}
	for i := range a {
		if a[i] != b[i] {
			return false
		}
	}
	return true
}

type pred struct {
	name string
	pre  func(*graph.DenseGraph) bool
	post func(*graph.DenseGraph) bool
}

func never(*graph.DenseGraph) bool { return false }

func hasTriangle(g *graph.DenseGraph) bool {
	n := g.NumberOfVertices
	for i := 0; i < n; i++ {
		for j := i + 1; j < n; j++ {
			if !g.IsEdge(i, j) {
				continue
			}
			for k := j + 1; k < n; k++ {
				if g.IsEdge(i, k) && g.IsEdge(j, k) {
					return true
				}
			}
		}
	}
	return false
}

func maxDegreeOver3(g *graph.DenseGraph) bool {
	for _, d := range g.DegreeSequence {
		if d > 3 {
			return true
		}
	}
	return false
}

var preds = []pred{
	{"none", never, never},
	{"triangle-free(prune)", never, hasTriangle},
	{"maxdeg<=3(preprune)", maxDegreeOver3, never},
}

var errSink = errors.New("sink is full")

// failAfter accepts the first `ok` Write calls and fails afterwards.
type failAfter struct{ ok int }

func (f *failAfter) Write(p []byte) (int, error) {
	if f.ok <= 0 {
		return 0, errSink
	}
	f.ok--
	return len(p), nil
}

// caught runs f and returns the recovered panic value (nil if f returned normally).
func caught(f func()) (v interface{}) {
	defer func() { v = recover() }()
	f()
	return nil
}

func TestProperty(t *testing.T) {
	splits := [][2]int{{0, 1}, {0, 2}, {1, 2}, {2, 3}}
	for n := 0; n <= 6; n++ {
		for _, am := range splits {
			for _, p := range preds {
				a, m := am[0], am[1]
				name := fmt.Sprintf("n=%d a=%d m=%d %s", n, a, m, p.name)
				full := drain(search.WithPruning(n, a, m, p.pre, p.post))
				for k := 0; k <= len(full)+1; k++ {
					orig := search.WithPruning(n, a, m, p.pre, p.post)
					for i := 0; i < k; i++ {
						orig.Next()
					}
					kk := k
					if kk > len(full) {
						kk = len(full)
					}
					before := snap(orig.Value())
					//A Save which fails half way must not disturb the original either.
					if v := caught(func() { orig.Save(&failAfter{ok: k % 3}) }); v == nil {
						t.Fatalf("%s k=%d: Save to a failing writer did not panic", name, k)
					}
					var buf bytes.Buffer
					orig.Save(&buf)
					if snap(orig.Value()) != before {
						t.Fatalf("%s k=%d: Save changed Value()", name, k)
					}
					saved := append([]byte(nil), buf.Bytes()...)
					loaded := search.Load(&buf, p.pre, p.post)

					//Chain: advance the loaded iterator by one, save and load again.
					var got []string
					if loaded.Next() {
						got = append(got, snap(loaded.Value()))
						var buf2 bytes.Buffer
						loaded.Save(&buf2)
						second := search.Load(&buf2, p.pre, p.post)
						//The original and the first loaded iterator go on, interleaved with the second one.
						rest2 := drain(second)
						rest1 := drain(loaded)
						if !equal(rest1, rest2) {
							t.Fatalf("%s k=%d: chain differs", name, k)
						}
						got = append(got, rest2...)
					}
					if !equal(got, full[kk:]) {
						t.Fatalf("%s k=%d: resumed output differs: got %d graphs, want %d", name, k, len(got), len(full)-kk)
					}
					if rest := drain(orig); !equal(rest, full[kk:]) {
						t.Fatalf("%s k=%d: the original was disturbed", name, k)
					}
					//The same bytes can be loaded again after everything else has finished.
					if again := drain(search.Load(bytes.NewReader(saved), p.pre, p.post)); !equal(again, full[kk:]) {
						t.Fatalf("%s k=%d: reloading the same bytes differs", name, k)
					}
				}
			}
		}
	}
}

// record mirrors the gob layout written by Save so that a malformed record can be fabricated.
type record struct {
	N, A, M     int
	First       bool
	G           *graph.DenseGraph
	Choices     []uint
	CurrentPath []int
}

func TestIncidentalPanicValues(t *testing.T) {
	//1. Load from an empty reader: the bare io.EOF.
	v := caught(func() { search.Load(bytes.NewReader(nil), never, never) })
	t.Logf("Load(empty) panics with %T: %v", v, v)
	if v != io.EOF {
		t.Errorf("Load(empty): panic value is not the bare io.EOF")
	}

	//2. Load from a truncated record: the bare io.ErrUnexpectedEOF.
	it := search.All(5, 0, 1)
	for i := 0; i < 7; i++ {
		it.Next()
	}
	var buf bytes.Buffer
	it.Save(&buf)
	full := buf.Bytes()
	v = caught(func() { search.Load(bytes.NewReader(full[:len(full)-5]), never, never) })
	t.Logf("Load(truncated) panics with %T: %v", v, v)
	if v != io.ErrUnexpectedEOF {
		t.Errorf("Load(truncated): panic value is not the bare io.ErrUnexpectedEOF")
	}
	if e, ok := v.(error); !ok || e.Error() != "unexpected EOF" {
		t.Errorf("Load(truncated): text of the panic value is not %q", "unexpected EOF")
	}

	//3. Save to a writer that fails: the writer's own error value.
	v = caught(func() { it.Save(&failAfter{ok: 1}) })
	t.Logf("Save(failing writer) panics with %T: %v", v, v)
	if v != errSink {
		t.Errorf("Save(failing writer): panic value is not the writer's error itself")
	}

	//4. A record that Save cannot have written (current graph larger than n): a Go runtime error.
	var bad bytes.Buffer
	if err := gob.NewEncoder(&bad).Encode(&record{N: 3, A: 0, M: 1, G: graph.NewDense(6, nil)}); err != nil {
		t.Fatal(err)
	}
	v = caught(func() { search.Load(&bad, never, never) })
	t.Logf("Load(malformed) panics with %T: %v", v, v)
	if _, ok := v.(runtime.Error); !ok {
		t.Errorf("Load(malformed): panic value is not a runtime.Error")
	}
}

// Demonstration for C13 change 8 (Builder.Finish marks the builder as finished, as its documentation says:
// a second Finish and an Add after Finish are refused until Initialise is called again).
//
// Run from the repository root (public API only):
//
//	cp /tmp/green-out/C13/8/demo_test.go dawg/zz_c13_demo8_test.go
//	GOFLAGS=-mod=mod GOPROXY=off GOSUMDB=off GOTOOLCHAIN=local go test -vet=off -count=1 -timeout 120s -run 'TestC13Demo8' -v ./dawg
//	rm dawg/zz_c13_demo8_test.go
//
// TestC13Demo8Property checks the property itself (exact words, ranks, order, repeatability, Dawg unchanged)
// for Dawgs built by every documented route (New, a zero Builder, one Builder reused through Initialise)
// against a brute-force model and passes on both trees.  TestC13Demo8Incidental asserts the OLD behaviour of
// a Builder that is used after Finish without Initialise (outside the documented domain: the second Finish
// handed out the same Dawg again without an error, and Add silently kept writing into the Dawg the caller
// already held): it PASSES on the clean tree and FAILS with the change.
package dawg_test

import (
	"bytes"
	"math/rand"
	"sort"
	"testing"

	"github.com/Tom-Johnston/mamba/dawg"
)

func c13d8PatternMatches(word, pattern string, blank byte) bool {
	if len(word) != len(pattern) {
		return false
	}
	for i := 0; i < len(word); i++ {
		if pattern[i] != blank && pattern[i] != word[i] {
			return false
		}
	}
	return true
}

func c13d8AnagramMatches(word, anagram string, blank byte) bool {
	if len(word) != len(anagram) {
		return false
	}
	var have [256]int
	blanks := 0
	for i := 0; i < len(anagram); i++ {
		if anagram[i] == blank {
			blanks++
		} else {
			have[anagram[i]]++
		}
	}
	for i := 0; i < len(word); i++ {
		if have[word[i]] > 0 {
			have[word[i]]--
		} else {
			blanks--
		}
	}
	return blanks >= 0
}

func c13d8Expect(t *testing.T, d *dawg.Dawg, what string, sorted []string, accept func(string) bool, searchers ...dawg.Searcher) {
	var wantW []string
	var wantI []int
	for i, w := range sorted {
		if accept(w) {
			wantW = append(wantW, w)
			wantI = append(wantI, i)
		}
	}
	for rep := 0; rep < 2; rep++ {
		solns, ids := d.Search(searchers...)
		ok := len(solns) == len(wantW) && len(ids) == len(wantI)
		for i := 0; ok && i < len(solns); i++ {
			ok = string(solns[i]) == wantW[i] && ids[i] == wantI[i]
		}
		if !ok {
			t.Fatalf("%s, words %q, rep %d: got %q %v, want %q %v", what, sorted, rep, solns, ids, wantW, wantI)
		}
	}
}

func c13d8Random(rng *rand.Rand, letters string, maxLen int) string {
	b := make([]byte, rng.Intn(maxLen+1))
	for i := range b {
		b[i] = letters[rng.Intn(len(letters))]
	}
	return string(b)
}

func TestC13Demo8Property(t *testing.T) {
	rng := rand.New(rand.NewSource(8))
	var reused dawg.Builder // one builder for many dawgs, re-armed with Initialise as documented
	for iter := 0; iter < 1500; iter++ {
		set := map[string]bool{}
		for i, n := 0, rng.Intn(12); i < n; i++ {
			set[c13d8Random(rng, "ab?z", 4)] = true
		}
		sorted := make([]string, 0, len(set))
		for w := range set {
			sorted = append(sorted, w)
		}
		sort.Strings(sorted)

		var d *dawg.Dawg
		var err error
		switch iter % 3 {
		case 0:
			bs := make([][]byte, len(sorted))
			for i := range sorted {
				bs[i] = []byte(sorted[i])
			}
			d, err = dawg.New(bs)
		case 1:
			var b dawg.Builder // zero value, no Initialise
			for _, w := range sorted {
				if err := b.Add([]byte(w)); err != nil {
					t.Fatal(err)
				}
			}
			d, err = b.Finish()
		case 2:
			reused.Initialise()
			for _, w := range sorted {
				if err := reused.Add([]byte(w)); err != nil {
					t.Fatal(err)
				}
			}
			d, err = reused.Finish()
		}
		if err != nil {
			t.Fatal(err)
		}
		if d.NumberOfWords() != len(sorted) {
			t.Fatalf("NumberOfWords %d, want %d", d.NumberOfWords(), len(sorted))
		}
		before, err := d.GobEncode()
		if err != nil {
			t.Fatal(err)
		}
		for q := 0; q < 4; q++ {
			p := c13d8Random(rng, "ab?zq", 5)
			a := c13d8Random(rng, "ab?zq", 5)
			c13d8Expect(t, d, "pattern "+p, sorted, func(w string) bool { return c13d8PatternMatches(w, p, '?') },
				dawg.NewPatternSearcher([]byte(p), '?'))
			c13d8Expect(t, d, "anagram "+a, sorted, func(w string) bool { return c13d8AnagramMatches(w, a, '?') },
				dawg.NewAnagramSearcher([]byte(a), '?'))
			c13d8Expect(t, d, "pattern "+p+" and anagram "+a, sorted,
				func(w string) bool { return c13d8PatternMatches(w, p, '?') && c13d8AnagramMatches(w, a, '?') },
				dawg.NewPatternSearcher([]byte(p), '?'), dawg.NewAnagramSearcher([]byte(a), '?'))
		}
		after, err := d.GobEncode()
		if err != nil {
			t.Fatal(err)
		}
		if !bytes.Equal(before, after) {
			t.Fatalf("searching changed the Dawg")
		}
	}
}

func TestC13Demo8Incidental(t *testing.T) {
	var b dawg.Builder
	for _, w := range []string{"a", "b"} {
		if err := b.Add([]byte(w)); err != nil {
			t.Fatal(err)
		}
	}
	d, err := b.Finish()
	if err != nil {
		t.Fatal(err)
	}

	// OLD: Finish never marked the builder as finished; a second Finish returned the same Dawg, no error.
	d2, err := b.Finish()
	if err != nil || d2 != d {
		t.Errorf("second Finish: got (%p, %v), the old behaviour was (%p, <nil>)", d2, err, d)
	}

	// OLD: Add after Finish was accepted and wrote into the Dawg the caller already held.
	if err := b.Add([]byte("c")); err != nil {
		t.Errorf("Add after Finish: got error %q, the old behaviour was <nil>", err)
	}
	if n := d.NumberOfWords(); n != 3 {
		t.Errorf("the finished Dawg has %d words after Add(\"c\") on its builder, the old behaviour was 3", n)
	}
	solns, ids := d.Search(dawg.NewPatternSearcher([]byte("?"), '?'))
	if len(solns) != 3 || len(ids) != 3 {
		t.Errorf("search on the finished Dawg after Add(\"c\") on its builder: got %q %v, the old behaviour was [a b c] [0 1 2]", solns, ids)
	}
}

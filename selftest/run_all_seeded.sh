#!/bin/bash
# usage: selftest/run_all_seeded.sh [tier] [id-regex]   -- re-runs the property's check against every kept seeded change
# (scratch copies of /repo; /repo itself is never touched) and prints one line per change.
tier="${1:-quick}"; only="${2:-.}"
cd "$(dirname "$0")/.."
for d in seeded/*/; do
  name=$(basename "$d")
  echo "$name" | grep -qE "$only" || continue
  # the check that is expected to catch the change: the property it breaks, unless meta.json names others ("check_with",
  # e.g. concurrency defects in a package whose own property is sequential are C19's business)
  prop=$(python3 -c "import json;m=json.load(open('$d/meta.json'));print(' '.join(m.get('check_with') or [m['property']]))")
  set -- $prop; first=$1; shift
  # a change that only a thorough check can reach names that tier in meta.json ("check_tier")
  t=$(python3 -c "import json;print(json.load(open('$d/meta.json')).get('check_tier') or '$tier')")
  res=$(SKIP_REPO_TESTS=1 selftest/seeded_run.sh "$d" "$first" "$t" "$@" 2>&1)
  verdict=$(echo "$res" | grep -E "^CAUGHT" | head -1)
  [ -n "$verdict" ] || verdict=$(echo "$res" | grep -E "^MISSED" | head -1)
  key=$(echo "$res" | grep -E "^  key=" | head -1 | cut -c1-160)
  demo=$(echo "$res" | grep -E "^demo" | head -1)
  echo "$name | $verdict | $key | $demo"
done

// Package c13 monitors (*Dawg).Search with pattern and anagram searchers
// against a reference filter over the sorted word list (DESIGN.md section 4,
// C13): exactly the matching words, in lexicographic order, each with its
// rank; several searchers = intersection; the Dawg is unchanged and the
// searchers are back in their initial state afterwards.
package c13

import (
	"bytes"
	"fmt"

	"github.com/Tom-Johnston/mamba/dawg"

	"verif/internal/engine"
	"verif/internal/oracle/refdawg"
	"verif/internal/props/c12"
	"verif/internal/props/c12/dawgx"
)

func init() {
	engine.Register(&engine.Property{
		ID:    "C13",
		Level: "exploration",
		Rule: "exhaustive: ALL 2^15 word sets over the words of length <= 3 over {a,b} x ALL patterns and ALL anagrams (as sequences: the order of the letters matters to the constructor) of length <= 3 over {a,b,?} plus some of length 4, each with blank '?' and with blank 'a' (a letter of the alphabet; '?' is then a letter outside it), through searcher objects that are created once and reused over all the sets of a block; all pattern x anagram pairs of equal length on every 8th set (every set: thorough); the same over the 2^13 word sets of length <= 2 over {a,b,c} with all queries of length <= 2 over {a,b,c,?}; " +
			"fixed families x blanks at every subset of positions of short members (patterns and rotated anagrams), all-blank and empty queries; seeded sets (alphabets 1..256, up to 5000 words) x conjunctions of 0..3 seeded queries (members with blanks, near-members, letters outside the alphabet, repeated letters, blank equal to a letter), each searched twice on the Dawg, once on another Dawg and again on the first, partly through counting wrappers. " +
			"User-defined searchers (the Searcher interface is public): harness-written searchers (word length in a set, byte sum modulo m, prefix in a set, the pattern rule written again) alone and combined with the library's, on every 8th of the 2^15 sets and every 2nd of the 2^13 sets (all: thorough) x 28 fixed conjunctions, on the fixed families and on seeded sets; every searcher sits behind a recorder and the recorded callback protocol is checked (complete Step / Backstep / Chosen rounds over all searchers, AllowStep(b) == true of every searcher before Step(b), nesting with depth 0 at the end, AllowWord only where the stepped letters spell a stored word, one Chosen round per returned solution where the steps spell it); " +
			"re-entrancy: a searcher whose Chosen (or AllowWord) runs complete inner searches with fresh searchers on the SAME Dawg or on another one: inner and outer results must both equal the reference; every such search carries a step budget (AllowStep refuses after 8 x trie size + 1000 calls => Search|runaway); the same conjunction on a Dawg searched before (after deeper, shallower and unconstrained searches) and on a freshly built one. " +
			"Word LENGTH as a dimension: fixed families with long words (one word of every length m-1, m, m+1 for m = 256, 512, 1024, 2048, 4096 (thorough: .. 16384) with shared tails and as powers of one letter; the chain a, aa, .., a^1100; 63 words behind a common prefix of 1100 bytes and 10 prefixes of it; 300 words of 160..350 bytes as a product of pieces; one-byte variants of a 2000-byte word; short words mixed with words of 300..3000 bytes; one word of 5000 (thorough: 20000, 65536, 65537) bytes among short ones) and seeded sets with long words (alphabets 1..256; tails of one string, common prefix and tails, chains of prefixes, independent long words among short ones, products of medium pieces, one-byte variants, unary; word lengths drawn short / medium / within 2 of a mark / up to 3300, every 6th set up to 6600 (thorough: 17000)) x conjunctions derived from the longest member, from the members next to the marks and from random members IN FULL LENGTH (exact, all blank, first letter fixed, one blank at a mark, last letter blank, one half blank, random blanks, anagrams shuffled / reversed / with blanks, pattern & anagram, the blank being a letter of the word, near misses of length +-1 or with one byte changed) plus seeded conjunctions, plus the user-defined searchers, nested searches and cold / warm comparisons on the same sets; observation counters say how many searches returned a word of more than 256 / 1024 / 4096 / 65536 bytes and several words totalling more than these marks. " +
			"Results are the caller's: after EVERY judged search every returned word is overwritten over its full capacity with bytes that depend on its number and offset and must then still hold them (no two results share a byte); the results of a search are kept while the next search (same searcher objects, same or another Dawg) runs, must then read as when they were returned, and are overwritten while the results of that next search are held, which must not change; the words returned by nested inner searches are overwritten before the outer result is compared once more. " +
			"Reference: filter of the sorted list with byte-wise match predicates; ids = ranks. non-trivial = a search on a Dawg with >= 2 words whose expected result is neither empty nor the whole set; distinct = (set, conjunction) by construction in the exhaustive part, by hash otherwise",
		Assumptions: []string{
			"oracle refdawg: match predicates over BYTES (pattern: equal length, every non-blank position equal; anagram: equal length, every non-blank letter at least as often in the word; validated against the permutation definition) applied to the sorted list",
			"no searcher at all = every word (the intersection over an empty family)",
			"the Dawgs are built with dawg.New; a set that cannot be built is C12's business and is skipped here (counted)",
			"the byte slices returned by Search belong to the caller, each up to its capacity, for as long as the caller keeps them: every result is overwritten after it has been judged (partly only after a later search has run), the results must not share memory with each other, and the further searches, the node dump and the lookups judge that the Dawg and the searchers share no memory with them",
			"unchanged Dawg = identical node dump (verif accessor) and identical Lookup results before and after",
			"a Search may be started from inside a Searcher callback of a running Search on the same Dawg (the Dawg is read-only during a search, nothing in the documentation forbids it); both must behave as if run alone",
			"user-defined searchers are pure functions of the letters stepped so far; their reference predicates are in the harness",
		},
		Run:            run,
		MinEvaluations: map[string]int{"quick": 5000000, "thorough": 30000000},
		MinNontrivial:  map[string]int{"quick": 1000000, "thorough": 5000000},
		RequiredObs: []string{"searches:pattern", "searches:anagram", "searches:pattern&anagram", "searches:no-searcher", "searches_with_reused_searchers", "searches_on_a_second_dawg",
			"queries:blank_is_a_letter_of_the_set", "queries:letter_outside_the_set", "queries:anagram_with_repeated_letter", "queries:all_blank", "queries:empty", "dawg_unchanged_checks", "spy:balanced_step_backstep", "results:nonempty", "results:empty", "results_overwritten_by_the_caller",
			"ownership:earlier_results_intact_after_a_later_search", "ownership:results_intact_after_overwriting_earlier_results", "ownership:outer_results_intact_after_overwriting_inner_results",
			"long:sets_searched", "long:fixed_families", "long:searches_returning_a_word_of_more_than_256_bytes", "long:searches_returning_a_word_of_more_than_1024_bytes", "long:searches_returning_a_word_of_more_than_4096_bytes",
			"long:searches_with_several_results_totalling_more_than_1024_bytes", "long:searches_with_several_results_totalling_more_than_4096_bytes", "long:searches_with_several_results_totalling_more_than_65536_bytes",
			"long:patterns_of_more_than_1024_bytes_with_a_result", "long:anagrams_of_more_than_1024_bytes_with_a_result", "long:no_searcher_searches_returning_a_word_of_more_than_1024_bytes",
			"long:searches_behind_recorders_returning_a_word_of_more_than_1024_bytes", "long:nested_searches_whose_outer_search_returns_a_word_of_more_than_1024_bytes",
			"protocol_traces_checked", "custom:user_searchers_only", "custom:user_and_library_searchers", "nested:from_Chosen_on_the_same_dawg", "nested:from_AllowWord_on_the_same_dawg", "nested:from_Chosen_on_another_dawg", "nested:from_AllowWord_on_another_dawg", "nested:inner_searches", "cold_warm_comparisons"},
	})
}

// spy wraps a library searcher and counts the protocol calls.
type spy struct {
	in        dawg.Searcher
	steps     int
	backsteps int
	depth     int
	minDepth  int
	chosen    int
}

func (s *spy) AllowStep(b byte) bool { return s.in.AllowStep(b) }
func (s *spy) Step(b byte)           { s.steps++; s.depth++; s.in.Step(b) }
func (s *spy) Backstep() {
	s.backsteps++
	s.depth--
	if s.depth < s.minDepth {
		s.minDepth = s.depth
	}
	s.in.Backstep()
}
func (s *spy) AllowWord() bool { return s.in.AllowWord() }
func (s *spy) Chosen()         { s.chosen++; s.in.Chosen() }

func kindsOf(qs []refdawg.Query) string {
	if len(qs) == 0 {
		return "no-searcher"
	}
	s := ""
	for i, q := range qs {
		if i > 0 {
			s += "&"
		}
		if q.Kind == 'p' {
			s += "pattern"
		} else {
			s += "anagram"
		}
	}
	return s
}

func witness(set *refdawg.Set, qs []refdawg.Query) string {
	w := dawgx.Witness(set.Words)
	tl := 0
	for _, q := range qs {
		tl += len(q.Text)
	}
	if len(w) > 6 && w[:6] == "words=" && len(qs) <= 2 && tl <= 8 {
		return w + "|" + refdawg.QueriesString(qs)
	}
	return kindsOf(qs) + "|" + w
}

func detail(workload string, set *refdawg.Set, qs []refdawg.Query, extra map[string]interface{}) map[string]interface{} {
	var q []map[string]interface{}
	for _, x := range qs {
		q = append(q, map[string]interface{}{"kind": map[byte]string{'p': "pattern", 'a': "anagram"}[x.Kind], "text_go_quoted": fmt.Sprintf("%q", x.Text), "blank": x.Blank})
	}
	m := map[string]interface{}{"searchers": q}
	for k, v := range extra {
		m[k] = v
	}
	return dawgx.Detail(workload, set, m)
}

func observeQuery(c *engine.Ctx, set *refdawg.Set, qs []refdawg.Query, nres int) {
	c.Obs("searches:"+kindsOf(qs), 1)
	if nres == 0 {
		c.Obs("results:empty", 1)
	} else {
		c.Obs("results:nonempty", 1)
		c.ObsMax("result_size", nres)
	}
	var inSet [256]bool
	for _, w := range set.Words {
		for _, b := range w {
			inSet[b] = true
		}
	}
	for _, q := range qs {
		if inSet[q.Blank] {
			c.Obs("queries:blank_is_a_letter_of_the_set", 1)
		}
		if len(q.Text) == 0 {
			c.Obs("queries:empty", 1)
		}
		allBlank := len(q.Text) > 0
		var cnt [256]int
		for _, b := range q.Text {
			if b != q.Blank {
				allBlank = false
				cnt[b]++
				if !inSet[b] {
					c.Obs("queries:letter_outside_the_set", 1)
				}
			}
		}
		if allBlank {
			c.Obs("queries:all_blank", 1)
		}
		if q.Kind == 'a' {
			for _, n := range cnt {
				if n >= 2 {
					c.Obs("queries:anagram_with_repeated_letter", 1)
					break
				}
			}
		}
	}
}

// fillByte is what the caller writes at offset j of result number i.
func fillByte(i, j int) byte {
	return byte((uint32(i)*2654435761)>>24) ^ byte(j) ^ byte(j>>8)*29
}

// overwriteResults: the words returned by Search are the caller's, each of
// them up to its capacity (append), and they are distinct objects.  Every
// result is overwritten over its full capacity with bytes that depend on its
// number and the offset; afterwards every result must still hold what was
// written into it, i.e. no two results share a byte (neither within their
// lengths nor in their spare capacity).  That the Dawg and the searchers do
// not share memory with the results is judged by everything that follows
// (further searches against the reference, node dump and lookups unchanged).
func overwriteResults(c *engine.Ctx, solns [][]byte) string {
	if len(solns) == 0 {
		return ""
	}
	for i, w := range solns {
		w = w[:cap(w)]
		for j := range w {
			w[j] = fillByte(i, j)
		}
	}
	msg := ""
check:
	for i, w := range solns {
		w = w[:cap(w)]
		for j := range w {
			if w[j] != fillByte(i, j) {
				msg = fmt.Sprintf("result #%d of %d (len %d, cap %d): after the caller has overwritten every result (each up to its capacity), byte %d of this result no longer holds what was written into it: it shares memory with a later result", i, len(solns), len(solns[i]), cap(solns[i]), j)
				break check
			}
		}
	}
	c.Obs("results_overwritten_by_the_caller", 1)
	return msg
}

// copyResults keeps what a search has returned, to be compared again later.
func copyResults(solns [][]byte) [][]byte {
	total := 0
	for _, w := range solns {
		total += len(w)
	}
	buf := make([]byte, 0, total)
	out := make([][]byte, len(solns))
	for i, w := range solns {
		buf = append(buf, w...)
		out[i] = buf[len(buf)-len(w) : len(buf) : len(buf)]
	}
	return out
}

// sameResults compares held results with the copy taken when they were returned.
func sameResults(held, cp [][]byte) string {
	for i := range held {
		if !bytes.Equal(held[i], cp[i]) {
			return fmt.Sprintf("result #%d was %s when it was returned and reads %s now", i, refdawg.QuoteList(cp[i:i+1], 1), refdawg.QuoteList(held[i:i+1], 1))
		}
	}
	return ""
}

// block sizes an implementation might cut its results from; the observation
// counters say on which side of them the result words and result totals were.
var sizeMarks = []int{256, 1024, 4096, 65536}
var obsWordOver, obsTotalOver []string

func init() {
	for _, b := range sizeMarks {
		obsWordOver = append(obsWordOver, fmt.Sprintf("long:searches_returning_a_word_of_more_than_%d_bytes", b))
		obsTotalOver = append(obsTotalOver, fmt.Sprintf("long:searches_with_several_results_totalling_more_than_%d_bytes", b))
	}
}

// observeLengths records how long the returned words are (after the result
// has been judged equal to the reference).
func observeLengths(c *engine.Ctx, qs []refdawg.Query, solns [][]byte) {
	total, longest := 0, 0
	for _, w := range solns {
		total += len(w)
		if len(w) > longest {
			longest = len(w)
		}
	}
	if longest <= sizeMarks[0] && total <= sizeMarks[0] {
		return
	}
	c.ObsMax("long:longest_result_word_bytes", longest)
	c.ObsMax("long:largest_result_total_bytes", total)
	for k, b := range sizeMarks {
		if longest > b {
			c.Obs(obsWordOver[k], 1)
		}
		if total > b && len(solns) >= 2 {
			c.Obs(obsTotalOver[k], 1)
		}
	}
	if longest > 1024 {
		for _, q := range qs {
			if len(q.Text) > 1024 {
				if q.Kind == 'p' {
					c.Obs("long:patterns_of_more_than_1024_bytes_with_a_result", 1)
				} else {
					c.Obs("long:anagrams_of_more_than_1024_bytes_with_a_result", 1)
				}
			}
		}
		if len(qs) == 0 {
			c.Obs("long:no_searcher_searches_returning_a_word_of_more_than_1024_bytes", 1)
		}
	}
}

func nontrivialResult(set *refdawg.Set, nres int) bool {
	return set.Len() >= 2 && nres > 0 && nres < set.Len()
}

// built is a Dawg with its model.
type built struct {
	d      *dawg.Dawg
	set    *refdawg.Set
	alpha  []byte
	label  string
	limit  int // cached step budget (custom.go)
	hashV  uint64
	hashed bool
	// sets with very long words (long.go): dawg.New is quadratic in the number of nodes
	slowOK bool // a build beyond the CPU budget is abandoned, not judged
	noCold bool // no second build for the cold / warm comparison
}

// hash is the fingerprint of the set, computed once.
func (b *built) hash() uint64 {
	if !b.hashed {
		b.hashV, b.hashed = b.set.Hash(), true
	}
	return b.hashV
}

// buildFor builds the Dawg of a set; a failure is not judged here.
func buildFor(c *engine.Ctx, callKey string, set *refdawg.Set) *dawg.Dawg {
	d, err, pi := dawgx.Build(c, callKey+"|New", set.Words)
	if pi != nil || err != nil || d == nil {
		c.Obs("builds_failed_not_judged_here(C12)", 1)
		return nil
	}
	return d
}

// snapshot reads what must not change: the node dump and all lookups.
type snapshot struct {
	nodes []dawg.VerifNode
	ranks []int
	oks   []bool
}

func snap(c *engine.Ctx, callKey string, b *built, lookups [][]byte) (*snapshot, bool) {
	s := &snapshot{}
	nodes, pi := dawgx.Nodes(c, callKey, b.d)
	if pi != nil {
		return nil, false
	}
	s.nodes = nodes
	s.ranks = make([]int, len(lookups))
	s.oks = make([]bool, len(lookups))
	if pi := c.Call(callKey+"|Lookup", func() {
		for i, w := range lookups {
			s.ranks[i], s.oks[i] = b.d.Lookup(w)
		}
	}); pi != nil {
		return nil, false
	}
	return s, true
}

func checkUnchanged(c *engine.Ctx, workload, callKey string, b *built, before *snapshot, lookups [][]byte) bool {
	after, ok := snap(c, callKey+"|after", b, lookups)
	c.Eval(1)
	if !ok {
		c.Violation("Search|dawg-unreadable-afterwards|"+dawgx.Witness(b.set.Words), dawgx.Detail(workload, b.set, map[string]interface{}{"call": callKey}), "VerifNodes / Lookup panicked after the searches", "the Dawg as before")
		return false
	}
	if diff := dawgx.NodesEqual(before.nodes, after.nodes); diff != "" {
		c.Violation("Search|modified-the-dawg|"+dawgx.Witness(b.set.Words), dawgx.Detail(workload, b.set, map[string]interface{}{"call": callKey}), diff, "identical node dumps before and after the searches")
		return false
	}
	for i := range lookups {
		if before.ranks[i] != after.ranks[i] || before.oks[i] != after.oks[i] {
			c.Violation("Search|changed-lookup|"+dawgx.Witness(b.set.Words), dawgx.Detail(workload, b.set, map[string]interface{}{"call": callKey}), fmt.Sprintf("Lookup(%q) = (%d,%v) after the searches", lookups[i], after.ranks[i], after.oks[i]), fmt.Sprintf("(%d,%v) as before", before.ranks[i], before.oks[i]))
			return false
		}
	}
	c.Obs("dawg_unchanged_checks", 1)
	return true
}

// judge compares one search result with the reference; on a mismatch with
// reused searchers it repeats the search with fresh ones to tell a wrong
// search from a searcher that did not return to its initial state.
func judge(c *engine.Ctx, workload, callKey string, b *built, qs []refdawg.Query, solns [][]byte, ids []int, reused bool, round string) bool {
	c.Eval(1)
	f := dawgx.CompareSearch(solns, ids, b.set, qs)
	if f == nil {
		return true
	}
	kind := f.Kind
	det := detail(workload, b.set, qs, map[string]interface{}{"call": callKey, "round": round})
	if len(solns) == len(ids) {
		// where the first difference is (the lists in the message are cut after 30 words, the words after 40 bytes)
		want, wantIDs := b.set.Filter(qs)
		for i := 0; i < len(solns) || i < len(want); i++ {
			if i >= len(solns) || i >= len(want) {
				f.Observed += fmt.Sprintf("; %d results, expected %d", len(solns), len(want))
				break
			}
			if !bytes.Equal(solns[i], want[i]) || ids[i] != wantIDs[i] {
				f.Observed += fmt.Sprintf("; first difference at result #%d: a word of %d bytes with id %d, expected the stored word of %d bytes with rank %d", i, len(solns[i]), ids[i], len(want[i]), wantIDs[i])
				if ids[i] == wantIDs[i] && len(solns[i]) > 0 && len(solns[i]) < len(want[i]) && bytes.Equal(solns[i], want[i][:len(solns[i])]) {
					f.Observed += " (the right rank, but the word is only a proper prefix of the stored word)"
				}
				break
			}
		}
	}
	if reused {
		fresh, pi := dawgx.Searchers(c, callKey+"|fresh", qs)
		if pi == nil {
			s2, i2, pi2 := dawgx.Search(c, callKey+"|fresh-search", b.d, fresh)
			if pi2 == nil && dawgx.CompareSearch(s2, i2, b.set, qs) == nil {
				kind = "searcher-not-back-in-initial-state"
				f.Observed += " (fresh searchers give the expected result)"
			}
		}
	}
	c.Violation("Search|"+kind+"|"+witness(b.set, qs), det, f.Observed, f.Expected)
	return false
}

func run(c *engine.Ctx) {
	exhaustive(c)
	familiesPart(c)
	seeded(c)
	// user-defined searchers, callback protocol, nested searches, cold / warm Dawgs (custom.go)
	customExhaustive(c)
	customFamiliesAndSeeded(c)
	// word length as a dimension: long words, long results, large result totals (long.go)
	longPart(c)
}

// ---- 1. exhaustive ----

func exhaustive(c *engine.Ctx) {
	exhaustiveOver(c, "exhaustive", "ab", 3, []string{"????", "a???", "abab", "?aab", "bb?a"}, 128, c.Pick(8, 1))
	exhaustiveOver(c, "exhaustive3", "abc", 2, []string{"???", "a??", "cab", "?ca", "cc?", "abc?"}, 32, c.Pick(64, 8))
}

// exhaustiveOver: every subset of the words of length <= maxLen over the
// alphabet x every pattern and anagram of length <= maxLen over alphabet+'?'
// (plus the extra texts), with blank '?' and with blank 'a'; all pattern x
// anagram pairs of equal length on every pairEvery-th set.
func exhaustiveOver(c *engine.Ctx, name, alphabet string, maxLen int, extra []string, blocks, pairEvery int) {
	u := refdawg.Universe([]byte(alphabet), maxLen)
	texts := refdawg.Universe([]byte(alphabet+"?"), maxLen)
	for _, e := range extra {
		texts = append(texts, []byte(e))
	}
	var single []refdawg.Query
	for _, blank := range []byte{'?', 'a'} {
		for _, k := range []byte{'p', 'a'} {
			for _, t := range texts {
				single = append(single, refdawg.Query{Kind: k, Text: t, Blank: blank})
			}
		}
	}
	// pairs: pattern x anagram of equal length <= maxLen, blank '?'
	var pairs [][2]refdawg.Query
	for _, p := range texts {
		for _, a := range texts {
			if len(p) == len(a) && len(p) <= maxLen {
				pairs = append(pairs, [2]refdawg.Query{{Kind: 'p', Text: p, Blank: '?'}, {Kind: 'a', Text: a, Blank: '?'}})
			}
		}
	}
	per := (1 << uint(len(u))) / blocks
	label := fmt.Sprintf("all 2^%d sets over the words of length<=%d over {%s} x all patterns/anagrams of length<=%d over {%s,?}", len(u), maxLen, alphabet, maxLen, alphabet)
	for blk := 0; blk < blocks; blk++ {
		blk := blk
		c.Unit(fmt.Sprintf("%s/%03d", name, blk), func() {
			// searcher objects created once per block and reused over all its sets
			var objs []dawg.Searcher
			for _, q := range single {
				ss, pi := dawgx.Searchers(c, name+"|NewSearcher|"+q.String(), []refdawg.Query{q})
				if pi != nil {
					dawgx.Report(c, nil, pi, "NewSearcher", q.String(), map[string]interface{}{"query": q.String()})
					return
				}
				objs = append(objs, ss[0])
			}
			var pobjs [][]dawg.Searcher
			for _, pq := range pairs {
				ss, pi := dawgx.Searchers(c, name+"|NewSearcher|pair", pq[:])
				if pi != nil {
					dawgx.Report(c, nil, pi, "NewSearcher", refdawg.QueriesString(pq[:]), nil)
					return
				}
				pobjs = append(pobjs, ss)
			}
			nt := 0
			res := make([][][]byte, len(objs))
			rid := make([][]int, len(objs))
			for mask := blk * per; mask < (blk+1)*per; mask++ {
				set := c12.SubsetOf(u, mask)
				callKey := fmt.Sprintf("%s|mask=%d", name, mask)
				d := buildFor(c, callKey, set)
				if d == nil {
					continue
				}
				b := &built{d: d, set: set, label: label}
				before, ok := snap(c, callKey+"|before", b, u)
				if !ok {
					c.Obs("builds_failed_not_judged_here(C12)", 1)
					continue
				}
				at := 0
				if pi := c.Call(callKey+"|Search(all single queries)", func() {
					for at = 0; at < len(objs); at++ {
						res[at], rid[at] = d.Search(objs[at])
					}
				}); pi != nil {
					dawgx.Report(c, nil, pi, "Search", witness(set, []refdawg.Query{single[at]}), detail(label, set, []refdawg.Query{single[at]}, map[string]interface{}{"call": callKey}))
					return // the reused searchers are in an unknown state now
				}
				bad := false
				for i, q := range single {
					qs := []refdawg.Query{q}
					if !judge(c, label, callKey, b, qs, res[i], rid[i], true, "reused searcher object") {
						bad = true
						break
					}
					if nontrivialResult(set, len(res[i])) {
						nt++
					}
					if mask%64 == 5 {
						observeQuery(c, set, qs, len(res[i]))
					}
				}
				c.Obs("searches_with_reused_searchers", len(single))
				if !bad {
					for i := range res {
						if msg := overwriteResults(c, res[i]); msg != "" {
							c.Violation("Search|results-share-memory|"+witness(set, []refdawg.Query{single[i]}), detail(label, set, []refdawg.Query{single[i]}, map[string]interface{}{"call": callKey}), msg, "independent byte slices")
							bad = true
							break
						}
					}
				}
				if bad {
					return // later results of the reused searchers would only repeat the finding
				}
				// no searcher: every word with its rank
				s0, i0, pi := dawgx.Search(c, callKey+"|Search()", d, nil)
				if pi != nil {
					dawgx.Report(c, nil, pi, "Search", witness(set, nil), detail(label, set, nil, nil))
					continue
				}
				if !judge(c, label, callKey, b, nil, s0, i0, false, "") {
					continue
				}
				c.Obs("searches:no-searcher", 1)
				if mask%pairEvery == 1%pairEvery {
					pres := make([][][]byte, len(pobjs))
					pid := make([][]int, len(pobjs))
					if pi := c.Call(callKey+"|Search(all pairs)", func() {
						for at = 0; at < len(pobjs); at++ {
							pres[at], pid[at] = d.Search(pobjs[at]...)
						}
					}); pi != nil {
						dawgx.Report(c, nil, pi, "Search", witness(set, pairs[at][:]), detail(label, set, pairs[at][:], map[string]interface{}{"call": callKey}))
						return
					}
					for i := range pairs {
						if !judge(c, label, callKey, b, pairs[i][:], pres[i], pid[i], true, "reused pair of searcher objects") {
							return
						}
						if nontrivialResult(set, len(pres[i])) {
							nt++
						}
					}
					c.Obs("searches:pattern&anagram", len(pairs))
					c.Obs("searches_with_reused_searchers", len(pairs))
				}
				if !checkUnchanged(c, label, callKey, b, before, u) {
					continue
				}
			}
			c.NTDistinct(nt)
			c.Obs("exhaustive_sets_searched", per)
			if blk == 0 {
				c.Obs("exhaustive:"+label+fmt.Sprintf(" (%d searcher objects, blanks '?' and 'a'), pattern x anagram pairs of equal length on every %dth set", len(single), pairEvery), 1)
				c.Sample(name, map[string]interface{}{"universe": refdawg.QuoteList(u, 30), "single_queries": len(single), "pairs": len(pairs), "examples": []string{single[7].String(), single[len(single)/3].String(), single[2*len(single)/3].String(), refdawg.QueriesString(pairs[len(pairs)/8][:])}})
			}
		})
	}
}

// ---- 2. fixed families ----

func blankSubsets(w []byte, blank byte, max int) [][]byte {
	var out [][]byte
	n := len(w)
	if n > 10 {
		return nil
	}
	for m := 0; m < 1<<uint(n) && len(out) < max; m++ {
		t := append([]byte{}, w...)
		for i := 0; i < n; i++ {
			if m>>uint(i)&1 == 1 {
				t[i] = blank
			}
		}
		out = append(out, t)
	}
	return out
}

func rotate(t []byte, k int) []byte {
	if len(t) == 0 {
		return t
	}
	k %= len(t)
	return append(append([]byte{}, t[k:]...), t[:k]...)
}

func familiesPart(c *engine.Ctx) {
	for fi, fam := range c12.FixedFamilies() {
		fi, fam := fi, fam
		c.Unit("family/"+fam.Name, func() {
			set := fam.Set
			callKey := "family|" + fam.Name
			d := buildFor(c, callKey, set)
			if d == nil {
				return
			}
			b := &built{d: d, set: set, alpha: fam.Alpha, label: "family " + fam.Name}
			lookups := set.Words
			if len(lookups) > 600 {
				lookups = lookups[:600]
			}
			before, ok := snap(c, callKey+"|before", b, lookups)
			if !ok {
				return
			}
			rg := engine.NewRng(uint64(7000 + fi))
			var qss [][]refdawg.Query
			qss = append(qss, nil)
			// blanks at every subset of positions of short members
			budget := 2500
			stride := 1 + set.Len()/40
			for i := 0; i < set.Len() && budget > 0; i += stride {
				w := set.Words[i]
				for _, blank := range []byte{0, 'a'} {
					subs := blankSubsets(w, blank, 64)
					for k, t := range subs {
						qss = append(qss, []refdawg.Query{{Kind: 'p', Text: t, Blank: blank}})
						qss = append(qss, []refdawg.Query{{Kind: 'a', Text: rotate(t, k), Blank: blank}})
						if k%5 == 0 {
							qss = append(qss, []refdawg.Query{{Kind: 'p', Text: t, Blank: blank}, {Kind: 'a', Text: rotate(subs[(k*7+3)%len(subs)], k), Blank: blank}})
						}
						budget -= 2
					}
				}
			}
			for l := 0; l <= 6; l++ {
				qss = append(qss, []refdawg.Query{{Kind: 'p', Text: bytes.Repeat([]byte{'?'}, l), Blank: '?'}})
				qss = append(qss, []refdawg.Query{{Kind: 'a', Text: bytes.Repeat([]byte{'?'}, l), Blank: '?'}})
			}
			for i := 0; i < 300; i++ {
				qss = append(qss, refdawg.GenQueries(set, fam.Alpha, rg))
			}
			for qi, qs := range qss {
				if !searchRounds(c, b, nil, fmt.Sprintf("%s|q%d", callKey, qi), qs, qi%4 == 1) {
					break
				}
			}
			checkUnchanged(c, b.label, callKey, b, before, lookups)
			if fam.Name == "repo-anagram-words" {
				c.Sample("family", map[string]interface{}{"name": fam.Name, "words": set.Quoted(20), "conjunctions": len(qss), "example": refdawg.QueriesString(qss[17])})
			}
		})
	}
}

// searchRounds creates the searchers of one conjunction once and searches
// with the same objects: twice on b, once on other (if any), again on b.
func searchRounds(c *engine.Ctx, b, other *built, callKey string, qs []refdawg.Query, useSpy bool) bool {
	ss, pi := dawgx.Searchers(c, callKey, qs)
	if pi != nil {
		dawgx.Report(c, nil, pi, "NewSearcher", witness(b.set, qs), detail(b.label, b.set, qs, map[string]interface{}{"call": callKey}))
		return false
	}
	var spies []*spy
	if useSpy && len(ss) > 0 {
		for i := range ss {
			sp := &spy{in: ss[i]}
			spies = append(spies, sp)
			ss[i] = sp
		}
	}
	rounds := []struct {
		on   *built
		name string
	}{{b, "first search"}, {b, "second search with the same searcher objects"}, {other, "same searcher objects on another Dawg"}, {b, "same searcher objects back on the first Dawg"}}
	var held, heldCopy [][]byte
	var heldOn *built
	heldName := ""
	for ri, r := range rounds {
		if r.on == nil {
			continue
		}
		solns, ids, pi := dawgx.Search(c, fmt.Sprintf("%s|round%d", callKey, ri), r.on.d, ss)
		if pi != nil {
			dawgx.Report(c, nil, pi, "Search", witness(r.on.set, qs), detail(r.on.label, r.on.set, qs, map[string]interface{}{"call": callKey, "round": r.name}))
			return false
		}
		// The results of the previous round are still in the caller's hands: the search that has just run must not
		// have touched them, and the caller may do with them what it likes without disturbing the new results.
		if held != nil {
			c.Eval(1)
			if msg := sameResults(held, heldCopy); msg != "" {
				c.Violation("Search|earlier-results-changed-by-a-later-search|"+witness(heldOn.set, qs), detail(heldOn.label, heldOn.set, qs, map[string]interface{}{"call": callKey, "round": heldName, "later_search": r.name}), msg, "the words returned by a search belong to the caller: a later search leaves them alone")
				return false
			}
			c.Obs("ownership:earlier_results_intact_after_a_later_search", 1)
		}
		if !judge(c, r.on.label, callKey, r.on, qs, solns, ids, ri > 0, r.name) {
			return false
		}
		nres := len(solns)
		if ri == 0 {
			observeLengths(c, qs, solns)
		}
		var cp [][]byte
		if nres > 0 && (held != nil || ri < len(rounds)-1) {
			cp = copyResults(solns)
		}
		if held != nil {
			if msg := overwriteResults(c, held); msg != "" {
				c.Violation("Search|results-share-memory|"+witness(heldOn.set, qs), detail(heldOn.label, heldOn.set, qs, map[string]interface{}{"call": callKey, "round": heldName}), msg, "independent byte slices")
				return false
			}
			held = nil
			if nres > 0 {
				c.Eval(1)
				if msg := sameResults(solns, cp); msg != "" {
					c.Violation("Search|results-share-memory-with-earlier-results|"+witness(r.on.set, qs), detail(r.on.label, r.on.set, qs, map[string]interface{}{"call": callKey, "round": r.name, "earlier_search": heldName}), "after the caller has overwritten the words returned by the earlier search: "+msg, "the words returned by two searches are independent byte slices")
					return false
				}
				c.Obs("ownership:results_intact_after_overwriting_earlier_results", 1)
			}
		}
		if nres > 0 && ri < len(rounds)-1 {
			held, heldCopy, heldOn, heldName = solns, cp, r.on, r.name
		} else if msg := overwriteResults(c, solns); msg != "" {
			c.Violation("Search|results-share-memory|"+witness(r.on.set, qs), detail(r.on.label, r.on.set, qs, map[string]interface{}{"call": callKey, "round": r.name}), msg, "independent byte slices")
			return false
		}
		if ri > 0 {
			c.Obs("searches_with_reused_searchers", 1)
		}
		if ri == 2 {
			c.Obs("searches_on_a_second_dawg", 1)
		}
		if ri == 0 {
			observeQuery(c, b.set, qs, nres)
			if nontrivialResult(b.set, nres) {
				c.NT(b.hash(), refdawg.QueriesString(qs))
			}
		}
		for _, sp := range spies {
			c.Eval(1)
			if sp.steps != sp.backsteps || sp.minDepth < 0 {
				c.Violation("Search|unbalanced-step-backstep|"+witness(r.on.set, qs), detail(r.on.label, r.on.set, qs, map[string]interface{}{"call": callKey, "round": r.name}),
					fmt.Sprintf("%d Step calls, %d Backstep calls, lowest depth %d", sp.steps, sp.backsteps, sp.minDepth), "every Step undone by exactly one later Backstep")
				return false
			}
			c.Obs("spy:balanced_step_backstep", 1)
			c.ObsMax("spy:steps_in_one_search", sp.steps)
			sp.steps, sp.backsteps, sp.minDepth = 0, 0, 0
		}
	}
	return true
}

// ---- 3. seeded ----

func seeded(c *engine.Ctx) {
	nSets := c.Pick(12000, 80000)
	perUnit := 40
	for un := 0; un*perUnit < nSets; un++ {
		un := un
		c.Unit(fmt.Sprintf("seeded/%d", un), func() {
			var prev *built
			for i := un * perUnit; i < (un+1)*perUnit && i < nSets; i++ {
				rg := c.Rand("c13-sets", i)
				maxWords := 300
				if i%40 == 11 {
					maxWords = 5000
				}
				set, alpha, info := refdawg.GenSet(rg, maxWords)
				callKey := fmt.Sprintf("seeded#%d", i)
				d := buildFor(c, callKey, set)
				if d == nil {
					continue
				}
				b := &built{d: d, set: set, alpha: alpha, label: "seeded " + info.String()}
				lookups := set.Words
				if len(lookups) > 300 {
					lookups = lookups[:300]
				}
				before, ok := snap(c, callKey+"|before", b, lookups)
				if !ok {
					continue
				}
				nq := 40
				if set.Len() > 1000 {
					nq = 12
				}
				for qi := 0; qi < nq; qi++ {
					qs := refdawg.GenQueries(set, alpha, rg)
					if !searchRounds(c, b, prev, fmt.Sprintf("%s|q%d", callKey, qi), qs, qi%4 == 1) {
						break
					}
					if c.Stopped() {
						return
					}
				}
				checkUnchanged(c, b.label, callKey, b, before, lookups)
				c.Obs("gen:"+info.Mode, 1)
				if info.Alphabet >= 128 {
					c.Obs("sets_alphabet>=128", 1)
				}
				c.ObsMax("words_in_a_set", set.Len())
				if i < 2 {
					c.Sample("seeded", map[string]interface{}{"gen": info.String(), "words": set.Quoted(10), "example_conjunction": refdawg.QueriesString(refdawg.GenQueries(set, alpha, rg))})
				}
				prev = b
			}
		})
	}
}

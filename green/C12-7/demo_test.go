// Demo for C12 change 7 ((*Dawg).GobDecode decodes into a fresh root and only replaces the receiver when the whole of
// b has been decoded: after a failed GobDecode the receiver is exactly what it was, instead of half overwritten).
//
// Run (from the root of the library worktree):
//
//	cp /tmp/green-out/C12/7/demo_test.go dawg/c12demo7_test.go
//	GOFLAGS=-mod=mod GOPROXY=off GOSUMDB=off GOTOOLCHAIN=local go test -vet=off -count=1 -timeout 600s -run 'TestC12Demo7' -v ./dawg/
//	rm dawg/c12demo7_test.go
//
// TestC12Demo7Property checks the property itself (accepts exactly the words, NumberOfWords, ranks of members, false
// for non-members, minimal node count, rejected Adds return an error and are harmless, also through a builder reset
// with Initialise, New refuses bad lists) on fixed and random word sets. TestC12Demo7RoundTrip checks that a SUCCESSFUL
// GobDecode (into a zero Dawg and into a Dawg which already holds other words) still gives a dawg with all those
// properties and the same bytes when encoded again. Both pass before and after the change.
// TestC12Demo7Incidental asserts the OLD incidental behaviour: a Dawg of 3 words which is asked to GobDecode a
// truncated encoding of a 4 word dawg returns an error AND has been damaged by the attempt (it now reports 4 words).
// It passes on the clean tree and fails with the change (the receiver still holds its 3 words).
package dawg_test

import (
	"bytes"
	"encoding/hex"
	"math/rand"
	"sort"
	"testing"

	"github.com/Tom-Johnston/mamba/dawg"
)

var c12demo7Sets = [][]string{
	{},
	{""},
	{"", "a"},
	{"abject", "abjection", "abjections", "abjectly", "abjectness", "ablate", "ablated", "ablation", "ablations"},
	{"", "a", "aa", "ab", "b", "ba", "bb", "tap", "taps", "top", "tops"},
	{"\x00", "\x00\xff", "\xff", "\xff\x00\xff"},
}

// randomSets7 returns sorted duplicate-free random word sets over small alphabets (many shared prefixes and suffixes).
func randomSets7(n int, seed int64) [][]string {
	rng := rand.New(rand.NewSource(seed))
	var sets [][]string
	for k := 0; k < n; k++ {
		alpha := 1 + rng.Intn(3)
		maxLen := 1 + rng.Intn(5)
		set := map[string]bool{}
		for i, m := 0, rng.Intn(14); i < m; i++ {
			w := make([]byte, rng.Intn(maxLen+1))
			for j := range w {
				w[j] = "ab\xff"[rng.Intn(alpha)]
			}
			set[string(w)] = true
		}
		words := []string{}
		for w := range set {
			words = append(words, w)
		}
		sort.Strings(words)
		sets = append(sets, words)
	}
	return sets
}

// minimalNodes7 is the number of states of the minimal (trim) deterministic acyclic automaton of the set: the number of
// distinct non-empty right languages of prefixes, and 1 (just the root) for the empty set.
func minimalNodes7(words []string) int {
	langs := map[string]bool{}
	for _, w := range words {
		for i := 0; i <= len(w); i++ {
			p := w[:i]
			var rl []string
			for _, v := range words {
				if len(v) >= len(p) && v[:len(p)] == p {
					rl = append(rl, v[len(p):])
				}
			}
			sort.Strings(rl)
			key := ""
			for _, s := range rl {
				key += hex.EncodeToString([]byte(s)) + ","
			}
			langs[key] = true
		}
	}
	if len(langs) == 0 {
		return 1
	}
	return len(langs)
}

// encodedNumNodes7 reads the node count which GobEncode writes first.
func encodedNumNodes7(t *testing.T, d *dawg.Dawg) int {
	b, err := d.GobEncode()
	if err != nil {
		t.Fatal(err)
	}
	if b[0] <= 127 {
		return int(b[0])
	}
	n := int(b[0]) - 128
	x := 0
	for _, c := range b[1 : 1+n] {
		x = x<<8 | int(c)
	}
	return x
}

func probes7(words []string) []string {
	set := map[string]bool{"": true, "zz": true, "a": true, "\x00": true}
	for _, w := range words {
		set[w] = true
		set[w+"a"] = true
		set[w+"\x00"] = true
		for i := 0; i < len(w); i++ {
			set[w[:i]] = true
			set[w[:i]+"\x01"] = true
			set[w[:i]+"b"] = true
		}
	}
	var ps []string
	for p := range set {
		ps = append(ps, p)
	}
	sort.Strings(ps)
	return ps
}

func checkDawg7(t *testing.T, d *dawg.Dawg, words []string) {
	t.Helper()
	if d.NumberOfWords() != len(words) {
		t.Errorf("%q: NumberOfWords = %d, want %d", words, d.NumberOfWords(), len(words))
	}
	rank := map[string]int{}
	for i, w := range words {
		rank[w] = i
	}
	for _, p := range probes7(words) {
		r, ok := d.Lookup([]byte(p))
		wr, wok := rank[p]
		if ok != wok || (ok && r != wr) {
			t.Errorf("%q: Lookup(%q) = (%d, %v), want (%d, %v)", words, p, r, ok, wr, wok)
		}
	}
	if got, want := encodedNumNodes7(t, d), minimalNodes7(words); got != want {
		t.Errorf("%q: %d nodes, minimal automaton has %d", words, got, want)
	}
}

func TestC12Demo7Property(t *testing.T) {
	rng := rand.New(rand.NewSource(12))
	for _, words := range append(c12demo7Sets, randomSets7(1500, 3)...) {
		var bs [][]byte
		for _, w := range words {
			bs = append(bs, []byte(w))
		}
		d, err := dawg.New(bs)
		if err != nil {
			t.Fatal(err)
		}
		checkDawg7(t, d, words)

		// The same set through a Builder with rejected Adds (duplicates and out-of-order words) in between.
		db := new(dawg.Builder)
		for i, w := range words {
			if err := db.Add([]byte(w)); err != nil {
				t.Fatal(err)
			}
			if err := db.Add([]byte(w)); err == nil {
				t.Errorf("%q: duplicate %q accepted", words, w)
			}
			if i > 0 {
				j := rng.Intn(i)
				if err := db.Add([]byte(words[j])); err == nil {
					t.Errorf("%q: out-of-order %q accepted", words, words[j])
				}
			}
			if w != "" {
				if err := db.Add([]byte(w[:len(w)-1])); err == nil {
					t.Errorf("%q: out-of-order %q accepted", words, w[:len(w)-1])
				}
			}
		}
		d, err = db.Finish()
		if err != nil {
			t.Fatal(err)
		}
		checkDawg7(t, d, words)

		// A builder which has been reset with Initialise() builds the same set again (documented way to reuse a builder).
		db.Initialise()
		for _, w := range words {
			if err := db.Add([]byte(w)); err != nil {
				t.Fatal(err)
			}
		}
		d2, err := db.Finish()
		if err != nil {
			t.Fatal(err)
		}
		checkDawg7(t, d2, words)
		checkDawg7(t, d, words) // the first dawg is not disturbed

		// New rejects a list with a duplicate or an inversion.
		if len(bs) > 0 {
			if _, err := dawg.New(append(bs[:len(bs):len(bs)], bs[rng.Intn(len(bs))])); err == nil {
				t.Errorf("%q: New accepted a list which is not strictly increasing", words)
			}
		}
	}
}

// A successful decode (into a zero value and into a used Dawg) gives the right dawg.
func TestC12Demo7RoundTrip(t *testing.T) {
	sets := append(c12demo7Sets, randomSets7(600, 8)...)
	for i, words := range sets {
		var bs [][]byte
		for _, w := range words {
			bs = append(bs, []byte(w))
		}
		d, err := dawg.New(bs)
		if err != nil {
			t.Fatal(err)
		}
		enc, err := d.GobEncode()
		if err != nil {
			t.Fatal(err)
		}
		fresh := new(dawg.Dawg)
		if err := fresh.GobDecode(enc); err != nil {
			t.Fatal(err)
		}
		checkDawg7(t, fresh, words)

		other := sets[(i+1)%len(sets)]
		var obs [][]byte
		for _, w := range other {
			obs = append(obs, []byte(w))
		}
		used, err := dawg.New(obs)
		if err != nil {
			t.Fatal(err)
		}
		if err := used.GobDecode(enc); err != nil {
			t.Fatal(err)
		}
		checkDawg7(t, used, words)
		checkDawg7(t, d, words)
		for _, x := range []*dawg.Dawg{fresh, used} {
			enc2, err := x.GobEncode()
			if err != nil || !bytes.Equal(enc, enc2) {
				t.Errorf("%q: encoding of the decoded dawg differs", words)
			}
		}
	}
}

func TestC12Demo7Incidental(t *testing.T) {
	mk := func(words ...string) *dawg.Dawg {
		var bs [][]byte
		for _, w := range words {
			bs = append(bs, []byte(w))
		}
		d, err := dawg.New(bs)
		if err != nil {
			t.Fatal(err)
		}
		return d
	}
	three := []string{"a", "ab", "b"}
	d := mk(three...)
	checkDawg7(t, d, three)
	enc, err := mk("x", "y", "z", "zz").GobEncode()
	if err != nil {
		t.Fatal(err)
	}
	err = d.GobDecode(enc[:len(enc)-3])
	if err == nil {
		t.Fatalf("truncated encoding was decoded without an error (this is NOT expected from the change)")
	}
	_, okA := d.Lookup([]byte("a"))
	t.Logf("after the failed GobDecode (%v): NumberOfWords() = %d, Lookup(\"a\") ok = %v", err, d.NumberOfWords(), okA)
	if d.NumberOfWords() != 4 || okA {
		t.Errorf("the receiver of a failed GobDecode still holds its own 3 words; old behaviour: it has been half overwritten (reports 4 words, \"a\" is gone)")
	}
}

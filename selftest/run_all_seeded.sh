#!/bin/bash
# usage: selftest/run_all_seeded.sh [tier] [id-regex]   -- re-runs the property's check against every kept seeded change
# (scratch copies of /repo; /repo itself is never touched) and prints one line per change.
tier="${1:-quick}"; only="${2:-.}"
cd "$(dirname "$0")/.."
for d in seeded/*/; do
  name=$(basename "$d")
  echo "$name" | grep -qE "$only" || continue
  prop=$(python3 -c "import json;print(json.load(open('$d/meta.json'))['property'])")
  res=$(SKIP_REPO_TESTS=1 selftest/seeded_run.sh "$d" "$prop" "$tier" 2>&1)
  verdict=$(echo "$res" | grep -E "^(CAUGHT|MISSED)" | head -1)
  key=$(echo "$res" | grep -E "^  key=" | head -1 | cut -c1-160)
  demo=$(echo "$res" | grep -E "^demo" | head -1)
  echo "$name | $verdict | $key | $demo"
done

package engine

// Rng is a splitmix64 generator: small, fast, reproducible from one word.
type Rng struct{ s uint64 }

// NewRng returns a generator seeded with s.
func NewRng(s uint64) *Rng { return &Rng{s: s} }

// U64 returns the next 64 random bits.
func (r *Rng) U64() uint64 {
	r.s += 0x9E3779B97F4A7C15
	z := r.s
	z = (z ^ (z >> 30)) * 0xBF58476D1CE4E5B9
	z = (z ^ (z >> 27)) * 0x94D049BB133111EB
	return z ^ (z >> 31)
}

// Intn returns a uniform int in [0,n) (n > 0).
func (r *Rng) Intn(n int) int {
	if n <= 0 {
		panic("Intn: n <= 0")
	}
	return int(r.U64() % uint64(n))
}

// Range returns a uniform int in [lo,hi].
func (r *Rng) Range(lo, hi int) int { return lo + r.Intn(hi-lo+1) }

// Float returns a uniform float in [0,1).
func (r *Rng) Float() float64 { return float64(r.U64()>>11) / (1 << 53) }

// Bool returns true with probability p.
func (r *Rng) Bool(p float64) bool { return r.Float() < p }

// Perm returns a uniform permutation of 0..n-1.
func (r *Rng) Perm(n int) []int {
	p := make([]int, n)
	for i := range p {
		p[i] = i
	}
	for i := n - 1; i > 0; i-- {
		j := r.Intn(i + 1)
		p[i], p[j] = p[j], p[i]
	}
	return p
}

// Shuffle shuffles a in place.
func (r *Rng) Shuffle(a []int) {
	for i := len(a) - 1; i > 0; i-- {
		j := r.Intn(i + 1)
		a[i], a[j] = a[j], a[i]
	}
}

// Bytes returns n random bytes.
func (r *Rng) Bytes(n int) []byte {
	b := make([]byte, n)
	for i := range b {
		b[i] = byte(r.U64())
	}
	return b
}

// Demo for C02, change 7: the search of CanonicalIsomorphAllocated branches on the first
// of the SMALLEST cells with more than one element instead of on the first cell with more
// than one element (a smaller branching factor; the rule only looks at the cell sizes, so
// it is the same for every labelling). The search tree, and with it the canonical
// labelling that is returned (another, equally valid canonical form), the leaves that are
// compared and therefore the concrete generators all change; orbits and the group do not.
//
// Run (from the root of the library checkout, public API only):
//
//	cp demo_test.go graph/zz_c02_demo7_test.go
//	GOFLAGS=-mod=mod GOPROXY=off GOSUMDB=off GOTOOLCHAIN=local \
//	  go test -vet=off -count=1 -timeout 300s -run 'TestC02Demo7' -v ./graph/
//	rm graph/zz_c02_demo7_test.go
//
// TestC02Demo7Property checks the property itself by brute force: orbits = orbits of the
// (class-preserving) automorphism group, every generator is such an automorphism, the
// generators generate the whole group, a reused storage/partition pair that is Reset for
// graphs of sizes going up and down within capacity gives the same permutation, orbits and
// generators as a fresh call. It does so for EVERY labelled graph on up to 5 vertices
// without classes, every labelled graph on up to 4 vertices with every ordered partition
// into classes, and random graphs on up to 8 vertices with random classes. It also checks
// that the permutation still gives a canonical form (equal for relabelled copies with
// relabelled classes). It passes BEFORE and AFTER the change.
//
// TestC02Demo7IncidentalOld asserts the OLD incidental behaviour on the 6-vertex graph
// "EFY_" (after refinement its first cell with more than one element is not a smallest
// one): the exact permutation, canonical form and generators the old tree returns.
// It PASSES on the clean tree and FAILS with the change (other permutation, another
// canonical form "EQow", other generators), while the property holds for the same graph on both trees.
package graph_test

import (
	"fmt"
	"math/rand"
	"reflect"
	"sort"
	"testing"

	"github.com/Tom-Johnston/mamba/disjoint"
	"github.com/Tom-Johnston/mamba/graph"
)

// c02d7Auts lists all class-preserving automorphisms of g by backtracking.
func c02d7Auts(g graph.Graph, cls []int) [][]int {
	n := g.N()
	var out [][]int
	img := make([]int, n)
	used := make([]bool, n)
	var rec func(k int)
	rec = func(k int) {
		if k == n {
			out = append(out, append([]int(nil), img...))
			return
		}
		for v := 0; v < n; v++ {
			if used[v] || cls[v] != cls[k] {
				continue
			}
			ok := true
			for j := 0; j < k && ok; j++ {
				ok = g.IsEdge(j, k) == g.IsEdge(img[j], v)
			}
			if !ok {
				continue
			}
			used[v] = true
			img[k] = v
			rec(k + 1)
			used[v] = false
		}
	}
	rec(0)
	return out
}

func c02d7PartKey(sets [][]int) string {
	s := make([]string, len(sets))
	for i := range sets {
		c := append([]int(nil), sets[i]...)
		sort.Ints(c)
		s[i] = fmt.Sprint(c)
	}
	sort.Strings(s)
	return fmt.Sprint(s)
}

// c02d7Check verifies the statement of C02 by brute force.
func c02d7Check(g graph.Graph, classes [][]int, perm []int, orbits disjoint.Set, gens [][]int) error {
	n := g.N()
	cls := make([]int, n)
	for i, c := range classes {
		for _, v := range c {
			cls[v] = i
		}
	}
	// the permutation is a class-respecting relabelling: the classes appear in order
	if len(perm) != n {
		return fmt.Errorf("perm %v has the wrong length", perm)
	}
	seenV := make([]bool, n)
	for i, v := range perm {
		if v < 0 || v >= n || seenV[v] {
			return fmt.Errorf("perm %v is not a permutation", perm)
		}
		seenV[v] = true
		if i > 0 && cls[perm[i-1]] > cls[v] {
			return fmt.Errorf("perm %v does not keep the classes %v in order", perm, classes)
		}
	}
	auts := c02d7Auts(g, cls)
	autSet := map[string]bool{}
	uf := disjoint.New(n)
	for _, p := range auts {
		autSet[fmt.Sprint(p)] = true
		for i := range p {
			uf.Union(i, p[i])
		}
	}
	oc := append(disjoint.Set(nil), orbits...)
	if len(oc) != n || c02d7PartKey(oc.Sets()) != c02d7PartKey(uf.Sets()) {
		return fmt.Errorf("orbits %v, want %v", oc.Sets(), uf.Sets())
	}
	for _, gen := range gens {
		if !autSet[fmt.Sprint(gen)] {
			return fmt.Errorf("generator %v is not a (class-preserving) automorphism", gen)
		}
	}
	id := make([]int, n)
	for i := range id {
		id[i] = i
	}
	seen := map[string]bool{fmt.Sprint(id): true}
	queue := [][]int{id}
	for len(queue) > 0 {
		p := queue[0]
		queue = queue[1:]
		for _, gen := range gens {
			q := make([]int, n)
			for i := range q {
				q[i] = gen[p[i]]
			}
			if k := fmt.Sprint(q); !seen[k] {
				seen[k] = true
				queue = append(queue, q)
			}
		}
	}
	if len(seen) != len(auts) {
		return fmt.Errorf("generators %v generate a group of order %d, |Aut| = %d", gens, len(seen), len(auts))
	}
	return nil
}

func c02d7Nbrs(g graph.Graph) [][]int {
	nb := make([][]int, g.N())
	for i := range nb {
		nb[i] = g.Neighbours(i)
	}
	return nb
}

// c02d7Form is the canonical form: the edge list of g relabelled by perm (new vertex i is old vertex perm[i]).
func c02d7Form(g graph.Graph, perm []int) string {
	n := g.N()
	b := make([]byte, 0, n*n/2)
	for i := 1; i < n; i++ {
		for j := 0; j < i; j++ {
			if g.IsEdge(perm[i], perm[j]) {
				b = append(b, '1')
			} else {
				b = append(b, '0')
			}
		}
	}
	return string(b)
}

// c02d7Relabel returns the copy h of g with vertex v of g called s[v] in h, and the classes moved along.
func c02d7Relabel(g graph.Graph, classes [][]int, s []int) (*graph.DenseGraph, [][]int) {
	n := g.N()
	h := graph.NewDense(n, nil)
	for i := 1; i < n; i++ {
		for j := 0; j < i; j++ {
			if g.IsEdge(i, j) {
				h.AddEdge(s[i], s[j])
			}
		}
	}
	var cl [][]int
	if classes != nil {
		cl = make([][]int, len(classes))
		for i, c := range classes {
			cl[i] = make([]int, len(c))
			for j, v := range c {
				cl[i][j] = s[v]
			}
		}
	}
	return h, cl
}

type c02d7Runner struct {
	t  *testing.T
	r  *rand.Rand
	st *graph.CanonicalStorage
	op *graph.CanonicalOrderedPartition
	n  int
}

func (c *c02d7Runner) one(g *graph.DenseGraph, classes [][]int) {
	c.n++
	n := g.N()
	perm, orb, gens := graph.CanonicalIsomorphFull(g, classes)
	if err := c02d7Check(g, classes, perm, orb, gens); err != nil {
		c.t.Errorf("fresh %s classes=%v: %v", graph.Graph6Encode(g), classes, err)
		return
	}
	c.op.Reset(n, g.M(), classes)
	perm2, orb2, gens2 := graph.CanonicalIsomorphAllocated(n, g.M(), c02d7Nbrs(g), c.op, c.st, new(graph.CanonicalOptions))
	if !reflect.DeepEqual(perm, perm2) || !reflect.DeepEqual(orb, orb2) || len(gens) != len(gens2) || (len(gens) > 0 && !reflect.DeepEqual(gens, gens2)) {
		c.t.Errorf("reused result differs from fresh result %s classes=%v: %v %v %v / %v %v %v", graph.Graph6Encode(g), classes, perm, orb, gens, perm2, orb2, gens2)
	}
	// still a canonical form: a relabelled copy gets the same form
	h, hc := c02d7Relabel(g, classes, c.r.Perm(n))
	permH, _, _ := graph.CanonicalIsomorphFull(h, hc)
	if f, fh := c02d7Form(g, perm), c02d7Form(h, permH); f != fh {
		c.t.Errorf("%s classes=%v and its relabelled copy %s classes=%v get different canonical forms", graph.Graph6Encode(g), classes, graph.Graph6Encode(h), hc)
	}
}

// c02d7OrderedPartitions calls f with every ordered partition of 0..n-1 into non-empty classes.
func c02d7OrderedPartitions(n int, f func([][]int)) {
	assign := make([]int, n)
	var rec func(v, k int)
	rec = func(v, k int) {
		if v == n {
			// every surjection onto 0..k-1 in every order of the blocks
			blocks := make([][]int, k)
			for u, b := range assign {
				blocks[b] = append(blocks[b], u)
			}
			idx := make([]int, k)
			for i := range idx {
				idx[i] = i
			}
			var perms func(i int)
			perms = func(i int) {
				if i == k {
					cl := make([][]int, k)
					for a, b := range idx {
						cl[a] = blocks[b]
					}
					f(cl)
					return
				}
				for j := i; j < k; j++ {
					idx[i], idx[j] = idx[j], idx[i]
					perms(i + 1)
					idx[i], idx[j] = idx[j], idx[i]
				}
			}
			perms(0)
			return
		}
		for b := 0; b <= k; b++ {
			assign[v] = b
			if b == k {
				rec(v+1, k+1)
			} else {
				rec(v+1, k)
			}
		}
	}
	rec(0, 0)
}

func TestC02Demo7Property(t *testing.T) {
	const N, M = 8, 28
	c := &c02d7Runner{t: t, r: rand.New(rand.NewSource(7)), st: graph.NewStorage(N, M), op: graph.NewOrderedPartition(N, M, nil)}
	// every labelled graph on up to 5 vertices, no classes; up to 4 vertices with every ordered partition
	for n := 1; n <= 5; n++ {
		e := n * (n - 1) / 2
		for mask := 0; mask < 1<<uint(e); mask++ {
			edges := make([]byte, e)
			for i := range edges {
				edges[i] = byte(mask >> uint(i) & 1)
			}
			c.one(graph.NewDense(n, edges), nil)
			if n <= 4 {
				c02d7OrderedPartitions(n, func(cl [][]int) { c.one(graph.NewDense(n, append([]byte(nil), edges...)), cl) })
			}
		}
	}
	// random graphs, sizes going up and down
	for it := 0; it < 1500; it++ {
		n := 1 + (it/3+c.r.Intn(3))%N
		edges := make([]byte, n*(n-1)/2)
		p := c.r.Float64()
		for i := range edges {
			if c.r.Float64() < p {
				edges[i] = 1
			}
		}
		var classes [][]int
		if it%2 == 1 {
			k := 1 + c.r.Intn(n)
			classes = make([][]int, k)
			for i, v := range c.r.Perm(n) {
				j := i
				if i >= k {
					j = c.r.Intn(k)
				}
				classes[j] = append(classes[j], v)
			}
		}
		c.one(graph.NewDense(n, edges), classes)
	}
	t.Logf("%d cases checked", c.n)
}

func TestC02Demo7IncidentalOld(t *testing.T) {
	// 6 vertices (graph6 "EFY_"): after refinement the first cell
	// with more than one element is not a smallest one.
	g, err := graph.Graph6Decode("EFY_")
	if err != nil {
		t.Fatal(err)
	}
	perm, orb, gens := graph.CanonicalIsomorphFull(g, nil)
	if err := c02d7Check(g, nil, perm, orb, gens); err != nil {
		t.Fatalf("property: %v", err)
	}
	form := graph.Graph6Encode(g.InducedSubgraph(perm))
	t.Logf("%s: perm %v canonical form %s orbits %v generators %v", graph.Graph6Encode(g), perm, form, orb.Sets(), gens)
	const oldPerm, oldForm, oldGens = "[5 0 4 1 2 3]", "E`hW", "[[1 0 2 3 5 4] [4 5 3 2 0 1]]"
	if got := fmt.Sprint(perm); got != oldPerm {
		t.Errorf("canonical labelling %v, the old tree returns %v", got, oldPerm)
	}
	if form != oldForm {
		t.Errorf("canonical form %v, the old tree returns %v", form, oldForm)
	}
	if got := fmt.Sprint(gens); got != oldGens {
		t.Errorf("generators %v, the old tree returns %v", got, oldGens)
	}
	// a second graph where the recorded generators (even their number) are different
	h, _ := graph.Graph6Decode("FOHO?")
	permH, orbH, gensH := graph.CanonicalIsomorphFull(h, nil)
	if err := c02d7Check(h, nil, permH, orbH, gensH); err != nil {
		t.Fatalf("property: %v", err)
	}
	t.Logf("FOHO?: perm %v generators %v", permH, gensH)
	if got, old := fmt.Sprint(gensH), "[[0 3 2 1 4 5 6] [1 0 5 4 3 2 6]]"; got != old {
		t.Errorf("generators of FOHO? %v, the old tree returns %v", got, old)
	}
}

// Demonstration for C15 / change 8 (PartitionIterator.Value builds the parts of the partition inside ONE array of n
// ints instead of allocating every part on its own; each part is cut with its capacity ending where the next part
// starts).
//
// Run (from the root of the library, offline):
//
//	export GOFLAGS=-mod=mod GOPROXY=off GOSUMDB=off GOTOOLCHAIN=local
//	cp /tmp/green-out/C15/8/demo_test.go itertools/zz_c15_demo8_test.go
//	go test -vet=off -count=1 -timeout 300s -run 'TestC15Demo8' -v ./itertools/
//	rm itertools/zz_c15_demo8_test.go
//
// TestC15Demo8Property checks the property itself for Partitions(n), n = 1..9: the iterator yields exactly the
// Bell(n) partitions of {0,...,n-1}, each once, in lexicographic order of their restricted growth strings (compared
// one by one with an independent recursive enumeration), every value is a partition written in the usual way (parts
// in order of their least element, elements ascending, cap == len for every part), and Next returns false on each of 5
// further calls.  Because the documentation says the output of Value() may be modified, the test also scribbles over
// every value it was given (overwrites the elements, appends to every part and to the outer slice) and checks that
// neither the iterator nor the neighbouring parts nor a value fetched earlier are affected.  It passes on the clean
// tree AND with the change.
//
// TestC15Demo8IncidentalAllocations asserts the OLD incidental behaviour: Value() makes one allocation for the table
// of sizes, one for the outer slice and one for every part, i.e. 2 + (number of parts) heap allocations.  It passes
// on the clean tree and FAILS with the change, where Value() always makes 3 allocations (sizes, elements, outer
// slice) and the parts of one value lie next to each other in one array.
package itertools_test

import (
	"fmt"
	"testing"

	"github.com/Tom-Johnston/mamba/itertools"
)

// c15d8Model lists the partitions of {0,...,n-1} in lexicographic order of their restricted growth strings.
func c15d8Model(n int) []string {
	var out []string
	rgs := make([]int, n)
	var rec func(i, blocks int)
	rec = func(i, blocks int) {
		if i == n {
			p := make([][]int, blocks)
			for j := range p {
				p[j] = []int{}
			}
			for x, b := range rgs {
				p[b] = append(p[b], x)
			}
			out = append(out, fmt.Sprint(p))
			return
		}
		for b := 0; b <= blocks; b++ {
			rgs[i] = b
			nb := blocks
			if b == blocks {
				nb++
			}
			rec(i+1, nb)
		}
	}
	rec(0, 0)
	return out
}

func TestC15Demo8Property(t *testing.T) {
	bell := []int{1, 1, 2, 5, 15, 52, 203, 877, 4140, 21147}
	for n := 1; n <= 9; n++ {
		want := c15d8Model(n)
		if len(want) != bell[n] {
			t.Fatalf("model: n=%d: %d partitions, want %d", n, len(want), bell[n])
		}
		it := itertools.Partitions(n)
		seen := make(map[string]bool)
		count := 0
		var held [][]int
		heldText := ""
		for it.Next() {
			p := it.Value()
			s := fmt.Sprint(p)
			if count >= len(want) || want[count] != s {
				t.Fatalf("n=%d: element %d is %s, expected another partition", n, count, s)
			}
			if seen[s] {
				t.Fatalf("n=%d: %s twice", n, s)
			}
			seen[s] = true
			for i, part := range p {
				if len(part) == 0 || cap(part) != len(part) {
					t.Fatalf("n=%d: %s: part %d has len %d cap %d", n, s, i, len(part), cap(part))
				}
			}
			//A value fetched at the previous step is still what it was.
			if held != nil && fmt.Sprint(held) != heldText {
				t.Fatalf("n=%d: a value held over a call of Next changed from %s to %v", n, heldText, held)
			}
			held, heldText = it.Value(), s

			//The caller may modify the output. Appending to a part must leave the other parts alone...
			for i := range p {
				before := fmt.Sprint(p[:i], p[i+1:])
				p[i] = append(p[i], -7, -8)
				if after := fmt.Sprint(p[:i], p[i+1:]); after != before {
					t.Fatalf("n=%d: %s: appending to part %d changed the other parts: %s -> %s", n, s, i, before, after)
				}
			}
			//...and overwriting everything must not disturb the iterator or a fresh value.
			for i := range p {
				for j := range p[i] {
					p[i][j] = -1
				}
			}
			p = append(p, []int{-2})
			if again := fmt.Sprint(it.Value()); again != s {
				t.Fatalf("n=%d: Value() after scribbling over the previous output is %s, want %s", n, again, s)
			}
			count++
		}
		if count != bell[n] {
			t.Fatalf("n=%d: %d partitions, want %d", n, count, bell[n])
		}
		for r := 0; r < 5; r++ {
			if it.Next() {
				t.Fatalf("n=%d: Next returned true after exhaustion (call %d)", n, r+1)
			}
		}
	}
}

var c15d8Sink [][]int

func TestC15Demo8IncidentalAllocations(t *testing.T) {
	n := 6
	it := itertools.Partitions(n)
	differ := 0
	for it.Next() {
		parts := len(it.Value())
		allocs := testing.AllocsPerRun(100, func() {
			c15d8Sink = it.Value()
		})
		if int(allocs) != 2+parts {
			differ++
			if differ == 1 {
				t.Errorf("Value() = %v (%d parts) made %v allocations, the old Value() made 2 + %d", it.Value(), parts, allocs, parts)
			}
		}
	}
	if differ > 0 {
		t.Errorf("%d of the 203 partitions took another number of allocations than 2 + (number of parts)", differ)
	}
	//The last partition of {0,...,5} has six parts.
	allocs := testing.AllocsPerRun(100, func() {
		c15d8Sink = it.Value()
	})
	t.Logf("Value() = %v: %v allocations", it.Value(), allocs)
	if allocs != 8 {
		t.Errorf("the partition into singletons took %v allocations, the old Value() took 8", allocs)
	}
}

// Demonstration for green change C11/3 (edge-count shortcuts at the top of IsPlanar, using g.M()).
//
// Run (from the root of the library, offline):
//   cp demo_test.go graph/zz_demo_c11_3_test.go
//   export GOFLAGS=-mod=mod GOPROXY=off GOSUMDB=off GOTOOLCHAIN=local
//   go test -vet=off -count=1 -timeout 120s -v -run 'TestDemoC11_3' ./graph/
//
// TestDemoC11_3_Property  checks the property itself (correct answers, no panic, relabelling, pendant/isolated
//                         vertices) on the inputs used below: passes on the clean tree AND with the change.
// TestDemoC11_3_Incidental asserts the OLD incidental behaviour: IsPlanar never calls M() on the caller's graph and
//                         always looks at neighbourhoods; a hand-assembled DenseGraph value whose NumberOfEdges field
//                         is stale (not a value any constructor or method of the library produces) is still judged
//                         from its Edges array.  Passes on the clean tree, FAILS with the change.
package graph_test

import (
	"testing"

	"github.com/Tom-Johnston/mamba/graph"
)

type c113counter struct {
	g                                graph.Graph
	n, m, isEdge, neighbours, degree int
}

func (c *c113counter) N() int                 { c.n++; return c.g.N() }
func (c *c113counter) M() int                 { c.m++; return c.g.M() }
func (c *c113counter) IsEdge(i, j int) bool   { c.isEdge++; return c.g.IsEdge(i, j) }
func (c *c113counter) Neighbours(v int) []int { c.neighbours++; return c.g.Neighbours(v) }
func (c *c113counter) Degrees() []int         { c.degree++; return c.g.Degrees() }

func c113fromEdges(n int, edges [][2]int, perm []int) *graph.DenseGraph {
	g := graph.NewDense(n, nil)
	for _, e := range edges {
		a, b := e[0], e[1]
		if perm != nil {
			a, b = perm[a], perm[b]
		}
		g.AddEdge(a, b)
	}
	return g
}

type c113case struct {
	name   string
	n      int
	edges  [][2]int
	planar bool
}

func c113cases() []c113case {
	var k6, c8, pet, grid, k33s [][2]int
	for i := 0; i < 6; i++ {
		for j := 0; j < i; j++ {
			k6 = append(k6, [2]int{j, i})
		}
	}
	for i := 0; i < 8; i++ {
		c8 = append(c8, [2]int{i, (i + 1) % 8})
	}
	for i := 0; i < 5; i++ {
		pet = append(pet, [2]int{i, (i + 1) % 5}, [2]int{i, i + 5}, [2]int{5 + i, 5 + (i+2)%5})
	}
	for r := 0; r < 4; r++ {
		for c := 0; c < 4; c++ {
			if c < 3 {
				grid = append(grid, [2]int{4*r + c, 4*r + c + 1})
			}
			if r < 3 {
				grid = append(grid, [2]int{4*r + c, 4*r + c + 4})
			}
			if c < 3 && r < 3 {
				grid = append(grid, [2]int{4*r + c, 4*r + c + 5})
			}
		}
	}
	// K_{3,3} with every edge subdivided once: 15 vertices, 18 edges.
	next := 6
	for i := 0; i < 3; i++ {
		for j := 3; j < 6; j++ {
			k33s = append(k33s, [2]int{i, next}, [2]int{next, j})
			next++
		}
	}
	return []c113case{
		{"K6", 6, k6, false},
		{"C8", 8, c8, true},
		{"Petersen", 10, pet, false},
		{"triangulated 4x4 grid", 16, grid, true},
		{"subdivided K33", 15, k33s, false},
	}
}

func c113perm(n int) []int {
	p := make([]int, n)
	for i := range p {
		p[i] = (i*7 + 3) % n // 7 is coprime to every n used here
	}
	return p
}

func TestDemoC11_3_Property(t *testing.T) {
	for _, c := range c113cases() {
		for _, perm := range [][]int{nil, c113perm(c.n)} {
			g := c113fromEdges(c.n, c.edges, perm)
			if got := graph.IsPlanar(g); got != c.planar {
				t.Errorf("%s: IsPlanar = %v, want %v", c.name, got, c.planar)
			}
			if got := graph.IsPlanar(&c113counter{g: g}); got != c.planar {
				t.Errorf("%s (wrapped): IsPlanar = %v, want %v", c.name, got, c.planar)
			}
			// isolated and pendant vertices do not change the answer
			h := g.Copy()
			h.AddVertex(nil)
			h.AddVertex([]int{0})
			h.AddVertex([]int{c.n + 1})
			if got := graph.IsPlanar(h); got != c.planar {
				t.Errorf("%s + isolated/pendant: IsPlanar = %v, want %v", c.name, got, c.planar)
			}
			// a subgraph of a planar graph is planar
			if c.planar {
				h := g.Copy()
				h.RemoveEdge(g.Neighbours(0)[0], 0)
				if !graph.IsPlanar(h) {
					t.Errorf("%s minus an edge reported non-planar", c.name)
				}
			}
		}
	}
}

func TestDemoC11_3_Incidental(t *testing.T) {
	for _, c := range c113cases() {
		w := &c113counter{g: c113fromEdges(c.n, c.edges, nil)}
		graph.IsPlanar(w)
		t.Logf("%-22s calls: N=%d M=%d Neighbours=%d IsEdge=%d Degrees=%d", c.name, w.n, w.m, w.neighbours, w.isEdge, w.degree)
		if w.m != 0 {
			t.Errorf("%s: IsPlanar called M() on the caller's graph %d times (clean tree: never)", c.name, w.m)
		}
		if w.neighbours == 0 {
			t.Errorf("%s: IsPlanar answered without looking at any neighbourhood (clean tree: always looks)", c.name)
		}
	}

	// Outside the domain: a DenseGraph value assembled by hand whose NumberOfEdges (and DegreeSequence) were never
	// filled in.  No constructor or method of the library produces such a value.  Its Edges array is that of K5.
	stale := &graph.DenseGraph{NumberOfVertices: 5, NumberOfEdges: 0, DegreeSequence: make([]int, 5), Edges: []byte{1, 1, 1, 1, 1, 1, 1, 1, 1, 1}}
	if graph.IsPlanar(stale) {
		t.Errorf("hand-assembled K5 with stale NumberOfEdges: IsPlanar = true (clean tree: false, it only reads Edges)")
	}
}

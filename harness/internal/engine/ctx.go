package engine

import (
	"bufio"
	"encoding/binary"
	"encoding/json"
	"fmt"
	"hash/fnv"
	"os"
	"path/filepath"
	"runtime"
	"runtime/debug"
	"strconv"
	"strings"
	"sync"
	"sync/atomic"
	"syscall"
	"time"
)

// Exit codes of a child.
const (
	ExitOK     = 0
	ExitBudget = 3 // a guarded library call exceeded its CPU budget (record written)
	ExitMem    = 4 // resident memory above the limit during a guarded call
	ExitStop   = 5 // too many violations, stopped early (records written)
	ExitUnit   = 6 // a whole unit exceeded the harness CPU / memory limit (record written)
	ExitSlow   = 7 // a guarded call marked "may legitimately be slow" exceeded the budget (record written, not judged)
)

// Rec is one journal record (JSON line).
type Rec struct {
	T        string          `json:"t"`
	Unit     string          `json:"unit,omitempty"`
	Key      string          `json:"key,omitempty"`
	Case     json.RawMessage `json:"case,omitempty"`
	Observed string          `json:"observed,omitempty"`
	Expected string          `json:"expected,omitempty"`
	K        string          `json:"k,omitempty"`
	V        int64           `json:"v,omitempty"`
	CPU      float64         `json:"cpu_s,omitempty"`
	Msg      string          `json:"msg,omitempty"`
	Seq      int             `json:"seq,omitempty"`
	Ms       int64           `json:"ms,omitempty"`
}

// ChildOpts are the options of a child process.
type ChildOpts struct {
	Prop      *Property
	Tier      string
	Seed      uint64
	Shard     int
	Of        int
	OutDir    string
	Only      string          // run only this unit (replay / pinning)
	ListOnly  bool            // only write the unit names to units.txt
	StopAfter string          // stop after this unit has run (re-execution of a shard prefix)
	PerCase   bool            // journal every guarded call before making it
	Skip      map[string]bool // units to skip (already done or poisoned)
	// SlowCapped: this shard has already abandoned several calls as too slow (CallSlowOK); from now on a unit that
	// reaches another such call is abandoned at once instead of burning the budget again
	SlowCapped bool
	Tag        string // file name tag (distinguishes reruns)
	BudgetS    float64
	MemLimit   uint64
}

// Ctx is handed to Property.Run in a child.
type Ctx struct {
	o         ChildOpts
	j         *bufio.Writer
	jf        *os.File
	unitSeq   int
	curUnit   string
	inUnit    bool
	evals     int64
	nt        map[uint64]struct{}
	ntByCons  int64
	obs       map[string]int64
	samples   int
	sampleBy  map[string]int
	viols     int
	violKeys  map[string]int
	stopped   bool
	streams   map[string]*bufio.Writer
	unitNames []string
	sfiles    []*os.File

	// guarded-call state read by the watchdog goroutine
	mu                       sync.Mutex
	active                   atomic.Bool
	callSeq                  atomic.Int64 // incremented at every guarded call
	callKey                  atomic.Value // string
	callNum                  atomic.Int64 // numeric suffix of the key (-1: none); see CallN
	softCPU, softAtUnitStart atomic.Int64 // CPU charged to calls that may legitimately be slow (total / at the start of the unit)
	callSoft                 atomic.Bool  // the call in progress may legitimately be slow (exponential-time function on a large input)
	budgetNs                 int64
	budgetCur                atomic.Int64 // budget of the current unit (ns)
	maxCharge                atomic.Int64 // largest CPU time charged to one guarded call so far (ns)
	unitStart                atomic.Int64 // process CPU ns when the current unit began (0: no unit running)
	unitLimit                int64        // CPU ns a whole unit (library + harness) may use before it is abandoned as inconclusive
}

type stopSentinel struct{}

const maxViolPerShard = 60
const maxViolPerKey = 1

// Tier returns "quick" or "thorough".
func (c *Ctx) Tier() string { return c.o.Tier }

// Thorough reports whether the tier is thorough.
func (c *Ctx) Thorough() bool { return c.o.Tier == "thorough" }

// Pick returns q in the quick tier and t in the thorough tier.
func (c *Ctx) Pick(q, t int) int {
	if c.Thorough() {
		return t
	}
	return q
}

// Seed returns VERIF_SEED.
func (c *Ctx) Seed() uint64 { return c.o.Seed }

// Rand returns the PRNG of the seeded part (workload name, index).
func (c *Ctx) Rand(name string, idx int) *Rng {
	h := fnv.New64a()
	h.Write([]byte(name))
	return NewRng(c.o.Seed*0x9E3779B97F4A7C15 ^ h.Sum64() ^ (uint64(idx)+1)*0xBF58476D1CE4E5B9)
}

func processCPU() int64 {
	var ru syscall.Rusage
	syscall.Getrusage(syscall.RUSAGE_SELF, &ru)
	return ru.Utime.Nano() + ru.Stime.Nano()
}

func rssBytes() uint64 {
	b, err := os.ReadFile("/proc/self/statm")
	if err != nil {
		return 0
	}
	f := strings.Fields(string(b))
	if len(f) < 2 {
		return 0
	}
	p, _ := strconv.ParseUint(f[1], 10, 64)
	return p * uint64(os.Getpagesize())
}

func (c *Ctx) write(r Rec) {
	c.mu.Lock()
	defer c.mu.Unlock()
	b, _ := json.Marshal(r)
	c.j.Write(b)
	c.j.WriteByte('\n')
}

func (c *Ctx) flush() {
	c.mu.Lock()
	c.j.Flush()
	c.mu.Unlock()
}

// RunChild executes the child side.  It never returns.
func RunChild(o ChildOpts) {
	if o.BudgetS <= 0 {
		o.BudgetS = 30
	}
	if o.MemLimit == 0 {
		o.MemLimit = 3 << 30
	}
	debug.SetGCPercent(100)
	name := fmt.Sprintf("shard-%d%s.journal", o.Shard, o.Tag)
	f, err := os.OpenFile(filepath.Join(o.OutDir, name), os.O_CREATE|os.O_WRONLY|os.O_TRUNC, 0o644)
	if err != nil {
		fmt.Fprintln(os.Stderr, "child: cannot open journal:", err)
		os.Exit(2)
	}
	c := &Ctx{o: o, jf: f, j: bufio.NewWriterSize(f, 1<<16), nt: map[uint64]struct{}{}, obs: map[string]int64{},
		sampleBy: map[string]int{}, violKeys: map[string]int{}, streams: map[string]*bufio.Writer{}}
	c.budgetNs = int64(o.BudgetS * 1e9)
	c.budgetCur.Store(c.budgetNs)
	// a unit of the quick tier takes seconds; one that has used 400 CPU-s (thorough: 2400) is abandoned (INCONCLUSIVE)
	c.unitLimit = int64(2400 * 1e9)
	if o.Tier == "quick" {
		c.unitLimit = int64(400 * 1e9)
	}
	if v := os.Getenv("VERIF_UNIT_BUDGET_S"); v != "" {
		if f, err := strconv.ParseFloat(v, 64); err == nil && f > 0 {
			c.unitLimit = int64(f * 1e9)
		}
	}
	c.callKey.Store("")
	go c.watchdog()
	func() {
		defer func() {
			if r := recover(); r != nil {
				if _, ok := r.(stopSentinel); ok {
					return
				}
				c.write(Rec{T: "harness_panic", Unit: c.curUnit, Msg: fmt.Sprint(r), Observed: string(debug.Stack())})
			}
		}()
		o.Prop.Run(c)
	}()
	if o.ListOnly {
		os.WriteFile(filepath.Join(o.OutDir, "units.txt"), []byte(strings.Join(c.unitNames, "\n")), 0o644)
		os.Exit(ExitOK)
	}
	c.finish()
	if c.stopped {
		os.Exit(ExitStop)
	}
	os.Exit(ExitOK)
}

func (c *Ctx) finish() {
	c.writeCum()
	c.write(Rec{T: "done"})
	c.flush()
	c.jf.Close()
	// non-trivial fingerprints
	nf, err := os.Create(filepath.Join(c.o.OutDir, fmt.Sprintf("nt-%d%s.bin", c.o.Shard, c.o.Tag)))
	if err == nil {
		w := bufio.NewWriter(nf)
		var b [8]byte
		for h := range c.nt {
			binary.LittleEndian.PutUint64(b[:], h)
			w.Write(b[:])
		}
		w.Flush()
		nf.Close()
	}
	for _, w := range c.streams {
		w.Flush()
	}
	for _, f := range c.sfiles {
		f.Close()
	}
}

func (c *Ctx) writeCum() {
	if m := c.maxCharge.Load() / 1e6; m > c.obs["max:guarded_call_cpu_ms"] {
		c.obs["max:guarded_call_cpu_ms"] = m
	}
	b, _ := json.Marshal(cumRec{Evals: c.evals, NTCons: c.ntByCons, Obs: c.obs})
	c.write(Rec{T: "cum", Case: b})
}

// watchdog attributes process CPU time to the guarded call in progress: CPU
// consumed between two ticks during which the same call stayed active is
// charged to that call.  No syscall is made on the hot path of Call.
func (c *Ctx) watchdog() {
	lastSeq := int64(-1)
	lastCPU := processCPU()
	var charged int64
	tick := 0
	for {
		time.Sleep(50 * time.Millisecond)
		tick++
		now := processCPU()
		seq := c.callSeq.Load()
		if c.active.Load() && seq == lastSeq {
			charged += now - lastCPU
			if c.callSoft.Load() {
				c.softCPU.Add(now - lastCPU)
			}
			if charged > c.maxCharge.Load() {
				c.maxCharge.Store(charged)
			}
		} else {
			charged = 0
		}
		lastSeq, lastCPU = seq, now
		if c.callSoft.Load() && charged > c.budgetCur.Load() && c.active.Load() && c.callSeq.Load() == seq {
			// a call that may legitimately be slow is abandoned at the budget and counted; that is not a verdict
			c.write(Rec{T: "slow", Unit: c.curUnit, Key: c.curKey(), CPU: float64(charged) / 1e9})
			c.flush()
			os.Exit(ExitSlow)
		}
		if charged > c.budgetCur.Load() && c.active.Load() && c.callSeq.Load() == seq {
			key := c.curKey()
			if c.callSoft.Load() {
				c.write(Rec{T: "slow", Unit: c.curUnit, Key: key, CPU: float64(charged) / 1e9})
				c.flush()
				os.Exit(ExitSlow)
			}
			buf := make([]byte, 1<<16)
			n := runtime.Stack(buf, true)
			c.write(Rec{T: "budget", Unit: c.curUnit, Key: key, CPU: float64(charged) / 1e9, Observed: trimStack(string(buf[:n]))})
			c.flush()
			os.Exit(ExitBudget)
		}
		// safety net for the harness itself: a unit whose oracle work runs away (CPU or memory) is abandoned and the
		// run becomes INCONCLUSIVE; it never turns into a verdict about the library.
		if us := c.unitStart.Load(); us != 0 && tick%20 == 0 {
			over := now-us > c.unitLimit
			var rss uint64
			if !over {
				rss = rssBytes()
			}
			soft := c.softCPU.Load() - c.softAtUnitStart.Load()
			if (over && soft > (now-us)/2) || (now-us > c.unitLimit/4 && soft > (now-us)/10*9) {
				// more than half of the unit's CPU went into library calls that may legitimately be slow
				// (CallSlowOK): the tree under test is slow on this kind of input, which is not a verdict and not a
				// failure of the harness either
				c.write(Rec{T: "slow", Unit: c.curUnit, Key: "unit " + c.curUnit + " (most of its CPU inside calls that may legitimately be slow)", CPU: float64(now-us) / 1e9})
				c.flush()
				os.Exit(ExitSlow)
			}
			if over || rss > 12<<30 {
				c.write(Rec{T: "unit_budget", Unit: c.curUnit, CPU: float64(now-us) / 1e9, V: int64(rss), Msg: "unit abandoned: harness CPU or memory limit exceeded"})
				c.flush()
				os.Exit(ExitUnit)
			}
		}
		if tick%4 == 0 && c.active.Load() {
			if rss := rssBytes(); rss > c.o.MemLimit {
				key := c.curKey()
				c.write(Rec{T: "mem", Unit: c.curUnit, Key: key, V: int64(rss)})
				c.flush()
				os.Exit(ExitMem)
			}
		}
	}
}

func trimStack(s string) string {
	if len(s) > 6000 {
		return s[:6000] + "\n...[truncated]"
	}
	return s
}

// Unit runs f as one unit of work if it belongs to this child.  Unit names
// must be unique within a property and be enumerated in the same order by
// every child.
func (c *Ctx) Unit(name string, f func()) {
	seq := c.unitSeq
	c.unitSeq++
	if c.o.ListOnly {
		c.unitNames = append(c.unitNames, name)
		return
	}
	if c.stopped {
		return
	}
	if c.o.Only != "" {
		if name != c.o.Only {
			return
		}
	} else {
		if seq%c.o.Of != c.o.Shard {
			return
		}
		if c.o.Skip[name] {
			return
		}
	}
	c.curUnit = name
	c.inUnit = true
	c.budgetCur.Store(c.budgetNs)
	c.write(Rec{T: "begin", Unit: name, Seq: seq})
	c.flush()
	t0 := time.Now()
	c.softAtUnitStart.Store(c.softCPU.Load())
	c.unitStart.Store(processCPU() | 1)
	defer c.unitStart.Store(0)
	ok := func() (ok bool) {
		defer func() {
			if r := recover(); r != nil {
				if _, isStop := r.(stopSentinel); isStop {
					ok = true
					return
				}
				if _, isSkip := r.(slowSkipSentinel); isSkip {
					c.active.Store(false)
					c.write(Rec{T: "slowskip", Unit: name})
					ok = true
					return
				}
				c.active.Store(false)
				c.write(Rec{T: "harness_panic", Unit: name, Msg: fmt.Sprint(r), Observed: trimStack(string(debug.Stack()))})
				ok = false
			}
		}()
		f()
		return true
	}()
	_ = ok
	// event streams are flushed at every unit end: a child that is killed later (budget, crash) must not lose
	// what completed units emitted
	for _, w := range c.streams {
		w.Flush()
	}
	c.writeCum()
	c.write(Rec{T: "end", Unit: name, Seq: seq, Ms: time.Since(t0).Milliseconds()})
	c.flush()
	c.inUnit = false
	if c.o.StopAfter != "" && name == c.o.StopAfter {
		c.stopped = true
	}
}

// SetBudget multiplies the CPU budget of guarded calls for the rest of the
// current unit (for calls that legitimately run many goroutines or a slow
// instrumented build).
func (c *Ctx) SetBudget(factor float64) {
	c.budgetCur.Store(int64(float64(c.budgetNs) * factor))
}

// Stopped reports whether the child has given up (too many violations).
func (c *Ctx) Stopped() bool { return c.stopped }

// PanicInfo describes a panic raised by the library inside a guarded call.
type PanicInfo struct {
	Value string // fmt.Sprint of the panic value
	Site  string // first /repo (library) frame: file:line func
	Stack string
}

func (p *PanicInfo) String() string {
	if p == nil {
		return "<no panic>"
	}
	return "panic(" + p.Value + ") at " + p.Site
}

// Call runs f, a call into the library under test, under the CPU watchdog and
// converts a panic into a PanicInfo.  key identifies the case (it is what a
// budget / crash event is attributed to).
func (c *Ctx) Call(key string, f func()) (pi *PanicInfo) {
	return c.CallN(key, -1, f)
}

// CallSlowOK is Call for a library function whose running time is legitimately exponential in the worst case
// (canonical labelling of highly symmetric graphs, clique / colouring / cycle counting) on an input that is not
// small: if it exceeds the CPU budget the case is abandoned and COUNTED (observation
// "calls_abandoned_as_too_slow(not judged)"), it is not reported as a violation - slow is not wrong, and which
// inputs are slow depends on incidental choices of the implementation.  Hangs are still caught on the small inputs
// of the same workloads, which go through Call.
type slowSkipSentinel struct{}

func (c *Ctx) CallSlowOK(key string, f func()) (pi *PanicInfo) {
	if c.o.SlowCapped {
		// the tree under test is slow on this kind of input again and again: stop paying for it (the rest of this
		// unit is not judged; the supervisor counts the unit)
		panic(slowSkipSentinel{})
	}
	c.callSoft.Store(true)
	defer c.callSoft.Store(false)
	return c.CallN(key, -1, f)
}

// CallN is Call with the case identified by key + "#" + num; it avoids
// building a key string per case in bulk sweeps (keyPrefix may be shared by
// many consecutive calls).
func (c *Ctx) CallN(key string, num int64, f func()) (pi *PanicInfo) {
	if c.o.PerCase {
		c.write(Rec{T: "case", Unit: c.curUnit, Key: fullKey(key, num)})
		c.flush()
	}
	if num >= 0 {
		if k, _ := c.callKey.Load().(string); k != key {
			c.callKey.Store(key)
		}
	} else {
		c.callKey.Store(key)
	}
	c.callNum.Store(num)
	c.callSeq.Add(1)
	c.active.Store(true)
	defer func() {
		c.active.Store(false)
		if r := recover(); r != nil {
			st := string(debug.Stack())
			pi = &PanicInfo{Value: fmt.Sprint(r), Site: librarySite(st), Stack: trimStack(st)}
		}
	}()
	f()
	return nil
}

func fullKey(key string, num int64) string {
	if num < 0 {
		return key
	}
	return key + "#" + strconv.FormatInt(num, 10)
}

func (c *Ctx) curKey() string {
	k, _ := c.callKey.Load().(string)
	return fullKey(k, c.callNum.Load())
}

// librarySite extracts the innermost frame that lies in the library under test.
func librarySite(stack string) string {
	lines := strings.Split(stack, "\n")
	for i := 0; i+1 < len(lines); i++ {
		fn := lines[i]
		loc := strings.TrimSpace(lines[i+1])
		if strings.HasPrefix(fn, "github.com/Tom-Johnston/mamba/") {
			// loc is "/path/file.go:123 +0x.."
			if sp := strings.IndexByte(loc, ' '); sp > 0 {
				loc = loc[:sp]
			}
			loc = filepath.Base(filepath.Dir(loc)) + "/" + filepath.Base(loc)
			if p := strings.LastIndexByte(fn, '('); p > 0 {
				fn = fn[:p]
			}
			fn = strings.TrimPrefix(fn, "github.com/Tom-Johnston/mamba/")
			return loc + " " + fn
		}
	}
	return "?"
}

// SiteFile returns only the "pkg/file.go func" part of a site (line numbers
// stripped) so that keys stay stable under unrelated edits.
func SiteNoLine(site string) string {
	parts := strings.SplitN(site, " ", 2)
	loc := parts[0]
	if i := strings.LastIndexByte(loc, ':'); i > 0 {
		loc = loc[:i]
	}
	if len(parts) == 2 {
		return loc + " " + parts[1]
	}
	return loc
}

// Eval counts n judged evaluations.
func (c *Ctx) Eval(n int) { c.evals += int64(n) }

// NT records one non-trivial case by fingerprint (distinctness is by hash).
func (c *Ctx) NT(parts ...interface{}) {
	if len(c.nt) >= 4_000_000 {
		return
	}
	h := fnv.New64a()
	for _, p := range parts {
		switch v := p.(type) {
		case string:
			h.Write([]byte(v))
		case []byte:
			h.Write(v)
		default:
			fmt.Fprint(h, v)
		}
		h.Write([]byte{0})
	}
	c.nt[h.Sum64()] = struct{}{}
}

// NTDistinct counts n non-trivial cases that are distinct by construction
// (members of an exhaustive enumeration without repetition).
func (c *Ctx) NTDistinct(n int) { c.ntByCons += int64(n) }

// Obs adds n to the named observation counter.
func (c *Ctx) Obs(name string, n int) { c.obs[name] += int64(n) }

// ObsGet returns the current value of an observation counter in this child.
func (c *Ctx) ObsGet(name string) int64 { return c.obs[name] }

// ObsMax keeps the maximum of the named observation.
func (c *Ctx) ObsMax(name string, v int) {
	if int64(v) > c.obs["max:"+name] {
		c.obs["max:"+name] = int64(v)
	}
}

// Sample records an actual case for the evidence file (a few per label).
func (c *Ctx) Sample(label string, v interface{}) {
	if c.sampleBy[label] >= 2 || c.samples >= 40 {
		return
	}
	c.sampleBy[label]++
	c.samples++
	b, err := json.Marshal(map[string]interface{}{"workload": label, "case": v})
	if err != nil {
		return
	}
	c.write(Rec{T: "sample", Unit: c.curUnit, Case: b})
}

// Violation records a violation.  key identifies the defect witness
// (API|kind|witness); detail is the concrete case (JSON-marshalled).
func (c *Ctx) Violation(key string, detail interface{}, observed, expected string) {
	if c.violKeys[key] >= maxViolPerKey {
		c.violKeys[key]++
		return
	}
	c.violKeys[key]++
	b, err := json.Marshal(detail)
	if err != nil {
		b, _ = json.Marshal(fmt.Sprint(detail))
	}
	if len(observed) > 4000 {
		observed = observed[:4000] + "..."
	}
	if len(expected) > 4000 {
		expected = expected[:4000] + "..."
	}
	c.write(Rec{T: "viol", Unit: c.curUnit, Key: key, Case: b, Observed: observed, Expected: expected})
	c.flush()
	c.viols++
	if c.viols >= maxViolPerShard && c.o.Only == "" {
		c.stopped = true
		c.write(Rec{T: "stopped", Msg: "too many violations"})
		c.flush()
		panic(stopSentinel{})
	}
}

// Inconclusive records that part of the workload could not be judged.
func (c *Ctx) Inconclusive(msg string) {
	c.write(Rec{T: "inconclusive", Unit: c.curUnit, Msg: msg})
}

func (c *Ctx) stream(stream string) *bufio.Writer {
	w, ok := c.streams[stream]
	if !ok {
		f, err := os.OpenFile(filepath.Join(c.o.OutDir, fmt.Sprintf("events-%s-%d%s.jsonl", stream, c.o.Shard, c.o.Tag)), os.O_CREATE|os.O_WRONLY|os.O_APPEND, 0o644)
		if err != nil {
			panic(err)
		}
		c.sfiles = append(c.sfiles, f)
		w = bufio.NewWriterSize(f, 1<<16)
		c.streams[stream] = w
	}
	return w
}

// Emit appends a JSON line to the named event stream of this child
// (.run/Cxx/events-<stream>-<shard>.jsonl) for the offline checkers.
func (c *Ctx) Emit(stream string, v interface{}) {
	w := c.stream(stream)
	b, _ := json.Marshal(v)
	w.Write(b)
	w.WriteByte('\n')
}

// EmitRaw appends a raw line to the named event stream.
func (c *Ctx) EmitRaw(stream string, line string) {
	w := c.stream(stream)
	w.WriteString(line)
	w.WriteByte('\n')
}

// OutDir is the run directory of this property.
func (c *Ctx) OutDir() string { return c.o.OutDir }

// Shard returns (index, count).
func (c *Ctx) Shard() (int, int) { return c.o.Shard, c.o.Of }

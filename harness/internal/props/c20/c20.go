// Package c20 monitors tsp.LIB: the TSPLIB output is well formed and faithful
// to the weight function on a writer that never fails, and every failing
// write, at whatever position and in whatever manner, is reported by a non-nil
// error (DESIGN.md section 4, C20; fault enumeration).
package c20

import (
	"bytes"
	"encoding/json"
	"fmt"
	"sort"
	"strings"

	"github.com/Tom-Johnston/mamba/tsp"

	"verif/internal/engine"
)

const stream = "faults"

func init() {
	engine.Register(&engine.Property{
		ID:    "C20",
		Level: "fault_enumeration",
		Rule: "fault-free plane: tsp.LIB(w, n, weights) on a recording writer for every n of a range x weight families (negative, MinInt64..MaxInt64, asymmetric in definition, zero, constant, per-cell widths, seeded random); " +
			"the bytes are read back by a TSPLIB reader written from the format description and compared entry by entry with the weight function, every call of weights is recorded and must satisfy 0 <= j < i < n. " +
			"fault plane: W = number of Write calls of the fault-free run of (n, weights); for EVERY position p in 0..W-1 (first header write .. zero-length flush .. EOF trailer) and each mode in {permanent error from p on, transient error at p only, short count with error at p, short count with nil error at p (recorded, not judged)} LIB is re-run with that fault and must return a non-nil error. " +
			"failing-Write behaviours: a fault mode is a point of returned count {0, 1, half, len-1, FULL len(p); len+1 and -1 = broken writer, recorded only} x returned error {nil (recorded only), a plain error, io.EOF, io.ErrShortWrite, EINTR, EAGAIN, a Temporary/Timeout error, an empty-message error, a wrapped error} x bytes of the failing call {kept, dropped} x duration {that call only, 2-3 consecutive calls, from there on}; " +
			"the failure that reports a FULL count with a non-nil error and drops the bytes (once / from there on) is injected at every position wherever the four original modes are; all the modes at every position for the small instances (quick n <= 6, thorough n <= 12), the judged count modes for two weight families above that (quick n <= 12, thorough n <= 24); the same mode lists run through the writer kinds (io.StringWriter / io.ReaderFrom devices, io.MultiWriter, a caller's *bufio.Writer), the sampled large instances and the call sequences. " +
			"judged = the faulted call returned a non-nil error and a count in 0..len(p) (re-derived offline from the logged return values). " +
			"one event record per injected run goes to an event log and the verdicts are re-derived offline from the log alone (which also verifies that no position is missing). thorough adds real files under strace write(2) error injection (ENOSPC at the k-th write syscall, once and from k on). " +
			"overlapping calls: a second LIB call (other n, weights, writer; sometimes with a failing writer of its own) runs to completion inside EVERY Write call of a first one (before / after the writer takes the bytes) and inside every call of its weights function; each call is judged against what it writes alone. " +
			"output volume: instances built to reach 1, 4, 8 and 16 MiB (thorough: a ladder of 20 instances up to 32, 64 and 128 MiB) of WEIGHT TEXT (= sum over the entries of characters + 1) by combining n = 740..1550 (thorough: up to 4220; seeded inside a window per instance) with weights of 1..20 characters (one digit, signed distances of 1-3 digits, 7-8 digit negatives, widths mixed inside every column, 19 digits at MaxInt64 / MinInt64, seeded random); LIB writes into a streaming TSPLIB reader that keeps nothing but the unfinished line and compares every number with weights(i,j) recomputed on the fly (DIMENSION, number count, every entry, row count, row lengths, EOF, calls of weights in range: the verdict of the reader of whole documents, by construction, by self-check on corrupted documents and by a unit that runs both readers on the library's bytes and on those bytes damaged in the harness); thorough also crosses 2048 / 4096 rows, 2^22 / 2^23 entries and 64 KiB per row. " +
			"write failures at volume (sampled, not exhaustive): on two instances (>= 2^20 short entries in 4 MiB, 19-digit entries in 8 MiB; thorough: four instances up to 64 MiB) a failing write {transient, full count with the bytes dropped; thorough: the four original modes and both full-count modes} is injected at one seeded position in every band of the output [first weight, 1 MiB), [1, 2), [2, 4), [4, 8), ... and at the last write before the trailer; records vbase/vfault, verdicts re-derived offline against the plan. " +
			"non-trivial = injected run whose faulted write covers bytes of the weight section (or is the zero-length write of its flush), a healthy call that follows a failed one, or a judged pair of overlapping calls; distinct by construction (n, weights, writer, mode, position)",
		Assumptions: []string{
			"oracle: TSPLIB reader written from the TSPLIB 95 description (harness code, self-checked on hand-written documents and 21 corrupted ones)",
			"large outputs are read by a streaming form of the same reader (same keywords, same integer syntax, same precedence of the errors; only the unfinished line is kept); weight text of an instance = sum over the n(n+1)/2 entries of (characters of the entry in decimal + 1)",
			"integers are read with strconv.ParseInt (base 10, 64 bit); rows are the lines of the weight section, numbers separated by blanks, any alignment",
			"a write 'fails' when Write returns a non-nil error, whatever the error value and whatever the count in 0..len(p) (zero, short or FULL: io.Writer allows a non-nil error with n == len(p)) and whether or not the writer kept the bytes; a short or zero count with a nil error, and a count outside 0..len(p), is a contract violation of the writer and is recorded, not judged",
			"section of a fault position = byte range of that write in the fault-free output relative to the EDGE_WEIGHT_SECTION line and the EOF line (a write may cover several parts)",
			"bytes of LIB that sit in a caller-supplied *bufio.Writer when LIB returns are the caller's to flush: only device failures that happened before LIB returned are judged; a short count with nil error below bufio is recorded only (bufio retries after a direct write)",
			"a weights function that panics: the panic may propagate or be turned into an error; only a nil error is a violation",
			"a writer or a weights function may itself call tsp.LIB on another writer (two overlapping calls in one goroutine): neither call may change what the other writes or returns",
			"thorough: strace >= 5 with -e inject and -P path filtering; one write(2) per Write call on an *os.File (checked by a control run with the fault beyond the last write)",
		},
		Run:            run,
		Finish:         finish,
		MinEvaluations: map[string]int{"quick": 4000, "thorough": 10000},
		MinNontrivial:  map[string]int{"quick": 2500, "thorough": 6000},
		RequiredObs: []string{"clean_runs", "weight_calls", "fault_runs:permanent", "fault_runs:transient", "fault_runs:short-error", "fault_runs:short-nil-error",
			"offline:records_judged", "offline:bases_complete", "covered:header", "covered:weights", "covered:trailer",
			"sampled:fault_runs:permanent", "sampled:fault_runs:transient", "sampled:fault_runs:short-error", "sampled:fault_runs:short-nil-error", "offline:sampled:records_judged",
			"wtype_bases", "offline:wtype:records_judged", "wtype:fault-free:os.File", "wtype:fault-free:bytes.Buffer", "wtype:pipe_runs", "wtype:os:refusing_writer:file-opened-read-only", "wtype:os:refusing_writer:os.Pipe-whose-read-end-is-closed", "wtype:os:accepting_writer:os.Pipe-with-a-reader", "wtype:fault_runs:bufio:permanent", "wtype:fault_runs:stringwriter:transient",
			"seq:healthy_calls_checked", "seq:calls:weights-panic:after-start", "seq:calls:healthy:after-transient", "seq:concatenations_on_one_bytes.Buffer",
			// the space of failing-Write behaviours: a failed write with a FULL count at the header, inside the weight section and at the trailer (the very last write), once and for good
			"fault_runs:full-error-dropped", "fault_runs:full-error-dropped-permanent", "fault_runs:full-error-kept", "fault_runs:one-error", "fault_runs:allbut1-error", "fault_runs:transient-burst3",
			"fault_runs:transient:err=io.EOF", "fault_runs:full-error-dropped:err=io.EOF", "fault_runs:over-error", "fault_runs:negative-error",
			"returned:count=full,err!=nil:covering:header", "returned:count=full,err!=nil:covering:weights", "returned:count=full,err!=nil:covering:trailer",
			"returned:count=short,err!=nil:covering:trailer", "returned:count=zero,err!=nil:covering:header", "returned:count=over,err!=nil:covering:trailer",
			"offline:judged:full-error-dropped", "offline:judged:full-error-dropped-permanent", "offline:judged:returned:count=full,err!=nil", "offline:judged:returned:count=short,err!=nil", "offline:judged:returned:count=zero,err!=nil",
			"sampled:fault_runs:full-error-dropped", "sampled:fault_runs:full-error-dropped-permanent", "sampled:returned:count=full,err!=nil:covering:header", "sampled:returned:count=full,err!=nil:covering:trailer",
			"wtype:fault_runs:stringwriter:full-error-dropped", "wtype:fault_runs:readerfrom:full-error-dropped", "wtype:fault_runs:multiwriter:full-error-dropped-permanent", "wtype:fault_runs:bufio:full-error-dropped",
			"wtype:returned_by_the_device:count=full,err!=nil",
			"seq:calls:healthy:after-full-error-dropped", "seq:calls:healthy:after-full-error-kept-permanent",
			// overlapping calls
			// output volume: the ladder of weight text, short and 20-character weights, every entry read by the streaming reader, failures beyond 4 MiB
			"volume:instances_checked", "volume:entries_checked_by_the_streaming_reader", "volume:weight_text>=1MiB", "volume:weight_text>=4MiB", "volume:weight_text>=8MiB", "volume:weight_text>=16MiB",
			"volume:output>=16MiB", "volume:entries>=2^20", "volume:rows>1024", "volume:entries:width=01", "volume:entries:width=04", "volume:entries:width=19", "volume:entries:width=20",
			"volume:readers_agree_on_library_output", "volume:readers_agree_on_damaged_output",
			"volume:fault_runs:transient", "volume:fault_runs:full-error-dropped", "volume:failed_writes_reaching>=4MiB", "volume:failed_writes_reaching>=8MiB", "offline:volume:records_judged", "offline:volume:judged:failed_write_reaching>=4MiB",
			"nested:calls_overlapped:in-write:bytes-pending", "nested:calls_overlapped:in-write:bytes-taken", "nested:calls_overlapped:in-weights", "nested:pairs_judged", "nested:inner_call_with_a_write_fault:full-error-dropped"},
	})
}

// ---- fault-free plane ----------------------------------------------------

type baseRun struct {
	n     int
	fam   string
	rs    uint64
	data  []byte
	sizes []int
	offs  []int // byte offset of every write
	ws    int   // weight section start
	es    int   // EOF line start
}

type caseDetail struct {
	N       int      `json:"n"`
	Weights string   `json:"weights"`
	RS      uint64   `json:"rand_word,omitempty"`
	Matrix  []string `json:"lower_triangle,omitempty"`
	Output  string   `json:"output,omitempty"`
	Fault   string   `json:"fault,omitempty"`
	Pos     int      `json:"position,omitempty"`
	W       int      `json:"writes_fault_free,omitempty"`
	Sect    string   `json:"section,omitempty"`
	Note    string   `json:"note,omitempty"`
}

func matrixRows(fam string, n int, rs uint64) []string {
	if n > 8 {
		return []string{fmt.Sprintf("weights(i,j) of family %q, n=%d (see workload.go)", fam, n)}
	}
	var r []string
	for i := 1; i < n; i++ {
		var sb strings.Builder
		for j := 0; j < i; j++ {
			fmt.Fprintf(&sb, "%d ", weightValue(fam, n, rs, i, j))
		}
		r = append(r, strings.TrimSpace(sb.String()))
	}
	return r
}

func famKey(fam string, idx int) string {
	if fam == randFamily {
		return fmt.Sprintf("%s#%d", fam, idx)
	}
	return fam
}

func clip(s string, n int) string {
	if len(s) > n {
		return s[:n] + "...[" + fmt.Sprint(len(s)) + " bytes]"
	}
	return s
}

// cleanRun makes one fault-free call and judges it.  It returns nil after a
// violation.
//
// quiet: the same (n, weights) is judged by a clean/<family> unit; a failure
// is only counted here (one key per defect and family, smallest n first).
func cleanRun(c *engine.Ctx, n int, fam string, rs uint64, fk string, quiet bool) *baseRun {
	violation := c.Violation
	if quiet {
		violation = func(key string, detail interface{}, observed, expected string) {
			c.Obs("base_run_violations_left_to_the_clean_units", 1)
		}
	} else {
		c.Eval(1)
	}
	c.Obs("clean_runs", 1)
	c.Obs("clean_runs:"+fam, 1)
	wit := fmt.Sprintf("n=%d,w=%s", n, fk)
	callKey := "LIB|" + wit
	if fam == randFamily {
		// seeded part: one key per kind of failure, the concrete witness
		// (n, seed word, matrix) is in the detail
		wit = "w=" + randFamily
	}
	type call struct{ i, j int }
	var bad []call
	seen := map[call]int{}
	ncalls := 0
	wf := func(i, j int) int {
		ncalls++
		if !(0 <= j && j < i && i < n) {
			if len(bad) < 8 {
				bad = append(bad, call{i, j})
			}
		} else {
			seen[call{i, j}]++
		}
		return int(weightValue(fam, n, rs, i, j))
	}
	w := &recWriter{pos: -1}
	var err error
	pi := c.Call(callKey, func() { err = tsp.LIB(w, n, wf) })
	det := caseDetail{N: n, Weights: fk, RS: rs, Matrix: matrixRows(fam, n, rs), Output: clip(string(w.data), 3000)}
	if pi != nil {
		violation("LIB|panic|"+engine.SiteNoLine(pi.Site)+"|"+wit, det, pi.String(), "LIB returns")
		return nil
	}
	c.Obs("weight_calls", ncalls)
	c.Obs("write_calls_fault_free", len(w.sizes))
	if err != nil {
		violation("LIB|error-without-write-failure|"+wit, det, "error "+err.Error(), "nil: no write failed")
		return nil
	}
	if len(bad) > 0 {
		violation("LIB|weights-called-out-of-range|"+wit, det, fmt.Sprintf("weights called with (i,j) in %v", bad), "only 0 <= j < i < n")
		return nil
	}
	dups, missing := 0, 0
	for i := 1; i < n; i++ {
		for j := 0; j < i; j++ {
			k := seen[call{i, j}]
			if k == 0 {
				missing++
			} else if k > 1 {
				dups += k - 1
			}
		}
	}
	c.Obs("weight_pairs_observed", len(seen))
	if dups > 0 {
		c.Obs("weight_pairs_asked_more_than_once", dups)
	}
	if missing > 0 {
		c.Obs("weight_pairs_never_asked", missing) // judged through the output
	}
	d, pe := parseTSPLIB(w.data)
	if pe == nil {
		pe = checkDoc(d, n, func(i, j int) int64 { return weightValue(fam, n, rs, i, j) })
	}
	if pe != nil {
		violation("LIB|output|"+pe.Kind+"|"+wit, det, pe.Msg, "a TSPLIB file with DIMENSION n and rows weights(i,0..i-1) 0 in LOWER_DIAG_ROW, then EOF")
		return nil
	}
	if d.BlankInSect > 1 || (d.BlankInSect == 1 && d.HasEOF) {
		c.Obs("blank_lines_in_weight_section", d.BlankInSect)
	}
	if _, ok := d.Spec["DISPLAY_DATA_TYPE"]; ok {
		c.Obs("header:DISPLAY_DATA_TYPE=NO_DISPLAY", 1)
	}
	if !d.EndsNewline {
		c.Obs("output_without_final_newline", 1)
	}
	c.Obs(fmt.Sprintf("clean:n=%s", nBucket(n)), 1)
	b := &baseRun{n: n, fam: fam, rs: rs, data: w.data, sizes: w.sizes, ws: d.WeightStart, es: d.EOFStart}
	off := 0
	for _, s := range w.sizes {
		b.offs = append(b.offs, off)
		off += s
	}
	return b
}

func nBucket(n int) string {
	switch {
	case n <= 12:
		return fmt.Sprint(n)
	case n <= 24:
		return "13-24"
	case n <= 40:
		return "25-40"
	case n <= 60:
		return "41-60"
	}
	return ">60"
}

// ---- fault plane ---------------------------------------------------------

type faultDesc struct {
	Pos  int    `json:"pos"`
	Mode string `json:"mode"`
	Len  int    `json:"len"`           // size of the faulted write in the fault-free run
	Sect string `json:"sect"`          // classified online (re-derived offline)
	Off  int    `json:"off,omitempty"` // sampled plane: byte offset of that write in the fault-free run
}

// event is one line of the event log.  K = "base": the fault-free run of
// (n, wf, rs); K = "fault": one injected run.
type event struct {
	K  string `json:"k"`
	N  int    `json:"n"`
	WF string `json:"wf"`
	RS uint64 `json:"rs,omitempty"`
	W  int    `json:"W"`
	// base
	Sizes  []int       `json:"writes,omitempty"`
	Bytes  int         `json:"bytes,omitempty"`
	WS     int         `json:"ws,omitempty"`
	ES     int         `json:"es,omitempty"`
	Header string      `json:"header,omitempty"` // the bytes before the weight section
	Modes  []string    `json:"modes,omitempty"`  // modes enumerated over all positions for this base
	Plan   *samplePlan `json:"plan,omitempty"`   // sampled plane ("sbase"): which positions are injected
	Picks  []int       `json:"picks,omitempty"`  // write failures at volume ("vbase", volume.go): the positions that are injected
	// writer-type plane ("wbase"/"wfault", writers.go)
	ID       string `json:"id,omitempty"`
	Kind     string `json:"kind,omitempty"`
	DRet     int    `json:"device_calls_before_return,omitempty"`
	Hit      bool   `json:"hit_before_return,omitempty"` // the fault fired in a device call made before LIB returned
	Converts bool   `json:"converts_short_nil,omitempty"`
	Pending  int    `json:"pending,omitempty"` // bytes in the caller's buffer when LIB returned
	// fault
	Fault    *faultDesc `json:"fault,omitempty"`
	Fired    bool       `json:"fired,omitempty"`
	NW       int        `json:"nw,omitempty"`        // Write calls seen in the injected run
	Got      int        `json:"got,omitempty"`       // bytes accepted in the injected run
	PrefixOK bool       `json:"prefix_ok,omitempty"` // bytes accepted before the fault = prefix of the fault-free output
	Complete bool       `json:"complete,omitempty"`  // all bytes of the fault-free output were accepted
	Ret      int        `json:"ret,omitempty"`       // the count returned by the faulted call
	RetErr   string     `json:"ret_err,omitempty"`   // the error returned by the faulted call ("" = nil)
	FLen     int        `json:"flen,omitempty"`      // len(p) of the faulted call
	ErrNil   bool       `json:"err_nil"`
	Err      string     `json:"err,omitempty"`
	Panic    string     `json:"panic,omitempty"`
}

func baseID(n int, wf string, rs uint64) string { return fmt.Sprintf("%d|%s|%d", n, wf, rs) }

func violKey(mode, loc string) string {
	return "LIB|write-failure-not-reported|" + mode + "|at=" + loc
}

func (b *baseRun) location(p int) (sect, loc string) {
	return sectionOf(b.sizes, b.ws, b.es, p), locationOf(b.sizes, b.ws, b.es, string(b.data[:b.ws]), p)
}

func faultPlane(c *engine.Ctx, n int, fam string, rs uint64, fk string, modes []string) {
	c.Obs("fault_units", 1)
	b := cleanRun(c, n, fam, rs, fk, fam != randFamily)
	if b == nil {
		c.Obs("fault_units_skipped_after_clean_violation", 1)
		return
	}
	W := len(b.sizes)
	c.Emit(stream, event{K: "base", N: n, WF: fam, RS: rs, W: W, Sizes: b.sizes, Bytes: len(b.data), WS: b.ws, ES: b.es, Header: string(b.data[:b.ws]), Modes: modes, ErrNil: true})
	c.Obs("fault_plane:modes_per_unit:"+fmt.Sprint(len(modes)), 1)
	c.Obs(fmt.Sprintf("writes_per_run:%s", wBucket(W)), 1)
	c.ObsMax("writes_per_run", W)
	c.Obs(fmt.Sprintf("fault_plane:n=%s", nBucket(n)), 1)
	sects, locs := make([]string, W), make([]string, W)
	for p := 0; p < W; p++ {
		sect, loc := b.location(p)
		sects[p], locs[p] = sect, loc
		c.Obs("positions:"+sect, 1)
		if sect == "weights" {
			c.Obs("positions:weights:"+writeKind(b.data[b.offs[p]:b.offs[p]+b.sizes[p]]), 1)
		}
	}
	wf := func(i, j int) int { return int(weightValue(fam, n, rs, i, j)) }
	for _, mode := range modes {
		spec, _ := specOf(mode)
		for p := 0; p < W; p++ {
			if c.Stopped() {
				return
			}
			sect, loc := sects[p], locs[p]
			w := &recWriter{pos: p, mode: mode, data: make([]byte, 0, len(b.data)), sizes: make([]int, 0, W+4)}
			var err error
			pi := c.Call(fmt.Sprintf("LIB|n=%d,w=%s|%s@%d", n, fk, mode, p), func() { err = tsp.LIB(w, n, wf) })
			ev := event{K: "fault", N: n, WF: fam, RS: rs, W: W, Fault: &faultDesc{Pos: p, Mode: mode, Len: b.sizes[p], Sect: sect},
				Fired: w.fired, NW: len(w.sizes), Got: len(w.data), ErrNil: err == nil, Ret: w.firedRet, RetErr: w.firedErr, FLen: w.firedLen}
			if err != nil {
				ev.Err = errText(err)
			}
			if pi != nil {
				ev.Panic = pi.String()
			}
			if w.fired {
				ev.PrefixOK = w.firedOff == b.offs[p] && bytes.Equal(w.data[:w.firedOff], b.data[:b.offs[p]])
			}
			ev.Complete = bytes.Equal(w.data, b.data)
			c.Emit(stream, ev)
			c.Obs("fault_runs:"+mode, 1)
			c.Obs("section:"+sect, 1)
			obsCovered(c.Obs, "covered:", sect)
			if coversWeights(sect) {
				c.NTDistinct(1)
			}
			if w.fired {
				obsCovered(c.Obs, "returned:"+retClass(w.firedRet, w.firedLen, w.firedErr)+":covering:", sect)
			}
			if w.writesAfter > 0 && spec.perm {
				c.Obs("permanent:runs_with_writes_attempted_after_the_failure", 1)
			}
			det := func() caseDetail {
				return caseDetail{N: n, Weights: fam, RS: rs, Matrix: matrixRows(fam, n, rs), Fault: mode, Pos: p, W: W, Sect: sect,
					Note: fmt.Sprintf("write %d of %d carries %q in the fault-free run; %d of %d bytes were accepted in the injected run", p, W, clip(string(b.data[b.offs[p]:b.offs[p]+b.sizes[p]]), 60), len(w.data), len(b.data))}
			}
			if pi != nil && brokenCount(mode) {
				c.Obs(mode+":LIB_panicked(count outside 0..len(p), not judged):at="+sect, 1)
				continue
			}
			if pi != nil {
				c.Violation("LIB|panic-on-write-failure|"+engine.SiteNoLine(pi.Site)+"|"+mode+"|at="+loc, det(), pi.String(), "a non-nil error")
				continue
			}
			if !w.fired {
				if !nilErrorMode(mode) {
					c.Obs("fault_not_reached", 1)
				}
				continue
			}
			if !judgedMode(mode) {
				// a writer that breaks its contract: what LIB does is recorded only
				res := "nil"
				if err != nil {
					res = "error"
				}
				c.Obs(mode+":LIB_returned_"+res+":at="+sect, 1)
				continue
			}
			// online verdict (so that the witness can be replayed); the offline
			// checker derives the same verdict, under the same key, from the log
			if err == nil {
				c.Violation(violKey(mode, loc), det(), fmt.Sprintf("LIB returned nil although write %d failed (%d of %d bytes reached the writer)", p, len(w.data), len(b.data)), "a non-nil error")
			}
		}
	}
}

func wBucket(w int) string {
	switch {
	case w <= 4:
		return "<=4"
	case w <= 16:
		return "5-16"
	case w <= 64:
		return "17-64"
	case w <= 256:
		return "65-256"
	case w <= 1024:
		return "257-1024"
	}
	return ">1024"
}

// ---- workload ---------------------------------------------------------------

// countRange: the full space of failing-Write behaviours (allInProcessModes) is
// enumerated at every position for n <= deep with all weight families; the
// judged count modes for deep < n <= mid with two families; the full-count
// failure (once / for good) wherever the four original modes are.
func countRange(thorough bool) (deep, mid int) {
	if thorough {
		return 12, 24
	}
	return 5, 12
}

// planeModes: the modes of the exhaustive fault plane for (n, family); a pure
// function of the tier (the offline checker uses it too).
func planeModes(n int, fam string, thorough bool) []string {
	deep, mid := countRange(thorough)
	switch {
	case n <= deep:
		return allInProcessModes()
	case n <= mid && (fam == randFamily || fam == fixedFamilies[n%len(fixedFamilies)]):
		return joinModes(faultModes, fullCountModes, countModes)
	case n <= fullCountAll || (fam == randFamily && n%2 == 0):
		return joinModes(faultModes, fullCountModes)
	}
	return faultModes
}

// fullCountAll: up to this n the full-count failure accompanies the four
// original modes for every weight family of the sweep, above it (thorough only)
// for the seeded family at even n.
const fullCountAll = 40

// retClass names what a faulted call returned: the count relative to len(p) and
// whether the error was nil.
func retClass(ret, l int, retErr string) string {
	cnt := "short"
	switch {
	case ret < 0:
		cnt = "negative"
	case ret > l:
		cnt = "over"
	case ret == l:
		cnt = "full"
	case ret == 0:
		cnt = "zero"
	}
	if retErr == "" {
		return "count=" + cnt + ",err=nil"
	}
	return "count=" + cnt + ",err!=nil"
}

func notJudgedObs(prefix, mode string) string {
	if brokenCount(mode) {
		return prefix + "records_not_judged(count outside 0..len(p))"
	}
	return prefix + "records_not_judged(short count with nil error)"
}

// checkRet: the verdict class of a mode (a function of its name) must agree
// with what the faulted call actually returned according to the log.
func checkRet(s *engine.Super, ev *event) bool {
	if ev.Fault == nil || !ev.Fired || ev.Fault.Mode == "strace-transient" || ev.Fault.Mode == "strace-permanent" {
		return true
	}
	if judgedMode(ev.Fault.Mode) != retOK(ev.Ret, ev.FLen, ev.RetErr) {
		s.Inconclusive(fmt.Sprintf("event log: mode %s is judged=%v but the faulted call returned (%d, %q) for %d bytes", ev.Fault.Mode, judgedMode(ev.Fault.Mode), ev.Ret, ev.RetErr, ev.FLen))
		return false
	}
	return true
}

// faultRange: the fault plane covers n = 0..maxFault, with all weight
// families up to maxAll.
func faultRange(thorough bool) (maxFault, maxAll int) {
	if thorough {
		return 60, 24
	}
	return 12, 12
}

func faultFamilies(n, maxAll int) []string {
	if n <= maxAll {
		return append(append([]string{}, fixedFamilies...), randFamily)
	}
	// beyond maxAll: two fixed families in rotation plus the seeded one
	k := len(fixedFamilies)
	return []string{fixedFamilies[n%k], fixedFamilies[(n+k/2)%k], randFamily}
}

func run(c *engine.Ctx) {
	// 1. fault-free plane: every n of the range for each fixed family (one
	// unit per family, ascending n, stop at the first violation = smallest
	// witness), and seeded random weights.
	maxClean := c.Pick(40, 60)
	for _, fam := range fixedFamilies {
		fam := fam
		c.Unit("clean/"+fam, func() {
			for n := 0; n <= maxClean; n++ {
				if cleanRun(c, n, fam, 0, fam, false) == nil {
					return
				}
				if n == 3 {
					w := &recWriter{pos: -1}
					c.Call("sample", func() { tsp.LIB(w, n, func(i, j int) int { return int(weightValue(fam, n, 0, i, j)) }) })
					c.Sample("clean/"+fam, map[string]interface{}{"n": n, "output": string(w.data), "write_sizes": w.sizes})
				}
			}
			c.Obs(fmt.Sprintf("exhaustive:fault-free n=0..%d, weights %s", maxClean, fam), 1)
		})
	}
	nRand := c.Pick(240, 1200)
	per := 40
	for u := 0; u*per < nRand; u++ {
		u := u
		c.Unit(fmt.Sprintf("clean/rand/%d", u), func() {
			for idx := u * per; idx < (u+1)*per && idx < nRand; idx++ {
				rg := c.Rand("clean-rand", idx)
				n := idx % 13
				if idx >= 26 {
					n = rg.Intn(maxClean + 1)
				}
				if cleanRun(c, n, randFamily, rg.U64(), famKey(randFamily, idx), false) == nil {
					return
				}
			}
		})
	}

	// 2. fault plane: every position x every mode for every n of the range.
	// (n = 0 comes last so that the first witness of a defect is a run with rows)
	maxFault, maxAll := faultRange(c.Thorough())
	for k := 1; k <= maxFault+1; k++ {
		n := k % (maxFault + 1)
		for _, fam := range faultFamilies(n, maxAll) {
			n, fam := n, fam
			c.Unit(fmt.Sprintf("fault/n=%d/%s", n, fam), func() {
				var rs uint64
				if fam == randFamily {
					rs = c.Rand("fault-rand", n).U64()
				}
				faultPlane(c, n, fam, rs, famKey(fam, n), planeModes(n, fam, c.Thorough()))
			})
		}
	}

	// 2b. large instances around 256 / 512 / 1024 rows: full fault-free check,
	// SAMPLED fault positions (sampled.go).
	sampledUnits(c)

	// 2c. writer types (writers.go) and sequences of calls (sequences.go)
	typeUnits(c)
	seqUnits(c)
	// 2d. two calls that overlap in time (nested.go)
	nestedUnits(c)

	// 3. thorough: real files under strace write(2) error injection.
	if c.Thorough() {
		for _, n := range []int{1, 2, 3, 5, 7, 0} {
			for _, fam := range []string{"neg", "large", randFamily} {
				n, fam := n, fam
				c.Unit(fmt.Sprintf("strace/n=%d/%s", n, fam), func() {
					var rs uint64
					if fam == randFamily {
						rs = c.Rand("strace-rand", n).U64()
					}
					stracePlane(c, n, fam, rs, famKey(fam, n))
				})
			}
		}
	}

	// 4. output VOLUME: instances of 1 .. 16 (thorough 128) MiB of weight text read
	// by a streaming reader, and write failures far into them (volume.go).
	// (last, so that the units before it keep their place in the shards)
	volumeUnits(c)
}

// ---- offline checker ----------------------------------------------------------

// finish re-derives every fault-plane verdict from the event log alone and
// checks that the log covers every position of every base run.
func finish(s *engine.Super) {
	type baseInfo struct {
		ev   event
		seen map[string][]bool
	}
	bases := map[string]*baseInfo{}
	var faults, sbases, sfaults, wbases, wfaults, vbases, vfaults []event
	bad, nBase := 0, 0
	s.EachLine(stream, func(line []byte) {
		var ev event
		if err := json.Unmarshal(line, &ev); err != nil {
			bad++
			return
		}
		switch ev.K {
		case "base":
			nBase++
			id := baseID(ev.N, ev.WF, ev.RS)
			bi, dup := bases[id]
			if !dup {
				bi = &baseInfo{ev: ev, seen: map[string][]bool{}}
				bases[id] = bi
			} else if fmt.Sprint(bi.ev.Sizes) != fmt.Sprint(ev.Sizes) || bi.ev.Header != ev.Header {
				s.Inconclusive(fmt.Sprintf("event log: two different fault-free records for n=%d weights=%s", ev.N, ev.WF))
				return
			}
			// the in-process plane and the strace plane may share a base
			for _, m := range ev.Modes {
				if _, have := bi.seen[m]; have {
					s.AddObs("offline:duplicate_base_records", 1)
					continue
				}
				bi.seen[m] = make([]bool, ev.W)
			}
		case "fault":
			faults = append(faults, ev)
		case "sbase":
			sbases = append(sbases, ev)
		case "sfault":
			sfaults = append(sfaults, ev)
		case "wbase":
			wbases = append(wbases, ev)
		case "wfault":
			wfaults = append(wfaults, ev)
		case "vbase":
			vbases = append(vbases, ev)
		case "vfault":
			vfaults = append(vfaults, ev)
		default:
			bad++
		}
	})
	if bad > 0 {
		s.Inconclusive(fmt.Sprintf("event log: %d unreadable records", bad))
	}
	judged, viol := int64(0), 0
	for i := range faults {
		ev := &faults[i]
		bi := bases[baseID(ev.N, ev.WF, ev.RS)]
		if bi == nil || ev.Fault == nil || ev.W != bi.ev.W || ev.Fault.Pos < 0 || ev.Fault.Pos >= bi.ev.W {
			s.Inconclusive(fmt.Sprintf("event log: injected run without a matching fault-free record (n=%d weights=%s)", ev.N, ev.WF))
			return
		}
		seen, ok := bi.seen[ev.Fault.Mode]
		if !ok {
			s.Inconclusive("event log: unknown mode " + ev.Fault.Mode)
			return
		}
		if seen[ev.Fault.Pos] {
			s.AddObs("offline:duplicate_fault_records", 1) // a unit that was re-run after a crash
			continue
		}
		seen[ev.Fault.Pos] = true
		sect := sectionOf(bi.ev.Sizes, bi.ev.WS, bi.ev.ES, ev.Fault.Pos)
		if sect != ev.Fault.Sect || bi.ev.Sizes[ev.Fault.Pos] != ev.Fault.Len {
			s.Inconclusive(fmt.Sprintf("event log: section of position %d re-derived as %s, recorded %s", ev.Fault.Pos, sect, ev.Fault.Sect))
			return
		}
		if ev.Panic != "" {
			s.AddObs("offline:panics", 1)
			continue // reported online with its site
		}
		if !ev.Fired {
			if !nilErrorMode(ev.Fault.Mode) {
				s.AddObs("offline:fault_not_reached", 1)
			}
			continue
		}
		if !ev.PrefixOK {
			s.AddObs("offline:prefix_differs_from_fault_free_run", 1)
		}
		if !checkRet(s, ev) {
			return
		}
		if !judgedMode(ev.Fault.Mode) {
			s.AddObs(notJudgedObs("offline:", ev.Fault.Mode), 1)
			continue
		}
		judged++
		s.AddObs("offline:judged:"+ev.Fault.Mode, 1)
		s.AddObs("offline:judged:returned:"+retClass(ev.Ret, ev.FLen, ev.RetErr), 1)
		if ev.ErrNil {
			viol++
			if ev.Complete {
				s.AddObs("offline:nil_error_after_failed_write:output_complete", 1)
			} else {
				s.AddObs("offline:nil_error_after_failed_write:output_truncated", 1)
			}
			loc := locationOf(bi.ev.Sizes, bi.ev.WS, bi.ev.ES, bi.ev.Header, ev.Fault.Pos)
			s.Violation(violKey(ev.Fault.Mode, loc), ev, fmt.Sprintf("LIB returned nil although write %d failed (%d of %d bytes reached the writer)", ev.Fault.Pos, ev.Got, bi.ev.Bytes), "a non-nil error")
		}
	}
	s.AddEval(judged + sampledFinish(s, sbases, sfaults) + typeFinish(s, wbases, wfaults) + volumeFinish(s, vbases, vfaults))
	s.AddObs("offline:records_judged", judged)
	s.AddObs("offline:verdicts_violated", int64(viol))
	// completeness: every position of every mode of every base
	var ids []string
	for id := range bases {
		ids = append(ids, id)
	}
	sort.Strings(ids)
	complete := int64(0)
	for _, id := range ids {
		bi := bases[id]
		ok := true
		for m, seen := range bi.seen {
			for p, v := range seen {
				if !v {
					ok = false
					s.Inconclusive(fmt.Sprintf("event log: no record for position %d mode %s of n=%d weights=%s (W=%d)", p, m, bi.ev.N, bi.ev.WF, bi.ev.W))
					break
				}
			}
			if !ok {
				break
			}
		}
		if ok {
			complete++
		}
	}
	s.AddObs("offline:bases_complete", complete)
	if want := s.Obs("fault_units") + s.Obs("strace_units") - s.Obs("fault_units_skipped_after_clean_violation") - s.Obs("strace_units_skipped"); int64(nBase) < want {
		s.Inconclusive(fmt.Sprintf("event log: %d fault-free records for %d fault-plane units", nBase, want))
	}
	// the sweep is exhaustive if the log holds every (n, family) of the tier
	// with all the modes of planeModes(n, family) at all positions
	maxFault, maxAll := faultRange(s.Thorough())
	sweepOK := complete == int64(len(bases))
	for n := 0; n <= maxFault && sweepOK; n++ {
		for _, fam := range faultFamilies(n, maxAll) {
			found := false
			for _, bi := range bases {
				if bi.ev.N != n || bi.ev.WF != fam {
					continue
				}
				all := true
				for _, m := range planeModes(n, fam, s.Thorough()) {
					all = all && len(bi.seen[m]) == bi.ev.W
				}
				found = found || all
			}
			if !found {
				sweepOK = false
			}
		}
	}
	if sweepOK {
		deep, mid := countRange(s.Thorough())
		s.AddObs(fmt.Sprintf("exhaustive:fault plane (verified from the event log): all write positions x 4 modes, n=0..%d x all %d weight families", maxAll, len(fixedFamilies)+1), 1)
		if maxFault > maxAll {
			s.AddObs(fmt.Sprintf("exhaustive:fault plane (verified from the event log): all write positions x 4 modes, n=%d..%d x 3 weight families", maxAll+1, maxFault), 1)
		}
		fca := maxFault
		if fca > fullCountAll {
			fca = fullCountAll
			s.AddObs(fmt.Sprintf("exhaustive:fault plane (verified from the event log): all write positions x {error with a FULL count, bytes dropped; once / from there on}, n=%d..%d (even n) x seeded random weights", fca+1, maxFault), 1)
		}
		s.AddObs(fmt.Sprintf("exhaustive:fault plane (verified from the event log): all write positions x {error with a FULL count, bytes dropped; once / from there on}, n=0..%d x the weight families of the 4-mode sweep", fca), 1)
		s.AddObs(fmt.Sprintf("exhaustive:fault plane (verified from the event log): all write positions x %d modes of count x error value x bytes kept/dropped x duration (%d judged, %d broken writers recorded), n=0..%d x all %d weight families",
			len(allInProcessModes()), len(allInProcessModes())-len(brokenModes)-1, len(brokenModes)+1, deep, len(fixedFamilies)+1), 1)
		s.AddObs(fmt.Sprintf("exhaustive:fault plane (verified from the event log): all write positions x %d judged modes of count x bytes x duration, n=%d..%d x 2 weight families", len(faultModes)-1+len(fullCountModes)+len(countModes), deep+1, mid), 1)
	} else if s.Obs("fault_units_skipped_after_clean_violation") == 0 {
		s.Inconclusive("event log: the fault plane of this tier is not complete")
	}
}

// Package c15 monitors the iterators of github.com/Tom-Johnston/mamba/itertools:
// every object of the advertised family exactly once, in the documented order
// where one is documented, then exhaustion on every further call (DESIGN.md
// section 4, C15).
package c15

import (
	"fmt"
	"sort"
	"strings"

	"github.com/Tom-Johnston/mamba/itertools"

	"verif/internal/engine"
	"verif/internal/oracle/refiter"
)

var apis = []string{
	"Combinations", "CombinationsColex", "MultisetCombinations", "Permutations", "LexicographicPermutations",
	"MultisetPermutations", "Partitions", "IntegerPartitions", "Product",
	"RestrictedPrefixProduct", "RestrictedPrefixPermutations", "PermutationsByPattern", "TopologicalSorts",
}

func init() {
	req := []string{"further_next_calls_after_exhaustion", "callback_rejections", "outside_domain_cases_seen(not judged)", "aux_values_checked",
		// sessions (session.go): one caller slice for several iterators, several iterators alive at once
		"argument_unchanged_checks(after the constructor and after every Next)", "held_value_checks(value of an iterator compared after other iterators were advanced)",
		"shared_argument_sessions:sequential", "shared_argument_sessions:built-first", "shared_argument_sessions:interleaved",
		"shared_argument_sessions_by_order_of_sizes:increasing", "shared_argument_sessions_by_order_of_sizes:decreasing", "shared_argument_sessions_by_order_of_sizes:alternating", "shared_argument_sessions_by_order_of_sizes:seeded",
		"shared_argument_iterators:MultisetCombinations", "shared_argument_iterators:MultisetPermutations", "shared_argument_iterators:Product", "shared_argument_iterators:RestrictedPrefixProduct",
		"predicate_calls_that_also_appended_a_candidate_to_the_argument:RestrictedPrefixProduct", "predicate_calls_that_also_appended_a_candidate_to_the_argument:RestrictedPrefixPermutations", "predicate_calls_that_also_appended_a_candidate_to_the_argument:PermutationsByPattern",
		"sessions:built-first", "sessions:interleaved",
		// parameter magnitudes (huge.go)
		"huge_family_prefix_cases_with_cardinality_a_multiple_of_2^64:Product", "huge_family_prefix_cases_with_cardinality_mod_2^64_below_the_prefix_length:Product",
		"huge_family_prefix_cases_with_cardinality_a_multiple_of_2^32:Product", "huge_family_prefix_cases_with_cardinality_mod_2^32_below_the_prefix_length:Product",
		"huge_family_prefix_cases_with_cardinality_in[2^63,2^64):Product",
		"huge_family_prefix_cases_with_cardinality_a_multiple_of_2^64:RestrictedPrefixProduct", "huge_family_prefix_cases_with_cardinality_mod_2^64_below_the_prefix_length:RestrictedPrefixProduct",
		"huge_products_restricted_to_a_small_family_and_drained", "empty_products_with_huge_factors", "huge_multiplicities_small_size_cases(drained)",
		// results that the documentation gives to the caller (results.go)
		"appends_to_a_part_that_is_not_the_last_part_of_the_result:Partitions", "appends_to_the_outer_slice_of_results:Partitions",
		"modified_result_checks_after_Next_of_its_own_iterator:Partitions", "modified_result_checks_after_two_or_more_Next_calls_of_its_own_iterator:Partitions",
		"companion_view_compared_before_and_after_Value_was_modified:MultisetCombinations.Value", "Value_called_again_compared_with_the_first_result",
		"result_histories_with_several_iterators:sequential", "result_histories_with_several_iterators:interleaved", "result_histories_with_several_iterators:seeded-interleaving",
		"bystander_value_checks(value of an iterator whose results are not modified, compared after results of other iterators were modified)",
	}
	for _, n := range []string{"Partitions", "MultisetCombinations.Value"} {
		req = append(req, "caller_modified_results:"+n, "caller_operations_each_followed_by_a_comparison_with_the_model:"+n, "entries_of_results_overwritten:"+n, "appends_to_returned_slices:"+n,
			"Value_called_again_after_the_first_result_was_modified:"+n, "modified_result_checks_after_other_iterators_were_operated:"+n)
		for _, t := range resultTreatments {
			req = append(req, "result_treatments:"+n+":"+t)
		}
	}
	for _, a := range apis {
		req = append(req, "cases:"+a, "huge_family_prefix_cases:"+a, "huge_family_prefix_cases_with_cardinality>=2^64:"+a)
	}
	engine.Register(&engine.Property{
		ID:    "C15",
		Level: "exploration",
		Rule: "every constructor of itertools on ALL parameters up to the tier bound (n <= 8 quick / 9 thorough; k = 0..n+3; all multiplicity / factor vectors of length <= 4 (<= 6 for small sums) with the given sum, zeros and repeats included; " +
			"extended ranges for the cheap families; large-n-small-output cases with 63..130 (Combinations: 1000) positions / values whose families have at most a few ten thousand objects, and the first few thousand objects of families too large to exhaust), predicate-driven iterators with a fixed table of predicates plus seeded hash predicates on the prefix contents and fixed plus seeded sub-orders of 0<1<...<n-1. " +
			"Sessions: ONE caller-owned argument slice (a window of a larger array) is handed to a sequence of constructors - MultisetCombinations(m,k) for all k = 0..sum+1 in increasing, decreasing, alternating and seeded order for every multiplicity vector of length <= 4 and sum <= 5 (6 thorough), seeded longer vectors, 65/130 entries, multiplicities of 2^62; MultisetPermutations, Product, RestrictedPrefixProduct from the same slice - " +
			"with the iterators run sequentially, built first and then drained, and interleaved one Next each; the slice (and the array around it) is compared with what the caller put there after the constructor and after every Next, every iterator is judged against the family of the caller's values, and a value handed out by an iterator must still be the same after other iterators were advanced; the constructors without slice argument run in interleaved sessions too. " +
			"Parameter magnitudes: for EVERY constructor families with more than 2^31 / 2^32 / 2^63 / 2^64 objects (cardinalities computed with big integers: multiples of 2^32 and 2^64, values that wrap to less than the prefix length modulo 2^32 / 2^64, values between 2^63 and 2^64; factor sizes and n up to MaxInt, 62..200 factors, permutations of 13..130 elements, Partitions up to n = 100, IntegerPartitions up to n = 3000) " +
			"are judged on their first 300 (1500 thorough) objects: exact comparison with an independently generated prefix where the order is documented, otherwise distinct members of the family and no exhaustion (Product against its twin RestrictedPrefixProduct under the always-true predicate; the order seen is recorded); huge parameters with a small family (multiplicities >= 2^31 with k <= 5, an empty factor next to factors of 2^32, 64..100 factors under predicates that keep few tuples) are drained. " +
			"Results the documentation gives to the caller (Partitions: 'It is safe to modify the output of .Value()'; MultisetCombinations.Value: 'You may modify the return value' - all other Value / FreqValue / InverseValue results are documented as not to be modified and are never written to): " +
			"every value of Partitions(n), n <= 8 (9 thorough), and of MultisetCombinations(m,k) for every multiplicity vector of length <= 4 and sum <= 5 (6 thorough) and all k, seeded longer and 65/130-entry vectors, is treated as the caller's: every entry overwritten, one / many elements APPENDED to every part forwards and backwards (also to parts that are not the last one) and new parts appended to the outer slice, " +
			"the spare capacity of every returned slice written through a re-slice, parts truncated and regrown, dropped and refilled, Value called again for the same object, the modified values kept while the iterator goes on (Value read after every 1st / 2nd / 3rd / 5th Next) and while other iterators (same and other constructors, sequential, interleaved, seeded interleaving) run; " +
			"the treatment of the i-th value cycles through the table with every shift (so every value of Partitions(n <= 6) meets every treatment) plus seeded treatments; after EVERY caller operation the value is compared with a model kept in storage the library never saw, FreqValue is compared before and after, and the enumeration is judged against the reference as everywhere else. " +
			"Each iterator is driven for at most |expected|+1+3 calls of Next; every Value is copied at once and compared with a naive reference list (exact sequence where an order is documented, as a set otherwise), " +
			"then three further Next calls must return false. non-trivial = the expected family has >= 2 objects and, for predicate-driven iterators, the predicate rejected at least one argument; distinct = hash of (constructor, parameters, predicate)",
		Assumptions: []string{
			"oracle: refiter (plain recursions, validated by self-checks against binomials, factorials, multinomials, Bell and partition numbers, textbook lists and independent order comparators); shares nothing with the library",
			"documented orders judged: Combinations lexicographic, CombinationsColex colexicographic, LexicographicPermutations / MultisetPermutations / RestrictedPrefixPermutations lexicographic, Partitions lexicographic in the restricted growth string, IntegerPartitions reverse lexicographic; " +
				"Permutations (Heap), MultisetCombinations (Algorithm Q), TopologicalSorts, PermutationsByPattern, Product and RestrictedPrefixProduct document no order and are compared as sets (the order seen is recorded)",
			"0-versus-1-object conventions that the documentation leaves open (Permutations(0), LexicographicPermutations(0), MultisetPermutations(all zero), IntegerPartitions(0), Product(), RestrictedPrefixPermutations(0), PermutationsByPattern(0), TopologicalSorts(0)) are recorded, not judged: nothing or the single empty object are both accepted, exhaustion must still be sticky",
			"termination inside one Next: a callback invoked more than 16 x (size of the whole unrestricted search tree + 64) times during a single Next is reported as runaway (bounded-progress restatement, decided by a call count, no clock); a Next that spins without calling back is left to the CPU watchdog (key|budget)",
			"predicates are pure functions of the contents of their argument; less(i,j) is false for i >= j as the documentation asks",
			"caller-owned arguments: Product, RestrictedPrefixProduct (source: deep copy of n in case it changes) and MultisetPermutations (expands freq into its own array) take a private copy, so overwriting or reusing the caller's slice after construction must not change the enumeration (judged); MultisetCombinations keeps the caller's m and nothing documents otherwise (recorded as not_judged:MultisetCombinations_aliases_m); returned values are overwritten only where the documentation allows it (Partitions, MultisetCombinations.Value)",
			"a slice argument is an input: no constructor documents that it writes to its argument, so the library changing the caller's slice (or the caller's array behind it) is judged (argument-modified), and iterators built later from the same, untouched slice have to enumerate the family of the values the caller put there; a value handed out by Value / FreqValue / InverseValue has to stay the same object until its OWN iterator is advanced (advancing other iterators must not change it)",
			"families too large to exhaust: only a prefix is judged. Where the order is documented the prefix is compared exactly with an independently generated reference prefix; where it is not (Product, RestrictedPrefixProduct, Permutations, PermutationsByPattern, TopologicalSorts, MultisetCombinations) any distinct members are accepted and only a non-member, a repeat or reported exhaustion is a violation; the cardinalities used to pick the cases are computed with math/big",
			"results documented as the caller's (Partitions.Value, MultisetCombinations.Value): judged - after each write / append / re-slice by the caller the value holds exactly what the caller put there (parts of one result do not overlap, not even in their spare capacity), FreqValue and a second Value call for the same object are unaffected, the enumeration goes on as the reference says, the modified value is unchanged after other iterators were operated and (Partitions, whose results are fresh objects) after further Next calls of its own iterator; " +
				"recorded, not judged - an earlier result after Value of the same iterator was called again (MultisetCombinations documents a buffer; 'safe to modify' does not say 'a copy'), a MultisetCombinations result after Next of its own iterator, the spare capacity of returned slices. Results documented as not to be modified are never modified",
			"nothing is demanded of Value() after exhaustion (it is not called); the block order inside Partitions values and the element order inside MultisetCombinations values are not judged",
		},
		Run:            run,
		MinEvaluations: map[string]int{"quick": 15000, "thorough": 30000},
		MinNontrivial:  map[string]int{"quick": 4000, "thorough": 8000},
		RequiredObs:    req,
	})
}

// ---------------------------------------------------------------------------
// callback monitor

type cbMon struct {
	limit      int64 // calls allowed within one Next
	inNext     int64
	total      int64
	rejected   int64
	maxNext    int64
	illegal    string
	runaway    bool
	lookAheads int64 // calls in which the predicate also wrote behind its argument
	oddArgs    int64 // legal but unusual (less(i,j) with i >= j)
	phase      *string
}

type runawaySentinel struct{ calls int64 }

func (m *cbMon) enter() {
	m.inNext++
	m.total++
	if m.inNext > m.limit {
		m.runaway = true
		panic(runawaySentinel{m.inNext})
	}
}

func (m *cbMon) during() string {
	if m.phase == nil {
		return ""
	}
	return " during " + *m.phase
}

func (m *cbMon) startNext() {
	if m == nil {
		return
	}
	if m.inNext > m.maxNext {
		m.maxNext = m.inNext
	}
	m.inNext = 0
}

// ---------------------------------------------------------------------------
// predicates on prefixes

type pred struct {
	name   string
	seeded bool
	f      func(p []int) bool // pure
	after  func(p []int)      // what the predicate does besides answering when the LIBRARY calls it (never run on reference data)
}

func mix(h uint64) uint64 {
	h ^= h >> 30
	h *= 0xbf58476d1ce4e5b9
	h ^= h >> 27
	h *= 0x94d049bb133111eb
	h ^= h >> 31
	return h
}

func hashPred(salt uint64, num, den int, depthMask uint) pred {
	name := fmt.Sprintf("hash(salt=%x,p=%d/%d,depths=%b)", salt, num, den, depthMask)
	return pred{name: name, seeded: true, f: func(p []int) bool {
		if len(p) == 0 || depthMask&(1<<uint(len(p)%16)) == 0 {
			return true
		}
		h := salt
		for _, v := range p {
			h = mix(h ^ uint64(v+1))
		}
		return int(h%uint64(den)) < num
	}}
}

// fixedPreds: a seed-independent table (size is the length of the full objects).
func fixedPreds(size int) []pred {
	return []pred{
		{name: "all", f: func(p []int) bool { return true }},
		{name: "none", f: func(p []int) bool { return len(p) == 0 }},
		{name: "last-not-0", f: func(p []int) bool { return len(p) == 0 || p[len(p)-1] != 0 }},
		{name: "descending", f: func(p []int) bool { return len(p) < 2 || p[len(p)-2] > p[len(p)-1] }},
		{name: "sum-even-or-short", f: func(p []int) bool {
			s := 0
			for _, v := range p {
				s += v
			}
			return len(p) < 2 || s%2 == 0
		}},
		{name: "full-length-last-even", f: func(p []int) bool { return len(p) < size || len(p) == 0 || p[len(p)-1]%2 == 0 }},
		{name: "first-is-0", f: func(p []int) bool { return len(p) == 0 || p[0] == 0 }},
	}
}

// lookAhead: the same predicate written the way look-ahead predicates are often written in Go: it tries a candidate for
// the next position with append(a, v), which writes v into the room behind a when there is room.  Its answer is the
// answer of p (it is still a function of the prefix alone) and a[:len(a)] is never written.
func lookAhead(p pred) pred {
	return pred{name: p.name + "+tries-a-next-value-with-append(argument,v)", seeded: p.seeded, f: p.f, after: func(a []int) {
		h := uint64(len(a))
		for _, v := range a {
			h = mix(h*31 + uint64(v))
		}
		b := append(a, 1+int(h%3))
		_ = b
	}}
}

func withLookAhead(ps []pred) []pred {
	out := append([]pred{}, ps...)
	for _, p := range ps {
		out = append(out, lookAhead(p))
	}
	return out
}

func seededPreds(c *engine.Ctx, stream string, n, count int) []pred {
	var ps []pred
	probs := [][2]int{{3, 4}, {1, 2}, {7, 8}, {15, 16}, {1, 4}, {2, 3}}
	for i := 0; i < count; i++ {
		rg := c.Rand(stream, n*1000+i)
		pr := probs[i%len(probs)]
		mask := uint(0xffff)
		if i%4 == 3 {
			mask = uint(rg.Intn(0xffff) | 1<<uint((n%16)))
		}
		ps = append(ps, hashPred(rg.U64()&0xffffffffff, pr[0], pr[1], mask))
	}
	return ps
}

// ---------------------------------------------------------------------------
// cases

type iface struct {
	next  func() bool
	value func() []int
	aux   func() []int
}

type kase struct {
	api        string
	witness    string
	convKey    string // parameter description used for the convention observation (default: witness)
	prefixOnly bool   // want holds only the first objects of a family too large to exhaust: drive len(want) calls, exhaustion is not reached
	detail     map[string]interface{}
	build      func() iface // calls the constructor
	want       [][]int      // canonical objects, in the documented order if ordered
	ordered    bool
	orderName  string
	convention bool                            // 0-vs-1 objects undocumented
	canon      func(raw []int) ([]int, string) // canonical form of a yielded value ("" = fine)
	auxName    string                          // FreqValue / InverseValue
	auxCheck   func(canon, aux []int) string   // "" = consistent
	mon        *cbMon
	mustPanic  bool // the parameter is outside the documented domain (documented to panic): recorded only
	predDriven bool

	// prefix of a family too large to exhaust whose order is not documented: the first prefixCount objects are judged by
	// membership and distinctness (prefixOnly is set as well; want is unused)
	member      func(canon []int) string // "" = a member of the family
	prefixCount int
	sizeNote    string  // why the family has more than prefixCount objects
	likely      [][]int // the prefix in the order the library is seen to use today (recorded, never judged)
	likelyName  string

	mk             func(arg []int) iface // constructors that take a slice / variadic ints: construct from this caller-owned slice
	scribbleValues bool                  // overwrite every returned Value (only where the documentation says that is safe)
	recordOnly     string                // not judged: only record under this observation name whether the reference was matched
}

type trace struct {
	raw       [][]int
	aux       [][]int
	phase     string
	calls     int
	exhausted bool
	further   int
	lateTrue  int // which further call returned true (1..3), 0 = none
	lateValue []int
	over      bool
}

func cpInts(a []int) []int { return append(make([]int, 0, len(a)), a...) }

func enc(a []int) string {
	b := make([]byte, 2*len(a))
	for i, v := range a {
		if v < -1 || v > 65000 {
			return "\xff\xff\xff" + fmt.Sprint(a)
		}
		b[2*i] = byte((v + 1) >> 8)
		b[2*i+1] = byte(v + 1)
	}
	return string(b)
}

func show(objs [][]int, max int) string {
	var sb strings.Builder
	fmt.Fprintf(&sb, "%d objects:", len(objs))
	for i, o := range objs {
		if i >= max {
			sb.WriteString(" ...")
			break
		}
		fmt.Fprintf(&sb, " %v", o)
	}
	return sb.String()
}

func showAround(objs [][]int, at, radius int) string {
	lo, hi := at-radius, at+radius+1
	if lo < 0 {
		lo = 0
	}
	if hi > len(objs) {
		hi = len(objs)
	}
	var sb strings.Builder
	fmt.Fprintf(&sb, "%d objects; [%d..%d) =", len(objs), lo, hi)
	for i := lo; i < hi; i++ {
		fmt.Fprintf(&sb, " %v", objs[i])
	}
	return sb.String()
}

type runner struct {
	c    *engine.Ctx
	seen map[string]bool // api|kind reported in this unit
}

func newRunner(c *engine.Ctx) *runner { return &runner{c: c, seen: map[string]bool{}} }

func (r *runner) violate(k *kase, kind, observed, expected string) {
	dk := k.api + "|" + kind
	if r.seen[dk] {
		r.c.Obs("further_witnesses_of_a_kind_already_reported_in_the_unit", 1)
		return
	}
	r.seen[dk] = true
	d := map[string]interface{}{"constructor": k.api, "parameters": k.witness, "expected_objects": len(k.want)}
	for kk, v := range k.detail {
		d[kk] = v
	}
	r.c.Violation(k.api+"|"+kind+"|"+k.witness, d, observed, expected)
}

// stepper drives one iterator call by call: the enumeration (at most expected+1 successful calls of Next, every Value
// copied at once), then three further calls after exhaustion was reported.  The single-iterator cases run one stepper to
// its end inside one guarded call; the sessions of session.go schedule several of them.
type stepper struct {
	k        *kase
	tr       *trace
	it       iface
	expected int
	late     int
	done     bool
	// the slices last handed out by Value / the auxiliary view (NOT copies), to see whether driving OTHER iterators changes them
	held, heldAux []int
}

func expectedOf(k *kase) int {
	switch {
	case k.convention:
		return 1
	case k.member != nil:
		return k.prefixCount
	}
	return len(k.want)
}

// step makes one call of Next (and reads the value it announces); false = the life of this iterator is over.
func (s *stepper) step() bool {
	k, tr, it := s.k, s.tr, s.it
	if s.done {
		return false
	}
	tr.calls++
	if !tr.exhausted {
		tr.phase = fmt.Sprintf("Next call #%d", tr.calls)
		k.mon.startNext()
		if !it.next() {
			tr.exhausted = true
			s.held, s.heldAux = nil, nil
			return true
		}
		tr.phase = fmt.Sprintf("Value after Next call #%d", tr.calls)
		s.held = it.value()
		tr.raw = append(tr.raw, cpInts(s.held))
		if it.aux != nil {
			tr.phase = fmt.Sprintf("%s after Next call #%d", k.auxName, tr.calls)
			s.heldAux = it.aux()
			tr.aux = append(tr.aux, cpInts(s.heldAux))
		}
		if k.prefixOnly && len(tr.raw) == s.expected {
			tr.phase = "done (prefix only)"
			s.done = true
			return false
		}
		if len(tr.raw) > s.expected {
			tr.over = true
			s.done = true
			return false
		}
		return true
	}
	s.late++
	tr.phase = fmt.Sprintf("Next call #%d (call %d after exhaustion was reported)", tr.calls, s.late)
	k.mon.startNext()
	if it.next() {
		tr.lateTrue = s.late
		tr.phase = fmt.Sprintf("Value after Next call #%d", tr.calls)
		tr.lateValue = cpInts(it.value())
		s.done = true
		return false
	}
	tr.further++
	if s.late == 3 {
		k.mon.startNext()
		tr.phase = "done"
		s.done = true
		return false
	}
	return true
}

// drive runs the whole life of one iterator inside a guarded call.
func (r *runner) drive(k *kase, tr *trace) *engine.PanicInfo {
	if k.mon != nil {
		k.mon.phase = &tr.phase
	}
	return r.c.Call(k.api+"("+k.witness+")", func() {
		tr.phase = "constructor"
		s := &stepper{k: k, tr: tr, expected: expectedOf(k)}
		s.it = k.build()
		for s.step() {
		}
	})
}

func (r *runner) run(k *kase) {
	c := r.c
	if c.Stopped() {
		return
	}
	c.Eval(1)
	c.Obs("cases:"+k.api, 1)
	tr := &trace{}
	pi := r.drive(k, tr)
	r.judge(k, tr, pi)
}

// judge gives the verdict on one finished (or panicked) iterator life.
func (r *runner) judge(k *kase, tr *trace, pi *engine.PanicInfo) {
	c := r.c
	if k.mon != nil {
		c.Obs("callback_calls", int(k.mon.total))
		c.Obs("callback_calls:"+k.api, int(k.mon.total))
		c.Obs("callback_rejections", int(k.mon.rejected))
		c.ObsMax("callback_calls_in_one_Next:"+k.api, int(k.mon.maxNext))
		if k.mon.oddArgs > 0 {
			c.Obs("less_called_with_i>=j (allowed by the documentation, answered false)", int(k.mon.oddArgs))
		}
	}
	c.Obs("next_calls", tr.calls)
	c.Obs("objects:"+k.api, len(tr.raw))
	c.ObsMax("objects_in_one_case", len(tr.raw))

	if k.recordOnly != "" {
		same := pi == nil && !tr.over && tr.lateTrue == 0 && len(tr.raw) == len(k.want)
		for i := 0; same && i < len(tr.raw); i++ {
			cv := tr.raw[i]
			if k.canon != nil {
				cv, _ = k.canon(cv)
			}
			if _, ok := indexOf(k.want, cv); !ok {
				same = false
			}
		}
		if same {
			c.Obs(k.recordOnly+":enumeration unaffected", 1)
		} else if pi != nil {
			c.Obs(k.recordOnly+":enumeration affected (panic)", 1)
		} else {
			c.Obs(k.recordOnly+":enumeration affected", 1)
		}
		c.Obs(k.recordOnly, 1)
		return
	}
	if k.mustPanic {
		// a parameter OUTSIDE the documented domain (the constructor says it cannot handle it): the property is
		// silent about it, so whatever happens is recorded and nothing is judged
		c.Obs("outside_domain_cases_seen(not judged)", 1)
		if pi != nil {
			c.Obs("outside_domain:"+k.api+"("+k.witness+") panics in "+tr.phase+": "+pi.Value, 1)
		} else {
			c.Obs(fmt.Sprintf("outside_domain:%s(%s) returns and yields %d objects", k.api, k.witness, len(tr.raw)), 1)
		}
		return
	}
	if pi != nil {
		if k.mon != nil && k.mon.runaway {
			r.violate(k, "runaway", fmt.Sprintf("%s did not return: it invoked the callback more than %d times (the whole unrestricted search tree would need at most %d); %d objects had been yielded, exhaustion reported before: %v",
				tr.phase, k.mon.limit, k.mon.limit/16, len(tr.raw), tr.exhausted),
				"Next returns (false once the family is exhausted)")
			return
		}
		c.Obs("panics_judged", 1)
		want := "no panic"
		if tr.exhausted {
			want = "false (exhaustion already reported)"
		} else if len(tr.raw) == len(k.want) && !k.convention && !k.prefixOnly {
			want = "false (all objects have been yielded)"
		}
		r.violate(k, "panic@"+panicFunc(pi), fmt.Sprintf("%s at %s during %s; yielded before: %s", pi.Value, pi.Site, tr.phase, show(tr.raw, 6)), want)
		return
	}

	want := k.want
	if k.convention {
		// nothing or the single empty object: both accepted, recorded
		ck := k.convKey
		if ck == "" {
			ck = k.witness
		}
		switch {
		case len(tr.raw) == 0:
			want = nil
			c.Obs("convention:"+k.api+"("+ck+") yields nothing", 1)
		default:
			want = [][]int{{}}
			if !tr.over && len(tr.raw[0]) == 0 {
				c.Obs("convention:"+k.api+"("+ck+") yields one empty object", 1)
			}
		}
	}

	if tr.over {
		r.violate(k, "over-production", fmt.Sprintf("Next returned true %d times; %s", len(tr.raw), showAround(tr.raw, len(tr.raw)-1, 3)),
			fmt.Sprintf("exactly %d objects, then false", len(want)))
		return
	}

	// contents
	got := make([][]int, len(tr.raw))
	for i, raw := range tr.raw {
		cv := raw
		if k.canon != nil {
			var why string
			cv, why = k.canon(raw)
			if why != "" {
				r.violate(k, "malformed-value", fmt.Sprintf("object %d: %v: %s", i, raw, why), "a member of the advertised family")
				return
			}
		}
		got[i] = cv
	}
	if k.member != nil {
		r.judgeMembers(k, tr, got)
		return
	}
	wantIdx := make(map[string]int, len(want))
	for i, w := range want {
		wantIdx[enc(w)] = i
	}
	seenAt := make(map[string]int, len(got))
	for i, g := range got {
		e := enc(g)
		if j, dup := seenAt[e]; dup {
			r.violate(k, "repeat", fmt.Sprintf("object %v yielded by Next calls #%d and #%d; %s", tr.raw[i], j+1, i+1, showAround(tr.raw, i, 2)), "every object exactly once")
			return
		}
		seenAt[e] = i
		if _, ok := wantIdx[e]; !ok {
			r.violate(k, "not-in-family", fmt.Sprintf("object %d is %v; %s", i, tr.raw[i], showAround(tr.raw, i, 2)), fmt.Sprintf("only members of the family (%s)", show(want, 6)))
			return
		}
	}
	if len(got) < len(want) {
		var miss []int
		for _, w := range want {
			if _, ok := seenAt[enc(w)]; !ok {
				miss = w
				break
			}
		}
		r.violate(k, "missing", fmt.Sprintf("exhaustion reported after %d objects; %v was never yielded; %s", len(got), miss, show(tr.raw, 8)), fmt.Sprintf("all %d objects of the family", len(want)))
		return
	}
	inOrder := true
	firstDiff := -1
	for i := range got {
		if enc(got[i]) != enc(want[i]) {
			inOrder = false
			firstDiff = i
			break
		}
	}
	if k.ordered {
		if !inOrder {
			r.violate(k, "wrong-order", fmt.Sprintf("position %d holds %v; %s", firstDiff, got[firstDiff], showAround(got, firstDiff, 2)),
				fmt.Sprintf("%s order: position %d holds %v; %s", k.orderName, firstDiff, want[firstDiff], showAround(want, firstDiff, 2)))
			return
		}
	} else if len(got) >= 2 {
		if inOrder {
			c.Obs("undocumented_order_seen:"+k.api+":lexicographic", 1)
		} else {
			c.Obs("undocumented_order_seen:"+k.api+":other", 1)
		}
	}
	c.Obs("objects_compared", len(got))

	// auxiliary views
	if k.auxCheck != nil {
		for i := range got {
			if why := k.auxCheck(got[i], tr.aux[i]); why != "" {
				r.violate(k, k.auxName+"-mismatch", fmt.Sprintf("object %d: Value %v, %s %v: %s", i, tr.raw[i], k.auxName, tr.aux[i], why), k.auxName+" describes the same object as Value")
				return
			}
		}
		c.Obs("aux_values_checked", len(got))
	}

	// exhaustion is sticky
	if tr.lateTrue > 0 {
		r.violate(k, "not-sticky", fmt.Sprintf("after Next had returned false (all %d objects yielded), further call %d of Next returned true with Value %v", len(got), tr.lateTrue, tr.lateValue),
			"false on every further call")
		return
	}
	// callback arguments
	if k.mon != nil && k.mon.illegal != "" {
		r.violate(k, "illegal-callback-argument", k.mon.illegal, "only arguments of the documented form")
		return
	}

	c.Obs("further_next_calls_after_exhaustion", tr.further)
	if k.mon != nil && k.mon.lookAheads > 0 {
		c.Obs("predicate_calls_that_also_appended_a_candidate_to_the_argument:"+k.api, int(k.mon.lookAheads))
	}
	if k.prefixOnly {
		c.Obs("prefix_only_cases:"+k.api, 1)
	}
	if maxOf(firstOf(tr.raw)) >= 64 || len(firstOf(tr.raw)) > 64 {
		c.Obs("cases_with_more_than_64_positions_or_values:"+k.api, 1)
	}

	if len(want) >= 2 && (!k.predDriven || (k.mon != nil && k.mon.rejected > 0)) {
		c.NT(k.api, k.witness)
	}
	if len(got) >= 4 || k.api == "Product" && len(got) >= 2 {
		c.Sample(k.api, map[string]interface{}{"parameters": k.witness, "objects": len(got), "first": firstOf(tr.raw), "last": lastOf(tr.raw), "next_calls": tr.calls})
	}
}

// judgeMembers: the first prefixCount objects of a family that is far too large to exhaust and whose order is not
// documented.  Any prefixCount distinct members are right; what can be wrong is a non-member, a repeat, exhaustion
// reported although the family has more objects than any run can visit, and an auxiliary view that disagrees.
func (r *runner) judgeMembers(k *kase, tr *trace, got [][]int) {
	c := r.c
	seenAt := make(map[string]int, len(got))
	for i, g := range got {
		if why := k.member(g); why != "" {
			r.violate(k, "not-in-family", fmt.Sprintf("object %d is %v: %s; %s", i, tr.raw[i], why, showAround(tr.raw, i, 2)), "only members of the family")
			return
		}
		e := enc(g)
		if j, dup := seenAt[e]; dup {
			r.violate(k, "repeat", fmt.Sprintf("object %v yielded by Next calls #%d and #%d; %s", tr.raw[i], j+1, i+1, showAround(tr.raw, i, 2)), "every object exactly once")
			return
		}
		seenAt[e] = i
	}
	if len(got) < k.prefixCount {
		r.violate(k, "missing", fmt.Sprintf("exhaustion reported after %d objects; %s", len(got), showAround(tr.raw, len(tr.raw)-1, 3)),
			fmt.Sprintf("at least %d objects (%s)", k.prefixCount, k.sizeNote))
		return
	}
	if k.likely != nil {
		same := len(k.likely) >= len(got)
		for i := 0; same && i < len(got); i++ {
			same = enc(got[i]) == enc(k.likely[i])
		}
		if same {
			c.Obs("undocumented_order_seen_on_a_prefix:"+k.api+":"+k.likelyName, 1)
		} else {
			c.Obs("undocumented_order_seen_on_a_prefix:"+k.api+":other", 1)
		}
	}
	c.Obs("objects_compared", len(got))
	if k.auxCheck != nil {
		for i := range got {
			if why := k.auxCheck(got[i], tr.aux[i]); why != "" {
				r.violate(k, k.auxName+"-mismatch", fmt.Sprintf("object %d: Value %v, %s %v: %s", i, tr.raw[i], k.auxName, tr.aux[i], why), k.auxName+" describes the same object as Value")
				return
			}
		}
		c.Obs("aux_values_checked", len(got))
	}
	if k.mon != nil && k.mon.illegal != "" {
		r.violate(k, "illegal-callback-argument", k.mon.illegal, "only arguments of the documented form")
		return
	}
	c.Obs("prefix_only_cases:"+k.api, 1)
	if maxOf(firstOf(tr.raw)) >= 64 || len(firstOf(tr.raw)) > 64 {
		c.Obs("cases_with_more_than_64_positions_or_values:"+k.api, 1)
	}
	if !k.predDriven || (k.mon != nil && k.mon.rejected > 0) {
		c.NT(k.api, k.witness)
	}
	c.Sample(k.api+" (prefix of a huge family)", map[string]interface{}{"parameters": k.witness, "objects": len(got), "first": firstOf(tr.raw), "last": lastOf(tr.raw), "next_calls": tr.calls})
}

// panicFunc names the innermost library function on the stack of a panic
// (without package path, arguments and line number, so that keys stay stable).
func panicFunc(pi *engine.PanicInfo) string {
	const pfx = "github.com/Tom-Johnston/mamba/"
	for _, line := range strings.Split(pi.Stack, "\n") {
		if !strings.HasPrefix(line, pfx) {
			continue
		}
		fn := strings.TrimPrefix(line, pfx)
		if i := strings.LastIndexByte(fn, '('); i > 0 {
			fn = fn[:i]
		}
		return fn
	}
	return engine.SiteNoLine(pi.Site)
}

func maxOf(a []int) int {
	m := -1
	for _, v := range a {
		if v > m {
			m = v
		}
	}
	return m
}

// vecName prints a vector; long ones run-length encoded ("1x64" = 64 entries equal to 1).
func vecName(v []int) string {
	if len(v) <= 12 {
		return ints(v)
	}
	var parts []string
	for i := 0; i < len(v); {
		j := i
		for j < len(v) && v[j] == v[i] {
			j++
		}
		if j-i >= 3 {
			parts = append(parts, fmt.Sprintf("%dx%d", v[i], j-i))
		} else {
			for t := i; t < j; t++ {
				parts = append(parts, fmt.Sprint(v[t]))
			}
		}
		i = j
	}
	return fmt.Sprintf("len%d[%s]", len(v), strings.Join(parts, ","))
}

func indexOf(objs [][]int, o []int) (int, bool) {
	e := enc(o)
	for i, w := range objs {
		if enc(w) == e {
			return i, true
		}
	}
	return -1, false
}

func firstOf(a [][]int) []int {
	if len(a) == 0 {
		return nil
	}
	return a[0]
}

func lastOf(a [][]int) []int {
	if len(a) == 0 {
		return nil
	}
	return a[len(a)-1]
}

// ---------------------------------------------------------------------------
// constructors of cases

func ints(a []int) string {
	s := make([]string, len(a))
	for i, v := range a {
		s[i] = fmt.Sprint(v)
	}
	return "[" + strings.Join(s, ",") + "]"
}

func combinationsCase(n, k int) *kase {
	return &kase{api: "Combinations", witness: fmt.Sprintf("n=%d,k=%d", n, k), ordered: true, orderName: "lexicographic",
		want: refiter.Combinations(n, k),
		build: func() iface {
			it := itertools.Combinations(n, k)
			return iface{next: func() bool { return it.Next() }, value: func() []int { return it.Value() }}
		}}
}

func colexCase(n, k int) *kase {
	return &kase{api: "CombinationsColex", witness: fmt.Sprintf("n=%d,k=%d", n, k), ordered: true, orderName: "colexicographic",
		want: refiter.CombinationsColex(n, k),
		build: func() iface {
			it := itertools.CombinationsColex(n, k)
			return iface{next: func() bool { return it.Next() }, value: func() []int { return it.Value() }}
		}}
}

func multisetCombinationsCase(m []int, k int) *kase { return multisetCombinationsCaseWith(m, k, nil) }

// multisetCombinationsCaseWith: want = the reference list if the caller has computed it for (m,k) before (nil: compute it).
func multisetCombinationsCaseWith(m []int, k int, want [][]int) *kase {
	if want == nil {
		freqs := refiter.MultisetCombinationsFreq(m, k)
		want = make([][]int, len(freqs))
		for i, f := range freqs {
			want[i] = refiter.FreqToMultiset(f)
		}
	}
	mm := cpInts(m)
	var ck *kase
	mk := func(arg []int) iface {
		it := itertools.MultisetCombinations(arg, k)
		return iface{next: func() bool { return it.Next() }, aux: func() []int { return it.FreqValue() }, value: func() []int {
			v := it.Value()
			if ck.scribbleValues {
				// documented: "You may modify the return value."
				c := cpInts(v)
				for i := range v {
					v[i] = -9
				}
				return c
			}
			return v
		}}
	}
	ck = &kase{api: "MultisetCombinations", witness: fmt.Sprintf("m=%s,k=%d", vecName(m), k), want: want, mk: mk,
		detail: map[string]interface{}{"m": mm, "k": k},
		canon: func(raw []int) ([]int, string) {
			s := cpInts(raw)
			sort.Ints(s)
			return s, ""
		},
		auxName: "FreqValue",
		auxCheck: func(cv, aux []int) string {
			if len(aux) != len(mm) {
				return fmt.Sprintf("FreqValue has %d entries for %d types", len(aux), len(mm))
			}
			if fmt.Sprint(refiter.FreqToMultiset(aux)) != fmt.Sprint(cv) {
				return "FreqValue expands to " + fmt.Sprint(refiter.FreqToMultiset(aux))
			}
			return ""
		},
		build: func() iface { return mk(cpInts(mm)) }}
	return ck
}

func permutationsCase(n int) *kase {
	return &kase{api: "Permutations", witness: fmt.Sprintf("n=%d", n), want: refiter.Permutations(n), convention: n == 0,
		build: func() iface {
			it := itertools.Permutations(n)
			return iface{next: func() bool { return it.Next() }, value: func() []int { return it.Value() }}
		}}
}

func lexPermutationsCase(n int) *kase {
	return &kase{api: "LexicographicPermutations", witness: fmt.Sprintf("n=%d", n), want: refiter.Permutations(n), convention: n == 0,
		ordered: true, orderName: "lexicographic",
		build: func() iface {
			it := itertools.LexicographicPermutations(n)
			return iface{next: func() bool { return it.Next() }, value: func() []int { return it.Value() }}
		}}
}

func multisetPermutationsCase(freq []int) *kase {
	k := multisetPermutationsKase(freq)
	k.want = refiter.MultisetPermutations(freq)
	return k
}

// multisetPermutationsKase: the case without its reference list.
func multisetPermutationsKase(freq []int) *kase {
	tot := 0
	for _, f := range freq {
		tot += f
	}
	ff := cpInts(freq)
	mk := func(arg []int) iface {
		it := itertools.MultisetPermutations(arg)
		return iface{next: func() bool { return it.Next() }, value: func() []int { return it.Value() }}
	}
	return &kase{api: "MultisetPermutations", mk: mk, witness: "freq=" + vecName(freq), convention: tot == 0, convKey: "all frequencies zero",
		ordered: true, orderName: "lexicographic", detail: map[string]interface{}{"freq": ff},
		build: func() iface { return mk(cpInts(ff)) }}
}

// Partitions: Value is [][]int; it is flattened (blocks terminated by -1) inside the call and turned into
// the restricted growth string of the partition by the oracle afterwards.
func partitionsCase(n int) *kase {
	k := partitionsKase(n)
	if n >= 1 {
		k.want = refiter.RestrictedGrowthStrings(n)
	}
	return k
}

// partitionsKase: the case without its reference list.
func partitionsKase(n int) *kase {
	var k *kase
	k = &kase{api: "Partitions", witness: fmt.Sprintf("n=%d", n), ordered: true, orderName: "lexicographic (restricted growth strings)",
		mustPanic: n < 1,
		canon: func(raw []int) ([]int, string) {
			var blocks [][]int
			cur := []int{}
			for _, v := range raw {
				if v == -1 {
					blocks = append(blocks, cur)
					cur = []int{}
					continue
				}
				cur = append(cur, v)
			}
			return refiter.RGSOfPartition(n, blocks)
		},
		build: func() iface {
			it := itertools.Partitions(n)
			return iface{next: func() bool { return it.Next() }, value: func() []int {
				var flat []int
				val := it.Value()
				for _, b := range val {
					for _, x := range b {
						if x == -1 {
							x = -2 // keep the separator unambiguous
						}
						flat = append(flat, x)
					}
					flat = append(flat, -1)
				}
				if k.scribbleValues {
					// documented: "It is safe to modify the output of .Value()."
					for bi, b := range val {
						for i := range b {
							b[i] = -9
						}
						val[bi] = nil
					}
				}
				return flat
			}}
		}}
	return k
}

func integerPartitionsCase(n int) *kase {
	return &kase{api: "IntegerPartitions", witness: fmt.Sprintf("n=%d", n), want: refiter.IntegerPartitions(n), convention: n == 0,
		ordered: true, orderName: "reverse lexicographic",
		build: func() iface {
			it := itertools.IntegerPartitions(n)
			return iface{next: func() bool { return it.Next() }, value: func() []int { return it.Value() }}
		}}
}

func productCase(d []int) *kase {
	dd := cpInts(d)
	mk := func(arg []int) iface {
		it := itertools.Product(arg...)
		return iface{next: func() bool { return it.Next() }, value: func() []int { return it.Value() }}
	}
	return &kase{api: "Product", mk: mk, witness: "factors=" + vecName(d), want: refiter.Product(d), convention: len(d) == 0,
		detail: map[string]interface{}{"factors": dd},
		build:  func() iface { return mk(cpInts(dd)) }}
}

func distinctIn(p []int, n int) bool {
	seen := make([]bool, n)
	for _, v := range p {
		if v < 0 || v >= n || seen[v] {
			return false
		}
		seen[v] = true
	}
	return true
}

func wrap(m *cbMon, p pred, legal func(a []int) string) func([]int) bool {
	return func(a []int) bool {
		m.enter()
		if m.illegal == "" {
			if why := legal(a); why != "" {
				m.illegal = fmt.Sprintf("callback invoked with %v: %s%s", a, why, m.during())
			}
		}
		ok := p.f(a)
		if p.after != nil {
			p.after(a)
			m.lookAheads++
		}
		if !ok {
			m.rejected++
		}
		return ok
	}
}

func restrictedProductCase(d []int, p pred) *kase {
	k := restrictedProductKase(d, p)
	k.want = refiter.FilterPrefixes(refiter.Product(d), p.f)
	return k
}

// restrictedProductKase: the case without its reference list.
func restrictedProductKase(d []int, p pred) *kase {
	dd := cpInts(d)
	nodes := int64(0)
	prod := int64(1)
	for _, v := range d {
		if v < 1 || prod > 1<<40 {
			break
		}
		prod *= int64(v)
		nodes += prod
	}
	m := &cbMon{limit: 16 * (nodes + 64)}
	f := wrap(m, p, func(a []int) string {
		if len(a) < 1 || len(a) > len(dd) {
			return fmt.Sprintf("length %d outside 1..%d", len(a), len(dd))
		}
		for i, v := range a {
			if v < 0 || v >= dd[i] {
				return fmt.Sprintf("coordinate %d is %d, outside 0..%d", i, v, dd[i]-1)
			}
		}
		return ""
	})
	// documented: with no factors the empty tuple is considered to pass
	mk := func(arg []int) iface {
		it := itertools.RestrictedPrefixProduct(f, arg...)
		return iface{next: func() bool { return it.Next() }, value: func() []int { return it.Value() }}
	}
	return &kase{api: "RestrictedPrefixProduct", mk: mk, witness: fmt.Sprintf("factors=%s,pred=%s", vecName(d), p.name), mon: m, predDriven: true,
		detail: map[string]interface{}{"factors": dd, "predicate": p.name},
		build:  func() iface { return mk(cpInts(dd)) }}
}

func permTreeNodes(n int) int64 {
	nodes, t := int64(0), int64(1)
	for l := 1; l <= n && nodes < 1<<40; l++ {
		t *= int64(n - l + 1)
		nodes += t
	}
	return nodes
}

func restrictedPermutationsCase(n int, all [][]int, p pred) *kase {
	m := &cbMon{limit: 16 * (permTreeNodes(n) + 64)}
	f := wrap(m, p, func(a []int) string {
		if len(a) < 1 || len(a) > n {
			return fmt.Sprintf("length %d outside 1..%d", len(a), n)
		}
		if !distinctIn(a, n) {
			return fmt.Sprintf("not a sequence of distinct elements of 0..%d", n-1)
		}
		return ""
	})
	return &kase{api: "RestrictedPrefixPermutations", witness: fmt.Sprintf("n=%d,pred=%s", n, p.name), mon: m, predDriven: true, convention: n == 0, convKey: "n=0",
		ordered: true, orderName: "lexicographic",
		want:   refiter.FilterPrefixes(all, p.f),
		detail: map[string]interface{}{"n": n, "predicate": p.name},
		build: func() iface {
			it := itertools.RestrictedPrefixPermutations(n, f)
			return iface{next: func() bool { return it.Next() }, value: func() []int { return it.Value() }}
		}}
}

func patternCase(n int, p pred) *kase {
	k := patternKase(n, p)
	// the reference follows the documented DFS literally
	k.want = lexSorted(refiter.PatternDFS(n, p.f))
	return k
}

// patternKase: the case without its reference list.
func patternKase(n int, p pred) *kase {
	nodes, t := int64(0), int64(1)
	for l := 1; l <= n && nodes < 1<<40; l++ {
		t *= int64(l)
		nodes += t
	}
	m := &cbMon{limit: 16 * (nodes + 64)}
	f := wrap(m, p, func(a []int) string {
		if len(a) > n {
			return fmt.Sprintf("length %d above %d", len(a), n)
		}
		if !distinctIn(a, len(a)) {
			return fmt.Sprintf("not a permutation of 0..%d", len(a)-1)
		}
		return ""
	})
	return &kase{api: "PermutationsByPattern", witness: fmt.Sprintf("n=%d,pred=%s", n, p.name), mon: m, predDriven: true, convention: n == 0, convKey: "n=0",
		detail: map[string]interface{}{"n": n, "predicate": p.name},
		build: func() iface {
			it := itertools.PermutationsByPattern(n, f)
			return iface{next: func() bool { return it.Next() }, value: func() []int { return it.Value() }}
		}}
}

func lexSorted(a [][]int) [][]int {
	sort.Slice(a, func(i, j int) bool { return refiter.LexLess(a[i], a[j]) })
	return a
}

type relation struct {
	name   string
	seeded bool
	pairs  [][2]int
}

func relDetail(rel relation) string {
	if len(rel.pairs) > 40 {
		return fmt.Sprintf("%s (%d pairs)", rel.name, len(rel.pairs))
	}
	return relName(rel.pairs)
}

func relName(pairs [][2]int) string {
	s := make([]string, len(pairs))
	for i, e := range pairs {
		s[i] = fmt.Sprintf("%d<%d", e[0], e[1])
	}
	return "{" + strings.Join(s, ",") + "}"
}

func fixedRelations(n int) []relation {
	var chain, complete, star, costar, evenodd, ends, skip [][2]int
	for i := 0; i < n; i++ {
		for j := i + 1; j < n; j++ {
			complete = append(complete, [2]int{i, j})
			if j == i+1 {
				chain = append(chain, [2]int{i, j})
			}
			if i == 0 {
				star = append(star, [2]int{i, j})
			}
			if j == n-1 {
				costar = append(costar, [2]int{i, j})
			}
			if i%2 == 0 && j%2 == 1 {
				evenodd = append(evenodd, [2]int{i, j})
			}
			if j == i+2 {
				skip = append(skip, [2]int{i, j})
			}
		}
	}
	if n >= 2 {
		ends = [][2]int{{0, n - 1}}
	}
	return []relation{{name: "antichain"}, {name: "chain", pairs: chain}, {name: "complete", pairs: complete}, {name: "star-below", pairs: star},
		{name: "star-above", pairs: costar}, {name: "even-below-odd", pairs: evenodd}, {name: "first-below-last", pairs: ends}, {name: "i-below-i+2", pairs: skip}}
}

func seededRelations(c *engine.Ctx, n, count int) []relation {
	var rs []relation
	dens := []float64{0.15, 0.3, 0.5, 0.08, 0.7}
	for i := 0; i < count; i++ {
		rg := c.Rand("TopologicalSorts", n*1000+i)
		d := dens[i%len(dens)]
		var pairs [][2]int
		for a := 0; a < n; a++ {
			for b := a + 1; b < n; b++ {
				if rg.Bool(d) {
					pairs = append(pairs, [2]int{a, b})
				}
			}
		}
		rs = append(rs, relation{name: relName(pairs), seeded: true, pairs: pairs})
	}
	return rs
}

func topologicalCase(n int, all [][]int, rel relation) *kase {
	mat := make([]bool, n*n)
	for _, e := range rel.pairs {
		mat[e[0]*n+e[1]] = true
	}
	f := int64(1)
	for i := 2; i <= n && f < 1<<30; i++ {
		f *= int64(i)
	}
	m := &cbMon{limit: 16 * (f*int64(n*n) + 64)}
	less := func(i, j int) bool {
		m.enter()
		if i < 0 || j < 0 || i >= n || j >= n {
			if m.illegal == "" {
				m.illegal = fmt.Sprintf("less(%d,%d) called: outside 0..%d%s", i, j, n-1, m.during())
			}
			m.rejected++
			return false
		}
		if i >= j {
			m.oddArgs++
			return false
		}
		if !mat[i*n+j] {
			m.rejected++
		}
		return mat[i*n+j]
	}
	return &kase{api: "TopologicalSorts", witness: fmt.Sprintf("n=%d,rel=%s", n, rel.name), mon: m, predDriven: true, convention: n == 0, convKey: "n=0",
		want:    refiter.FilterTopological(all, rel.pairs),
		detail:  map[string]interface{}{"n": n, "less_true_exactly_for": relDetail(rel)},
		auxName: "InverseValue",
		auxCheck: func(cv, aux []int) string {
			inv := refiter.Inverse(cv)
			if fmt.Sprint(inv) != fmt.Sprint(aux) {
				return "the inverse of Value is " + fmt.Sprint(inv)
			}
			return ""
		},
		build: func() iface {
			it := itertools.TopologicalSorts(n, less)
			return iface{next: func() bool { return it.Next() }, value: func() []int { return it.Value() }, aux: func() []int { return it.InverseValue() }}
		}}
}

// vectors calls f with every vector of non-negative integers of the given length and sum (lexicographic).
func vectors(length, sum int, f func(v []int)) {
	v := make([]int, length)
	var rec func(i, rest int)
	rec = func(i, rest int) {
		if i == length-1 {
			v[i] = rest
			f(v)
			return
		}
		for x := 0; x <= rest; x++ {
			v[i] = x
			rec(i+1, rest-x)
		}
	}
	if length == 0 {
		if sum == 0 {
			f(v)
		}
		return
	}
	rec(0, sum)
}

// vectorsUpTo: all lengths 0..maxLen (maxLen 4, or 6 for sums <= 4).
func vectorsOfSum(sum int, f func(v []int)) {
	maxLen := 4
	if sum <= 4 {
		maxLen = 6
	}
	for l := 0; l <= maxLen; l++ {
		vectors(l, sum, func(v []int) { f(cpInts(v)) })
	}
}

func blocks(total, size int, f func(lo, hi int)) {
	for lo := 0; lo < total; lo += size {
		hi := lo + size
		if hi > total {
			hi = total
		}
		f(lo, hi)
	}
}

// ---------------------------------------------------------------------------

func run(c *engine.Ctx) {
	c.Unit("oracle-selfcheck", func() {
		if err := refiter.SelfCheck(); err != nil {
			c.Inconclusive("refiter self-check failed: " + err.Error())
		}
		c.Obs("oracle_selfchecks_passed", 1)
	})

	maxN := c.Pick(8, 9)
	for n := 0; n <= maxN; n++ {
		n := n
		c.Unit(fmt.Sprintf("n=%d/Combinations", n), func() {
			r := newRunner(c)
			for k := 0; k <= n+3; k++ {
				r.run(combinationsCase(n, k))
			}
		})
		c.Unit(fmt.Sprintf("n=%d/CombinationsColex", n), func() {
			r := newRunner(c)
			for k := 0; k <= n+3; k++ {
				r.run(colexCase(n, k))
			}
		})
		c.Unit(fmt.Sprintf("n=%d/Permutations", n), func() { newRunner(c).run(permutationsCase(n)) })
		c.Unit(fmt.Sprintf("n=%d/LexicographicPermutations", n), func() { newRunner(c).run(lexPermutationsCase(n)) })
		c.Unit(fmt.Sprintf("n=%d/Partitions", n), func() { newRunner(c).run(partitionsCase(n)) })
		c.Unit(fmt.Sprintf("n=%d/IntegerPartitions", n), func() { newRunner(c).run(integerPartitionsCase(n)) })
		c.Unit(fmt.Sprintf("sum=%d/MultisetPermutations", n), func() {
			r := newRunner(c)
			vectorsOfSum(n, func(v []int) { r.run(multisetPermutationsCase(v)) })
		})
		c.Unit(fmt.Sprintf("sum=%d/MultisetCombinations", n), func() {
			r := newRunner(c)
			vectorsOfSum(n, func(v []int) {
				for k := 0; k <= n+2; k++ {
					r.run(multisetCombinationsCase(v, k))
				}
			})
		})
		c.Unit(fmt.Sprintf("sum=%d/Product", n), func() {
			r := newRunner(c)
			vectorsOfSum(n, func(v []int) { r.run(productCase(v)) })
		})
		c.Unit(fmt.Sprintf("sum=%d/RestrictedPrefixProduct", n), func() {
			r := newRunner(c)
			seeded := seededPreds(c, "RestrictedPrefixProduct", n, c.Pick(3, 8))
			vectorsOfSum(n, func(v []int) {
				for _, p := range withLookAhead(fixedPreds(len(v))[:5]) {
					r.run(restrictedProductCase(v, p))
				}
				for i, p := range seeded {
					r.run(restrictedProductCase(v, p))
					if i == 0 {
						r.run(restrictedProductCase(v, lookAhead(p)))
					}
				}
			})
		})

		// predicate-driven permutation iterators
		nSeeded := c.Pick(18, 54)
		per := 64
		switch {
		case n == 6:
			per = 16
		case n == 7:
			per = 4
		case n == 8:
			nSeeded, per = c.Pick(9, 41), 2
		case n == 9:
			nSeeded, per = 25, 1
		}
		fp := withLookAhead(fixedPreds(n))
		total := len(fp) + nSeeded
		for _, api := range []string{"RestrictedPrefixPermutations", "PermutationsByPattern"} {
			api := api
			blocks(total, per, func(lo, hi int) {
				c.Unit(fmt.Sprintf("n=%d/%s/predicates %d-%d", n, api, lo, hi-1), func() {
					r := newRunner(c)
					preds := append(append([]pred{}, fp...), seededPreds(c, api, n, nSeeded)...)
					var all [][]int
					if api == "RestrictedPrefixPermutations" {
						all = refiter.Permutations(n)
					}
					for _, p := range preds[lo:hi] {
						if api == "RestrictedPrefixPermutations" {
							r.run(restrictedPermutationsCase(n, all, p))
						} else {
							r.run(patternCase(n, p))
						}
					}
				})
			})
		}
		fr := fixedRelations(n)
		totalR := len(fr) + nSeeded
		blocks(totalR, per, func(lo, hi int) {
			c.Unit(fmt.Sprintf("n=%d/TopologicalSorts/relations %d-%d", n, lo, hi-1), func() {
				r := newRunner(c)
				rels := append(append([]relation{}, fr...), seededRelations(c, n, nSeeded)...)
				all := refiter.Permutations(n)
				for _, rel := range rels[lo:hi] {
					r.run(topologicalCase(n, all, rel))
				}
			})
		})
	}
	c.Unit("exhaustive-sweeps", func() {
		c.Obs(fmt.Sprintf("exhaustive:every constructor on all parameters of size <= %d (k <= n+3; all factor / multiplicity vectors of length <= 4 with sum <= %d, length <= 6 for sum <= 4)", maxN, maxN), 1)
	})

	// extended ranges of the cheap families
	for n := maxN + 1; n <= c.Pick(11, 14); n++ {
		n := n
		c.Unit(fmt.Sprintf("ext/n=%d/Combinations+Colex", n), func() {
			r := newRunner(c)
			for k := 0; k <= n+2; k++ {
				r.run(combinationsCase(n, k))
				r.run(colexCase(n, k))
			}
		})
	}
	for n := maxN + 1; n <= c.Pick(40, 45); n++ {
		n := n
		c.Unit(fmt.Sprintf("ext/n=%d/IntegerPartitions", n), func() { newRunner(c).run(integerPartitionsCase(n)) })
	}
	for n := maxN + 1; n <= c.Pick(10, 11); n++ {
		n := n
		c.Unit(fmt.Sprintf("ext/n=%d/Partitions", n), func() { newRunner(c).run(partitionsCase(n)) })
	}
	// seeded longer factor / multiplicity vectors
	nv := c.Pick(160, 1200)
	blocks(nv, 20, func(lo, hi int) {
		c.Unit(fmt.Sprintf("seeded/vectors %d-%d", lo, hi-1), func() {
			r := newRunner(c)
			for i := lo; i < hi; i++ {
				rg := c.Rand("vectors", i)
				l := 1 + rg.Intn(7)
				v := make([]int, l)
				size := 1
				for j := range v {
					v[j] = rg.Intn(5)
					if rg.Bool(0.15) {
						v[j] = rg.Intn(9)
					}
					if i%3 != 0 && v[j] == 0 {
						v[j] = 1
					}
					if v[j] > 0 && size*v[j] <= 20000 {
						size *= v[j]
					} else if v[j] > 0 {
						v[j] = 1
					}
				}
				r.run(productCase(v))
				r.run(restrictedProductCase(v, hashPred(rg.U64()&0xffffffffff, 3, 4, 0xffff)))
				sum := 0
				for _, x := range v {
					sum += x
				}
				r.run(multisetCombinationsCase(v, rg.Intn(sum+2)))
				if sum <= 10 {
					r.run(multisetPermutationsCase(v))
				}
			}
		})
	})

	runLarge(c)
	runOwned(c)
	runResults(c)
	runSessions(c)
	runHuge(c)
}

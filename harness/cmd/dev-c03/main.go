package main

import (
	"verif/internal/cli"
	_ "verif/internal/props/c03"
)

func main() { cli.Main() }

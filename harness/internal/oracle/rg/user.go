package rg

import "fmt"

// UserGraph is a graph.Graph implemented OUTSIDE the library the way a user of the library might do it (adjacency
// lists).  Neighbours and Degrees hand out COPIES, as every graph type of the library does: the library itself treats
// what an observer returns as its own (the complement view negates the slice it gets from Degrees in place), so a
// Graph that handed out its stored slices would be outside what the library supports.  Intact confirms that the
// stored lists were not reached some other way.
type UserGraph struct {
	Adj   [][]int
	Deg   []int
	Edges int
}

// User returns g as a UserGraph.
func (g *G) User() *UserGraph {
	u := &UserGraph{Adj: make([][]int, g.N), Deg: make([]int, g.N), Edges: g.M()}
	for v := 0; v < g.N; v++ {
		u.Adj[v] = g.Nbrs(v)
		u.Deg[v] = len(u.Adj[v])
	}
	return u
}

func (u *UserGraph) N() int { return len(u.Adj) }
func (u *UserGraph) M() int { return u.Edges }
func (u *UserGraph) IsEdge(i, j int) bool {
	for _, w := range u.Adj[i] {
		if w == j {
			return true
		}
	}
	return false
}
func (u *UserGraph) Neighbours(v int) []int { return append([]int{}, u.Adj[v]...) }
func (u *UserGraph) Degrees() []int         { return append([]int{}, u.Deg...) }

// Intact compares the stored lists with the model ("" = unchanged).
func (u *UserGraph) Intact(g *G) string {
	if len(u.Adj) != g.N || len(u.Deg) != g.N {
		return fmt.Sprintf("%d adjacency lists, %d degrees, the graph has %d vertices", len(u.Adj), len(u.Deg), g.N)
	}
	for v := 0; v < g.N; v++ {
		want := g.Nbrs(v)
		if len(want) != len(u.Adj[v]) || u.Deg[v] != len(want) {
			return fmt.Sprintf("vertex %d: stored neighbours %v, stored degree %d, the graph has neighbours %v", v, u.Adj[v], u.Deg[v], want)
		}
		for i := range want {
			if want[i] != u.Adj[v][i] {
				return fmt.Sprintf("vertex %d: stored neighbours %v, the graph has %v", v, u.Adj[v], want)
			}
		}
	}
	return ""
}

package c20

// Large instances (hundreds of rows, 10^4..10^6 Write calls per run): sizes
// around 256 / 512 / 1024 rows so that size thresholds inside the writer stack
// (chunked flushing, buffer sizes) are crossed.  The fault-free check is the
// full one; the fault plane is SAMPLED, not exhaustive: the first and last
// few writes plus every position p with p % stride == offset (seeded), in all
// four modes.  Event records "sbase"/"sfault"; the offline checker re-derives
// the verdicts and checks the log against the sampling plan.

import (
	"bytes"
	"fmt"
	"sort"

	"github.com/Tom-Johnston/mamba/tsp"

	"verif/internal/engine"
	"verif/internal/selfcheck"
)

// lightWriter has the fault semantics of recWriter but keeps no bytes: the
// accepted stream is compared on the fly with the fault-free output.
type lightWriter struct {
	ref   []byte
	pos   int
	mode  string
	calls int
	off   int  // bytes accepted
	match bool // the accepted stream is a prefix of ref so far
	fired bool
	// at the moment the fault fired
	firedLen    int
	firedOff    int
	firedMatch  bool
	writesAfter int
	firedRet    int
	firedErr    string
	spec        *faultSpec
}

func (w *lightWriter) accept(p []byte) {
	if w.match && (w.off+len(p) > len(w.ref) || !bytes.Equal(w.ref[w.off:w.off+len(p)], p)) {
		w.match = false
	}
	w.off += len(p)
}

func (w *lightWriter) Write(p []byte) (int, error) {
	idx := w.calls
	w.calls++
	if w.fired {
		w.writesAfter++
	}
	if w.mode != modeNone && idx >= w.pos {
		if w.spec == nil {
			sp, ok := specOf(w.mode)
			if !ok {
				panic("c20: unknown fault mode " + w.mode)
			}
			w.spec = &sp
		}
		if w.spec.active(w.pos, idx) {
			ret, take, err, deviates := w.spec.result(len(p))
			if idx == w.pos {
				if !deviates {
					w.accept(p)
					return len(p), nil
				}
				w.fired = true
				w.firedLen = len(p)
				w.firedOff = w.off
				w.firedMatch = w.match
				w.firedRet = ret
				w.firedErr = errText(err)
			}
			w.accept(p[:take])
			return ret, err
		}
	}
	w.accept(p)
	return len(p), nil
}

type samplePlan struct {
	First  int `json:"first"`
	Last   int `json:"last"`
	Stride int `json:"stride"`
	Offset int `json:"offset"`
}

func (pl samplePlan) has(W, p int) bool {
	return p >= 0 && p < W && (p < pl.First || p >= W-pl.Last || (pl.Stride > 0 && p%pl.Stride == pl.Offset))
}

func (pl samplePlan) positions(W int) []int {
	set := map[int]bool{}
	for p := 0; p < pl.First && p < W; p++ {
		set[p] = true
	}
	for p := W - pl.Last; p < W; p++ {
		if p >= 0 {
			set[p] = true
		}
	}
	if pl.Stride > 0 {
		for p := pl.Offset; p < W; p += pl.Stride {
			set[p] = true
		}
	}
	r := make([]int, 0, len(set))
	for p := range set {
		r = append(r, p)
	}
	sort.Ints(r)
	return r
}

type sampledInstance struct {
	n      int
	fam    string
	target int // about this many strided positions per mode
}

// sampledInstances: the large instances of a tier.  "small" keeps the rows
// short (one digit per cell); "stair" has 1..19 digit cells (several padding
// writes per cell, wide rows).
func sampledInstances(thorough bool) []sampledInstance {
	if !thorough {
		return []sampledInstance{
			{256, "small", 180}, {257, "small", 180}, {300, "small", 180}, {513, "small", 150},
			{256, "stair", 100}, {300, "stair", 100},
		}
	}
	r := []sampledInstance{}
	for _, n := range []int{255, 256, 257, 300, 511, 512, 513} {
		r = append(r, sampledInstance{n, "small", 300})
	}
	r = append(r, sampledInstance{1024, "small", 150}, sampledInstance{1025, "small", 150})
	for _, n := range []int{255, 256, 257, 300, 512, 513} {
		r = append(r, sampledInstance{n, "stair", 150})
	}
	return r
}

// sampledCountModes: the count modes of the large instances (one unit per
// instance, a sparse plan per mode: the first and last writes, where the
// header and trailer writes are, plus a few strided positions).
func sampledCountModes(thorough bool) []string {
	if thorough {
		return joinModes(fullCountModes, countModes, []string{errValueMode(modeFullErr, "io.EOF"), errValueMode(modeTransient, "io.EOF")})
	}
	return []string{modeFullErr, modeFullErrPerm, modeFullKeptPerm}
}

func sampledCountTarget(thorough bool) (edge, target int) {
	if thorough {
		return 4, 8
	}
	return 3, 3
}

// sampledModes: every mode the sampled plane injects on an instance.
func sampledModes(thorough bool) []string {
	return joinModes(faultModes, sampledCountModes(thorough))
}

func sampledUnits(c *engine.Ctx) {
	for ii, in := range sampledInstances(c.Thorough()) {
		for mi, mode := range faultModes {
			ii, in, mi, mode := ii, in, mi, mode
			c.Unit(fmt.Sprintf("sampled/n=%d/%s/%s", in.n, in.fam, mode), func() {
				b := sampledBase(c, in, mi == 0)
				if b != nil {
					sampledPlane(c, in, b, mode, 5, in.target, c.Rand("sampled", ii*8+mi))
				}
			})
		}
		ii, in := ii, in
		c.Unit(fmt.Sprintf("sampled/n=%d/%s/counts", in.n, in.fam), func() {
			b := sampledBase(c, in, false)
			if b == nil {
				return
			}
			edge, target := sampledCountTarget(c.Thorough())
			for mi, mode := range sampledCountModes(c.Thorough()) {
				sampledPlane(c, in, b, mode, edge, target, c.Rand("sampled-counts", ii*64+mi))
			}
		})
	}
}

func sampledBase(c *engine.Ctx, in sampledInstance, judgeClean bool) *baseRun {
	c.Obs("sampled_units", 1)
	b := cleanRun(c, in.n, in.fam, 0, in.fam, !judgeClean)
	if b == nil {
		c.Obs("sampled_units_skipped_after_clean_violation", 1)
		return nil
	}
	if judgeClean {
		c.Obs(fmt.Sprintf("sampled(not exhaustive):fault-free output checked n=%d weights=%s", in.n, in.fam), 1)
	}
	return b
}

func sampledPlane(c *engine.Ctx, in sampledInstance, b *baseRun, mode string, edge, target int, rg *engine.Rng) {
	n, fam := in.n, in.fam
	W := len(b.sizes)
	c.ObsMax("sampled:writes_per_run", W)
	stride := W / target
	if stride < 1 {
		stride = 1
	}
	pl := samplePlan{First: edge, Last: edge, Stride: stride, Offset: rg.Intn(stride)}
	positions := pl.positions(W)
	header := string(b.data[:b.ws])
	c.Emit(stream, event{K: "sbase", N: n, WF: fam, W: W, Bytes: len(b.data), WS: b.ws, ES: b.es, Header: header, Modes: []string{mode}, Plan: &pl, ErrNil: true})
	c.Obs(fmt.Sprintf("sampled(not exhaustive):n=%d weights=%s mode=%s positions", n, fam, mode), len(positions))
	// rows of the sampled positions, by block of 256 rows (walk the output once)
	row, scan := 0, b.ws
	wf := func(i, j int) int { return int(weightValue(fam, n, 0, i, j)) }
	for _, p := range positions {
		if c.Stopped() {
			return
		}
		off, l := b.offs[p], b.sizes[p]
		sect := sectionAt(off, l, b.ws, b.es)
		loc := locationAt(off, l, b.ws, b.es, header)
		if sect == "weights" {
			for scan < off {
				if b.data[scan] == '\n' {
					row++
				}
				scan++
			}
			lo := row / 256 * 256
			c.Obs(fmt.Sprintf("sampled(not exhaustive):n=%d positions in rows %d..%d", n, lo, lo+255), 1)
		}
		w := &lightWriter{ref: b.data, pos: p, mode: mode, match: true}
		var err error
		pi := c.Call(fmt.Sprintf("LIB|n=%d,w=%s|%s@%d", n, fam, mode, p), func() { err = tsp.LIB(w, n, wf) })
		ev := event{K: "sfault", N: n, WF: fam, W: W, Fault: &faultDesc{Pos: p, Mode: mode, Len: l, Sect: sect, Off: off},
			Fired: w.fired, NW: w.calls, Got: w.off, ErrNil: err == nil, Ret: w.firedRet, RetErr: w.firedErr, FLen: w.firedLen}
		if err != nil {
			ev.Err = errText(err)
		}
		if pi != nil {
			ev.Panic = pi.String()
		}
		if w.fired {
			ev.PrefixOK = w.firedMatch && w.firedOff == off
		}
		ev.Complete = w.match && w.off == len(b.data)
		c.Emit(stream, ev)
		c.Obs("sampled:fault_runs:"+mode, 1)
		c.Obs("sampled:section:"+sect, 1)
		if w.fired {
			obsCovered(c.Obs, "sampled:returned:"+retClass(w.firedRet, w.firedLen, w.firedErr)+":covering:", sect)
		}
		if coversWeights(sect) {
			c.NTDistinct(1)
		}
		det := func() caseDetail {
			return caseDetail{N: n, Weights: fam, Matrix: matrixRows(fam, n, 0), Fault: mode, Pos: p, W: W, Sect: sect,
				Note: fmt.Sprintf("write %d of %d (row %d) carries %q in the fault-free run; %d of %d bytes were accepted in the injected run", p, W, row, clip(string(b.data[off:off+l]), 60), w.off, len(b.data))}
		}
		if pi != nil && brokenCount(mode) {
			c.Obs("sampled:"+mode+":LIB_panicked(count outside 0..len(p), not judged):at="+sect, 1)
			continue
		}
		if pi != nil {
			c.Violation("LIB|panic-on-write-failure|"+engine.SiteNoLine(pi.Site)+"|"+mode+"|at="+loc, det(), pi.String(), "a non-nil error")
			continue
		}
		if !w.fired {
			if !nilErrorMode(mode) {
				c.Obs("fault_not_reached", 1)
			}
			continue
		}
		if !judgedMode(mode) {
			res := "nil"
			if err != nil {
				res = "error"
			}
			c.Obs("sampled:"+mode+":LIB_returned_"+res+":at="+sect, 1)
			continue
		}
		if err == nil {
			c.Violation(violKey(mode, loc), det(), fmt.Sprintf("LIB returned nil although write %d failed (n=%d, %d of %d bytes reached the writer)", p, n, w.off, len(b.data)), "a non-nil error")
		}
	}
}

// sampledFinish is the offline checker of the sampled plane (a pure function
// of the "sbase"/"sfault" records).  It returns the number of judged records.
func sampledFinish(s *engine.Super, sbases, sfaults []event) int64 {
	type modeInfo struct {
		plan samplePlan
		seen map[int]bool
	}
	type info struct {
		ev    event
		modes map[string]*modeInfo
	}
	bases := map[string]*info{}
	for _, ev := range sbases {
		id := baseID(ev.N, ev.WF, ev.RS)
		bi := bases[id]
		if bi == nil {
			bi = &info{ev: ev, modes: map[string]*modeInfo{}}
			bases[id] = bi
		} else if bi.ev.W != ev.W || bi.ev.Bytes != ev.Bytes || bi.ev.Header != ev.Header || bi.ev.WS != ev.WS || bi.ev.ES != ev.ES {
			s.Inconclusive(fmt.Sprintf("event log: two different fault-free records for the sampled instance n=%d weights=%s", ev.N, ev.WF))
			return 0
		}
		if ev.Plan == nil || len(ev.Modes) != 1 {
			s.Inconclusive("event log: sampled base record without a plan")
			return 0
		}
		if _, dup := bi.modes[ev.Modes[0]]; dup {
			s.AddObs("offline:duplicate_base_records", 1)
			continue
		}
		bi.modes[ev.Modes[0]] = &modeInfo{plan: *ev.Plan, seen: map[int]bool{}}
	}
	judged, viol := int64(0), int64(0)
	for i := range sfaults {
		ev := &sfaults[i]
		bi := bases[baseID(ev.N, ev.WF, ev.RS)]
		if bi == nil || ev.Fault == nil || ev.W != bi.ev.W {
			s.Inconclusive(fmt.Sprintf("event log: sampled injected run without a matching fault-free record (n=%d weights=%s)", ev.N, ev.WF))
			return judged
		}
		mi := bi.modes[ev.Fault.Mode]
		if mi == nil || !mi.plan.has(bi.ev.W, ev.Fault.Pos) {
			s.Inconclusive(fmt.Sprintf("event log: sampled injected run outside the plan (n=%d mode=%s pos=%d)", ev.N, ev.Fault.Mode, ev.Fault.Pos))
			return judged
		}
		if mi.seen[ev.Fault.Pos] {
			s.AddObs("offline:duplicate_fault_records", 1)
			continue
		}
		mi.seen[ev.Fault.Pos] = true
		sect := sectionAt(ev.Fault.Off, ev.Fault.Len, bi.ev.WS, bi.ev.ES)
		if sect != ev.Fault.Sect {
			s.Inconclusive(fmt.Sprintf("event log: section of position %d re-derived as %s, recorded %s", ev.Fault.Pos, sect, ev.Fault.Sect))
			return judged
		}
		if ev.Panic != "" {
			s.AddObs("offline:panics", 1)
			continue
		}
		if !ev.Fired {
			if !nilErrorMode(ev.Fault.Mode) {
				s.AddObs("offline:fault_not_reached", 1)
			}
			continue
		}
		if !ev.PrefixOK {
			s.AddObs("offline:prefix_differs_from_fault_free_run", 1)
		}
		if !checkRet(s, ev) {
			return judged
		}
		if !judgedMode(ev.Fault.Mode) {
			s.AddObs(notJudgedObs("offline:sampled:", ev.Fault.Mode), 1)
			continue
		}
		judged++
		s.AddObs("offline:sampled:judged:"+ev.Fault.Mode, 1)
		if ev.ErrNil {
			viol++
			loc := locationAt(ev.Fault.Off, ev.Fault.Len, bi.ev.WS, bi.ev.ES, bi.ev.Header)
			s.Violation(violKey(ev.Fault.Mode, loc), ev, fmt.Sprintf("LIB returned nil although write %d failed (n=%d, %d of %d bytes reached the writer)", ev.Fault.Pos, ev.N, ev.Got, bi.ev.Bytes), "a non-nil error")
		}
	}
	s.AddObs("offline:sampled:records_judged", judged)
	s.AddObs("offline:sampled:verdicts_violated", viol)
	// the log against the plan, and the plan against the tier
	complete := int64(0)
	allOK := true
	for _, in := range sampledInstances(s.Thorough()) {
		bi := bases[baseID(in.n, in.fam, 0)]
		for _, m := range sampledModes(s.Thorough()) {
			var mi *modeInfo
			if bi != nil {
				mi = bi.modes[m]
			}
			if mi == nil {
				allOK = false
				continue
			}
			if want := len(mi.plan.positions(bi.ev.W)); len(mi.seen) != want {
				allOK = false
				s.Inconclusive(fmt.Sprintf("event log: sampled instance n=%d weights=%s mode=%s has %d of %d planned positions", in.n, in.fam, m, len(mi.seen), want))
				continue
			}
			complete++
		}
	}
	s.AddObs("sampled(not exhaustive):(instance, mode) pairs complete against their sampling plan in the event log", complete)
	if !allOK && s.Obs("sampled_units_skipped_after_clean_violation") == 0 {
		s.Inconclusive("event log: the sampled plane of this tier is not complete")
	}
	return judged
}

func init() {
	selfcheck.Add("c20: light writer = recording writer", func() error {
		chunks := [][]byte{[]byte("abc"), {}, []byte("defgh"), []byte("i"), {}, []byte("jklm")}
		var ref []byte
		for _, ch := range chunks {
			ref = append(ref, ch...)
		}
		for _, mode := range append([]string{modeNone}, allInProcessModes()...) {
			for p := 0; p < len(chunks); p++ {
				a := &recWriter{pos: p, mode: mode}
				b := &lightWriter{ref: ref, pos: p, mode: mode, match: true}
				for _, ch := range chunks {
					n1, e1 := a.Write(ch)
					n2, e2 := b.Write(ch)
					if n1 != n2 || e1 != e2 {
						return fmt.Errorf("mode %q pos %d: (%d,%v) vs (%d,%v)", mode, p, n1, e1, n2, e2)
					}
				}
				if a.fired != b.fired || a.firedOff != b.firedOff || a.firedLen != b.firedLen || len(a.data) != b.off || len(a.sizes) != b.calls ||
					a.writesAfter != b.writesAfter || bytes.Equal(a.data, ref) != (b.match && b.off == len(ref)) {
					return fmt.Errorf("mode %q pos %d: states differ", mode, p)
				}
			}
		}
		pl := samplePlan{First: 5, Last: 5, Stride: 7, Offset: 3}
		ps := pl.positions(40)
		want := []int{0, 1, 2, 3, 4, 10, 17, 24, 31, 35, 36, 37, 38, 39}
		if fmt.Sprint(ps) != fmt.Sprint(want) {
			return fmt.Errorf("sample plan: %v", ps)
		}
		for p := 0; p < 40; p++ {
			in := false
			for _, q := range ps {
				in = in || q == p
			}
			if in != pl.has(40, p) {
				return fmt.Errorf("sample plan membership of %d", p)
			}
		}
		return nil
	})
}

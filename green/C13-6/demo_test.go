// Demonstration for C13 change 6 (Search tolerates a nil *Dawg and nil Searcher values).
//
// Run from the repository root (public API only):
//
//	cp /tmp/green-out/C13/6/demo_test.go dawg/zz_c13_demo6_test.go
//	GOFLAGS=-mod=mod GOPROXY=off GOSUMDB=off GOTOOLCHAIN=local go test -vet=off -count=1 -timeout 120s -run 'TestC13Demo6' -v ./dawg
//	rm dawg/zz_c13_demo6_test.go
//
// TestC13Demo6Property checks the property itself (exact words, ranks, order, repeatability) and passes on
// both trees.  TestC13Demo6Incidental asserts the OLD behaviour for arguments outside the domain (a nil
// Searcher in the list, a nil *Dawg receiver: Search used to die with a nil pointer dereference): it PASSES
// on the clean tree and FAILS with the change.
package dawg_test

import (
	"fmt"
	"reflect"
	"sort"
	"strings"
	"testing"

	"github.com/Tom-Johnston/mamba/dawg"
)

var c13d6Words = []string{"", "bat", "bit", "but", "cat", "cats", "cot", "cut", "cuts", "dot", "tab", "tub"}

func c13d6Dawg(t *testing.T) *dawg.Dawg {
	ws := append([]string(nil), c13d6Words...)
	sort.Strings(ws)
	bs := make([][]byte, len(ws))
	for i := range ws {
		bs[i] = []byte(ws[i])
	}
	d, err := dawg.New(bs)
	if err != nil {
		t.Fatal(err)
	}
	return d
}

func c13d6Pattern(pat string, blank byte) (words []string, ranks []int) {
	ws := append([]string(nil), c13d6Words...)
	sort.Strings(ws)
	for r, w := range ws {
		if len(w) != len(pat) {
			continue
		}
		ok := true
		for i := range w {
			if pat[i] != blank && pat[i] != w[i] {
				ok = false
			}
		}
		if ok {
			words = append(words, w)
			ranks = append(ranks, r)
		}
	}
	return
}

func c13d6Strings(b [][]byte) (s []string) {
	for _, w := range b {
		s = append(s, string(w))
	}
	return
}

func TestC13Demo6Property(t *testing.T) {
	d := c13d6Dawg(t)
	for _, pat := range []string{"c?t", "?u?", "???", "cat?", "", "x??", "c?ts"} {
		wantW, wantR := c13d6Pattern(pat, '?')
		ps := dawg.NewPatternSearcher([]byte(pat), '?')
		for rep := 0; rep < 2; rep++ {
			w, r := d.Search(ps)
			if !reflect.DeepEqual(c13d6Strings(w), wantW) || !(len(r) == 0 && len(wantR) == 0 || reflect.DeepEqual(r, wantR)) {
				t.Fatalf("pattern %q rep %d: got %q %v want %q %v", pat, rep, c13d6Strings(w), r, wantW, wantR)
			}
		}
		// with a second searcher: an anagram searcher made of blanks only accepts every word of that length
		as := dawg.NewAnagramSearcher([]byte("???"), '?')
		w, r := d.Search(ps, as)
		var ww []string
		var rr []int
		if len(pat) == 3 {
			ww, rr = wantW, wantR
		}
		if !reflect.DeepEqual(c13d6Strings(w), ww) || !(len(r) == 0 && len(rr) == 0 || reflect.DeepEqual(r, rr)) {
			t.Fatalf("pattern %q with anagram ???: got %q %v want %q %v", pat, c13d6Strings(w), r, ww, rr)
		}
	}
}

// c13d6Call runs f and reports the panic value as text ("" if f returned).
func c13d6Call(f func()) (panicked string) {
	defer func() {
		if r := recover(); r != nil {
			panicked = fmt.Sprint(r)
		}
	}()
	f()
	return ""
}

func TestC13Demo6Incidental(t *testing.T) {
	d := c13d6Dawg(t)
	ps := dawg.NewPatternSearcher([]byte("c?t"), '?')

	var w [][]byte
	var r []int
	p := c13d6Call(func() { w, r = d.Search(ps, nil) })
	fmt.Printf("Search(pattern, nil): panic=%q result=%q %v\n", p, c13d6Strings(w), r)
	if !strings.Contains(p, "nil pointer dereference") {
		t.Errorf("Search(pattern, nil) used to panic with a nil pointer dereference, now: panic=%q result=%q %v", p, c13d6Strings(w), r)
	}

	p = c13d6Call(func() { w, r = d.Search(nil) })
	fmt.Printf("Search(nil): panic=%q result=%q %v\n", p, c13d6Strings(w), r)
	if !strings.Contains(p, "nil pointer dereference") {
		t.Errorf("Search(nil) used to panic with a nil pointer dereference, now: panic=%q and %d words", p, len(w))
	}

	var none *dawg.Dawg
	p = c13d6Call(func() { w, r = none.Search() })
	fmt.Printf("(*Dawg)(nil).Search(): panic=%q result=%q %v\n", p, c13d6Strings(w), r)
	if !strings.Contains(p, "nil pointer dereference") {
		t.Errorf("a nil *Dawg used to make Search panic with a nil pointer dereference, now: panic=%q result=%q %v", p, c13d6Strings(w), r)
	}
}

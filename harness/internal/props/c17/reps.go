package c17

// Representations of one set value.  The mathematical value "empty set" can
// reach a sortints function as the nil slice (the zero value of SortedInts), as
// an empty non-nil slice with or without capacity, or as whatever a library
// function returned for an empty result; a non-empty set can be an exactly sized
// slice, a slice with spare capacity, or a library result.  The property speaks
// about sets, so every function must give the same answer for every
// representation in every argument position.  This file sweeps the
// representations through all argument positions of all functions.

import (
	"fmt"

	"github.com/Tom-Johnston/mamba/ints"
	"github.com/Tom-Johnston/mamba/sortints"

	"verif/internal/engine"
	"verif/internal/oracle/refset"
)

// rep makes a fresh operand holding vals (nil result: the library call that was to make it failed and has been reported).
type rep struct {
	name string
	lib  bool // made by a call into the library (a result fed back in as an argument)
	vals []int
	mk   func(m *mon) *emb
}

// fromLibrary runs f (one or a few library calls that must yield the set want) and wraps the result.
func (m *mon) fromLibrary(api, expr string, want []int, f func() sortints.SortedInts) *emb {
	c := m.c
	defer func(cl string) { m.class = cl }(m.class)
	m.class = "representations"
	if m.muted(api) {
		return nil
	}
	var got sortints.SortedInts
	pi := c.Call(api+"|"+expr, func() { got = f() })
	c.Eval(1)
	detail := map[string]interface{}{"expression": expr}
	if pi != nil {
		m.viol(api, "panic", expr+"|"+engine.SiteNoLine(pi.Site), detail, pi.String(), show(want))
		return nil
	}
	if !m.result(api, expr, detail, got, refset.Of(want...)) {
		return nil
	}
	if len(got) == 0 {
		if got == nil {
			c.Obs("reps:empty_library_result_is_nil", 1)
		} else {
			c.Obs("reps:empty_library_result_is_non_nil", 1)
		}
		if cap(got) > 0 {
			c.Obs("reps:empty_library_result_has_capacity", 1)
		}
	}
	return watch(got)
}

func si(v ...int) sortints.SortedInts { return sortints.SortedInts(append([]int{}, v...)) }

// emptyReps: every way the harness knows of obtaining the empty set.
func emptyReps() []rep {
	h := func(name string, f func() *emb) rep {
		return rep{name: name, vals: []int{}, mk: func(*mon) *emb { return f() }}
	}
	l := func(api, expr string, f func() sortints.SortedInts) rep {
		return rep{name: expr, lib: true, vals: []int{}, mk: func(m *mon) *emb { return m.fromLibrary(api, expr, nil, f) }}
	}
	return []rep{
		h("nil", func() *emb { return watch(nil) }),
		h("SortedInts{}", func() *emb { return watch(sortints.SortedInts{}) }),
		h("make(SortedInts,0,4)", func() *emb { return embed(nil, 4) }),
		h("buf[3:3:3]", func() *emb { return embed(nil, 0) }),
		h("full[len(full):]", func() *emb { f := si(1, 2, 3); return watch(f[len(f):]) }),
		h("set[:0]", func() *emb { e := embed([]int{1, 2, 3}, 0); e.s = e.s[:0]; return e }),
		l("NewSortedInts", "NewSortedInts()", func() sortints.SortedInts { return sortints.NewSortedInts() }),
		l("Range", "Range(3,3,1)", func() sortints.SortedInts { return sortints.Range(3, 3, 1) }),
		l("Range", "Range(-2,-2,-1)", func() sortints.SortedInts { return sortints.Range(-2, -2, -1) }),
		l("Intersection", "Intersection({0,2},{1,3})", func() sortints.SortedInts { return sortints.Intersection(si(0, 2), si(1, 3)) }),
		l("Intersection", "Intersection(nil,{1})", func() sortints.SortedInts { return sortints.Intersection(nil, si(1)) }),
		l("SetMinus", "SetMinus({1,2},{1,2})", func() sortints.SortedInts { return sortints.SetMinus(si(1, 2), si(1, 2)) }),
		l("SetMinus", "SetMinus(nil,nil)", func() sortints.SortedInts { return sortints.SetMinus(nil, nil) }),
		l("XOR", "XOR({4},{4})", func() sortints.SortedInts { return sortints.XOR(si(4), si(4)) }),
		l("XOR", "XOR(nil,nil)", func() sortints.SortedInts { return sortints.XOR(nil, nil) }),
		l("Union", "Union(nil,nil)", func() sortints.SortedInts { return sortints.Union(nil, nil) }),
		l("Union", "Union({},nil)", func() sortints.SortedInts { return sortints.Union(sortints.SortedInts{}, nil) }),
		l("Complement", "Complement(0,nil)", func() sortints.SortedInts { return sortints.Complement(0, nil) }),
		l("Complement", "Complement(2,{0,1})", func() sortints.SortedInts { return sortints.Complement(2, si(0, 1)) }),
		l("Remove", "s={4};s.Remove(4)", func() sortints.SortedInts { s := si(4); s.Remove(4); return s }),
		l("Remove", "s={1,4};s.Remove(1);s.Remove(4)", func() sortints.SortedInts { s := si(1, 4); s.Remove(1); s.Remove(4); return s }),
		l("Remove", "var s;s.Remove(1)", func() sortints.SortedInts { var s sortints.SortedInts; s.Remove(1); return s }),
		l("Add", "var s;s.Add()", func() sortints.SortedInts { var s sortints.SortedInts; s.Add(); return s }),
		l("Union_method", "var s;s.Union(nil)", func() sortints.SortedInts { var s sortints.SortedInts; s.Union(nil); return s }),
		l("Union_method", "s={};s.Union({})", func() sortints.SortedInts { s := sortints.SortedInts{}; s.Union(sortints.SortedInts{}); return s }),
	}
}

// valueReps: a few non-empty sets, each exactly sized, with spare capacity, and as a library result.
func valueReps() []rep {
	var r []rep
	for _, v := range [][]int{{0}, {-1, 3}, {0, 1, 2}} {
		v := v
		r = append(r,
			rep{name: show(v) + "exact", vals: v, mk: func(*mon) *emb { return embed(v, 0) }},
			rep{name: show(v) + "spare2", vals: v, mk: func(*mon) *emb { return embed(v, 2) }},
			rep{name: "NewSortedInts(" + show(v) + "+repeat)", lib: true, vals: v, mk: func(m *mon) *emb {
				return m.fromLibrary("NewSortedInts", "NewSortedInts("+show(v)+"+repeat)", v, func() sortints.SortedInts {
					return sortints.NewSortedInts(append([]int{v[0]}, v...)...)
				})
			}},
		)
	}
	return r
}

// repPair runs every two-operand function and the Union method on (ra, rb).
func (m *mon) repPair(ra, rb rep) {
	c := m.c
	wit := "a=<" + ra.name + ">,b=<" + rb.name + ">"
	detail := map[string]interface{}{"a": ra.vals, "b": rb.vals, "a_made_by": ra.name, "b_made_by": rb.name}
	ok := true
	mk := func() (*emb, *emb) {
		ea, eb := ra.mk(m), rb.mk(m)
		if ea == nil || eb == nil {
			ok = false
			return embed(ra.vals, 0), embed(rb.vals, 0)
		}
		return ea, eb
	}
	ea, eb := mk()
	if !ok {
		return
	}
	// what this pair adds to the sweeps over values
	if len(ea.s) == 0 && len(eb.s) == 0 && (ea.s == nil) != (eb.s == nil) {
		c.Obs("reps:pairs_of_empty_sets_one_nil_one_non_nil", 1)
	}
	if ea.s == nil || eb.s == nil {
		c.Obs("reps:pairs_with_a_nil_operand", 1)
	}
	if (ra.lib && len(ea.s) == 0) || (rb.lib && len(eb.s) == 0) {
		c.Obs("reps:empty_library_result_fed_back_as_argument", 1)
	}
	first := true
	m.class = ""
	m.binaryOn(ra.vals, rb.vals, func() (*emb, *emb) {
		if first {
			first = false
			return ea, eb
		}
		return mk()
	}, wit, detail, true)
	if !ok {
		return
	}
	if !m.muted("Union_method") {
		er, eb := mk()
		if ok {
			if er.s == nil {
				c.Obs("reps:nil_receiver", 1)
			}
			m.unionMethodOn(ra.vals, rb.vals, er, eb, wit+",receiver=a", detail)
		}
	}
	if ra.name != rb.name {
		c.NTDistinct(1)
	}
	c.Obs("reps:pairs", 1)
}

// repUnary: one value in every representation through the one-set functions, the mutators and ints.Sort.
func (m *mon) repUnary(r rep, argLists []rep) {
	c := m.c
	ok := true
	mk := func() *emb {
		e := r.mk(m)
		if e == nil {
			ok = false
			return embed(r.vals, 0)
		}
		return e
	}
	name := "<" + r.name + ">"
	for _, n := range []int{0, 1, 3} {
		if e := mk(); ok {
			m.complementOn(n, r.vals, e, fmt.Sprintf("n=%d,a=%s", n, name))
		}
	}
	for _, x := range []int{0, -1, 3} {
		m.removeAndContainsOn(r.vals, x, mk, fmt.Sprintf("recv=%s,x=%d", name, x), map[string]interface{}{"receiver": r.vals, "receiver_made_by": r.name, "x": x})
		if !ok {
			return
		}
	}
	if e := mk(); ok {
		m.newSortedOn(r.vals, e, "args="+name, true)
	}
	// the value as receiver of Add with every kind of argument list, and as the argument list of Add
	for _, al := range argLists {
		er, ex := mk(), al.mk(m)
		if !ok || ex == nil {
			return
		}
		if er.s == nil {
			c.Obs("reps:nil_receiver", 1)
		}
		if ex.s == nil {
			c.Obs("reps:nil_argument_list", 1)
		}
		wit := "recv=" + name + ",args=<" + al.name + ">"
		m.addOn(r.vals, al.vals, er, ex, wit, map[string]interface{}{"receiver": r.vals, "receiver_made_by": r.name, "args": al.vals, "args_made_by": al.name}, true)
	}
	// ints.Sort on the value (a set is sorted already: nothing may move, nothing may be written around it)
	m.class = ""
	if e := mk(); ok && !m.muted("ints.Sort") {
		a := []int(e.s)
		wit := "a=" + name
		pi := c.Call("ints.Sort|"+wit, func() { ints.Sort(a) })
		c.Eval(1)
		c.Obs("sort:Sort", 1)
		if pi != nil {
			m.viol("ints.Sort", "panic", wit+"|"+engine.SiteNoLine(pi.Site), map[string]interface{}{"input": r.vals, "made_by": r.name}, pi.String(), "sorted slice")
		} else if d := e.changed(e.s, len(r.vals)); d != "" {
			m.viol("ints.Sort", "wrong", wit, map[string]interface{}{"input": r.vals, "made_by": r.name}, d, "a sorted slice stays as it is")
		}
	}
	c.Obs("reps:values_through_unary_functions", 1)
}

func repUnits(c *engine.Ctx) {
	c.Unit("representations/pairs", func() {
		m := newMon(c)
		empties, values := emptyReps(), valueReps()
		for _, ra := range empties {
			for _, rb := range empties {
				m.repPair(ra, rb)
			}
			for _, rv := range values {
				m.repPair(ra, rv)
				m.repPair(rv, ra)
			}
			if c.Stopped() {
				return
			}
		}
		c.Obs(fmt.Sprintf("exhaustive:all two-operand functions and the Union method on every ordered pair of %d representations of the empty set, and on each of them with %d non-empty operands in either position", len(empties), len(values)), 1)
	})
	c.Unit("representations/unary", func() {
		m := newMon(c)
		empties, values := emptyReps(), valueReps()
		argLists := append([]rep{}, empties...)
		for _, v := range [][]int{{5}, {5, 5}, {2, 1}, {0, 7, 0}} {
			v := v
			argLists = append(argLists, rep{name: show(v), vals: v, mk: func(*mon) *emb { return embed(v, 1) }})
		}
		for _, r := range empties {
			m.repUnary(r, argLists)
		}
		// non-empty receivers with every representation of the empty argument list
		for _, r := range values {
			m.repUnary(r, empties)
		}
		c.Obs(fmt.Sprintf("exhaustive:Complement/ContainsSingle/Remove/NewSortedInts/Add (as receiver, with %d argument lists, and as argument list)/ints.Sort on %d representations of the empty set", len(argLists), len(empties)), 1)
	})
}

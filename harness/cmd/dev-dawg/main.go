// dev-dawg links the three DAWG monitors (C12, C13, C14) for development runs.
package main

import (
	"verif/internal/cli"
	_ "verif/internal/props/c12"
	_ "verif/internal/props/c13"
	_ "verif/internal/props/c14"
)

func main() { cli.Main() }

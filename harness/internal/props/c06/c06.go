// Package c06 monitors every graph value the library constructs (constructors,
// named families, random generators, decoders, transformations, live views):
// each returned value is read through the whole Graph interface and judged by
// harness code for well-formedness and against an independent definition
// (DESIGN.md section 4, C06).
package c06

import (
	"fmt"
	"strconv"
	"strings"

	"github.com/Tom-Johnston/mamba/graph"
	"github.com/Tom-Johnston/mamba/sortints"

	"verif/internal/engine"
	"verif/internal/gen"
	"verif/internal/oracle/codec"
	"verif/internal/oracle/rg"
)

func init() {
	engine.Register(&engine.Property{
		ID:    "C06",
		Level: "exploration",
		Rule: "every value returned by NewDense, NewSparse, the named families (parameter grids from the smallest accepted size up to about 40 vertices in the quick tier and about 250 in the thorough tier), RandomGraph, RandomTree, PruferDecode (ALL codes n <= 6 quick / n <= 8 thorough, seeded codes up to n = 40), MulticodeDecode, Graph6Decode, Sparse6Decode (strings written by the harness's own encoders), " +
			"ComplementDense, Complement view, LineGraphDense, InducedSubgraph view, SplitEdge, Contract (inputs: ALL labelled graphs n <= 5 with all vertex pairs, all classes n = 6 (thorough: and n = 7) in a random labelling, seeded graphs up to 40 vertices; as DenseGraph, SparseGraph and as live views) is read through N, IsEdge (all ordered pairs incl. the diagonal), M, Degrees, Neighbours " +
			"and judged: loop-free, symmetric, M / Degrees / Neighbours equal to the adjacency, edge set equal to the independent definition (labelled where the documentation fixes the numbering, else up to isomorphism); caller slices are modified after NewDense / NewSparse / decoders and the value re-read; views are re-read after the underlying graph changed. " +
			"CHAINS of Contract / SplitEdge applied to ONE value: all chains of <= 3 steps (all vertex pairs) on all labelled graphs n <= 4 and on ~80 named generator / decoder values, seeded chains of 2..5 steps on graphs up to 12 vertices, started from values of every origin (struct literal, NewDense, NewSparse, edits, Graph6/Sparse6/Multicode/Pruefer decoders, ComplementDense, LineGraphDense, Copy, InducedSubgraph, RemoveVertex of a supergraph, generators), with a Complement view and an InducedSubgraph view taken before the chain and re-read after the steps. " +
			"EDIT CHAINS UNDER LIVE VIEWS: Complement(g), InducedSubgraph(g,V) (several), Complement(InducedSubgraph(g,V)), InducedSubgraph(Complement(g),V) are taken and completely read (also vertex by vertex in turn) BEFORE g is edited (AddEdge, RemoveEdge, move an edge, add-then-remove, swap two edges - the last three keep M -, in the seeded part also Contract / SplitEdge / AddVertex / RemoveVertex), and completely re-read after the steps (some steps are deliberately left unread): all chains of <= 2 edits on all labelled graphs n <= 4, seeded chains of 2..6 steps up to 12 vertices. " +
			"INDEPENDENCE of several results: MulticodeDecodeMultiple (all streams of 2 / 3 records over 9 small graphs incl. n = 0, 1, seeded streams of 2..5 records) and source + Copy + InducedSubgraph copies of one graph: one value is edited (AddVertex, RemoveVertex, edge edits, Contract, SplitEdge), all values are re-read against their own models after every step. " +
			"FREEDOMS OF THE FORMATS AND OF THE REPRESENTATIONS (variants.go), for every input graph of the per-graph workload: Sparse6Decode is also fed strings of two independent harness-side writers (codec.Sparse6Alt and the c06 writer, each string certified by the independent reader codec.Sparse6Scan) with the pairs of a vertex in any order, pairs repeated next to and apart from their first occurrence, loop pairs, every way of moving to the next vertex, moves to vertices without pairs, pairs behind a vertex number >= n and the optional header (the result must be the simple graph of the string); MulticodeDecode / MulticodeDecodeMultiple records with the neighbour lists in any order inside a larger buffer; Graph6Decode with the optional header; NewDense with edge bytes 2..255 and NewSparse / PruferDecode with slices that have spare capacity (re-read after the caller reused its buffer). " +
			"EVERY TRANSFORMATION (ComplementDense, Complement, LineGraphDense, InducedSubgraph view and method, SplitEdge, Contract) also gets its argument as rg.DenseVariant / rg.SparseVariant (edge bytes 1..255, dirty spare capacity behind every slice: representation dense-variant / sparse-variant), as a value the library itself made from such inputs (made-dense: NewDense(bytes 1..255), Copy / ComplementDense / InducedSubgraph of a DenseVariant, MulticodeDecode(free order); made-sparse: NewSparse(spare capacity), Sparse6Decode(free-form string), Copy / InducedSubgraph of a SparseVariant) and as a live view over a variant; quick: one of these four representations per graph (a function of the graph) with a few vertex lists / pairs, thorough: all four with all lists / pairs. The same 11 kinds of values are start values of the Contract / SplitEdge chains (where chains run from every start value: all in thorough, one in rotation in quick), of the edit chains under live views and of the copies-of-one-graph workload. " +
			"DECODER INPUT FORMS x SIZE RANGES (thresholds.go): Graph6Decode and Sparse6Decode get, for graphs on n = 0..5, 8, 9, 16, 17, 31..33, 61..66, 100, 126..130, 191..193, 255..257, 300 vertices (dense, sparse, last vertices isolated, complete, edgeless; read through all ordered pairs) and on 1000 and 4227 vertices (thorough: ten sizes around 2048 / 4096), every string of the independent writers (graph6: codec.Graph6 certified by codec.Graph6Parse; sparse6: codec.Sparse6, the c06 writer, codec.Sparse6Alt, the c06 free-form writer, each certified by codec.Sparse6Scan) WITHOUT AND WITH the optional header, i.e. header x 1-byte / 4-byte form of n (also n >= 4096: all three size bytes used); Sparse6Decode also on 4095..300000 vertices (thorough: up to 2^21+1) with a few hundred edges: header x 4-byte / 8-byte form of n (n >= 258048, n >= 262144), both sides of the sizes where k grows. The result must be the encoded graph; values on more than 300 vertices are read through N, M, Degrees, Neighbours of every vertex and IsEdge on the diagonal, on every edge in both orders and on 50000 sampled pairs. Strings whose size field is longer than n needs (not defined by formats.txt) are decoded, too: only well-formedness of a returned graph is judged, what is returned is recorded. " +
			"PARAMETERS BEYOND A MACHINE WORD / A BYTE (thresholds.go): every named family, NewDense / NewSparse(n, nil), RandomGraph, RandomTree, PruferDecode on 63..66, 127..130 (most: and 255..257) vertices / elements: KneserGraph and BipartiteKneserGraph on ground sets of 63..66 and 127..130 elements with k = 0, 1, n-1, n, KneserGraph(64, 2) and (65, 2) (thorough: n = 63..80 with k = 2, (65, 63), BipartiteKneserGraph(64..66, 2) and (65, 63)) against definitions evaluated on element lists (no word masks), hypercubes up to dimension 10 (thorough 12), folded hypercubes up to 11 (13), complete multipartite graphs with parts of 63..256 vertices and with 65 / 129 parts, rook graphs with 63..132 squares (incl. 1 x 64, 65 x 1), flower snarks on 60..132 vertices, circulants on 63..257 vertices with differences 63, 64, 65, -64, n+64, circulant bipartite graphs with sides of 63..200 vertices, generalised Petersen graphs with n = 32..129, friendship graphs on 63..257 vertices; the whole per-graph pipeline (constructors from slices, decoders, free-form inputs, every transformation in every representation) on sparse graphs with 63, 64, 65 and 129 vertices (thorough: all of 63..66, 127..130, 255..257). " +
			"non-trivial = judged value with n >= 3 and m >= 1; distinct = hash of (API, representation, concrete input)",
		Assumptions: []string{
			"oracle: rg.G bit matrix + definitions in ref.go written from the documentation strings / textbook definitions (self-checked against published counts and automorphism group orders)",
			"parameters outside the documented domain are not called: Cycle n < 3, GeneralisedPetersenGraph k = 0, FlowerSnark even n or n = 1, RandomTree n < 2, CirculantGraph n = 0, CirculantBipartiteGraph m = 0 with differences, negative sizes, probabilities outside [0,1]",
			"input graphs for the transformations are built by filling the exported struct fields directly (rg.Dense / rg.Sparse / rg.DenseVariant / rg.SparseVariant); AddEdge / RemoveEdge on those (used to update the graph under a live view) belong to C05; a library-made argument (made-dense / made-sparse) is used only if it conforms to its model (the constructor itself is judged separately)",
			"a sparse6 string with repeated pairs or loop pairs (a multigraph in formats.txt) must decode to its underlying simple graph: the result type is a simple graph, the property demands loop-freeness and a pair {x,v} says that x and v are adjacent",
			"decoder inputs whose size field is longer than the size needs (a small n in the 4-byte / 8-byte form) are not graph6 / sparse6 strings by formats.txt: only the well-formedness of a returned graph is judged; the 8-byte form of graph6 with a size that needs it (n >= 258048: 5.5 GB of edge bits) and sparse6 with n >= 2^24 are not run",
			"values with more than 300 vertices returned by the decoders are not read through all ordered pairs: IsEdge is asked about the diagonal, every edge of the encoded graph in both orders and 50000 sampled pairs; Neighbours is read for every vertex and must be equal to the encoded graph",
			"the numbering is taken as documented for CompletePartiteGraph (parts consecutive), KneserGraph (colex), CirculantGraph, CirculantBipartiteGraph (a_i = i, b_j = n+j), GeneralisedPetersenGraph (u_i = i, v_i = n+i); for every other family a differently numbered isomorphic graph is accepted",
		},
		Run:            run,
		MinEvaluations: map[string]int{"quick": 1000000, "thorough": 10000000},
		MinNontrivial:  map[string]int{"quick": 500000, "thorough": 5000000},
		RequiredObs: []string{
			"judged:NewDense", "judged:NewSparse", "judged:PruferDecode", "judged:MulticodeDecode", "judged:Graph6Decode", "judged:Sparse6Decode",
			"judged:ComplementDense|dense", "judged:ComplementDense(Complement view)|dense", "judged:ComplementDense(Complement view)|sparse", "judged:Complement|dense", "judged:Complement|sparse", "judged:LineGraphDense|dense", "judged:InducedSubgraph|dense", "judged:InducedSubgraph|sparse",
			"judged:SplitEdge|dense", "judged:SplitEdge|sparse", "judged:Contract|dense", "judged:Contract|sparse", "judged:RandomGraph", "judged:RandomTree",
			"probe:NewDense caller slice modified afterwards", "probe:NewSparse caller slices modified afterwards",
			"probe:Complement view re-read after the graph changed", "probe:InducedSubgraph view re-read after the graph changed",
			"families_equal_to_reference_numbering",
			"judged:chain|dense", "judged:chain|sparse", "chains of length 2", "chains of length 3",
			"chains with a vertex added right after a non-last vertex was removed",
			"edit chains under live views", "probe:views re-read after edits that changed edges but not the number of edges", "probe:views re-read after several unread edit steps", "probe:views read vertex by vertex in turn",
			"judged:edit-chain|dense|view I", "judged:edit-chain|sparse|view I", "judged:edit-chain|dense|view C", "judged:edit-chain|dense|view CI", "judged:edit-chain|dense|view IC",
			"probe:MulticodeDecodeMultiple: other results re-read after one was edited", "probe:copies-of-one-graph|dense: other results re-read after one was edited", "probe:copies-of-one-graph|sparse: other results re-read after one was edited",
			"probe:chain: Complement view taken before the chain re-read after a step", "probe:chain: InducedSubgraph view taken before the chain re-read after a step",
			// freedoms of the formats (harness-written inputs the library's own writers never produce)
			"probe:Sparse6Decode of a harness-written free-form string", "probe:Sparse6Decode string with the pairs of a vertex not in ascending order",
			"probe:Sparse6Decode string with a pair repeated right after itself", "probe:Sparse6Decode string with a repeated pair apart from its first occurrence",
			"probe:Sparse6Decode string with a loop pair", "probe:Sparse6Decode string with a move to a vertex that gets no pair", "probe:Sparse6Decode string with pairs behind a vertex number >= n",
			"probe:Sparse6Decode string with the >>sparse6<< header", "probe:Graph6Decode string with the >>graph6<< header",
			"probe:MulticodeDecode record with a neighbour list not in ascending order", "MulticodeDecodeMultiple records with a neighbour list not in ascending order",
			"probe:NewDense with edge bytes other than 0/1", "probe:NewSparse with lists that have spare capacity",
			// representation variants and library-made values as arguments of every transformation
			"judged:ComplementDense|dense-variant", "judged:ComplementDense|sparse-variant", "judged:ComplementDense|made-dense", "judged:ComplementDense|made-sparse",
			"judged:Complement|dense-variant", "judged:Complement|sparse-variant", "judged:Complement|made-dense", "judged:Complement|made-sparse",
			"judged:LineGraphDense|dense-variant", "judged:LineGraphDense|sparse-variant", "judged:LineGraphDense|made-dense", "judged:LineGraphDense|made-sparse",
			"judged:InducedSubgraph|dense-variant", "judged:InducedSubgraph|sparse-variant", "judged:InducedSubgraph|made-dense", "judged:InducedSubgraph|made-sparse",
			"judged:InducedSubgraph(copying method)|dense-variant", "judged:InducedSubgraph(copying method)|sparse-variant",
			"judged:SplitEdge|dense-variant", "judged:SplitEdge|sparse-variant", "judged:SplitEdge|made-dense", "judged:SplitEdge|made-sparse",
			"judged:Contract|dense-variant", "judged:Contract|sparse-variant", "judged:Contract|made-dense", "judged:Contract|made-sparse",
			"transformation arguments made by: NewDense(n, edge bytes 1..255)", "transformation arguments made by: Sparse6Decode(free-form string)",
			"transformation arguments made by: MulticodeDecode(neighbour lists in any order)", "transformation arguments made by: NewSparse(unsorted lists with repeats and spare capacity)",
			"input views: over a graph in a representation variant",
			"chains from a start value in a representation variant or made from a free-form input|dense", "chains from a start value in a representation variant or made from a free-form input|sparse",
			"edit chains under live views of a graph in a representation variant or made from a free-form input|dense", "edit chains under live views of a graph in a representation variant or made from a free-form input|sparse",
			// decoder input forms x size ranges (thresholds.go)
			"forms:Graph6Decode|no header|1-byte size", "forms:Graph6Decode|header|1-byte size", "forms:Graph6Decode|no header|4-byte size", "forms:Graph6Decode|header|4-byte size",
			"forms:Graph6Decode|no header|4-byte size with n >= 4096 (all three size bytes used)", "forms:Graph6Decode|header|4-byte size with n >= 4096 (all three size bytes used)",
			"forms:Sparse6Decode|no header|1-byte size", "forms:Sparse6Decode|header|1-byte size", "forms:Sparse6Decode|no header|4-byte size", "forms:Sparse6Decode|header|4-byte size",
			"forms:Sparse6Decode|no header|8-byte size", "forms:Sparse6Decode|header|8-byte size",
			"forms:Sparse6Decode|no header|4-byte size with n >= 4096 (all three size bytes used)", "forms:Sparse6Decode|header|4-byte size with n >= 4096 (all three size bytes used)",
			"forms:Sparse6Decode|no header|8-byte size with n >= 262144", "forms:Sparse6Decode|header|8-byte size with n >= 262144",
			"forms:Graph6Decode|the empty string",
			"judged:large values read through N, M, Degrees, Neighbours of every vertex, IsEdge on the diagonal, on every edge in both orders and on sampled pairs",
			// parameters beyond a machine word / a byte (thresholds.go)
			"KneserGraph on a ground set of more than 64 elements", "KneserGraph on a ground set of more than 64 elements with k >= 2", "BipartiteKneserGraph on a ground set of more than 64 elements",
			"family_cases on more than 64 vertices:NewDense(nil)", "family_cases on more than 64 vertices:NewSparse(nil)", "family_cases on more than 64 vertices:CompleteGraph", "family_cases on more than 64 vertices:Path",
			"family_cases on more than 64 vertices:Cycle", "family_cases on more than 64 vertices:Star", "family_cases on more than 64 vertices:CompletePartiteGraph", "family_cases on more than 64 vertices:RookGraph",
			"family_cases on more than 64 vertices:FlowerSnark", "family_cases on more than 64 vertices:HypercubeGraph", "family_cases on more than 64 vertices:FoldedHypercubeGraph", "family_cases on more than 64 vertices:KneserGraph",
			"family_cases on more than 64 vertices:BipartiteKneserGraph", "family_cases on more than 64 vertices:CirculantGraph", "family_cases on more than 64 vertices:CirculantBipartiteGraph",
			"family_cases on more than 64 vertices:GeneralisedPetersenGraph", "family_cases on more than 64 vertices:FriendshipGraph", "family_cases on more than 64 vertices:RandomGraph",
			"per-graph pipeline (constructors from slices, decoders, every transformation) on a graph with 63 or more vertices",
		},
	})
}

type runner struct {
	c     *engine.Ctx
	muted map[string]bool
	// exhaustive: the cases of the running enumeration are distinct by
	// construction, so non-trivial ones are counted instead of hashed
	exhaustive bool
	// extra transformation arguments (variants.go)
	vsrc   []variantSource
	madeOK map[string]bool
}

// fail reports a violation with key api|kind[|witness].  A second failure of
// the same (api, kind) in this process is only counted (the first = smallest
// witness is the informative one; avoids cascades of one defect).
func (r *runner) fail(api, kind, witness string, detail interface{}, observed, expected string) {
	mk := api + "|" + kind
	if r.muted[mk] {
		r.c.Obs("repeat_witnesses_not_reported:"+mk, 1)
		return
	}
	r.muted[mk] = true
	key := mk
	if witness != "" {
		key += "|" + witness
	}
	r.c.Violation(key, detail, observed, expected)
}

// check observes h and judges it against model (nil: well-formedness only).
// It returns the snapshot, or nil after a violation.  kindPrefix qualifies the
// phase ("" or e.g. "after-caller-modified-slice:").
func (r *runner) check(api, caseKey, witness, kindPrefix string, detail interface{}, h graph.Graph, model *rg.G) *snap {
	c := r.c
	c.Eval(1)
	c.Obs("judged:"+api, 1)
	s, kind, obs := observe(c, caseKey, h)
	if s == nil {
		r.fail(api, kindPrefix+kind, witness, detail, obs, "the observer returns a value")
		return nil
	}
	if kind, o, e := s.judge(model); kind != "" {
		r.fail(api, kindPrefix+kind, witness, detail, o, e)
		return nil
	}
	if s.n >= 3 && s.m >= 1 {
		if r.exhaustive {
			c.NTDistinct(1)
		} else {
			c.NT(api, caseKey, kindPrefix)
		}
	}
	c.ObsMax("vertices of a judged value", s.n)
	return s
}

func ints(v ...int) string {
	p := make([]string, len(v))
	for i, x := range v {
		p[i] = strconv.Itoa(x)
	}
	return strings.Join(p, ",")
}

// family judges one named-family value: well-formedness, then the edge set
// against ref (labelled; a differently numbered isomorphic graph is accepted
// unless the documentation fixes the numbering).  multiUnit: the grid of this
// family is spread over several units, so the key carries no witness (the
// supervisor keeps the witness of the first unit).
func (r *runner) family(name, params string, multiUnit, docNumbering bool, build func() graph.Graph, ref func() *rg.G) (held bool) {
	c := r.c
	caseKey := name + "(" + params + ")"
	witness := params
	if multiUnit {
		witness = ""
	}
	detail := map[string]interface{}{"api": name, "params": params}
	var h graph.Graph
	if pi := c.Call(caseKey, func() { h = build() }); pi != nil {
		c.Eval(1)
		r.fail(name, "panic@"+engine.SiteNoLine(pi.Site), witness, detail, pi.String(), "a graph (parameters are inside the documented domain)")
		return false
	}
	s := r.check(name, caseKey, witness, "", detail, h, nil)
	if s == nil {
		return false
	}
	own := s.graph()
	want := ref()
	c.Obs("family_cases:"+name, 1)
	if own.N != want.N {
		r.fail(name, "N", witness, detail, fmt.Sprintf("N()=%d", own.N), fmt.Sprintf("%d vertices", want.N))
		return false
	}
	if want.N > 64 {
		// beyond the point where a vertex set / a row of the adjacency fits into one machine word
		c.Obs("family_cases on more than 64 vertices:"+name, 1)
	}
	if own.Equal(want) {
		c.Obs("families_equal_to_reference_numbering", 1)
		return true
	}
	switch isoVerdict(own, want) {
	case 1:
		if docNumbering {
			r.fail(name, "numbering", witness, detail, brief(own), "documented numbering: "+brief(want))
			return false
		}
		c.Obs("isomorphic_to_reference_but_numbered_differently:"+name, 1)
		return true
	case 0:
		r.fail(name, "edges", witness, detail, brief(own), "a graph isomorphic to "+brief(want))
	default:
		c.Inconclusive(fmt.Sprintf("%s: edge set differs from the reference numbering, the cheap invariants agree and the budgeted isomorphism search did not decide (%d vertices)", caseKey, own.N))
	}
	return false
}

// ---------------------------------------------------------------------------
// family grids

type unit struct {
	name string
	f    func(r *runner)
}

func tuples(maxLen, maxVal int, f func(t []int)) {
	var rec func(t []int)
	rec = func(t []int) {
		f(t)
		if len(t) == maxLen {
			return
		}
		for v := 0; v <= maxVal; v++ {
			rec(append(t, v))
		}
	}
	rec(nil)
}

func subsetOf(mask int, vals []int) []int {
	var r []int
	for i, v := range vals {
		if mask>>uint(i)&1 == 1 {
			r = append(r, v)
		}
	}
	return r
}

func familyUnits(c *engine.Ctx) []unit {
	pick := c.Pick
	var us []unit
	add := func(name string, f func(r *runner)) { us = append(us, unit{"family/" + name, f}) }

	add("NewDense(n,nil)", func(r *runner) {
		for n := 0; n <= pick(40, 100); n++ {
			n := n
			r.family("NewDense(nil)", ints(n), false, true, func() graph.Graph { return graph.NewDense(n, nil) }, func() *rg.G { return rg.New(n) })
		}
	})
	add("NewSparse(n,nil)", func(r *runner) {
		for n := 0; n <= pick(40, 100); n++ {
			n := n
			r.family("NewSparse(nil)", ints(n), false, true, func() graph.Graph { return graph.NewSparse(n, nil) }, func() *rg.G { return rg.New(n) })
		}
	})
	add("CompleteGraph", func(r *runner) {
		for n := 0; n <= pick(40, 100); n++ {
			n := n
			r.family("CompleteGraph", ints(n), false, true, func() graph.Graph { return graph.CompleteGraph(n) }, func() *rg.G { return refComplete(n) })
		}
	})
	add("Path", func(r *runner) {
		for n := 0; n <= pick(40, 100); n++ {
			n := n
			r.family("Path", ints(n), false, false, func() graph.Graph { return graph.Path(n) }, func() *rg.G { return refPath(n) })
		}
	})
	add("Cycle", func(r *runner) {
		for n := 3; n <= pick(40, 100); n++ {
			n := n
			r.family("Cycle", ints(n), false, false, func() graph.Graph { return graph.Cycle(n) }, func() *rg.G { return refCycle(n) })
		}
		r.c.Obs("outside_domain_not_called:Cycle(n<3)", 3)
	})
	add("Star", func(r *runner) {
		for n := 0; n <= pick(40, 100); n++ {
			n := n
			r.family("Star", ints(n), false, false, func() graph.Graph { return graph.Star(n) }, func() *rg.G { return refStar(n) })
		}
	})
	// complete multipartite: all tuples of up to 4 parts (parts of size 0 included)
	for first := -1; first <= pick(4, 6); first++ {
		first := first
		add(fmt.Sprintf("CompletePartiteGraph/first=%d", first), func(r *runner) {
			maxV := pick(4, 6)
			if first < 0 {
				r.family("CompletePartiteGraph", "", true, true, func() graph.Graph { return graph.CompletePartiteGraph() }, func() *rg.G { return refMultipartite(nil) })
				for _, t := range [][]int{{40}, {20, 20}, {1, 39}, {13, 0, 14, 13}, {7, 7, 7, 7, 7}, {1, 1, 1, 1, 1, 1, 1, 1, 1, 1, 1, 1}, {2, 3, 4, 5, 6, 7}, {0, 0, 0}, {30, 1, 1, 1}} {
					t := t
					r.family("CompletePartiteGraph", ints(t...), true, true, func() graph.Graph { return graph.CompletePartiteGraph(t...) }, func() *rg.G { return refMultipartite(t) })
				}
				return
			}
			tuples(3, maxV, func(rest []int) {
				t := append([]int{first}, rest...)
				r.family("CompletePartiteGraph", ints(t...), true, true, func() graph.Graph { return graph.CompletePartiteGraph(t...) }, func() *rg.G { return refMultipartite(t) })
			})
		})
	}
	add("RookGraph", func(r *runner) {
		mx := pick(6, 9)
		for a := 0; a <= mx; a++ {
			for b := 0; b <= mx; b++ {
				a, b := a, b
				r.family("RookGraph", ints(a, b), false, false, func() graph.Graph { return graph.RookGraph(a, b) }, func() *rg.G { return refRook(a, b) })
			}
		}
	})
	add("FlowerSnark", func(r *runner) {
		for n := 3; n <= pick(11, 31); n += 2 {
			n := n
			r.family("FlowerSnark", ints(n), false, false, func() graph.Graph { return graph.FlowerSnark(n) }, func() *rg.G { return refFlowerSnark(n) })
		}
		r.c.Obs("outside_domain_not_called:FlowerSnark(even n, n=1)", 1)
	})
	add("HypercubeGraph", func(r *runner) {
		for d := 0; d <= pick(5, 7); d++ {
			d := d
			r.family("HypercubeGraph", ints(d), false, false, func() graph.Graph { return graph.HypercubeGraph(d) }, func() *rg.G { return refHypercube(d) })
		}
	})
	add("FoldedHypercubeGraph", func(r *runner) {
		for d := 1; d <= pick(6, 8); d++ {
			d := d
			r.family("FoldedHypercubeGraph", ints(d), false, false, func() graph.Graph { return graph.FoldedHypercubeGraph(d) }, func() *rg.G { return refFoldedHypercube(d) })
		}
	})
	add("KneserGraph", func(r *runner) {
		for n := 0; n <= pick(7, 9); n++ {
			for k := 0; k <= n; k++ {
				n, k := n, k
				r.family("KneserGraph", ints(n, k), false, true, func() graph.Graph { return graph.KneserGraph(n, k) }, func() *rg.G { return refKneser(n, k) })
			}
		}
	})
	add("BipartiteKneserGraph", func(r *runner) {
		for n := 0; n <= pick(7, 9); n++ {
			for k := 0; k <= n; k++ {
				n, k := n, k
				r.family("BipartiteKneserGraph", ints(n, k), false, false, func() graph.Graph { return graph.BipartiteKneserGraph(n, k) }, func() *rg.G { return refBipartiteKneser(n, k) })
			}
		}
	})
	for n := 1; n <= pick(9, 12); n++ {
		n := n
		add(fmt.Sprintf("CirculantGraph/n=%d", n), func(r *runner) {
			vals := make([]int, n)
			for i := range vals {
				vals[i] = i
			}
			for mask := 0; mask < 1<<uint(n); mask++ {
				d := subsetOf(mask, vals)
				r.family("CirculantGraph", ints(append([]int{n}, d...)...), true, true, func() graph.Graph { return graph.CirculantGraph(n, d...) }, func() *rg.G { return refCirculant(n, d) })
			}
		})
	}
	add("CirculantGraph/boundary", func(r *runner) {
		// negative, zero, >= n and repeated differences
		for n := 1; n <= 40; n++ {
			for _, d := range [][]int{{-1}, {n}, {n + 1}, {-n - 2}, {1, 1}, {2, -2}, {0}, {3 * n, 1}, {-1, -3, 5}, {n / 2}, {n - 1}} {
				n, d := n, d
				r.family("CirculantGraph", ints(append([]int{n}, d...)...), true, true, func() graph.Graph { return graph.CirculantGraph(n, d...) }, func() *rg.G { return refCirculant(n, d) })
			}
		}
		r.c.Obs("outside_domain_not_called:CirculantGraph(n=0)", 1)
	})
	add("CirculantBipartiteGraph", func(r *runner) {
		mx := pick(5, 7)
		for n := 0; n <= mx; n++ {
			n := n
			r.family("CirculantBipartiteGraph", ints(n, 0), false, true, func() graph.Graph { return graph.CirculantBipartiteGraph(n, 0) }, func() *rg.G { return refCirculantBipartite(n, 0, nil) })
			for m := 1; m <= mx; m++ {
				m := m
				vals := make([]int, m)
				for i := range vals {
					vals[i] = i
				}
				for mask := 0; mask < 1<<uint(m); mask++ {
					d := subsetOf(mask, vals)
					r.family("CirculantBipartiteGraph", ints(append([]int{n, m}, d...)...), false, true, func() graph.Graph { return graph.CirculantBipartiteGraph(n, m, d...) }, func() *rg.G { return refCirculantBipartite(n, m, d) })
				}
				for _, d := range [][]int{{-1}, {m}, {m + 1, 1}, {-m - 2}, {1, 1}, {-2, 0}, {5 * m}} {
					d := d
					r.family("CirculantBipartiteGraph", ints(append([]int{n, m}, d...)...), false, true, func() graph.Graph { return graph.CirculantBipartiteGraph(n, m, d...) }, func() *rg.G { return refCirculantBipartite(n, m, d) })
				}
			}
		}
		for _, p := range [][]int{{20, 20, 1, 3}, {1, 39, 0, 7, -1}, {39, 1, 0}, {15, 25, 24, 5, -5}, {30, 7, 1, 2}} {
			n, m, d := p[0], p[1], p[2:]
			r.family("CirculantBipartiteGraph", ints(p...), false, true, func() graph.Graph { return graph.CirculantBipartiteGraph(n, m, d...) }, func() *rg.G { return refCirculantBipartite(n, m, d) })
		}
		r.c.Obs("outside_domain_not_called:CirculantBipartiteGraph(m=0 with differences)", 1)
	})
	add("GeneralisedPetersenGraph", func(r *runner) {
		for n := 3; n <= pick(20, 50); n++ {
			for k := 1; k <= (n-1)/2; k++ {
				n, k := n, k
				r.family("GeneralisedPetersenGraph", ints(n, k), false, true, func() graph.Graph { return graph.GeneralisedPetersenGraph(n, k) }, func() *rg.G { return refGenPetersen(n, k) })
			}
		}
		r.c.Obs("outside_domain_not_called:GeneralisedPetersenGraph(k=0)", 1)
	})
	add("FriendshipGraph", func(r *runner) {
		for n := 0; n <= pick(20, 50); n++ {
			n := n
			r.family("FriendshipGraph", ints(n), false, false, func() graph.Graph { return graph.FriendshipGraph(n) }, func() *rg.G { return refFriendship(n) })
		}
	})
	// RandomGraph: extremes, determinism, well-formedness
	add("RandomGraph", func(r *runner) {
		for n := 0; n <= pick(40, 80); n++ {
			r.randomGraphCases(n)
		}
	})
	add("RandomTree", func(r *runner) {
		for n := 2; n <= pick(40, 80); n++ {
			r.randomTreeCases(n)
		}
		r.c.Obs("outside_domain_not_called:RandomTree(n<2)", 2)
	})
	return us
}

// randomGraphCases: RandomGraph(n, p, seed) for the extremes p = 0 / 1 (the
// edgeless / the complete graph), determinism in the seed and well-formedness.
func (r *runner) randomGraphCases(n int) {
	c := r.c
	for si, seed := range []int64{0, 1, -7, 1 << 40} {
		n, seed := n, seed
		r.family("RandomGraph", fmt.Sprintf("%d,p=0,seed=%d", n, seed), false, true, func() graph.Graph { return graph.RandomGraph(n, 0, seed) }, func() *rg.G { return rg.New(n) })
		r.family("RandomGraph", fmt.Sprintf("%d,p=1,seed=%d", n, seed), false, true, func() graph.Graph { return graph.RandomGraph(n, 1, seed) }, func() *rg.G { return refComplete(n) })
		for _, p := range []float64{0.1, 0.5, 0.9} {
			p := p
			caseKey := fmt.Sprintf("RandomGraph(%d,p=%v,seed=%d)", n, p, seed)
			witness := fmt.Sprintf("%d,p=%v,seed=%d", n, p, seed)
			detail := map[string]interface{}{"api": "RandomGraph", "n": n, "p": p, "seed": seed}
			var h1, h2 graph.Graph
			if pi := c.Call(caseKey, func() { h1 = graph.RandomGraph(n, p, seed); h2 = graph.RandomGraph(n, p, seed) }); pi != nil {
				c.Eval(1)
				r.fail("RandomGraph", "panic@"+engine.SiteNoLine(pi.Site), witness, detail, pi.String(), "a graph")
				continue
			}
			s1 := r.check("RandomGraph", caseKey, witness, "", detail, h1, nil)
			if s1 == nil {
				continue
			}
			s2 := r.check("RandomGraph", caseKey+"#2", witness, "second-call:", detail, h2, s1.graph())
			if s2 == nil {
				continue
			}
			c.Obs("RandomGraph_same_seed_same_graph", 1)
			if si == 0 && n >= 6 {
				m := s1.m
				all := n * (n - 1) / 2
				if m > 0 && m < all {
					c.Obs("RandomGraph_0<p<1_gave_neither_empty_nor_complete", 1)
				}
			}
		}
	}
}

// randomTreeCases: RandomTree(n, seed), n >= 2, is a tree and a function of the seed.
func (r *runner) randomTreeCases(n int) {
	c := r.c
	for _, seed := range []int64{0, 1, 2, -7, 1 << 40} {
		n, seed := n, seed
		caseKey := fmt.Sprintf("RandomTree(%d,seed=%d)", n, seed)
		witness := fmt.Sprintf("%d,seed=%d", n, seed)
		detail := map[string]interface{}{"api": "RandomTree", "n": n, "seed": seed}
		var h1, h2 graph.Graph
		if pi := c.Call(caseKey, func() { h1 = graph.RandomTree(n, seed); h2 = graph.RandomTree(n, seed) }); pi != nil {
			c.Eval(1)
			r.fail("RandomTree", "panic@"+engine.SiteNoLine(pi.Site), witness, detail, pi.String(), "a tree")
			continue
		}
		s1 := r.check("RandomTree", caseKey, witness, "", detail, h1, nil)
		if s1 == nil {
			continue
		}
		t := s1.graph()
		if t.N != n || !isTree(t) {
			r.fail("RandomTree", "not-a-tree", witness, detail, brief(t), fmt.Sprintf("a tree on %d vertices", n))
			continue
		}
		if r.check("RandomTree", caseKey+"#2", witness, "second-call:", detail, h2, t) != nil {
			c.Obs("RandomTree_same_seed_same_tree", 1)
		}
	}
}

// ---------------------------------------------------------------------------
// Pruefer codes

func (r *runner) prufer(p []int, seeded bool) {
	c := r.c
	code := ints(p...)
	caseKey := "PruferDecode([" + code + "])"
	witness := "[" + code + "]"
	if seeded {
		witness = ""
	}
	detail := map[string]interface{}{"api": "PruferDecode", "code": append([]int{}, p...)}
	// the code is a part of a larger buffer of the caller (spare capacity behind it)
	arg := append(append(make([]int, 0, len(p)+3), p...), 0, 1, 0)[:len(p)]
	if p == nil {
		arg = nil
	}
	var h *graph.DenseGraph
	if pi := c.Call(caseKey, func() { h = graph.PruferDecode(arg) }); pi != nil {
		c.Eval(1)
		r.fail("PruferDecode", "panic@"+engine.SiteNoLine(pi.Site), witness, detail, pi.String(), "a tree")
		return
	}
	want := refPrufer(p)
	if !isTree(want) {
		c.Inconclusive("reference Pruefer decoder did not produce a tree for " + code)
		return
	}
	if r.check("PruferDecode", caseKey, witness, "", detail, h, want) == nil {
		return
	}
	if len(arg) > 0 {
		for i := range arg {
			arg[i] = (arg[i] + 1) % (len(arg) + 2)
		}
		r.check("PruferDecode", caseKey, witness, "after-caller-modified-slice:", detail, h, want)
	}
}

func pruferUnits(c *engine.Ctx) []unit {
	var us []unit
	maxN := c.Pick(6, 8)
	for n := 2; n <= maxN; n++ {
		L := n - 2
		if L == 0 {
			us = append(us, unit{"prufer/n=2", func(r *runner) {
				r.prufer(nil, true)
				r.prufer([]int{}, true)
				r.c.Obs("exhaustive:all Pruefer codes n=2", 1)
			}})
			continue
		}
		for first := 0; first < n; first++ {
			n, L, first := n, L, first
			us = append(us, unit{fmt.Sprintf("prufer/n=%d/first=%d", n, first), func(r *runner) {
				p := make([]int, L)
				p[0] = first
				var rec func(i int)
				rec = func(i int) {
					if i == L {
						r.prufer(p, true)
						return
					}
					for v := 0; v < n; v++ {
						p[i] = v
						rec(i + 1)
					}
				}
				rec(1)
				if first == 0 {
					r.c.Obs(fmt.Sprintf("exhaustive:all Pruefer codes n=%d", n), 1)
				}
			}})
		}
	}
	ns := c.Pick(400, 4000)
	per := 100
	for u := 0; u*per < ns; u++ {
		u := u
		us = append(us, unit{fmt.Sprintf("prufer/seeded/%d", u), func(r *runner) {
			for i := u * per; i < (u+1)*per && i < ns; i++ {
				rnd := r.c.Rand("prufer", i)
				n := 3 + rnd.Intn(38)
				p := make([]int, n-2)
				switch i % 3 {
				case 0:
					for k := range p {
						p[k] = rnd.Intn(n)
					}
				case 1: // few distinct entries: high degrees
					a, b := rnd.Intn(n), rnd.Intn(n)
					for k := range p {
						p[k] = a
						if rnd.Bool(0.3) {
							p[k] = b
						}
					}
				default: // a permutation prefix: path-like, uses the last vertex
					q := rnd.Perm(n)
					copy(p, q)
					p[rnd.Intn(len(p))] = n - 1
				}
				r.prufer(p, true)
			}
		}})
	}
	return us
}

// ---------------------------------------------------------------------------
// per-graph pipeline: constructors from slices, decoders, transformations

type pipeOpts struct {
	seeded   bool // keys carry no witness
	allPairs bool // SplitEdge / Contract on every vertex pair (else a few seeded pairs)
	allSets  bool // InducedSubgraph views on every vertex subset (else a few seeded lists)
	light    bool // quick tier, extra representations: fewer lists / pairs, no line graphs of graphs with many edges
}

func gid(g *rg.G) string {
	if g.N <= 62 {
		return strconv.Quote(g.G6())
	}
	return g.Key()
}

func (r *runner) perGraph(g *rg.G, rnd *engine.Rng, o pipeOpts) {
	id := gid(g)
	r.c.Obs(fmt.Sprintf("input graphs n=%02d", g.N), 1)
	r.newDense(g, id)
	r.newSparse(g, id, rnd)
	r.decoders(g, id)
	for _, repr := range []string{"dense", "sparse", "view"} {
		r.transforms(g, id, repr, rnd, o)
		if r.c.Stopped() {
			return
		}
	}
	// inputs that use the freedoms of the formats / of the representations (variants.go); drawn after the
	// base workload so that the cases of the base workload do not depend on them
	r.freedoms(g, id, rnd)
	// the transformations on the representation variants and on values made by the library from free-form
	// inputs: quick = one of the four extra representations per graph (in rotation) with a few vertex
	// lists / pairs; thorough = all four with the options of the base workload
	extra := extraReprs
	xo := o
	if !r.c.Thorough() {
		extra = extraReprs[contentHash(g)%uint64(len(extraReprs)):][:1] // a function of the graph only (replayable)
		xo.allPairs, xo.allSets, xo.light = false, false, true
	}
	for _, repr := range extra {
		r.transforms(g, id, repr, rnd, xo)
		if r.c.Stopped() {
			return
		}
	}
}

func (r *runner) newDense(g *rg.G, id string) {
	c := r.c
	n := g.N
	caseKey := "NewDense|" + id
	detail := map[string]interface{}{"api": "NewDense", "n": n, "graph": id, "edges": g.EdgeBytes()}
	edges := g.EdgeBytes()
	orig := append([]byte{}, edges...)
	var h *graph.DenseGraph
	if pi := c.Call(caseKey, func() { h = graph.NewDense(n, edges) }); pi != nil {
		c.Eval(1)
		r.fail("NewDense", "panic@"+engine.SiteNoLine(pi.Site), "", detail, pi.String(), "a graph")
		return
	}
	if r.check("NewDense", caseKey, "", "", detail, h, g) == nil {
		return
	}
	if len(edges) == 0 {
		return
	}
	// the caller modifies its slice afterwards
	for i := range edges {
		edges[i] ^= 1
	}
	c.Obs("probe:NewDense caller slice modified afterwards", 1)
	if r.check("NewDense", caseKey, "", "after-caller-modified-slice:", detail, h, g) == nil {
		return
	}
	copy(edges, orig)
	// the graph is edited afterwards: the caller's slice must stay as it is
	if pi := c.Call(caseKey+"|toggle", func() {
		if h.IsEdge(0, 1) {
			h.RemoveEdge(0, 1)
		} else {
			h.AddEdge(0, 1)
		}
	}); pi != nil {
		return // editing belongs to C05
	}
	c.Eval(1)
	if string(edges) != string(orig) {
		r.fail("NewDense", "edit-writes-to-caller-slice", "", detail, fmt.Sprintf("caller slice %v after toggling edge 01 of the graph", edges), fmt.Sprintf("%v (the graph uses its own copy)", orig))
	}
}

// messy returns the neighbour lists of g in shuffled order with some entries repeated.
func messy(g *rg.G, rnd *engine.Rng, variant int) []sortints.SortedInts {
	nb := make([]sortints.SortedInts, g.N)
	for v := range nb {
		l := g.Nbrs(v)
		if variant > 0 {
			rnd.Shuffle(l)
			if variant > 1 && len(l) > 0 {
				k := 1 + rnd.Intn(3)
				for i := 0; i < k; i++ {
					l = append(l, l[rnd.Intn(len(l))])
				}
				rnd.Shuffle(l)
			}
		}
		nb[v] = sortints.SortedInts(l)
	}
	return nb
}

func copyLists(nb []sortints.SortedInts) [][]int {
	r := make([][]int, len(nb))
	for i := range nb {
		r[i] = append([]int{}, nb[i]...)
	}
	return r
}

func (r *runner) newSparse(g *rg.G, id string, rnd *engine.Rng) {
	c := r.c
	n := g.N
	for variant := 0; variant < 3; variant++ {
		nb := messy(g, rnd, variant)
		saved := copyLists(nb)
		caseKey := fmt.Sprintf("NewSparse|%s|lists=%v", id, saved)
		if n > 10 {
			caseKey = fmt.Sprintf("NewSparse|%s|variant=%d", id, variant)
		}
		api := "NewSparse"
		c.Obs([]string{"NewSparse_input:sorted", "NewSparse_input:unsorted", "NewSparse_input:unsorted+duplicates"}[variant], 1)
		detail := map[string]interface{}{"api": "NewSparse", "n": n, "graph": id, "neighbourhoods": saved}
		var h *graph.SparseGraph
		if pi := c.Call(caseKey, func() { h = graph.NewSparse(n, nb) }); pi != nil {
			c.Eval(1)
			r.fail(api, "panic@"+engine.SiteNoLine(pi.Site), "", detail, pi.String(), "a graph")
			return
		}
		if r.check(api, caseKey, "", "", detail, h, g) == nil {
			return
		}
		if n == 0 {
			continue
		}
		if variant == 0 {
			// the graph is edited: the caller's lists must stay as they are
			if n >= 2 {
				if pi := c.Call(caseKey+"|toggle", func() {
					for v := 1; v < n; v++ {
						if h.IsEdge(0, v) {
							h.RemoveEdge(0, v)
						} else {
							h.AddEdge(0, v)
						}
					}
					for v := 1; v < n; v++ {
						if h.IsEdge(0, v) {
							h.RemoveEdge(0, v)
						} else {
							h.AddEdge(0, v)
						}
					}
				}); pi != nil {
					continue // editing belongs to C05
				}
				c.Eval(1)
				if fmt.Sprint(copyLists(nb)) != fmt.Sprint(saved) {
					r.fail(api, "edit-writes-to-caller-slice", "", detail, fmt.Sprintf("caller lists %v after toggling edges of the graph twice", copyLists(nb)), fmt.Sprint(saved))
					return
				}
			}
		}
		// the caller modifies its slices afterwards: the contents and the outer slice
		for v := range nb {
			for k := range nb[v] {
				nb[v][k] = (nb[v][k] + 1) % n
			}
		}
		c.Obs("probe:NewSparse caller slices modified afterwards", 1)
		if r.check(api, caseKey, "", "after-caller-modified-slice:", detail, h, g) == nil {
			return
		}
		for v := range nb {
			nb[v] = nil
		}
		if r.check(api, caseKey, "", "after-caller-modified-outer-slice:", detail, h, g) == nil {
			return
		}
	}
}

func (r *runner) decoders(g *rg.G, id string) {
	r.multicode(g, id)
	r.stringDecoders(g, id)
}

// multicode: MulticodeDecode of the record written by refMulticode (n <= 255).
func (r *runner) multicode(g *rg.G, id string) {
	c := r.c
	n := g.N
	if n <= 255 {
		code := refMulticode(g)
		arg := append([]byte{}, code...)
		caseKey := "MulticodeDecode|" + id
		detail := map[string]interface{}{"api": "MulticodeDecode", "graph": id, "code": fmt.Sprint(code)}
		var h *graph.DenseGraph
		if pi := c.Call(caseKey, func() { h = graph.MulticodeDecode(arg) }); pi != nil {
			c.Eval(1)
			r.fail("MulticodeDecode", "panic@"+engine.SiteNoLine(pi.Site), "", detail, pi.String(), "the graph "+brief(g))
		} else if r.check("MulticodeDecode", caseKey, "", "", detail, h, g) != nil && len(arg) > 1 {
			for i := range arg {
				arg[i] = 1
			}
			r.check("MulticodeDecode", caseKey, "", "after-caller-modified-slice:", detail, h, g)
		}
	}
}

// graph6Of is the graph6 string of g: the rg writer for n <= 62, the reference
// codec (which also writes the 4-byte form of n) above.
func graph6Of(g *rg.G) string {
	if g.N <= 62 {
		return g.G6()
	}
	return codec.Graph6(g)
}

// stringDecoders: Graph6Decode / Sparse6Decode of the plain strings of the harness's writers.
func (r *runner) stringDecoders(g *rg.G, id string) {
	c := r.c
	n := g.N
	if n <= maxFullN {
		s := graph6Of(g)
		caseKey := "Graph6Decode|" + strconv.Quote(s)
		detail := map[string]interface{}{"api": "Graph6Decode", "graph6": s}
		var h *graph.DenseGraph
		var err error
		if pi := c.Call(caseKey, func() { h, err = graph.Graph6Decode(s) }); pi != nil {
			c.Eval(1)
			r.fail("Graph6Decode", "panic@"+engine.SiteNoLine(pi.Site), "", detail, pi.String(), "the graph "+brief(g))
		} else if err != nil {
			c.Eval(1)
			r.fail("Graph6Decode", "error-on-valid-string", "", detail, "error: "+err.Error(), "the graph "+brief(g))
		} else {
			r.check("Graph6Decode", caseKey, "", "", detail, h, g)
		}
	}
	{
		s := refSparse6(g)
		caseKey := "Sparse6Decode|" + strconv.Quote(s)
		detail := map[string]interface{}{"api": "Sparse6Decode", "sparse6": s, "graph": id}
		var h *graph.SparseGraph
		var err error
		if pi := c.Call(caseKey, func() { h, err = graph.Sparse6Decode(s) }); pi != nil {
			c.Eval(1)
			r.fail("Sparse6Decode", "panic@"+engine.SiteNoLine(pi.Site), "", detail, pi.String(), "the graph "+brief(g))
		} else if err != nil {
			c.Eval(1)
			r.fail("Sparse6Decode", "error-on-valid-string", "", detail, "error: "+err.Error(), "the graph "+brief(g))
		} else {
			r.check("Sparse6Decode", caseKey, "", "", detail, h, g)
		}
	}
}

// input builds the graph g in the requested representation without using a
// constructor under test.  edit is nil for the live-view representation,
// otherwise the value through which the graph can be edited.
func input(c *engine.Ctx, g *rg.G, repr string, rnd *engine.Rng) (h graph.Graph, edit graph.EditableGraph) {
	switch repr {
	case "dense":
		d := g.Dense()
		return d, d
	case "sparse":
		s := g.Sparse()
		return s, s
	}
	// "view": g as a live view of another graph
	n := g.N
	if rnd.Bool(0.4) {
		// the complement view of the complement of g
		gc := g.Complement()
		var under graph.Graph
		k := (g.N + g.M()) % 3 // 0: plain struct literal; 1, 2: edge bytes 1..255 / dirty spare capacity
		if rnd.Bool(0.5) {
			under = gc.DenseVariant(k)
		} else {
			under = gc.SparseVariant(k)
		}
		if k > 0 {
			c.Obs("input views: over a graph in a representation variant", 1)
		}
		if pi := c.Call("input complement view|"+gid(g), func() { h = graph.Complement(under) }); pi != nil {
			c.Obs("input_view_could_not_be_built", 1)
			return nil, nil
		}
		c.Obs("input views: complement view of the complement", 1)
		return h, nil
	}
	// g as the induced-subgraph view of a shuffled supergraph with two extra vertices
	big := rg.New(n + 2)
	for _, e := range g.Edges() {
		big.Add(e[0], e[1])
	}
	for v := 0; v < n; v++ {
		if rnd.Bool(0.5) {
			big.Add(v, n)
		}
		if rnd.Bool(0.5) {
			big.Add(v, n+1)
		}
	}
	big.Add(n, n+1)
	p := rnd.Perm(n + 2) // vertex i of shuffled = p[i] of big
	inv := make([]int, n+2)
	for i, x := range p {
		inv[x] = i
	}
	shuffled := big.Induced(p)
	V := make([]int, n)
	for v := 0; v < n; v++ {
		V[v] = inv[v]
	}
	var under graph.Graph
	k := (g.N + g.M()) % 3
	if rnd.Bool(0.5) {
		under = shuffled.DenseVariant(k)
	} else {
		under = shuffled.SparseVariant(k)
	}
	if k > 0 {
		c.Obs("input views: over a graph in a representation variant", 1)
	}
	if pi := c.Call("input view|"+gid(g), func() { h = graph.InducedSubgraph(under, V) }); pi != nil {
		c.Obs("input_view_could_not_be_built", 1)
		return nil, nil
	}
	c.Obs("input views: induced view of a shuffled supergraph", 1)
	return h, nil
}

func (r *runner) toggle(caseKey string, e graph.EditableGraph, m *rg.G, i, j int) bool {
	had := m.Has(i, j)
	pi := r.c.Call(caseKey+"|toggle", func() {
		if had {
			e.RemoveEdge(i, j)
		} else {
			e.AddEdge(i, j)
		}
	})
	if pi != nil {
		return false
	}
	if had {
		m.Del(i, j)
	} else {
		m.Add(i, j)
	}
	return true
}

func (r *runner) transforms(g *rg.G, id, repr string, rnd *engine.Rng, o pipeOpts) {
	c := r.c
	n := g.N
	base := func(extra string) (string, map[string]interface{}) {
		return fmt.Sprintf("%s|%s|%s", extra, repr, id), map[string]interface{}{"api": extra, "representation": repr, "graph": id, "n": n}
	}
	panicked := func(api string, detail interface{}, pi *engine.PanicInfo, expected string) {
		c.Eval(1)
		r.fail(api+"|"+repr, "panic@"+engine.SiteNoLine(pi.Site), "", detail, pi.String(), expected)
	}
	extraRepr := repr != "dense" && repr != "sparse" && repr != "view"
	get := func(detail map[string]interface{}) (graph.Graph, graph.EditableGraph) {
		if !extraRepr {
			return input(c, g, repr, rnd)
		}
		h, e, note := r.extraInput(g, id, repr, rnd)
		detail["argument"] = note
		return h, e
	}

	// ComplementDense
	{
		caseKey, detail := base("ComplementDense")
		in, edit := get(detail)
		var h *graph.DenseGraph
		want := g.Complement()
		if in == nil {
			// the input view could not be built (counted in input)
		} else if pi := c.Call(caseKey, func() { h = graph.ComplementDense(in) }); pi != nil {
			panicked("ComplementDense", detail, pi, "the complement")
		} else if r.check("ComplementDense|"+repr, caseKey, "", "", detail, h, want) != nil && edit != nil && n >= 2 {
			m := g.Copy()
			i := rnd.Intn(n)
			j := (i + 1 + rnd.Intn(n-1)) % n
			if r.toggle(caseKey, edit, m, i, j) {
				r.check("ComplementDense|"+repr, caseKey, "", "after-source-changed:", detail, h, want)
			}
		}
	}
	// ComplementDense of a Complement VIEW over an editable graph: the double complement as a value of its own.  It is
	// the graph again, and it stays that graph when the graph under the view is edited afterwards, and the other way round.
	if repr == "dense" || repr == "sparse" {
		caseKey, detail := base("ComplementDense(Complement view)")
		in, edit := get(detail)
		var h *graph.DenseGraph
		if in == nil || edit == nil {
		} else if pi := c.Call(caseKey, func() { h = graph.ComplementDense(graph.Complement(in)) }); pi != nil {
			panicked("ComplementDense(Complement view)", detail, pi, "the graph under the view")
		} else if r.check("ComplementDense(Complement view)|"+repr, caseKey, "", "", detail, h, g) != nil && n >= 2 {
			m := g.Copy()
			i := rnd.Intn(n)
			j := (i + 1 + rnd.Intn(n-1)) % n
			detail["then_toggled_in_the_graph_under_the_view"] = []int{i, j}
			if r.toggle(caseKey, edit, m, i, j) && r.check("ComplementDense(Complement view)|"+repr, caseKey, "", "after-source-changed:", detail, h, g) != nil {
				hm := g.Copy()
				i2 := rnd.Intn(n)
				j2 := (i2 + 1 + rnd.Intn(n-1)) % n
				detail["then_toggled_in_the_result"] = []int{i2, j2}
				if r.toggle(caseKey+"|result", h, hm, i2, j2) {
					c.Obs("probe:double complement and its source edited in turn", 1)
					if r.check("ComplementDense(Complement view)|"+repr, caseKey, "", "result-after-its-own-edit:", detail, h, hm) != nil {
						r.check("ComplementDense(Complement view)|"+repr, caseKey+"|source", "", "source-after-result-changed:", detail, in, m)
					}
				}
			}
		}
	}
	// Complement (live view)
	{
		caseKey, detail := base("Complement")
		in, edit := get(detail)
		var v, vv graph.Graph
		if in == nil {
		} else if pi := c.Call(caseKey, func() { v = graph.Complement(in); vv = graph.Complement(v) }); pi != nil {
			panicked("Complement", detail, pi, "the complement view")
		} else if r.check("Complement|"+repr, caseKey, "", "", detail, v, g.Complement()) != nil {
			if r.check("Complement(Complement)|"+repr, caseKey+"|twice", "", "", detail, vv, g) != nil && edit != nil && n >= 2 {
				m := g.Copy()
				i := rnd.Intn(n)
				j := (i + 1 + rnd.Intn(n-1)) % n
				detail["then_toggled"] = []int{i, j}
				if r.toggle(caseKey, edit, m, i, j) {
					c.Obs("probe:Complement view re-read after the graph changed", 1)
					if r.check("Complement|"+repr, caseKey, "", "after-graph-changed:", detail, v, m.Complement()) != nil {
						r.check("Complement(Complement)|"+repr, caseKey+"|twice", "", "after-graph-changed:", detail, vv, m)
					}
				}
			}
		}
	}
	// LineGraphDense
	{
		caseKey, detail := base("LineGraphDense")
		var in graph.Graph
		if !o.light || g.M() <= 45 {
			in, _ = get(detail)
		}
		var h *graph.DenseGraph
		if in == nil {
		} else if pi := c.Call(caseKey, func() { h = graph.LineGraphDense(in) }); pi != nil {
			panicked("LineGraphDense", detail, pi, "the line graph")
		} else if s := r.check("LineGraphDense|"+repr, caseKey, "", "", detail, h, nil); s != nil {
			own := s.graph()
			want := refLineGraph(g)
			if own.Equal(want) {
				c.Obs("LineGraphDense_equal_to_reference_in_edge_order", 1)
			} else {
				switch isoVerdict(own, want) {
				case 1:
					c.Obs("LineGraphDense_isomorphic_but_other_vertex_order", 1)
				case 0:
					r.fail("LineGraphDense|"+repr, "not-the-line-graph", "", detail, brief(own), "a graph isomorphic to "+brief(want))
				default:
					c.Inconclusive("LineGraphDense: isomorphism oracle not run on " + caseKey)
				}
			}
		}
	}
	// InducedSubgraph (live view) and the copying method
	{
		var lists [][]int
		if o.allSets {
			all := make([]int, n)
			for i := range all {
				all[i] = i
			}
			for mask := 0; mask < 1<<uint(n); mask++ {
				V := subsetOf(mask, all)
				rnd.Shuffle(V)
				lists = append(lists, V)
			}
		} else {
			lists = append(lists, []int{}, rnd.Perm(n))
			nl := 3
			if o.light {
				nl = 1
			}
			for k := 0; k < nl; k++ {
				p := rnd.Perm(n)
				lists = append(lists, p[:rnd.Intn(n+1)])
			}
		}
		for _, V := range lists {
			caseKey, detail := base("InducedSubgraph")
			caseKey += "|V=" + ints(V...)
			detail["V"] = append([]int{}, V...)
			in, edit := get(detail)
			if in == nil {
				break
			}
			Vc := append([]int{}, V...)
			var v graph.Graph
			want := g.Induced(V)
			if pi := c.Call(caseKey, func() { v = graph.InducedSubgraph(in, Vc) }); pi != nil {
				panicked("InducedSubgraph", detail, pi, "the induced subgraph view")
				break
			}
			if r.check("InducedSubgraph|"+repr, caseKey, "", "", detail, v, want) == nil {
				break
			}
			if edit == nil {
				continue
			}
			// the copying method of the same representation gives the same graph
			var cp graph.Graph
			if pi := c.Call(caseKey+"|copy", func() { cp = edit.InducedSubgraph(Vc) }); pi == nil {
				if r.check("InducedSubgraph(copying method)|"+repr, caseKey+"|copy", "", "", detail, cp, want) == nil {
					break
				}
				c.Obs("induced view compared with the copying method", 1)
			}
			if n >= 2 {
				m := g.Copy()
				var i, j int
				if len(V) >= 2 && rnd.Bool(0.8) {
					a := rnd.Intn(len(V))
					b := (a + 1 + rnd.Intn(len(V)-1)) % len(V)
					i, j = V[a], V[b]
				} else {
					i = rnd.Intn(n)
					j = (i + 1 + rnd.Intn(n-1)) % n
				}
				detail["then_toggled"] = []int{i, j}
				if r.toggle(caseKey, edit, m, i, j) {
					c.Obs("probe:InducedSubgraph view re-read after the graph changed", 1)
					if r.check("InducedSubgraph|"+repr, caseKey, "", "after-graph-changed:", detail, v, m.Induced(V)) == nil {
						break
					}
				}
				// observation only: does the view follow later changes of the caller's V?  (not documented)
				if len(V) >= 2 && Vc[0] != Vc[len(Vc)-1] {
					Vc[0], Vc[len(Vc)-1] = Vc[len(Vc)-1], Vc[0]
					if s, _, _ := observe(c, caseKey+"|V-modified", v); s != nil {
						if k, _, _ := s.judge(m.Induced(V)); k == "" {
							c.Obs("not_judged:induced view unaffected by later change of caller's V", 1)
						} else if k, _, _ := s.judge(m.Induced(Vc)); k == "" {
							c.Obs("not_judged:induced view follows later change of caller's V", 1)
						} else {
							c.Obs("not_judged:induced view inconsistent after caller changed V", 1)
						}
					}
				}
			}
		}
	}
	if repr == "view" {
		return
	}
	// SplitEdge and Contract
	var pairs [][2]int
	if o.allPairs {
		for i := 0; i < n; i++ {
			for j := 0; j < n; j++ {
				pairs = append(pairs, [2]int{i, j})
			}
		}
	} else if n >= 1 {
		es := g.Edges()
		for k := 0; k < 6; k++ {
			if o.light && k%3 != 0 {
				continue // light: one pair that is an edge, one random pair
			}
			i := rnd.Intn(n)
			j := rnd.Intn(n)
			if k < 3 && len(es) > 0 {
				e := es[rnd.Intn(len(es))]
				i, j = e[0], e[1]
				if rnd.Bool(0.5) {
					i, j = j, i
				}
			}
			pairs = append(pairs, [2]int{i, j})
		}
		pairs = append(pairs, [2]int{n - 1, 0}, [2]int{0, n - 1})
	}
	for _, p := range pairs {
		i, j := p[0], p[1]
		if i != j {
			caseKey, detail := base("SplitEdge")
			caseKey += fmt.Sprintf("|%d,%d", i, j)
			detail["i"], detail["j"] = i, j
			_, edit := get(detail)
			if edit == nil {
				continue // the argument could not be built (counted in extraInput)
			}
			m := g.Copy()
			m.Del(i, j)
			m = m.AddVertex([]int{i, j})
			if g.Has(i, j) {
				c.Obs("SplitEdge_on_an_edge", 1)
			} else {
				c.Obs("SplitEdge_on_a_non_edge", 1)
			}
			if pi := c.Call(caseKey, func() { graph.SplitEdge(edit, i, j) }); pi != nil {
				panicked("SplitEdge", detail, pi, brief(m))
			} else {
				r.check("SplitEdge|"+repr, caseKey, "", "", detail, edit, m)
			}
		}
		{
			caseKey, detail := base("Contract")
			caseKey += fmt.Sprintf("|%d,%d", i, j)
			detail["i"], detail["j"] = i, j
			_, edit := get(detail)
			if edit == nil {
				continue
			}
			m := g.Copy()
			for _, v := range g.Nbrs(j) {
				m.Add(i, v)
			}
			m = m.RemoveVertex(j)
			switch {
			case i == j:
				c.Obs("Contract_i=j", 1)
			case g.Has(i, j):
				c.Obs("Contract_of_an_edge", 1)
			default:
				c.Obs("Contract_of_a_non_edge", 1)
			}
			if pi := c.Call(caseKey, func() { graph.Contract(edit, i, j) }); pi != nil {
				panicked("Contract", detail, pi, brief(m))
			} else {
				r.check("Contract|"+repr, caseKey, "", "", detail, edit, m)
			}
		}
	}
}

// ---------------------------------------------------------------------------

func graphUnits(c *engine.Ctx) []unit {
	var us []unit
	// all labelled graphs n <= 5
	for n := 0; n <= 5; n++ {
		shards := 1
		if n == 5 {
			shards = 32
		}
		for sh := 0; sh < shards; sh++ {
			n, sh, shards := n, sh, shards
			us = append(us, unit{fmt.Sprintf("labelled/n=%d/%d", n, sh), func(r *runner) {
				cnt := 0
				gen.AllLabelled(n, uint64(sh), uint64(shards), func(mask uint64, g *rg.G) {
					if r.c.Stopped() {
						return
					}
					rnd := r.c.Rand(fmt.Sprintf("labelled%d", n), int(mask))
					r.perGraph(g.Copy(), rnd, pipeOpts{allPairs: true, allSets: true})
					cnt++
				})
				r.c.Obs(fmt.Sprintf("labelled graphs n=%d", n), cnt)
				if sh == 0 {
					r.c.Obs(fmt.Sprintf("exhaustive:all labelled graphs n=%d x {NewDense, NewSparse, decoders, complements, line graph, all induced views, SplitEdge / Contract on all pairs}", n), 1)
				}
			}})
		}
	}
	// all classes n = 6 (quick), 7 (thorough), randomly relabelled
	maxC := c.Pick(6, 7)
	for n := 6; n <= maxC; n++ {
		shards := 16
		if n == 7 {
			shards = 48
		}
		for sh := 0; sh < shards; sh++ {
			n, sh, shards := n, sh, shards
			us = append(us, unit{fmt.Sprintf("classes/n=%d/%d", n, sh), func(r *runner) {
				cl := gen.Classes(n)
				for k := sh; k < len(cl); k += shards {
					if r.c.Stopped() {
						return
					}
					rnd := r.c.Rand(fmt.Sprintf("classes%d", n), k)
					g := cl[k].Induced(rnd.Perm(n))
					r.perGraph(g, rnd, pipeOpts{seeded: true, allPairs: true, allSets: true})
				}
				if sh == 0 {
					r.c.Obs(fmt.Sprintf("exhaustive:all %d isomorphism classes n=%d (one random labelling each)", len(cl), n), 1)
				}
			}})
		}
	}
	// seeded graphs
	ns := c.Pick(480, 12000)
	per := 10
	for u := 0; u*per < ns; u++ {
		u := u
		us = append(us, unit{fmt.Sprintf("seeded/%d", u), func(r *runner) {
			for i := u * per; i < (u+1)*per && i < ns; i++ {
				if r.c.Stopped() {
					return
				}
				rnd := r.c.Rand("seeded", i)
				n := 6 + rnd.Intn(35)
				if i%4 == 0 {
					n = 6 + rnd.Intn(8)
				}
				var g *rg.G
				switch i % 6 {
				case 0:
					g = gen.Random(rnd, n, 0.5)
				case 1:
					g = gen.Random(rnd, n, 2.0/float64(n))
				case 2:
					g = gen.Random(rnd, n, 0.9)
				case 3:
					g = gen.RandomTree(rnd, n)
				case 4:
					g = gen.Random(rnd, n, rnd.Float())
					// make the last vertices isolated (sparse6 / multicode boundary)
					for v := 0; v < n-2; v++ {
						g.Del(v, n-1)
						g.Del(v, n-2)
					}
					g.Del(n-1, n-2)
				default:
					g = gen.Random(rnd, n, 0.25)
					for v := 0; v < n-1; v++ {
						g.Add(v, n-1) // last vertex joined to everything
					}
				}
				if i < 2 {
					r.c.Sample("seeded input graph", map[string]interface{}{"n": g.N, "m": g.M(), "graph": gid(g)})
				}
				r.perGraph(g, rnd, pipeOpts{seeded: true})
			}
		}})
	}
	// boundary sizes for the codecs' results: n = 62/63 (graph6 size field), 64..70
	us = append(us, unit{"boundary-sizes", func(r *runner) {
		for i, n := range []int{16, 17, 31, 32, 33, 62, 63, 64, 70} {
			rnd := r.c.Rand("boundary", i)
			g := gen.Random(rnd, n, 0.1)
			r.newDense(g, gid(g))
			r.newSparse(g, gid(g), rnd)
			r.decoders(g, gid(g))
			r.freedoms(g, gid(g), rnd)
		}
	}})
	return us
}

func run(c *engine.Ctx) {
	r := &runner{c: c, muted: map[string]bool{}, vsrc: variantSources(), madeOK: map[string]bool{}}
	var us []unit
	us = append(us, familyUnits(c)...)
	us = append(us, pruferUnits(c)...)
	us = append(us, graphUnits(c)...)
	us = append(us, chainUnits(c)...)
	us = append(us, editUnits(c)...)
	us = append(us, formUnits(c)...)
	us = append(us, thresholdUnits(c)...)
	for _, u := range us {
		u := u
		c.Unit(u.name, func() { u.f(r) })
	}
}

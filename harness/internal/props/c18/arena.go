package c18

import (
	"fmt"

	"github.com/Tom-Johnston/mamba/disjoint"

	"verif/internal/engine"
)

// Sets that live side by side in ONE array.  A disjoint.Set is a []int, and the library itself works on prefix views of a
// longer Set (storage.firstLeafOrbits[:n] in graph/canonical.go, ds[:comb.Coeff(n,k)] in graph/search): an operation
// called through one view may touch the cells of that view only.  Two arrangements of one disjoint.New(N):
//   split:  front = full[:k] and back = full[k:], two independent Sets (back has its own numbering 0..N-k-1);
//   prefix: front = full[:k] and full itself, with the unions made through full staying among the elements >= k
//           (so that front never holds a link that leaves it); what front unites is united in full too.
// After every operation every Set is read (through a private copy) and compared with its own relabel-everything model.

type arenaSide struct {
	name string
	ds   disjoint.Set
	m    model
	lo   int // the elements this side may name in a union or lookup: lo..hi-1
	hi   int
}

func (r *runner) runArena(N, k int, prefixMode bool, L int, rg *engine.Rng, tag string) bool {
	c := r.c
	var full disjoint.Set
	if pi := c.Call(fmt.Sprintf("disjoint|New(%d)", N), func() { full = disjoint.New(N) }); pi != nil {
		c.Violation(fmt.Sprintf("disjoint|New(%d)|panic", N), nil, pi.String(), "a set of n singletons")
		return false
	}
	mode := "split"
	sides := []*arenaSide{{name: "front=full[:k]", ds: full[:k], m: newModel(k), lo: 0, hi: k}}
	if prefixMode {
		mode = "prefix"
		sides = append(sides, &arenaSide{name: "full", ds: full, m: newModel(N), lo: k, hi: N})
	} else {
		sides = append(sides, &arenaSide{name: "back=full[k:]", ds: full[k:], m: newModel(N - k), lo: 0, hi: N - k})
	}
	var log []string
	detail := func() interface{} {
		l := log
		if len(l) > 60 {
			l = l[len(l)-60:]
		}
		return map[string]interface{}{"N": N, "k": k, "arrangement": mode, "last_ops": l, "ops_so_far": len(log), "workload": "sets side by side in one array"}
	}
	effective := 0
	for step := 0; step < L; step++ {
		si := rg.Intn(2)
		s := sides[si]
		if s.hi-s.lo < 1 {
			s = sides[1-si]
			si = 1 - si
			if s.hi-s.lo < 1 {
				break
			}
		}
		x := s.lo + rg.Intn(s.hi-s.lo)
		y := s.lo + rg.Intn(s.hi-s.lo)
		kind := rg.Intn(9)
		key := fmt.Sprintf("disjoint|one-array|%s|%s|step=%d", mode, tag, step)
		if len(log) < 10 {
			key = fmt.Sprintf("disjoint|one-array|%s|N=%d,k=%d|%v", mode, N, k, log)
		}
		var pi *engine.PanicInfo
		c.Eval(1)
		switch {
		case kind < 2:
			log = append(log, fmt.Sprintf("%s.Union(%d,%d)", s.name, x, y))
			pi = c.Call(key, func() { s.ds.Union(x, y) })
		case kind < 4:
			log = append(log, fmt.Sprintf("%s.UnionBuffered(%d,%d)", s.name, x, y))
			buf := make([]int, 1+rg.Intn(3))
			pi = c.Call(key, func() { s.ds.UnionBuffered(x, y, buf) })
		case kind < 6:
			log = append(log, fmt.Sprintf("%s.Find(%d)", s.name, x))
			pi = c.Call(key, func() { s.ds.Find(x) })
		case kind < 7:
			log = append(log, fmt.Sprintf("%s.FindBuffered(%d)", s.name, x))
			buf := make([]int, 1+rg.Intn(3))
			pi = c.Call(key, func() { s.ds.FindBuffered(x, buf) })
		default:
			if prefixMode && si == 1 {
				// a view of the whole of full would be fine too; keep to the lookups here so that both arrangements do the same work
				log = append(log, fmt.Sprintf("%s.Find(%d)", s.name, x))
				pi = c.Call(key, func() { s.ds.Find(x) })
				break
			}
			v := rg.Intn(3)
			log = append(log, fmt.Sprintf("%s.%s()", s.name, []string{"Sets", "SmallestRep", "Roots"}[v]))
			pi = c.Call(key, func() {
				switch v {
				case 0:
					s.ds.Sets()
				case 1:
					s.ds.SmallestRep()
				default:
					s.ds.Roots()
				}
			})
		}
		if pi != nil {
			c.Violation(key+"|panic", detail(), pi.String(), "the call returns")
			return false
		}
		if kind < 4 {
			if s.m.union(x, y) {
				effective++
			}
			if prefixMode && si == 0 {
				sides[1].m.union(x, y) // the cells are shared: what the prefix view unites is united in the whole
			}
		}
		for _, t := range sides {
			got, pi := partitionOf(c, key+"|read", t.ds)
			if pi != nil {
				c.Violation(key+"|panic-in-find", detail(), pi.String(), "Find returns")
				return false
			}
			if !eqInts(got, []int(t.m)) {
				c.Violation(key+"|"+t.name+"-holds-another-partition", detail(), fmt.Sprintf("classes of %s by Find: %v", t.name, got), fmt.Sprintf("classes: %v", []int(t.m)))
				return false
			}
		}
		c.Obs("one_array:ops_followed_by_a_read_of_both_sets", 1)
	}
	if effective >= 2 {
		c.NT("one-array", mode, N, k, len(log), log[len(log)-1])
	}
	return true
}

func runArenas(c *engine.Ctx) {
	nh := c.Pick(400, 4000)
	per := 50
	for u := 0; u*per < nh; u++ {
		u := u
		c.Unit(fmt.Sprintf("one-array/%d", u), func() {
			for i := u * per; i < (u+1)*per && i < nh; i++ {
				rg := c.Rand("one-array", i)
				N := 2 + rg.Intn(40)
				if i%5 == 0 {
					N = 2 + rg.Intn(6)
				}
				k := 1 + rg.Intn(N-1)
				r := &runner{c: c, label: "one-array"}
				if !r.runArena(N, k, i%2 == 0, 40+rg.Intn(200), rg, fmt.Sprintf("#%d", i)) {
					return
				}
				if i < 2 {
					c.Sample("one-array", map[string]interface{}{"N": N, "k": k, "prefix_arrangement": i%2 == 0})
				}
			}
		})
	}
}

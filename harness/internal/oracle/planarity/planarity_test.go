package planarity

import "testing"

func TestSelfChecks(t *testing.T) {
	if err := SelfCheckRotation(); err != nil {
		t.Fatal(err)
	}
	if err := SelfCheckKuratowski(); err != nil {
		t.Fatal(err)
	}
	if err := SelfCheckReference(7); err != nil {
		t.Fatal(err)
	}
}

package main

import (
	"verif/internal/cli"
	_ "verif/internal/props/c04"
)

func main() { cli.Main() }

package c04

import (
	"bytes"
	"context"
	"fmt"
	"os"
	"os/exec"
	"path/filepath"
	"strconv"
	"strings"
	"time"

	"github.com/Tom-Johnston/mamba/graph/search"

	"verif/internal/engine"
)

// A checkpoint must be loadable in a process that has never saved anything (a search resumed after a restart of
// the program): the helper below runs as `vrun helper c04-load ...` in a process of its own, loads the file, advances
// and prints what it yields.  The monitor compares that with the uninterrupted log.
func init() {
	engine.RegisterHelper("c04-load", func(args []string) (code int) {
		if len(args) != 7 {
			fmt.Println("USAGE")
			return 2
		}
		num := make([]int, 6)
		for i := range num {
			num[i], _ = strconv.Atoi(args[i+1])
		}
		cf := config{n: num[0], a: num[1], m: num[2], pred: num[3], placement: num[4]}
		steps := num[5]
		data, err := os.ReadFile(args[0])
		if err != nil {
			fmt.Println("READ-ERROR", err)
			return 2
		}
		defer func() {
			if r := recover(); r != nil {
				fmt.Printf("PANIC %v\n", r)
				code = 3
			}
		}()
		pre, pru := cf.funcs()
		it := search.Load(bytes.NewReader(data), pre, pru)
		for i := 0; i < steps; i++ {
			if !it.Next() {
				fmt.Println("END")
				continue
			}
			fmt.Println(val(it))
		}
		return 0
	})
}

// freshProcess saves at position k and has the checkpoint loaded and advanced by a process of its own.
func (m *mon) freshProcess(S []string, k, steps int) bool {
	c := m.c
	var it *search.GraphIterator
	if pi := c.Call("resume|"+m.cf.name()+"|new", func() { it = m.cf.fresh() }); pi != nil {
		m.viol("panic@"+engine.SiteNoLine(pi.Site), k, map[string]interface{}{}, pi.String(), "an iterator")
		return false
	}
	kk := k
	if kk > len(S) {
		kk = len(S) + 1
	}
	if !m.advance(it, "original-before-save", S, 0, kk, k) {
		return false
	}
	var buf bytes.Buffer
	if pi := c.CallN("resume|"+m.cf.name()+"|save-for-another-process", int64(k), func() { it.Save(&buf) }); pi != nil {
		m.viol("panic@"+engine.SiteNoLine(pi.Site)+"|Save", k, map[string]interface{}{}, pi.String(), "Save returns")
		return false
	}
	file := filepath.Join(c.OutDir(), fmt.Sprintf("c04-checkpoint-%s-k%d.bin", m.cf.name(), k))
	if err := os.WriteFile(file, buf.Bytes(), 0o644); err != nil {
		c.Inconclusive("cannot write checkpoint file: " + err.Error())
		return false
	}
	defer os.Remove(file)
	exe, _ := os.Executable()
	ctx, cancel := context.WithTimeout(context.Background(), 5*time.Minute)
	defer cancel()
	out, err := exec.CommandContext(ctx, exe, "helper", "c04-load", file, strconv.Itoa(m.cf.n), strconv.Itoa(m.cf.a), strconv.Itoa(m.cf.m),
		strconv.Itoa(m.cf.pred), strconv.Itoa(m.cf.placement), strconv.Itoa(steps)).CombinedOutput()
	if ctx.Err() != nil {
		c.Inconclusive("the loading process for " + m.cf.name() + " did not finish within 5 minutes (not judged)")
		return false
	}
	c.Obs("checkpoints_loaded_by_a_process_that_never_saved", 1)
	c.Eval(1)
	lines := strings.Split(strings.TrimSpace(string(out)), "\n")
	det := map[string]interface{}{"saved_bytes": buf.Len(), "output_of_the_loading_process": clip(string(out), 600)}
	if err != nil || len(lines) == 0 || strings.HasPrefix(lines[len(lines)-1], "PANIC") {
		m.viol("fresh-process-cannot-resume", k, det, "a process that had not saved anything before failed to load / advance the checkpoint: "+clip(string(out), 300)+fmt.Sprint(" ", err), "the rest of the uninterrupted output "+fmt.Sprint(rest(S, kk, steps)))
		return false
	}
	want := rest(S, kk, steps)
	for i := range want {
		got := "<nothing>"
		if i < len(lines) {
			got = lines[i]
		}
		if got != want[i] {
			m.viol("fresh-process-differs", k, det, fmt.Sprintf("value %d after the checkpoint is %s", i, got), "value "+want[i])
			return false
		}
	}
	return true
}

func rest(S []string, from, steps int) []string {
	var r []string
	for i := 0; i < steps; i++ {
		if from+i < len(S) {
			r = append(r, S[from+i])
		} else {
			r = append(r, "END")
		}
	}
	return r
}

func clip(s string, n int) string {
	if len(s) > n {
		return s[:n] + "..."
	}
	return s
}

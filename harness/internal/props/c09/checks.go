package c09

import (
	"fmt"
	"runtime/debug"
	"sort"
	"strings"

	"github.com/Tom-Johnston/mamba/graph"

	"verif/internal/engine"
	"verif/internal/oracle/brute"
	"verif/internal/oracle/rg"
)

// graphCase is one labelled graph of the workload with its reference values.
type graphCase struct {
	workload   string
	class      string // graph6 of the class representative / generated graph
	labelling  int    // index of the relabelling
	perm       []int  // vertex i of g = vertex perm[i] of the class representative
	g          *rg.G  // the labelled model
	ref        *ref
	g6         string
	id         string   // name used in keys instead of the graph6 string (large structured graphs)
	cliqueSets []string // closed-form list of the maximal cliques (sorted strings of sorted sets), nil: brute force
}

// keyID is the witness part of keys: the graph6 string, or the name of a
// large structured graph.
func (cs *graphCase) keyID() string {
	if cs.id != "" {
		return "graph=" + cs.id
	}
	if cs.g6 == "" {
		cs.g6 = cs.g.G6()
	}
	return "g6=" + cs.g6
}

type runOpts struct {
	index           bool // call ChromaticIndex
	polyDense       bool
	polySparse      bool
	allOrders       bool // GreedyColor on all n! orders
	seededOrders    int
	rng             *engine.Rng
	reps            map[string]bool // representations to run (nil: all five)
	fixedKs         bool            // IsKColorable only for the k listed in ks (else every k in 0..n+1)
	ks              []int
	noChi           bool    // skip ChromaticNumber (lower-bound proof out of reach for a correct implementation)
	noCliques       bool    // skip AllMaximalCliques (too many cliques)
	extraOrders     [][]int // further GreedyColor orders
	extraOrderNames []string
	nested          int // views of views added to the representations (reprs.go)
	variants        int // representation variants / struct values / caller-implemented Graph added
}

// Suppression of repeated reports: only the FIRST witness of each (API, kind)
// seen by a child process is reported, further ones are counted
// ("further_witnesses_not_reported:...").  Units run small sizes first, so the
// reported witness is the smallest one of its shard; a unit re-executed alone
// (confirmation, replay) meets the same witness first, so the key reproduces.
var reported = map[string]int{}

// judge carries one (case, representation).
type judge struct {
	c      *engine.Ctx
	cs     *graphCase
	rep    string
	repHow string // how the representation was built
	repV   []int  // vertex list of the induced view
	reads  string // how the observers of the value differ from the model ("" = they agree)
	dead   bool   // a violation was raised on this (case, representation, API group)
}

func newJudge(c *engine.Ctx, cs *graphCase, rep, how string, V []int) *judge {
	if cs.g6 == "" && cs.id == "" {
		cs.g6 = cs.g.G6()
	}
	return &judge{c: c, cs: cs, rep: rep, repHow: how, repV: V}
}

func (j *judge) callKey(api string) string {
	return api + "|" + j.rep + "|" + j.cs.keyID()
}

func (j *judge) detail(extra map[string]interface{}) map[string]interface{} {
	d := map[string]interface{}{
		"workload": j.cs.workload, "class_graph6": j.cs.class, "labelling": j.cs.labelling, "perm": j.cs.perm,
		"n": j.cs.g.N, "m": j.cs.g.M(), "representation": j.rep,
	}
	if j.cs.id != "" {
		d["structured_graph"] = j.cs.id
	}
	if j.cs.g.N <= 40 {
		d["graph6"] = j.cs.g.G6()
		d["graph"] = j.cs.g.String()
	}
	if j.repHow != "" {
		d["representation_built_as"] = j.repHow
	}
	if j.repV != nil {
		d["view_vertices"] = j.repV
	}
	if j.reads != "" {
		d["observers_of_the_value_vs_model"] = j.reads
	}
	for k, v := range extra {
		d[k] = v
	}
	return d
}

// violation reports API|kind|rep|witness (first per (API,kind) in the unit).
func (j *judge) violation(api, kind, witnessExtra string, extra map[string]interface{}, observed, expected string) {
	j.dead = true
	cls := api + "|" + kind
	reported[cls]++
	if reported[cls] > 1 {
		j.c.Obs("further_witnesses_not_reported:"+cls, 1)
		return
	}
	key := cls + "|" + j.rep + "|" + j.cs.keyID()
	if witnessExtra != "" {
		key += "|" + witnessExtra
	}
	j.c.Violation(key, j.detail(extra), observed, expected)
}

func (j *judge) panicked(api string, witnessExtra string, extra map[string]interface{}, pi *engine.PanicInfo) {
	j.violation(api, "panic@"+engine.SiteNoLine(pi.Site), witnessExtra, extra, pi.String(), api+" returns (total function on simple graphs)")
}

// ---------------------------------------------------------------------------
// representations

type repr struct {
	name    string
	how     string
	V       []int
	h       graph.Graph
	filled  bool          // a struct filled by the harness in the plain way: must read back as the model
	user    *rg.UserGraph // the caller-implemented value (its stored lists are compared with the model afterwards)
	further bool          // one of the further representations of reprs.go
	poly    string        // "dense" / "sparse": an EditableGraph that gets ChromaticPolynomial under the options of that representation
}

// observed state of a graph value read through the interface.
type snapshot struct {
	n, m int
	deg  []int
	nbrs [][]int
	adj  [][]bool
}

func takeSnapshot(h graph.Graph) *snapshot {
	s := &snapshot{n: h.N(), m: h.M()}
	s.deg = h.Degrees()
	s.nbrs = make([][]int, s.n)
	s.adj = make([][]bool, s.n)
	for v := 0; v < s.n; v++ {
		s.nbrs[v] = append([]int(nil), h.Neighbours(v)...)
		s.adj[v] = make([]bool, s.n)
		for u := 0; u < s.n; u++ {
			if u != v {
				s.adj[v][u] = h.IsEdge(v, u)
			}
		}
	}
	return s
}

// isModel reports whether the snapshot shows the abstract graph g: the number
// of vertices and the adjacency relation off the diagonal (the diagonal of
// IsEdge is not read: loops are C06's business).
func (s *snapshot) isModel(g *rg.G) string {
	if s.n != g.N {
		return fmt.Sprintf("N()=%d, model has %d vertices", s.n, g.N)
	}
	for v := 0; v < g.N; v++ {
		for u := 0; u < g.N; u++ {
			if u != v && s.adj[v][u] != g.Has(v, u) {
				return fmt.Sprintf("IsEdge(%d,%d)=%v, model %v", v, u, s.adj[v][u], g.Has(v, u))
			}
		}
	}
	return ""
}

// derived compares the derived observers (M, Degrees, Neighbours) with the model.
func (s *snapshot) derived(g *rg.G) string {
	if s.m != g.M() {
		return fmt.Sprintf("M()=%d, model has %d edges", s.m, g.M())
	}
	if len(s.deg) != g.N {
		return fmt.Sprintf("len(Degrees())=%d, n=%d", len(s.deg), g.N)
	}
	for v := 0; v < g.N; v++ {
		if s.deg[v] != g.Deg(v) {
			return fmt.Sprintf("Degrees()[%d]=%d, model degree %d", v, s.deg[v], g.Deg(v))
		}
		if fmt.Sprint(s.nbrs[v]) != fmt.Sprint(g.Nbrs(v)) && !(len(s.nbrs[v]) == 0 && g.Deg(v) == 0) {
			return fmt.Sprintf("Neighbours(%d)=%v, model %v", v, s.nbrs[v], g.Nbrs(v))
		}
	}
	return ""
}

// diff describes the first difference between two snapshots ("" if none).
func (s *snapshot) diff(t *snapshot) string {
	if s.n != t.n || s.m != t.m {
		return fmt.Sprintf("N,M = %d,%d before and %d,%d after", s.n, s.m, t.n, t.m)
	}
	if fmt.Sprint(s.deg) != fmt.Sprint(t.deg) {
		return fmt.Sprintf("Degrees() = %v before and %v after", s.deg, t.deg)
	}
	for v := 0; v < s.n; v++ {
		if fmt.Sprint(s.nbrs[v]) != fmt.Sprint(t.nbrs[v]) {
			return fmt.Sprintf("Neighbours(%d) = %v before and %v after", v, s.nbrs[v], t.nbrs[v])
		}
		if fmt.Sprint(s.adj[v]) != fmt.Sprint(t.adj[v]) {
			return fmt.Sprintf("IsEdge(%d,.) = %v before and %v after", v, s.adj[v], t.adj[v])
		}
	}
	return ""
}

// buildReprs constructs the representations of cs.g.  Library constructors of
// views run inside guarded calls.
func buildReprs(c *engine.Ctx, cs *graphCase, r *engine.Rng, only map[string]bool) []repr {
	g := cs.g
	n := g.N
	key := "build-representation|" + cs.keyID()
	out := []repr{
		{name: "dense", how: "rg.Dense()", h: g.Dense(), filled: true, poly: "dense"},
		{name: "sparse", how: "rg.Sparse()", h: g.Sparse(), filled: true, poly: "sparse"},
	}
	if only != nil {
		var keep []repr
		for _, rp := range out {
			if only[rp.name] {
				keep = append(keep, rp)
			}
		}
		if !only["view"] && !only["compl"] && !only["compl2"] {
			return keep
		}
	}
	// induced view of a larger graph
	extra := 1 + r.Intn(3)
	N := n + extra
	pos := r.Perm(N)
	V := append([]int(nil), pos[:n]...)
	big := rg.New(N)
	for _, e := range g.Edges() {
		big.Add(V[e[0]], V[e[1]])
	}
	for _, x := range pos[n:] {
		for y := 0; y < N; y++ {
			if y != x && r.Bool(0.5) {
				big.Add(x, y)
			}
		}
	}
	underSparse := r.Bool(0.5)
	var under graph.Graph = big.Dense()
	how := fmt.Sprintf("InducedSubgraph(dense %s, V)", big.G6())
	if underSparse {
		under = big.Sparse()
		how = fmt.Sprintf("InducedSubgraph(sparse %s, V)", big.G6())
	}
	var h graph.Graph
	if pi := c.Call(key+"|view", func() { h = graph.InducedSubgraph(under, append([]int(nil), V...)) }); pi == nil {
		out = append(out, repr{name: "view", how: how, V: V, h: h})
	} else {
		c.Obs("rep_unusable:view(constructor panicked)", 1)
	}
	// complement view of the complement graph
	gc := g.Complement()
	var cu graph.Graph = gc.Dense()
	how = "Complement(dense complement graph)"
	if r.Bool(0.5) {
		cu = gc.Sparse()
		how = "Complement(sparse complement graph)"
	}
	var hc graph.Graph
	if pi := c.Call(key+"|compl", func() { hc = graph.Complement(cu) }); pi == nil {
		out = append(out, repr{name: "compl", how: how, h: hc})
	} else {
		c.Obs("rep_unusable:compl(constructor panicked)", 1)
	}
	// complement view of the complement view
	var base graph.Graph = g.Dense()
	how = "Complement(Complement(dense))"
	if r.Bool(0.5) {
		base = g.Sparse()
		how = "Complement(Complement(sparse))"
	}
	var hcc graph.Graph
	if pi := c.Call(key+"|compl2", func() { hcc = graph.Complement(graph.Complement(base)) }); pi == nil {
		out = append(out, repr{name: "compl2", how: how, h: hcc})
	} else {
		c.Obs("rep_unusable:compl2(constructor panicked)", 1)
	}
	return out
}

// observe reads the representation through the Graph interface (guarded).
func observe(c *engine.Ctx, cs *graphCase, rp repr) (*snapshot, string) {
	var s *snapshot
	if pi := c.Call("observe-representation|"+rp.name+"|"+cs.keyID(), func() { s = takeSnapshot(rp.h) }); pi != nil {
		return nil, "observer panicked: " + pi.String()
	}
	return s, ""
}

// ---------------------------------------------------------------------------
// one case: all representations, all functions

func runCase(c *engine.Ctx, cs *graphCase, opt runOpts) {
	if cs.g6 == "" && cs.id == "" {
		cs.g6 = cs.g.G6()
	}
	g := cs.g
	n := g.N
	c.Obs(fmt.Sprintf("graphs:n=%d", n), 1)
	if cs.ref.chi >= 0 && cs.ref.omega >= 0 && cs.ref.chi > cs.ref.omega {
		c.Obs("chi>omega", 1)
	}
	if cs.ref.nCliques >= 4 {
		c.Obs("cliques:graphs_with_>=4_maximal_cliques", 1)
	}
	// vertex orders for GreedyColor
	var orders [][]int
	var orderNames []string
	if opt.allOrders {
		orders = allPermutations(n)
		c.Obs("greedy:all_orders_sets", 1)
	} else {
		orders = append(orders, identity(n), reversal(n), smallestLast(g))
		orderNames = append(orderNames, "identity", "reversed", "smallest-last")
		orders = append(orders, opt.extraOrders...)
		orderNames = append(orderNames, opt.extraOrderNames...)
		for k := 0; k < opt.seededOrders; k++ {
			orders = append(orders, opt.rng.Perm(n))
			orderNames = append(orderNames, fmt.Sprintf("seeded#%d", k))
		}
	}
	for _, rp := range buildReprs(c, cs, opt.rng, opt.reps) {
		if c.Stopped() {
			return
		}
		judgeRepr(c, cs, rp, opt, orders, orderNames)
	}
	// further representations of the same graph (reprs.go): views of views,
	// representation variants, struct values, a caller-implemented Graph.
	// Their generator is drawn last, so the cases above do not depend on them.
	if opt.nested > 0 || opt.variants > 0 {
		er := engine.NewRng(opt.rng.U64())
		for _, rp := range extraReprs(c, cs, er, opt.nested, opt.variants) {
			if c.Stopped() {
				return
			}
			rp.further = true
			judgeRepr(c, cs, rp, opt, orders, orderNames)
		}
	}
}

// judgeRepr: all functions on one representation of the case.
func judgeRepr(c *engine.Ctx, cs *graphCase, rp repr, opt runOpts, orders [][]int, orderNames []string) {
	g := cs.g
	n := g.N
	before, why := observe(c, cs, rp)
	if why == "" {
		why = before.isModel(g)
	}
	reads := ""
	if why != "" {
		c.Obs("rep_reads_unlike_model:"+rp.name, 1)
		c.Sample("rep_reads_unlike_model:"+rp.name, map[string]interface{}{"graph": cs.keyID(), "how": rp.how, "why": why})
		if rp.filled {
			// a struct filled directly by the harness does not read back as
			// the graph (C05/C06): nothing can be judged on it, and that must not pass silently
			c.Obs("rep_unusable:"+rp.name, 1)
			c.Inconclusive(fmt.Sprintf("the %s value of %s does not read back as the model (%s): its invariants were not judged", rp.name, cs.keyID(), why))
			return
		}
		// a value built by the library's view constructors (or a variant of the
		// struct contents that the library reads as the same graph) STANDS FOR the
		// model by the documentation of its constructor: the invariants of the
		// value are judged against the model of that graph; how the value reads
		// goes into the detail
		reads = why
	} else if d := before.derived(g); d != "" {
		// still judged: the invariants must not depend on the representation
		c.Obs("rep_derived_observers_disagree_with_model:"+rp.name, 1)
		c.Sample("rep_derived_observers_disagree_with_model:"+rp.name, map[string]interface{}{"graph": cs.keyID(), "how": rp.how, "what": d})
	}
	c.Obs("rep:"+rp.name, 1)
	if n >= 4 && g.M() >= 2 {
		c.NT(cs.keyID(), rp.name)
	}
	j := newJudge(c, cs, rp.name, rp.how, rp.V)
	j.reads = reads
	j.cliqueNumbers(rp.h)
	if !opt.noCliques {
		j.maximalCliques(rp.h, opt.rng)
	}
	if !opt.noChi {
		j.chromaticNumber(rp.h)
	}
	switch {
	case opt.fixedKs:
		j.kColorable(rp.h, opt.ks)
	case rp.further && !c.Thorough() && cs.ref.chi >= 0:
		// the sweep over every k belongs to the five representations above;
		// a further representation gets the k around chi in the quick tier
		var ks []int
		for k := cs.ref.chi - 1; k <= cs.ref.chi+1; k++ {
			if k >= 0 {
				ks = append(ks, k)
			}
		}
		j.kColorable(rp.h, ks)
	default:
		j.kColorable(rp.h, nil)
	}
	if opt.index {
		j.chromaticIndex(rp.h)
	}
	j.degeneracy(rp.h)
	if rp.further && !c.Thorough() && !opt.allOrders && len(orders) > 4 && len(opt.extraOrders) == 0 {
		// identity, reversal, smallest-last and one seeded order
		j.greedy(rp.h, orders[:4], orderNames[:4])
	} else {
		j.greedy(rp.h, orders, orderNames)
	}
	j.properColouringPredicate(rp.h, opt.rng)
	if eg, isEd := rp.h.(graph.EditableGraph); isEd {
		switch {
		case rp.name == "dense" && opt.polyDense, rp.name == "sparse" && opt.polySparse:
			j.polynomial(eg, rp.name)
		case rp.name != rp.poly && rp.poly == "dense" && opt.polyDense, rp.name != rp.poly && rp.poly == "sparse" && opt.polyDense && n <= 7:
			j.polynomial(eg, rp.name)
		}
	}
	// none of the functions may have changed the graph it was given
	if before != nil {
		c.Eval(1)
		after, why := observe(c, cs, rp)
		if why == "" {
			why = before.diff(after)
		}
		if why != "" {
			j.violation("any", "argument-graph-changed", "", nil, "after the calls the "+rp.name+" graph reads differently: "+why, "the graph passed to the functions is unchanged")
		}
	}
	if rp.user != nil {
		// the caller's own lists, which Neighbours / Degrees hand out, are as they were
		c.Eval(1)
		c.Obs("user:stored_lists_compared_afterwards", 1)
		if d := rp.user.Intact(g); d != "" {
			j.violation("any", "argument-graph-changed", "stored-lists", nil, "after the calls the lists stored in the caller-implemented graph differ: "+d, "the graph passed to the functions is unchanged")
		}
	}
}

func allPermutations(n int) [][]int {
	var out [][]int
	p := identity(n)
	var rec func(k int)
	rec = func(k int) {
		if k == n {
			out = append(out, append([]int(nil), p...))
			return
		}
		for i := k; i < n; i++ {
			p[k], p[i] = p[i], p[k]
			rec(k + 1)
			p[k], p[i] = p[i], p[k]
		}
	}
	rec(0)
	return out
}

// smallestLast is the classical smallest-last order (harness side).
func smallestLast(g *rg.G) []int {
	n := g.N
	removed := make([]bool, n)
	deg := g.Degrees() // degrees in the graph that is left
	order := make([]int, n)
	for k := n - 1; k >= 0; k-- {
		best, bv := 1<<30, -1
		for v := 0; v < n; v++ {
			if !removed[v] && deg[v] < best {
				best, bv = deg[v], v
			}
		}
		removed[bv] = true
		order[k] = bv
		for u := 0; u < n; u++ {
			if !removed[u] && g.Has(u, bv) {
				deg[u]--
			}
		}
	}
	return order
}

// ---------------------------------------------------------------------------
// CliqueNumber, IndependenceNumber

func (j *judge) cliqueNumbers(h graph.Graph) {
	c := j.c
	r := j.cs.ref
	if r.omega >= 0 {
		var got int
		c.Obs("calls:CliqueNumber", 1)
		c.Eval(1)
		if pi := c.Call(j.callKey("CliqueNumber"), func() { got = graph.CliqueNumber(h) }); pi != nil {
			j.panicked("CliqueNumber", "", nil, pi)
		} else if got != r.omega {
			j.violation("CliqueNumber", "wrong", "", nil, fmt.Sprint(got), fmt.Sprintf("%d (largest clique, subset scan)", r.omega))
		}
	}
	if r.alpha >= 0 {
		var got int
		c.Obs("calls:IndependenceNumber", 1)
		c.Eval(1)
		if pi := c.Call(j.callKey("IndependenceNumber"), func() { got = graph.IndependenceNumber(h) }); pi != nil {
			j.panicked("IndependenceNumber", "", nil, pi)
		} else if got != r.alpha {
			j.violation("IndependenceNumber", "wrong", "", nil, fmt.Sprint(got), fmt.Sprintf("%d (largest independent set, subset scan)", r.alpha))
		}
	}
}

// ---------------------------------------------------------------------------
// AllMaximalCliques: producer goroutine inside the guarded call; the consumer
// takes at most limit values and needs the channel closed.

type cliqueRun struct {
	got      [][]int
	closed   bool // the channel was closed by the producer
	over     bool // more than limit values were offered
	returned bool // the producer function returned
	pi       *engine.PanicInfo
	raw      [][]int // the slices as received (the receiver keeps them)
	shared   string  // what went wrong with the received slices as values of their own ("" = nothing)
}

func siteOf(stack string) string {
	lines := strings.Split(stack, "\n")
	for i := 0; i+1 < len(lines); i++ {
		fn := lines[i]
		if strings.HasPrefix(fn, "github.com/Tom-Johnston/mamba/") {
			loc := strings.TrimSpace(lines[i+1])
			if sp := strings.IndexByte(loc, ' '); sp > 0 {
				loc = loc[:sp]
			}
			parts := strings.Split(loc, "/")
			if len(parts) >= 2 {
				loc = parts[len(parts)-2] + "/" + parts[len(parts)-1]
			}
			if p := strings.IndexByte(fn, '('); p > 0 {
				fn = fn[:p]
			}
			return loc + " " + strings.TrimPrefix(fn, "github.com/Tom-Johnston/mamba/")
		}
	}
	return "?"
}

func drainCliques(c *engine.Ctx, key string, h graph.Graph, limit int, buffer int) cliqueRun {
	var res cliqueRun
	c.Call(key, func() {
		ch := make(chan []int, buffer)
		done := make(chan *engine.PanicInfo, 1)
		go func() {
			defer func() {
				if r := recover(); r != nil {
					st := string(debug.Stack())
					done <- &engine.PanicInfo{Value: fmt.Sprint(r), Site: siteOf(st), Stack: st}
					return
				}
				done <- nil
			}()
			graph.AllMaximalCliques(h, ch)
		}()
		take := func(cl []int) bool {
			if len(res.got) >= limit {
				res.over = true
				return false
			}
			res.got = append(res.got, append([]int(nil), cl...))
			res.raw = append(res.raw, cl)
			return true
		}
		for {
			select {
			case cl, ok := <-ch:
				if !ok {
					res.closed = true
					// the producer returns right after close; wait for it so
					// that a panic after close is not lost
					res.pi = <-done
					res.returned = true
					return
				}
				if !take(cl) {
					return // over-production: the producer stays blocked and is abandoned
				}
			case pi := <-done:
				res.returned = true
				res.pi = pi
				// the producer is gone: whatever is still buffered is all there is
				for {
					select {
					case cl, ok := <-ch:
						if !ok {
							res.closed = true
							return
						}
						if !take(cl) {
							return
						}
					default:
						return
					}
				}
			}
		}
	})
	// the received slices belong to the receiver: what was received first still reads as it did when it arrived (the
	// producer went on after sending it), and appending to one of them does not change another
	if res.closed && res.pi == nil && !res.over {
		for i, cl := range res.raw {
			same := len(cl) == len(res.got[i])
			for k := 0; same && k < len(cl); k++ {
				same = cl[k] == res.got[i][k]
			}
			if !same {
				res.shared = fmt.Sprintf("clique number %d arrived as %v and reads %v after the producer finished", i, res.got[i], cl)
				break
			}
		}
		if res.shared == "" {
			res.shared = engine.AppendTouchesOthers(res.raw)
		}
	}
	return res
}

func setString(s []int) string {
	t := append([]int(nil), s...)
	sort.Ints(t)
	return fmt.Sprint(t)
}

func (j *judge) maximalCliques(h graph.Graph, r *engine.Rng) {
	c := j.c
	g := j.cs.g
	n := g.N
	var want []string
	limit := 1<<20 + 1
	haveRef := n <= maxListN || j.cs.cliqueSets != nil
	switch {
	case j.cs.cliqueSets != nil:
		want = j.cs.cliqueSets
		limit = len(want) + 1
	case n <= maxListN:
		b := brute.FromRG(g, n)
		for _, s := range b.MaximalCliques() {
			var vs []int
			for v := 0; v < n; v++ {
				if s>>uint(v)&1 == 1 {
					vs = append(vs, v)
				}
			}
			want = append(want, fmt.Sprint(vs))
		}
		sort.Strings(want)
		limit = len(want) + 1 // one value too many is over-production
	case j.cs.ref.nCliques >= 0:
		limit = j.cs.ref.nCliques + 1 // only the number is known (each one is still checked from the definition)
	case n < 20:
		limit = 1<<uint(n) + 1
	}
	buffer := 0
	if r.Bool(0.3) {
		buffer = 1 + r.Intn(4)
	}
	c.Obs("calls:AllMaximalCliques", 1)
	c.Eval(1)
	res := drainCliques(c, j.callKey("AllMaximalCliques"), h, limit, buffer)
	extra := map[string]interface{}{"channel_buffer": buffer}
	if res.pi != nil {
		j.panicked("AllMaximalCliques", "", extra, res.pi)
		return
	}
	if res.over {
		j.violation("AllMaximalCliques", "over-production", "", extra, fmt.Sprintf("more than %d values sent", limit-1), fmt.Sprintf("%d maximal cliques, then close", limit-1))
		return
	}
	if !res.closed {
		j.violation("AllMaximalCliques", "channel-not-closed", "", extra, fmt.Sprintf("producer returned after %d values without closing the channel", len(res.got)), "channel closed after the last clique")
		return
	}
	c.Obs("received_cliques_kept_and_appended_to", len(res.raw))
	if res.shared != "" {
		j.violation("AllMaximalCliques", "received-slices-are-not-values-of-their-own", "", extra, res.shared, "every received clique stays what it was and can be appended to independently")
		return
	}
	var got []string
	seen := map[string]bool{}
	for _, cl := range res.got {
		if p := cliqueProblem(g, cl); p != "" {
			j.violation("AllMaximalCliques", "not-a-maximal-clique", "", extra, fmt.Sprintf("%v: %s", cl, p), "only maximal cliques")
			return
		}
		s := setString(cl)
		if seen[s] {
			j.violation("AllMaximalCliques", "clique-reported-twice", "", extra, fmt.Sprintf("%s sent twice (all: %v)", s, res.got), "each maximal clique exactly once")
			return
		}
		seen[s] = true
		got = append(got, s)
	}
	c.ObsMax("maximal_cliques_in_one_graph", len(got))
	if haveRef {
		sort.Strings(got)
		if strings.Join(got, ";") != strings.Join(want, ";") {
			j.violation("AllMaximalCliques", "wrong-set", "", extra, fmt.Sprintf("%d cliques: %s", len(got), strings.Join(got, " ")), fmt.Sprintf("%d cliques: %s", len(want), strings.Join(want, " ")))
		}
	} else if k := j.cs.ref.nCliques; k >= 0 && len(got) != k {
		// distinct maximal cliques, each verified: a different number means some are missing
		j.violation("AllMaximalCliques", "wrong-set", "", extra, fmt.Sprintf("%d distinct maximal cliques", len(got)), fmt.Sprintf("%d maximal cliques (closed form)", k))
	}
}

// ---------------------------------------------------------------------------
// ChromaticNumber, IsKColorable

func (j *judge) chromaticNumber(h graph.Graph) {
	c := j.c
	r := j.cs.ref
	var got int
	var col []int
	c.Obs("calls:ChromaticNumber", 1)
	c.Eval(1)
	if pi := c.Call(j.callKey("ChromaticNumber"), func() { got, col = graph.ChromaticNumber(h) }); pi != nil {
		j.panicked("ChromaticNumber", "", nil, pi)
		return
	}
	if got != r.chi {
		j.violation("ChromaticNumber", "wrong", "", nil, fmt.Sprintf("%d with colouring %v", got, col), fmt.Sprintf("%d (subset DP / published)", r.chi))
		return
	}
	if p := checkVertexColouring(j.cs.g, col, r.chi, true); p != "" {
		j.violation("ChromaticNumber", "colouring", "", nil, fmt.Sprintf("%s (chi=%d, colouring %v)", p, got, col), fmt.Sprintf("a proper colouring using exactly the colours 0..%d", r.chi-1))
	}
}

func (j *judge) kColorable(h graph.Graph, ks []int) {
	c := j.c
	r := j.cs.ref
	n := j.cs.g.N
	if ks == nil {
		for k := 0; k <= n+1; k++ {
			ks = append(ks, k)
		}
	}
	for _, k := range ks {
		var ok bool
		var col []int
		c.Obs("calls:IsKColorable", 1)
		c.Eval(1)
		extra := map[string]interface{}{"k": k}
		kk := fmt.Sprintf("k=%d", k)
		if pi := c.Call(j.callKey("IsKColorable")+"|"+kk, func() { ok, col = graph.IsKColorable(h, k) }); pi != nil {
			j.panicked("IsKColorable", kk, extra, pi)
			return
		}
		want := k >= r.chi
		if ok != want {
			j.violation("IsKColorable", "wrong", kk, extra, fmt.Sprintf("%v, %v", ok, col), fmt.Sprintf("%v (chi = %d)", want, r.chi))
			return
		}
		if !ok {
			c.Obs("IsKColorable:k<chi(refused)", 1)
			if col != nil {
				j.violation("IsKColorable", "colouring-with-false", kk, extra, fmt.Sprintf("false, %v", col), "false, nil")
				return
			}
			continue
		}
		c.Obs("IsKColorable:k>=chi(witness)", 1)
		if p := checkVertexColouring(j.cs.g, col, k, false); p != "" {
			j.violation("IsKColorable", "colouring", kk, extra, fmt.Sprintf("%s (true, %v)", p, col), fmt.Sprintf("a proper colouring with colours in 0..%d", k-1))
			return
		}
	}
}

// ---------------------------------------------------------------------------
// ChromaticIndex

func (j *judge) chromaticIndex(h graph.Graph) {
	c := j.c
	r := j.cs.ref
	g := j.cs.g
	var got int
	var ce []byte
	c.Obs("calls:ChromaticIndex", 1)
	c.Eval(1)
	if pi := c.Call(j.callKey("ChromaticIndex"), func() { got, ce = graph.ChromaticIndex(h) }); pi != nil {
		j.panicked("ChromaticIndex", "", nil, pi)
		return
	}
	want := r.chiIdx
	if want >= 0 {
		delta := 0
		for v := 0; v < g.N; v++ {
			if d := g.Deg(v); d > delta {
				delta = d
			}
		}
		if g.M() > 0 {
			if want == delta {
				c.Obs("chi_index:class1(Delta)", 1)
			} else {
				c.Obs("chi_index:class2(Delta+1)", 1)
			}
		}
		if got != want {
			j.violation("ChromaticIndex", "wrong", "", nil, fmt.Sprint(got), fmt.Sprintf("%d (Delta = %d; edge-colouring search / published)", want, delta))
			return
		}
	}
	if got > 255 {
		// the documented result type is []byte: more than 255 colours cannot be
		// written down in it.  Recorded, not judged.
		c.Obs("chi_index:witness_not_judged(more than 255 colours do not fit the documented []byte)", 1)
		return
	}
	// the witness certifies "at most got"; with the reference value it is optimal
	c.Eval(1)
	c.Obs("edge_colouring_witness_checked", 1)
	if p := checkEdgeColouring(g, ce, got); p != "" {
		j.violation("ChromaticIndex", "colouring", "", nil, fmt.Sprintf("%s (chi'=%d, edge array %v)", p, got, ce),
			fmt.Sprintf("edge array of length n(n-1)/2 = %d (edge ij at j(j-1)/2+i) with 0 on non-edges and a proper edge colouring with exactly the colours 1..%d", g.N*(g.N-1)/2, got))
	}
}

// ---------------------------------------------------------------------------
// Degeneracy

func (j *judge) degeneracy(h graph.Graph) {
	c := j.c
	r := j.cs.ref
	var got int
	var order []int
	c.Obs("calls:Degeneracy", 1)
	c.Eval(1)
	if pi := c.Call(j.callKey("Degeneracy"), func() { got, order = graph.Degeneracy(h) }); pi != nil {
		j.panicked("Degeneracy", "", nil, pi)
		return
	}
	if r.degen >= 0 && got != r.degen {
		j.violation("Degeneracy", "wrong", "", nil, fmt.Sprintf("%d, order %v", got, order), fmt.Sprintf("%d (largest minimum degree of an induced subgraph)", r.degen))
		return
	}
	if p := checkDegeneracyOrder(j.cs.g, order, got); p != "" {
		j.violation("Degeneracy", "order", "", nil, fmt.Sprintf("%s (d=%d, order %v)", p, got, order), fmt.Sprintf("a permutation of the vertices in which each vertex is preceded by at most %d neighbours", got))
	}
}

// ---------------------------------------------------------------------------
// GreedyColor

func (j *judge) greedy(h graph.Graph, orders [][]int, names []string) {
	c := j.c
	g := j.cs.g
	n := g.N
	for oi, order := range orders {
		var got int
		var col []int
		ord := append([]int(nil), order...)
		c.Obs("calls:GreedyColor", 1)
		c.Eval(1)
		ok := fmt.Sprintf("order=%v", order)
		if len(order) > 16 && oi < len(names) {
			ok = "order=" + names[oi] // the order itself is in the detail
		}
		extra := map[string]interface{}{"order": order}
		if pi := c.Call(j.callKey("GreedyColor")+"|"+ok, func() { got, col = graph.GreedyColor(h, ord) }); pi != nil {
			j.panicked("GreedyColor", ok, extra, pi)
			return
		}
		want := firstFit(g, order)
		if fmt.Sprint(col) != fmt.Sprint(want) && !(n == 0 && len(col) == 0) {
			j.violation("GreedyColor", "not-first-fit", ok, extra, fmt.Sprintf("%d, %v", got, col), fmt.Sprintf("first-fit colouring %v", want))
			return
		}
		if fmt.Sprint(ord) != fmt.Sprint(order) {
			j.violation("GreedyColor", "order-slice-changed", ok, extra, fmt.Sprint(ord), fmt.Sprint(order))
			return
		}
		// the int is documented nowhere: the largest colour (library today) or
		// the number of colours are the two sensible readings; anything else
		// is wrong under both.
		mx := -1
		for _, x := range want {
			if x > mx {
				mx = x
			}
		}
		switch got {
		case mx:
			c.Obs("greedy:int_is_largest_colour", 1)
		case mx + 1:
			c.Obs("greedy:int_is_number_of_colours", 1)
		default:
			j.violation("GreedyColor", "count", ok, extra, fmt.Sprintf("%d with colouring %v", got, col), fmt.Sprintf("%d (largest colour) or %d (number of colours)", mx, mx+1))
			return
		}
	}
}

// ---------------------------------------------------------------------------
// IsProperColouring (the library's own checker, used by its callers)

func (j *judge) properColouringPredicate(h graph.Graph, r *engine.Rng) {
	c := j.c
	g := j.cs.g
	n := g.N
	type tc struct {
		col  []int
		want bool
		what string
	}
	var cases []tc
	proper := firstFit(g, identity(n))
	cases = append(cases, tc{proper, true, "first-fit colouring"})
	shifted := make([]int, n)
	for i := range shifted {
		shifted[i] = proper[i]*3 + 2
	}
	cases = append(cases, tc{shifted, true, "proper with non-contiguous colours"})
	es := g.Edges()
	if len(es) > 0 {
		e := es[r.Intn(len(es))]
		bad := append([]int(nil), proper...)
		bad[e[0]] = bad[e[1]]
		// making the two ends equal leaves that edge monochromatic
		cases = append(cases, tc{bad, false, fmt.Sprintf("edge %d-%d monochromatic", e[0], e[1])})
		e2 := es[len(es)-1]
		bad2 := append([]int(nil), shifted...)
		bad2[e2[1]] = bad2[e2[0]]
		cases = append(cases, tc{bad2, false, fmt.Sprintf("edge %d-%d monochromatic", e2[0], e2[1])})
	}
	if n > 0 {
		neg := append([]int(nil), proper...)
		neg[r.Intn(n)] = -1
		cases = append(cases, tc{neg, false, "contains -1 (documented as a mistake)"})
		cases = append(cases, tc{proper[:n-1], false, "too short"})
	}
	cases = append(cases, tc{append(append([]int(nil), proper...), 0), false, "too long"})
	cases = append(cases, tc{nil, n == 0 && false, "nil"})
	if n > 1 {
		// random colouring with few colours: judged by the definition
		rc := make([]int, n)
		for i := range rc {
			rc[i] = r.Intn(3)
		}
		cases = append(cases, tc{rc, checkVertexColouring(g, rc, 3, false) == "", "random 3-colouring"})
	}
	for _, t := range cases {
		var got bool
		col := make([]int, len(t.col))
		copy(col, t.col)
		c.Obs("calls:IsProperColouring", 1)
		extra := map[string]interface{}{"colouring": t.col, "what": t.what}
		if t.col == nil {
			// documented: nil is not a colouring ("colouring == nil ... false")
			c.Eval(1)
			if pi := c.Call(j.callKey("IsProperColouring")+"|nil", func() { got = graph.IsProperColouring(h, nil) }); pi != nil {
				j.panicked("IsProperColouring", "nil", extra, pi)
				return
			}
			if got && n > 0 {
				j.violation("IsProperColouring", "wrong", "nil", extra, "true", "false (no colouring given)")
				return
			}
			continue
		}
		c.Eval(1)
		w := fmt.Sprintf("colouring=%v", t.col)
		if len(t.col) > 16 {
			w = "colouring=" + t.what // the colouring itself is in the detail
		}
		if pi := c.Call(j.callKey("IsProperColouring")+"|"+w, func() { got = graph.IsProperColouring(h, col) }); pi != nil {
			j.panicked("IsProperColouring", w, extra, pi)
			return
		}
		if got != t.want {
			j.violation("IsProperColouring", "wrong", w, extra, fmt.Sprintf("%v for %s", got, t.what), fmt.Sprint(t.want))
			return
		}
	}
}

// ---------------------------------------------------------------------------
// ChromaticPolynomial

func (j *judge) polynomial(eg graph.EditableGraph, rep string) {
	c := j.c
	r := j.cs.ref
	n := j.cs.g.N
	if r.colCount == nil {
		return
	}
	var p []int
	c.Obs("calls:ChromaticPolynomial|"+rep, 1)
	if pi := c.Call(j.callKey("ChromaticPolynomial"), func() { p = graph.ChromaticPolynomial(eg) }); pi != nil {
		c.Eval(1)
		j.panicked("ChromaticPolynomial", "", nil, pi)
		return
	}
	for k := 0; k <= n+1; k++ {
		c.Eval(1)
		if v := evalPoly(p, k); v.Cmp(r.colCount[k]) != 0 {
			j.violation("ChromaticPolynomial", "wrong", "", map[string]interface{}{"k": k, "coefficients": p},
				fmt.Sprintf("coefficients %v evaluate to %v at k=%d", p, v, k), fmt.Sprintf("%v proper %d-colourings (partitions into independent sets)", r.colCount[k], k))
			return
		}
	}
	// a polynomial of degree <= n is pinned by the n+2 points above; anything
	// beyond x^n has to be zero (the length of the slice itself is not documented)
	if len(p) != n+1 {
		c.Obs("polynomial:coefficient_slice_length_not_n+1", 1)
	}
	for i := n + 1; i < len(p); i++ {
		if p[i] != 0 {
			j.violation("ChromaticPolynomial", "wrong", "", map[string]interface{}{"coefficients": p},
				fmt.Sprintf("coefficients %v: non-zero coefficient of x^%d", p, i), fmt.Sprintf("a polynomial of degree %d", n))
			return
		}
	}
	// the argument must be left as it was
	if rep == "sparse" && strings.HasPrefix(j.cs.workload, "poly-sparse") {
		c.Eval(1)
		var s *snapshot
		if pi := c.Call("observe-representation|sparse|"+j.cs.keyID(), func() { s = takeSnapshot(eg) }); pi != nil {
			j.panicked("ChromaticPolynomial", "argument-unreadable-afterwards", nil, pi)
		} else if d := s.isModel(j.cs.g); d != "" {
			j.violation("ChromaticPolynomial", "argument-graph-changed", "", nil, d, "the graph passed in is unchanged")
		} else if d := s.derived(j.cs.g); d != "" {
			j.violation("ChromaticPolynomial", "argument-graph-changed", "", nil, d, "the graph passed in is unchanged")
		}
	}
}

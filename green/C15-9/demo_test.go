// Demonstration for C15 / change 9 (itertools.RestrictedPrefixPermutations hands its predicate f the prefix with the
// capacity clipped to its length, a[:k+1:k+1], instead of a[:k+1] whose spare capacity is the rest of the iterator's
// working array).
//
// Run (from the root of the library, offline):
//
//	export GOFLAGS=-mod=mod GOPROXY=off GOSUMDB=off GOTOOLCHAIN=local
//	cp /tmp/green-out/C15/9/demo_test.go itertools/zz_c15_demo9_test.go
//	go test -vet=off -count=1 -timeout 300s -run 'TestC15Demo9' -v ./itertools/
//	rm itertools/zz_c15_demo9_test.go
//
// TestC15Demo9Property checks the property itself: for n = 0..7 and a family of prefix predicates (accept all, reject
// all, no fixed point, no descent of size > 2, first entry even, a pseudo-random table of accepted prefixes, a
// predicate that only rejects full permutations) the iterator yields exactly the permutations of {0..n-1} all of whose
// non-empty prefixes are accepted, in lexicographic order, i.e. the same list as filtering LexicographicPermutations,
// and Next returns false on each of 5 further calls.  The predicates only read p[0:len(p)].  Passes on the clean tree
// AND with the change.
//
// TestC15Demo9IncidentalCapacity asserts the OLD incidental behaviour: on every call of f the argument has
// cap(p) == n whatever its length (so p[:cap(p)] shows the stale tail of the working array, and append(p, x) would
// write into the iterator's own storage).  Passes on the clean tree and FAILS with the change (cap(p) == len(p)).
package itertools_test

import (
	"fmt"
	"reflect"
	"testing"

	"github.com/Tom-Johnston/mamba/itertools"
)

type c15d9Pred struct {
	name string
	f    func(p []int) bool
}

func c15d9Preds(n int) []c15d9Pred {
	// pseudo-random but deterministic function of the CONTENT of the prefix
	hash := func(p []int) bool {
		h := uint32(2166136261)
		for _, v := range p {
			h = (h ^ uint32(v+1)) * 16777619
		}
		return h%5 != 0
	}
	return []c15d9Pred{
		{"all", func(p []int) bool { return true }},
		{"none", func(p []int) bool { return false }},
		{"nofixed", func(p []int) bool { return p[len(p)-1] != len(p)-1 }},
		{"smallstep", func(p []int) bool {
			l := len(p)
			return l < 2 || p[l-2]-p[l-1] <= 2
		}},
		{"firsteven", func(p []int) bool { return p[0]%2 == 0 }},
		{"hash", hash},
		{"onlyfull", func(p []int) bool { return len(p) < n || p[0] < p[n-1] }},
	}
}

func c15d9Filter(n int, f func([]int) bool) [][]int {
	var out [][]int
	it := itertools.LexicographicPermutations(n)
	for it.Next() {
		v := it.Value()
		ok := true
		for l := 1; l <= n && ok; l++ {
			q := make([]int, l)
			copy(q, v[:l])
			ok = f(q)
		}
		if ok {
			out = append(out, append([]int{}, v...))
		}
	}
	return out
}

func TestC15Demo9Property(t *testing.T) {
	for n := 0; n <= 7; n++ {
		for _, pr := range c15d9Preds(n) {
			var want [][]int
			if n == 0 {
				want = [][]int{{}} // the empty permutation passes vacuously
			} else {
				want = c15d9Filter(n, pr.f)
			}
			it := itertools.RestrictedPrefixPermutations(n, pr.f)
			var got [][]int
			for it.Next() {
				got = append(got, append([]int{}, it.Value()...))
			}
			for i := 0; i < 5; i++ {
				if it.Next() {
					t.Fatalf("n=%d %s: Next returned true after exhaustion", n, pr.name)
				}
			}
			if len(got) != len(want) || (len(got) > 0 && !reflect.DeepEqual(got, want)) {
				t.Fatalf("n=%d %s: got %d permutations %v, want %d %v", n, pr.name, len(got), got, len(want), want)
			}
		}
	}
}

func TestC15Demo9IncidentalCapacity(t *testing.T) {
	for n := 1; n <= 6; n++ {
		calls := 0
		bad := ""
		it := itertools.RestrictedPrefixPermutations(n, func(p []int) bool {
			calls++
			if cap(p) != n && bad == "" {
				bad = fmt.Sprintf("len(p)=%d cap(p)=%d", len(p), cap(p))
			}
			return true
		})
		count := 0
		for it.Next() {
			count++
		}
		t.Logf("n=%d: %d permutations, %d calls of f, first deviating argument: %q", n, count, calls, bad)
		if bad != "" {
			t.Errorf("n=%d: OLD behaviour is cap(p) == n == %d on every call of f, saw %s", n, n, bad)
		}
	}
}

// Package iso holds the harness's independent isomorphism and automorphism
// oracles: backtracking isomorphism test, automorphism enumeration, orbit
// computation, |Aut| by orbit-stabiliser, and the order of a permutation group
// given by generators (Schreier-Sims).  Nothing here uses the library.
package iso

import (
	"math/big"
	"sort"

	"verif/internal/oracle/rg"
)

// invariant computes a label-independent vertex colouring: iterated
// (colour, sorted multiset of neighbour colours) refinement starting from
// (class, degree).  Returns colour ids that are canonical across graphs
// (ids are assigned by sorting the signatures), so that they can be compared
// between two graphs.
func refine(g *rg.G, cls []int) []int {
	n := g.N
	col := make([]int, n)
	for v := 0; v < n; v++ {
		col[v] = g.Deg(v)
		if cls != nil {
			col[v] += cls[v] * (n + 1)
		}
	}
	nb := make([][]int, n)
	for v := range nb {
		nb[v] = g.Nbrs(v)
	}
	type sig struct {
		c  int
		ns []int
	}
	less := func(a, b sig) int {
		if a.c != b.c {
			if a.c < b.c {
				return -1
			}
			return 1
		}
		if len(a.ns) != len(b.ns) {
			if len(a.ns) < len(b.ns) {
				return -1
			}
			return 1
		}
		for i := range a.ns {
			if a.ns[i] != b.ns[i] {
				if a.ns[i] < b.ns[i] {
					return -1
				}
				return 1
			}
		}
		return 0
	}
	distinct := func(c []int) int {
		m := map[int]bool{}
		for _, x := range c {
			m[x] = true
		}
		return len(m)
	}
	cur := distinct(col)
	for round := 0; round < n; round++ {
		sigs := make([]sig, n)
		for v := 0; v < n; v++ {
			ns := make([]int, len(nb[v]))
			for i, u := range nb[v] {
				ns[i] = col[u]
			}
			sort.Ints(ns)
			sigs[v] = sig{col[v], ns}
		}
		order := make([]int, n)
		for i := range order {
			order[i] = i
		}
		sort.Slice(order, func(a, b int) bool { return less(sigs[order[a]], sigs[order[b]]) < 0 })
		newCol := make([]int, n)
		id := 0
		for i, v := range order {
			if i > 0 && less(sigs[order[i-1]], sigs[v]) != 0 {
				id++
			}
			newCol[v] = id
		}
		// make ids comparable across graphs: encode as rank only (both graphs
		// go through the same procedure; equal multisets of signatures give
		// equal ids)
		col = newCol
		d := id + 1
		if d == cur {
			break
		}
		cur = d
	}
	return col
}

// Invariant returns a label-independent hash of g (used for bucketing).
func Invariant(g *rg.G) uint64 {
	col := refine(g, nil)
	// histogram of (colour, degree) and of colour pairs over edges
	h := uint64(1469598103934665603)
	mix := func(x uint64) {
		h ^= x
		h *= 1099511628211
	}
	n := g.N
	mix(uint64(n))
	mix(uint64(g.M()))
	cnt := map[int]int{}
	for _, c := range col {
		cnt[c]++
	}
	keys := make([]int, 0, len(cnt))
	for k := range cnt {
		keys = append(keys, k)
	}
	sort.Ints(keys)
	for _, k := range keys {
		mix(uint64(k)<<20 | uint64(cnt[k]))
	}
	ec := map[[2]int]int{}
	for _, e := range g.Edges() {
		a, b := col[e[0]], col[e[1]]
		if a > b {
			a, b = b, a
		}
		ec[[2]int{a, b}]++
	}
	eks := make([][2]int, 0, len(ec))
	for k := range ec {
		eks = append(eks, k)
	}
	sort.Slice(eks, func(i, j int) bool {
		if eks[i][0] != eks[j][0] {
			return eks[i][0] < eks[j][0]
		}
		return eks[i][1] < eks[j][1]
	})
	for _, k := range eks {
		mix(uint64(k[0])<<40 | uint64(k[1])<<20 | uint64(ec[k]))
	}
	// triangles per colour
	tri := map[int]int{}
	for v := 0; v < n; v++ {
		nb := g.Nbrs(v)
		t := 0
		for i := range nb {
			for j := 0; j < i; j++ {
				if g.Has(nb[i], nb[j]) {
					t++
				}
			}
		}
		tri[col[v]] += t
	}
	for _, k := range keys {
		mix(uint64(tri[k]))
	}
	return h
}

// FindIsomorphism returns p with b.Has(p[i],p[j]) == a.Has(i,j) for all i,j
// (a vertex i of a is mapped to p[i] of b), respecting classes if given
// (clsA[i] == clsB[p[i]]), or nil if none exists.  Individualisation +
// refinement search; every returned map is verified edge by edge.
func FindIsomorphism(a, b *rg.G, clsA, clsB []int) []int {
	if a.N != b.N || a.M() != b.M() {
		return nil
	}
	n := a.N
	ca := make([]int, n)
	cb := make([]int, n)
	if clsA != nil {
		copy(ca, clsA)
		copy(cb, clsB)
	}
	return irSearch(a, b, ca, cb)
}

func histEqual(ca, cb []int) bool {
	ha := map[int]int{}
	for _, c := range ca {
		ha[c]++
	}
	for _, c := range cb {
		ha[c]--
	}
	for _, v := range ha {
		if v != 0 {
			return false
		}
	}
	return true
}

// irSearch: clsA/clsB are the current (already individualised) classes.
func irSearch(a, b *rg.G, clsA, clsB []int) []int {
	n := a.N
	ca := refine(a, clsA)
	cb := refine(b, clsB)
	if !histEqual(ca, cb) {
		return nil
	}
	// find the smallest non-singleton colour (ties: least colour id)
	cnt := map[int]int{}
	for _, c := range ca {
		cnt[c]++
	}
	best, bestSize := -1, n+1
	for c, k := range cnt {
		if k > 1 && (k < bestSize || (k == bestSize && c < best)) {
			best, bestSize = c, k
		}
	}
	if best < 0 {
		// discrete: the map is forced
		pos := make(map[int]int, n)
		for w, c := range cb {
			pos[c] = w
		}
		p := make([]int, n)
		for v, c := range ca {
			p[v] = pos[c]
		}
		for i := 0; i < n; i++ {
			for j := 0; j < i; j++ {
				if a.Has(i, j) != b.Has(p[i], p[j]) {
					return nil
				}
			}
		}
		return p
	}
	v := -1
	for x, c := range ca {
		if c == best {
			v = x
			break
		}
	}
	na := make([]int, n)
	for x := range na {
		na[x] = 2 * ca[x]
	}
	na[v]++
	nb := make([]int, n)
	for w := 0; w < n; w++ {
		if cb[w] != best {
			continue
		}
		for x := range nb {
			nb[x] = 2 * cb[x]
		}
		nb[w]++
		if p := irSearch(a, b, na, nb); p != nil {
			return p
		}
	}
	return nil
}

// Isomorphic reports whether a and b are isomorphic.
func Isomorphic(a, b *rg.G) bool { return FindIsomorphism(a, b, nil, nil) != nil }

// IsAutomorphism reports whether p is a permutation of the vertices that
// preserves adjacency (and classes, if cls != nil).
func IsAutomorphism(g *rg.G, p []int, cls []int) bool {
	n := g.N
	if len(p) != n {
		return false
	}
	seen := make([]bool, n)
	for _, x := range p {
		if x < 0 || x >= n || seen[x] {
			return false
		}
		seen[x] = true
	}
	for i := 0; i < n; i++ {
		if cls != nil && cls[i] != cls[p[i]] {
			return false
		}
		for j := 0; j < i; j++ {
			if g.Has(i, j) != g.Has(p[i], p[j]) {
				return false
			}
		}
	}
	return true
}

// AutInfo is the result of the automorphism oracle.
type AutInfo struct {
	Order *big.Int
	Orbit []int // Orbit[v] = least vertex of the orbit of v
}

// Automorphisms computes |Aut(g)| and the orbit partition (class-preserving if
// cls != nil) by the orbit-stabiliser theorem: with base b_1..b_k chosen until
// the pointwise stabiliser is trivial (individualised refinement discrete),
// |Aut| = prod_i |orbit of b_i under the pointwise stabiliser of b_1..b_{i-1}|;
// each orbit member is certified by an explicit, verified automorphism found
// by the individualisation-refinement search.  Orbits of the full group are
// the closure of the identity partition under all automorphisms found, which
// include a strong generating set.
func Automorphisms(g *rg.G, cls []int) AutInfo {
	n := g.N
	uf := make([]int, n)
	for i := range uf {
		uf[i] = i
	}
	var find func(x int) int
	find = func(x int) int {
		for uf[x] != x {
			uf[x] = uf[uf[x]]
			x = uf[x]
		}
		return x
	}
	union := func(a, b int) {
		a, b = find(a), find(b)
		if a == b {
			return
		}
		if b < a {
			a, b = b, a
		}
		uf[b] = a
	}
	cur := make([]int, n)
	if cls != nil {
		copy(cur, cls)
	}
	total := big.NewInt(1)
	for {
		col := refine(g, cur)
		cnt := map[int]int{}
		for _, c := range col {
			cnt[c]++
		}
		best, bestSize := -1, n+1
		for c, k := range cnt {
			if k > 1 && (k < bestSize || (k == bestSize && c < best)) {
				best, bestSize = c, k
			}
		}
		if best < 0 {
			break
		}
		b := -1
		for x, c := range col {
			if c == best {
				b = x
				break
			}
		}
		na := make([]int, n)
		for x := range na {
			na[x] = 2 * col[x]
		}
		na[b]++
		images := 1
		nb := make([]int, n)
		for w := 0; w < n; w++ {
			if w == b || col[w] != best {
				continue
			}
			for x := range nb {
				nb[x] = 2 * col[x]
			}
			nb[w]++
			if p := irSearch(g, g, na, nb); p != nil {
				images++
				for v := 0; v < n; v++ {
					union(v, p[v])
				}
			}
		}
		total.Mul(total, big.NewInt(int64(images)))
		cur = na // b stays individualised
	}
	orb := make([]int, n)
	for v := range orb {
		orb[v] = find(v)
	}
	return AutInfo{Order: total, Orbit: orb}
}

// EnumerateAutomorphisms calls visit for every automorphism (small groups).
func EnumerateAutomorphisms(g *rg.G, cls []int, visit func(p []int) bool) {
	n := g.N
	col := refine(g, cls)
	p := make([]int, n)
	used := make([]bool, n)
	stop := false
	var rec func(v int)
	rec = func(v int) {
		if stop {
			return
		}
		if v == n {
			if !visit(p) {
				stop = true
			}
			return
		}
		for w := 0; w < n; w++ {
			if used[w] || col[w] != col[v] {
				continue
			}
			ok := true
			for u := 0; u < v; u++ {
				if g.Has(u, v) != g.Has(p[u], w) {
					ok = false
					break
				}
			}
			if !ok {
				continue
			}
			p[v] = w
			used[w] = true
			rec(v + 1)
			used[w] = false
			if stop {
				return
			}
		}
	}
	rec(0)
}

// ---------------------------------------------------------------------------
// Schreier-Sims: order of the group generated by gens on n points.

type ssLevel struct {
	base  int
	orbit []int   // points
	trans [][]int // trans[point] = permutation mapping base -> point (nil if not in orbit)
	gens  [][]int
}

func compose(a, b []int) []int { // (a then b): x -> b[a[x]]
	r := make([]int, len(a))
	for i := range a {
		r[i] = b[a[i]]
	}
	return r
}

func inverse(a []int) []int {
	r := make([]int, len(a))
	for i, v := range a {
		r[v] = i
	}
	return r
}

func isID(a []int) bool {
	for i, v := range a {
		if i != v {
			return false
		}
	}
	return true
}

// GroupOrder returns |<gens>| for permutations of 0..n-1 (gens[i][x] = image
// of x).  It panics if a generator is not a permutation.
func GroupOrder(n int, gens [][]int) *big.Int {
	for _, g := range gens {
		if len(g) != n {
			panic("GroupOrder: generator of wrong length")
		}
		seen := make([]bool, n)
		for _, x := range g {
			if x < 0 || x >= n || seen[x] {
				panic("GroupOrder: generator is not a permutation")
			}
			seen[x] = true
		}
	}
	var levels []*ssLevel
	// sift returns the residue and the level where it got stuck
	var sift func(p []int, from int) ([]int, int)
	sift = func(p []int, from int) ([]int, int) {
		for l := from; l < len(levels); l++ {
			lv := levels[l]
			img := p[lv.base]
			t := lv.trans[img]
			if t == nil {
				return p, l
			}
			p = compose(p, inverse(t))
		}
		return p, len(levels)
	}
	rebuild := func(lv *ssLevel) {
		lv.orbit = []int{lv.base}
		lv.trans = make([][]int, n)
		id := make([]int, n)
		for i := range id {
			id[i] = i
		}
		lv.trans[lv.base] = id
		for qi := 0; qi < len(lv.orbit); qi++ {
			x := lv.orbit[qi]
			for _, g := range lv.gens {
				y := g[x]
				if lv.trans[y] == nil {
					lv.trans[y] = compose(lv.trans[x], g)
					lv.orbit = append(lv.orbit, y)
				}
			}
		}
	}
	// addGen adds p (which fixes the base points of the levels above l) to the
	// generators of level l and restores the invariant "levels[l:] is a base
	// and strong generating set of <levels[l].gens>": every Schreier generator
	// of level l must sift to the identity through levels[l+1:]; one that does
	// not is added to level l+1 recursively (Schreier's lemma).
	var addGen func(p []int, l int)
	addGen = func(p []int, l int) {
		if l == len(levels) {
			b := -1
			for i, v := range p {
				if i != v {
					b = i
					break
				}
			}
			levels = append(levels, &ssLevel{base: b})
		}
		lv := levels[l]
		lv.gens = append(lv.gens, p)
		rebuild(lv)
		for _, x := range lv.orbit {
			for _, g := range lv.gens {
				y := g[x]
				sg := compose(compose(lv.trans[x], g), inverse(lv.trans[y]))
				if isID(sg) {
					continue
				}
				res, _ := sift(sg, l+1)
				if !isID(res) {
					addGen(res, l+1)
				}
			}
		}
	}
	for _, g := range gens {
		res, _ := sift(g, 0)
		if !isID(res) {
			addGen(g, 0)
		}
	}
	total := big.NewInt(1)
	for _, lv := range levels {
		total.Mul(total, big.NewInt(int64(len(lv.orbit))))
	}
	return total
}

// OrbitsOf returns, for the group generated by gens on n points, the least
// element of the orbit of each point.
func OrbitsOf(n int, gens [][]int) []int {
	uf := make([]int, n)
	for i := range uf {
		uf[i] = i
	}
	var find func(x int) int
	find = func(x int) int {
		for uf[x] != x {
			uf[x] = uf[uf[x]]
			x = uf[x]
		}
		return x
	}
	for _, g := range gens {
		for i, v := range g {
			a, b := find(i), find(v)
			if a != b {
				if b < a {
					a, b = b, a
				}
				uf[b] = a
			}
		}
	}
	r := make([]int, n)
	for i := range r {
		r[i] = find(i)
	}
	return r
}

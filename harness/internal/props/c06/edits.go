package c06

// Edit chains under live views, and independence of several results.
//
// (1) Live views (Complement(g), InducedSubgraph(g,V), Complement of an induced
// view, induced view of a complement view; several of them on one graph) are
// taken BEFORE a chain of edits of g, every observer of every view is called
// (so that anything a view remembers is populated), then after the edit steps
// every observer of every view is compared with the model again.  The edits
// include steps that leave the number of edges unchanged (an edge moved, two
// edges swapped, add + remove in either order) and views are deliberately NOT
// read after some steps, so that several edits lie between two reads.
//
// (2) Several graph values that come out of one call or of one source
// (MulticodeDecodeMultiple; Copy / InducedSubgraph copies of one graph and the
// graph itself) are independent: editing one of them (incl. AddVertex, which
// grows in place, and RemoveVertex) changes none of the others.

import (
	"fmt"

	"github.com/Tom-Johnston/mamba/graph"

	"verif/internal/engine"
	"verif/internal/gen"
	"verif/internal/oracle/rg"
)

// viewSpec describes a live view over the edited graph g.
//
//	"C"  Complement(g)
//	"I"  InducedSubgraph(g, V)
//	"CI" Complement(InducedSubgraph(g, V))
//	"IC" InducedSubgraph(Complement(g), V)
type viewSpec struct {
	kind string
	V    []int
}

func (v viewSpec) String() string {
	switch v.kind {
	case "C":
		return "Complement(g)"
	case "I":
		return fmt.Sprintf("InducedSubgraph(g,%v)", v.V)
	case "CI":
		return fmt.Sprintf("Complement(InducedSubgraph(g,%v))", v.V)
	}
	return fmt.Sprintf("InducedSubgraph(Complement(g),%v)", v.V)
}

func (v viewSpec) build(h graph.Graph) graph.Graph {
	V := append([]int{}, v.V...)
	switch v.kind {
	case "C":
		return graph.Complement(h)
	case "I":
		return graph.InducedSubgraph(h, V)
	case "CI":
		return graph.Complement(graph.InducedSubgraph(h, V))
	}
	return graph.InducedSubgraph(graph.Complement(h), V)
}

func (v viewSpec) model(m *rg.G) *rg.G {
	switch v.kind {
	case "C":
		return m.Complement()
	case "I":
		return m.Induced(v.V)
	case "CI":
		return m.Induced(v.V).Complement()
	}
	return m.Complement().Induced(v.V)
}

// defined: every vertex of V still exists (otherwise the view is unspecified).
func (v viewSpec) defined(m *rg.G) bool {
	for _, x := range v.V {
		if x >= m.N {
			return false
		}
	}
	return true
}

type liveView struct {
	spec viewSpec
	v    graph.Graph
	api  string
}

// fixedViews: the views used by the exhaustive part on a graph with n vertices.
func fixedViews(n int) []viewSpec {
	rev := make([]int, n)
	for i := range rev {
		rev[i] = n - 1 - i
	}
	var odd []int // 1, 3, .., then 0: a proper subset in a non-monotone order
	for i := 1; i < n; i += 2 {
		odd = append(odd, i)
	}
	if n > 0 {
		odd = append(odd, 0)
	}
	butLast := []int{}
	for i := 0; i+1 < n; i++ {
		butLast = append(butLast, i)
	}
	butFirst := []int{}
	for i := n - 1; i >= 1; i-- {
		butFirst = append(butFirst, i)
	}
	return []viewSpec{{"C", nil}, {"I", rev}, {"I", odd}, {"CI", butLast}, {"IC", butFirst}}
}

func randomViews(rnd *engine.Rng, n int) []viewSpec {
	sub := func() []int {
		p := rnd.Perm(n)
		k := n
		if n > 0 && rnd.Bool(0.6) {
			k = 1 + rnd.Intn(n)
		}
		return p[:k]
	}
	vs := []viewSpec{{"C", nil}, {"I", sub()}, {"I", sub()}, {"CI", sub()}, {"IC", sub()}}
	if rnd.Bool(0.3) {
		vs = append(vs, viewSpec{"I", rnd.Perm(n)})
	}
	return vs
}

// readInterleaved asks all views for Neighbours vertex by vertex in turn (and
// for Degrees in between) and compares the answers with the model.
func (r *runner) readInterleaved(caseKey string, detail interface{}, prefix string, views []liveView, m *rg.G) bool {
	c := r.c
	type ans struct {
		nb  [][]int
		deg []int
	}
	res := make([]ans, len(views))
	models := make([]*rg.G, len(views))
	maxN := 0
	for k, lv := range views {
		if lv.spec.defined(m) {
			models[k] = lv.spec.model(m)
			res[k].nb = make([][]int, models[k].N)
			if models[k].N > maxN {
				maxN = models[k].N
			}
		}
	}
	var at int
	pi := c.Call(caseKey+"|interleaved reads", func() {
		for v := 0; v < maxN; v++ {
			for k, lv := range views {
				at = k
				if models[k] != nil && v < models[k].N {
					res[k].nb[v] = lv.v.Neighbours(v)
					if v == models[k].N/2 {
						res[k].deg = lv.v.Degrees()
					}
				}
			}
		}
	})
	if pi != nil {
		c.Eval(1)
		r.fail(views[at].api, prefix+"interleaved-reads:panic@"+engine.SiteNoLine(pi.Site), "", detail, pi.String(), "Neighbours / Degrees return")
		return false
	}
	for k, lv := range views {
		if models[k] == nil {
			continue
		}
		c.Eval(1)
		c.Obs("probe:views read vertex by vertex in turn", 1)
		for v := 0; v < models[k].N; v++ {
			if !eqInts(res[k].nb[v], models[k].Nbrs(v)) {
				r.fail(lv.api, prefix+"interleaved-reads:Neighbours", "", detail, fmt.Sprintf("%s: Neighbours(%d)=%v", lv.spec, v, res[k].nb[v]), fmt.Sprintf("%v; the view shows %s", models[k].Nbrs(v), brief(models[k])))
				return false
			}
		}
		if res[k].deg != nil && !eqInts(res[k].deg, models[k].Degrees()) {
			r.fail(lv.api, prefix+"interleaved-reads:Degrees", "", detail, fmt.Sprintf("%s: Degrees()=%v", lv.spec, res[k].deg), fmt.Sprint(models[k].Degrees()))
			return false
		}
	}
	return true
}

// runEditChain: views are built and fully read, then ops are applied; after
// the steps selected by readAfter (bit k = step k+1; the last step is always
// read) the value and all views are read and judged.
func (r *runner) runEditChain(st chainStart, specs []viewSpec, ops []chainOp, readAfter uint) bool {
	c := r.c
	os := opsString(ops)
	caseKey := fmt.Sprintf("edit-chain|%s|%s|%s|%v|%s|%b", st.repr, st.source, st.id, specs, os, readAfter)
	step := 0
	detail := lazyDetail(func() interface{} {
		vs := make([]string, len(specs))
		for i, s := range specs {
			vs[i] = s.String()
		}
		return map[string]interface{}{"api": "live views read before and after edits of the underlying graph", "representation": st.repr, "start_value_from": st.source, "start": st.id, "start_graph": brief(st.model), "views_taken_and_read_before_the_edits": vs, "ops": os, "views_read_after_steps_mask": fmt.Sprintf("%b", readAfter), "judged_after_step": step}
	})
	h := st.build(caseKey + "|build")
	if h == nil {
		return true
	}
	if st.variant {
		c.Obs("edit chains under live views of a graph in a representation variant or made from a free-form input|"+st.repr, 1)
	}
	views := make([]liveView, len(specs))
	if pi := c.Call(caseKey+"|views", func() {
		for k, s := range specs {
			views[k] = liveView{spec: s, v: s.build(h), api: "edit-chain|" + st.repr + "|view " + s.kind}
		}
	}); pi != nil {
		c.Obs("edit_chain_views_could_not_be_built", 1)
		return true
	}
	api := "edit-chain|" + st.repr
	m := st.model
	readAll := func(prefix string) bool {
		if r.check(api, caseKey, "", prefix, detail, h, m) == nil {
			return false
		}
		if !r.readInterleaved(caseKey, detail, prefix, views, m) {
			return false
		}
		for _, lv := range views {
			if !lv.spec.defined(m) {
				c.Obs("not_judged:edit-chain: a vertex of a view no longer exists (unspecified)", 1)
				continue
			}
			if r.check(lv.api, caseKey+"|"+lv.spec.kind, "", prefix, detail, lv.v, lv.spec.model(m)) == nil {
				return false
			}
		}
		return true
	}
	// every observer of every view is called before the first edit
	if !readAll("before-the-edits:") {
		return false
	}
	c.Obs("edit chains under live views", 1)
	unread := 0
	for k, o := range ops {
		o := o
		before := m.M()
		pi := c.Call(caseKey, func() { applyLib(h, o) })
		step = k + 1
		if pi != nil {
			c.Eval(1)
			r.fail(api, "after-"+o.name()+":panic@"+engine.SiteNoLine(pi.Site), "", detail, pi.String(), "the operation returns")
			return false
		}
		m = applyModel(m, o)
		unread++
		if k != len(ops)-1 && readAfter>>uint(k)&1 == 0 {
			continue
		}
		if m.M() == before && m.N == st.model.N {
			c.Obs("probe:views re-read after edits that changed edges but not the number of edges", 1)
		}
		if unread > 1 {
			c.Obs("probe:views re-read after several unread edit steps", 1)
		}
		unread = 0
		c.Obs("probe:views re-read after "+o.name(), 1)
		if !readAll("after-" + o.name() + ":") {
			return false
		}
	}
	return true
}

// editOpsAt: the edit alphabet on the model m (all single edge edits, all
// moves of an edge to a non-edge in both orders, all swaps of two disjoint edges).
func editOpsAt(m *rg.G) []chainOp {
	var ops []chainOp
	var edges, non [][2]int
	for j := 0; j < m.N; j++ {
		for i := 0; i < j; i++ {
			if m.Has(i, j) {
				edges = append(edges, [2]int{i, j})
			} else {
				non = append(non, [2]int{i, j})
			}
		}
	}
	for _, e := range edges {
		ops = append(ops, chainOp{kind: 'r', i: e[1], j: e[0]})
	}
	for _, e := range non {
		ops = append(ops, chainOp{kind: 'a', i: e[0], j: e[1]})
	}
	for _, e := range edges {
		for _, f := range non {
			ops = append(ops, chainOp{kind: 'm', i: e[0], j: e[1], k: f[1], l: f[0]})
			ops = append(ops, chainOp{kind: 'x', i: e[1], j: e[0], k: f[0], l: f[1]})
		}
	}
	for a := range edges {
		for b := 0; b < a; b++ {
			e, f := edges[a], edges[b]
			if e[0] == f[0] || e[0] == f[1] || e[1] == f[0] || e[1] == f[1] {
				continue
			}
			// ab, cd -> ac, bd and ad, bc (only if the new pairs are non-edges: a proper 2-switch)
			if !m.Has(e[0], f[0]) && !m.Has(e[1], f[1]) {
				ops = append(ops, chainOp{kind: 'w', i: e[0], j: e[1], k: f[0], l: f[1]})
			}
			if !m.Has(e[0], f[1]) && !m.Has(e[1], f[0]) {
				ops = append(ops, chainOp{kind: 'w', i: e[0], j: e[1], k: f[1], l: f[0]})
			}
		}
	}
	return ops
}

func randomPair(rnd *engine.Rng, n int) (int, int) {
	i := rnd.Intn(n)
	j := (i + 1 + rnd.Intn(n-1)) % n
	return i, j
}

// randomEditOps: a chain of edits; with withVertexOps also Contract / SplitEdge
// / AddVertex / RemoveVertex.
func randomEditOps(rnd *engine.Rng, m *rg.G, L int, withVertexOps bool) []chainOp {
	var ops []chainOp
	for len(ops) < L {
		n := m.N
		if n < 2 {
			if !withVertexOps {
				break
			}
			var nb []int
			if n == 1 && rnd.Bool(0.5) {
				nb = []int{0}
			}
			o := chainOp{kind: 'v', list: nb}
			ops = append(ops, o)
			m = applyModel(m, o)
			continue
		}
		var edges, non [][2]int
		for j := 0; j < n; j++ {
			for i := 0; i < j; i++ {
				if m.Has(i, j) {
					edges = append(edges, [2]int{i, j})
				} else {
					non = append(non, [2]int{i, j})
				}
			}
		}
		flip := func(e [2]int) (int, int) {
			if rnd.Bool(0.5) {
				return e[1], e[0]
			}
			return e[0], e[1]
		}
		var o chainOp
		x := rnd.Intn(100)
		if withVertexOps && x < 30 {
			i, j := randomPair(rnd, n)
			switch {
			case x < 8:
				o = chainOp{kind: 'c', i: i, j: j}
			case x < 16 && n <= 14:
				o = chainOp{kind: 's', i: i, j: j}
			case x < 23 && n <= 14:
				p := rnd.Perm(n)
				o = chainOp{kind: 'v', list: p[:rnd.Intn(n+1)]}
			default:
				o = chainOp{kind: 'd', i: i}
			}
		} else {
			switch {
			case len(edges) > 0 && len(non) > 0 && x < 65:
				e, f := edges[rnd.Intn(len(edges))], non[rnd.Intn(len(non))]
				k := byte('m')
				if rnd.Bool(0.4) {
					k = 'x'
				}
				o = chainOp{kind: k}
				o.i, o.j = flip(e)
				o.k, o.l = flip(f)
			case len(edges) >= 2 && x < 75:
				e, f := edges[rnd.Intn(len(edges))], edges[rnd.Intn(len(edges))]
				if e == f || e[0] == f[0] || e[0] == f[1] || e[1] == f[0] || e[1] == f[1] || m.Has(e[0], f[0]) || m.Has(e[1], f[1]) {
					i, j := randomPair(rnd, n)
					o = chainOp{kind: 'a', i: i, j: j}
				} else {
					o = chainOp{kind: 'w', i: e[0], j: e[1], k: f[0], l: f[1]}
				}
			case x < 88:
				i, j := randomPair(rnd, n)
				if rnd.Bool(0.1) {
					j = i
				}
				o = chainOp{kind: 'a', i: i, j: j}
			default:
				i, j := randomPair(rnd, n)
				if len(edges) > 0 && rnd.Bool(0.7) {
					i, j = flip(edges[rnd.Intn(len(edges))])
				}
				o = chainOp{kind: 'r', i: i, j: j}
			}
		}
		ops = append(ops, o)
		m = applyModel(m, o)
	}
	return ops
}

// ---------------------------------------------------------------------------
// independence of several results

// checkGroup judges every member of a group of values against its model.
func (r *runner) checkGroup(api, caseKey, prefix string, detail interface{}, vals []graph.Graph, models []*rg.G, names []string, edited int) bool {
	for j := range vals {
		a := api + "|" + names[j]
		p := prefix
		if edited >= 0 && j != edited {
			p += "another-value-changed:"
		}
		if r.check(a, caseKey+"|"+fmt.Sprint(j), "", p, detail, vals[j], models[j]) == nil {
			return false
		}
		if edited >= 0 && j != edited {
			r.c.Obs("probe:"+api+": other results re-read after one was edited", 1)
		}
	}
	return true
}

// multicodeMultiple decodes the concatenation of the Multicode records of gs,
// judges every result, then edits the results one after the other and
// re-reads all of them after every step.
func (r *runner) multicodeMultiple(gs []*rg.G, opsFor func(target int, m *rg.G) []chainOp, tag string) {
	c := r.c
	var code []byte
	ids := make([]string, len(gs))
	for i, g := range gs {
		if rnd := graphRand(c, "multi:free-order", g); tag == "seeded" && g.N >= 3 && rnd.Bool(0.5) {
			// the larger neighbours of a vertex in an order of the writer's own (variants.go)
			rec, unordered := freeMulticode(g, rnd)
			code = append(code, rec...)
			if unordered > 0 {
				c.Obs("MulticodeDecodeMultiple records with a neighbour list not in ascending order", 1)
			}
		} else {
			code = append(code, refMulticode(g)...)
		}
		ids[i] = gid(g)
	}
	caseKey := fmt.Sprintf("MulticodeDecodeMultiple|%v|%s", code, tag)
	var opsDone []string
	detail := lazyDetail(func() interface{} {
		return map[string]interface{}{"api": "MulticodeDecodeMultiple", "records": ids, "code": fmt.Sprint(code), "edits_of_the_results": opsDone}
	})
	arg := append([]byte{}, code...)
	var res []*graph.DenseGraph
	if pi := c.Call(caseKey, func() { res = graph.MulticodeDecodeMultiple(arg) }); pi != nil {
		c.Obs("not_judged:MulticodeDecodeMultiple panicked on a valid stream (codec: C07)", 1)
		return
	}
	if len(res) != len(gs) {
		c.Obs("not_judged:MulticodeDecodeMultiple returned another number of graphs (codec: C07)", 1)
		return
	}
	api := "MulticodeDecodeMultiple"
	vals := make([]graph.Graph, len(res))
	models := make([]*rg.G, len(res))
	names := make([]string, len(res))
	for i := range res {
		vals[i] = res[i]
		models[i] = gs[i]
		names[i] = "result"
	}
	c.Obs(fmt.Sprintf("MulticodeDecodeMultiple streams of %d records", len(gs)), 1)
	if !r.checkGroup(api, caseKey, "", detail, vals, models, names, -1) {
		return
	}
	for i := range arg {
		arg[i] = 1
	}
	if !r.checkGroup(api, caseKey, "after-caller-modified-slice:", detail, vals, models, names, -1) {
		return
	}
	for t := range res {
		for _, o := range opsFor(t, models[t]) {
			o := o
			opsDone = append(opsDone, fmt.Sprintf("result[%d]: %s", t, o))
			if pi := c.Call(caseKey+"|edit", func() { applyLib(res[t], o) }); pi != nil {
				c.Obs("not_judged:edit of a decoded graph panicked (editing: C05)", 1)
				return
			}
			models[t] = applyModel(models[t], o)
			names[t] = "edited-result"
			if !r.checkGroup(api, caseKey+"|"+fmt.Sprint(len(opsDone)), "after-"+o.name()+"-of-one-result:", detail, vals, models, names, t) {
				return
			}
		}
	}
}

// siblings: a graph, two Copy() results and an InducedSubgraph (identity and
// reversed) copy of it are independent values: edit one, re-read all.
func (r *runner) siblings(st chainStart, rnd *engine.Rng, steps int) {
	c := r.c
	n := st.model.N
	caseKey := fmt.Sprintf("siblings|%s|%s|%s|%d", st.repr, st.source, st.id, steps)
	var opsDone []string
	detail := lazyDetail(func() interface{} {
		return map[string]interface{}{"api": "Copy / InducedSubgraph copies of one graph", "representation": st.repr, "start_value_from": st.source, "start": st.id, "edits": opsDone}
	})
	src := st.build(caseKey + "|build")
	if src == nil {
		return
	}
	if st.variant {
		c.Obs("copies-of-one-graph from a value in a representation variant or made from a free-form input|"+st.repr, 1)
	}
	id := make([]int, n)
	rev := make([]int, n)
	for i := range id {
		id[i] = i
		rev[i] = n - 1 - i
	}
	var eds []graph.EditableGraph
	if pi := c.Call(caseKey+"|copies", func() {
		eds = []graph.EditableGraph{src, src.Copy(), src.Copy(), src.InducedSubgraph(id), src.InducedSubgraph(rev)}
	}); pi != nil {
		c.Obs("not_judged:Copy / InducedSubgraph panicked (C05)", 1)
		return
	}
	names := []string{"source", "Copy", "Copy", "InducedSubgraph", "InducedSubgraph"}
	models := []*rg.G{st.model, st.model, st.model, st.model, st.model.Induced(rev)}
	vals := make([]graph.Graph, len(eds))
	for i := range eds {
		vals[i] = eds[i]
	}
	api := "copies-of-one-graph|" + st.repr
	if !r.checkGroup(api, caseKey, "", detail, vals, models, names, -1) {
		return
	}
	for s := 0; s < steps; s++ {
		t := rnd.Intn(len(eds))
		ops := randomEditOps(rnd, models[t], 1, true)
		if len(ops) == 0 {
			return
		}
		o := ops[0]
		opsDone = append(opsDone, fmt.Sprintf("%s[%d]: %s", names[t], t, o))
		if pi := c.Call(caseKey+"|edit", func() { applyLib(eds[t], o) }); pi != nil {
			c.Obs("not_judged:edit of a copy panicked (editing: C05)", 1)
			return
		}
		models[t] = applyModel(models[t], o)
		if !r.checkGroup(api, caseKey+"|"+fmt.Sprint(s), "after-"+o.name()+"-of-one-value:", detail, vals, models, names, t) {
			return
		}
	}
}

// ---------------------------------------------------------------------------

func recordGraphs() []*rg.G {
	return []*rg.G{rg.New(0), rg.New(1), refComplete(2), rg.New(2), refPath(3), refComplete(3), refComplete(4), refPath(5), refStar(4)}
}

// growShrinkOps: the single edits of one decoded result used by the exhaustive part.
func growShrinkOps(m *rg.G) [][]chainOp {
	n := m.N
	all := make([]int, n)
	for i := range all {
		all[i] = i
	}
	r := [][]chainOp{
		{{kind: 'v', list: all}},
		{{kind: 'v', list: nil}},
		{{kind: 'v', list: all}, {kind: 'v', list: all}},
	}
	if n >= 1 {
		r = append(r, []chainOp{{kind: 'd', i: 0}}, []chainOp{{kind: 'd', i: n - 1}, {kind: 'v', list: all[:n-1]}}, []chainOp{{kind: 'v', list: []int{0}}})
	}
	if n >= 2 {
		r = append(r, []chainOp{{kind: 'a', i: 0, j: n - 1}}, []chainOp{{kind: 'r', i: 0, j: 1}}, []chainOp{{kind: 's', i: 0, j: 1}})
	}
	if n >= 3 {
		r = append(r, []chainOp{{kind: 'c', i: 0, j: 1}, {kind: 's', i: 0, j: n - 2}})
	}
	return r
}

func editUnits(c *engine.Ctx) []unit {
	var us []unit
	thorough := c.Thorough()
	// 1a. all labelled graphs n <= 4: every chain of <= 2 steps of the edit
	// alphabet under the five fixed views, start values in rotation; quick:
	// every 3rd chain of length 2 on n = 4.
	shards := 16
	for n := 2; n <= 4; n++ {
		ns := 1
		if n == 4 {
			ns = shards
		}
		for sh := 0; sh < ns; sh++ {
			n, sh, ns := n, sh, ns
			us = append(us, unit{fmt.Sprintf("edits/labelled/n=%d/%d", n, sh), func(r *runner) {
				counter := sh
				r.exhaustive = true
				defer func() { r.exhaustive = false }()
				gen.AllLabelled(n, uint64(sh), uint64(ns), func(_ uint64, g0 *rg.G) {
					g := g0.Copy()
					sts := r.startsFor(g)
					if len(sts) == 0 {
						return
					}
					specs := fixedViews(n)
					for _, o1 := range editOpsAt(g) {
						counter++
						r.runEditChain(sts[counter%len(sts)], specs, []chainOp{o1}, 0)
						m1 := applyModel(g, o1)
						for _, o2 := range editOpsAt(m1) {
							counter++
							if n == 4 && !thorough && counter%3 != 0 {
								continue
							}
							// read the views after the first step in half of the chains only
							r.runEditChain(sts[counter%len(sts)], specs, []chainOp{o1, o2}, uint(counter/3)&1)
						}
					}
				})
				if sh == 0 {
					r.c.Obs(fmt.Sprintf("exhaustive:all chains of <= 2 edge edits (add, remove, move, add-then-remove, swap) under 5 live views read before and after, all labelled graphs n=%d (quick, n=4: every 3rd chain of length 2)", n), 1)
				}
			}})
		}
	}
	// 1b. seeded edit chains (2..6 steps, also vertex operations) under seeded views
	ns := c.Pick(1500, 30000)
	per := 50
	for u := 0; u*per < ns; u++ {
		u := u
		us = append(us, unit{fmt.Sprintf("edits/seeded/%d", u), func(r *runner) {
			srcs := chainSources()
			for i := u * per; i < (u+1)*per && i < ns; i++ {
				if r.c.Stopped() {
					return
				}
				rnd := c.Rand("edits", i)
				n := 3 + rnd.Intn(10)
				var g *rg.G
				switch i % 3 {
				case 0:
					g = gen.Random(rnd, n, 0.5)
				case 1:
					g = gen.RandomTree(rnd, n)
				default:
					g = gen.Random(rnd, n, rnd.Float())
				}
				src := srcs[rnd.Intn(len(srcs))]
				st := chainStart{variant: src.variant, source: src.name, repr: src.repr, id: gid(g), model: g, build: func(key string) graph.EditableGraph { return src.build(c, key, g) }}
				if !r.conforms(st) {
					continue
				}
				ops := randomEditOps(rnd, g, 2+rnd.Intn(5), i%4 == 3)
				specs := randomViews(rnd, n)
				mask := uint(rnd.Intn(64))
				if i < 2 {
					c.Sample("seeded edit chain under live views", map[string]interface{}{"start": gid(g), "from": src.name, "views": fmt.Sprint(specs), "ops": opsString(ops), "read_after_mask": fmt.Sprintf("%b", mask)})
				}
				r.runEditChain(st, specs, ops, mask)
			}
		}})
	}
	// 2a. MulticodeDecodeMultiple: all streams of 2 (thorough: and 3) records over 9 small graphs x single edits of each result
	recs := recordGraphs()
	for a := range recs {
		a := a
		us = append(us, unit{fmt.Sprintf("multi/multicode/first=%d", a), func(r *runner) {
			r.exhaustive = true
			defer func() { r.exhaustive = false }()
			run := func(gs []*rg.G) {
				// variants: the k-th single edit applied to every result in turn
				maxV := 0
				for _, g := range gs {
					if l := len(growShrinkOps(g)); l > maxV {
						maxV = l
					}
				}
				for v := 0; v < maxV; v++ {
					v := v
					r.multicodeMultiple(gs, func(t int, m *rg.G) []chainOp {
						alts := growShrinkOps(m)
						if v < len(alts) {
							return alts[v]
						}
						return nil
					}, fmt.Sprintf("variant=%d", v))
				}
			}
			for b := range recs {
				run([]*rg.G{recs[a], recs[b]})
				if thorough {
					for d := range recs {
						run([]*rg.G{recs[a], recs[b], recs[d]})
					}
				}
			}
			if a == 0 {
				r.c.Obs("exhaustive:MulticodeDecodeMultiple on all streams of 2 (thorough: 3) records over 9 small graphs incl. n=0,1 x 10 edits of each result, all results re-read after every edit", 1)
			}
		}})
	}
	// 2b. seeded streams of 2..5 records with seeded edit chains; copies of one graph
	nm := c.Pick(400, 6000)
	for u := 0; u*per < nm; u++ {
		u := u
		us = append(us, unit{fmt.Sprintf("multi/seeded/%d", u), func(r *runner) {
			srcs := chainSources()
			for i := u * per; i < (u+1)*per && i < nm; i++ {
				if r.c.Stopped() {
					return
				}
				rnd := c.Rand("multi", i)
				k := 2 + rnd.Intn(4)
				gs := make([]*rg.G, k)
				for j := range gs {
					switch rnd.Intn(5) {
					case 0:
						gs[j] = rg.New(rnd.Intn(2))
					case 1:
						gs[j] = gen.RandomTree(rnd, 2+rnd.Intn(6))
					default:
						gs[j] = gen.Random(rnd, 2+rnd.Intn(8), rnd.Float())
					}
				}
				r.multicodeMultiple(gs, func(t int, m *rg.G) []chainOp {
					if rnd.Bool(0.3) {
						return nil
					}
					return randomEditOps(rnd, m, 1+rnd.Intn(3), true)
				}, "seeded")
				// copies of one graph
				n := 2 + rnd.Intn(8)
				g := gen.Random(rnd, n, rnd.Float())
				src := srcs[rnd.Intn(len(srcs))]
				st := chainStart{variant: src.variant, source: src.name, repr: src.repr, id: gid(g), model: g, build: func(key string) graph.EditableGraph { return src.build(c, key, g) }}
				if r.conforms(st) {
					r.siblings(st, rnd, 2+rnd.Intn(4))
				}
			}
		}})
	}
	return us
}

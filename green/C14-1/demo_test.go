// Demonstration for C14, change 1 (integers of the Dawg encoding become encoding/binary uvarints).
//
// Run (from the root of the library, after copying this file into the dawg directory):
//
//	cp demo_test.go <repo>/dawg/c14_demo_test.go
//	cd <repo> && GOFLAGS=-mod=mod GOPROXY=off GOSUMDB=off GOTOOLCHAIN=local go test -vet=off -count=1 -timeout 600s -run 'TestC14Demo' -v ./dawg
//
// TestC14DemoProperty checks the property itself (round trip directly and through encoding/gob, stable re-encoding)
// and passes before and after the change.
// TestC14DemoIncidentalLayout pins the OLD byte layout of integers >= 128 (0x80+length, then big endian) and therefore
// passes on the clean tree and fails with the change.
package dawg_test

import (
	"bytes"
	"encoding/gob"
	"fmt"
	"sort"
	"testing"

	"github.com/Tom-Johnston/mamba/dawg"
)

func c14Sorted(ws [][]byte) [][]byte {
	sort.Slice(ws, func(i, j int) bool { return bytes.Compare(ws[i], ws[j]) < 0 })
	return ws
}

// c14WordSets returns word sets with wide branching (up to 256 links per node) and with word and node counts on both
// sides of 127.
func c14WordSets() map[string][][]byte {
	sets := map[string][][]byte{}
	sets["empty"] = nil
	sets["emptyword"] = [][]byte{{}}
	for _, k := range []int{1, 127, 128, 129, 200, 256} {
		var ws [][]byte
		for b := 0; b < k; b++ {
			ws = append(ws, []byte{byte(b)})
		}
		sets[fmt.Sprintf("fan%d", k)] = ws
	}
	//256 children at the root and below them a chain of 150 nodes, every one final: more than 127 nodes.
	var ws [][]byte
	for b := 0; b < 256; b++ {
		ws = append(ws, []byte{byte(b)})
	}
	for k := 1; k <= 150; k++ {
		ws = append(ws, append([]byte{0xff}, bytes.Repeat([]byte{'a'}, k)...))
	}
	sets["fan256chain150"] = c14Sorted(ws)
	//Two levels of wide branching with different subtrees.
	ws = nil
	for a := 0; a < 130; a++ {
		for b := 0; b <= a; b += 7 {
			ws = append(ws, []byte{byte(a + 100), byte(b * 2)})
		}
	}
	sets["twolevel"] = c14Sorted(ws)
	return sets
}

func c14Same(t *testing.T, name string, words [][]byte, d, e *dawg.Dawg) {
	t.Helper()
	if d.NumberOfWords() != len(words) || e.NumberOfWords() != len(words) {
		t.Fatalf("%s: word count %d / %d, want %d", name, d.NumberOfWords(), e.NumberOfWords(), len(words))
	}
	sd, id := d.Search()
	se, ie := e.Search()
	if len(sd) != len(words) || len(se) != len(words) {
		t.Fatalf("%s: Search() lists %d / %d words, want %d", name, len(sd), len(se), len(words))
	}
	for i := range words {
		if !bytes.Equal(sd[i], words[i]) || !bytes.Equal(se[i], words[i]) || id[i] != i || ie[i] != i {
			t.Fatalf("%s: word %d differs after the round trip", name, i)
		}
		rd, okd := d.Lookup(words[i])
		re, oke := e.Lookup(words[i])
		if !okd || !oke || rd != i || re != i {
			t.Fatalf("%s: rank of word %d: %d,%v / %d,%v", name, i, rd, okd, re, oke)
		}
		if _, ok := e.Lookup(append(append([]byte{}, words[i]...), 0xfe, 0x01)); ok {
			t.Fatalf("%s: a non-word is accepted after the round trip", name)
		}
	}
	for _, pat := range [][]byte{{'?'}, {'?', '?'}, {0xff, '?'}, {'?', 0}, {0xff, 'a', 'a', '?'}} {
		pd, pid := d.Search(dawg.NewPatternSearcher(pat, '?'))
		pe, pie := e.Search(dawg.NewPatternSearcher(pat, '?'))
		if fmt.Sprint(pd, pid) != fmt.Sprint(pe, pie) {
			t.Fatalf("%s: pattern %q gives different results after the round trip", name, pat)
		}
	}
}

func TestC14DemoProperty(t *testing.T) {
	for name, words := range c14WordSets() {
		d, err := dawg.New(words)
		if err != nil {
			t.Fatal(name, err)
		}
		enc, err := d.GobEncode()
		if err != nil {
			t.Fatal(name, err)
		}
		//Directly.
		e := new(dawg.Dawg)
		if err := e.GobDecode(append([]byte{}, enc...)); err != nil {
			t.Fatalf("%s: GobDecode: %v", name, err)
		}
		c14Same(t, name, words, d, e)
		enc2, err := e.GobEncode()
		if err != nil || !bytes.Equal(enc, enc2) {
			t.Fatalf("%s: encoding the decoded dawg again gives other bytes (err %v)", name, err)
		}
		//Through encoding/gob.
		var buf bytes.Buffer
		if err := gob.NewEncoder(&buf).Encode(d); err != nil {
			t.Fatal(name, err)
		}
		g := new(dawg.Dawg)
		if err := gob.NewDecoder(&buf).Decode(g); err != nil {
			t.Fatalf("%s: gob: %v", name, err)
		}
		c14Same(t, name+"/gob", words, d, g)
		enc3, err := g.GobEncode()
		if err != nil || !bytes.Equal(enc, enc3) {
			t.Fatalf("%s: encoding the gob-decoded dawg again gives other bytes (err %v)", name, err)
		}
	}
}

func TestC14DemoIncidentalLayout(t *testing.T) {
	d, err := dawg.New(c14WordSets()["fan200"])
	if err != nil {
		t.Fatal(err)
	}
	enc, err := d.GobEncode()
	if err != nil {
		t.Fatal(err)
	}
	//Two nodes (ids 0 and 1); the root record is index 0, 200 words, not final, 200 links.
	//OLD layout of 200: 0x81 (one byte follows) 0xc8.  With uvarints it is 0xc8 0x01.
	old := []byte{2, 0, 1, 0, 0x81, 0xc8, 0, 0x81, 0xc8}
	t.Logf("first bytes: % x", enc[:len(old)])
	if !bytes.HasPrefix(enc, old) {
		t.Fatalf("the encoding does not start with the old layout % x", old)
	}
}

package c13

// Word LENGTH as a dimension.  "Every Dawg" includes Dawgs that store long
// byte strings (binary keys, paths, sequences): words of hundreds to many
// thousand bytes, mixed with short ones, sharing long prefixes or long tails;
// results whose lengths and whose total size lie on both sides of the sizes an
// implementation might use for internal buffers (256, 1024, 4096, 65536
// bytes).  The searches are the same as everywhere else in this monitor
// (library searchers searched four times with reused objects, user-defined
// searchers behind recorders, nested searches, cold / warm Dawgs), with
// patterns and anagrams long enough to match the long words, and the returned
// words are compared byte by byte with the stored ones and then overwritten by
// the caller.

import (
	"bytes"
	"fmt"

	"github.com/Tom-Johnston/mamba/dawg"

	"verif/internal/engine"
	"verif/internal/oracle/refdawg"
)

// lengthMarks are the lengths around which words are placed.
var lengthMarks = []int{256, 512, 1024, 2048, 4096, 8192, 16384, 32768, 65536}

func randBytes(rg *engine.Rng, alpha []byte, n int) []byte {
	w := make([]byte, n)
	for i := range w {
		w[i] = alpha[rg.Intn(len(alpha))]
	}
	return w
}

// pickLen draws a word length: short, medium, next to a mark, or long.
func pickLen(rg *engine.Rng, maxLong int) int {
	l := 0
	switch x := rg.Intn(10); {
	case x < 2:
		l = rg.Intn(13)
	case x < 3:
		l = 13 + rg.Intn(87)
	case x < 5:
		l = 100 + rg.Intn(900)
	case x < 8:
		n := 0
		for n < len(lengthMarks) && lengthMarks[n]+2 <= maxLong {
			n++
		}
		if n == 0 {
			l = rg.Intn(maxLong + 1)
		} else {
			l = lengthMarks[rg.Intn(n)] + rg.Intn(5) - 2
		}
	default:
		if maxLong > 1025 {
			l = 1025 + rg.Intn(maxLong-1024)
		} else {
			l = rg.Intn(maxLong + 1)
		}
	}
	if l > maxLong {
		l = maxLong
	}
	return l
}

type longInfo struct {
	Mode     string
	Alphabet int
	Words    int
	Longest  int
	Total    int
}

func (g longInfo) String() string {
	return fmt.Sprintf("long:%s/alphabet=%d/words=%d/longest=%d/total_bytes=%d", g.Mode, g.Alphabet, g.Words, g.Longest, g.Total)
}

func measure(set *refdawg.Set, mode string, asz int) longInfo {
	g := longInfo{Mode: mode, Alphabet: asz, Words: set.Len()}
	for _, w := range set.Words {
		g.Total += len(w)
		if len(w) > g.Longest {
			g.Longest = len(w)
		}
	}
	return g
}

// genLongSet draws a set with long words.  maxLong bounds the word length; the
// shapes are chosen so that the automaton stays small compared with the total
// number of bytes (long shared tails, long shared prefixes, chains of
// prefixes), because dawg.New is quadratic in the number of nodes.
func genLongSet(rg *engine.Rng, maxLong int) (*refdawg.Set, []byte, longInfo) {
	asz := refdawg.AlphabetSize(rg)
	alpha := refdawg.Alphabet(rg, asz)
	var ws [][]byte
	short := func(n, maxLen int) {
		for i := 0; i < n; i++ {
			ws = append(ws, randBytes(rg, alpha, rg.Intn(maxLen+1)))
		}
	}
	name := ""
	switch rg.Intn(7) {
	case 0:
		name = "tails-of-one-string"
		// short random heads followed by tails of one long string: the tails are merged in the automaton
		T := randBytes(rg, alpha, maxLong)
		n := 3 + rg.Intn(6)
		for i := 0; i < n; i++ {
			l := pickLen(rg, maxLong)
			head := randBytes(rg, alpha, rg.Intn(4))
			ws = append(ws, append(head, T[len(T)-l:]...))
		}
		short(rg.Intn(12), 8)
	case 1:
		name = "common-prefix-and-tails"
		l := pickLen(rg, maxLong)
		if l < 100 {
			l = 100 + rg.Intn(maxLong-99)
		}
		P := randBytes(rg, alpha, l)
		n := 5 + rg.Intn(76)
		for i := 0; i < n; i++ {
			ws = append(ws, append(append([]byte{}, P...), randBytes(rg, alpha, rg.Intn(9))...))
		}
		for i := rg.Intn(6); i > 0; i-- { // some prefixes of the prefix are words themselves
			k := pickLen(rg, l)
			ws = append(ws, append([]byte{}, P[:k]...))
		}
		short(rg.Intn(10), 6)
	case 2:
		name = "prefix-chain"
		// many prefixes of one long string: many long results, total size far beyond every mark
		P := randBytes(rg, alpha, maxLong)
		n := 10 + rg.Intn(150)
		for i := 0; i < n; i++ {
			ws = append(ws, append([]byte{}, P[:pickLen(rg, maxLong)]...))
		}
		if rg.Intn(2) == 0 { // a dense run of lengths across a mark
			m := lengthMarks[rg.Intn(5)]
			for k := m - 3; k <= m+3 && k <= maxLong; k++ {
				ws = append(ws, append([]byte{}, P[:k]...))
			}
		}
		short(rg.Intn(6), 5)
	case 3:
		name = "independent-long-words-among-short-ones"
		n := 1 + rg.Intn(4)
		left := maxLong + maxLong/2
		for i := 0; i < n && left > 0; i++ {
			l := pickLen(rg, maxLong)
			if l > left {
				l = left
			}
			left -= l
			ws = append(ws, randBytes(rg, alpha, l))
		}
		short(rg.Intn(30), 10)
	case 4:
		name = "product-of-medium-pieces"
		var P, M, S [][]byte
		for i := 1 + rg.Intn(5); i > 0; i-- {
			P = append(P, randBytes(rg, alpha, 50+rg.Intn(350)))
		}
		for i := 1 + rg.Intn(5); i > 0; i-- {
			M = append(M, randBytes(rg, alpha, rg.Intn(300)))
		}
		for i := 2 + rg.Intn(9); i > 0; i-- {
			S = append(S, randBytes(rg, alpha, rg.Intn(100)))
		}
		for _, p := range P {
			for _, m := range M {
				for _, s := range S {
					ws = append(ws, append(append(append([]byte{}, p...), m...), s...))
				}
			}
		}
		short(rg.Intn(6), 5)
	case 5:
		name = "one-byte-variants-of-a-long-word"
		lim := maxLong
		if lim > 2600 {
			lim = 2600 + (maxLong-2600)/4
		}
		l := pickLen(rg, lim)
		if l < 2 {
			l = 2 + rg.Intn(lim-1)
		}
		W := randBytes(rg, alpha, l)
		ws = append(ws, W)
		for i := 1 + rg.Intn(6); i > 0; i-- {
			e := append([]byte{}, W...)
			pos := rg.Intn(l)
			switch rg.Intn(4) {
			case 0:
				pos = l - 1
			case 1:
				if m := lengthMarks[rg.Intn(5)] + rg.Intn(3) - 1; m < l {
					pos = m
				}
			}
			e[pos] = alpha[rg.Intn(len(alpha))]
			ws = append(ws, e)
		}
		short(rg.Intn(8), 6)
	default:
		name = "unary-and-near-unary"
		a := alpha[rg.Intn(len(alpha))]
		b := alpha[rg.Intn(len(alpha))]
		n := 3 + rg.Intn(40)
		for i := 0; i < n; i++ {
			w := bytes.Repeat([]byte{a}, pickLen(rg, maxLong))
			if len(w) > 0 && rg.Intn(3) == 0 {
				w[len(w)-1] = b
			}
			ws = append(ws, w)
		}
	}
	switch rg.Intn(4) {
	case 0:
		ws = append(ws, []byte{})
	}
	set := refdawg.FromWords(ws)
	return set, alpha, measure(set, name, asz)
}

// outsideByte returns a byte that is not a letter of the alphabet (ok false: there is none).
func outsideByte(alpha []byte) (byte, bool) {
	var in [256]bool
	for _, b := range alpha {
		in[b] = true
	}
	for _, c := range []int{'?', 0, '.', 255, '_'} {
		if !in[c] {
			return byte(c), true
		}
	}
	for x := 255; x >= 0; x-- {
		if !in[x] {
			return byte(x), true
		}
	}
	return alpha[0], false
}

// chooseMembers picks the words the systematic queries are derived from: the
// longest, for each mark the shortest word longer than it and the longest word
// not longer than it, then random ones.
func chooseMembers(set *refdawg.Set, rg *engine.Rng, n int) []int {
	if set.Len() == 0 {
		return nil
	}
	var out []int
	seen := map[int]bool{}
	add := func(i int) {
		if i >= 0 && !seen[i] && len(out) < n {
			seen[i] = true
			out = append(out, i)
		}
	}
	longest := 0
	for i, w := range set.Words {
		if len(w) > len(set.Words[longest]) {
			longest = i
		}
	}
	add(longest)
	for _, m := range []int{1024, 4096, 256, 65536, 2048, 512} {
		above, below := -1, -1
		for i, w := range set.Words {
			if len(w) > m && (above == -1 || len(w) < len(set.Words[above])) {
				above = i
			}
			if len(w) <= m && len(w) > m/2 && (below == -1 || len(w) > len(set.Words[below])) {
				below = i
			}
		}
		add(above)
		add(below)
	}
	for k := 0; k < 4*n && len(out) < n; k++ {
		add(rg.Intn(set.Len()))
	}
	return out
}

// longQueries: conjunctions derived from chosen members in full length (exact,
// all blank, one letter fixed, blanks at one position / at a mark / in one
// half / at random positions, anagrams in several orders, near misses, the
// blank being a letter of the word), plus seeded ones.
func longQueries(set *refdawg.Set, alpha []byte, rg *engine.Rng, nMembers, nSeeded int) [][]refdawg.Query {
	var qss [][]refdawg.Query
	qss = append(qss, nil) // no searcher: every word
	out, _ := outsideByte(alpha)
	one := func(kind byte, t []byte, blank byte) {
		qss = append(qss, []refdawg.Query{{Kind: kind, Text: t, Blank: blank}})
	}
	cp := func(w []byte) []byte { return append([]byte{}, w...) }
	shuffled := func(w []byte) []byte {
		t := cp(w)
		for i := len(t) - 1; i > 0; i-- {
			j := rg.Intn(i + 1)
			t[i], t[j] = t[j], t[i]
		}
		return t
	}
	for _, mi := range chooseMembers(set, rg, nMembers) {
		w := set.Words[mi]
		L := len(w)
		blank := out
		if rg.Intn(5) == 0 {
			blank = alpha[rg.Intn(len(alpha))]
		}
		one('p', cp(w), blank)
		one('p', bytes.Repeat([]byte{blank}, L), blank)
		one('a', bytes.Repeat([]byte{blank}, L), blank)
		one('a', shuffled(w), blank)
		if L == 0 {
			continue
		}
		t := bytes.Repeat([]byte{blank}, L) // first letter fixed
		t[0] = w[0]
		one('p', t, blank)
		t = cp(w) // one blank: at a mark if the word reaches it, else anywhere
		pos := rg.Intn(L)
		for _, m := range []int{1024, 4096, 256} {
			if k := m + rg.Intn(3) - 1; k < L && rg.Intn(2) == 0 {
				pos = k
				break
			}
		}
		t[pos] = blank
		one('p', t, blank)
		t = cp(w) // the last letter blank: words that differ in their last byte only
		t[L-1] = blank
		one('p', t, blank)
		half := cp(w)
		if rg.Intn(2) == 0 {
			copy(half[:L/2], bytes.Repeat([]byte{blank}, L/2))
		} else {
			copy(half[L/2:], bytes.Repeat([]byte{blank}, L-L/2))
		}
		one('p', half, blank)
		dens := cp(w)
		p := rg.Float()
		for i := range dens {
			if rg.Float() < p {
				dens[i] = blank
			}
		}
		one('p', dens, blank)
		one('a', shuffled(dens), blank)
		rev := cp(w)
		for i, j := 0, L-1; i < j; i, j = i+1, j-1 {
			rev[i], rev[j] = rev[j], rev[i]
		}
		one('a', rev, blank)
		// pattern & anagram of the same member
		qss = append(qss, []refdawg.Query{{Kind: 'p', Text: cp(half), Blank: blank}, {Kind: 'a', Text: shuffled(dens), Blank: blank}})
		// the blank is a letter of the word itself
		one('p', cp(w), w[rg.Intn(L)])
		one('a', cp(w), w[rg.Intn(L)])
		// near misses: one byte changed, one byte more, one byte less
		near := cp(w)
		near[rg.Intn(L)] = alpha[rg.Intn(len(alpha))]
		one('p', near, blank)
		one('p', append(cp(w), blank), blank)
		one('a', cp(w[:L-1]), blank)
	}
	for k := 0; k < nSeeded; k++ {
		qss = append(qss, refdawg.GenQueries(set, alpha, rg))
	}
	return qss
}

// buildLong builds the Dawg of a set of long words.  dawg.New compares every
// new node with every registered node, so a very long word is slow to add;
// slow is not wrong: a build beyond the CPU budget is abandoned and counted.
func buildLong(c *engine.Ctx, callKey string, set *refdawg.Set, slowOK bool) *dawg.Dawg {
	if !slowOK {
		return buildFor(c, callKey, set)
	}
	in := set.Copy()
	var d *dawg.Dawg
	var err error
	pi := c.CallSlowOK(callKey+"|New", func() { d, err = dawg.New(in) })
	if pi != nil || err != nil || d == nil {
		c.Obs("builds_failed_not_judged_here(C12)", 1)
		return nil
	}
	return d
}

// runLong: everything this monitor does, on one set with long words.
func runLong(c *engine.Ctx, b, other *built, callKey string, rg *engine.Rng, nMembers, nSeeded, nConj, nNest int) {
	set := b.set
	lookups := set.Words
	if len(lookups) > 300 {
		lookups = lookups[:300]
	}
	before, ok := snap(c, callKey+"|before", b, lookups)
	if !ok {
		return
	}
	longest := 0
	for _, w := range set.Words {
		if len(w) > longest {
			longest = len(w)
		}
	}
	c.Obs("long:sets_searched", 1)
	c.ObsMax("long:longest_stored_word_bytes", longest)
	for qi, qs := range longQueries(set, b.alpha, rg, nMembers, nSeeded) {
		if !searchRounds(c, b, other, fmt.Sprintf("%s|q%d", callKey, qi), qs, qi%4 == 1) {
			return
		}
		if c.Stopped() {
			return
		}
	}
	if nConj+nNest > 0 && !customOn(c, b, other, callKey, rg, nConj, nNest) {
		return
	}
	checkUnchanged(c, b.label, callKey, b, before, lookups)
}

type longFamily struct {
	name   string
	alpha  string
	slowOK bool
	noCold bool // the build is expensive: no second build for the cold / warm comparison
	gen    func() [][]byte
}

// longFamilies is the fixed (seed-independent) list of sets with long words.
func longFamilies(thorough bool) []longFamily {
	var fs []longFamily
	marks := []int{256, 512, 1024, 2048, 4096}
	if thorough {
		marks = append(marks, 8192, 16384)
	}
	around := func(ms []int) []int {
		var ls []int
		for _, m := range ms {
			ls = append(ls, m-1, m, m+1)
		}
		return ls
	}
	top := marks[len(marks)-1] + 1
	fs = append(fs, longFamily{name: "threshold-lengths-with-shared-tails", alpha: "abcd", noCold: true, gen: func() [][]byte {
		rg := engine.NewRng(9101)
		T := randBytes(rg, []byte("abcd"), top)
		ws := [][]byte{{}, []byte("B"), []byte("Ab"), []byte("zz")}
		for i, l := range around(marks) {
			ws = append(ws, append([]byte{byte('A' + i)}, T[len(T)-(l-1):]...))
		}
		return ws
	}})
	fs = append(fs, longFamily{name: "common-prefix-1100-with-63-tails", alpha: "ab", gen: func() [][]byte {
		rg := engine.NewRng(9102)
		P := randBytes(rg, []byte("ab"), 1100)
		var ws [][]byte
		for _, t := range refdawg.Universe([]byte("ab"), 5) {
			ws = append(ws, append(append([]byte{}, P...), t...))
		}
		for _, k := range []int{1, 100, 255, 256, 257, 1000, 1023, 1024, 1025, 1099} {
			ws = append(ws, append([]byte{}, P[:k]...))
		}
		return append(ws, []byte("ba"), []byte("bb"))
	}})
	fs = append(fs, longFamily{name: "unary-chain-all-1100", alpha: "ab", gen: func() [][]byte {
		var ws [][]byte
		for k := 1; k <= 1100; k++ {
			ws = append(ws, bytes.Repeat([]byte{'a'}, k))
		}
		return ws
	}})
	fs = append(fs, longFamily{name: "unary-threshold-lengths", alpha: "ab", gen: func() [][]byte {
		var ws [][]byte
		for _, k := range append(around(marks), 0, 1, 2, 3, 100, 1500, 3000) {
			ws = append(ws, bytes.Repeat([]byte{'a'}, k))
		}
		return ws
	}})
	fs = append(fs, longFamily{name: "short-words-and-a-few-long-ones", alpha: "aeginloprst", noCold: true, gen: func() [][]byte {
		rg := engine.NewRng(9103)
		ws := bs("alerting", "altering", "integral", "post", "pot", "pots", "relating", "spot", "stop", "tops", "triangle", "")
		for i, l := range []int{300, 700, 1024, 1025, 1500, 3000} {
			w := randBytes(rg, []byte("aeginloprst"), l)
			w[0] = "agilpt"[i]
			ws = append(ws, w)
		}
		return ws
	}})
	fs = append(fs, longFamily{name: "product-5x6x10-of-medium-pieces", alpha: "xyz", gen: func() [][]byte {
		rg := engine.NewRng(9104)
		var ws [][]byte
		var P, M, S [][]byte
		for i := 0; i < 5; i++ {
			P = append(P, randBytes(rg, []byte("xyz"), 100))
		}
		for i := 0; i < 6; i++ {
			M = append(M, randBytes(rg, []byte("xyz"), 50+20*i))
		}
		for i := 0; i < 10; i++ {
			S = append(S, randBytes(rg, []byte("xyz"), 10+10*i))
		}
		for _, p := range P {
			for _, m := range M {
				for _, s := range S {
					ws = append(ws, append(append(append([]byte{}, p...), m...), s...))
				}
			}
		}
		return ws
	}})
	fs = append(fs, longFamily{name: "one-byte-variants-of-a-2000-byte-word", alpha: "abc", noCold: true, gen: func() [][]byte {
		rg := engine.NewRng(9105)
		W := randBytes(rg, []byte("ab"), 2000)
		ws := [][]byte{W}
		for _, pos := range []int{0, 255, 256, 1023, 1024, 1025, 1998, 1999} {
			e := append([]byte{}, W...)
			e[pos] = 'c'
			ws = append(ws, e)
		}
		return append(ws, []byte("a"), []byte("c"))
	}})
	one := func(l int) {
		fs = append(fs, longFamily{name: fmt.Sprintf("one-word-of-%d-bytes-among-short-ones", l), alpha: "abc", slowOK: l > 10000, gen: func() [][]byte {
			rg := engine.NewRng(uint64(9200 + l))
			w := randBytes(rg, []byte("abc"), l)
			w[0] = 'b'
			return [][]byte{w, []byte("a"), []byte("ab"), []byte("b"), []byte("c"), []byte("cab")}
		}})
	}
	one(5000)
	if thorough {
		one(20000)
		one(65536)
		one(65537)
	}
	return fs
}

func bs(ss ...string) [][]byte {
	r := make([][]byte, len(ss))
	for i, s := range ss {
		r[i] = []byte(s)
	}
	return r
}

// longPart: the fixed families with long words and seeded sets with long words.
func longPart(c *engine.Ctx) {
	for fi, fam := range longFamilies(c.Thorough()) {
		fi, fam := fi, fam
		c.Unit("long-family/"+fam.name, func() {
			set := refdawg.FromWords(fam.gen())
			callKey := "long-family|" + fam.name
			if fam.slowOK {
				c.SetBudget(4) // dawg.New needs about 20 CPU-s for one word of 65537 bytes (quadratic in the number of nodes)
			}
			d := buildLong(c, callKey, set, fam.slowOK)
			if d == nil {
				return
			}
			info := measure(set, fam.name, len(fam.alpha))
			b := &built{d: d, set: set, alpha: []byte(fam.alpha), label: "long family " + fam.name, slowOK: fam.slowOK, noCold: fam.noCold || info.Longest > 30000}
			var other *built
			org := engine.NewRng(9300)
			oset := refdawg.FromWords([][]byte{{}, []byte("ab"), []byte("b"), append([]byte("a"), randBytes(org, []byte("ab"), 1099)...), append([]byte("b"), randBytes(org, []byte("ab"), 1999)...), bytes.Repeat([]byte{'a'}, 1025)})
			if od := buildFor(c, callKey+"|other", oset); od != nil {
				other = &built{d: od, set: oset, alpha: []byte("ab"), label: "another Dawg with long words"}
			}
			rg := engine.NewRng(uint64(9400 + fi))
			nMembers, nSeeded, nConj, nNest := 8, 20, 8, 4
			if info.Longest > 10000 {
				nMembers, nSeeded, nConj, nNest = 6, 12, 6, 4
			}
			runLong(c, b, other, callKey, rg, nMembers, nSeeded, nConj, nNest)
			c.Obs("long:fixed_families", 1)
			if fi < 2 {
				c.Sample("long-family", map[string]interface{}{"name": fam.name, "shape": info.String(), "words": set.Quoted(8)})
			}
		})
	}
	nSets := c.Pick(72, 480)
	perUnit := 4
	for un := 0; un*perUnit < nSets; un++ {
		un := un
		c.Unit(fmt.Sprintf("long-seeded/%d", un), func() {
			var prev *built
			for i := un * perUnit; i < (un+1)*perUnit && i < nSets; i++ {
				rg := c.Rand("c13-long", i)
				maxLong := 1100 + rg.Intn(2200) // 1100..3299
				if i%6 == 2 {
					maxLong = 4200 + rg.Intn(2400) // beyond 4096
				}
				if c.Thorough() && i%12 == 5 {
					maxLong = 5000 + rg.Intn(12000)
				}
				set, alpha, info := genLongSet(rg, maxLong)
				callKey := fmt.Sprintf("long-seeded#%d", i)
				d := buildLong(c, callKey, set, maxLong > 5000)
				if d == nil {
					continue
				}
				b := &built{d: d, set: set, alpha: alpha, label: "seeded " + info.String(), slowOK: maxLong > 5000, noCold: i%4 != 1}
				runLong(c, b, prev, callKey, rg, 2, 10, 3, 2)
				c.Obs("long:gen:"+info.Mode, 1)
				c.ObsMax("long:largest_set_total_bytes", info.Total)
				if c.Stopped() {
					return
				}
				if i < 2 {
					c.Sample("long-seeded", map[string]interface{}{"gen": info.String(), "words": set.Quoted(6)})
				}
				prev = b
			}
		})
	}
}

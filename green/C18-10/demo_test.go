// Demonstration for C18-10 (Union/UnionBuffered return at once when the two arguments are visibly joined already).
//
// Run (from the root of the library worktree):
//   mkdir -p demo_c18_10 && cp /tmp/green-out/C18/10/demo_test.go demo_c18_10/ &&
//   GOFLAGS=-mod=mod GOPROXY=off GOSUMDB=off GOTOOLCHAIN=local go test -vet=off -count=1 -timeout 120s ./demo_c18_10/ ; rm -rf demo_c18_10
//
// TestProperty, TestPropertyRedundantUnions and the partition checks inside the incidental tests pass on the clean
// tree and with the change.  TestIncidentalRedundantUnionFlattens and TestIncidentalRedundantUnionWritesBuffer assert
// the OLD incidental behaviour: they pass on the clean tree and fail with the change.
package demo

import (
	"math/rand"
	"sort"
	"testing"

	"github.com/Tom-Johnston/mamba/disjoint"
)

// naive model: label per element.
type model []int

func (m model) union(x, y int) {
	a, b := m[x], m[y]
	if a == b {
		return
	}
	for i := range m {
		if m[i] == b {
			m[i] = a
		}
	}
}

func (m model) sets() [][]int {
	out := [][]int{}
	idx := map[int]int{}
	for i, l := range m {
		j, ok := idx[l]
		if !ok {
			j = len(out)
			idx[l] = j
			out = append(out, nil)
		}
		out[j] = append(out[j], i)
	}
	return out
}

func sameSets(a, b [][]int) bool {
	if len(a) != len(b) {
		return false
	}
	for i := range a {
		if len(a[i]) != len(b[i]) {
			return false
		}
		for j := range a[i] {
			if a[i][j] != b[i][j] {
				return false
			}
		}
	}
	return true
}

func check(t *testing.T, ds *disjoint.Set, m model, buf []int) {
	t.Helper()
	n := len(m)
	if len(*ds) != n {
		t.Fatalf("len(Set) = %d, want %d", len(*ds), n)
	}
	for x := 0; x < n; x++ {
		for y := 0; y < n; y++ {
			same := ds.Find(x) == ds.Find(y)
			sameB := ds.FindBuffered(x, buf) == ds.FindBuffered(y, buf)
			if same != (m[x] == m[y]) || sameB != same {
				t.Fatalf("n=%d: %d,%d same=%v sameBuffered=%v model=%v", n, x, y, same, sameB, m[x] == m[y])
			}
		}
	}
	want := m.sets()
	if got := ds.Sets(); !sameSets(got, want) {
		t.Fatalf("Sets = %v, want %v", got, want)
	}
	sr := ds.SmallestRep()
	if len(sr) != n {
		t.Fatalf("len(SmallestRep) = %d", len(sr))
	}
	for _, s := range want {
		for _, v := range s {
			if sr[v] != s[0] {
				t.Fatalf("SmallestRep[%d] = %d, want %d", v, sr[v], s[0])
			}
		}
	}
	roots := append([]int(nil), ds.Roots()...)
	if len(roots) != len(want) {
		t.Fatalf("Roots = %v for sets %v", roots, want)
	}
	seen := map[int]bool{}
	for _, r := range roots {
		if ds.Find(r) != r || seen[m[r]] {
			t.Fatalf("Roots = %v for sets %v", roots, want)
		}
		seen[m[r]] = true
	}
	sort.Ints(roots)
}

func TestProperty(t *testing.T) {
	rng := rand.New(rand.NewSource(18))
	for n := 0; n <= 40; n++ {
		for rep := 0; rep < 6; rep++ {
			ds := disjoint.New(n)
			m := make(model, n)
			for i := range m {
				m[i] = i
			}
			buf := make([]int, n+1)
			check(t, &ds, m, buf) // fresh: all singletons, also for n = 0
			if n == 0 {
				continue
			}
			for step := 0; step < 3*n; step++ {
				x, y := rng.Intn(n), rng.Intn(n)
				switch rng.Intn(4) {
				case 0:
					ds.Union(x, y)
					m.union(x, y)
				case 1:
					ds.UnionBuffered(x, y, buf)
					m.union(x, y)
				case 2:
					ds.Find(x)
				default:
					ds.FindBuffered(y, buf)
				}
				if step%7 == 0 {
					check(t, &ds, m, buf)
				}
			}
			check(t, &ds, m, buf)
		}
	}
	// every entry of a fresh Set is its own root, at sizes around the doubling boundaries
	for _, n := range []int{1, 2, 3, 4, 5, 7, 8, 9, 15, 16, 17, 31, 32, 33, 1000, 1023, 1024, 1025, 4097} {
		ds := disjoint.New(n)
		if len(ds) != n || len(ds.Roots()) != n {
			t.Fatalf("New(%d): len %d, %d roots", n, len(ds), len(ds.Roots()))
		}
		for i := 0; i < n; i++ {
			if ds.Find(i) != i {
				t.Fatalf("New(%d): Find(%d) = %d", n, i, ds.Find(i))
			}
		}
	}
}

// chain builds, with union by rank, the tree 0->1->3->7, 2->3, 4->5->7, 6->7 on 8 elements (one set).
func chain() (disjoint.Set, model) {
	ds := disjoint.New(8)
	m := model{0, 1, 2, 3, 4, 5, 6, 7}
	for _, p := range [][2]int{{0, 1}, {2, 3}, {0, 2}, {4, 5}, {6, 7}, {4, 6}, {3, 7}} {
		ds.Union(p[0], p[1])
		m.union(p[0], p[1])
	}
	return ds, m
}

func raw(ds disjoint.Set) []int { return append([]int(nil), ds...) }

func eq(a, b []int) bool {
	if len(a) != len(b) {
		return false
	}
	for i := range a {
		if a[i] != b[i] {
			return false
		}
	}
	return true
}

// Unions of elements that are already joined (equal, parent and child, siblings), exhaustively on all pairs after every
// prefix of several union sequences: the partition must not move.
func TestPropertyRedundantUnions(t *testing.T) {
	rng := rand.New(rand.NewSource(1810))
	for rep := 0; rep < 60; rep++ {
		n := 2 + rng.Intn(14)
		ds := disjoint.New(n)
		m := make(model, n)
		for i := range m {
			m[i] = i
		}
		buf := make([]int, n+1)
		for step := 0; step < 2*n; step++ {
			x, y := rng.Intn(n), rng.Intn(n)
			ds.Union(x, y)
			m.union(x, y)
			for a := 0; a < n; a++ {
				for b := 0; b < n; b++ {
					if m[a] != m[b] {
						continue
					}
					if (a+b+step)%2 == 0 {
						ds.Union(a, b)
					} else {
						ds.UnionBuffered(a, b, buf)
					}
				}
			}
			check(t, &ds, m, buf)
		}
	}
}

// OLD incidental behaviour: a union of already-joined elements still runs both lookups and therefore flattens.
func TestIncidentalRedundantUnionFlattens(t *testing.T) {
	ds, m := chain()
	start := []int{1, 3, 3, 7, 5, 7, 7, -4}
	if !eq(raw(ds), start) {
		t.Fatalf("unexpected starting tree %v", raw(ds))
	}
	ds.Union(0, 0)
	if want := []int{7, 7, 3, 7, 5, 7, 7, -4}; !eq(raw(ds), want) {
		t.Errorf("after Union(0,0): %v (old: %v)", raw(ds), want)
	}
	ds, _ = chain()
	ds.Union(0, 1) // 1 is the parent of 0
	if want := []int{7, 7, 3, 7, 5, 7, 7, -4}; !eq(raw(ds), want) {
		t.Errorf("after Union(0,1): %v (old: %v)", raw(ds), want)
	}
	ds, _ = chain()
	ds.Union(1, 2) // siblings below 3
	if want := []int{1, 7, 7, 7, 5, 7, 7, -4}; !eq(raw(ds), want) {
		t.Errorf("after Union(1,2): %v (old: %v)", raw(ds), want)
	}
	check(t, &ds, m, make([]int, 9))
}

// OLD incidental behaviour: UnionBuffered of already-joined elements writes the lookup path into buf.
func TestIncidentalRedundantUnionWritesBuffer(t *testing.T) {
	ds, m := chain()
	buf := []int{-9, -9, -9, -9, -9, -9, -9, -9}
	ds.UnionBuffered(0, 0, buf)
	if want := []int{0, 7, 3, 7, -9, -9, -9, -9}; !eq(buf, want) {
		t.Errorf("buf after UnionBuffered(0,0,buf): %v (old: %v)", buf, want)
	}
	check(t, &ds, m, make([]int, 9))
}

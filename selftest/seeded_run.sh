#!/bin/bash
# usage: selftest/seeded_run.sh <dir-with-patch.diff> <Cxx> [tier] [extra props...]
# Applies a seeded change to a scratch copy of /repo (never to /repo), confirms that the copy builds and passes the
# repo's tests, and runs the check(s) against it.  Prints CAUGHT / MISSED per property.
set -u
dir=$(cd "$1" && pwd); prop="$2"; tier="${3:-quick}"; shift; shift; shift || true
D=$(mktemp -d /tmp/seedrun.XXXXXX)
trap 'rm -rf "$D"' EXIT
cp -r /repo/. "$D/"
export GOFLAGS=-mod=mod GOPROXY=off GOSUMDB=off GOTOOLCHAIN=local
if ! git -C "$D" apply --whitespace=nowarn "$dir/patch.diff" 2>"$D/.apply.err"; then echo "PATCH-DOES-NOT-APPLY: $(head -2 "$D/.apply.err")"; exit 3; fi
if ! (cd "$D" && go build ./... 2>/dev/null); then echo "DOES-NOT-BUILD"; exit 3; fi
if [ "${SKIP_REPO_TESTS:-0}" != 1 ]; then
  if ! (cd "$D" && go test -vet=off -count=1 -timeout 900s ./... >"$D/.tests.log" 2>&1); then echo "FAILS-REPO-TESTS"; grep -E "^(---|FAIL)" "$D/.tests.log" | head -5; exit 3; fi
  echo "repo tests pass with the change"
fi
# demonstration: must pass on the clean tree and fail with the change
demo=$(ls "$dir"/*_test.go 2>/dev/null | head -1)
if [ -n "$demo" ]; then
  cmdline=$(grep -E "go test .*-run" "$demo" | head -1)
  pkg=$(echo "$cmdline" | grep -oE '\./[A-Za-z0-9_/]+' | tail -1)
  pat=$(echo "$cmdline" | sed -E "s/.*-run[ =]+'?([^' ]+)'?.*/\1/")
  race=""; echo "$cmdline" | grep -q -- "-race" && race="-race"
  if [ -n "$pkg" ] && [ -n "$pat" ]; then
    C=$(mktemp -d /tmp/seedclean.XXXXXX); cp -r /repo/. "$C/"
    cp "$demo" "$C/$pkg/zz_seed_demo_test.go"; cp "$demo" "$D/$pkg/zz_seed_demo_test.go"
    (cd "$C" && go test $race -vet=off -count=1 -timeout 600s -run "$pat" "$pkg/" >"$C/.demo.log" 2>&1); rc_clean=$?
    (cd "$D" && go test $race -vet=off -count=1 -timeout 600s -run "$pat" "$pkg/" >"$D/.demo.log" 2>&1); rc_mut=$?
    echo "demo ($pkg -run $pat $race): clean rc=$rc_clean, with change rc=$rc_mut"
    if [ $rc_clean -ne 0 ] || [ $rc_mut -eq 0 ]; then echo "DEMO-NOT-CONFIRMED"; tail -5 "$C/.demo.log"; tail -5 "$D/.demo.log"; fi
    rm -f "$D/$pkg/zz_seed_demo_test.go"; rm -rf "$C"
  else
    echo "demo: could not parse the run command from $demo"
  fi
fi
for p in "$prop" "$@"; do
  out=$(cd "$(dirname "$0")/.." && VERIF_RUN_TAG="-seed$$" VERIF_REPO="$D" VERIF_BUILD="$(pwd)/.build/seed-$p" ./check "$p" "$tier" 2>&1)
  rc=$?
  echo "$out" | grep -E "^(VIOLATION|INCONCLUSIVE|OK|KNOWN)" | head -3 | cut -c1-200
  echo "$out" | grep -E "^  (key|observed)=" | head -4 | cut -c1-300
  if [ $rc -eq 1 ]; then echo "CAUGHT by $p $tier"; else echo "MISSED by $p $tier (rc=$rc)"; fi
done

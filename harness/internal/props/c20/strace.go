package c20

// End-to-end pass of the thorough tier: tsp.LIB writes to a real *os.File in a
// helper process that runs under strace, which makes the k-th write(2) on that
// file fail with ENOSPC (once, or from k on).  The helper is this very binary:
// with VERIF_C20_HELPER=n,family,rs,path set, init() runs LIB and exits.

import (
	"bytes"
	"fmt"
	"os"
	"os/exec"
	"path/filepath"
	"strconv"
	"strings"
	"time"

	"github.com/Tom-Johnston/mamba/tsp"

	"verif/internal/engine"
)

const helperEnv = "VERIF_C20_HELPER"

func init() {
	v := os.Getenv(helperEnv)
	if v == "" {
		return
	}
	f := strings.SplitN(v, ",", 4)
	if len(f) != 4 {
		fmt.Println("BAD helper spec")
		os.Exit(3)
	}
	n, _ := strconv.Atoi(f[0])
	fam := f[1]
	rs, _ := strconv.ParseUint(f[2], 10, 64)
	out, err := os.OpenFile(f[3], os.O_WRONLY|os.O_CREATE|os.O_TRUNC, 0o644)
	if err != nil {
		fmt.Println("BAD open:", err)
		os.Exit(3)
	}
	err = tsp.LIB(out, n, func(i, j int) int { return int(weightValue(fam, n, rs, i, j)) })
	out.Close()
	if err != nil {
		fmt.Println("ERR", err)
	} else {
		fmt.Println("OK")
	}
	os.Exit(0)
}

type straceResult struct {
	out      string // helper's stdout
	injected int    // write syscalls that strace made fail
	writes   int    // write syscalls on the file
	file     []byte
	problem  string
}

func straceRun(strace, exe, spec, outPath, logPath, when string) straceResult {
	os.WriteFile(outPath, nil, 0o644) // -P needs an existing path
	os.Remove(logPath)
	args := []string{"-f", "-o", logPath, "-e", "trace=write", "-P", outPath}
	if when != "" {
		args = append(args, "-e", "inject=write:error=ENOSPC:when="+when)
	}
	args = append(args, exe)
	cmd := exec.Command(strace, args...)
	cmd.Env = append(os.Environ(), helperEnv+"="+spec, "GOMAXPROCS=2")
	var so, se bytes.Buffer
	cmd.Stdout = &so
	cmd.Stderr = &se
	if err := cmd.Start(); err != nil {
		return straceResult{problem: "cannot start strace: " + err.Error()}
	}
	done := make(chan error, 1)
	go func() { done <- cmd.Wait() }()
	var werr error
	select {
	case werr = <-done:
	case <-time.After(120 * time.Second): // safety net only; a run takes some 20 ms
		cmd.Process.Kill()
		<-done
		return straceResult{problem: "strace run did not finish within 120 s"}
	}
	r := straceResult{out: strings.TrimSpace(so.String())}
	if werr != nil {
		r.problem = fmt.Sprintf("strace/helper exit: %v; stderr: %s", werr, clip(se.String(), 400))
		return r
	}
	lg, err := os.ReadFile(logPath)
	if err != nil {
		r.problem = "no strace log: " + err.Error()
		return r
	}
	for _, l := range strings.Split(string(lg), "\n") {
		if strings.Contains(l, "write(") {
			r.writes++
			if strings.Contains(l, "(INJECTED)") {
				r.injected++
			}
		}
	}
	r.file, _ = os.ReadFile(outPath)
	if !strings.HasPrefix(r.out, "OK") && !strings.HasPrefix(r.out, "ERR") {
		r.problem = "helper printed " + strconv.Quote(clip(r.out, 200)) + "; stderr: " + clip(se.String(), 400)
	}
	return r
}

func stracePlane(c *engine.Ctx, n int, fam string, rs uint64, fk string) {
	c.Obs("strace_units", 1)
	skip := func(msg string) {
		c.Obs("strace_units_skipped", 1)
		c.Inconclusive("strace pass: " + msg)
	}
	b := cleanRun(c, n, fam, rs, fk, fam != randFamily)
	if b == nil {
		c.Obs("strace_units_skipped", 1)
		return
	}
	strace, err := exec.LookPath("strace")
	if err != nil {
		skip("strace not found")
		return
	}
	exe, err := os.Executable()
	if err != nil {
		skip("os.Executable: " + err.Error())
		return
	}
	W := len(b.sizes)
	tag := fmt.Sprintf("strace-n%d-%s", n, fam)
	outPath := filepath.Join(c.OutDir(), tag+".tsp")
	logPath := filepath.Join(c.OutDir(), tag+".log")
	spec := fmt.Sprintf("%d,%s,%d,%s", n, fam, rs, outPath)
	// control: the fault lies beyond the last write => nothing injected, the
	// helper succeeds, the file is the fault-free output and the number of
	// write syscalls on it is W (so that when=k addresses Write call k-1).
	ctl := straceRun(strace, exe, spec, outPath, logPath, strconv.Itoa(W+1))
	if ctl.problem != "" {
		skip(ctl.problem)
		return
	}
	if ctl.injected != 0 || ctl.writes != W || !strings.HasPrefix(ctl.out, "OK") || !bytes.Equal(ctl.file, b.data) {
		skip(fmt.Sprintf("control run: injected=%d writes=%d (in-process W=%d) helper=%q file equal=%v", ctl.injected, ctl.writes, W, ctl.out, bytes.Equal(ctl.file, b.data)))
		return
	}
	c.Obs("strace_control_runs_ok", 1)
	modes := []string{"strace-transient", "strace-permanent"}
	c.Emit(stream, event{K: "base", N: n, WF: fam, RS: rs, W: W, Sizes: b.sizes, Bytes: len(b.data), WS: b.ws, ES: b.es, Header: string(b.data[:b.ws]), Modes: modes, ErrNil: true})
	for _, mode := range modes {
		for p := 0; p < W; p++ {
			when := strconv.Itoa(p + 1)
			if mode == "strace-permanent" {
				when += "+"
			}
			sect, loc := b.location(p)
			r := straceRun(strace, exe, spec, outPath, logPath, when)
			if r.problem != "" {
				skip(r.problem)
				return
			}
			ev := event{K: "fault", N: n, WF: fam, RS: rs, W: W, Fault: &faultDesc{Pos: p, Mode: mode, Len: b.sizes[p], Sect: sect},
				Fired: r.injected > 0, NW: r.writes, Got: len(r.file), ErrNil: strings.HasPrefix(r.out, "OK"), Err: strings.TrimPrefix(r.out, "ERR ")}
			if ev.ErrNil {
				ev.Err = ""
			}
			ev.PrefixOK = len(r.file) >= b.offs[p] && bytes.Equal(r.file[:b.offs[p]], b.data[:b.offs[p]])
			ev.Complete = bytes.Equal(r.file, b.data)
			c.Emit(stream, ev)
			c.Obs("fault_runs:"+mode, 1)
			c.Obs("strace:section:"+sect, 1)
			if coversWeights(sect) {
				c.NTDistinct(1)
			}
			if !ev.Fired {
				c.Obs("fault_not_reached", 1)
				continue
			}
			if ev.ErrNil {
				det := caseDetail{N: n, Weights: fam, RS: rs, Matrix: matrixRows(fam, n, rs), Fault: mode, Pos: p, W: W, Sect: sect,
					Note: fmt.Sprintf("helper process writing to a real file; strace -e inject=write:error=ENOSPC:when=%s; the file has %d of %d bytes", when, len(r.file), len(b.data))}
				c.Violation(violKey(mode, loc), det, fmt.Sprintf("LIB returned nil although write(2) number %d on the file failed with ENOSPC (%d of %d bytes in the file)", p+1, len(r.file), len(b.data)), "a non-nil error")
			}
		}
	}
	os.Remove(outPath)
	os.Remove(logPath)
}

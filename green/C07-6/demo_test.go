// Demo for C07 harmless change 6 (PruferEncode / PruferDecode check their arguments: inputs outside the domain).
//
// Run (from the root of the library worktree):
//
//	cp /tmp/green-out/C07/6/demo_test.go graph/zz_c07_demo_test.go
//	GOFLAGS=-mod=mod GOPROXY=off GOSUMDB=off GOTOOLCHAIN=local go test -vet=off -count=1 -timeout 300s -run 'TestC07Demo' -v ./graph/
//	rm graph/zz_c07_demo_test.go
//
// TestC07DemoIncidental asserts the OLD behaviour on inputs OUTSIDE the domain of the Pruefer pair:
//   - PruferEncode of a graph that is not a tree (C4, K4, a triangle plus an isolated vertex, an edgeless graph, a
//     forest of two edges) returned quietly with some meaningless slice (C4: [], K4: [], P2+P2: [1 3]);
//   - PruferEncode of a graph on 0 or 1 vertices died inside make with the runtime error
//     "makeslice: cap out of range";
//   - PruferDecode of a sequence with an entry outside 0..n-1 died with a runtime index-out-of-range error.
//
// It passes on the clean tree and fails with the change (descriptive string panics in all three cases).
// TestC07DemoProperty checks the property itself: for every n in 2..7 all n^(n-2) codes decode to pairwise different
// trees (n-1 edges, connected) whose code is the original one, compared with an independent encoder; random codes up to
// n = 200; Decode(Encode(t)) == t for random trees given as DenseGraph, SparseGraph and through a plain Graph wrapper;
// stars, paths (both directions) and caterpillars. It passes on both trees.
package graph_test

import (
	"fmt"
	"math/rand"
	"reflect"
	"runtime"
	"testing"

	"github.com/Tom-Johnston/mamba/graph"
)

//c07call runs f and reports the value it panicked with (nil if it returned).
func c07call(f func()) (panicked bool, value interface{}) {
	defer func() {
		if r := recover(); r != nil {
			panicked, value = true, r
		}
	}()
	f()
	return false, nil
}

func c07FromEdges(n int, edges ...[2]int) *graph.DenseGraph {
	g := graph.NewDense(n, nil)
	for _, e := range edges {
		g.AddEdge(e[0], e[1])
	}
	return g
}

//c07RefEncode is an independent Pruefer encoder working on an adjacency matrix.
func c07RefEncode(g graph.Graph) []int {
	n := g.N()
	adj := make([][]bool, n)
	deg := make([]int, n)
	for i := range adj {
		adj[i] = make([]bool, n)
	}
	for i := 0; i < n; i++ {
		for j := 0; j < n; j++ {
			if i != j && g.IsEdge(i, j) {
				adj[i][j] = true
				deg[i]++
			}
		}
	}
	code := []int{}
	for step := 0; step < n-2; step++ {
		leaf := -1
		for v := 0; v < n; v++ {
			if deg[v] == 1 {
				leaf = v
				break
			}
		}
		for u := 0; u < n; u++ {
			if adj[leaf][u] {
				code = append(code, u)
				adj[leaf][u], adj[u][leaf] = false, false
				deg[u]--
				deg[leaf]--
				break
			}
		}
	}
	return code
}

func c07IsTree(g graph.Graph) bool {
	n := g.N()
	if g.M() != n-1 {
		return false
	}
	seen := make([]bool, n)
	stack := []int{0}
	seen[0] = true
	count := 1
	for len(stack) > 0 {
		v := stack[len(stack)-1]
		stack = stack[:len(stack)-1]
		for u := 0; u < n; u++ {
			if !seen[u] && g.IsEdge(u, v) {
				seen[u] = true
				count++
				stack = append(stack, u)
			}
		}
	}
	return count == n
}

func c07EqualInts(a, b []int) bool {
	if len(a) != len(b) {
		return false
	}
	for i := range a {
		if a[i] != b[i] {
			return false
		}
	}
	return true
}

//c07plain hides the concrete type of a graph.
type c07plain struct{ graph.Graph }

func TestC07DemoIncidental(t *testing.T) {
	nonTrees := []struct {
		name string
		g    graph.Graph
	}{
		{"C4", c07FromEdges(4, [2]int{0, 1}, [2]int{1, 2}, [2]int{2, 3}, [2]int{3, 0})},
		{"K4", c07FromEdges(4, [2]int{0, 1}, [2]int{0, 2}, [2]int{0, 3}, [2]int{1, 2}, [2]int{1, 3}, [2]int{2, 3})},
		{"triangle+K1", c07FromEdges(4, [2]int{0, 1}, [2]int{1, 2}, [2]int{0, 2})},
		{"edgeless 5", graph.NewDense(5, nil)},
		{"P2+P2", c07FromEdges(4, [2]int{0, 1}, [2]int{2, 3})},
	}
	for _, c := range nonTrees {
		var code []int
		panicked, v := c07call(func() { code = graph.PruferEncode(c.g) })
		t.Logf("PruferEncode(%v): panicked=%v value=%v result=%v", c.name, panicked, v, code)
		if panicked {
			t.Errorf("OLD behaviour gone: PruferEncode(%v) used to return quietly, now panics with %q", c.name, fmt.Sprint(v))
		}
	}
	for n := 0; n < 2; n++ {
		panicked, v := c07call(func() { graph.PruferEncode(graph.NewDense(n, nil)) })
		_, isRuntime := v.(runtime.Error)
		t.Logf("PruferEncode(n=%v): panicked=%v value=%v (%T)", n, panicked, v, v)
		if !panicked || !isRuntime {
			t.Errorf("OLD behaviour gone: PruferEncode on %v vertices used to die with a runtime error from make, got %T %v", n, v, v)
		}
	}
	for _, p := range [][]int{{4}, {-1}, {0, 1, 7}, {0, 5, 0}} {
		panicked, v := c07call(func() { graph.PruferDecode(p) })
		_, isRuntime := v.(runtime.Error)
		t.Logf("PruferDecode(%v): panicked=%v value=%v (%T)", p, panicked, v, v)
		if !panicked {
			t.Errorf("PruferDecode(%v) did not panic", p)
		} else if !isRuntime {
			t.Errorf("OLD behaviour gone: PruferDecode(%v) used to die with a runtime index error, now panics with %T %q", p, v, fmt.Sprint(v))
		}
	}
}

func c07CheckCode(t *testing.T, code []int) *graph.DenseGraph {
	n := len(code) + 2
	in := append([]int{}, code...)
	g := graph.PruferDecode(code)
	if !c07EqualInts(in, code) {
		t.Fatalf("PruferDecode modified its argument %v", in)
	}
	if g.N() != n || !c07IsTree(g) {
		t.Fatalf("PruferDecode(%v) is not a tree on %v vertices", code, n)
	}
	back := graph.PruferEncode(g)
	if !c07EqualInts(back, code) || !c07EqualInts(c07RefEncode(g), code) {
		t.Fatalf("code %v: PruferEncode(PruferDecode) = %v, reference %v", code, back, c07RefEncode(g))
	}
	for _, x := range back {
		if x < 0 || x >= n {
			t.Fatalf("code entry %v outside 0..%v", x, n-1)
		}
	}
	//Other representations of the same tree give the same code and decode back to the same tree.
	sp := graph.NewSparse(n, nil)
	for i := 0; i < n; i++ {
		for j := 0; j < i; j++ {
			if g.IsEdge(i, j) {
				sp.AddEdge(i, j)
			}
		}
	}
	if !c07EqualInts(graph.PruferEncode(sp), code) || !c07EqualInts(graph.PruferEncode(c07plain{g}), code) {
		t.Fatalf("code %v: other representations give another code", code)
	}
	if h := graph.PruferDecode(graph.PruferEncode(sp)); !graph.Equal(h, g) || !reflect.DeepEqual(h.Edges, g.Edges) {
		t.Fatalf("code %v: Decode(Encode(t)) != t", code)
	}
	return g
}

func TestC07DemoProperty(t *testing.T) {
	//All codes for small n: a bijection.
	for n := 2; n <= 7; n++ {
		total := 1
		for i := 0; i < n-2; i++ {
			total *= n
		}
		seen := make(map[string]bool, total)
		code := make([]int, n-2)
		for c := 0; c < total; c++ {
			x := c
			for i := range code {
				code[i] = x % n
				x /= n
			}
			g := c07CheckCode(t, code)
			seen[string(g.Edges)] = true
		}
		if len(seen) != total {
			t.Fatalf("n=%v: %v codes gave %v different trees", n, total, len(seen))
		}
	}
	//Random codes, stars, paths, caterpillars.
	rng := rand.New(rand.NewSource(3))
	for iter := 0; iter < 150; iter++ {
		n := 2 + rng.Intn(199)
		code := make([]int, n-2)
		switch iter % 5 {
		case 0:
			c := rng.Intn(n)
			for i := range code {
				code[i] = c //star
			}
		case 1:
			for i := range code {
				code[i] = i + 1 //path 0-1-...-n-1
			}
		case 2:
			for i := range code {
				code[i] = n - 2 - i //path in the other direction
			}
		case 3:
			for i := range code {
				code[i] = rng.Intn(1 + n/4) //caterpillar-like, few internal vertices
			}
		default:
			for i := range code {
				code[i] = rng.Intn(n)
			}
		}
		c07CheckCode(t, code)
	}
	//Trees built edge by edge (random recursive trees with shuffled labels).
	for iter := 0; iter < 100; iter++ {
		n := 2 + rng.Intn(60)
		perm := rng.Perm(n)
		g := graph.NewDense(n, nil)
		for v := 1; v < n; v++ {
			g.AddEdge(perm[v], perm[rng.Intn(v)])
		}
		code := graph.PruferEncode(g)
		if len(code) != n-2 || !c07EqualInts(code, c07RefEncode(g)) {
			t.Fatalf("random tree: code %v, reference %v", code, c07RefEncode(g))
		}
		if h := graph.PruferDecode(code); !graph.Equal(h, g) {
			t.Fatalf("random tree: Decode(Encode(t)) != t")
		}
	}
}

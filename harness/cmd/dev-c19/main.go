package main

import (
	"verif/internal/cli"
	_ "verif/internal/props/c19"
)

func main() { cli.Main() }

#!/usr/bin/env python3
"""Regenerates /verif/MANIFEST.json from the table below (keeps it valid and current)."""
import json, os, subprocess, sys

V = "/verif"
CHECKS = {
 # id: (level, technique, level text, level note, design ref)
 "C01": ("exploration",
         "runtime monitoring: metamorphic relabelling oracle + exhaustive labelled sweeps counted against the Polya number (offline checker over recorded canonical forms)",
         "CanonicalIsomorph is run on every labelled graph with n <= 7 (all 2^28 with n = 8 in thorough), on every isomorphism class with n <= 8 under 64 (512) seeded relabellings in dense and sparse form, on ~100 structured families up to n = 64 and on seeded graphs; the harness recomputes the canonical graph from its own matrix and requires identity across relabellings/representations, and the number of distinct canonical graphs of a complete sweep to equal the number of classes. This is what found the pinned defect (2 of 12346 classes, 9 % of relabellings). Holds on what was observed; above n = 8 only families and samples.",
         "Trusts the harness relabelling code, the Polya count (checked against A000088) and, for n >= 9 only, search.All as input source.",
         "DESIGN.md section 4 C01"),
 "C02": ("exploration",
         "runtime monitoring: per-call oracle (independent automorphism search + Schreier-Sims group order), metamorphic relabelling with classes carried along, reuse histories compared with fresh calls",
         "Every (perm, orbits, generators) triple returned for all classes n <= 8, ~100 families with analytically known |Aut|, all ordered set partitions as vertex classes for all classes n <= 4 (n = 5 thorough) and seeded cases is judged: generators are automorphisms, orbits equal the true orbit partition, |<gens>| = |Aut|; histories of 50-300 graphs through one reused storage/partition pair must equal fresh calls exactly. Found and drove the repair of three vertex-class defects. Holds on what was observed; |Aut| oracle bounds the sizes.",
         "Trusts iso.Automorphisms / iso.GroupOrder (validated on known groups at start-up and against ~90 table values in the harness tests).",
         "DESIGN.md section 4 C02"),
 "C03": ("exploration",
         "runtime monitoring: complete Value() logs per shard and predicate placement, offline exactly-once checker (invariant buckets + isomorphism search, Polya counts, harness-side predicate filter)",
         "The whole output of search.All(n,a,m) is recorded for n = 0..8 with m in {1,2,3,4,5,7,16} (n = 9 with m in {1,4}; thorough: all seven m at n = 9 and n = 10 with m = 1 and 16) and of WithPruning for 11 hereditary predicates as preprune / prune / both (n <= 8, 9 thorough). Offline: no two values of a configuration isomorphic (decided by the harness's own isomorphism search, so a duplicate cannot cancel a miss), total = Polya count, pruned outputs = filtered class list, every value well formed. Holds on what was observed; n >= 11 out of reach.",
         "Trusts iso.Invariant/Isomorphic, the Polya counts and the harness predicates.",
         "DESIGN.md section 4 C03"),
 "C04": ("fault_enumeration",
         "runtime monitoring over enumerated interruption points: every save position of every configuration, Save/Load, original and loaded copy advanced alternately and compared with the uninterrupted log",
         "For all (n <= 7, a, m in {1,2,3}) and three predicate placements EVERY save position k = 0..len(output)+1 (incl. before the first Next and after exhaustion) is exercised: a fresh iterator is advanced k times, saved and loaded, then both are stepped alternately and must reproduce the rest of the uninterrupted log in order and then stay exhausted; chains of three save/load generations at seeded positions; thorough adds n = 8 (every k) and n = 9 (seeded k).",
         "Trusts the uninterrupted run as reference (its content is judged by C03) and the harness graph6 writer.",
         "DESIGN.md section 4 C04"),
 "C05": ("exploration",
         "runtime monitoring: model-based lock-step oracle over edit histories on DenseGraph and SparseGraph (bounded-exhaustive + seeded), all observers after every operation",
         "Every operation of every generated edit history is applied to a DenseGraph, a SparseGraph and a bit-matrix model; after each operation N, M, IsEdge (all ordered pairs), Neighbours and Degrees of every live graph (sources, copies, induced subgraphs) are compared with the models, so aliasing and stale cached counts surface at the first operation that exposes them. All histories of length <= 4 (5 thorough) from 8 small start graphs are enumerated; seeded histories reach n = 12 (40 thorough). Holds on what was observed.",
         "Trusts the harness model rg.G; argument domain: valid indices, neighbour / vertex lists without repeats.",
         "DESIGN.md section 4 C05"),
 "C06": ("exploration",
         "runtime monitoring: well-formedness checker on every returned graph + independent edge-set definition per family + aliasing probes (caller mutates its slices afterwards), on dense, sparse and live views",
         "Every constructor, generator, decoder and transformation is called over parameter grids from the smallest accepted size to ~40 vertices (~250 thorough), all labelled graphs n <= 5, all classes n = 6 (7), seeded graphs and all Pruefer codes n <= 6 (8); each result must be symmetric, loop-free, with M / Degrees / Neighbours equal to its adjacency, and equal to the independent definition of its family (labelled where the documentation fixes the numbering, up to isomorphism otherwise); graphs built from caller slices are re-observed after the caller overwrites them.",
         "Trusts the reference definitions in props/c06/ref.go (self-checked on group orders, edge counts, Cayley's formula) and rg.Conforms. Parameters outside the documented domains are not called.",
         "DESIGN.md section 4 C06"),
 "C07": ("exploration",
         "runtime monitoring: reference codec written from the format definitions (graph6, sparse6 in nauty's pair order with both padding rules, Multicode, Pruefer) compared per call; strict spec reader on every encoder output",
         "For all labelled graphs n <= 5, all classes n = 6, 7 (8) x relabellings, every n in 0..70, powers of two, n up to 300, graph6 at n = 4096, sparse6 at n = 65535..262145 (4- and 8-byte headers, neighbour lists only), decode(encode(g)) == g with and without headers, encoder bytes in range, graph6 and sparse6 strings equal to the reference encoder, the spec reader must read the library's sparse6 as exactly g with no loop or repeated edge; all Pruefer codes n <= 7 (8) both compositions; Multicode single and all concatenations of <= 3 records incl. n = 0, 1.",
         "Trusts the reference codec (7 self-checks incl. the formats.txt examples, Sage's Petersen strings and the repo's own test strings).",
         "DESIGN.md section 4 C07"),
 "C08": ("exploration",
         "runtime monitoring with hostile inputs: exhaustive short strings, mutated / truncated valid encodings, synthesised sparse6 bit streams; outcome oracle (error or well-formed graph of the declared order, re-encode/decode stable); CPU watchdog for non-termination",
         "All strings of length <= 2 over 256 bytes in 6 framings, all strings of length 3-4 (5) over a 14-byte hostile alphabet, all 12-bit sparse6 streams for n <= 17, every truncation / boundary-byte substitution / trailing garbage of hundreds of valid encodings, seeded pair streams with every last-byte fill, 1-, 4- and 8-byte headers with inconsistent n (declared n <= 4096): each call must return (no panic, no budget overrun) an error or a well-formed graph on the declared number of vertices for which decode(encode(.)) is the identity.",
         "Trusts the harness header parser and rg.WellFormed; what a hostile string decodes to is recorded, not judged.",
         "DESIGN.md section 4 C08"),
 "C09": ("exploration",
         "runtime monitoring: brute-force value oracles and definition-based witness checkers per call, across relabellings and five representations (dense, sparse, induced view, complement views)",
         "Every listed function is called on every class n <= 7 (8 thorough) x 6 labellings x 5 representations, on 57 named families with published values and on seeded graphs up to 13 vertices: values must equal brute force; colourings proper with exactly chi colours; edge colourings proper with exactly chi' colours in 1..chi' and 0 on non-edges; maximal cliques exactly the set, each once, channel closed (bounded receive); IsKColorable for all k in 0..n+1; polynomial evaluated at k = 0..n+1 = number of proper k-colourings; GreedyColor = reference first fit on all orders (n <= 5); degeneracy order certificate.",
         "Trusts the brute-force oracles (self-checked against published chi/omega tables) on the sizes used.",
         "DESIGN.md section 4 C09"),
 "C10": ("exploration",
         "runtime monitoring: definition-based oracles (BFS distances, vertex-deletion cut vertices, edge-equivalence blocks, cycle / induced path / induced cycle enumerators) per call across relabellings and four representations; constructed block forests with known structure",
         "Distance (all pairs), Eccentricity, Diameter, Radius, Girth, ConnectedComponent(s), BiconnectedComponents, NumberOfCycles and NumberOfInducedCycles/Paths for every bound -1..n+1 are called on every class n <= 7 (8 thorough) x 4 labellings, all labelled graphs n <= 5 (6), 101 families, 480 (4800) constructed block forests / cacti up to 30 vertices and 640 (6400) seeded graphs, each as dense, sparse, induced view and complement view; results are compared with the oracles, vertex-indexed results mapped through the relabelling; entries beyond the bound are not judged.",
         "Trusts the conn oracles (self-checked on closed forms and against the brute-force package).",
         "DESIGN.md section 4 C10"),
 "C11": ("exploration",
         "runtime monitoring with a certificate-checked oracle: every expected verdict carries a rotation system verified by an Euler-genus checker or a verified K5/K3,3 subdivision; constructed planar / non-planar families up to 200 vertices, class sweeps, metamorphic relations; panics and non-termination are violations",
         "IsPlanar is called on every class n <= 8 under many relabellings (all of them for n <= 6; n = 9 and a sample of n = 10 in thorough) in dense and sparse form, on thousands of graphs planar by construction (stacked / flipped triangulations, plane 2-connected graphs, outerplanar, grids, block trees and their subgraphs, subdivisions, pendant / isolated extensions) and non-planar by construction (subdivided K5 / K3,3 alone, glued, overlaid deep inside planar hosts), on named and near-planar graphs judged by an independent DMP whose certificates are verified, and on certificate-free metamorphic pairs. Only certified disagreements are violations.",
         "Trusts the two certificate checkers (self-checked: K4 2/16 rotation systems, K5 0/7776, K3,3 0/64; planar class counts = A005470 up to n = 9). For n >= 9 the class list comes from search.All.",
         "DESIGN.md section 4 C11"),
 "C12": ("exploration",
         "runtime monitoring: model-based oracle (sorted word list, ranks = indices, minimal DFA size by hash-consing right languages) on every built automaton, Add histories with rejected words, node structure read through a verif-tagged accessor",
         "For all 2^15 word sets over {a,b} (length <= 3), all 2^13 over {a,b,c} (length <= 2), seeded sets over alphabets of 1..256 bytes up to 5000 words (thorough: 2^21 sets, the dictionary) every member, prefix, extension, one-byte edit and random probe is looked up and compared with the model (rank = index), NumberOfWords, node count (GobEncode header and accessor) = minimal DFA size, per-node word counts = right-language sizes; Add histories with out-of-order / duplicate / nil / caller-mutated words must reject exactly those and build the accepted subsequence.",
         "Trusts the refdawg model and the add-only accessor dawg.VerifNodes (build tag verif).",
         "DESIGN.md section 4 C12"),
 "C13": ("exploration",
         "runtime monitoring: reference filter over the sorted word list for patterns, anagrams and their intersections; repeated searches and searcher reuse; Lookup unchanged afterwards",
         "On every Dawg of the C12 workloads all patterns and anagrams over alphabet + blank (exhaustive for the small alphabets, seeded above, incl. blanks equal to letters, letters outside the alphabet, empty, all-blank, repeated letters) and combinations of searchers are run; results must equal the byte-wise reference filter, in lexicographic order, with ids = ranks; the same searcher objects are searched again (same and another Dawg) and all Lookups re-checked.",
         "Trusts the byte-wise match predicates of refdawg.",
         "DESIGN.md section 4 C13"),
 "C14": ("exploration",
         "runtime monitoring: round-trip oracle (GobDecode(GobEncode) and encoding/gob) with behavioural comparison and byte-identical re-encoding across fan-out and count boundaries",
         "Every Dawg of the C12 workloads plus constructed ones with k children for k in {0,1,127,128,129,255,256} and node / word / id counts on both sides of 127, 255/256 and 65535 is encoded, decoded (directly and through encoding/gob) and compared: same words, ranks, NumberOfWords, node count, search results; encoding again gives the same bytes.",
         "Trusts refdawg and the node accessor.",
         "DESIGN.md section 4 C14"),
 "C15": ("exploration",
         "runtime monitoring: reference enumerators (exact sequence / multiset oracle), bounded drive of Next with post-exhaustion probes, instrumented predicate callbacks",
         "Every iterator is driven for at most |expected|+3 calls on all parameters with n <= 8 (9 thorough) including k = 0, k > n, n = 0/1, zero and repeated multiplicities, empty factors; each yielded object is compared with an independent recursive reference in the documented order (or as a set where none is documented); three further Next calls must report exhaustion; predicate-driven iterators are compared with the filtered unrestricted family and every callback argument is checked. Found eight defects (all repaired). Holds on what was observed.",
         "Trusts the recursive reference enumerators (validated against C(n,k), n!, Bell and partition numbers); 0-vs-1-object conventions that the documentation leaves open are recorded, not judged.",
         "DESIGN.md section 4 C15"),
 "C16": ("exploration",
         "runtime monitoring: big-integer oracle per call over exhaustive small ranges, every overflow threshold +-3, seeded 64-bit arguments; Rank/Unrank inverse and colex agreement; CPU watchdog for termination",
         "CoeffUint64/Coeff are called on every (n,k) with n <= 80, on both sides (+-3) of the exact thresholds C(n,k)*k' <= 2^64-1 and C(n,k) <= 2^64-1 (and the int ones) for all k <= 40, on powers of two +-1 and on 10^5 (10^7) seeded pairs: the result must equal math/big or be a panic, and must not be a panic inside the guaranteed range; Coeffs = Pascal; Rank/Unrank are mutually inverse on all ranks < 5000 x k <= 6, around every C(l,k) boundary near MaxInt and on seeded 63-bit ranks, and agree with CombinationsColex; an Unrank that does not return is a violation (CPU budget).",
         "Trusts math/big and the bigcomb reference (self-checked against Pascal and bit-mask colex order).",
         "DESIGN.md section 4 C16"),
 "C17": ("exploration",
         "runtime monitoring: map-based set model per call, bounded-exhaustive operand domains, mutation histories, argument-immutability sentinels; ints.Sort against sort.Ints incl. the heapsort branch via a verif-tagged entry point",
         "All binary operations on all pairs of subsets of {-2..3}, Add/NewSortedInts on all argument lists of length <= 4 over {-1..3} x all receivers in {0..4}, Range on all (start,end,step) in [-6,6]^3 plus the limits of int (documented panics required), seeded large sets, mutation histories with and without spare capacity; results must be strictly increasing and equal the model, non-mutating functions must leave operands (and the memory around them) untouched; ints.Sort on 0..3000 elements of seven shapes and the heapsort fallback.",
         "Trusts the refset model and sort.Ints; the add-only hook ints.VerifQuickSortDepth (build tag verif).",
         "DESIGN.md section 4 C17"),
 "C18": ("exploration",
         "runtime monitoring: model-based lock-step oracle over union/find histories (bounded-exhaustive + seeded)",
         "Every operation of every generated history is judged against a naive partition model; all histories of length <= 4 (5 in thorough) over the full operation alphabet on n <= 4 are enumerated exhaustively, deep-tree union orders and long seeded histories up to n = 256 add path compression over chains of depth >= 3. Holds on what was observed; larger n and longer histories are only sampled.",
         "Trusts the harness model (label array, relabel on union) and that copying a disjoint.Set with append() gives an independent value.",
         "DESIGN.md section 4 C18"),
 "C19": ("exploration",
         "runtime monitoring under the Go race detector: 16 goroutines on independent values and shared read-only values at GOMAXPROCS 2/4/16 with seeded yields; race-report counter over the detector log + result-equality oracle against sequential execution",
         "Eight workloads (16 search shards in parallel, canonical labelling with own and reused storage, shared Dawg with per-goroutine searchers, shared dense/sparse/view graphs under every observer and read-only algorithm, one iterator/builder/set history per goroutine, comb tables, concurrent AllMaximalCliques producers, a pure-harness stub) run in a -race build; zero race reports and every result equal to the same operation run alone are required; the evidence counts temporally overlapping operation pairs actually observed. Schedules are sampled.",
         "Trusts the race detector (happens-before over executed accesses) and the harness's own synchronisation (stub workload).",
         "DESIGN.md section 4 C19"),
 "C20": ("fault_enumeration",
         "runtime monitoring with fault injection: recording / failing io.Writer at every write position x 4 failure modes, offline checker over the recorded event log, TSPLIB reference parser; strace syscall fault injection end to end (thorough)",
         "For n = 0..12 (60 thorough) and 7 weight families the bytes received are parsed by a reader written from the TSPLIB description and compared entry by entry, the weights callback arguments are checked, and EVERY write position of the fault-free run is failed in turn (permanent, transient, short write with error; short write with nil error is recorded only): LIB must return a non-nil error. Verdicts are re-derived offline from the event log. Thorough repeats the plane on a real file with strace -e inject=write:error=ENOSPC.",
         "Trusts the reference parser (self-checked on 23 documents) and that one Write call of the fault-free run = one fault position (text/tabwriter buffering is part of the observed behaviour).",
         "DESIGN.md section 4 C20"),
}
PENDING_REASON = "monitor not built yet in this revision of /verif (work in progress; see DESIGN.md section 4 for the design)"
# Workloads added after the first version of each check (red-team rounds 1-5, see DESIGN.md 10.5); appended to the level text.
ADDED = {
 "C01": "Added later: big cells with remaining symmetry, all circulants n = 10..14 (18) with one edge toggled, perturbed family members, every multiset of 4..6 short cycles and seeded multisets of other small components (and complements) under 300..1000 relabellings, classes n = 9, 10 in thorough, representation variants (edge bytes 1..255, spare capacity), earlier results re-read after later calls. A budget overrun on inputs of >= 13 vertices is counted, not judged.",
 "C02": "Added later: representation variants, reuse histories crossing size changes, earlier results re-read after later calls. The three results are appended to by the caller and must not disturb each other.",
 "C03": "Added later: restricted searches at n = 10..13 against a harness-owned restricted class generator (triangle-free n = 12 in thorough), degenerate hereditary classes (empty class, order <= 0, order <= 3) and cographs, predicates placed as preprune / prune / both.",
 "C04": "Added later: periodic checkpoints on one iterator in three buffer modes, failed Save attempts before a good one, save positions in orders 10..14 (18) judged on a prefix of the output, the checkpoint handed to Load through seven kinds of io.Reader. Added in round 8: several checkpoints in one stream, loaded back in order from byte readers.",
 "C05": "Added later: histories on graphs crossing 64 / 128 vertices, start graphs in representation variants, caller-owned argument and result slices (pooled, scribbled on), InducedSubgraph lists of every relative size on hub graphs.",
 "C06": "Added later: transformation chains, edit chains under live views, independence of multiple results, free-form decoder inputs from independent writers, every transformation on representation variants and on values the library built from such inputs. Added in round 8: the double complement (ComplementDense of a Complement view) as a value of its own, source and result edited in turn.",
 "C07": "Added later: long Pruefer codes, high-degree graphs, representation variants as encoder inputs, results of all nine functions held across later calls, arguments as sub-slices of caller-owned buffers with guarded surroundings.",
 "C08": "Added later: grammar-aware numeric-limit inputs (n = 0 with 64-bit vertex numbers, walks of the current vertex across n, 2^k, 2^8 .. 2^64, long runs), results edited by the caller before the same string is decoded again, every small result re-encoded in the other format and read back.",
 "C09": "Added later: structured graphs with closed-form values up to 257 vertices (K_{256,257}), argument graphs re-read after the call. Received cliques are kept while the producer goes on, then appended to by the receiver.",
 "C10": "Added later: structured graphs with closed forms at n = 31..257, graphs of 300..4096 vertices with independent oracles, call sessions in one process (same function twice, large after small, representation changes). Added in round 8: the caller appends to every list of a result; calls nested in one another through a caller-implemented Graph.",
 "C11": "Added later: live views (induced, complement, nested) and representation variants as inputs, repeated calls, view sessions with edits of the host between calls, a Graph implemented by the caller (handing out copies, as the library types do); two hubs over a forest of paths (fragments with many admissible faces) under 30 seeded relabellings each.",
 "C12": "Added later: caller-owned word slices, Builder life cycles (one Builder for several Dawgs, Initialise after Finish / abandoned build / rejected Add, Builder values moved by assignment) with every earlier Dawg re-checked.",
 "C13": "Added later: user-defined searchers and nested searches, words of up to 6228 (65537) bytes and result totals beyond 65536 bytes, results of earlier searches held and overwritten.",
 "C14": "Added later: receivers that already hold an automaton, caller-owned bytes, more than 65536 nodes, the last integer of the stream at every width, Dawgs of reused Builders. The byte layout itself is recorded, not judged. A value copy of the Dawg kept across a reload of the variable.",
 "C15": "Added later: large n with small output, caller-owned argument slices, one argument slice for several iterators (sequential, built-first, interleaved), prefix judgement of families with more than 2^63 / 2^64 objects, look-ahead predicates that append a candidate to their argument. Parameters outside the documented domain are recorded, not judged.",
 "C16": "Added later: long-loop Unrank cases, Rank of dense sets of up to 25000 elements around MaxInt / 2^64 / 2^65, a ledger of held results re-read after every later call and ten call-order patterns. The caller extends every value of a colex walk with append.",
 "C17": "Added later: value semantics of SortedInts (copies and sub-slices sharing a backing array), every representation of the empty set in every argument position, library results fed back as arguments. In-place Remove / Union inside their own window are by design and counted, not judged.",
 "C18": "All operation sequences up to a length bound (self-unions and redundant unions included), binomial-tree union orders and seeded long histories; after every operation the whole partition, Sets, SmallestRep and Roots are compared with the model. Added later: views on the live value, every labelling of the 8-element binomial tree, several Sets side by side in one array (prefix views). The lists of Sets are appended to and overwritten by the caller, Sets is asked again.",
 "C19": "Added later: every unit in a fresh process with the concurrent phase first, wide alphabets, own graphs, shared large graphs (views of 66..130 vertices), clique consumers that own the slices they receive, shared read-only argument slices.",
 "C20": "Added later: 256..1025 rows with sampled fault positions, writer types (bufio, StringWriter, ReaderFrom, MultiWriter), call sequences after a failed call, 33 fault modes (count x error x bytes x duration), nested overlapping calls, operating-system files and pipes that refuse the write themselves.",
}


def main():
    props = [json.loads(l) for l in open(f"{V}/properties.jsonl")]
    hooks_commits = []
    hf = f"{V}/MANIFEST.hooks"
    if os.path.exists(hf):
        for l in open(hf):
            l = l.strip()
            if l and not l.startswith("#"):
                hooks_commits.append(l.split()[0])
    checks = []
    na = []
    for p in props:
        pid = p["id"]
        if pid in CHECKS:
            level, tech, text, note, ref = CHECKS[pid]
            if pid in ADDED:
                text = text + " " + ADDED[pid]
            checks.append({
                "property_id": pid,
                "quick_cmd": f"cd /verif && ./check {pid} quick",
                "thorough_cmd": f"cd /verif && ./check {pid} thorough",
                "evidence_file": f"/verif/evidence/{pid}.json",
                "replay_cmd_template": f"cd /verif && ./check {pid} --replay {{path}}",
                "engine": "vrun",
                "level_claimed": {"category": level, "text": text, "design_ref": ref},
                "level_note": note,
                "technique": tech,
            })
        else:
            na.append({"property_id": pid, "reason": PENDING_REASON})
    m = {
        "version": 1,
        "setup_cmd": "cd /verif && ./check build",
        "hooks": {
            "guard": "verif",
            "enable": "go build -tags verif in the harness module /verif/harness (replace github.com/Tom-Johnston/mamba => /repo); the tag only adds dawg/verif_export.go and ints/verif_export.go",
            "baseline_off_cmd": "cd /repo && go test -vet=off -count=1 ./...",
            "source_commits": hooks_commits,
            "add_only": True,
        },
        "engines": [{
            "name": "vrun",
            "path": "/verif/harness",
            "serves_properties": sorted(CHECKS),
            "kind_free_text": "runtime monitoring harness: supervisor + sharded child processes running the real library under generated workloads, per-call oracles, CPU watchdog, journals, offline checkers, race detector build for C19",
        }],
        "checks": checks,
        "not_applicable": na,
        "notes": "Single entry point ./check <Cxx> <quick|thorough>. Exit 0 held / 1 VIOLATION / 2 INCONCLUSIVE. known_findings.jsonl lists recorded and fixed defects.",
    }
    json.dump(m, open(f"{V}/MANIFEST.json", "w"), indent=1)
    open(f"{V}/MANIFEST.json", "a").write("\n")
    try:
        import jsonschema
        jsonschema.validate(m, json.load(open("/root/.vp/MANIFEST.schema.json")))
        print("MANIFEST.json valid;", len(checks), "checks,", len(na), "not_applicable")
    except ImportError:
        print("jsonschema not available; wrote MANIFEST.json")

if __name__ == "__main__":
    main()

// Demonstration for C20, change 4 (LIB evaluates all the weights, column by column, before it writes the first byte).
//
// Run (from the root of the library, after copying this file into the tsp directory):
//
//	cp demo_test.go <repo>/tsp/c20_demo_test.go
//	cd <repo> && GOFLAGS=-mod=mod GOPROXY=off GOSUMDB=off GOTOOLCHAIN=local go test -vet=off -count=1 -timeout 600s -run 'TestC20Demo' -v ./tsp
//
// TestC20DemoProperty checks the property itself (well formed and faithful output for several n and weight functions,
// arguments of weights in range, a non-nil error whenever some Write of the underlying writer failed, at every
// position of the failing Write, transient and permanent, with several short counts) and passes before and after the
// change.
// TestC20DemoIncidentalCallOrder pins the OLD order and timing of the calls of weights, none of which the property
// fixes: row by row ((1,0) (2,0) (2,1) (3,0) (3,1) (3,2) for n = 4), the first call only after the three header Writes,
// and no call at all when the first header Write fails. It passes on the clean tree and fails with the change (column
// by column (1,0) (2,0) (3,0) (2,1) (3,1) (3,2), all calls before the first Write, 6 calls even though the first
// Write fails).
package tsp_test

import (
	"errors"
	"fmt"
	"strconv"
	"strings"
	"testing"

	"github.com/Tom-Johnston/mamba/tsp"
)

var errC20Injected = errors.New("c20 demo: injected write failure")

// c20Writer records every Write. The failAt-th Write call (1-based, 0 = never) fails; if permanent every later call
// fails too. A failing call accepts short bytes of its argument (clipped to len(p)) before reporting the error.
type c20Writer struct {
	calls     int
	chunks    []string
	failAt    int
	permanent bool
	short     int
	failed    bool
}

func (w *c20Writer) Write(p []byte) (int, error) {
	w.calls++
	if w.failAt > 0 && (w.calls == w.failAt || (w.permanent && w.calls > w.failAt)) {
		w.failed = true
		k := w.short
		if k > len(p) {
			k = len(p)
		}
		w.chunks = append(w.chunks, string(p[:k]))
		return k, errC20Injected
	}
	w.chunks = append(w.chunks, string(p))
	return len(p), nil
}

func (w *c20Writer) String() string { return strings.Join(w.chunks, "") }

// c20Check parses out as the TSPLIB problem that LIB has to produce for n and weights.
func c20Check(out string, n int, weights func(i, j int) int) error {
	lines := strings.Split(out, "\n")
	if len(lines) == 0 || lines[len(lines)-1] != "" {
		return fmt.Errorf("output does not end with a newline")
	}
	lines = lines[:len(lines)-1]
	header := []string{"TYPE: TSP", "DIMENSION: " + strconv.Itoa(n), "DISPLAY_DATA_TYPE: NO_DISPLAY", "EDGE_WEIGHT_TYPE: EXPLICIT", "EDGE_WEIGHT_FORMAT: LOWER_DIAG_ROW", "EDGE_WEIGHT_SECTION"}
	if len(lines) != len(header)+n+1 {
		return fmt.Errorf("%d lines, want %d", len(lines), len(header)+n+1)
	}
	for k, h := range header {
		if lines[k] != h {
			return fmt.Errorf("header line %d is %q, want %q", k, lines[k], h)
		}
	}
	for i := 0; i < n; i++ {
		fields := strings.Fields(lines[len(header)+i])
		if len(fields) != i+1 {
			return fmt.Errorf("row %d has %d entries", i, len(fields))
		}
		for j, f := range fields {
			v, err := strconv.Atoi(f)
			if err != nil {
				return fmt.Errorf("row %d entry %d: %v", i, j, err)
			}
			want := 0
			if j < i {
				want = weights(i, j)
			}
			if v != want {
				return fmt.Errorf("row %d entry %d is %d, want %d", i, j, v, want)
			}
		}
	}
	if lines[len(lines)-1] != "EOF" {
		return fmt.Errorf("last line is %q, want EOF", lines[len(lines)-1])
	}
	return nil
}

type c20Weights struct {
	name string
	f    func(i, j int) int
}

func c20WeightFunctions() []c20Weights {
	return []c20Weights{
		{"golden", func(i, j int) int {
			if i > j {
				return 100*j + i
			}
			return 100*i + j
		}},
		{"negative", func(i, j int) int { return -(7*i + 3*j + 1) }},
		{"large", func(i, j int) int { return (1<<62 - 1) - 1000003*i - j }},
		{"asymmetric", func(i, j int) int { return (i-2*j)*(i+5) - 40 }},
		{"mixed widths", func(i, j int) int {
			v := 1
			for k := 0; k < (i*i+j)%17; k++ {
				v *= 10
			}
			if (i+j)%3 == 0 {
				v = -v
			}
			return v
		}},
	}
}

// c20Guard wraps weights and records calls with arguments outside 0 <= j < i < n.
func c20Guard(n int, f func(i, j int) int, bad *[]string) func(i, j int) int {
	return func(i, j int) int {
		if !(0 <= j && j < i && i < n) {
			*bad = append(*bad, fmt.Sprintf("(%d,%d)", i, j))
		}
		return f(i, j)
	}
}

func TestC20DemoProperty(t *testing.T) {
	for _, wf := range c20WeightFunctions() {
		for _, n := range []int{0, 1, 2, 3, 5, 11, 24, 90} {
			var bad []string
			good := &c20Writer{}
			err := tsp.LIB(good, n, c20Guard(n, wf.f, &bad))
			if err != nil {
				t.Fatalf("%s n=%d: error %v on a writer that does not fail", wf.name, n, err)
			}
			if err := c20Check(good.String(), n, wf.f); err != nil {
				t.Fatalf("%s n=%d: %v", wf.name, n, err)
			}
			if len(bad) > 0 {
				t.Fatalf("%s n=%d: weights called outside 0 <= j < i < n: %v", wf.name, n, bad)
			}
			// Failing Write at every position that exists in this build (all of them for small n, a sample for n = 90),
			// and a few positions that do not exist.
			positions := []int{}
			for k := 1; k <= good.calls+2; k++ {
				if n <= 24 || k <= 8 || k > good.calls-8 || k%97 == 0 {
					positions = append(positions, k)
				}
			}
			for _, k := range positions {
				for _, permanent := range []bool{false, true} {
					for _, short := range []int{0, 1, 1 << 30} {
						var bad []string
						w := &c20Writer{failAt: k, permanent: permanent, short: short}
						err := tsp.LIB(w, n, c20Guard(n, wf.f, &bad))
						if w.failed && err == nil {
							t.Fatalf("%s n=%d: Write call %d failed (permanent=%v short=%d) but LIB returned nil", wf.name, n, k, permanent, short)
						}
						if err == nil {
							if cerr := c20Check(w.String(), n, wf.f); cerr != nil {
								t.Fatalf("%s n=%d failAt=%d: LIB returned nil but the output is wrong: %v", wf.name, n, k, cerr)
							}
						}
						if len(bad) > 0 {
							t.Fatalf("%s n=%d failAt=%d: weights called outside 0 <= j < i < n: %v", wf.name, n, k, bad)
						}
					}
				}
			}
		}
	}
}

// c20Log is a writer and a weight function that record their calls in one common sequence of events.
type c20Log struct {
	events []string
	failAt int // number of the failing Write call, 0 = never
	writes int
}

func (l *c20Log) Write(p []byte) (int, error) {
	l.writes++
	l.events = append(l.events, "W")
	if l.writes == l.failAt {
		return 0, errC20Injected
	}
	return len(p), nil
}

func (l *c20Log) weights(i, j int) int {
	l.events = append(l.events, fmt.Sprintf("(%d,%d)", i, j))
	return 10*i + j
}

// calls returns the weights events in order, and the number of Writes before the first of them.
func (l *c20Log) calls() (calls []string, writesBefore int) {
	for _, e := range l.events {
		if e == "W" {
			if len(calls) == 0 {
				writesBefore++
			}
			continue
		}
		calls = append(calls, e)
	}
	if len(calls) == 0 {
		writesBefore = -1
	}
	return calls, writesBefore
}

func TestC20DemoIncidentalCallOrder(t *testing.T) {
	n := 4
	l := &c20Log{}
	if err := tsp.LIB(l, n, l.weights); err != nil {
		t.Fatal(err)
	}
	calls, before := l.calls()
	t.Logf("n=%d: weights called with %v; %d Write calls before the first of them; events %v", n, calls, before, l.events)
	// Whatever the build: every pair j < i must have been asked for (the output was checked in TestC20DemoProperty).
	seen := map[string]bool{}
	for _, c := range calls {
		seen[c] = true
	}
	if len(seen) != n*(n-1)/2 {
		t.Fatalf("weights was called for %d distinct pairs, want %d", len(seen), n*(n-1)/2)
	}
	if got, want := strings.Join(calls, " "), "(1,0) (2,0) (2,1) (3,0) (3,1) (3,2)"; got != want {
		t.Errorf("OLD behaviour: weights is called row by row: %s; got %s", want, got)
	}
	if before != 3 {
		t.Errorf("OLD behaviour: the three header Writes come before the first call of weights; got %d Writes before it", before)
	}

	f := &c20Log{failAt: 1}
	err := tsp.LIB(f, n, f.weights)
	calls, _ = f.calls()
	t.Logf("n=%d, first Write failing: err=%v, weights called %d times, events %v", n, err, len(calls), f.events)
	if err == nil {
		t.Fatalf("PROPERTY violated: nil error although the first Write failed")
	}
	if len(calls) != 0 {
		t.Errorf("OLD behaviour: weights is never called when the first header Write fails; got %d calls", len(calls))
	}
}

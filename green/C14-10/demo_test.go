// Demonstration for C14 change 10 (Search stores the solutions it returns in shared chunks).
//
// Run from the repository root (copy this file to dawg/demo_test.go first):
//
//	GOFLAGS=-mod=mod GOPROXY=off GOSUMDB=off GOTOOLCHAIN=local \
//	    go test -vet=off -count=1 -timeout 300s -run 'TestDemo' -v ./dawg/
//
// TestDemoProperty checks the property itself (round trip directly and through
// encoding/gob: same words, ranks, word count, search results, same bytes when
// encoded again, with wide nodes and more than 127 nodes) and that the caller
// really owns every solution (overwriting or appending to one solution changes no
// other solution and nothing in the dawg); it passes with and without the change.
// TestDemoIncidentalAllocations pins the OLD memory behaviour of Search (one
// allocation per solution); it passes on the clean tree and fails with the change.
package dawg_test

import (
	"bytes"
	"encoding/gob"
	"math/rand"
	"sort"
	"testing"

	"github.com/Tom-Johnston/mamba/dawg"
)

func demoBuild(t *testing.T, words [][]byte) *dawg.Dawg {
	t.Helper()
	sort.Slice(words, func(i, j int) bool { return bytes.Compare(words[i], words[j]) < 0 })
	uniq := words[:0]
	for i, w := range words {
		if i == 0 || !bytes.Equal(w, words[i-1]) {
			uniq = append(uniq, w)
		}
	}
	d, err := dawg.New(uniq)
	if err != nil {
		t.Fatal(err)
	}
	return d
}

func demoSame(t *testing.T, name string, a, b *dawg.Dawg) {
	t.Helper()
	if a.NumberOfWords() != b.NumberOfWords() {
		t.Fatalf("%s: word count %d != %d", name, a.NumberOfWords(), b.NumberOfWords())
	}
	wa, ia := a.Search()
	wb, ib := b.Search()
	if len(wa) != len(wb) || len(wa) != a.NumberOfWords() {
		t.Fatalf("%s: number of words listed differs", name)
	}
	for i := range wa {
		if !bytes.Equal(wa[i], wb[i]) || ia[i] != ib[i] || ia[i] != i {
			t.Fatalf("%s: word %d differs", name, i)
		}
		if i > 0 && bytes.Compare(wa[i-1], wa[i]) >= 0 {
			t.Fatalf("%s: words not strictly increasing at %d", name, i)
		}
		ra, oka := a.Lookup(wa[i])
		rb, okb := b.Lookup(wa[i])
		if !oka || !okb || ra != rb || ra != i {
			t.Fatalf("%s: rank of word %d differs", name, i)
		}
	}
	for _, p := range []string{"a?c", "??", "?", "b?", "????", ""} {
		sa, ja := a.Search(dawg.NewPatternSearcher([]byte(p), '?'))
		sb, jb := b.Search(dawg.NewPatternSearcher([]byte(p), '?'))
		if len(sa) != len(sb) || (sa == nil) != (sb == nil) {
			t.Fatalf("%s: pattern %s differs", name, p)
		}
		for i := range sa {
			if !bytes.Equal(sa[i], sb[i]) || ja[i] != jb[i] || len(sa[i]) != len(p) {
				t.Fatalf("%s: pattern %s differs", name, p)
			}
		}
		aa, ka := a.Search(dawg.NewAnagramSearcher([]byte(p), '?'))
		ab, kb := b.Search(dawg.NewAnagramSearcher([]byte(p), '?'))
		if len(aa) != len(ab) {
			t.Fatalf("%s: anagram %s differs", name, p)
		}
		for i := range aa {
			if !bytes.Equal(aa[i], ab[i]) || ka[i] != kb[i] {
				t.Fatalf("%s: anagram %s differs", name, p)
			}
		}
	}
}

func demoRoundTrip(t *testing.T, name string, d *dawg.Dawg) {
	t.Helper()
	enc, err := d.GobEncode()
	if err != nil {
		t.Fatal(err)
	}
	e := new(dawg.Dawg)
	if err := e.GobDecode(enc); err != nil {
		t.Fatalf("%s: %v", name, err)
	}
	demoSame(t, name, d, e)
	enc2, err := e.GobEncode()
	if err != nil || !bytes.Equal(enc, enc2) {
		t.Fatalf("%s: encoding again gives other bytes", name)
	}
	var buf bytes.Buffer
	if err := gob.NewEncoder(&buf).Encode(d); err != nil {
		t.Fatal(err)
	}
	f := new(dawg.Dawg)
	if err := gob.NewDecoder(&buf).Decode(f); err != nil {
		t.Fatalf("%s: %v", name, err)
	}
	demoSame(t, name+"/gob", d, f)
	enc3, err := f.GobEncode()
	if err != nil || !bytes.Equal(enc, enc3) {
		t.Fatalf("%s: encoding again after gob gives other bytes", name)
	}

	//The caller owns the solutions: scribbling over them and appending to them changes nothing else.
	ws, _ := e.Search()
	want := make([][]byte, len(ws))
	for i := range ws {
		want[i] = append([]byte(nil), ws[i]...)
	}
	for i := range ws {
		for k := range ws[i] {
			ws[i][k] ^= 0xff
		}
		grown := append(ws[i], 0xaa, 0xbb, 0xcc)
		_ = grown
		for j := range ws {
			if j == i {
				continue
			}
			exp := want[j]
			if j < i { //already scribbled over
				exp = append([]byte(nil), want[j]...)
				for k := range exp {
					exp[k] ^= 0xff
				}
			}
			if !bytes.Equal(ws[j], exp) {
				t.Fatalf("%s: writing to solution %d changed solution %d", name, i, j)
			}
		}
		if len(ws) > 50 && i > 3 {
			break //keep the quadratic check short on the large cases
		}
	}
	again, _ := e.Search()
	if len(again) != len(want) {
		t.Fatalf("%s: dawg changed", name)
	}
	for i := range again {
		if !bytes.Equal(again[i], want[i]) {
			t.Fatalf("%s: dawg changed by writing to a solution", name)
		}
	}
	enc4, _ := e.GobEncode()
	if !bytes.Equal(enc, enc4) {
		t.Fatalf("%s: encoding changed by writing to a solution", name)
	}
}

func demoWide() [][]byte {
	var wide [][]byte
	for i := 0; i < 200; i++ {
		wide = append(wide, []byte{byte(i + 30)})
		for j := 0; j < 200; j += 1 + i%7 {
			wide = append(wide, []byte{byte(i + 30), byte(j + 50), byte(i)})
		}
	}
	return wide
}

func TestDemoProperty(t *testing.T) {
	demoRoundTrip(t, "empty", demoBuild(t, nil))
	demoRoundTrip(t, "emptyword", demoBuild(t, [][]byte{{}}))
	demoRoundTrip(t, "emptyword+a", demoBuild(t, [][]byte{{}, []byte("a")}))
	demoRoundTrip(t, "abc,bd", demoBuild(t, [][]byte{[]byte("abc"), []byte("bd")}))
	demoRoundTrip(t, "wide", demoBuild(t, demoWide()))
	chain := make([]byte, 299)
	for i := range chain {
		chain[i] = byte(i * 7)
	}
	demoRoundTrip(t, "chain", demoBuild(t, [][]byte{chain, chain[:150], chain[:64], chain[:63]}))
	long := bytes.Repeat([]byte("xy"), 5000) //one solution longer than the largest chunk
	demoRoundTrip(t, "long", demoBuild(t, [][]byte{long, long[:4096], long[:4097], []byte("a")}))
	rng := rand.New(rand.NewSource(1410))
	for c := 0; c < 200; c++ {
		n := rng.Intn(300)
		alpha := 1 + rng.Intn(256)
		var words [][]byte
		for i := 0; i < n; i++ {
			w := make([]byte, rng.Intn(6))
			for k := range w {
				w[k] = byte(rng.Intn(alpha))
			}
			words = append(words, w)
		}
		demoRoundTrip(t, "random", demoBuild(t, words))
	}
}

func TestDemoIncidentalAllocations(t *testing.T) {
	d := demoBuild(t, demoWide())
	n := d.NumberOfWords()
	allocs := testing.AllocsPerRun(10, func() {
		ws, _ := d.Search()
		if len(ws) != n {
			t.Fatal("wrong number of solutions")
		}
	})
	t.Logf("%d solutions, %.0f allocations per Search", n, allocs)
	if allocs < float64(n) {
		t.Fatalf("Search no longer makes one allocation per solution: %d solutions, %.0f allocations", n, allocs)
	}
	ws, _ := d.Search()
	for i := range ws {
		if cap(ws[i]) != len(ws[i]) {
			t.Fatalf("solution %d has spare capacity", i) //holds on both trees
		}
	}
}

// Demo for C18 change 6 (String() is rewritten: it prints set notation "{{0, 4}, {1, 3}, {2}}" instead of the
// fmt rendering "[[0 4] [1 3] [2]]" of Sets(), and it is strictly read-only: it walks to the roots without flattening
// the trees, where the old String() went through Sets() and therefore through Find with path compression).
//
// Run (from the root of the library worktree):
//
//	cp /tmp/green-out/C18/6/demo_test.go disjoint/zz_demo_test.go
//	GOFLAGS=-mod=mod GOPROXY=off GOSUMDB=off GOTOOLCHAIN=local go test -vet=off -count=1 -timeout 120s -run 'TestDemo' -v ./disjoint/
//	rm disjoint/zz_demo_test.go
//
// TestDemoProperty checks the property C18 itself on random interleavings of Union/UnionBuffered/Find/FindBuffered
// with String() calls thrown in (String must not change the partition, and it must list the same sets as Sets(): this is
// checked by extracting the numbers from the text, independent of brackets and separators).  It passes before and after.
// TestDemoIncidentalOld asserts the OLD incidental behaviour (the exact text, String()==fmt.Sprint(Sets()), and the
// path compression String() used to leave behind in the raw slice): it passes on the clean tree and fails with the change.
package disjoint_test

import (
	"fmt"
	"math/rand"
	"reflect"
	"testing"

	"github.com/Tom-Johnston/mamba/disjoint"
)

// model is a naive reference: m[i] is a component label.
type model []int

func newModel(n int) model {
	m := make(model, n)
	for i := range m {
		m[i] = i
	}
	return m
}

func (m model) union(x, y int) {
	a, b := m[x], m[y]
	if a == b {
		return
	}
	for i := range m {
		if m[i] == b {
			m[i] = a
		}
	}
}

func (m model) sets() [][]int {
	var out [][]int
	done := make([]bool, len(m))
	for i := range m {
		if done[i] {
			continue
		}
		var s []int
		for j := i; j < len(m); j++ {
			if m[j] == m[i] {
				s = append(s, j)
				done[j] = true
			}
		}
		out = append(out, s)
	}
	return out
}

func checkAgainstModel(t *testing.T, ds disjoint.Set, m model, where string) {
	t.Helper()
	n := len(m)
	// lookups never change the partition: take all representatives twice.
	reps := make([]int, n)
	for i := 0; i < n; i++ {
		reps[i] = ds.Find(i)
	}
	buf := make([]int, n+1)
	for i := 0; i < n; i++ {
		if r := ds.FindBuffered(i, buf); r != reps[i] {
			t.Fatalf("%s: FindBuffered(%d)=%d but Find gave %d", where, i, r, reps[i])
		}
	}
	for i := 0; i < n; i++ {
		for j := 0; j < n; j++ {
			if (reps[i] == reps[j]) != (m[i] == m[j]) {
				t.Fatalf("%s: elements %d,%d: same representative=%v, connected=%v", where, i, j, reps[i] == reps[j], m[i] == m[j])
			}
		}
	}
	want := m.sets()
	got := ds.Sets()
	if len(got) != len(want) {
		t.Fatalf("%s: Sets()=%v want %v", where, got, want)
	}
	for i := range want {
		if !reflect.DeepEqual(append([]int(nil), got[i]...), want[i]) {
			t.Fatalf("%s: Sets()=%v want %v", where, got, want)
		}
	}
	sr := ds.SmallestRep()
	if len(sr) != n {
		t.Fatalf("%s: SmallestRep has length %d", where, len(sr))
	}
	for _, s := range want {
		for _, v := range s {
			if sr[v] != s[0] {
				t.Fatalf("%s: SmallestRep()[%d]=%d want %d", where, v, sr[v], s[0])
			}
		}
	}
	roots := ds.Roots()
	if len(roots) != len(want) {
		t.Fatalf("%s: Roots()=%v but there are %d sets", where, roots, len(want))
	}
	seen := map[int]bool{}
	for _, r := range roots {
		if r < 0 || r >= n || seen[m[r]] {
			t.Fatalf("%s: Roots()=%v is not one element per set", where, roots)
		}
		seen[m[r]] = true
	}
}

// parseSets reads the sets back from the text of String(), whatever brackets and separators it uses: a set is a
// maximal run of numbers between an opening and a closing bracket with no other bracket in between.
func parseSets(s string) [][]int {
	var out [][]int
	var cur []int
	num, inNum := 0, false
	flush := func() {
		if inNum {
			cur = append(cur, num)
			num, inNum = 0, false
		}
	}
	for _, c := range s {
		switch {
		case c >= '0' && c <= '9':
			num = num*10 + int(c-'0')
			inNum = true
		case c == '[' || c == '{' || c == '(':
			flush()
			cur = nil
		case c == ']' || c == '}' || c == ')':
			flush()
			if cur != nil {
				out = append(out, cur)
				cur = nil
			}
		default:
			flush()
		}
	}
	return out
}

func TestDemoProperty(t *testing.T) {
	rng := rand.New(rand.NewSource(1806))
	for iter := 0; iter < 300; iter++ {
		n := 1 + rng.Intn(40)
		ds := disjoint.New(n)
		m := newModel(n)
		buf := make([]int, n+1)
		steps := rng.Intn(3 * n)
		for s := 0; s < steps; s++ {
			x, y := rng.Intn(n), rng.Intn(n)
			switch rng.Intn(6) {
			case 0:
				ds.Union(x, y)
				m.union(x, y)
			case 1:
				ds.UnionBuffered(x, y, buf)
				m.union(x, y)
			case 2:
				ds.Find(x)
			case 3:
				ds.FindBuffered(x, buf)
			case 4:
				// String() is a lookup too: same sets as the model, partition untouched (checked below)
				if got, want := parseSets(ds.String()), m.sets(); !reflect.DeepEqual(got, want) {
					t.Fatalf("String()=%q lists %v, want %v", ds.String(), got, want)
				}
			case 5:
				ds.Union(x, (x+1)%n)
				m.union(x, (x+1)%n)
			}
			if s%7 == 0 {
				checkAgainstModel(t, ds, m, "mid")
			}
		}
		checkAgainstModel(t, ds, m, "end")
	}
}

func TestDemoIncidentalOld(t *testing.T) {
	// (a) the exact text
	ds := disjoint.New(5)
	ds.Union(0, 4)
	ds.Union(1, 3)
	if got := ds.String(); got != "[[0 4] [1 3] [2]]" {
		t.Errorf("OLD behaviour gone: String()=%q, the old text was %q", got, "[[0 4] [1 3] [2]]")
	}
	if got, want := ds.String(), fmt.Sprint(ds.Sets()); got != want {
		t.Errorf("OLD behaviour gone: String()=%q differs from fmt.Sprint(Sets())=%q", got, want)
	}
	empty := disjoint.New(0)
	if got := empty.String(); got != "[]" {
		t.Errorf("OLD behaviour gone: New(0).String()=%q, the old text was %q", got, "[]")
	}

	// (b) String() used to flatten the trees (it went through Find): 0 -> 1 -> 3 -> 7 with union by rank
	c := disjoint.New(8)
	c.Union(0, 1)
	c.Union(2, 3)
	c.Union(1, 3)
	c.Union(4, 5)
	c.Union(6, 7)
	c.Union(5, 7)
	c.Union(3, 7)
	deepest := 0
	for i := range c {
		d := 0
		for x := i; c[x] >= 0; x = c[x] {
			d++
		}
		if d > deepest {
			deepest = d
		}
	}
	if deepest < 3 {
		t.Skipf("no path of length 3 in %v (different linking rule); nothing more to show", []int(c))
	}
	before := append([]int(nil), c...)
	_ = c.String()
	after := append([]int(nil), c...)
	if reflect.DeepEqual(before, after) {
		t.Errorf("OLD behaviour gone: String() left the raw slice untouched (%v); the old String() flattened the trees", after)
	} else {
		t.Logf("String() changed the raw slice %v -> %v (path compression)", before, after)
	}
}

package gen

import (
	"fmt"
	"math/big"

	"verif/internal/engine"
	"verif/internal/oracle/rg"
)

// Family is a named structured graph, with |Aut| when it is known analytically.
type Family struct {
	Name string
	G    *rg.G
	Aut  *big.Int // nil if not known analytically
}

func fact(n int) *big.Int {
	f := big.NewInt(1)
	for i := 2; i <= n; i++ {
		f.Mul(f, big.NewInt(int64(i)))
	}
	return f
}

func bi(x int64) *big.Int { return big.NewInt(x) }

func mul(a ...*big.Int) *big.Int {
	r := big.NewInt(1)
	for _, x := range a {
		r.Mul(r, x)
	}
	return r
}

func pow(b *big.Int, e int) *big.Int {
	return new(big.Int).Exp(b, big.NewInt(int64(e)), nil)
}

// Circulant returns the circulant graph C_n(diffs).
func Circulant(n int, diffs ...int) *rg.G {
	g := rg.New(n)
	for i := 0; i < n; i++ {
		for _, d := range diffs {
			g.Add(i, ((i+d)%n+n)%n)
		}
	}
	return g
}

// Paley returns the Paley graph on a prime q = 1 mod 4.
func Paley(q int) *rg.G {
	sq := map[int]bool{}
	for x := 1; x < q; x++ {
		sq[x*x%q] = true
	}
	g := rg.New(q)
	for i := 0; i < q; i++ {
		for j := 0; j < i; j++ {
			if sq[(i-j+q)%q] {
				g.Add(i, j)
			}
		}
	}
	return g
}

// Rook returns the a x b rook graph.
func Rook(a, b int) *rg.G {
	g := rg.New(a * b)
	for i := 0; i < a*b; i++ {
		for j := 0; j < i; j++ {
			if i/b == j/b || i%b == j%b {
				g.Add(i, j)
			}
		}
	}
	return g
}

// Shrikhande returns the Shrikhande graph (Cayley graph of Z4 x Z4).
func Shrikhande() *rg.G {
	g := rg.New(16)
	ds := [][2]int{{0, 1}, {1, 0}, {1, 1}}
	for x := 0; x < 4; x++ {
		for y := 0; y < 4; y++ {
			for _, d := range ds {
				g.Add(4*x+y, 4*((x+d[0])%4)+(y+d[1])%4)
			}
		}
	}
	return g
}

// Kneser returns K(n,k) with vertices the k-subsets as bitmasks in increasing order.
func Kneser(n, k int) *rg.G {
	var sets []int
	for s := 0; s < 1<<uint(n); s++ {
		if popc(s) == k {
			sets = append(sets, s)
		}
	}
	g := rg.New(len(sets))
	for i := range sets {
		for j := 0; j < i; j++ {
			if sets[i]&sets[j] == 0 {
				g.Add(i, j)
			}
		}
	}
	return g
}

// Johnson returns J(n,k): k-subsets adjacent when they share k-1 elements (triangular graph for k = 2).
func Johnson(n, k int) *rg.G {
	var sets []int
	for s := 0; s < 1<<uint(n); s++ {
		if popc(s) == k {
			sets = append(sets, s)
		}
	}
	g := rg.New(len(sets))
	for i := range sets {
		for j := 0; j < i; j++ {
			if popc(sets[i]&sets[j]) == k-1 {
				g.Add(i, j)
			}
		}
	}
	return g
}

func popc(x int) int {
	c := 0
	for x != 0 {
		x &= x - 1
		c++
	}
	return c
}

// Hypercube returns Q_d.
func Hypercube(d int) *rg.G {
	g := rg.New(1 << uint(d))
	for i := 0; i < 1<<uint(d); i++ {
		for b := 0; b < d; b++ {
			g.Add(i, i^(1<<uint(b)))
		}
	}
	return g
}

// GenPetersen returns GP(n,k).
func GenPetersen(n, k int) *rg.G {
	g := rg.New(2 * n)
	for i := 0; i < n; i++ {
		g.Add(i, (i+1)%n)
		g.Add(i, n+i)
		g.Add(n+i, n+(i+k)%n)
	}
	return g
}

// CompleteMultipartite returns K_{parts...} with parts consecutive.
func CompleteMultipartite(parts ...int) *rg.G {
	n := 0
	var cls []int
	for pi, p := range parts {
		for i := 0; i < p; i++ {
			cls = append(cls, pi)
		}
		n += p
	}
	g := rg.New(n)
	for i := 0; i < n; i++ {
		for j := 0; j < i; j++ {
			if cls[i] != cls[j] {
				g.Add(i, j)
			}
		}
	}
	return g
}

// Complete returns K_n.
func Complete(n int) *rg.G { return CompleteMultipartite(ones(n)...) }

func ones(n int) []int {
	r := make([]int, n)
	for i := range r {
		r[i] = 1
	}
	return r
}

// Cycle returns C_n (n >= 3).
func Cycle(n int) *rg.G { return Circulant(n, 1) }

// PathG returns P_n.
func PathG(n int) *rg.G {
	g := rg.New(n)
	for i := 0; i+1 < n; i++ {
		g.Add(i, i+1)
	}
	return g
}

// Copies returns the disjoint union of k copies of g.
func Copies(g *rg.G, k int) *rg.G {
	r := rg.New(0)
	for i := 0; i < k; i++ {
		r = rg.Union(r, g)
	}
	return r
}

// Heawood returns the (3,6)-cage, incidence graph of the Fano plane.
func Heawood() *rg.G {
	g := rg.New(14)
	for i := 0; i < 14; i++ {
		g.Add(i, (i+1)%14)
		if i%2 == 0 {
			g.Add(i, (i+5)%14)
		}
	}
	return g
}

// Grid returns the a x b grid.
func Grid(a, b int) *rg.G {
	g := rg.New(a * b)
	for i := 0; i < a; i++ {
		for j := 0; j < b; j++ {
			if j+1 < b {
				g.Add(i*b+j, i*b+j+1)
			}
			if i+1 < a {
				g.Add(i*b+j, (i+1)*b+j)
			}
		}
	}
	return g
}

// Wheel returns the wheel with n rim vertices (hub = n).
func Wheel(n int) *rg.G {
	g := rg.New(n + 1)
	for i := 0; i < n; i++ {
		g.Add(i, (i+1)%n)
		g.Add(i, n)
	}
	return g
}

// Mycielski returns the Mycielskian of g.
func Mycielski(g *rg.G) *rg.G {
	n := g.N
	h := rg.New(2*n + 1)
	for _, e := range g.Edges() {
		h.Add(e[0], e[1])
		h.Add(e[0], n+e[1])
		h.Add(n+e[0], e[1])
	}
	for i := 0; i < n; i++ {
		h.Add(n+i, 2*n)
	}
	return h
}

// Families returns the structured families used by C01/C02 (n <= 64), with
// analytic |Aut| where known.
func Families() []Family {
	var fs []Family
	add := func(name string, g *rg.G, aut *big.Int) { fs = append(fs, Family{name, g, aut}) }
	for _, n := range []int{5, 8, 12, 13, 20, 33, 64} {
		add(fmt.Sprintf("cycle%d", n), Cycle(n), bi(int64(2*n)))
	}
	for _, n := range []int{2, 5, 9, 12} {
		add(fmt.Sprintf("complete%d", n), Complete(n), fact(n))
	}
	for _, n := range []int{1, 2, 3, 7, 12, 20} {
		add(fmt.Sprintf("edgeless%d", n), rg.New(n), fact(n))
	}
	add("circ10(1,4)", Circulant(10, 1, 4), nil)
	add("circ12(1,5)", Circulant(12, 1, 5), nil)
	add("circ13(1,5)", Circulant(13, 1, 5), nil)
	add("circ16(1,4,7)", Circulant(16, 1, 4, 7), nil)
	add("circ24(1,5,7)", Circulant(24, 1, 5, 7), nil)
	add("circ30(2,3,5)", Circulant(30, 2, 3, 5), nil)
	add("circ40(1,9,11)", Circulant(40, 1, 9, 11), nil)
	add("paley5", Paley(5), bi(10))
	add("paley13", Paley(13), bi(78))
	add("paley17", Paley(17), bi(136))
	add("paley29", Paley(29), bi(406))
	add("paley37", Paley(37), bi(666))
	add("rook3x3", Rook(3, 3), bi(72))
	add("rook4x4", Rook(4, 4), bi(1152))
	add("rook5x5", Rook(5, 5), mul(fact(5), fact(5), bi(2)))
	add("rook3x5", Rook(3, 5), mul(fact(3), fact(5)))
	add("rook2x6", Rook(2, 6), mul(fact(2), fact(6)))
	add("shrikhande", Shrikhande(), bi(192))
	add("petersen", Kneser(5, 2), bi(120))
	add("kneser6_2", Kneser(6, 2), bi(720))
	add("kneser7_2", Kneser(7, 2), fact(7))
	add("kneser7_3", Kneser(7, 3), fact(7))
	add("kneser8_3", Kneser(8, 3), fact(8))
	add("triangular5", Johnson(5, 2), bi(120))
	add("triangular6", Johnson(6, 2), bi(720))
	add("triangular7", Johnson(7, 2), fact(7))
	add("johnson6_3", Johnson(6, 3), bi(1440))
	add("johnson8_2", Johnson(8, 2), fact(8))
	for d := 1; d <= 6; d++ {
		add(fmt.Sprintf("hypercube%d", d), Hypercube(d), mul(pow(bi(2), d), fact(d)))
	}
	add("gp7_2", GenPetersen(7, 2), bi(14))
	add("gp8_3", GenPetersen(8, 3), bi(96))
	add("gp10_2", GenPetersen(10, 2), bi(120))
	add("gp10_3", GenPetersen(10, 3), bi(240))
	add("gp12_5", GenPetersen(12, 5), bi(144))
	add("gp24_5", GenPetersen(24, 5), bi(288))
	add("gp9_2", GenPetersen(9, 2), bi(18))
	add("heawood", Heawood(), bi(336))
	add("K3,3", CompleteMultipartite(3, 3), bi(72))
	add("K4,4,4", CompleteMultipartite(4, 4, 4), mul(pow(fact(4), 3), fact(3)))
	add("K2,3,4", CompleteMultipartite(2, 3, 4), mul(fact(2), fact(3), fact(4)))
	add("K1,7", CompleteMultipartite(1, 7), fact(7))
	add("K5,5", CompleteMultipartite(5, 5), mul(fact(5), fact(5), bi(2)))
	add("K2,2,2,2,2", CompleteMultipartite(2, 2, 2, 2, 2), mul(pow(bi(2), 5), fact(5)))
	add("K6,10", CompleteMultipartite(6, 10), mul(fact(6), fact(10)))
	add("4xK3", Copies(Complete(3), 4), mul(pow(bi(6), 4), fact(4)))
	add("3xC5", Copies(Cycle(5), 3), mul(pow(bi(10), 3), fact(3)))
	add("5xK2", Copies(Complete(2), 5), mul(pow(bi(2), 5), fact(5)))
	add("2xPetersen", Copies(Kneser(5, 2), 2), bi(120*120*2))
	add("3xP3", Copies(PathG(3), 3), mul(pow(bi(2), 3), fact(3)))
	add("2xQ3", Copies(Hypercube(3), 2), bi(48*48*2))
	add("C4+C5+K1", rg.Union(rg.Union(Cycle(4), Cycle(5)), rg.New(1)), bi(8*10))
	add("2xK3+3xK1", rg.Union(Copies(Complete(3), 2), rg.New(3)), bi(6*6*2*6))
	add("co-petersen", Kneser(5, 2).Complement(), bi(120))
	add("co-3xC5", Copies(Cycle(5), 3).Complement(), mul(pow(bi(10), 3), fact(3)))
	add("co-cycle9", Cycle(9).Complement(), bi(18))
	add("grid3x4", Grid(3, 4), bi(4))
	add("grid4x4", Grid(4, 4), bi(8))
	add("grid5x8", Grid(5, 8), bi(4))
	add("wheel6", Wheel(6), bi(12))
	add("wheel9", Wheel(9), bi(18))
	add("path9", PathG(9), bi(2))
	add("path30", PathG(30), bi(2))
	add("star12", CompleteMultipartite(1, 11), fact(11))
	add("mycielski-c5(grotzsch)", Mycielski(Cycle(5)), bi(10))
	add("mycielski-grotzsch", Mycielski(Mycielski(Cycle(5))), bi(10))
	add("prism8", GenPetersen(8, 1), bi(32))
	add("moebius-kantor", GenPetersen(8, 3), bi(96))
	add("desargues", GenPetersen(10, 3), bi(240))
	add("dodecahedron", GenPetersen(10, 2), bi(120))
	add("nauru", GenPetersen(12, 5), bi(144))
	return fs
}

// Random returns G(n,p).
func Random(r *engine.Rng, n int, p float64) *rg.G {
	g := rg.New(n)
	for i := 0; i < n; i++ {
		for j := 0; j < i; j++ {
			if r.Bool(p) {
				g.Add(i, j)
			}
		}
	}
	return g
}

// RandomTree returns a random recursive tree on n vertices, randomly relabelled.
func RandomTree(r *engine.Rng, n int) *rg.G {
	g := rg.New(n)
	for v := 1; v < n; v++ {
		g.Add(v, r.Intn(v))
	}
	if n == 0 {
		return g
	}
	return g.Induced(r.Perm(n))
}

// RandomRegular returns a random d-regular graph on n vertices by the pairing
// model with restarts (n*d even, d < n); nil if it fails repeatedly.
func RandomRegular(r *engine.Rng, n, d int) *rg.G {
	for try := 0; try < 200; try++ {
		pts := make([]int, 0, n*d)
		for v := 0; v < n; v++ {
			for k := 0; k < d; k++ {
				pts = append(pts, v)
			}
		}
		r.Shuffle(pts)
		g := rg.New(n)
		ok := true
		for i := 0; i+1 < len(pts); i += 2 {
			a, b := pts[i], pts[i+1]
			if a == b || g.Has(a, b) {
				ok = false
				break
			}
			g.Add(a, b)
		}
		if ok {
			return g
		}
	}
	return nil
}

// RandomSubsetGraph returns a random graph with exactly the given degree irregularity profile: used to get large cells with many distinct neighbour counts.
func RandomIrregular(r *engine.Rng, n int) *rg.G {
	// two-block structure: a big block of vertices with equal degree inside the block (circulant) attached to a random number of hub vertices
	h := 3 + r.Intn(6)
	b := n - h
	g := rg.New(n)
	for i := 0; i < b; i++ {
		g.Add(i, (i+1)%b)
	}
	for i := 0; i < b; i++ {
		k := r.Intn(h + 1)
		p := r.Perm(h)
		for _, x := range p[:k] {
			g.Add(i, b+x)
		}
	}
	return g
}

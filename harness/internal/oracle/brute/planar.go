package brute

// Reference planarity: DMP on blocks, producing faces (directed closed walks); certificate checkers.

// checkEmbedding verifies that faces is a genus-0 embedding of the connected graph on vertex set vs (bitmask) with adjacency g restricted to vs.
func checkEmbedding(g *G, vs uint32, faces [][]int) bool {
	type de struct{ u, v int }
	seen := map[de]bool{}
	sigma := map[de]int{} // (v,u) -> w : at v, after arriving from u we leave to w
	for _, f := range faces {
		k := len(f)
		if k < 3 {
			return false
		}
		for i := 0; i < k; i++ {
			u, v, w := f[i], f[(i+1)%k], f[(i+2)%k]
			if vs>>uint(u)&1 == 0 || vs>>uint(v)&1 == 0 || !g.Has(u, v) {
				return false
			}
			if seen[de{u, v}] {
				return false
			}
			seen[de{u, v}] = true
			sigma[de{v, u}] = w
		}
	}
	nv, ne := 0, 0
	for t := vs; t != 0; t &= t - 1 {
		v := tz(t)
		nv++
		nb := g.Adj[v] & vs
		ne += popc(nb)
		for s := nb; s != 0; s &= s - 1 {
			if !seen[de{v, tz(s)}] {
				return false
			}
		}
		// sigma at v must be single cycle over nb
		start := tz(nb)
		cur := start
		cnt := 0
		for {
			cur = sigma[de{v, cur}]
			cnt++
			if cur == start || cnt > 40 {
				break
			}
		}
		if cnt != popc(nb) {
			return false
		}
	}
	ne /= 2
	if len(seen) != 2*ne {
		return false
	}
	return nv-ne+len(faces) == 2
}

// isKuratowski checks that the edge set (as graph k on same vertex set) is a subdivision of K5 or K3,3.
func isKuratowski(k *G) bool {
	var branch []int
	for v := 0; v < k.N; v++ {
		d := popc(k.Adj[v])
		switch {
		case d == 0 || d == 2:
		case d == 3 || d == 4:
			branch = append(branch, v)
		default:
			return false
		}
	}
	if len(branch) != 5 && len(branch) != 6 {
		return false
	}
	isBranch := map[int]int{}
	for i, b := range branch {
		isBranch[b] = i
	}
	nb := len(branch)
	conn := make([][]int, nb)
	for i := range conn {
		conn[i] = make([]int, nb)
	}
	usedDeg2 := uint32(0)
	for bi, b := range branch {
		for t := k.Adj[b]; t != 0; t &= t - 1 {
			prev, cur := b, tz(t)
			for {
				if _, ok := isBranch[cur]; ok {
					break
				}
				if popc(k.Adj[cur]) != 2 {
					return false
				}
				usedDeg2 |= 1 << uint(cur)
				nx := tz(k.Adj[cur] &^ (1 << uint(prev)))
				prev, cur = cur, nx
			}
			if cur == b {
				return false
			}
			conn[bi][isBranch[cur]]++
		}
	}
	// every degree-2 vertex must lie on a branch path (no extra cycles)
	for v := 0; v < k.N; v++ {
		if popc(k.Adj[v]) == 2 && usedDeg2>>uint(v)&1 == 0 {
			return false
		}
	}
	if nb == 5 {
		for i := 0; i < 5; i++ {
			if popc(k.Adj[branch[i]]) != 4 {
				return false
			}
			for j := 0; j < 5; j++ {
				if i != j && conn[i][j] != 1 {
					return false
				}
			}
		}
		return true
	}
	// K3,3
	for i := 0; i < 6; i++ {
		if popc(k.Adj[branch[i]]) != 3 {
			return false
		}
	}
	// side of branch 0: non-neighbours
	side := make([]int, 6)
	for j := 1; j < 6; j++ {
		if conn[0][j] == 1 {
			side[j] = 1
		} else if conn[0][j] != 0 {
			return false
		}
	}
	cnt := 0
	for _, s := range side {
		cnt += s
	}
	if cnt != 3 {
		return false
	}
	for i := 0; i < 6; i++ {
		for j := 0; j < 6; j++ {
			if i == j {
				continue
			}
			want := 0
			if side[i] != side[j] {
				want = 1
			}
			if conn[i][j] != want {
				return false
			}
		}
	}
	return true
}

// dmpBlock: h restricted to vertex set vs is biconnected with >= 3 vertices. Returns faces if planar, nil otherwise.
func dmpBlock(g *G, vs uint32) [][]int {
	n := g.N
	adj := make([]uint32, n)
	for t := vs; t != 0; t &= t - 1 {
		v := tz(t)
		adj[v] = g.Adj[v] & vs
	}
	// find a cycle by DFS
	root := tz(vs)
	parent := make([]int, n)
	for i := range parent {
		parent[i] = -2
	}
	parent[root] = -1
	var cyc []int
	var dfs func(v int) bool
	dfs = func(v int) bool {
		for t := adj[v]; t != 0; t &= t - 1 {
			u := tz(t)
			if u == parent[v] {
				continue
			}
			if parent[u] != -2 {
				// back edge v-u: cycle u ... v
				c := []int{v}
				x := v
				for x != u {
					x = parent[x]
					c = append(c, x)
				}
				cyc = c
				return true
			}
			parent[u] = v
			if dfs(u) {
				return true
			}
		}
		return false
	}
	if !dfs(root) {
		return nil
	}
	emb := make([]uint32, n) // embedded adjacency
	var embV uint32
	addE := func(a, b int) {
		emb[a] |= 1 << uint(b)
		emb[b] |= 1 << uint(a)
		embV |= 1<<uint(a) | 1<<uint(b)
	}
	for i := range cyc {
		addE(cyc[i], cyc[(i+1)%len(cyc)])
	}
	rev := make([]int, len(cyc))
	for i := range cyc {
		rev[i] = cyc[len(cyc)-1-i]
	}
	faces := [][]int{append([]int{}, cyc...), rev}
	totalE := 0
	for t := vs; t != 0; t &= t - 1 {
		totalE += popc(adj[tz(t)])
	}
	totalE /= 2
	embE := len(cyc)
	type frag struct {
		inner  uint32 // interior vertices
		attach uint32
		ea, eb int // for single-edge fragment
	}
	for embE < totalE {
		var frags []frag
		// single edges
		for t := embV; t != 0; t &= t - 1 {
			v := tz(t)
			for s := adj[v] &^ emb[v] & embV; s != 0; s &= s - 1 {
				u := tz(s)
				if u < v {
					frags = append(frags, frag{attach: 1<<uint(u) | 1<<uint(v), ea: u, eb: v})
				}
			}
		}
		rest := vs &^ embV
		for rest != 0 {
			s := tz(rest)
			comp := uint32(1) << uint(s)
			stack := []int{s}
			var att uint32
			for len(stack) > 0 {
				v := stack[len(stack)-1]
				stack = stack[:len(stack)-1]
				att |= adj[v] & embV
				for t := adj[v] &^ embV &^ comp; t != 0; t &= t - 1 {
					u := tz(t)
					comp |= 1 << uint(u)
					stack = append(stack, u)
				}
			}
			rest &^= comp
			frags = append(frags, frag{inner: comp, attach: att})
		}
		// admissible faces
		bestI, bestCnt, bestFace := -1, 1<<30, -1
		for i, f := range frags {
			cnt, fi := 0, -1
			for j, fc := range faces {
				var m uint32
				for _, v := range fc {
					m |= 1 << uint(v)
				}
				if f.attach&^m == 0 {
					cnt++
					fi = j
				}
			}
			if cnt == 0 {
				return nil
			}
			if cnt < bestCnt {
				bestI, bestCnt, bestFace = i, cnt, fi
			}
		}
		f := frags[bestI]
		// path between two attachments through the fragment
		var path []int
		if f.inner == 0 {
			path = []int{f.ea, f.eb}
		} else {
			a := tz(f.attach)
			// BFS from a through inner to another attachment
			prev := make([]int, n)
			for i := range prev {
				prev[i] = -1
			}
			queue := []int{}
			var visited uint32
			for t := adj[a] & f.inner; t != 0; t &= t - 1 {
				u := tz(t)
				prev[u] = a
				visited |= 1 << uint(u)
				queue = append(queue, u)
			}
			end := -1
			var last int
			for len(queue) > 0 && end < 0 {
				v := queue[0]
				queue = queue[1:]
				if b := adj[v] & f.attach &^ (1 << uint(a)); b != 0 {
					end = tz(b)
					last = v
					break
				}
				for t := adj[v] & f.inner &^ visited; t != 0; t &= t - 1 {
					u := tz(t)
					visited |= 1 << uint(u)
					prev[u] = v
					queue = append(queue, u)
				}
			}
			if end < 0 {
				panic("reference DMP: fragment with a single attachment in a biconnected graph")
			}
			p := []int{end}
			for x := last; x != a; x = prev[x] {
				p = append(p, x)
			}
			p = append(p, a)
			// p goes end ... a ; reverse to a ... end
			for i, j := 0, len(p)-1; i < j; i, j = i+1, j-1 {
				p[i], p[j] = p[j], p[i]
			}
			path = p
		}
		// split face
		F := faces[bestFace]
		a, b := path[0], path[len(path)-1]
		ia, ib := -1, -1
		for i, v := range F {
			if v == a {
				ia = i
			}
			if v == b {
				ib = i
			}
		}
		k := len(F)
		// F1: a -> along F -> b, then interior reversed
		var F1, F2 []int
		for i := ia; ; i = (i + 1) % k {
			F1 = append(F1, F[i])
			if i == ib {
				break
			}
		}
		for i := len(path) - 2; i >= 1; i-- {
			F1 = append(F1, path[i])
		}
		for i := ib; ; i = (i + 1) % k {
			F2 = append(F2, F[i])
			if i == ia {
				break
			}
		}
		for i := 1; i <= len(path)-2; i++ {
			F2 = append(F2, path[i])
		}
		faces[bestFace] = F1
		faces = append(faces, F2)
		for i := 0; i+1 < len(path); i++ {
			addE(path[i], path[i+1])
			embE++
		}
	}
	return faces
}

// blocksOf returns the blocks (vertex bitmasks) using lowpoint DFS.
func blocksOf(g *G) []uint32 {
	n := g.N
	disc := make([]int, n)
	low := make([]int, n)
	for i := range disc {
		disc[i] = -1
	}
	var out []uint32
	type edge struct{ u, v int }
	var st []edge
	timer := 0
	var dfs func(v, p int)
	dfs = func(v, p int) {
		disc[v] = timer
		low[v] = timer
		timer++
		for t := g.Adj[v]; t != 0; t &= t - 1 {
			u := tz(t)
			if u == p {
				continue
			}
			if disc[u] == -1 {
				st = append(st, edge{v, u})
				dfs(u, v)
				if low[u] < low[v] {
					low[v] = low[u]
				}
				if low[u] >= disc[v] {
					var m uint32
					for {
						e := st[len(st)-1]
						st = st[:len(st)-1]
						m |= 1<<uint(e.u) | 1<<uint(e.v)
						if e.u == v && e.v == u {
							break
						}
					}
					out = append(out, m)
				}
			} else if disc[u] < disc[v] {
				st = append(st, edge{v, u})
				if disc[u] < low[v] {
					low[v] = disc[u]
				}
			}
		}
	}
	for v := 0; v < n; v++ {
		if disc[v] == -1 {
			dfs(v, -1)
		}
	}
	return out
}

// RefPlanar returns the verdict with a checked certificate. certOK=false means the reference could not certify (inconclusive).
func RefPlanar(g *G) (planar bool, certOK bool) {
	planar = true
	certOK = true
	for _, b := range blocksOf(g) {
		if popc(b) < 3 {
			continue
		}
		faces := dmpBlock(g, b)
		if faces == nil {
			planar = false
			break
		}
		if !checkEmbedding(g, b, faces) {
			certOK = false
		}
	}
	if planar {
		return true, certOK
	}
	// extract Kuratowski subgraph by greedy edge deletion
	k := NewG(g.N)
	copy(k.Adj, g.Adj)
	for i := 0; i < g.N; i++ {
		for j := 0; j < i; j++ {
			if !k.Has(i, j) {
				continue
			}
			k.Adj[i] &^= 1 << uint(j)
			k.Adj[j] &^= 1 << uint(i)
			if refPlanarNoCert(k) {
				k.Add(i, j)
			}
		}
	}
	return false, isKuratowski(k)
}

func refPlanarNoCert(g *G) bool {
	for _, b := range blocksOf(g) {
		if popc(b) < 3 {
			continue
		}
		if dmpBlock(g, b) == nil {
			return false
		}
	}
	return true
}

// Demonstration for change 4 (NewSortedInts with no arguments returns the zero value of SortedInts, a nil slice,
// instead of an allocated empty slice; already sorted input is not sorted again).
//
// Run from the repository root:
//
//	cp demo_test.go sortints/demo_test.go
//	GOFLAGS=-mod=mod GOPROXY=off GOSUMDB=off GOTOOLCHAIN=local go test -vet=off -count=1 -timeout 120s -run 'TestDemo' -v ./sortints/
//
// TestDemoProperty checks the property itself: NewSortedInts of arbitrary argument lists (empty, unsorted, sorted,
// with repeats, negative values) is the strictly increasing slice of the distinct arguments, the argument slice is
// untouched, and the value built (the empty one in particular) behaves as that set in every other operation.  It
// passes on the clean tree and with the change.
// TestDemoIncidentalEmptyIsNonNil asserts the OLD incidental behaviour (NewSortedInts() is a non-nil slice of length
// 0, so it is reflect.DeepEqual to SortedInts{} and ints.Equal to []int{}): it passes on the clean tree and FAILS with
// the change, where the empty set is encoded as the nil slice.
package sortints_test

import (
	"math/rand"
	"reflect"
	"sort"
	"testing"

	"github.com/Tom-Johnston/mamba/ints"
	"github.com/Tom-Johnston/mamba/sortints"
)

func distinctSorted(x []int) []int {
	m := map[int]bool{}
	for _, v := range x {
		m[v] = true
	}
	r := make([]int, 0, len(m))
	for k := range m {
		r = append(r, k)
	}
	sort.Ints(r)
	return r
}

func sameInts(a, b []int) bool {
	if len(a) != len(b) {
		return false
	}
	for i := range a {
		if a[i] != b[i] {
			return false
		}
	}
	return true
}

func TestDemoProperty(t *testing.T) {
	rng := rand.New(rand.NewSource(174))
	for iter := 0; iter < 20000; iter++ {
		k := rng.Intn(9)
		args := make([]int, k)
		for i := range args {
			args[i] = rng.Intn(13) - 6
		}
		switch rng.Intn(4) {
		case 0: //already sorted, possibly with repeats
			sort.Ints(args)
		case 1: //strictly increasing
			args = distinctSorted(args)
		case 2: //descending
			sort.Sort(sort.Reverse(sort.IntSlice(args)))
		}
		argsCopy := append([]int(nil), args...)
		got := sortints.NewSortedInts(args...)
		want := distinctSorted(args)
		if !sameInts(got, want) {
			t.Fatalf("NewSortedInts(%v) = %v, want %v", args, []int(got), want)
		}
		if !sameInts(args, argsCopy) {
			t.Fatalf("NewSortedInts changed its arguments: %v -> %v", argsCopy, args)
		}
		//The result does not share memory with the arguments.
		for i := range got {
			got[i] += 1000
		}
		if !sameInts(args, argsCopy) {
			t.Fatalf("NewSortedInts result aliases its arguments")
		}
	}

	//The empty set built by NewSortedInts is a working set in every operation.
	a := sortints.SortedInts{-3, 0, 4}
	e := sortints.NewSortedInts()
	if len(e) != 0 {
		t.Fatalf("NewSortedInts() has length %d", len(e))
	}
	if r := sortints.Union(a, e); !sameInts(r, a) {
		t.Fatalf("Union(a, {}) = %v", []int(r))
	}
	if r := sortints.Union(e, e); len(r) != 0 {
		t.Fatalf("Union({}, {}) = %v", []int(r))
	}
	if r := sortints.Intersection(e, a); len(r) != 0 {
		t.Fatalf("Intersection({}, a) = %v", []int(r))
	}
	if sortints.IntersectionSize(a, e) != 0 {
		t.Fatalf("IntersectionSize(a, {}) != 0")
	}
	if r := sortints.SetMinus(a, e); !sameInts(r, a) {
		t.Fatalf("SetMinus(a, {}) = %v", []int(r))
	}
	if r := sortints.SetMinus(e, a); len(r) != 0 {
		t.Fatalf("SetMinus({}, a) = %v", []int(r))
	}
	if r := sortints.XOR(e, a); !sameInts(r, a) {
		t.Fatalf("XOR({}, a) = %v", []int(r))
	}
	if r := sortints.Complement(3, e); !sameInts(r, []int{0, 1, 2}) {
		t.Fatalf("Complement(3, {}) = %v", []int(r))
	}
	if sortints.ContainsSingle(e, 0) || !sortints.ContainsSorted(a, e) || !sortints.ContainsSorted(e, e) || sortints.ContainsSorted(e, a) {
		t.Fatalf("Contains* wrong on the empty set")
	}
	e.Remove(1)
	if len(e) != 0 {
		t.Fatalf("Remove on the empty set: %v", []int(e))
	}
	e.Add(2, -1, 2)
	if !sameInts(e, []int{-1, 2}) {
		t.Fatalf("Add on the empty set: %v", []int(e))
	}
	e = sortints.NewSortedInts()
	e.Add(7)
	if !sameInts(e, []int{7}) {
		t.Fatalf("Add on the empty set: %v", []int(e))
	}
	e = sortints.NewSortedInts()
	e.Union(a)
	if !sameInts(e, a) || !sameInts(a, []int{-3, 0, 4}) {
		t.Fatalf("Union method on the empty set: %v", []int(e))
	}
	e[0] = 99
	if a[0] != -3 {
		t.Fatalf("Union method on the empty set aliases its argument")
	}
	b := sortints.SortedInts{-3, 0, 4}
	b.Union(sortints.NewSortedInts())
	if !sameInts(b, []int{-3, 0, 4}) {
		t.Fatalf("Union method with the empty set: %v", []int(b))
	}
}

func TestDemoIncidentalEmptyIsNonNil(t *testing.T) {
	e := sortints.NewSortedInts()
	t.Logf("NewSortedInts(): len %d, nil: %v", len(e), e == nil)
	if e == nil {
		t.Errorf("OLD behaviour expected: NewSortedInts() is a non-nil empty slice; got nil")
	}
	if !reflect.DeepEqual(e, sortints.SortedInts{}) {
		t.Errorf("OLD behaviour expected: reflect.DeepEqual(NewSortedInts(), SortedInts{})")
	}
	if !ints.Equal(e, []int{}) {
		t.Errorf("OLD behaviour expected: ints.Equal(NewSortedInts(), []int{})")
	}
	none := []int{}
	if f := sortints.NewSortedInts(none...); f == nil {
		t.Errorf("OLD behaviour expected: NewSortedInts(none...) is a non-nil empty slice; got nil")
	}
}

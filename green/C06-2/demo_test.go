// Demo for C06 change 2 (RandomGraph draws geometric skips between edges instead of one coin per pair, so the
// graph that a given seed produces is a different, equally valid, sample of G(n,p)).
//
// Run (from the root of the library worktree):
//
//	cp /tmp/green-out/C06/2/demo_test.go graph/zz_c06_demo2_test.go
//	GOFLAGS=-mod=mod GOPROXY=off GOSUMDB=off GOTOOLCHAIN=local go test -vet=off -count=1 -timeout 120s -run 'TestC06Demo2' -v ./graph/
//	rm graph/zz_c06_demo2_test.go
//
// TestC06Demo2Property checks the property itself on RandomGraph outputs (symmetric, loop-free, M / Degrees /
// Neighbours agree with the adjacency, p<=0 gives the empty graph and p>=1 the complete graph, the same seed gives
// the same graph) and passes on the clean tree AND with the change.
// TestC06Demo2IncidentalOldStream asserts the OLD incidental behaviour (the graph for a seed is the one obtained by
// comparing one rand.Float64() per pair, pairs taken in the order 01, 02, 12, 03, ...); it passes on the clean tree
// and FAILS with the change.
package graph_test

import (
	"math/rand"
	"sort"
	"testing"

	"github.com/Tom-Johnston/mamba/graph"
)

var c06demo2Ns = []int{0, 1, 2, 3, 5, 8, 13, 30}
var c06demo2Ps = []float64{-1, 0, 0.05, 0.3, 0.5, 0.9, 1, 2}
var c06demo2Seeds = []int64{0, 1, 2, 42, -7}

func c06demo2WellFormed(t *testing.T, g *graph.DenseGraph, n int) {
	t.Helper()
	if g.N() != n {
		t.Fatalf("N = %d, want %d", g.N(), n)
	}
	m := 0
	deg := make([]int, n)
	for j := 0; j < n; j++ {
		if g.IsEdge(j, j) {
			t.Fatalf("loop at %d", j)
		}
		for i := 0; i < j; i++ {
			if g.IsEdge(i, j) != g.IsEdge(j, i) {
				t.Fatalf("not symmetric at %d,%d", i, j)
			}
			if g.IsEdge(i, j) {
				m++
				deg[i]++
				deg[j]++
			}
		}
	}
	if g.M() != m {
		t.Fatalf("M = %d, adjacency has %d edges", g.M(), m)
	}
	d := g.Degrees()
	if len(d) != n {
		t.Fatalf("len(Degrees) = %d, want %d", len(d), n)
	}
	for v := 0; v < n; v++ {
		if d[v] != deg[v] {
			t.Fatalf("Degrees[%d] = %d, adjacency says %d", v, d[v], deg[v])
		}
		nb := append([]int(nil), g.Neighbours(v)...)
		sort.Ints(nb)
		var want []int
		for u := 0; u < n; u++ {
			if u != v && g.IsEdge(u, v) {
				want = append(want, u)
			}
		}
		if len(nb) != len(want) {
			t.Fatalf("Neighbours(%d) = %v, adjacency says %v", v, nb, want)
		}
		for k := range nb {
			if nb[k] != want[k] {
				t.Fatalf("Neighbours(%d) = %v, adjacency says %v", v, nb, want)
			}
		}
	}
}

func TestC06Demo2Property(t *testing.T) {
	for _, n := range c06demo2Ns {
		for _, p := range c06demo2Ps {
			for _, seed := range c06demo2Seeds {
				g := graph.RandomGraph(n, p, seed)
				c06demo2WellFormed(t, g, n)
				if p <= 0 && g.M() != 0 {
					t.Fatalf("n=%d p=%v: M = %d, want 0", n, p, g.M())
				}
				if p >= 1 && g.M() != n*(n-1)/2 {
					t.Fatalf("n=%d p=%v: M = %d, want %d", n, p, g.M(), n*(n-1)/2)
				}
				if h := graph.RandomGraph(n, p, seed); !graph.Equal(g, h) {
					t.Fatalf("n=%d p=%v seed=%d: two calls give different graphs", n, p, seed)
				}
			}
		}
	}
}

func TestC06Demo2IncidentalOldStream(t *testing.T) {
	for _, n := range []int{5, 8, 13, 30} {
		for _, p := range []float64{0.05, 0.3, 0.5, 0.9} {
			for _, seed := range c06demo2Seeds {
				g := graph.RandomGraph(n, p, seed)
				r := rand.New(rand.NewSource(seed))
				old := graph.NewDense(n, nil)
				for i := 0; i < n; i++ {
					for j := 0; j < i; j++ {
						if r.Float64() < p {
							old.AddEdge(i, j)
						}
					}
				}
				if !graph.Equal(g, old) {
					t.Errorf("n=%d p=%v seed=%d: got %s, one coin per pair gives %s", n, p, seed, graph.Graph6Encode(g), graph.Graph6Encode(old))
				}
			}
		}
	}
}
